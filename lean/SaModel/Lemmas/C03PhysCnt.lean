import SaModel.Lemmas.C11PhysBasic
import SaModel.Lemmas.C03WF
/-
C03 → C02 bridge, `Read.physical` for ALL types: the COUNTING invariant of the builders.

`Read.physical` bounds two lengths no Arrow buffer bounds: the number of VALUES of a dictionary and the length of the
children of a (dense) union (below which a FixedSizeList multiplies).  Neither `Spec.wf` nor the state invariant `WFH`
bounds them from above.  `Cnt` does:

  dictionary   the key builder is an integer leaf and `index.length ≤ (number of keys pushed)` — a string enters the index
               only together with a key; `serialize_none` / `serialize_default` push a key and no value
  union        every per-variant counter is at most the number of rows (`types.length`)

`Cnt` only mentions state that survives `erase` (`Cnt_erase`), so it is proved for `pushL` (Lemmas/C11PhysDefs.lean) —
the state after a push as a TOTAL function of the documented value — and transferred to `push` through
`Props.C11.push_determined` (Lemmas/C03PhysRun.lean).  Here: `pushL_cnt`, and `takeRest_cnt` (a fresh builder has it).
-/
namespace SaModel.Build
open SaModel SaModel.Spec

mutual
/-- the counting invariant (see the header) -/
def Cnt : B → Prop
  | .list _ _ _ _ _ el => Cnt el
  | .fixedSizeList _ _ _ _ _ _ el => Cnt el
  | .map _ _ _ _ ks vs => Cnt ks ∧ Cnt vs
  | .struct _ _ _ fs _ _ _ => CntL fs
  | .dictionary _ idx _ index => idx.isIntLeaf = true ∧ index.length ≤ idx.rows
  | .union _ fs types _ cur => CntL fs ∧ ∀ c ∈ cur, c ≤ (types.length : Int)
  | _ => True
def CntL : BL → Prop
  | .nil => True
  | .cons b _ r => Cnt b ∧ CntL r
end

theorem erase_isIntLeaf (b : B) : (erase b).isIntLeaf = b.isIntLeaf := by
  cases b <;> simp [erase, B.isIntLeaf]

mutual
theorem Cnt_erase : ∀ (b : B), Cnt (erase b) ↔ Cnt b
  | .null _ _ | .unknownVariant _ | .leaf _ _ _ _ | .bytes _ _ _ _ _ | .bytesView _ _ _ _ _
  | .fixedSizeBinary _ _ _ _ _ _ => by simp [erase, Cnt]
  | .list _ _ _ _ _ el => by simp only [erase, Cnt]; exact Cnt_erase el
  | .fixedSizeList _ _ _ _ _ _ el => by simp only [erase, Cnt]; exact Cnt_erase el
  | .map _ _ _ _ ks vs => by simp only [erase, Cnt]; rw [Cnt_erase ks, Cnt_erase vs]
  | .struct _ _ _ fs _ _ _ => by simp only [erase, Cnt]; exact CntL_eraseL fs
  | .dictionary _ idx _ index => by simp only [erase, Cnt, erase_isIntLeaf, erase_rows]
  | .union _ fs _ _ _ => by simp only [erase, Cnt]; rw [CntL_eraseL fs]
theorem CntL_eraseL : ∀ (fs : BL), CntL (eraseL fs) ↔ CntL fs
  | .nil => by simp [eraseL, CntL]
  | .cons b _ r => by simp only [eraseL, CntL]; rw [Cnt_erase b, CntL_eraseL r]
end

theorem CntL_set : ∀ (fs : BL) (j : Nat) (c : B), CntL fs → Cnt c → CntL (fs.set j c)
  | .nil, _, _, _, _ => by simp [BL.set, CntL]
  | .cons b m r, 0, c, h, hc => by simp only [CntL] at h; simp only [BL.set, CntL]; exact ⟨hc, h.2⟩
  | .cons b m r, j + 1, c, h, hc => by
    simp only [CntL] at h; simp only [BL.set, CntL]; exact ⟨h.1, CntL_set r j c h.2 hc⟩

theorem CntL_get : ∀ (fs : BL) (j : Nat) (c : B) (m : FieldMeta), CntL fs → fs.get? j = some (c, m) → Cnt c
  | .nil, _, _, _, _, h => by simp [BL.get?] at h
  | .cons b m r, 0, c, m', h, hg => by
    simp only [BL.get?, Option.some.injEq, Prod.mk.injEq] at hg
    simp only [CntL] at h; rw [← hg.1]; exact h.1
  | .cons b m r, j + 1, c, m', h, hg => by
    simp only [BL.get?] at hg; simp only [CntL] at h; exact CntL_get r j c m' h.2 hg

/-- the per-variant counters after `k` more rows of variant `j` -/
theorem counters_step (cur : List Int) (n k : Nat) (j : Nat) (h : ∀ c ∈ cur, c ≤ (n : Int)) :
    ∀ c ∈ cur.set j (cur.getD j 0 + (k : Int)), c ≤ ((n + k : Nat) : Int) := by
  intro c hc
  have hget : cur.getD j 0 ≤ (n : Int) := by
    rw [List.getD_eq_getElem?_getD]
    cases hj : cur[j]? with
    | none => simp
    | some x => simp only [Option.getD_some]; exact h x (List.mem_of_getElem? hj)
  rcases List.mem_or_eq_of_mem_set hc with hc | rfl
  · have := h c hc; omega
  · omega

/-! ### an integer leaf stays one and never loses rows -/

theorem iter_leaf_len (k : Nat) (v v' : Validity) (vals vals' : List Int)
    (h : iter k (fun (s : Validity × List Int) => (.ok (setValidityDefault s.1 s.2.length, s.2 ++ [0]) : R _)) (v, vals) =
      .ok (v', vals')) : vals.length ≤ vals'.length := by
  have := Lemmas.C03.iter_inv (fun (s : Validity × List Int) => vals.length ≤ s.2.length) _
    (fun a a' ha hp => by cases ha; simp only [List.length_append, List.length_singleton]; omega) k (v, vals) (v', vals') h
    (Nat.le_refl _)
  exact this

theorem pushDefaultK_intLeaf (b b' : B) (k : Nat) (hb : b.isIntLeaf = true) (h : pushDefaultK b k = .ok b') :
    b'.isIntLeaf = true ∧ b.rows ≤ b'.rows := by
  cases b with
  | leaf p kind v vals =>
    cases kind with
    | int t =>
      simp only [pushDefaultK] at h
      obtain ⟨⟨v', vals'⟩, h1, h2⟩ := (bind_ok _ _ _).1 h
      cases h2
      exact ⟨rfl, iter_leaf_len k v v' vals vals' h1⟩
    | _ => simp [B.isIntLeaf] at hb
  | _ => simp [B.isIntLeaf] at hb

theorem pushNone_intLeaf (b b' : B) (hb : b.isIntLeaf = true) (h : pushNone b = .ok b') :
    b'.isIntLeaf = true ∧ b.rows ≤ b'.rows := by
  cases b with
  | leaf p kind v vals =>
    cases kind with
    | int t =>
      simp only [pushNone, ctx_ok] at h
      obtain ⟨v', _, h2⟩ := (bind_ok _ _ _).1 h
      cases h2
      exact ⟨rfl, by simp [B.rows]⟩
    | _ => simp [B.isIntLeaf] at hb
  | _ => simp [B.isIntLeaf] at hb

/-! ### `serialize_default` / `serialize_none` -/

mutual
theorem pushDefaultK_cnt : ∀ (b : B) (k : Nat) (b' : B), pushDefaultK b k = .ok b' → Cnt b → Cnt b'
  | .null p len, k, b', h, _ => by simp [pushDefaultK] at h; subst h; simp [Cnt]
  | .unknownVariant p, k, b', h, _ => by
    simp only [pushDefaultK] at h
    split at h
    · cases h; simp [Cnt]
    · simp [ctx_ok, fail] at h
  | .leaf p kind v vals, k, b', h, _ => by
    simp only [pushDefaultK] at h
    obtain ⟨⟨v', vals'⟩, _, h2⟩ := (bind_ok _ _ _).1 h
    cases h2; simp [Cnt]
  | .bytes p ty v offs data, k, b', h, _ => by
    simp only [pushDefaultK, ctx_ok] at h
    obtain ⟨⟨v', offs'⟩, _, h2⟩ := (bind_ok _ _ _).1 h
    cases h2; simp [Cnt]
  | .bytesView p ty v views buf, k, b', h, _ => by
    simp only [pushDefaultK] at h
    obtain ⟨⟨v', views'⟩, _, h2⟩ := (bind_ok _ _ _).1 h
    cases h2; simp [Cnt]
  | .fixedSizeBinary p n len v buf cur, k, b', h, _ => by
    simp only [pushDefaultK] at h
    obtain ⟨⟨len', v', buf'⟩, _, h2⟩ := (bind_ok _ _ _).1 h
    cases h2; simp [Cnt]
  | .list p large fm v offs el, k, b', h, hc => by
    simp only [pushDefaultK, ctx_ok] at h
    obtain ⟨⟨v', offs'⟩, _, h2⟩ := (bind_ok _ _ _).1 h
    cases h2; simpa only [Cnt] using hc
  | .fixedSizeList p fm n len v cur el, k, b', h, hc => by
    simp only [pushDefaultK, ctx_ok] at h
    obtain ⟨⟨len', v'⟩, _, h2⟩ := (bind_ok _ _ _).1 h
    obtain ⟨el', h3, h4⟩ := (bind_ok _ _ _).1 h2
    cases h4
    simp only [Cnt] at hc ⊢
    exact pushDefaultK_cnt el (k * n) el' h3 hc
  | .map p mm v offs ks vs, k, b', h, hc => by
    simp only [pushDefaultK, ctx_ok] at h
    obtain ⟨⟨v', offs'⟩, _, h2⟩ := (bind_ok _ _ _).1 h
    cases h2; simpa only [Cnt] using hc
  | .struct p len v fs cached next seen, k, b', h, hc => by
    simp only [pushDefaultK, ctx_ok] at h
    obtain ⟨⟨len', v'⟩, _, h2⟩ := (bind_ok _ _ _).1 h
    obtain ⟨fs', h3, h4⟩ := (bind_ok _ _ _).1 h2
    cases h4
    simp only [Cnt] at hc ⊢
    exact pushDefaultKAll_cnt fs k fs' h3 hc
  | .dictionary p idx vals index, k, b', h, hc => by
    simp only [pushDefaultK, ctx_ok] at h
    obtain ⟨idx', h1, h2⟩ := (bind_ok _ _ _).1 h
    cases h2
    simp only [Cnt] at hc ⊢
    obtain ⟨hl, hr⟩ := pushDefaultK_intLeaf idx idx' k hc.1 h1
    exact ⟨hl, by omega⟩
  | .union p .nil types offs cur, k, b', h, hc => by
    simp only [pushDefaultK, ctx_ok] at h
    split at h
    · cases h; exact hc
    · simp [fail] at h
  | .union p (.cons c m rest) types offs cur, k, b', h, hc => by
    simp only [pushDefaultK, ctx_ok] at h
    by_cases hk : k ≠ 0 ∧ firstReal (.cons c m rest) > 127
    · rw [if_pos hk] at h; split at h <;> simp [fail] at h
    · rw [if_neg hk] at h
      by_cases hk1 : k ≠ 0 ∧ cur.getD (firstReal (.cons c m rest)) 0 + 1 > 2147483647
      · rw [if_pos hk1] at h; simp [fail] at h
      rw [if_neg hk1] at h
      obtain ⟨fs', h1, h2⟩ := (bind_ok _ _ _).1 h
      by_cases hk2 : k ≠ 0 ∧ cur.getD (firstReal (.cons c m rest)) 0 + (k : Int) > 2147483647
      · rw [if_pos hk2] at h2; simp [fail] at h2
      rw [if_neg hk2] at h2
      simp only [pure, Except.pure] at h2
      cases h2
      simp only [Cnt] at hc ⊢
      refine ⟨pushDefaultKAt_cnt _ _ k fs' h1 hc.1, ?_⟩
      have := counters_step cur types.length k (firstReal (.cons c m rest)) hc.2
      simpa only [List.length_append, List.length_replicate] using this
theorem pushDefaultKAll_cnt : ∀ (fs : BL) (k : Nat) (fs' : BL), pushDefaultKAll fs k = .ok fs' → CntL fs → CntL fs'
  | .nil, k, fs', h, _ => by simp [pushDefaultKAll] at h; subst h; simp [CntL]
  | .cons b m rest, k, fs', h, hc => by
    simp only [pushDefaultKAll] at h
    obtain ⟨b', h1, h2⟩ := (bind_ok _ _ _).1 h
    obtain ⟨r', h3, h4⟩ := (bind_ok _ _ _).1 h2
    cases h4
    simp only [CntL] at hc ⊢
    exact ⟨pushDefaultK_cnt b k b' h1 hc.1, pushDefaultKAll_cnt rest k r' h3 hc.2⟩
theorem pushDefaultKAt_cnt : ∀ (fs : BL) (j k : Nat) (fs' : BL), pushDefaultKAt fs j k = .ok fs' → CntL fs → CntL fs'
  | .nil, j, k, fs', h, _ => by simp [pushDefaultKAt] at h; subst h; simp [CntL]
  | .cons b m rest, 0, k, fs', h, hc => by
    simp only [pushDefaultKAt] at h
    obtain ⟨b', h1, h2⟩ := (bind_ok _ _ _).1 h
    cases h2
    simp only [CntL] at hc ⊢
    exact ⟨pushDefaultK_cnt b k b' h1 hc.1, hc.2⟩
  | .cons b m rest, j + 1, k, fs', h, hc => by
    simp only [pushDefaultKAt] at h
    obtain ⟨r', h1, h2⟩ := (bind_ok _ _ _).1 h
    cases h2
    simp only [CntL] at hc ⊢
    exact ⟨hc.1, pushDefaultKAt_cnt rest j k r' h1 hc.2⟩
end

theorem pushNone_cnt : ∀ (b b' : B), pushNone b = .ok b' → Cnt b → Cnt b'
  | .null p len, b', h, _ => by simp [pushNone] at h; subst h; simp [Cnt]
  | .unknownVariant p, b', h, _ => by simp [pushNone, ctx_ok, fail] at h
  | .leaf p k v vals, b', h, _ => by
    simp only [pushNone, ctx_ok] at h
    obtain ⟨v', _, h2⟩ := (bind_ok _ _ _).1 h
    cases h2; simp [Cnt]
  | .bytes p ty v offs data, b', h, _ => by
    simp only [pushNone, ctx_ok] at h
    obtain ⟨v', _, h2⟩ := (bind_ok _ _ _).1 h
    obtain ⟨o', _, h4⟩ := (bind_ok _ _ _).1 h2
    cases h4; simp [Cnt]
  | .bytesView p ty v views buf, b', h, _ => by
    simp only [pushNone, ctx_ok] at h
    obtain ⟨v', _, h2⟩ := (bind_ok _ _ _).1 h
    cases h2; simp [Cnt]
  | .fixedSizeBinary p n len v buf cur, b', h, _ => by
    simp only [pushNone, ctx_ok] at h
    obtain ⟨v', _, h2⟩ := (bind_ok _ _ _).1 h
    cases h2; simp [Cnt]
  | .list p large fm v offs el, b', h, hc => by
    simp only [pushNone, ctx_ok] at h
    obtain ⟨v', _, h2⟩ := (bind_ok _ _ _).1 h
    obtain ⟨o', _, h4⟩ := (bind_ok _ _ _).1 h2
    cases h4; simpa only [Cnt] using hc
  | .fixedSizeList p fm n len v cur el, b', h, hc => by
    simp only [pushNone, ctx_ok] at h
    obtain ⟨v', _, h2⟩ := (bind_ok _ _ _).1 h
    obtain ⟨el', h3, h4⟩ := (bind_ok _ _ _).1 h2
    cases h4
    simp only [Cnt] at hc ⊢
    exact pushDefaultK_cnt el n el' h3 hc
  | .map p mm v offs ks vs, b', h, hc => by
    simp only [pushNone, ctx_ok] at h
    obtain ⟨v', _, h2⟩ := (bind_ok _ _ _).1 h
    obtain ⟨o', _, h4⟩ := (bind_ok _ _ _).1 h2
    cases h4; simpa only [Cnt] using hc
  | .struct p len v fs cached next seen, b', h, hc => by
    simp only [pushNone, ctx_ok] at h
    obtain ⟨v', _, h2⟩ := (bind_ok _ _ _).1 h
    obtain ⟨fs', h3, h4⟩ := (bind_ok _ _ _).1 h2
    cases h4
    simp only [Cnt] at hc ⊢
    exact pushDefaultKAll_cnt fs 1 fs' h3 hc
  | .dictionary p idx vals index, b', h, hc => by
    simp only [pushNone, ctx_ok] at h
    split at h
    · simp [fail] at h
    obtain ⟨idx', h1, h2⟩ := (bind_ok _ _ _).1 h
    cases h2
    simp only [Cnt] at hc ⊢
    obtain ⟨hl, hr⟩ := pushNone_intLeaf idx idx' hc.1 ((ctx_ok _ _ _).1 h1)
    exact ⟨hl, by omega⟩
  | .union p fs types offs cur, b', h, _ => by simp [pushNone, ctx_ok, fail] at h

theorem noneL_cnt (b : B) (h : Cnt b) : Cnt (noneL b) := by
  unfold noneL
  cases hp : pushNone b with
  | error e => exact h
  | ok b' => exact pushNone_cnt b b' hp h

/-! ### scalars -/

theorem scalarL_intLeaf (un : Bytes → String) (b : B) (lv : LVal) (hb : b.isIntLeaf = true) :
    (scalarL un b lv).isIntLeaf = true ∧ (scalarL un b lv).rows = b.rows + 1 := by
  cases b with
  | leaf p kind v vals =>
    cases kind with
    | int t => simp [scalarL, B.isIntLeaf, B.rows]
    | _ => simp [B.isIntLeaf] at hb
  | _ => simp [B.isIntLeaf] at hb

theorem scalarL_cnt (un : Bytes → String) (b : B) (lv : LVal) (h : Cnt b) : Cnt (scalarL un b lv) := by
  cases b with
  | dictionary p idx vals index =>
    simp only [Cnt] at h
    unfold scalarL
    split
    · rename_i i hi
      obtain ⟨hl, hr⟩ := scalarL_intLeaf un idx (.int i) h.1
      simp only [Cnt]
      exact ⟨hl, by omega⟩
    · obtain ⟨hl, hr⟩ := scalarL_intLeaf un idx (.int index.length) h.1
      simp only [Cnt, List.length_append, List.length_singleton]
      exact ⟨hl, by omega⟩
  | bytesView p ty v views buf =>
    unfold scalarL
    split <;> simp [Cnt]
  | leaf _ _ _ _ | bytes _ _ _ _ _ | fixedSizeBinary _ _ _ _ _ _ => simp [scalarL, Cnt]
  | null _ _ | unknownVariant _ | list _ _ _ _ _ _ | fixedSizeList _ _ _ _ _ _ _ | map _ _ _ _ _ _
  | struct _ _ _ _ _ _ _ | union _ _ _ _ _ => simpa [scalarL] using h

/-! ### `pushL`: the state after a push, as a function of the documented value -/

mutual
theorem pushL_cnt (un : Bytes → String) : ∀ (lv : LVal) (b : B), Cnt b → Cnt (pushL un lv b)
  | .null, b, h => by simp only [pushL]; exact noneL_cnt b h
  | .bool c, b, h => by simp only [pushL]; exact scalarL_cnt un b _ h
  | .int v, b, h => by simp only [pushL]; exact scalarL_cnt un b _ h
  | .float v, b, h => by simp only [pushL]; exact scalarL_cnt un b _ h
  | .str bs, b, h => by simp only [pushL]; exact scalarL_cnt un b _ h
  | .bin bs, b, h => by simp only [pushL]; exact scalarL_cnt un b _ h
  | .list items, b, h => by
    cases b with
    | list p large fm v offs el =>
      simp only [pushL, Cnt] at h ⊢
      exact pushLs_cnt un items el h
    | fixedSizeList p fm n len v cur el =>
      simp only [pushL, Cnt] at h ⊢
      exact pushLs_cnt un items el h
    | _ => simpa only [pushL] using h
  | .struct lfs, b, h => by
    cases b with
    | struct p len v fs cached next seen =>
      simp only [pushL, Cnt] at h ⊢
      exact pushLF_cnt un lfs fs h
    | _ => simpa only [pushL] using h
  | .map es, b, h => by
    cases b with
    | map p mm v offs ks vs =>
      simp only [pushL, Cnt] at h ⊢
      exact ⟨pushLK_cnt un es ks h.1, pushLW_cnt un es vs h.2⟩
    | _ => simpa only [pushL] using h
  | .union tid lv, b, h => by
    cases b with
    | union p fs types offs cur =>
      simp only [pushL]
      cases hg : fs.get? tid.toNat with
      | none => simpa only using h
      | some cm =>
        obtain ⟨c, m⟩ := cm
        simp only [Cnt] at h ⊢
        refine ⟨CntL_set fs _ _ h.1 (pushL_cnt un lv c (CntL_get fs _ c m h.1 hg)), ?_⟩
        have := counters_step cur types.length 1 tid.toNat h.2
        simpa only [List.length_append, List.length_singleton, Int.natCast_one] using this
    | _ => simpa only [pushL] using h
theorem pushLs_cnt (un : Bytes → String) : ∀ (items : LVals) (el : B), Cnt el → Cnt (pushLs un items el)
  | .nil, el, h => by simpa only [pushLs] using h
  | .cons v r, el, h => by simp only [pushLs]; exact pushLs_cnt un r _ (pushL_cnt un v el h)
theorem pushLF_cnt (un : Bytes → String) : ∀ (lfs : LFields) (fs : BL), CntL fs → CntL (pushLF un lfs fs)
  | .nil, fs, h => by simpa only [pushLF] using h
  | .cons _ v r, .nil, _ => by simp [pushLF, CntL]
  | .cons _ v r, .cons b m rest, h => by
    simp only [CntL] at h
    simp only [pushLF, CntL]
    exact ⟨pushL_cnt un v b h.1, pushLF_cnt un r rest h.2⟩
theorem pushLK_cnt (un : Bytes → String) : ∀ (es : LEntries) (ks : B), Cnt ks → Cnt (pushLK un es ks)
  | .nil, ks, h => by simpa only [pushLK] using h
  | .cons k _ r, ks, h => by simp only [pushLK]; exact pushLK_cnt un r _ (pushL_cnt un k ks h)
theorem pushLW_cnt (un : Bytes → String) : ∀ (es : LEntries) (vs : B), Cnt vs → Cnt (pushLW un es vs)
  | .nil, vs, h => by simpa only [pushLW] using h
  | .cons _ w r, vs, h => by simp only [pushLW]; exact pushLW_cnt un r _ (pushL_cnt un w vs h)
end

/-! ### a builder that holds nothing -/

theorem builtFor_intLeaf (idx : B) (k : DataType) (nl : Bool) (hb : Lemmas.C03.BuiltFor k nl idx) (hk : isIntDT k = true) :
    idx.isIntLeaf = true := by
  cases idx with
  | leaf p kind v vals =>
    simp only [Lemmas.C03.BuiltFor] at hb
    obtain ⟨rfl, _⟩ := hb
    cases kind with
    | int t => rfl
    | _ => simp [Lemmas.C03.leafDT, isIntDT] at hk
  | null _ _ => simp only [Lemmas.C03.BuiltFor] at hb; subst hb; simp [isIntDT] at hk
  | unknownVariant _ => simp only [Lemmas.C03.BuiltFor] at hb; subst hb; simp [isIntDT] at hk
  | bytes _ ty _ _ _ =>
    simp only [Lemmas.C03.BuiltFor] at hb; obtain ⟨rfl, _⟩ := hb; cases ty <;> simp [Lemmas.C03.bytesDT, isIntDT] at hk
  | bytesView _ ty _ _ _ =>
    simp only [Lemmas.C03.BuiltFor] at hb; obtain ⟨rfl, _⟩ := hb; cases ty <;> simp [Lemmas.C03.viewDT, isIntDT] at hk
  | fixedSizeBinary _ _ _ _ _ _ => simp only [Lemmas.C03.BuiltFor] at hb; obtain ⟨rfl, _⟩ := hb; simp [isIntDT] at hk
  | list _ large _ _ _ _ =>
    simp only [Lemmas.C03.BuiltFor] at hb; obtain ⟨f, rfl, _⟩ := hb; cases large <;> simp [isIntDT] at hk
  | fixedSizeList _ _ _ _ _ _ _ => simp only [Lemmas.C03.BuiltFor] at hb; obtain ⟨f, rfl, _⟩ := hb; simp [isIntDT] at hk
  | map _ _ _ _ _ _ => simp only [Lemmas.C03.BuiltFor] at hb; obtain ⟨_, _, _, _, _, _, rfl, _⟩ := hb; simp [isIntDT] at hk
  | struct _ _ _ _ _ _ _ => simp only [Lemmas.C03.BuiltFor] at hb; obtain ⟨_, rfl, _⟩ := hb; simp [isIntDT] at hk
  | dictionary _ _ _ _ => simp only [Lemmas.C03.BuiltFor] at hb; obtain ⟨_, _, rfl, _⟩ := hb; simp [isIntDT] at hk
  | union _ _ _ _ _ => simp only [Lemmas.C03.BuiltFor] at hb; obtain ⟨_, _, rfl, _⟩ := hb; simp [isIntDT] at hk

theorem takeRest_isIntLeaf (b : B) : (takeRest b).isIntLeaf = b.isIntLeaf := by
  cases b with
  | leaf p kind v vals => cases kind <;> rfl
  | _ => rfl

mutual
/-- what `take` leaves behind has the counting invariant — in particular every builder `build_builder` constructs -/
theorem takeRest_cnt : ∀ (b : B) (dt : DataType) (nl : Bool), Lemmas.C03.BuiltFor dt nl b → Cnt (takeRest b)
  | .null _ _, _, _, _ | .unknownVariant _, _, _, _ | .leaf _ _ _ _, _, _, _ | .bytes _ _ _ _ _, _, _, _
  | .bytesView _ _ _ _ _, _, _, _ | .fixedSizeBinary _ _ _ _ _ _, _, _, _ => by simp [takeRest, Cnt]
  | .list _ _ _ _ _ el, dt, nl, hb => by
    simp only [Lemmas.C03.BuiltFor] at hb
    obtain ⟨f, _, _, _, hel⟩ := hb
    simp only [takeRest, Cnt]
    exact takeRest_cnt el _ _ hel
  | .fixedSizeList _ _ _ _ _ _ el, dt, nl, hb => by
    simp only [Lemmas.C03.BuiltFor] at hb
    obtain ⟨f, _, _, _, hel⟩ := hb
    simp only [takeRest, Cnt]
    exact takeRest_cnt el _ _ hel
  | .map _ _ _ _ ks vs, dt, nl, hb => by
    simp only [Lemmas.C03.BuiltFor] at hb
    obtain ⟨_, kf, vf, _, _, _, _, _, _, hk, hv⟩ := hb
    simp only [takeRest, Cnt]
    exact ⟨takeRest_cnt ks _ _ hk, takeRest_cnt vs _ _ hv⟩
  | .struct _ _ _ fs _ _ _, dt, nl, hb => by
    simp only [Lemmas.C03.BuiltFor] at hb
    obtain ⟨fields, _, _, hl⟩ := hb
    simp only [takeRest, Cnt]
    exact takeRestAll_cnt fs fields hl
  | .dictionary _ idx vals _, dt, nl, hb => by
    simp only [Lemmas.C03.BuiltFor] at hb
    obtain ⟨k, vdt, _, hk, hidx, _⟩ := hb
    simp only [takeRest, Cnt, takeRest_isIntLeaf, List.length_nil]
    exact ⟨builtFor_intLeaf idx k nl hidx hk, Nat.zero_le _⟩
  | .union _ fs _ _ cur, dt, nl, hb => by
    simp only [Lemmas.C03.BuiltFor] at hb
    obtain ⟨ufs, mode, _, hu⟩ := hb
    simp only [takeRest, Cnt, List.length_nil]
    refine ⟨takeRestAllU_cnt fs ufs 0 hu, ?_⟩
    intro c hc
    rw [List.mem_replicate] at hc
    simp [hc.2]
theorem takeRestAll_cnt : ∀ (fs : BL) (fields : Fields), Lemmas.C03.BuiltForL fields fs → CntL (takeRestAll fs)
  | .nil, _, _ => by simp [takeRestAll, CntL]
  | .cons b m r, .nil, hb => by simp [Lemmas.C03.BuiltForL] at hb
  | .cons b m r, .cons f fr, hb => by
    simp only [Lemmas.C03.BuiltForL] at hb
    simp only [takeRestAll, CntL]
    exact ⟨takeRest_cnt b _ _ hb.2.1, takeRestAll_cnt r fr hb.2.2⟩
theorem takeRestAllU_cnt : ∀ (fs : BL) (ufs : UFields) (k : Nat), Lemmas.C03.BuiltForU ufs fs k → CntL (takeRestAll fs)
  | .nil, _, _, _ => by simp [takeRestAll, CntL]
  | .cons b m r, .nil, _, hb => by simp [Lemmas.C03.BuiltForU] at hb
  | .cons b m r, .cons tid f fr, k, hb => by
    simp only [Lemmas.C03.BuiltForU] at hb
    simp only [takeRestAll, CntL]
    exact ⟨takeRest_cnt b _ _ hb.2.2.1, takeRestAllU_cnt r fr (k + 1) hb.2.2.2⟩
end

/-- the number of records is at most the sum of their sizes (`vsize`: one unit per serde call at least) -/
theorem length_le_vsize_sum (ext : Ext) : ∀ (xs : List SVal), xs.length ≤ (xs.map (vsize ext)).sum
  | [] => by simp
  | x :: r => by
    have := length_le_vsize_sum ext r
    have := vsize_pos ext x
    simp only [List.length_cons, List.map_cons, List.sum_cons]; omega

end SaModel.Build
