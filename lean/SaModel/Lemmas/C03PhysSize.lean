import SaModel.Lemmas.C03PhysCnt
import SaModel.Lemmas.C03ObsFinish
import SaModel.Lemmas.C03PX
import SaModel.Lemmas.C03ReadPhys
/-
C03 → C02 bridge, `Read.physical` for ALL types, part 2: from the final builder state to the arrays.

`sizeOKDT dt L` is a decidable predicate on (data type, bound `L` on the number of rows of an array of that type): the
lengths `Read.physical` speaks about, computed from the schema —

  FixedSizeList<f, n>   `n * L ≤ usize::MAX`, and the child (of `n * L` slots) is fine
  Dictionary            `L ≤ i64::MAX` (the values are at most as many as the keys: `Cnt`)
  List / Map            the child has at most `i32::MAX` slots (the offsets are `i32`), LargeList: `i64::MAX`
  Struct / Union        the children have at most `L` slots (a dense union child: the per-variant counter, `Cnt`)

`finish_sized`: `into_array` of a state with the invariants `WFH` (row counts), `PX` (offsets within `i32` / `i64`) and `Cnt`
(Lemmas/C03PhysCnt.lean) that holds at most `L` rows, for a type with `sizeOKDT dt L`, is `Read.physical`.
A bound on the input alone cannot do: `serialize_none` into a nullable FixedSizeList<_, n> appends `n` child slots for ONE
call (`Props.C03.input_bound_not_enough`).
-/
namespace SaModel.Lemmas.C03
open SaModel SaModel.Build SaModel.Spec SaModel.Read

mutual
/-- the lengths `Read.physical` bounds, for an array of this type with at most `L` rows -/
def sizeOKDT : DataType → Nat → Bool
  | .fixedSizeList f n, L => decide (n.toNat * L ≤ usizeMax) && sizeOKF f (n.toNat * L)
  | .dictionary _ _, L => decide (L ≤ 9223372036854775807)
  | .list f, _ => sizeOKF f 2147483647
  | .largeList f, _ => sizeOKF f 9223372036854775807
  | .map (.mk _ (.struct (.cons kf (.cons vf .nil))) _ _) _, _ => sizeOKF kf 2147483647 && sizeOKF vf 2147483647
  | .struct fs, L => sizeOKFs fs L
  | .union ufs _, L => sizeOKUs ufs L
  | _, _ => true
def sizeOKF : Field → Nat → Bool
  | .mk _ dt _ _, L => sizeOKDT dt L
def sizeOKFs : Fields → Nat → Bool
  | .nil, _ => true
  | .cons f r, L => sizeOKF f L && sizeOKFs r L
def sizeOKUs : UFields → Nat → Bool
  | .nil, _ => true
  | .cons _ f r, L => sizeOKF f L && sizeOKUs r L
end

theorem sizeOKF_dt (f : Field) (L : Nat) : sizeOKF f L = sizeOKDT f.dataType L := by
  cases f; simp [sizeOKF, Field.dataType]

/-! ### row counts -/

theorem dec_length_rows : ∀ (b : B), WFH b → (dec b).length = b.rows
  | .null _ len, _ => by simp [dec, B.rows]
  | .unknownVariant _, _ => by simp [dec, B.rows]
  | .leaf _ k v vals, h => by
    simp only [WFH] at h
    simp only [dec, B.rows]
    exact Lemmas.C03.maskNull_length v _ _ h (by simp)
  | .bytes _ ty v offs data, h => by
    simp only [WFH] at h
    simp only [dec, B.rows]
    exact Lemmas.C03.maskNull_length v _ _ h.2 (by simp [Lemmas.C03.pairs_length])
  | .bytesView _ ty v views buf, h => by
    simp only [WFH] at h
    simp only [dec, B.rows]
    exact Lemmas.C03.maskNull_length v _ _ h.1 (by simp)
  | .fixedSizeBinary _ n len v buf _, h => by
    simp only [WFH] at h
    simp only [dec, B.rows]
    exact Lemmas.C03.maskNull_length v _ _ h.1 (by simp)
  | .list _ _ _ v offs el, h => by
    simp only [WFH] at h
    simp only [dec, B.rows]
    exact Lemmas.C03.maskNull_length v _ _ h.2.1 (by simp [Lemmas.C03.pairs_length])
  | .fixedSizeList _ _ n len v _ el, h => by
    simp only [WFH] at h
    simp only [dec, B.rows]
    exact Lemmas.C03.maskNull_length v _ _ h.1 (by simp)
  | .map _ _ v offs ks vs, h => by
    simp only [WFH] at h
    simp only [dec, B.rows]
    exact Lemmas.C03.maskNull_length v _ _ h.2.2.1 (by simp [Lemmas.C03.pairs_length])
  | .struct _ len v fs _ _ _, h => by
    simp only [WFH] at h
    simp only [dec, B.rows]
    exact Lemmas.C03.maskNull_length v _ _ h.1 (by simp)
  | .dictionary _ idx vals _, h => by
    simp only [WFH] at h
    simp only [dec, B.rows, List.length_map]
    exact dec_length_rows idx h.1
  | .union _ fs types offs _, h => by
    simp only [WFH] at h
    simp only [dec, B.rows, List.length_zipWith]
    omega

theorem lenOf_finishLeaf (k : LeafKind) (v : Validity) (vals : List Int) : lenOf (finishLeaf k v vals) = vals.length := by
  cases k <;> simp [finishLeaf, lenOf]

/-- the finished array has (at most) the rows the state holds -/
theorem finish_lenOf_le (ext : Ext) : ∀ (b : B) (a : Arr), finish ext b = .ok a → WFH b → lenOf a ≤ b.rows
  | .null _ _, a, h, _ => by simp only [finish] at h; cases h; simp [lenOf, B.rows]
  | .unknownVariant _, a, h, _ => by simp only [finish] at h; cases h; simp [lenOf, B.rows]
  | .leaf _ k v vals, a, h, _ => by
    simp only [finish] at h; cases h; rw [lenOf_finishLeaf]; exact Nat.le_refl _
  | .bytes _ _ _ _ _, a, h, _ => by simp only [finish] at h; cases h; simp [lenOf, B.rows]
  | .bytesView _ _ _ _ _, a, h, _ => by simp only [finish] at h; cases h; simp [lenOf, B.rows]
  | .fixedSizeBinary _ n len _ buf _, a, h, hw => by
    simp only [finish] at h
    split at h
    · simp [fail] at h
    · cases h
      simp only [WFH] at hw
      simp only [lenOf, B.rows]
      split
      · exact Nat.zero_le _
      · rename_i hn
        have hn' : 0 < n := by omega
        rw [hw.2, Int.toNat_natCast, Nat.mul_div_cancel _ hn']
        exact Nat.le_refl _
  | .list _ _ _ _ _ el, a, h, _ => by
    simp only [finish] at h
    obtain ⟨ea, _, h⟩ := Read.bind_ok_inv h
    cases h; simp [lenOf, B.rows]
  | .fixedSizeList _ _ _ _ _ _ el, a, h, _ => by
    simp only [finish] at h
    split at h
    · simp [fail] at h
    · obtain ⟨ea, _, h⟩ := Read.bind_ok_inv h
      cases h; simp [lenOf, B.rows]
  | .map _ _ _ _ ks vs, a, h, _ => by
    simp only [finish] at h
    obtain ⟨ka, _, h⟩ := Read.bind_ok_inv h
    obtain ⟨va, _, h⟩ := Read.bind_ok_inv h
    cases h; simp [lenOf, B.rows]
  | .struct _ _ _ fs _ _ _, a, h, _ => by
    simp only [finish] at h
    obtain ⟨afs, _, h⟩ := Read.bind_ok_inv h
    cases h; simp [lenOf, B.rows]
  | .dictionary _ idx vals index, a, h, hw => by
    simp only [finish] at h
    obtain ⟨ka, hk, h⟩ := Read.bind_ok_inv h
    obtain ⟨va, _, h⟩ := Read.bind_ok_inv h
    have := finish_lenOf_le ext idx ka hk (WFH_dictionary hw).1
    split at h
    · obtain ⟨_, _, h⟩ := Read.bind_ok_inv h
      cases h; simpa [lenOf, B.rows] using this
    · cases h; simpa [lenOf, B.rows] using this
  | .union _ fs _ _ _, a, h, _ => by
    simp only [finish] at h
    obtain ⟨afs, _, h⟩ := Read.bind_ok_inv h
    cases h; simp [lenOf, B.rows]

theorem lenOf_appendEmptyStr (a : Arr) : lenOf (appendEmptyStr a) ≤ lenOf a + 1 := by
  cases a <;> simp [appendEmptyStr, lenOf] <;> omega

/-- the last offset is the child length and within the offset type -/
theorem child_rows_le {offs : List Int} {n : Nat} {m : Int} (ho : OffsOK offs n) (hl : OffsLe offs m) : (n : Int) ≤ m :=
  hl _ (List.mem_of_getLast? ho.2.1)

/-! ### `into_array` -/

mutual
/-- **`into_array` of a counted state is `physical`** when the schema-computed lengths fit (`sizeOKDT`) -/
theorem finish_sized (ext : Ext) : ∀ (b : B) (a : Arr) (dt : DataType) (nl : Bool) (L : Nat),
    finish ext b = .ok a → WFH b → PX b → Cnt b → BuiltFor dt nl b → b.rows ≤ L → sizeOKDT dt L = true →
    physical a = true
  | .null _ _, a, _, _, _, h, _, _, _, _, _, _ => by simp only [finish] at h; cases h; simp [physical]
  | .unknownVariant _, a, _, _, _, h, _, _, _, _, _, _ => by simp only [finish] at h; cases h; simp [physical]
  | .leaf _ k v vals, a, _, _, _, h, _, _, _, _, _, _ => by
    simp only [finish] at h; cases h; cases k <;> simp [finishLeaf, physical]
  | .bytes _ _ _ _ _, a, _, _, _, h, _, _, _, _, _, _ => by simp only [finish] at h; cases h; simp [physical]
  | .bytesView _ _ _ _ _, a, _, _, _, h, _, _, _, _, _, _ => by simp only [finish] at h; cases h; simp [physical]
  | .fixedSizeBinary _ _ _ _ _ _, a, _, _, _, h, _, _, _, _, _, _ => by
    simp only [finish] at h
    split at h
    · simp [fail] at h
    · cases h; simp [physical]
  | .list _ large _ _ offs el, a, dt, nl, L, h, hw, hp, hc, hb, _, hs => by
    simp only [finish] at h
    obtain ⟨ea, he, h⟩ := Read.bind_ok_inv h
    cases h
    simp only [BuiltFor] at hb
    obtain ⟨f, rfl, _, _, hel⟩ := hb
    have hwl := WFH_list hw
    simp only [PX] at hp
    simp only [Cnt] at hc
    simp only [physical]
    have hle := child_rows_le hwl.1 hp.1
    rw [dec_length_rows el hwl.2.2] at hle
    cases large
    · simp only [offMax, Bool.false_eq_true, if_false] at hle
      simp only [Bool.false_eq_true, if_false, sizeOKDT, sizeOKF_dt] at hs
      exact finish_sized ext el ea _ _ 2147483647 he hwl.2.2 hp.2 hc hel (by omega) hs
    · simp only [offMax, if_true] at hle
      simp only [if_true, sizeOKDT, sizeOKF_dt] at hs
      exact finish_sized ext el ea _ _ 9223372036854775807 he hwl.2.2 hp.2 hc hel (by omega) hs
  | .fixedSizeList _ _ n len _ _ el, a, dt, nl, L, h, hw, hp, hc, hb, hL, hs => by
    simp only [finish] at h
    split at h
    · simp [fail] at h
    obtain ⟨ea, he, h⟩ := Read.bind_ok_inv h
    cases h
    simp only [BuiltFor] at hb
    obtain ⟨f, rfl, _, _, hel⟩ := hb
    have hwl := WFH_fixedSizeList hw
    simp only [PX] at hp
    simp only [Cnt] at hc
    simp only [sizeOKDT, Int.toNat_natCast, Bool.and_eq_true, decide_eq_true_eq, sizeOKF_dt] at hs
    simp only [B.rows] at hL
    have hrows : el.rows ≤ n * L := by
      rw [← dec_length_rows el hwl.2.2, hwl.2.1, Nat.mul_comm]
      exact Nat.mul_le_mul_left n hL
    have hlen := finish_lenOf_le ext el ea he hwl.2.2
    simp only [physical, Bool.and_eq_true, decide_eq_true_eq]
    exact ⟨by omega, finish_sized ext el ea _ _ (n * L) he hwl.2.2 hp hc hel hrows hs.2⟩
  | .map _ _ _ offs ks vs, a, dt, nl, L, h, hw, hp, hc, hb, _, hs => by
    simp only [finish] at h
    obtain ⟨ka, hk, h⟩ := Read.bind_ok_inv h
    obtain ⟨va, hv, h⟩ := Read.bind_ok_inv h
    cases h
    simp only [BuiltFor] at hb
    obtain ⟨ename, kf, vf, sorted, enl, emd, rfl, _, _, hkb, hvb⟩ := hb
    have hwm := WFH_map hw
    simp only [PX] at hp
    simp only [Cnt] at hc
    simp only [sizeOKDT, Bool.and_eq_true, sizeOKF_dt] at hs
    have hle := child_rows_le hwm.1 hp.1
    simp only [offMax, Bool.false_eq_true, if_false] at hle
    have hkr : ks.rows ≤ 2147483647 := by rw [← dec_length_rows ks hwm.2.2.2.1]; omega
    have hvr : vs.rows ≤ 2147483647 := by rw [← dec_length_rows vs hwm.2.2.2.2, hwm.2.1]; omega
    simp only [physical, Bool.and_eq_true]
    exact ⟨finish_sized ext ks ka _ _ _ hk hwm.2.2.2.1 hp.2.1 hc.1 hkb hkr hs.1,
      finish_sized ext vs va _ _ _ hv hwm.2.2.2.2 hp.2.2 hc.2 hvb hvr hs.2⟩
  | .struct _ len _ fs _ _ _, a, dt, nl, L, h, hw, hp, hc, hb, hL, hs => by
    simp only [finish] at h
    obtain ⟨afs, hf, h⟩ := Read.bind_ok_inv h
    cases h
    simp only [BuiltFor] at hb
    obtain ⟨fields, rfl, _, hl⟩ := hb
    simp only [PX] at hp
    simp only [Cnt] at hc
    simp only [sizeOKDT] at hs
    simp only [B.rows] at hL
    simp only [physical]
    exact finishFields_sized ext fs afs fields len L hf (WFH_struct hw).2 hp hc hl hL hs
  | .dictionary _ idx vals index, a, dt, nl, L, h, hw, _, hc, hb, hL, hs => by
    simp only [BuiltFor] at hb
    obtain ⟨k, vdt, rfl, _, _, _⟩ := hb
    have hwd := WFH_dictionary hw
    simp only [Cnt] at hc
    simp only [sizeOKDT, decide_eq_true_eq] at hs
    simp only [B.rows] at hL
    have hmax : Read.i64Max.toNat = 9223372036854775807 := by decide
    simp only [finish] at h
    obtain ⟨ka, _, h⟩ := Read.bind_ok_inv h
    obtain ⟨va, hv, h⟩ := Read.bind_ok_inv h
    have hva := finish_lenOf_le ext vals va hv hwd.2.1
    rw [← dec_length_rows vals hwd.2.1, hwd.2.2] at hva
    split at h
    · rename_i hcond
      obtain ⟨_, _, h⟩ := Read.bind_ok_inv h
      cases h
      have hz : index.length = 0 := by
        simp only [Bool.and_eq_true, List.isEmpty_iff] at hcond
        rw [hcond.2]; rfl
      have := lenOf_appendEmptyStr va
      simp only [physical, decide_eq_true_eq, hmax]
      omega
    · cases h
      simp only [physical, decide_eq_true_eq, hmax]
      omega
  | .union _ fs types _ cur, a, dt, nl, L, h, hw, hp, hc, hb, hL, hs => by
    simp only [finish] at h
    obtain ⟨afs, hf, h⟩ := Read.bind_ok_inv h
    cases h
    simp only [BuiltFor] at hb
    obtain ⟨ufs, mode, rfl, hu⟩ := hb
    simp only [PX] at hp
    simp only [Cnt] at hc
    simp only [sizeOKDT] at hs
    simp only [B.rows] at hL
    simp only [physical]
    exact finishUFields_sized ext fs 0 afs ufs 0 cur types.length L hf (WFH_union hw).2.1 hp hc.1 hu hc.2 hL hs
theorem finishFields_sized (ext : Ext) : ∀ (fs : BL) (afs : ArrFields) (fields : Fields) (len L : Nat),
    Build.finishFields ext fs = .ok afs → WFHL fs len → PXL fs → CntL fs → BuiltForL fields fs → len ≤ L →
    sizeOKFs fields L = true → physicalFields afs = true
  | .nil, afs, _, _, _, h, _, _, _, _, _, _ => by simp only [Build.finishFields] at h; cases h; simp [physicalFields]
  | .cons b m rest, afs, .nil, _, _, _, _, _, _, hb, _, _ => by simp [BuiltForL] at hb
  | .cons b m rest, afs, .cons f fr, len, L, h, hw, hp, hc, hb, hL, hs => by
    simp only [Build.finishFields] at h
    obtain ⟨a, ha, h⟩ := Read.bind_ok_inv h
    obtain ⟨r, hr, h⟩ := Read.bind_ok_inv h
    cases h
    simp only [WFHL] at hw
    simp only [PXL] at hp
    simp only [CntL] at hc
    simp only [BuiltForL] at hb
    simp only [sizeOKFs, Bool.and_eq_true, sizeOKF_dt] at hs
    simp only [physicalFields, Bool.and_eq_true]
    exact ⟨finish_sized ext b a _ _ L ha hw.1 hp.1 hc.1 hb.2.1 (by rw [← dec_length_rows b hw.1, hw.2.1]; exact hL) hs.1,
      finishFields_sized ext rest r fr len L hr hw.2.2 hp.2 hc.2 hb.2.2 hL hs.2⟩
theorem finishUFields_sized (ext : Ext) : ∀ (fs : BL) (idx : Nat) (afs : ArrUFields) (ufs : UFields) (k : Nat)
    (cur : List Int) (n L : Nat),
    finishUFields ext fs idx = .ok afs → WFHU fs cur → PXL fs → CntL fs → BuiltForU ufs fs k →
    (∀ c ∈ cur, c ≤ (n : Int)) → n ≤ L → sizeOKUs ufs L = true → physicalUFields afs = true
  | .nil, _, afs, _, _, _, _, _, h, _, _, _, _, _, _, _ => by
    simp only [finishUFields] at h; cases h; simp [physicalUFields]
  | .cons b m rest, _, afs, .nil, _, _, _, _, _, _, _, _, hb, _, _, _ => by simp [BuiltForU] at hb
  | .cons b m rest, idx, afs, .cons tid f fr, k, cur, n, L, h, hw, hp, hc, hb, hcur, hL, hs => by
    simp only [finishUFields] at h
    split at h
    · simp [fail] at h
    obtain ⟨a, ha, h⟩ := Read.bind_ok_inv h
    obtain ⟨r, hr, h⟩ := Read.bind_ok_inv h
    cases h
    simp only [WFHU] at hw
    simp only [PXL] at hp
    simp only [CntL] at hc
    simp only [BuiltForU] at hb
    simp only [sizeOKUs, Bool.and_eq_true, sizeOKF_dt] at hs
    have hrows : b.rows ≤ L := by
      rw [← dec_length_rows b hw.1]
      have := hcur _ (List.mem_of_head? hw.2.1)
      omega
    simp only [physicalUFields, Bool.and_eq_true]
    exact ⟨finish_sized ext b a _ _ L ha hw.1 hp.1 hc.1 hb.2.2.1 hrows hs.1,
      finishUFields_sized ext rest (idx + 1) r fr (k + 1) cur.tail n L hr hw.2.2 hp.2 hc.2 hb.2.2.2
        (fun c hc' => hcur c (List.mem_of_mem_tail hc')) hL hs.2⟩
end

/-! ### the schema side: when `sizeOKDT` holds -/

mutual
/-- `sizeOKDT` is downward closed in the row bound -/
theorem sizeOKDT_mono : ∀ (dt : DataType) (L L' : Nat), L' ≤ L → sizeOKDT dt L = true → sizeOKDT dt L' = true
  | .fixedSizeList f n, L, L', hl, h => by
    simp only [sizeOKDT, Bool.and_eq_true, decide_eq_true_eq] at h ⊢
    have := Nat.mul_le_mul_left n.toNat hl
    exact ⟨by omega, sizeOKF_mono f _ _ this h.2⟩
  | .dictionary _ _, L, L', hl, h => by
    simp only [sizeOKDT, decide_eq_true_eq] at h ⊢; omega
  | .list f, _, _, _, h => by simpa only [sizeOKDT] using h
  | .largeList f, _, _, _, h => by simpa only [sizeOKDT] using h
  | .map ef _, _, _, _, h => by
    rcases ef with ⟨en, edt, enl, emd⟩
    cases edt with
    | struct efs =>
      cases efs with
      | nil => simp [sizeOKDT]
      | cons kf r1 =>
        cases r1 with
        | nil => simp [sizeOKDT]
        | cons vf r2 =>
          cases r2 with
          | nil => simpa only [sizeOKDT] using h
          | cons _ _ => simp [sizeOKDT]
    | _ => simp [sizeOKDT]
  | .struct fs, L, L', hl, h => by simp only [sizeOKDT] at h ⊢; exact sizeOKFs_mono fs L L' hl h
  | .union ufs _, L, L', hl, h => by simp only [sizeOKDT] at h ⊢; exact sizeOKUs_mono ufs L L' hl h
  | .null, _, _, _, _ | .boolean, _, _, _, _ | .int8, _, _, _, _ | .int16, _, _, _, _ | .int32, _, _, _, _
  | .int64, _, _, _, _ | .uint8, _, _, _, _ | .uint16, _, _, _, _ | .uint32, _, _, _, _ | .uint64, _, _, _, _
  | .float16, _, _, _, _ | .float32, _, _, _, _ | .float64, _, _, _, _
  | .utf8, _, _, _, _ | .largeUtf8, _, _, _, _ | .utf8View, _, _, _, _ | .binary, _, _, _, _ | .largeBinary, _, _, _, _
  | .binaryView, _, _, _, _ | .fixedSizeBinary _, _, _, _, _ | .date32, _, _, _, _ | .date64, _, _, _, _
  | .timestamp _ _, _, _, _, _ | .time32 _, _, _, _, _ | .time64 _, _, _, _, _ | .duration _, _, _, _, _
  | .interval _, _, _, _, _ | .decimal128 _ _, _, _, _, _ | .runEndEncoded _ _, _, _, _, _ => by simp [sizeOKDT]
theorem sizeOKF_mono : ∀ (f : Field) (L L' : Nat), L' ≤ L → sizeOKF f L = true → sizeOKF f L' = true
  | .mk _ dt _ _, L, L', hl, h => by simp only [sizeOKF] at h ⊢; exact sizeOKDT_mono dt L L' hl h
theorem sizeOKFs_mono : ∀ (fs : Fields) (L L' : Nat), L' ≤ L → sizeOKFs fs L = true → sizeOKFs fs L' = true
  | .nil, _, _, _, _ => by simp [sizeOKFs]
  | .cons f r, L, L', hl, h => by
    simp only [sizeOKFs, Bool.and_eq_true] at h ⊢
    exact ⟨sizeOKF_mono f L L' hl h.1, sizeOKFs_mono r L L' hl h.2⟩
theorem sizeOKUs_mono : ∀ (ufs : UFields) (L L' : Nat), L' ≤ L → sizeOKUs ufs L = true → sizeOKUs ufs L' = true
  | .nil, _, _, _, _ => by simp [sizeOKUs]
  | .cons _ f r, L, L', hl, h => by
    simp only [sizeOKUs, Bool.and_eq_true] at h ⊢
    exact ⟨sizeOKF_mono f L L' hl h.1, sizeOKUs_mono r L L' hl h.2⟩
end

mutual
/-- no FixedSizeList anywhere in the type -/
def fslFreeDT : DataType → Bool
  | .fixedSizeList _ _ => false
  | .struct fs => fslFreeFs fs
  | .list f | .largeList f => fslFreeF f
  | .map (.mk _ (.struct (.cons kf (.cons vf .nil))) _ _) _ => fslFreeF kf && fslFreeF vf
  | .union fs _ => fslFreeUFs fs
  | _ => true
def fslFreeF : Field → Bool
  | .mk _ dt _ _ => fslFreeDT dt
def fslFreeFs : Fields → Bool
  | .nil => true
  | .cons f r => fslFreeF f && fslFreeFs r
def fslFreeUFs : UFields → Bool
  | .nil => true
  | .cons _ f r => fslFreeF f && fslFreeUFs r
end

mutual
/-- without FixedSizeList the only condition is that the number of rows fits `i64` (Dictionary columns outside a list) -/
theorem sizeOKDT_of_fslFree : ∀ (dt : DataType) (L : Nat), fslFreeDT dt = true → L ≤ 9223372036854775807 →
    sizeOKDT dt L = true
  | .fixedSizeList f n, _, h, _ => by simp [fslFreeDT] at h
  | .dictionary _ _, L, _, hl => by simp only [sizeOKDT, decide_eq_true_eq]; exact hl
  | .list f, _, h, _ => by
    simp only [fslFreeDT] at h; simp only [sizeOKDT]; exact sizeOKF_of_fslFree f _ h (by omega)
  | .largeList f, _, h, _ => by
    simp only [fslFreeDT] at h; simp only [sizeOKDT]; exact sizeOKF_of_fslFree f _ h (by omega)
  | .map ef _, _, h, _ => by
    rcases ef with ⟨en, edt, enl, emd⟩
    cases edt with
    | struct efs =>
      cases efs with
      | nil => simp [sizeOKDT]
      | cons kf r1 =>
        cases r1 with
        | nil => simp [sizeOKDT]
        | cons vf r2 =>
          cases r2 with
          | nil =>
            simp only [fslFreeDT, Bool.and_eq_true] at h
            simp only [sizeOKDT, Bool.and_eq_true]
            exact ⟨sizeOKF_of_fslFree kf _ h.1 (by omega), sizeOKF_of_fslFree vf _ h.2 (by omega)⟩
          | cons _ _ => simp [sizeOKDT]
    | _ => simp [sizeOKDT]
  | .struct fs, L, h, hl => by simp only [fslFreeDT] at h; simp only [sizeOKDT]; exact sizeOKFs_of_fslFree fs L h hl
  | .union ufs _, L, h, hl => by simp only [fslFreeDT] at h; simp only [sizeOKDT]; exact sizeOKUs_of_fslFree ufs L h hl
  | .null, _, _, _ | .boolean, _, _, _ | .int8, _, _, _ | .int16, _, _, _ | .int32, _, _, _
  | .int64, _, _, _ | .uint8, _, _, _ | .uint16, _, _, _ | .uint32, _, _, _ | .uint64, _, _, _
  | .float16, _, _, _ | .float32, _, _, _ | .float64, _, _, _
  | .utf8, _, _, _ | .largeUtf8, _, _, _ | .utf8View, _, _, _ | .binary, _, _, _ | .largeBinary, _, _, _
  | .binaryView, _, _, _ | .fixedSizeBinary _, _, _, _ | .date32, _, _, _ | .date64, _, _, _
  | .timestamp _ _, _, _, _ | .time32 _, _, _, _ | .time64 _, _, _, _ | .duration _, _, _, _
  | .interval _, _, _, _ | .decimal128 _ _, _, _, _ | .runEndEncoded _ _, _, _, _ => by simp [sizeOKDT]
theorem sizeOKF_of_fslFree : ∀ (f : Field) (L : Nat), fslFreeF f = true → L ≤ 9223372036854775807 → sizeOKF f L = true
  | .mk _ dt _ _, L, h, hl => by simp only [fslFreeF] at h; simp only [sizeOKF]; exact sizeOKDT_of_fslFree dt L h hl
theorem sizeOKFs_of_fslFree : ∀ (fs : Fields) (L : Nat), fslFreeFs fs = true → L ≤ 9223372036854775807 →
    sizeOKFs fs L = true
  | .nil, _, _, _ => by simp [sizeOKFs]
  | .cons f r, L, h, hl => by
    simp only [fslFreeFs, Bool.and_eq_true] at h
    simp only [sizeOKFs, Bool.and_eq_true]
    exact ⟨sizeOKF_of_fslFree f L h.1 hl, sizeOKFs_of_fslFree r L h.2 hl⟩
theorem sizeOKUs_of_fslFree : ∀ (ufs : UFields) (L : Nat), fslFreeUFs ufs = true → L ≤ 9223372036854775807 →
    sizeOKUs ufs L = true
  | .nil, _, _, _ => by simp [sizeOKUs]
  | .cons _ f r, L, h, hl => by
    simp only [fslFreeUFs, Bool.and_eq_true] at h
    simp only [sizeOKUs, Bool.and_eq_true]
    exact ⟨sizeOKF_of_fslFree f L h.1 hl, sizeOKUs_of_fslFree r L h.2 hl⟩
end

theorem sizeOKFs_ofList : ∀ (l : List Field) (L : Nat), (∀ f ∈ l, sizeOKDT f.dataType L = true) →
    sizeOKFs (Fields.ofList l) L = true
  | [], _, _ => by simp [Fields.ofList, sizeOKFs]
  | f :: r, L, h => by
    simp only [Fields.ofList, sizeOKFs, Bool.and_eq_true, sizeOKF_dt]
    exact ⟨h f (by simp), sizeOKFs_ofList r L (fun g hg => h g (by simp [hg]))⟩

end SaModel.Lemmas.C03
