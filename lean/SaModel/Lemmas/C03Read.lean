import SaModel.Spec.WF
import SaModel.Read.Reader
import SaModel.Build.Builder
/-
Bridge builder side → reader side, part 1: `ArrayDeserializer::new` (`Read.new`) accepts every well-formed array
(`Spec.wf`) of a data type the READER supports.

`readableDT` / `readableF` is a predicate on the SCHEMA only.  It lists exactly the three places where `build_builder`
accepts a field that `ArrayDeserializer::new` refuses (everything else `Spec.wf` already forces):
  * a `SERDE_ARROW:strategy` metadata entry on a child field whose value is not one of the four known strategies
    (the builders never parse the strategy of a child field; the readers call `get_strategy_from_metadata(..)?`),
  * a dictionary whose value type is not Utf8 / LargeUtf8 (the builders accept any value type, `DictionaryDeserializer`
    only strings),
  * (a time zone that is not UTC is refused by BOTH sides — `isUtcTz_readable` below — it is part of the predicate so that
    `wf_new` can be stated about arrays alone).
Sparse unions, non-consecutive type ids, nullable dictionary values, negative sizes: excluded by `Spec.wf` itself.
-/
namespace SaModel.Lemmas.C03
open SaModel SaModel.Spec

/-- the reader's time zone check (`TimestampDeserializer`: `tz.to_lowercase() == "utc"`) -/
def tzReadable : Option String → Bool
  | none => true
  | some tz => tz.toLower == "utc"

/-- `get_strategy_from_metadata` succeeds -/
def strategyKnown (md : Metadata) : Bool := Read.strategyOk md == .ok ()

/-- Utf8 / LargeUtf8: the value types `DictionaryDeserializer` supports -/
def isUtf8DT : DataType → Bool
  | .utf8 | .largeUtf8 => true
  | _ => false

mutual
def readableDT : DataType → Bool
  | .timestamp _ tz => tzReadable tz
  | .struct fs => readableFs fs
  | .list f | .largeList f => readableF f
  | .fixedSizeList f _ => readableF f
  | .map (.mk _ (.struct (.cons kf (.cons vf .nil))) _ _) _ => readableF kf && readableF vf
  | .dictionary k v => Build.isIntDT k && isUtf8DT v
  | .union fs _ => readableUFs fs
  | _ => true
/-- a CHILD field: its strategy metadata is parsed by the parent reader -/
def readableF : Field → Bool
  | .mk _ dt _ md => strategyKnown md && readableDT dt
def readableFs : Fields → Bool
  | .nil => true
  | .cons f r => readableF f && readableFs r
def readableUFs : UFields → Bool
  | .nil => true
  | .cons _ f r => readableF f && readableUFs r
end

theorem strategyOk_of_known {md : Metadata} (h : strategyKnown md = true) : Read.strategyOk md = .ok () := by
  simpa [strategyKnown] using h

theorem readableF_iff (f : Field) : readableF f = (strategyKnown f.metadata && readableDT f.dataType) := by
  cases f; simp [readableF, Field.metadata, Field.dataType]

theorem meta_metadata {fm : FieldMeta} {f : Field} (h : metaMatches fm f = true) : fm.metadata = f.metadata := by
  simp only [metaMatches, Bool.and_eq_true, beq_iff_eq] at h; exact h.2

theorem strategyOk_meta {fm : FieldMeta} {f : Field} (hm : metaMatches fm f = true) (hr : readableF f = true) :
    Read.strategyOk fm.metadata = .ok () := by
  rw [readableF_iff, Bool.and_eq_true] at hr
  rw [meta_metadata hm]; exact strategyOk_of_known hr.1

theorem readableDT_of_F {f : Field} (hr : readableF f = true) : readableDT f.dataType = true := by
  rw [readableF_iff, Bool.and_eq_true] at hr; exact hr.2

theorem primMatches_intDT {ty : PrimTy} {k : DataType} (hk : Build.isIntDT k = true) (h : primMatches ty k = true) :
    Read.isIntPrim ty = true := by
  cases k <;> simp [Build.isIntDT] at hk <;> cases ty <;> simp [primMatches] at h <;> rfl

/-- a well-formed array of an integer type is a primitive array of an integer element type -/
theorem wf_intDT {k : DataType} {nl : Bool} {a : Arr} (hk : Build.isIntDT k = true) (h : wf k nl a = true) :
    ∃ ty v vals, a = .prim ty v vals ∧ Read.isIntPrim ty = true := by
  cases a with
  | prim ty v vals =>
    have : primMatches ty k = true := by
      cases k <;> simp [Build.isIntDT] at hk <;> simp only [wf, Bool.and_eq_true] at h <;> exact h.1.1
    exact ⟨ty, v, vals, rfl, primMatches_intDT hk this⟩
  | _ => cases k <;> simp [Build.isIntDT] at hk <;> simp [wf] at h

/-- a well-formed non-nullable array of a string type is a bytes array without bitmap -/
theorem wf_strDT {v : DataType} {a : Arr} (hv : isUtf8DT v = true) (h : wf v false a = true) :
    ∃ ty offs data, a = .bytes ty none offs data ∧ isUtf8Ty ty = true := by
  cases v <;> simp only [isUtf8DT, Bool.false_eq_true] at hv
  all_goals
    cases a with
    | bytes ty vv offs data =>
      cases ty <;> simp only [wf, Bool.and_eq_true, Bool.false_eq_true] at h
      all_goals
        cases vv with
        | none => exact ⟨_, offs, data, rfl, rfl⟩
        | some b => simp [validityOk] at h
    | prim ty _ _ => cases ty <;> simp [wf, primMatches] at h
    | _ => simp [wf] at h

mutual
/-- **`wf_new`**: `ArrayDeserializer::new` accepts every well-formed array of a readable type -/
theorem wf_new : ∀ (a : Arr) (dt : DataType) (nl : Bool), readableDT dt = true → wf dt nl a = true →
    Read.new Read.Fixes.all a = .ok ()
  | .null _, _, _, _, _ => by simp only [Read.new]
  | .boolean _ _ _, _, _, _, _ => by simp only [Read.new]
  | .prim _ _ _, _, _, _, _ => by simp only [Read.new]
  | .time _ _ _ _, _, _, _, _ => by simp only [Read.new]
  | .decimal128 _ _ _ _, _, _, _, _ => by simp only [Read.new]
  | .bytes _ _ _ _, _, _, _, _ => by simp only [Read.new]
  | .bytesView _ _ _ _, _, _, _, _ => by simp only [Read.new]
  | .timestamp u tz v vals, dt, nl, hr, h => by
    cases dt <;> simp only [wf, Bool.and_eq_true, Bool.false_eq_true, beq_iff_eq] at h
    rename_i u' tz'
    obtain ⟨⟨⟨_, htz⟩, _⟩, _⟩ := h
    subst htz
    simp only [readableDT, tzReadable] at hr
    cases tz' with
    | none => simp only [Read.new]
    | some s => simp only [Read.new]; simp only [hr, if_true]
  | .fixedSizeBinary n v data, dt, nl, hr, h => by
    cases dt <;> simp only [wf, Bool.and_eq_true, Bool.false_eq_true, beq_iff_eq, decide_eq_true_eq] at h
    rename_i n'
    obtain ⟨⟨⟨hn, h0⟩, hd⟩, _⟩ := h
    subst hn
    have hfsb : ∃ p, Read.fsbNew Read.Fixes.all n' data = .ok p := by
      unfold Read.fsbNew
      rw [if_neg (by omega)]
      by_cases hz : n' = 0
      · subst hz
        simp only [if_true, List.isEmpty_iff] at hd
        subst hd
        exact ⟨(0, 0), by simp [Read.Fixes.all]⟩
      · have hz' : n'.toNat ≠ 0 := by omega
        rw [if_neg hz] at hd
        rw [if_neg hz', if_neg (by simpa using hd)]
        exact ⟨_, rfl⟩
    obtain ⟨p, hp⟩ := hfsb
    simp only [Read.new, hp, bind, Except.bind, pure, Except.pure]
  | .struct len v cols, dt, nl, hr, h => by
    cases dt <;> simp only [wf, Bool.and_eq_true, Bool.false_eq_true] at h
    rename_i fs
    simp only [readableDT] at hr
    simp only [Read.new]
    exact wfFields_new cols fs len hr h.2
  | .list lg v offs fm el, dt, nl, hr, h => by
    cases lg
    all_goals
      cases dt <;> simp only [wf, Bool.and_eq_true, Bool.false_eq_true] at h
      rename_i f
      simp only [readableDT] at hr
      obtain ⟨⟨⟨_, hm⟩, _⟩, hw⟩ := h
      have ih := wf_new el _ _ (readableDT_of_F hr) hw
      simp only [Read.new, strategyOk_meta hm hr, ih, bind, Except.bind]
  | .fixedSizeList len v n fm el, dt, nl, hr, h => by
    cases dt <;> simp only [wf, Bool.and_eq_true, Bool.false_eq_true, beq_iff_eq, decide_eq_true_eq] at h
    rename_i f n'
    simp only [readableDT] at hr
    obtain ⟨⟨⟨⟨⟨hn, h0⟩, _⟩, hm⟩, _⟩, hw⟩ := h
    subst hn
    have ih := wf_new el _ _ (readableDT_of_F hr) hw
    simp only [Read.new, strategyOk_meta hm hr, ih, bind, Except.bind, Read.tryIntoUsize, h0, if_true, pure, Except.pure]
  | .map v offs mm ks vs, dt, nl, hr, h => by
    cases dt with
    | map ef sorted =>
      rcases ef with ⟨ename, edt, enl, emd⟩
      cases edt with
      | struct efs =>
        cases efs with
        | nil => simp [wf] at h
        | cons kf r1 =>
          cases r1 with
          | nil => simp [wf] at h
          | cons vf r2 =>
            cases r2 with
            | cons _ _ => simp [wf] at h
            | nil =>
              simp only [wf, Bool.and_eq_true] at h
              simp only [readableDT, Bool.and_eq_true] at hr
              obtain ⟨⟨⟨⟨⟨⟨⟨⟨_, _⟩, _⟩, hmk⟩, hmv⟩, _⟩, _⟩, hwk⟩, hwv⟩ := h
              have ihk := wf_new ks _ _ (readableDT_of_F hr.1) hwk
              have ihv := wf_new vs _ _ (readableDT_of_F hr.2) hwv
              simp only [Read.new, strategyOk_meta hmk hr.1, strategyOk_meta hmv hr.2, ihk, ihv, bind, Except.bind]
      | _ => simp [wf] at h
    | _ => simp [wf] at h
  | .dictionary ks vs, dt, nl, hr, h => by
    cases dt <;> simp only [wf, Bool.and_eq_true, Bool.false_eq_true] at h
    rename_i k vdt
    simp only [readableDT, Bool.and_eq_true] at hr
    obtain ⟨kty, kv, kvals, rfl, hki⟩ := wf_intDT hr.1 h.1.1
    obtain ⟨vty, offs, data, rfl, hu⟩ := wf_strDT hr.2 h.1.2
    simp [Read.new, hki, hu]
  | .union types offs cols, dt, nl, hr, h => by
    cases dt <;> simp only [wf, Bool.and_eq_true, Bool.false_eq_true, beq_iff_eq] at h
    rename_i fs m
    simp only [readableDT] at hr
    obtain ⟨⟨⟨hs, hl⟩, hw⟩, _⟩ := h
    cases offs with
    | none => simp at hs
    | some o =>
      simp only [Option.getD_some] at hl
      simp only [Read.new]
      rw [if_neg (by omega)]
      exact wfUFields_new cols fs 0 hr hw
theorem wfFields_new : ∀ (cols : ArrFields) (fs : Fields) (len : Nat), readableFs fs = true →
    wfFields fs cols len = true → Read.newFields Read.Fixes.all cols = .ok ()
  | .nil, _, _, _, _ => by simp only [Read.newFields]
  | .cons fm a rest, fs, len, hr, h => by
    cases fs with
    | nil => simp only [wfFields, Bool.false_eq_true] at h
    | cons f frest =>
      simp only [wfFields, Bool.and_eq_true] at h
      simp only [readableFs, Bool.and_eq_true] at hr
      obtain ⟨⟨⟨hm, _⟩, hw⟩, hrest⟩ := h
      have ih1 := wf_new a _ _ (readableDT_of_F hr.1) hw
      have ih2 := wfFields_new rest frest len hr.2 hrest
      simp only [Read.newFields, strategyOk_meta hm hr.1, ih1, ih2, bind, Except.bind]
theorem wfUFields_new : ∀ (cols : ArrUFields) (fs : UFields) (k : Nat), readableUFs fs = true →
    wfUFields fs cols (Int.ofNat k) = true → Read.newUFields Read.Fixes.all cols k = .ok ()
  | .nil, _, _, _, _ => by simp only [Read.newUFields]
  | .cons tid fm a rest, fs, k, hr, h => by
    cases fs with
    | nil => simp only [wfUFields, Bool.false_eq_true] at h
    | cons tid' f frest =>
      simp only [wfUFields, Bool.and_eq_true, beq_iff_eq] at h
      simp only [readableUFs, Bool.and_eq_true] at hr
      obtain ⟨⟨⟨⟨ht, hk⟩, hm⟩, hw⟩, hrest⟩ := h
      have ih1 := wf_new a _ _ (readableDT_of_F hr.1) hw
      have ih2 := wfUFields_new rest frest (k + 1) hr.2 (by simpa using hrest)
      have htid : tid = Int.ofNat k := by rw [← ht, hk]
      simp only [Read.newUFields, htid, ne_eq, not_true_eq_false, if_false, strategyOk_meta hm hr.1, ih1, ih2, bind,
        Except.bind]
end

/-- field form -/
theorem WF_new (f : Field) (a : Arr) (hr : readableDT f.dataType = true) (h : WFS f a = true) :
    Read.new Read.Fixes.all a = .ok () := wf_new a _ _ hr h

end SaModel.Lemmas.C03
