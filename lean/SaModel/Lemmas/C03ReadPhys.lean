import SaModel.Spec.WF
import SaModel.Lemmas.C02Container
import SaModel.Lemmas.C12WF
/-
Bridge builder side → reader side, part 3: `Read.physical` (lengths a Rust `usize` / `i64` can hold — the second
precondition of `Props.C02.read_any_decode`).

`Read.physical` has two clauses: the child of a FixedSizeList has at most `usize::MAX` slots, the values of a dictionary
at most `i64::MAX`.  Both are facts about Rust memory that the model's unbounded lists / counters cannot see:
`Spec.wf` does NOT imply them (`wf_not_physical`: a well-formed FixedSizeList<Null, 2> of 2^63 rows — `Null` arrays are a
bare counter, so no buffer bounds the row count).  What IS derivable from `Spec.wf` alone:

  wf_physical_plain   for every data type without FixedSizeList and Dictionary (`physFreeDT`, any nesting of struct /
                      list / large list / map / union / leaves), `Spec.wf dt nl a → Read.physical a`.
-/
namespace SaModel.Lemmas.C03
open SaModel SaModel.Spec SaModel.Read

mutual
/-- no FixedSizeList and no Dictionary anywhere in the type -/
def physFreeDT : DataType → Bool
  | .fixedSizeList _ _ | .dictionary _ _ => false
  | .struct fs => physFreeFs fs
  | .list f | .largeList f => physFreeF f
  | .map (.mk _ (.struct (.cons kf (.cons vf .nil))) _ _) _ => physFreeF kf && physFreeF vf
  | .union fs _ => physFreeUFs fs
  | _ => true
def physFreeF : Field → Bool
  | .mk _ dt _ _ => physFreeDT dt
def physFreeFs : Fields → Bool
  | .nil => true
  | .cons f r => physFreeF f && physFreeFs r
def physFreeUFs : UFields → Bool
  | .nil => true
  | .cons _ f r => physFreeF f && physFreeUFs r
end

theorem physFreeF_dt (f : Field) : physFreeF f = physFreeDT f.dataType := by cases f; simp [physFreeF, Field.dataType]

mutual
theorem wf_physical_plain : ∀ (a : Arr) (dt : DataType) (nl : Bool), physFreeDT dt = true → wf dt nl a = true →
    physical a = true
  | .null _, _, _, _, _ => by simp only [physical]
  | .boolean _ _ _, _, _, _, _ => by simp only [physical]
  | .prim _ _ _, _, _, _, _ => by simp only [physical]
  | .time _ _ _ _, _, _, _, _ => by simp only [physical]
  | .timestamp _ _ _ _, _, _, _, _ => by simp only [physical]
  | .decimal128 _ _ _ _, _, _, _, _ => by simp only [physical]
  | .bytes _ _ _ _, _, _, _, _ => by simp only [physical]
  | .bytesView _ _ _ _, _, _, _, _ => by simp only [physical]
  | .fixedSizeBinary _ _ _, _, _, _, _ => by simp only [physical]
  | .struct len v cols, dt, nl, hp, h => by
    cases dt <;> simp only [wf, Bool.and_eq_true, Bool.false_eq_true] at h
    rename_i fs
    simp only [physFreeDT] at hp
    simp only [physical]
    exact wfFields_physical_plain cols fs len hp h.2
  | .list lg v offs fm el, dt, nl, hp, h => by
    cases lg
    all_goals
      cases dt <;> simp only [wf, Bool.and_eq_true, Bool.false_eq_true] at h
      rename_i f
      simp only [physFreeDT, physFreeF_dt] at hp
      simp only [physical]
      exact wf_physical_plain el _ _ hp h.2
  | .fixedSizeList len v n fm el, dt, nl, hp, h => by
    cases dt <;> simp only [wf, Bool.and_eq_true, Bool.false_eq_true] at h
    simp [physFreeDT] at hp
  | .map v offs mm ks vs, dt, nl, hp, h => by
    cases dt with
    | map ef sorted =>
      rcases ef with ⟨ename, edt, enl, emd⟩
      cases edt with
      | struct efs =>
        cases efs with
        | nil => simp [wf] at h
        | cons kf r1 =>
          cases r1 with
          | nil => simp [wf] at h
          | cons vf r2 =>
            cases r2 with
            | cons _ _ => simp [wf] at h
            | nil =>
              simp only [wf, Bool.and_eq_true] at h
              simp only [physFreeDT, physFreeF_dt, Bool.and_eq_true] at hp
              simp only [physical, Bool.and_eq_true]
              exact ⟨wf_physical_plain ks _ _ hp.1 h.1.2, wf_physical_plain vs _ _ hp.2 h.2⟩
      | _ => simp [wf] at h
    | _ => simp [wf] at h
  | .dictionary ks vs, dt, nl, hp, h => by
    cases dt <;> simp only [wf, Bool.and_eq_true, Bool.false_eq_true] at h
    simp [physFreeDT] at hp
  | .union types offs cols, dt, nl, hp, h => by
    cases dt <;> simp only [wf, Bool.and_eq_true, Bool.false_eq_true] at h
    rename_i fs m
    simp only [physFreeDT] at hp
    simp only [physical]
    exact wfUFields_physical_plain cols fs 0 hp h.1.2
theorem wfFields_physical_plain : ∀ (cols : ArrFields) (fs : Fields) (len : Nat), physFreeFs fs = true →
    wfFields fs cols len = true → physicalFields cols = true
  | .nil, _, _, _, _ => by simp only [physicalFields]
  | .cons fm a rest, fs, len, hp, h => by
    cases fs with
    | nil => simp only [wfFields, Bool.false_eq_true] at h
    | cons f frest =>
      simp only [wfFields, Bool.and_eq_true] at h
      simp only [physFreeFs, physFreeF_dt, Bool.and_eq_true] at hp
      simp only [physicalFields, Bool.and_eq_true]
      exact ⟨wf_physical_plain a _ _ hp.1 h.1.2, wfFields_physical_plain rest frest len hp.2 h.2⟩
theorem wfUFields_physical_plain : ∀ (cols : ArrUFields) (fs : UFields) (k : Int), physFreeUFs fs = true →
    wfUFields fs cols k = true → physicalUFields cols = true
  | .nil, _, _, _, _ => by simp only [physicalUFields]
  | .cons tid fm a rest, fs, k, hp, h => by
    cases fs with
    | nil => simp only [wfUFields, Bool.false_eq_true] at h
    | cons tid' f frest =>
      simp only [wfUFields, Bool.and_eq_true] at h
      simp only [physFreeUFs, physFreeF_dt, Bool.and_eq_true] at hp
      simp only [physicalUFields, Bool.and_eq_true]
      exact ⟨wf_physical_plain a _ _ hp.1 h.1.2, wfUFields_physical_plain rest frest (k + 1) hp.2 h.2⟩
end

/-- field form -/
theorem WF_physical_plain (f : Field) (a : Arr) (hp : physFreeDT f.dataType = true) (h : WFS f a = true) :
    physical a = true := wf_physical_plain a _ _ hp h

/-- `Spec.wf` alone does NOT give `Read.physical`: a FixedSizeList<Null, 2> column of 2^63 rows is well formed (a Null
array is a bare row counter) and its child has 2^64 > `usize::MAX` slots.  The size hypothesis of the read-back theorems
for FixedSizeList / Dictionary columns cannot be dropped in the model (unbounded `Nat` counters). -/
theorem wf_not_physical :
    let f : Field := .mk "c" (.fixedSizeList (.mk "element" .null false []) 2) false []
    let a : Arr := .fixedSizeList (2 ^ 63) none 2 ⟨"element", false, []⟩ (.null (2 ^ 64))
    WFS f a = true ∧ physical a = false := by
  refine ⟨?_, ?_⟩
  · simp only [WFS, Field.dataType, Field.nullable, wf, C12.decodeAll_length, lenOf, validityOk, metaMatches, Field.name,
      Field.metadata]
    decide
  · simp only [physical, lenOf, usizeMax]
    decide

end SaModel.Lemmas.C03
