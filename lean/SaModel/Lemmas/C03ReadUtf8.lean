import SaModel.Spec.WF
import SaModel.Spec.DecodeAt
import SaModel.Read.ToD
import SaModel.Lemmas.C02DecodeAt
import SaModel.Lemmas.C03ReadValid
/-
Bridge builder side → reader side, part 2: every string inside the logical value of a slot of a well-formed array is
valid UTF-8 (`Read.utf8Ok`, the third precondition of `Props.C02.read_any_decode`).  `Spec.wf` asks UTF-8 validity of
the data of Utf8 / LargeUtf8 / Utf8View columns (`bytesUtf8`, the slot-wise clause of Utf8View); this file carries it
through every container to the decoded value of any slot.  No hypothesis besides `Spec.wf`.
-/
namespace SaModel.Lemmas.C03
open SaModel SaModel.Spec SaModel.Read

theorem ite_oob_ok {c : Prop} [Decidable c] {x : R LVal} {lv : LVal} (h : (if c then x else oob) = .ok lv) :
    c ∧ x = .ok lv := by
  split at h
  · exact ⟨‹_›, h⟩
  · simp [oob, fail] at h

theorem withValidity_ok {v : Option Bits} {i : Nat} {p : R LVal} {lv : LVal} (h : withValidity v i p = .ok lv) :
    lv = .null ∨ p = .ok lv := by
  unfold withValidity at h
  cases hv : isValid v i with
  | error e => simp [hv, bind, Except.bind] at h
  | ok b =>
    simp only [hv, bind, Except.bind] at h
    cases b
    · simp only [Bool.not_false, if_true, pure, Except.pure, Except.ok.injEq] at h; exact .inl h.symm
    · simp only [Bool.not_true, Bool.false_eq_true, if_false] at h; exact .inr h

theorem bindR_ok {α β} {x : R α} {f : α → R β} {b : β} (h : (x >>= f) = .ok b) : ∃ a, x = .ok a ∧ f a = .ok b := by
  cases x with
  | ok a => exact ⟨a, rfl, h⟩
  | error e => cases h

theorem seqAt_mem {f : Nat → R LVal} : ∀ (n s : Nat) (xs : List LVal), seqAt f s n = .ok xs →
    ∀ v ∈ xs, ∃ j, f j = .ok v
  | 0, s, xs, h, v, hv => by unfold seqAt at h; cases h; simp at hv
  | n + 1, s, xs, h, v, hv => by
    unfold seqAt at h
    obtain ⟨x, hx, h⟩ := bindR_ok h
    obtain ⟨r, hr, h⟩ := bindR_ok h
    cases h
    rcases List.mem_cons.1 hv with rfl | hv
    · exact ⟨s, hx⟩
    · exact seqAt_mem n (s + 1) r hr v hv

theorem rangeAt_mem {f : Nat → R LVal} {len : Nat} {s e : Int} {xs : List LVal} (h : rangeAt f len s e = .ok xs) :
    ∀ v ∈ xs, ∃ j, f j = .ok v := by
  unfold rangeAt at h
  split at h
  · exact seqAt_mem _ _ _ h
  · simp [fail] at h

theorem utf8OkList_ofList : ∀ (xs : List LVal), (∀ v ∈ xs, utf8Ok v = true) → utf8OkList (LVals.ofList xs) = true
  | [], _ => by simp [LVals.ofList, utf8OkList]
  | x :: r, h => by
    simp [LVals.ofList, utf8OkList, h x (by simp), utf8OkList_ofList r (fun v hv => h v (by simp [hv]))]

theorem utf8OkEntries_zip : ∀ (ks ws : List LVal), (∀ v ∈ ks, utf8Ok v = true) → (∀ v ∈ ws, utf8Ok v = true) →
    utf8OkEntries (LEntries.ofList (ks.zip ws)) = true
  | [], _, _, _ => by simp [LEntries.ofList, utf8OkEntries]
  | _ :: _, [], _, _ => by simp [LEntries.ofList, utf8OkEntries]
  | k :: kr, w :: wr, hk, hw => by
    simp [LEntries.ofList, utf8OkEntries, hk k (by simp), hw w (by simp),
      utf8OkEntries_zip kr wr (fun v hv => hk v (by simp [hv])) (fun v hv => hw v (by simp [hv]))]

/-- the slot-wise content of `bytesUtf8` -/
theorem bytesUtf8_slot (offs : List Int) (data : Bytes) (h : bytesUtf8 offs data = true) (i : Nat)
    (hi : i < offs.length - 1) :
    Spec.validUtf8 ((data.drop (offs.getD i 0).toNat).take ((offs.getD (i + 1) 0).toNat - (offs.getD i 0).toNat)) = true := by
  unfold bytesUtf8 at h
  rw [List.all_eq_true] at h
  have h1 : i < offs.length := by omega
  have h2 : i < offs.tail.length := by simp; omega
  have hmem : (offs[i], offs.tail[i]) ∈ offs.zip offs.tail := by
    have : (offs.zip offs.tail)[i]'(by simp; omega) = (offs[i], offs.tail[i]) := by simp
    rw [← this]; exact List.getElem_mem _
  have := h _ hmem
  have e1 : offs.getD i 0 = offs[i] := by simp [List.getD, List.getElem?_eq_getElem h1]
  have e2 : offs.getD (i + 1) 0 = offs.tail[i] := by
    have h3 : i + 1 < offs.length := by omega
    simp [List.getD, List.getElem?_eq_getElem h3]
  rw [e1, e2]; exact this

theorem utf8Ok_leafOf (ty : PrimTy) (x : Int) : utf8Ok (leafOf ty x) = true := by
  cases ty <;> simp [leafOf, utf8Ok]

/-- slot `i` of `decodeAll` is `decodeAt … i` for an in-range slot -/
theorem decodeAll_getElem (a : Arr) (i : Nat) (hi : i < lenOf a) : decodeAt a i ∈ decodeAll a := by
  rw [decodeAll_eq_map_decodeAt]
  exact List.mem_map.2 ⟨i, by simpa using hi, rfl⟩

mutual
/-- **`wf_utf8`**: the logical value of ANY slot of a well-formed array only holds valid UTF-8 strings -/
theorem wf_utf8 : ∀ (a : Arr) (dt : DataType) (nl : Bool) (i : Nat) (lv : LVal), wf dt nl a = true →
    decodeAt a i = .ok lv → utf8Ok lv = true
  | .null len, _, _, i, lv, _, hd => by
    simp only [decodeAt] at hd
    obtain ⟨_, hd⟩ := ite_oob_ok hd; cases hd; simp [utf8Ok]
  | .boolean len v vals, _, _, i, lv, _, hd => by
    simp only [decodeAt] at hd
    obtain ⟨_, hd⟩ := ite_oob_ok hd
    rcases withValidity_ok hd with rfl | hd
    · simp [utf8Ok]
    · obtain ⟨b, _, hd⟩ := bindR_ok hd; cases hd; simp [utf8Ok]
  | .prim ty v vals, _, _, i, lv, _, hd => by
    simp only [decodeAt] at hd
    obtain ⟨_, hd⟩ := ite_oob_ok hd
    rcases withValidity_ok hd with rfl | hd
    · simp [utf8Ok]
    · cases hd; exact utf8Ok_leafOf _ _
  | .time _ _ v vals, _, _, i, lv, _, hd => by
    simp only [decodeAt] at hd
    obtain ⟨_, hd⟩ := ite_oob_ok hd
    rcases withValidity_ok hd with rfl | hd
    · simp [utf8Ok]
    · cases hd; simp [utf8Ok]
  | .timestamp _ _ v vals, _, _, i, lv, _, hd => by
    simp only [decodeAt] at hd
    obtain ⟨_, hd⟩ := ite_oob_ok hd
    rcases withValidity_ok hd with rfl | hd
    · simp [utf8Ok]
    · cases hd; simp [utf8Ok]
  | .decimal128 _ _ v vals, _, _, i, lv, _, hd => by
    simp only [decodeAt] at hd
    obtain ⟨_, hd⟩ := ite_oob_ok hd
    rcases withValidity_ok hd with rfl | hd
    · simp [utf8Ok]
    · cases hd; simp [utf8Ok]
  | .fixedSizeBinary n v data, _, _, i, lv, _, hd => by
    simp only [decodeAt] at hd
    split at hd
    · simp [oob, fail] at hd
    · obtain ⟨_, hd⟩ := ite_oob_ok hd
      rcases withValidity_ok hd with rfl | hd
      · simp [utf8Ok]
      · cases hd; simp [utf8Ok]
  | .bytes ty v offs data, dt, nl, i, lv, h, hd => by
    simp only [decodeAt] at hd
    obtain ⟨hi, hd⟩ := ite_oob_ok hd
    rcases withValidity_ok hd with rfl | hd
    · simp [utf8Ok]
    · split at hd
      · cases hd
        cases ty
        case binary => simp [bytesVal, isUtf8Ty, utf8Ok]
        case largeBinary => simp [bytesVal, isUtf8Ty, utf8Ok]
        all_goals
          have hb : bytesUtf8 offs data = true := by
            cases dt <;> simp only [wf, Bool.and_eq_true, Bool.false_eq_true] at h <;> exact h.2
          simp only [bytesVal, isUtf8Ty, if_true, utf8Ok]
          exact validUtf8_spec_read _ (bytesUtf8_slot offs data hb i hi)
      · simp [fail] at hd
  | .bytesView ty v views buffers, dt, nl, i, lv, h, hd => by
    cases ty
    case binaryView =>
      simp only [decodeAt] at hd
      obtain ⟨_, hd⟩ := ite_oob_ok hd
      rcases withValidity_ok hd with rfl | hd
      · simp [utf8Ok]
      · obtain ⟨b, _, hd⟩ := bindR_ok hd
        cases hd
        have : (ViewTy.binaryView == ViewTy.utf8View) = false := by decide
        simp [bytesVal, this, utf8Ok]
    case utf8View =>
      have hi : i < lenOf (.bytesView .utf8View v views buffers) := by
        simp only [decodeAt] at hd
        exact (ite_oob_ok hd).1
      have hall : (decodeAll (.bytesView .utf8View v views buffers)).all
          (fun r => match r with | .ok (.str b) => Spec.validUtf8 b | .ok .null => true | _ => false) = true := by
        cases dt <;> simp only [wf, Bool.and_eq_true, Bool.false_eq_true] at h <;> exact h.2
      rw [List.all_eq_true] at hall
      have := hall _ (decodeAll_getElem _ i hi)
      rw [hd] at this
      cases lv <;> simp at this
      · simp [utf8Ok]
      · simp only [utf8Ok]; exact validUtf8_spec_read _ this
  | .struct len v cols, dt, nl, i, lv, h, hd => by
    simp only [decodeAt] at hd
    obtain ⟨_, hd⟩ := ite_oob_ok hd
    rcases withValidity_ok hd with rfl | hd
    · simp [utf8Ok]
    · obtain ⟨l, hl, hd⟩ := bindR_ok hd
      cases hd
      cases dt <;> simp only [wf, Bool.and_eq_true, Bool.false_eq_true] at h
      rename_i fs
      simp only [utf8Ok]
      exact wfFields_utf8 cols fs len i l h.2 hl
  | .list lg v offs fm el, dt, nl, i, lv, h, hd => by
    simp only [decodeAt] at hd
    obtain ⟨_, hd⟩ := ite_oob_ok hd
    rcases withValidity_ok hd with rfl | hd
    · simp [utf8Ok]
    · obtain ⟨xs, hxs, hd⟩ := bindR_ok hd
      cases hd
      have hw : ∃ f : Field, wf f.dataType f.nullable el = true := by
        cases lg <;> cases dt <;> simp only [wf, Bool.and_eq_true, Bool.false_eq_true] at h <;> exact ⟨_, h.2⟩
      obtain ⟨f, hw⟩ := hw
      simp only [utf8Ok]
      refine utf8OkList_ofList xs (fun x hx => ?_)
      obtain ⟨j, hj⟩ := rangeAt_mem hxs x hx
      exact wf_utf8 el _ _ j x hw hj
  | .fixedSizeList len v n fm el, dt, nl, i, lv, h, hd => by
    simp only [decodeAt] at hd
    obtain ⟨_, hd⟩ := ite_oob_ok hd
    rcases withValidity_ok hd with rfl | hd
    · simp [utf8Ok]
    · split at hd
      · simp [fail] at hd
      · obtain ⟨xs, hxs, hd⟩ := bindR_ok hd
        cases hd
        have hw : ∃ f : Field, wf f.dataType f.nullable el = true := by
          cases dt <;> simp only [wf, Bool.and_eq_true, Bool.false_eq_true] at h <;> exact ⟨_, h.2⟩
        obtain ⟨f, hw⟩ := hw
        simp only [utf8Ok]
        refine utf8OkList_ofList xs (fun x hx => ?_)
        obtain ⟨j, hj⟩ := rangeAt_mem hxs x hx
        exact wf_utf8 el _ _ j x hw hj
  | .map v offs mm ks vs, dt, nl, i, lv, h, hd => by
    simp only [decodeAt] at hd
    obtain ⟨_, hd⟩ := ite_oob_ok hd
    rcases withValidity_ok hd with rfl | hd
    · simp [utf8Ok]
    · obtain ⟨k, hk, hd⟩ := bindR_ok hd
      obtain ⟨w, hw, hd⟩ := bindR_ok hd
      cases hd
      have hwf : ∃ kf vf : Field, wf kf.dataType kf.nullable ks = true ∧ wf vf.dataType vf.nullable vs = true := by
        cases dt with
        | map ef sorted =>
          rcases ef with ⟨ename, edt, enl, emd⟩
          cases edt with
          | struct efs =>
            cases efs with
            | nil => simp [wf] at h
            | cons kf r1 =>
              cases r1 with
              | nil => simp [wf] at h
              | cons vf r2 =>
                cases r2 with
                | cons _ _ => simp [wf] at h
                | nil =>
                  simp only [wf, Bool.and_eq_true] at h
                  exact ⟨kf, vf, h.1.2, h.2⟩
          | _ => simp [wf] at h
        | _ => simp [wf] at h
      obtain ⟨kf, vf, hwk, hwv⟩ := hwf
      simp only [utf8Ok]
      refine utf8OkEntries_zip k w (fun x hx => ?_) (fun x hx => ?_)
      · obtain ⟨j, hj⟩ := rangeAt_mem hk x hx
        exact wf_utf8 ks _ _ j x hwk hj
      · obtain ⟨j, hj⟩ := rangeAt_mem hw x hx
        exact wf_utf8 vs _ _ j x hwv hj
  | .dictionary ks vs, dt, nl, i, lv, h, hd => by
    simp only [decodeAt] at hd
    obtain ⟨_, hd⟩ := ite_oob_ok hd
    obtain ⟨k, hk, hd⟩ := bindR_ok hd
    have hwv : ∃ vdt, wf vdt false vs = true := by
      cases dt <;> simp only [wf, Bool.and_eq_true, Bool.false_eq_true] at h <;> exact ⟨_, h.1.2⟩
    obtain ⟨vdt, hwv⟩ := hwv
    cases k with
    | null => cases hd; simp [utf8Ok]
    | int j =>
      simp only at hd
      split at hd
      · exact wf_utf8 vs _ _ _ lv hwv hd
      · simp [fail] at hd
    | _ => simp [fail] at hd
  | .union types offs cols, dt, nl, i, lv, h, hd => by
    simp only [decodeAt] at hd
    obtain ⟨_, hd⟩ := ite_oob_ok hd
    have hw : ∃ fs k, wfUFields fs cols k = true := by
      cases dt <;> simp only [wf, Bool.and_eq_true, Bool.false_eq_true] at h <;> exact ⟨_, _, h.1.2⟩
    obtain ⟨fs, k, hw⟩ := hw
    split at hd
    · simp [fail] at hd
    · rename_i pos _
      split at hd
      · split at hd
        · obtain ⟨x, hv, hd⟩ := bindR_ok hd
          cases hd
          simp only [utf8Ok]
          exact wfUFields_utf8 cols fs k pos _ x hw hv
        · simp [fail] at hd
      · obtain ⟨x, hv, hd⟩ := bindR_ok hd
        cases hd
        simp only [utf8Ok]
        exact wfUFields_utf8 cols fs k pos _ x hw hv
theorem wfFields_utf8 : ∀ (cols : ArrFields) (fs : Fields) (len i : Nat) (l : List (String × LVal)),
    wfFields fs cols len = true → decodeFieldsAt cols i = .ok l → utf8OkFields (LFields.ofList l) = true
  | .nil, _, _, _, l, _, hd => by
    simp only [decodeFieldsAt] at hd; cases hd; simp [LFields.ofList, utf8OkFields]
  | .cons fm a rest, fs, len, i, l, h, hd => by
    cases fs with
    | nil => simp only [wfFields, Bool.false_eq_true] at h
    | cons f frest =>
      simp only [wfFields, Bool.and_eq_true] at h
      simp only [decodeFieldsAt] at hd
      obtain ⟨x, hx, hd⟩ := bindR_ok hd
      obtain ⟨r, hr, hd⟩ := bindR_ok hd
      cases hd
      simp [LFields.ofList, utf8OkFields, wf_utf8 a _ _ i x h.1.2 hx, wfFields_utf8 rest frest len i r h.2 hr]
theorem wfUFields_utf8 : ∀ (cols : ArrUFields) (fs : UFields) (k : Int) (pos j : Nat) (x : LVal),
    wfUFields fs cols k = true → decodeVariantAt cols pos j = .ok x → utf8Ok x = true
  | .nil, _, _, _, _, _, _, hd => by simp [decodeVariantAt, oob, fail] at hd
  | .cons tid fm a rest, fs, k, pos, j, x, h, hd => by
    cases fs with
    | nil => simp only [wfUFields, Bool.false_eq_true] at h
    | cons tid' f frest =>
      simp only [wfUFields, Bool.and_eq_true] at h
      cases pos with
      | zero => simp only [decodeVariantAt] at hd; exact wf_utf8 a _ _ j x h.1.2 hd
      | succ p => simp only [decodeVariantAt] at hd; exact wfUFields_utf8 rest frest (k + 1) p j x h.2 hd
end

/-- field form -/
theorem WF_utf8 (f : Field) (a : Arr) (i : Nat) (lv : LVal) (h : WFS f a = true) (hd : decodeAt a i = .ok lv) :
    utf8Ok lv = true := wf_utf8 a _ _ i lv h hd

end SaModel.Lemmas.C03
