import SaModel.Spec.WF
import SaModel.Lemmas.C04Utf8
/-
Bridge builder side → reader side: the specification's UTF-8 recogniser (`Spec.validUtf8`, what `Spec.wf` asks of string
data) implies the READER's (`Read.validUtf8`, the model of `std::str::from_utf8`; what `Read.utf8Ok` and the string
readers use).  For arbitrary byte strings — `Lemmas.C04Utf8.validUtf8_strBytes` is the special case of the bytes of a `String`.
-/
namespace SaModel.Lemmas.C03
open SaModel

theorem validUtf8_spec_read_aux : ∀ (n : Nat) (b : Bytes), b.length ≤ n → Spec.validUtf8 b = true → Read.validUtf8 b = true
  | _, [], _, _ => by rw [Read.validUtf8]
  | 0, _ :: _, hl, _ => by simp at hl
  | n + 1, b0 :: rest, hl, h => by
    have validUtf8_spec_read : ∀ r : Bytes, r.length ≤ rest.length → Spec.validUtf8 r = true → Read.validUtf8 r = true :=
      fun r hr => validUtf8_spec_read_aux n r (by simp only [List.length_cons] at hl; omega)
    rw [Spec.validUtf8.eq_def] at h
    simp only at h
    split at h
    · rename_i h0
      rw [C04Utf8.valid1 b0 rest h0]; exact validUtf8_spec_read rest (Nat.le_refl _) h
    · split at h
      · rename_i h0
        cases rest with
        | nil => simp at h
        | cons b1 r =>
          simp only [Bool.and_eq_true, decide_eq_true_eq] at h
          rw [C04Utf8.valid2 b0 b1 r h0 h.1]; exact validUtf8_spec_read r (by simp only [List.length_cons]; omega) h.2
      · split at h
        · rename_i h0
          cases rest with
          | nil => simp at h
          | cons b1 r1 =>
            cases r1 with
            | nil => simp at h
            | cons b2 r =>
              simp only [Bool.and_eq_true, decide_eq_true_eq] at h
              rw [C04Utf8.valid3 b0 b1 b2 r h0 h.1.1 h.1.2]; exact validUtf8_spec_read r (by simp only [List.length_cons]; omega) h.2
        · split at h
          · rename_i h0
            cases rest with
            | nil => simp at h
            | cons b1 r1 =>
              cases r1 with
              | nil => simp at h
              | cons b2 r2 =>
                cases r2 with
                | nil => simp at h
                | cons b3 r =>
                  simp only [Bool.and_eq_true, decide_eq_true_eq] at h
                  rw [C04Utf8.valid4 b0 b1 b2 b3 r h0 h.1.1.1 h.1.1.2 h.1.2]; exact validUtf8_spec_read r (by simp only [List.length_cons]; omega) h.2
          · cases h

theorem validUtf8_spec_read (b : Bytes) (h : Spec.validUtf8 b = true) : Read.validUtf8 b = true :=
  validUtf8_spec_read_aux b.length b (Nat.le_refl _) h

end SaModel.Lemmas.C03
