import SaModel.Lemmas.C03New
/-
`BuiltFor` only depends on what `take` leaves behind (`takeRest`: kind, parameters, child metas, presence of the
bitmap).  So shape preservation by `push` is exactly `Build.push_takeRest : push ext b x = ok b' →
takeRest b' = takeRest b` (Lemmas/C10TakePush.lean); `runRows_builtFor` takes that statement as a hypothesis and yields the
`hshape` hypothesis of `Props.C03.C03_wf_of_root`.
-/
namespace SaModel.Lemmas.C03
open SaModel SaModel.Build SaModel.Spec

theorem isSome_map_nil (v : Validity) : (v.map fun _ => ([] : List Bool)).isSome = v.isSome := by
  cases v <;> rfl

mutual
theorem BuiltFor_takeRest : ∀ (b : B) (dt : DataType) (nl : Bool), BuiltFor dt nl (takeRest b) ↔ BuiltFor dt nl b
  | .null _ _, _, _ => by simp only [takeRest, BuiltFor]
  | .unknownVariant _, _, _ => by simp only [takeRest, BuiltFor]
  | .leaf _ _ v _, _, _ => by simp only [takeRest, BuiltFor, isSome_map_nil]
  | .bytes _ _ v _ _, _, _ => by simp only [takeRest, BuiltFor, isSome_map_nil]
  | .bytesView _ _ v _ _, _, _ => by simp only [takeRest, BuiltFor, isSome_map_nil]
  | .fixedSizeBinary _ _ _ v _ _, _, _ => by simp only [takeRest, BuiltFor, isSome_map_nil]
  | .list _ _ _ v _ el, _, _ => by
    simp only [takeRest, BuiltFor, isSome_map_nil, BuiltFor_takeRest el]
  | .fixedSizeList _ _ _ _ v _ el, _, _ => by
    simp only [takeRest, BuiltFor, isSome_map_nil, BuiltFor_takeRest el]
  | .map _ _ v _ ks vs, _, _ => by
    simp only [takeRest, BuiltFor, isSome_map_nil, BuiltFor_takeRest ks, BuiltFor_takeRest vs]
  | .struct _ _ v fs _ _ _, _, _ => by
    simp only [takeRest, BuiltFor, isSome_map_nil, BuiltForL_takeRestAll fs]
  | .dictionary _ idx vals _, _, _ => by
    simp only [takeRest, BuiltFor, BuiltFor_takeRest idx, BuiltFor_takeRest vals]
  | .union _ fs _ _ _, _, _ => by
    simp only [takeRest, BuiltFor, BuiltForU_takeRestAll fs]
theorem BuiltForL_takeRestAll : ∀ (bl : BL) (fs : Fields), BuiltForL fs (takeRestAll bl) ↔ BuiltForL fs bl
  | .nil, fs => by simp only [takeRestAll]
  | .cons b m r, .nil => by simp only [takeRestAll, BuiltForL]
  | .cons b m r, .cons f fr => by
    simp only [takeRestAll, BuiltForL, BuiltFor_takeRest b, BuiltForL_takeRestAll r]
theorem BuiltForU_takeRestAll : ∀ (bl : BL) (ufs : UFields) (k : Nat),
    BuiltForU ufs (takeRestAll bl) k ↔ BuiltForU ufs bl k
  | .nil, ufs, k => by simp only [takeRestAll]
  | .cons b m r, .nil, k => by simp only [takeRestAll, BuiltForU]
  | .cons b m r, .cons t f fr, k => by
    simp only [takeRestAll, BuiltForU, BuiltFor_takeRest b, BuiltForU_takeRestAll r]
end

/-- two builder states that leave the same thing behind stand for the same field -/
theorem BuiltFor_of_takeRest_eq (b b' : B) (dt : DataType) (nl : Bool) (h : takeRest b' = takeRest b)
    (hb : BuiltFor dt nl b) : BuiltFor dt nl b' := by
  rw [← BuiltFor_takeRest b', h, BuiltFor_takeRest b]; exact hb

theorem foldlM_takeRest (ext : Ext)
    (hpush : ∀ (x : SVal) (b b' : B), push ext b x = .ok b' → takeRest b' = takeRest b) :
    ∀ (rows : List SVal) (r0 root : B), rows.foldlM (push ext) r0 = .ok root → takeRest root = takeRest r0
  | [], r0, root, h => by
    simp only [List.foldlM_nil, pure, Except.pure, Except.ok.injEq] at h; rw [h]
  | x :: rest, r0, root, h => by
    simp only [List.foldlM_cons, bind, Except.bind] at h
    cases hp : push ext r0 x with
    | error e => rw [hp] at h; cases h
    | ok r1 =>
      rw [hp] at h
      rw [foldlM_takeRest ext hpush rest r1 root h, hpush x r0 r1 hp]

/-- **`hshape` of `Props.C03.C03_wf_of_root`, from `push_takeRest`**: after any accepted sequence of rows the root builder
still stands for the struct of the declared fields. -/
theorem runRows_builtFor (ext : Ext) (fields : List Field) (rows : List SVal) (root : B)
    (hpush : ∀ (x : SVal) (b b' : B), push ext b x = .ok b' → takeRest b' = takeRest b)
    (h : runRows ext fields rows = .ok root) :
    BuiltFor (.struct (Fields.ofList fields)) false root := by
  simp only [runRows, bind, Except.bind] at h
  cases hr : newRoot fields with
  | error e => rw [hr] at h; cases h
  | ok r0 =>
    rw [hr] at h
    exact BuiltFor_of_takeRest_eq r0 root _ _ (foldlM_takeRest ext hpush rows r0 root h)
      (newRoot_builtFor fields r0 hr)

/-- bridge to the strict dictionary clause of `WFB` (`k = .int j → 0 ≤ j ∧ j.toNat < |index|`): together
with "every key is null or an integer" it is the dictionary clause of `Faithful` -/
theorem faithful_keys_of_strict (ks : List LVal) (n : Nat)
    (h1 : ∀ k ∈ ks, k = .null ∨ ∃ j : Int, k = .int j)
    (h2 : ∀ k ∈ ks, ∀ j : Int, k = .int j → 0 ≤ j ∧ j.toNat < n) :
    ∀ k ∈ ks, k = .null ∨ ∃ j : Nat, k = .int j ∧ j < n := by
  intro k hk
  rcases h1 k hk with h | ⟨j, hj⟩
  · exact Or.inl h
  · obtain ⟨h0, hlt⟩ := h2 k hk j hj
    refine Or.inr ⟨j.toNat, ?_, hlt⟩
    rw [hj, Int.toNat_of_nonneg h0]

/-- the keys of an integer leaf builder are null or integers -/
theorem leaf_int_keys (p : String) (t : IntTy) (v : Validity) (vals : List Int) :
    ∀ k ∈ dec (.leaf p (.int t) v vals), k = .null ∨ ∃ j : Int, k = .int j := by
  intro k hk
  simp only [dec] at hk
  rcases mem_maskNull _ _ _ hk with h | h
  · exact Or.inl h
  · obtain ⟨x, _, rfl⟩ := List.mem_map.mp h
    exact Or.inr ⟨x, by cases t <;> rfl⟩

end SaModel.Lemmas.C03
