import SaModel.Lemmas.C03Faithful
/-
Totality of `finish` (`into_array`) on well-formed builder states:

    finish_total : WFB b → FinB b → ∃ a, finish ext b = ok a

`into_array` has exactly four failure sites, all checked conversions:
  * `FixedSizeBinaryBuilder` / `FixedSizeListBuilder`: `n: usize → i32` (`n` came from an `i32`, so it never fails in the
    crate; in the model `n : Nat` is unbounded)                                          — `FinB`: `n ≤ i32::MAX`
  * `UnionBuilder`: the variant index `usize → i8`                                       — `FinB`: at most 128 variants
  * `DictionaryUtf8Builder`: the placeholder `self.values.serialize_str("")` when a non-nullable keys builder holds
    rows while the dictionary has no value.  With an integer-leaf keys builder (`FinB`; what `build_builder`
    guarantees) the strict dictionary clause of `WFB` (every key designates a value) makes that branch unreachable.
`FinB` is a property of the builder's shape only (`FinB_takeRest`), and it holds of every builder `build_builder`
creates for a well-typed data type (`typedDT`: sizes are `i32` values, union type ids `i8` values — true of every marrow
`DataType` by type; `build_builder` demands the type ids 0, 1, 2, …, so there are at most 128 variants): `FinB_of_builtFor`.
-/
namespace SaModel.Lemmas.C03
open SaModel SaModel.Build SaModel.Spec

mutual
/-- no checked conversion of `into_array` can fail: sizes fit `i32`, at most 128 union variants, dictionary keys are
stored by an integer leaf builder -/
def FinB : B → Prop
  | .fixedSizeBinary _ n _ _ _ _ => n ≤ 2147483647
  | .list _ _ _ _ _ el => FinB el
  | .fixedSizeList _ _ n _ _ _ el => n ≤ 2147483647 ∧ FinB el
  | .map _ _ _ _ ks vs => FinB ks ∧ FinB vs
  | .struct _ _ _ fs _ _ _ => FinBL fs
  | .dictionary _ idx vals _ => isIntLeaf idx = true ∧ FinB vals
  | .union _ fs _ _ _ => fs.length ≤ 128 ∧ FinBL fs
  | _ => True
def FinBL : BL → Prop
  | .nil => True
  | .cons b _ r => FinB b ∧ FinBL r
end

theorem takeRestAll_length : ∀ (bl : BL), (takeRestAll bl).length = bl.length
  | .nil => rfl
  | .cons _ _ r => by simp only [takeRestAll, BL.length, takeRestAll_length r]

mutual
/-- `FinB` only depends on what survives `take` -/
theorem FinB_takeRest : ∀ (b : B), FinB (takeRest b) ↔ FinB b
  | .null _ _ => by simp only [takeRest, FinB]
  | .unknownVariant _ => by simp only [takeRest, FinB]
  | .leaf _ _ _ _ => by simp only [takeRest, FinB]
  | .bytes _ _ _ _ _ => by simp only [takeRest, FinB]
  | .bytesView _ _ _ _ _ => by simp only [takeRest, FinB]
  | .fixedSizeBinary _ _ _ _ _ _ => by simp only [takeRest, FinB]
  | .list _ _ _ _ _ el => by simp only [takeRest, FinB, FinB_takeRest el]
  | .fixedSizeList _ _ _ _ _ _ el => by simp only [takeRest, FinB, FinB_takeRest el]
  | .map _ _ _ _ ks vs => by simp only [takeRest, FinB, FinB_takeRest ks, FinB_takeRest vs]
  | .struct _ _ _ fs _ _ _ => by simp only [takeRest, FinB, FinBL_takeRestAll fs]
  | .dictionary _ idx vals _ => by simp only [takeRest, FinB, isIntLeaf_takeRest, FinB_takeRest vals]
  | .union _ fs _ _ _ => by simp only [takeRest, FinB, takeRestAll_length, FinBL_takeRestAll fs]
theorem FinBL_takeRestAll : ∀ (bl : BL), FinBL (takeRestAll bl) ↔ FinBL bl
  | .nil => by simp only [takeRestAll]
  | .cons b _ r => by simp only [takeRestAll, FinBL, FinB_takeRest b, FinBL_takeRestAll r]
end

theorem FinB_of_takeRest_eq (b b' : B) (h : takeRest b' = takeRest b) (hb : FinB b) : FinB b' := by
  rw [← FinB_takeRest b', h, FinB_takeRest b]; exact hb

/-! ### the schema side -/

mutual
/-- the integer parameters of a data type have the width of their Rust types: the sizes of `FixedSizeBinary` /
`FixedSizeList` are `i32` values, union type ids are `i8` values.  In marrow this holds by type; the model's `DataType`
carries unbounded `Int`s -/
def typedDT : DataType → Bool
  | .fixedSizeBinary n => decide (-2147483648 ≤ n ∧ n ≤ 2147483647)
  | .list f => typedF f
  | .largeList f => typedF f
  | .fixedSizeList f n => decide (-2147483648 ≤ n ∧ n ≤ 2147483647) && typedF f
  | .map f _ => typedF f
  | .struct fs => typedFs fs
  | .dictionary k v => typedDT k && typedDT v
  | .union ufs _ => typedU ufs
  | _ => true
def typedF : Field → Bool
  | .mk _ dt _ _ => typedDT dt
def typedFs : Fields → Bool
  | .nil => true
  | .cons f r => typedF f && typedFs r
def typedU : UFields → Bool
  | .nil => true
  | .cons tid f r => decide (-128 ≤ tid ∧ tid ≤ 127) && typedF f && typedU r
end

theorem typedF_iff (f : Field) : typedF f = typedDT f.dataType := by
  cases f; simp only [typedF, Field.dataType]

/-- consecutive type ids starting at `k` that all fit `i8`: at most `128 - k` variants -/
theorem BuiltForU_length : ∀ (ufs : UFields) (bl : BL) (k : Nat), BuiltForU ufs bl k → typedU ufs = true → k ≤ 128 →
    k + bl.length ≤ 128
  | .nil, .nil, _, _, _, hk => by simp only [BL.length]; omega
  | .nil, .cons _ _ _, _, h, _, _ => by simp [BuiltForU] at h
  | .cons _ _ _, .nil, _, h, _, _ => by simp [BuiltForU] at h
  | .cons tid _ r, .cons _ _ rl, k, h, ht, _ => by
    simp only [BuiltForU] at h
    simp only [typedU, Bool.and_eq_true, decide_eq_true_eq] at ht
    have := BuiltForU_length r rl (k + 1) h.2.2.2 ht.2 (by omega)
    simp only [BL.length]; omega

mutual
/-- the builder of a well-typed data type is `FinB` -/
theorem FinB_of_builtFor : ∀ (b : B) (dt : DataType) (nl : Bool), BuiltFor dt nl b → typedDT dt = true → FinB b
  | .null _ _, _, _, _, _ => by simp only [FinB]
  | .unknownVariant _, _, _, _, _ => by simp only [FinB]
  | .leaf _ _ _ _, _, _, _, _ => by simp only [FinB]
  | .bytes _ _ _ _ _, _, _, _, _ => by simp only [FinB]
  | .bytesView _ _ _ _ _, _, _, _, _ => by simp only [FinB]
  | .fixedSizeBinary _ n _ _ _ _, dt, nl, hb, hp => by
    simp only [BuiltFor] at hb
    obtain ⟨rfl, _⟩ := hb
    simp only [typedDT, decide_eq_true_eq] at hp
    simp only [FinB]
    omega
  | .list _ large _ _ _ el, dt, nl, hb, hp => by
    simp only [BuiltFor] at hb
    obtain ⟨f, rfl, _, _, hbe⟩ := hb
    simp only [FinB]
    cases large
    · simp only [Bool.false_eq_true, if_false, typedDT] at hp
      exact FinB_of_builtFor el _ _ hbe ((typedF_iff f).symm.trans hp)
    · simp only [if_true, typedDT] at hp
      exact FinB_of_builtFor el _ _ hbe ((typedF_iff f).symm.trans hp)
  | .fixedSizeList _ _ n _ _ _ el, dt, nl, hb, hp => by
    simp only [BuiltFor] at hb
    obtain ⟨f, rfl, _, _, hbe⟩ := hb
    simp only [typedDT, Bool.and_eq_true, decide_eq_true_eq] at hp
    simp only [FinB]
    exact ⟨by omega, FinB_of_builtFor el _ _ hbe ((typedF_iff f).symm.trans hp.2)⟩
  | .map _ _ _ _ ks vs, dt, nl, hb, hp => by
    simp only [BuiltFor] at hb
    obtain ⟨ename, kf, vf, sorted, enl, emd, rfl, _, _, hbk, hbv⟩ := hb
    simp only [typedDT, typedF, typedFs, Bool.and_eq_true, Bool.and_true] at hp
    simp only [FinB]
    exact ⟨FinB_of_builtFor ks _ _ hbk ((typedF_iff kf).symm.trans hp.1),
      FinB_of_builtFor vs _ _ hbv ((typedF_iff vf).symm.trans hp.2)⟩
  | .struct _ _ _ fs _ _ _, dt, nl, hb, hp => by
    simp only [BuiltFor] at hb
    obtain ⟨fields, rfl, _, hbl⟩ := hb
    simp only [typedDT] at hp
    simp only [FinB]
    exact FinBL_of_builtForL fs fields hbl hp
  | .dictionary _ idx vals _, dt, nl, hb, hp => by
    simp only [BuiltFor] at hb
    obtain ⟨k, vdt, rfl, hk, hbi, hbv⟩ := hb
    simp only [typedDT, Bool.and_eq_true] at hp
    simp only [FinB]
    exact ⟨isIntLeaf_of_builtFor idx k nl hk hbi, FinB_of_builtFor vals _ _ hbv hp.2⟩
  | .union _ fs _ _ _, dt, nl, hb, hp => by
    simp only [BuiltFor] at hb
    obtain ⟨ufs, mode, rfl, hbu⟩ := hb
    simp only [typedDT] at hp
    simp only [FinB]
    exact ⟨by have := BuiltForU_length ufs fs 0 hbu hp (by omega); omega, FinBL_of_builtForU fs ufs 0 hbu hp⟩
theorem FinBL_of_builtForL : ∀ (bl : BL) (fs : Fields), BuiltForL fs bl → typedFs fs = true → FinBL bl
  | .nil, _, _, _ => trivial
  | .cons b m r, .nil, hb, _ => by simp [BuiltForL] at hb
  | .cons b m r, .cons f fr, hb, hp => by
    simp only [BuiltForL] at hb
    simp only [typedFs, Bool.and_eq_true] at hp
    simp only [FinBL]
    exact ⟨FinB_of_builtFor b _ _ hb.2.1 ((typedF_iff f).symm.trans hp.1), FinBL_of_builtForL r fr hb.2.2 hp.2⟩
theorem FinBL_of_builtForU : ∀ (bl : BL) (ufs : UFields) (k : Nat), BuiltForU ufs bl k → typedU ufs = true → FinBL bl
  | .nil, _, _, _, _ => trivial
  | .cons b m r, .nil, _, hb, _ => by simp [BuiltForU] at hb
  | .cons b m r, .cons t f fr, k, hb, hp => by
    simp only [BuiltForU] at hb
    simp only [typedU, Bool.and_eq_true] at hp
    simp only [FinBL]
    exact ⟨FinB_of_builtFor b _ _ hb.2.2.1 ((typedF_iff f).symm.trans hp.1.2), FinBL_of_builtForU r fr (k + 1) hb.2.2.2 hp.2⟩
end

/-! ### totality of `finish` -/

theorem finishLeaf_ok (ext : Ext) (p : String) (k : LeafKind) (v : Validity) (vals : List Int) :
    finish ext (.leaf p k v vals) = .ok (finishLeaf k v vals) := by simp only [finish]

/-- the placeholder branch of `DictionaryUtf8Builder::into_array` is unreachable when the keys builder is an integer
leaf and every key designates a value -/
theorem dict_placeholder_dead (idx : B) (index : List String) (hi : isIntLeaf idx = true)
    (hs : ∀ k ∈ dec idx, ∀ j : Int, k = .int j → 0 ≤ j ∧ j.toNat < index.length) :
    (!idx.isNullable && idx.rows != 0 && index.isEmpty) = false := by
  cases idx with
  | leaf p kind v vals =>
    cases kind with
    | int t =>
      cases v with
      | some bits => simp [B.isNullable]
      | none =>
        cases vals with
        | nil => simp [B.rows]
        | cons x rest =>
          cases index with
          | cons s r => simp
          | nil =>
            have := (hs (.int x) (by simp [dec, maskNull, leafVal]) x rfl).2
            simp at this
    | _ => simp [isIntLeaf] at hi
  | _ => simp [isIntLeaf] at hi

mutual
/-- **`into_array` never fails on a well-formed state** (`FinB`: the shape conditions under which its checked
conversions cannot fail — see the header) -/
theorem finish_total (ext : Ext) : ∀ (b : B), WFB b → FinB b → ∃ a, finish ext b = .ok a
  | .null _ _, _, _ => by simp only [finish]; exact ⟨_, rfl⟩
  | .unknownVariant _, _, _ => by simp only [finish]; exact ⟨_, rfl⟩
  | .leaf _ _ _ _, _, _ => by simp only [finish]; exact ⟨_, rfl⟩
  | .bytes _ _ _ _ _, _, _ => by simp only [finish]; exact ⟨_, rfl⟩
  | .bytesView _ _ _ _ _, _, _ => by simp only [finish]; exact ⟨_, rfl⟩
  | .fixedSizeBinary _ n _ _ _ _, _, hf => by
    simp only [FinB] at hf
    have : ¬ ((n : Int) > 2147483647) := by omega
    simp only [finish, this, if_false]; exact ⟨_, rfl⟩
  | .list _ _ _ _ _ el, hw, hf => by
    simp only [FinB] at hf
    obtain ⟨a, ha⟩ := finish_total ext el (WFB_list hw).2.2 hf
    simp only [finish, ha, bind, Except.bind, pure, Except.pure]; exact ⟨_, rfl⟩
  | .fixedSizeList _ _ n _ _ _ el, hw, hf => by
    simp only [FinB] at hf
    obtain ⟨a, ha⟩ := finish_total ext el (WFB_fixedSizeList hw).2.2 hf.2
    have : ¬ ((n : Int) > 2147483647) := by omega
    simp only [finish, this, if_false, ha, bind, Except.bind, pure, Except.pure]; exact ⟨_, rfl⟩
  | .map _ _ _ _ ks vs, hw, hf => by
    simp only [FinB] at hf
    obtain ⟨a, ha⟩ := finish_total ext ks (WFB_map hw).2.2.2.1 hf.1
    obtain ⟨c, hc⟩ := finish_total ext vs (WFB_map hw).2.2.2.2 hf.2
    simp only [finish, ha, hc, bind, Except.bind, pure, Except.pure]; exact ⟨_, rfl⟩
  | .struct _ len _ fs _ _ _, hw, hf => by
    simp only [FinB] at hf
    obtain ⟨a, ha⟩ := finishFields_total ext fs (WFL_WFBs fs len (WFB_struct hw).2) hf
    simp only [finish, ha, bind, Except.bind, pure, Except.pure]; exact ⟨_, rfl⟩
  | .dictionary p idx vals index, hw, hf => by
    simp only [FinB] at hf
    have hs := WFB_StrictDict _ hw
    simp only [StrictDict] at hs
    obtain ⟨hwi, hwv, _⟩ := WFB_dictionary hw
    obtain ⟨c, hc⟩ := finish_total ext vals hwv hf.2
    have hdead := dict_placeholder_dead idx index hf.1 hs.2
    cases idx with
    | leaf q kind v ks =>
      simp only [finish, hc, bind, Except.bind, pure, Except.pure, hdead, Bool.false_eq_true, if_false]
      exact ⟨_, rfl⟩
    | _ => simp [isIntLeaf] at hf
  | .union _ fs _ _ cur, hw, hf => by
    simp only [FinB] at hf
    obtain ⟨a, ha⟩ := finishUFields_total ext fs 0 (WFU_WFBs fs cur (WFB_union hw).2.1) hf.2 (by omega)
    simp only [finish, ha, bind, Except.bind, pure, Except.pure]; exact ⟨_, rfl⟩
theorem finishFields_total (ext : Ext) : ∀ (fs : BL), WFBs fs → FinBL fs → ∃ a, finishFields ext fs = .ok a
  | .nil, _, _ => by simp only [finishFields]; exact ⟨_, rfl⟩
  | .cons b m r, hw, hf => by
    simp only [WFBs] at hw
    simp only [FinBL] at hf
    obtain ⟨a, ha⟩ := finish_total ext b hw.1 hf.1
    obtain ⟨c, hc⟩ := finishFields_total ext r hw.2 hf.2
    simp only [finishFields, ha, hc, bind, Except.bind, pure, Except.pure]; exact ⟨_, rfl⟩
theorem finishUFields_total (ext : Ext) : ∀ (fs : BL) (idx : Nat), WFBs fs → FinBL fs → idx + fs.length ≤ 128 →
    ∃ a, finishUFields ext fs idx = .ok a
  | .nil, _, _, _, _ => by simp only [finishUFields]; exact ⟨_, rfl⟩
  | .cons b m r, idx, hw, hf, hl => by
    simp only [WFBs] at hw
    simp only [FinBL] at hf
    simp only [BL.length] at hl
    obtain ⟨a, ha⟩ := finish_total ext b hw.1 hf.1
    obtain ⟨c, hc⟩ := finishUFields_total ext r (idx + 1) hw.2 hf.2 (by omega)
    have : ¬ (idx > 127) := by omega
    simp only [finishUFields, this, if_false, ha, hc, bind, Except.bind, pure, Except.pure]; exact ⟨_, rfl⟩
end

/-- `build_arrays` never fails on a well-formed root -/
theorem buildArrays_total (ext : Ext) (root : B) (hw : WFB root) (hf : FinB root)
    (hroot : ∃ p len v fs c n s, root = .struct p len v fs c n s) : ∃ r, buildArrays ext root = .ok r := by
  obtain ⟨p, len, v, fs, c, n, s, rfl⟩ := hroot
  simp only [FinB] at hf
  obtain ⟨a, ha⟩ := finishFields_total ext fs (WFL_WFBs fs len (WFB_struct hw).2) hf
  simp only [buildArrays, ha, bind, Except.bind, pure, Except.pure]; exact ⟨_, rfl⟩

end SaModel.Lemmas.C03
