import SaModel.Trace.Mapping
import SaModel.Lemmas.C03Total
/-
The schema side of C03 / C01 for TRACED schemas.  The documented mapping of schema tracing (`Trace.Spec.mapping`,
Trace/Mapping.lean — by `Props.C08.C08_from_type` it is what `from_type` returns, for every type description and all
options) never produces a `FixedSizeBinary` column, and its union type ids are the declaration indices 0 … 127.  Hence
every field it produces satisfies `SchemaOKF` (the exclusion of the known finding FixedSizeBinary(0)) and the typing
invariant `typedF` (sizes `i32`, type ids `i8`) — provided the user's overwrites do (an overwritten field is taken as
given):

    mapping_good      : (∀ kv ∈ o.overwrites, GoodF kv.2) → mapping o name path nl ty = ok f → GoodF f
    fromTypeSpec_good : … → fromTypeSpec o ty = ok fields → ∀ f ∈ fields, GoodF f
-/
namespace SaModel.Lemmas.C03
open SaModel SaModel.Build SaModel.Spec SaModel.Trace SaModel.Trace.Spec

/-- what C03 / the completeness of `to_marrow` ask of a field: no `FixedSizeBinary(0)`, integer parameters of their
Rust width -/
def GoodF (f : Field) : Prop := SchemaOKF f ∧ typedF f = true

def GoodFs (fs : List Field) : Prop := SchemaOKFs (Fields.ofList fs) ∧ typedFs (Fields.ofList fs) = true

/-- union children whose type ids are at most 127 -/
def GoodU (us : List (Int × Field)) : Prop := SchemaOKU (UFields.ofList us) ∧ typedU (UFields.ofList us) = true

theorem GoodFs_nil : GoodFs [] := ⟨trivial, rfl⟩

theorem GoodFs_cons {f : Field} {fs : List Field} (hf : GoodF f) (hfs : GoodFs fs) : GoodFs (f :: fs) := by
  refine ⟨?_, ?_⟩
  · simp only [Fields.ofList, SchemaOKFs]; exact ⟨hf.1, hfs.1⟩
  · simp only [Fields.ofList, typedFs, hf.2, hfs.2, Bool.and_self]

theorem GoodU_nil : GoodU [] := ⟨trivial, rfl⟩

theorem GoodU_cons {i : Nat} {f : Field} {us : List (Int × Field)} (hi : ¬ i > 127) (hf : GoodF f) (hus : GoodU us) :
    GoodU ((Int.ofNat i, f) :: us) := by
  refine ⟨?_, ?_⟩
  · simp only [UFields.ofList, SchemaOKU]; exact ⟨hf.1, hus.1⟩
  · have : (-128 : Int) ≤ Int.ofNat i ∧ Int.ofNat i ≤ 127 := by simp only [Int.ofNat_eq_natCast]; omega
    simp only [UFields.ofList, typedU, this, hf.2, hus.2, and_self, decide_true, Bool.and_self]

theorem GoodF_struct {name : String} {fs : List Field} {nl : Bool} {md : Metadata} (h : GoodFs fs) :
    GoodF (.mk name (.struct (Fields.ofList fs)) nl md) := by
  refine ⟨?_, ?_⟩
  · simp only [SchemaOKF, SchemaOK]; exact h.1
  · simp only [typedF, typedDT]; exact h.2

theorem GoodF_leaf (name : String) (dt : DataType) (nl : Bool) (md : Metadata) (h1 : SchemaOK dt) (h2 : typedDT dt = true) :
    GoodF (.mk name dt nl md) := ⟨by simp only [SchemaOKF]; exact h1, by simp only [typedF]; exact h2⟩

theorem GoodF_string (o : Options) (name : String) (nl : Bool) : GoodF (stringField o name nl) := by
  unfold stringField Options.string_type
  split <;> split <;> exact GoodF_leaf _ _ _ _ (by simp [SchemaOK]) (by simp [typedDT])

theorem overwritten_good {o : Options} (ho : ∀ kv ∈ o.overwrites, GoodF kv.2) {name path : String} {k : Unit → R Field}
    {f : Field} (hk : ∀ f, k () = .ok f → GoodF f) (h : overwritten o name path k = .ok f) : GoodF f := by
  unfold overwritten at h
  split at h
  · rename_i p g hfind
    split at h
    · cases h
      exact ho (p, f) (List.mem_of_find?_eq_some hfind)
    · cases h
  · exact hk f h

theorem nullField_good {o : Options} {name : String} {f : Field} (h : nullField o name = .ok f) : GoodF f := by
  unfold nullField at h
  split at h
  · cases h; exact GoodF_leaf _ _ _ _ (by simp [SchemaOK]) (by simp [typedDT])
  · cases h

theorem rbind_ok {α β} {r : R α} {g : α → R β} {b : β} (h : (r >>= g) = .ok b) : ∃ a, r = .ok a ∧ g a = .ok b := by
  cases r with
  | error e => cases h
  | ok a => exact ⟨a, rfl, h⟩

mutual
theorem mapping_good (o : Options) (ho : ∀ kv ∈ o.overwrites, GoodF kv.2) :
    ∀ (ty : Ty) (name path : String) (nl : Bool) (f : Field), mapping o name path nl ty = .ok f → GoodF f
  | .unit, name, path, nl, f, h => by
    simp only [mapping] at h; exact overwritten_good ho (fun f hf => nullField_good hf) h
  | .unitStruct _, name, path, nl, f, h => by
    simp only [mapping] at h; exact overwritten_good ho (fun f hf => nullField_good hf) h
  | .bool, name, path, nl, f, h => by
    simp only [mapping] at h
    exact overwritten_good ho (fun f hf => by cases hf; exact GoodF_leaf _ _ _ _ (by simp [SchemaOK]) (by simp [typedDT])) h
  | .int t, name, path, nl, f, h => by
    simp only [mapping] at h
    exact overwritten_good ho (fun f hf => by
      cases hf; cases t <;> exact GoodF_leaf _ _ _ _ (by simp [intDataType, SchemaOK]) (by simp [intDataType, typedDT])) h
  | .f32, name, path, nl, f, h => by
    simp only [mapping] at h
    exact overwritten_good ho (fun f hf => by cases hf; exact GoodF_leaf _ _ _ _ (by simp [SchemaOK]) (by simp [typedDT])) h
  | .f64, name, path, nl, f, h => by
    simp only [mapping] at h
    exact overwritten_good ho (fun f hf => by cases hf; exact GoodF_leaf _ _ _ _ (by simp [SchemaOK]) (by simp [typedDT])) h
  | .char, name, path, nl, f, h => by
    simp only [mapping] at h
    exact overwritten_good ho (fun f hf => by cases hf; exact GoodF_leaf _ _ _ _ (by simp [SchemaOK]) (by simp [typedDT])) h
  | .string, name, path, nl, f, h => by
    simp only [mapping] at h
    exact overwritten_good ho (fun f hf => by cases hf; exact GoodF_string o name nl) h
  | .bytes, name, path, nl, f, h => by
    simp only [mapping] at h
    exact overwritten_good ho (fun f hf => by cases hf; exact GoodF_leaf _ _ _ _ (by simp [SchemaOK]) (by simp [typedDT])) h
  | .option t, name, path, nl, f, h => by
    simp only [mapping] at h; exact mapping_good o ho t name path true f h
  | .newtypeStruct _ t, name, path, nl, f, h => by
    simp only [mapping] at h; exact mapping_good o ho t name path nl f h
  | .vec t, name, path, nl, f, h => by
    simp only [mapping] at h
    refine overwritten_good ho (fun f hf => ?_) h
    obtain ⟨item, hi, hf⟩ := rbind_ok hf
    have ih := mapping_good o ho t _ _ _ item hi
    cases hf
    refine GoodF_leaf _ _ _ _ ?_ ?_
    · split <;> (simp only [SchemaOK]; exact ih.1)
    · split <;> (simp only [typedDT]; exact ih.2)
  | .tuple ts, name, path, nl, f, h => by
    simp only [mapping] at h
    refine overwritten_good ho (fun f hf => ?_) h
    obtain ⟨fs, hi, hf⟩ := rbind_ok hf
    cases hf
    exact GoodF_struct (mappingTys_good o ho ts path 0 fs hi)
  | .tupleStruct _ ts, name, path, nl, f, h => by
    simp only [mapping] at h
    refine overwritten_good ho (fun f hf => ?_) h
    obtain ⟨fs, hi, hf⟩ := rbind_ok hf
    cases hf
    exact GoodF_struct (mappingTys_good o ho ts path 0 fs hi)
  | .map k v, name, path, nl, f, h => by
    simp only [mapping] at h
    refine overwritten_good ho (fun f hf => ?_) h
    obtain ⟨kf, hk, hf⟩ := rbind_ok hf
    obtain ⟨vf, hv, hf⟩ := rbind_ok hf
    have ihk := mapping_good o ho k _ _ _ kf hk
    have ihv := mapping_good o ho v _ _ _ vf hv
    cases hf
    have hs := GoodFs_cons ihk (GoodFs_cons ihv GoodFs_nil)
    refine GoodF_leaf _ _ _ _ ?_ ?_
    · simp only [SchemaOK, SchemaOKF]; exact hs.1
    · simp only [typedDT, typedF]; exact hs.2
  | .struct _ fs, name, path, nl, f, h => by
    simp only [mapping] at h
    refine overwritten_good ho (fun f hf => ?_) h
    obtain ⟨fields, hi, hf⟩ := rbind_ok hf
    cases hf
    exact GoodF_struct (mappingFields_good o ho fs path fields hi)
  | .enum _ vs, name, path, nl, f, h => by
    simp only [mapping] at h
    refine overwritten_good ho (fun f hf => ?_) h
    split at hf
    · cases hf
      unfold Options.string_type
      split <;> exact GoodF_leaf _ _ _ _ (by simp [SchemaOK]) (by simp [typedDT])
    · split at hf
      · cases hf
      · obtain ⟨children, hc, hf⟩ := rbind_ok hf
        cases hf
        have ih := mappingVariants_good o ho vs path 0 children hc
        exact GoodF_leaf _ _ _ _ (by simp only [SchemaOK]; exact ih.1) (by simp only [typedDT]; exact ih.2)
theorem mappingTys_good (o : Options) (ho : ∀ kv ∈ o.overwrites, GoodF kv.2) :
    ∀ (ts : Tys) (path : String) (i : Nat) (fs : List Field), mappingTys o path i ts = .ok fs → GoodFs fs
  | .nil, path, i, fs, h => by simp only [mappingTys] at h; cases h; exact GoodFs_nil
  | .cons t r, path, i, fs, h => by
    simp only [mappingTys] at h
    obtain ⟨f, hf, h⟩ := rbind_ok h
    obtain ⟨rest, hr, h⟩ := rbind_ok h
    cases h
    exact GoodFs_cons (mapping_good o ho t _ _ _ f hf) (mappingTys_good o ho r path (i + 1) rest hr)
theorem mappingFields_good (o : Options) (ho : ∀ kv ∈ o.overwrites, GoodF kv.2) :
    ∀ (tfs : TyFields) (path : String) (fs : List Field), mappingFields o path tfs = .ok fs → GoodFs fs
  | .nil, path, fs, h => by simp only [mappingFields] at h; cases h; exact GoodFs_nil
  | .cons n t r, path, fs, h => by
    simp only [mappingFields] at h
    obtain ⟨f, hf, h⟩ := rbind_ok h
    obtain ⟨rest, hr, h⟩ := rbind_ok h
    cases h
    exact GoodFs_cons (mapping_good o ho t _ _ _ f hf) (mappingFields_good o ho r path rest hr)
theorem mappingVariants_good (o : Options) (ho : ∀ kv ∈ o.overwrites, GoodF kv.2) :
    ∀ (vs : TyVariants) (path : String) (i : Nat) (us : List (Int × Field)), mappingVariants o path i vs = .ok us → GoodU us
  | .nil, path, i, us, h => by simp only [mappingVariants] at h; cases h; exact GoodU_nil
  | .unit n r, path, i, us, h => by
    simp only [mappingVariants] at h
    split at h
    · cases h
    · rename_i hi
      obtain ⟨f, hf, h⟩ := rbind_ok h
      obtain ⟨rest, hr, h⟩ := rbind_ok h
      cases h
      exact GoodU_cons hi (overwritten_good ho (fun f hf => nullField_good hf) hf)
        (mappingVariants_good o ho r path (i + 1) rest hr)
  | .newtype n t r, path, i, us, h => by
    simp only [mappingVariants] at h
    split at h
    · cases h
    · rename_i hi
      obtain ⟨f, hf, h⟩ := rbind_ok h
      obtain ⟨rest, hr, h⟩ := rbind_ok h
      cases h
      exact GoodU_cons hi (mapping_good o ho t _ _ _ f hf) (mappingVariants_good o ho r path (i + 1) rest hr)
  | .tuple n ts r, path, i, us, h => by
    simp only [mappingVariants] at h
    split at h
    · cases h
    · rename_i hi
      obtain ⟨f, hf, h⟩ := rbind_ok h
      obtain ⟨rest, hr, h⟩ := rbind_ok h
      cases h
      refine GoodU_cons hi (overwritten_good ho (fun f hf => ?_) hf) (mappingVariants_good o ho r path (i + 1) rest hr)
      obtain ⟨cs, hc, hf⟩ := rbind_ok hf
      cases hf
      exact GoodF_struct (mappingTys_good o ho ts _ 0 cs hc)
  | .struct n fields r, path, i, us, h => by
    simp only [mappingVariants] at h
    split at h
    · cases h
    · rename_i hi
      obtain ⟨f, hf, h⟩ := rbind_ok h
      obtain ⟨rest, hr, h⟩ := rbind_ok h
      cases h
      refine GoodU_cons hi (overwritten_good ho (fun f hf => ?_) hf) (mappingVariants_good o ho r path (i + 1) rest hr)
      obtain ⟨cs, hc, hf⟩ := rbind_ok hf
      cases hf
      exact GoodF_struct (mappingFields_good o ho fields _ cs hc)
end

theorem ofList_toList' : ∀ (l : Fields), Fields.ofList l.toList = l
  | .nil => rfl
  | .cons f r => by simp [Fields.toList, Fields.ofList, ofList_toList' r]

theorem SchemaOKFs_toList : ∀ (fs : Fields), SchemaOKFs fs → ∀ f ∈ fs.toList, SchemaOKF f
  | .nil, _, f, hf => by simp [Fields.toList] at hf
  | .cons g r, h, f, hf => by
    simp only [SchemaOKFs] at h
    simp only [Fields.toList, List.mem_cons] at hf
    rcases hf with rfl | hf
    · exact h.1
    · exact SchemaOKFs_toList r h.2 f hf

/-- the documented result of `from_type`: every field satisfies `SchemaOKF`, and the field list is well typed -/
theorem fromTypeSpec_good (o : Options) (ho : ∀ kv ∈ o.overwrites, GoodF kv.2) (ty : Ty) (fields : List Field)
    (h : fromTypeSpec o ty = .ok fields) :
    (∀ f ∈ fields, SchemaOKF f) ∧ typedFs (Fields.ofList fields) = true := by
  unfold fromTypeSpec at h
  split at h
  · cases h
  · split at h
    · cases h
    · split at h
      · cases h
      · obtain ⟨root, hr, h⟩ := rbind_ok h
        have hg := mapping_good o ho ty _ _ _ root hr
        split at h
        · cases h
        · split at h
          · rename_i children hdt
            cases h
            obtain ⟨name, dt, nl, md⟩ := root
            simp only [Field.dataType] at hdt
            subst hdt
            obtain ⟨h1, h2⟩ := hg
            simp only [SchemaOKF, SchemaOK] at h1
            simp only [typedF, typedDT] at h2
            exact ⟨SchemaOKFs_toList children h1, by rw [ofList_toList']; exact h2⟩
          · cases h

end SaModel.Lemmas.C03
