import SaModel.Lemmas.C03TypeOf
/-
`newDT_strict_all` (corollaries `newB_strict`, `newFields_strict`, `newRoot_strict`): whatever `build_builder` accepts is
a strict type (`StrictDT`: dense unions, Map entries not nullable) up to the metadata of Map entries fields (`PlainDT`, the
exclusion of the KNOWN finding C03-map-entries-metadata).  By `newDT.mutual_induct`, like `newDT_builtFor`
(Lemmas/C03New.lean).
-/
namespace SaModel.Lemmas.C03
open SaModel SaModel.Build SaModel.Spec

theorem newDT_strict_all :
    (∀ (path : String) (dt : DataType) (nl : Bool) (md : Metadata),
      ∀ b, newDT path dt nl md = .ok b → PlainDT dt → StrictDT dt) ∧
    (∀ (path : String) (ufs : UFields) (k : Nat),
      ∀ bl, newUnionFields path ufs k = .ok bl → PlainU ufs → StrictU ufs) ∧
    (∀ (path : String) (f : Field),
      ∀ b, newB path f = .ok b → PlainF f → StrictF f) ∧
    (∀ (path : String) (fs : Fields),
      ∀ bl, newFields path fs = .ok bl → PlainFs fs → StrictFs fs) := by
  apply newDT.mutual_induct
    (motive_1 := fun path dt nl md => ∀ b, newDT path dt nl md = .ok b → PlainDT dt → StrictDT dt)
    (motive_2 := fun path ufs k => ∀ bl, newUnionFields path ufs k = .ok bl → PlainU ufs → StrictU ufs)
    (motive_3 := fun path f => ∀ b, newB path f = .ok b → PlainF f → StrictF f)
    (motive_4 := fun path fs => ∀ bl, newFields path fs = .ok bl → PlainFs fs → StrictFs fs)
  all_goals try (
    intros
    simp only [StrictDT]
    done)
  all_goals try (
    intros
    rename_i h _
    simp [newDT, newFields, newUnionFields, ctx, fail, *] at h
    done)
  case case33 =>
    intro path child nl md ih b h hp
    simp only [newDT, bind, Except.bind] at h
    cases hc : newB (path ++ "." ++ childName child.name) child with
    | error e => rw [hc] at h; cases h
    | ok el => simp only [StrictDT, PlainDT] at hp ⊢; exact ih el hc hp
  case case34 =>
    intro path child nl md ih b h hp
    simp only [newDT, bind, Except.bind] at h
    cases hc : newB (path ++ "." ++ childName child.name) child with
    | error e => rw [hc] at h; cases h
    | ok el => simp only [StrictDT, PlainDT] at hp ⊢; exact ih el hc hp
  case case36 =>
    intro path child n nl md hn ih b h hp
    simp only [newDT, hn, if_false, bind, Except.bind] at h
    cases hc : newB (path ++ "." ++ childName child.name) child with
    | error e => rw [hc] at h; cases h
    | ok el => simp only [StrictDT, PlainDT] at hp ⊢; exact ih el hc hp
  case case38 =>
    intro path ename kf vf emd sorted nl md ihk ihv b h hp
    simp only [newDT, bind, Except.bind] at h
    cases hk : newB (path ++ "." ++ childName ename ++ "." ++ childName kf.name) kf with
    | error e => rw [hk] at h; cases h
    | ok kb =>
      rw [hk] at h
      cases hv : newB (path ++ "." ++ childName ename ++ "." ++ childName vf.name) vf with
      | error e => rw [hv] at h; cases h
      | ok vb =>
        simp only [StrictDT, PlainDT, StrictFs, PlainFs] at hp ⊢
        exact ⟨trivial, hp.1, ihk kb hk hp.2.1, ihv vb hv hp.2.2.1, trivial⟩
  case case43 =>
    intro path fs nl md ih b h hp
    simp only [newDT, bind, Except.bind] at h
    cases hf : newFields path fs with
    | error e => rw [hf] at h; cases h
    | ok bl => simp only [StrictDT, PlainDT] at hp ⊢; exact ih bl hf hp
  case case44 =>
    intro path k v nl md hint ihk ihv b h hp
    simp only [newDT, hint, if_true, bind, Except.bind] at h
    cases hk : newDT (path ++ ".key") k nl [] with
    | error e => rw [hk] at h; cases h
    | ok kb =>
      rw [hk] at h
      cases hv : newDT (path ++ ".value") v false [] with
      | error e => rw [hv] at h; cases h
      | ok vb => simp only [StrictDT, PlainDT] at hp ⊢; exact ⟨ihk kb hk hp.1, ihv vb hv hp.2⟩
  case case46 =>
    intro path fs nl md ih b h hp
    simp only [newDT, bind, Except.bind] at h
    cases hf : newUnionFields path fs 0 with
    | error e => rw [hf] at h; cases h
    | ok bl => simp only [StrictDT, PlainDT] at hp ⊢; exact ⟨trivial, ih bl hf hp⟩
  case case50 =>
    intro path name dt nl md ih b h hp
    simp only [newB] at h
    simp only [StrictF, PlainF] at hp ⊢
    exact ih b h hp
  case case51 =>
    intro path bl h hp
    simp only [StrictFs]
  case case52 =>
    intro path f rest ihf ihr bl h hp
    simp only [newFields, bind, Except.bind] at h
    cases hb : newB (path ++ "." ++ f.name) f with
    | error e => rw [hb] at h; cases h
    | ok b =>
      rw [hb] at h
      cases hr : newFields path rest with
      | error e => rw [hr] at h; cases h
      | ok r => simp only [StrictFs, PlainFs] at hp ⊢; exact ⟨ihf b hb hp.1, ihr r hr hp.2⟩
  case case53 =>
    intro path k bl h hp
    simp only [StrictU]
  case case55 =>
    intro path tid f rest idx hne ihf ihr bl h hp
    simp only [newUnionFields, hne, bind, Except.bind] at h
    cases hb : newB (path ++ "." ++ childName f.name) f with
    | error e => rw [hb] at h; cases h
    | ok b =>
      rw [hb] at h
      cases hr : newUnionFields path rest (idx + 1) with
      | error e => rw [hr] at h; cases h
      | ok r => simp only [StrictU, PlainU] at hp ⊢; exact ⟨ihf b hb hp.1, ihr r hr hp.2⟩

/-- **what `build_builder` accepts is a strict type** (up to the metadata of Map entries fields) -/
theorem newB_strict (path : String) (f : Field) (b : B) (h : newB path f = .ok b) (hp : PlainF f) : StrictF f :=
  newDT_strict_all.2.2.1 path f b h hp

theorem newFields_strict (path : String) (fs : Fields) (bl : BL) (h : newFields path fs = .ok bl) (hp : PlainFs fs) :
    StrictFs fs :=
  newDT_strict_all.2.2.2 path fs bl h hp

theorem StrictFs_mem : ∀ (l : List Field), StrictFs (Fields.ofList l) → ∀ f ∈ l, StrictDT f.dataType
  | [], _, f, hf => by cases hf
  | g :: r, h, f, hf => by
    simp only [Fields.ofList, StrictFs] at h
    rcases List.mem_cons.1 hf with rfl | hf
    · exact (StrictF_iff _).1 h.1
    · exact StrictFs_mem r h.2 f hf

theorem PlainFs_of_mem : ∀ (l : List Field), (∀ f ∈ l, PlainF f) → PlainFs (Fields.ofList l)
  | [], _ => by simp only [Fields.ofList, PlainFs]
  | g :: r, h => by
    simp only [Fields.ofList, PlainFs]
    exact ⟨h g (List.mem_cons_self ..), PlainFs_of_mem r (fun f hf => h f (List.mem_cons_of_mem _ hf))⟩

/-- the root: every field of an accepted schema has a strict type -/
theorem newRoot_strict (fields : List Field) (root : B) (h : newRoot fields = .ok root) (hp : ∀ f ∈ fields, PlainF f) :
    ∀ f ∈ fields, StrictDT f.dataType := by
  simp only [newRoot, bind, Except.bind] at h
  cases hf : newFields "$" (Fields.ofList fields) with
  | error e => rw [hf] at h; cases h
  | ok bl => exact StrictFs_mem fields (newFields_strict "$" _ bl hf (PlainFs_of_mem fields hp))

end SaModel.Lemmas.C03
