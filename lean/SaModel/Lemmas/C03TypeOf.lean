import SaModel.Spec.WF
import SaModel.Build.Builder
/-
Type equality for C03 (`Spec.WF f a = Spec.WFS f a ∧ Spec.typeOf a = f.dataType`).

* `StrictDT dt`: the data types whose arrays marrow can type EXACTLY — every union dense, the entries field of every Map
  not nullable and without metadata (marrow's `UnionArray` knows its mode through the offsets buffer, `MapMeta` has no room
  for the entries field's nullability / metadata).
* `wf_typeOf : wf dt nl a = true → StrictDT dt → typeOf a = dt` — for a strict type the structural recursion `Spec.wf`
  already forces the type of the array, names / nullability / metadata of every child and every parameter included
  (structural recursion over the ARRAY; speaks about arbitrary arrays, nothing about builders).
* `PlainDT dt`: no Map entries field carries metadata — the exclusion of the KNOWN finding C03-map-entries-metadata.
* `newDT_strict_all` (Lemmas/C03TypeNew.lean; first conjunct `newDT path dt nl md = ok b → PlainDT dt → StrictDT dt`,
  corollaries `newB_strict`, `newFields_strict`, `newRoot_strict`; `Props.C03.accepted_strict`) — `build_builder` refuses
  sparse unions and nullable Map entries (repo fixes c63d82e / 25f1351), so whatever it accepts is strict up to the
  entries metadata.
-/
namespace SaModel.Lemmas.C03
open SaModel SaModel.Build SaModel.Spec

mutual
/-- every union dense, every Map entries field non-nullable and without metadata -/
def StrictDT : DataType → Prop
  | .list f => StrictF f
  | .largeList f => StrictF f
  | .fixedSizeList f _ => StrictF f
  | .map (.mk _ dt nl md) _ => nl = false ∧ md = [] ∧ StrictDT dt
  | .struct fs => StrictFs fs
  | .dictionary k v => StrictDT k ∧ StrictDT v
  | .union fs mode => mode = .dense ∧ StrictU fs
  | _ => True
def StrictF : Field → Prop
  | .mk _ dt _ _ => StrictDT dt
def StrictFs : Fields → Prop
  | .nil => True
  | .cons f r => StrictF f ∧ StrictFs r
def StrictU : UFields → Prop
  | .nil => True
  | .cons _ f r => StrictF f ∧ StrictU r
end

mutual
/-- no Map entries field carries metadata (KNOWN finding C03-map-entries-metadata: marrow's `MapMeta` cannot hold it, the
array's entries field comes out without) -/
def PlainDT : DataType → Prop
  | .list f => PlainF f
  | .largeList f => PlainF f
  | .fixedSizeList f _ => PlainF f
  | .map (.mk _ dt _ md) _ => md = [] ∧ PlainDT dt
  | .struct fs => PlainFs fs
  | .dictionary k v => PlainDT k ∧ PlainDT v
  | .union fs _ => PlainU fs
  | _ => True
def PlainF : Field → Prop
  | .mk _ dt _ _ => PlainDT dt
def PlainFs : Fields → Prop
  | .nil => True
  | .cons f r => PlainF f ∧ PlainFs r
def PlainU : UFields → Prop
  | .nil => True
  | .cons _ f r => PlainF f ∧ PlainU r
end

theorem StrictF_iff (f : Field) : StrictF f ↔ StrictDT f.dataType := by
  cases f; simp only [StrictF, Field.dataType]

theorem PlainF_iff (f : Field) : PlainF f ↔ PlainDT f.dataType := by
  cases f; simp only [PlainF, Field.dataType]

/-! ### `wf` forces the type of the array (strict types) -/

theorem primMatches_primDT (ty : PrimTy) (dt : DataType) : primMatches ty dt = true → primDT ty = dt := by
  cases ty <;> cases dt <;> intro h <;> first | rfl | cases h

theorem timeUnit_eq_of_beq (u u' : TimeUnit) : (u == u') = true → u = u' := by
  cases u <;> cases u' <;> intro h <;> first | rfl | cases h

theorem fieldOfMeta_eq (fm : FieldMeta) (f : Field) (dt : DataType) (hm : metaMatches fm f = true)
    (hd : dt = f.dataType) : fieldOfMeta fm dt = f := by
  cases f with
  | mk n d nl md =>
    simp only [metaMatches, Field.name, Field.nullable, Field.metadata, Bool.and_eq_true, beq_iff_eq] at hm
    obtain ⟨⟨h1, h2⟩, h3⟩ := hm
    simp only [Field.dataType] at hd
    simp only [fieldOfMeta, h1, h2, h3, hd]

mutual
/-- **for a strict type, a structurally valid array has exactly that type** -/
theorem wf_typeOf : ∀ (a : Arr) (dt : DataType) (nl : Bool), wf dt nl a = true → StrictDT dt → typeOf a = dt
  | .null _, dt, _, h, _ => by
    cases dt <;> simp only [wf, Bool.false_eq_true] at h
    rfl
  | .boolean _ _ _, dt, _, h, _ => by
    cases dt <;> simp only [wf, Bool.false_eq_true] at h
    rfl
  | .prim ty _ _, dt, _, h, _ => by
    have hp : primMatches ty dt = true := by
      cases dt <;> simp only [wf, Bool.and_eq_true, Bool.false_eq_true] at h <;> exact h.1.1
    simp only [typeOf]
    exact primMatches_primDT ty dt hp
  | .time ty u _ _, dt, _, h, _ => by
    cases ty <;> cases dt <;> simp only [wf, Bool.and_eq_true, beq_iff_eq, Bool.false_eq_true] at h <;>
      (obtain ⟨⟨hu, _⟩, _⟩ := h; have hu := timeUnit_eq_of_beq _ _ hu; subst hu; rfl)
  | .timestamp u tz _ _, dt, _, h, _ => by
    cases dt <;> simp only [wf, Bool.and_eq_true, beq_iff_eq, Bool.false_eq_true] at h
    obtain ⟨⟨⟨hu, htz⟩, _⟩, _⟩ := h
    have hu := timeUnit_eq_of_beq _ _ hu
    subst hu; subst htz; rfl
  | .decimal128 p s _ _, dt, _, h, _ => by
    cases dt <;> simp only [wf, Bool.and_eq_true, beq_iff_eq, Bool.false_eq_true] at h
    obtain ⟨⟨hp, hs⟩, _⟩ := h
    subst hp; subst hs; rfl
  | .bytes ty _ _ _, dt, _, h, _ => by
    cases ty <;> cases dt <;> simp only [wf, Bool.false_eq_true] at h <;> rfl
  | .bytesView ty _ _ _, dt, _, h, _ => by
    cases ty <;> cases dt <;> simp only [wf, Bool.false_eq_true] at h <;> rfl
  | .fixedSizeBinary n _ _, dt, _, h, _ => by
    cases dt <;> simp only [wf, Bool.and_eq_true, beq_iff_eq, Bool.false_eq_true] at h
    obtain ⟨⟨⟨hn, _⟩, _⟩, _⟩ := h
    subst hn; rfl
  | .struct len v cols, dt, nl, h, hs => by
    cases dt <;> simp only [wf, Bool.and_eq_true, Bool.false_eq_true] at h
    rename_i fs
    simp only [StrictDT] at hs
    simp only [typeOf, wfFields_typeOf cols fs len h.2 hs]
  | .list large v offs fm el, dt, nl, h, hs => by
    cases large <;> cases dt <;> simp only [wf, Bool.and_eq_true, Bool.false_eq_true] at h <;>
      (rename_i f
       simp only [StrictDT] at hs
       obtain ⟨⟨⟨_, hm⟩, _⟩, hw⟩ := h
       have ht := wf_typeOf el f.dataType f.nullable hw ((StrictF_iff f).1 hs)
       simp only [typeOf, fieldOfMeta_eq fm f _ hm ht])
  | .fixedSizeList len v n fm el, dt, nl, h, hs => by
    cases dt <;> simp only [wf, Bool.and_eq_true, Bool.false_eq_true, beq_iff_eq] at h
    rename_i f n'
    simp only [StrictDT] at hs
    obtain ⟨⟨⟨⟨⟨hn, _⟩, _⟩, hm⟩, _⟩, hw⟩ := h
    have ht := wf_typeOf el f.dataType f.nullable hw ((StrictF_iff f).1 hs)
    subst hn
    simp only [typeOf, fieldOfMeta_eq fm f _ hm ht]
  | .map v offs mm ks vs, dt, nl, h, hs => by
    cases dt with
    | map e sorted =>
      obtain ⟨ename, edt, enl, emd⟩ := e
      simp only [StrictDT] at hs
      obtain ⟨rfl, rfl, hs⟩ := hs
      cases edt with
      | struct fs =>
        cases fs with
        | nil => simp only [wf, Bool.false_eq_true] at h
        | cons kf r =>
          cases r with
          | nil => simp only [wf, Bool.false_eq_true] at h
          | cons vf r2 =>
            cases r2 with
            | cons _ _ => simp only [wf, Bool.false_eq_true] at h
            | nil =>
              simp only [wf, Bool.and_eq_true, beq_iff_eq] at h
              obtain ⟨⟨⟨⟨⟨⟨⟨⟨_, hen⟩, hso⟩, hmk⟩, hmv⟩, _⟩, _⟩, hwk⟩, hwv⟩ := h
              simp only [StrictDT, StrictFs] at hs
              have htk := wf_typeOf ks kf.dataType kf.nullable hwk ((StrictF_iff kf).1 hs.1)
              have htv := wf_typeOf vs vf.dataType vf.nullable hwv ((StrictF_iff vf).1 hs.2.1)
              simp only [typeOf, fieldOfMeta_eq mm.keys kf _ hmk htk, fieldOfMeta_eq mm.values vf _ hmv htv, hen, hso]
      | _ => simp only [wf, Bool.false_eq_true] at h
    | _ => simp only [wf, Bool.false_eq_true] at h
  | .dictionary ks vs, dt, nl, h, hs => by
    cases dt <;> simp only [wf, Bool.and_eq_true, Bool.false_eq_true] at h
    rename_i k vdt
    simp only [StrictDT] at hs
    simp only [typeOf, wf_typeOf ks k nl h.1.1 hs.1, wf_typeOf vs vdt false h.1.2 hs.2]
  | .union types offs cols, dt, nl, h, hs => by
    cases dt <;> simp only [wf, Bool.and_eq_true, Bool.false_eq_true] at h
    rename_i fs mode
    simp only [StrictDT] at hs
    obtain ⟨rfl, hs⟩ := hs
    obtain ⟨⟨⟨hoff, _⟩, hw⟩, _⟩ := h
    cases offs with
    | none => cases hoff
    | some o => simp only [typeOf, wfUFields_typeOf cols fs 0 hw hs]
theorem wfFields_typeOf : ∀ (cols : ArrFields) (fs : Fields) (len : Nat), wfFields fs cols len = true → StrictFs fs →
    typeOfFields cols = fs
  | .nil, fs, _, h, _ => by
    cases fs with
    | nil => rfl
    | cons _ _ => simp only [wfFields, Bool.false_eq_true] at h
  | .cons fm a r, fs, len, h, hs => by
    cases fs with
    | nil => simp only [wfFields, Bool.false_eq_true] at h
    | cons f rest =>
      simp only [wfFields, Bool.and_eq_true, beq_iff_eq] at h
      obtain ⟨⟨⟨hm, _⟩, hw⟩, hr⟩ := h
      simp only [StrictFs] at hs
      have ht := wf_typeOf a f.dataType f.nullable hw ((StrictF_iff f).1 hs.1)
      simp only [typeOfFields, fieldOfMeta_eq fm f _ hm ht, wfFields_typeOf r rest len hr hs.2]
theorem wfUFields_typeOf : ∀ (cols : ArrUFields) (fs : UFields) (k : Int), wfUFields fs cols k = true → StrictU fs →
    typeOfUFields cols = fs
  | .nil, fs, _, h, _ => by
    cases fs with
    | nil => rfl
    | cons _ _ _ => simp only [wfUFields, Bool.false_eq_true] at h
  | .cons tid' fm a r, fs, k, h, hs => by
    cases fs with
    | nil => simp only [wfUFields, Bool.false_eq_true] at h
    | cons tid f rest =>
      simp only [wfUFields, Bool.and_eq_true, beq_iff_eq] at h
      obtain ⟨⟨⟨⟨ht1, _⟩, hm⟩, hw⟩, hr⟩ := h
      simp only [StrictU] at hs
      have ht := wf_typeOf a f.dataType f.nullable hw ((StrictF_iff f).1 hs.1)
      simp only [typeOfUFields, fieldOfMeta_eq fm f _ hm ht, wfUFields_typeOf r rest (k + 1) hr hs.2, ht1]
end

/-- `WFS` + strict type ⇒ `WF` -/
theorem WF_of_WFS (f : Field) (a : Arr) (h : WFS f a = true) (hs : StrictDT f.dataType) : WF f a = true := by
  simp only [WF, h, Bool.true_and, decide_eq_true_eq]
  exact wf_typeOf a f.dataType f.nullable h hs

theorem WFS_of_WF (f : Field) (a : Arr) (h : WF f a = true) : WFS f a = true := by
  simp only [WF, Bool.and_eq_true] at h; exact h.1

theorem typeOf_of_WF (f : Field) (a : Arr) (h : WF f a = true) : typeOf a = f.dataType := by
  simp only [WF, Bool.and_eq_true, decide_eq_true_eq] at h; exact h.2

end SaModel.Lemmas.C03
