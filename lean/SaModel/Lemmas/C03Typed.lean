import SaModel.Data.SValTyped
import SaModel.Lemmas.C03LR
/-
`SValOK` (the row hypothesis of `push_LR` / `C03_wfS`) follows from the typing invariant `SVal.typed` of
`Data/SValTyped.lean`: `typed_SValOK`.  So the only thing C03 asks of the rows is that they are well-typed serde call
streams — which the wire decoder of the driver checks and every Rust program satisfies by construction.
-/
namespace SaModel.Lemmas.C03
open SaModel SaModel.Build

mutual
theorem typed_SValOK : ∀ (x : SVal), x.typed = true → SValOK x
  | .int t v, h => by simp only [SVal.typed] at h; simp only [SValOK, ScalarOK]; exact Or.inr h
  | .f32 b, h => by simpa [SVal.typed, SValOK, ScalarOK] using h
  | .f64 b, h => by simpa [SVal.typed, SValOK, ScalarOK] using h
  | .some v, h => by simp only [SVal.typed] at h; simp only [SValOK]; exact typed_SValOK v h
  | .newtypeStruct _ v, h => by simp only [SVal.typed] at h; simp only [SValOK]; exact typed_SValOK v h
  | .seq xs, h => by simp only [SVal.typed] at h; simp only [SValOK]; exact typed_SValsOK xs h
  | .tuple xs, h => by simp only [SVal.typed] at h; simp only [SValOK]; exact typed_SValsOK xs h
  | .tupleStruct _ xs, h => by simp only [SVal.typed] at h; simp only [SValOK]; exact typed_SValsOK xs h
  | .record _ fs, h => by simp only [SVal.typed] at h; simp only [SValOK]; exact typed_SFieldsOK fs h
  | .map es, h => by simp only [SVal.typed] at h; simp only [SValOK]; exact typed_SEntriesOK es h
  | .mapRaw ops, h => by simp only [SVal.typed] at h; simp only [SValOK]; exact typed_SOpsOK ops h
  | .newtypeVariant _ _ _ v, h => by
    simp only [SVal.typed, Bool.and_eq_true] at h; simp only [SValOK]; exact typed_SValOK v h.2
  | .tupleVariant _ _ _ xs, h => by
    simp only [SVal.typed, Bool.and_eq_true] at h; simp only [SValOK]; exact typed_SValsOK xs h.2
  | .structVariant _ _ _ fs, h => by
    simp only [SVal.typed, Bool.and_eq_true] at h; simp only [SValOK]; exact typed_SFieldsOK fs h.2
  | .none, _ => by simp only [SValOK]
  | .unit, _ => by simp only [SValOK]
  | .bool _, _ => by simp only [SValOK]
  | .char _, _ => by simp only [SValOK]
  | .str _, _ => by simp only [SValOK]
  | .bytes _, _ => by simp only [SValOK]
  | .unitStruct _, _ => by simp only [SValOK]
  | .unitVariant _ _ _, _ => by simp only [SValOK]
theorem typed_SValsOK : ∀ (xs : SVals), xs.typed = true → SValsOK xs
  | .nil, _ => by simp only [SValsOK]
  | .cons v r, h => by
    simp only [SVals.typed, Bool.and_eq_true] at h; simp only [SValsOK]
    exact ⟨typed_SValOK v h.1, typed_SValsOK r h.2⟩
theorem typed_SFieldsOK : ∀ (fs : SFields), fs.typed = true → SFieldsOK fs
  | .nil, _ => by simp only [SFieldsOK]
  | .cons _ _ v r, h => by
    simp only [SFields.typed, Bool.and_eq_true] at h; simp only [SFieldsOK]
    exact ⟨typed_SValOK v h.1, typed_SFieldsOK r h.2⟩
theorem typed_SEntriesOK : ∀ (es : SEntries), es.typed = true → SEntriesOK es
  | .nil, _ => by simp only [SEntriesOK]
  | .cons k v r, h => by
    simp only [SEntries.typed, Bool.and_eq_true] at h; simp only [SEntriesOK]
    exact ⟨typed_SValOK k h.1.1, typed_SValOK v h.1.2, typed_SEntriesOK r h.2⟩
theorem typed_SOpsOK : ∀ (ops : SMapOps), ops.typed = true → SOpsOK ops
  | .nil, _ => by simp only [SOpsOK]
  | .key k r, h => by
    simp only [SMapOps.typed, Bool.and_eq_true] at h; simp only [SOpsOK]
    exact ⟨typed_SValOK k h.1, typed_SOpsOK r h.2⟩
  | .value v r, h => by
    simp only [SMapOps.typed, Bool.and_eq_true] at h; simp only [SOpsOK]
    exact ⟨typed_SValOK v h.1, typed_SOpsOK r h.2⟩
end

end SaModel.Lemmas.C03
