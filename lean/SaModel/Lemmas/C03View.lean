import SaModel.Lemmas.C03WF
import SaModel.Lemmas.Utf8
/-
Bytes-view descriptors (`bytes_view` module): what `push_scalar_value` writes decodes to the pushed bytes.

  decodeView_inline   |data| ≤ 12                      → decodeView bufs (packInline data) = ok data
  decodeView_extern   12 < |data|, |buf ++ data| < 2^32 → decodeView [buf ++ data] (packExtern data 0 |buf|) = ok data
  decodeView_extern_isOk (no size bound: some bytes of the buffer are designated)
  decodeView_append_of_isOk  descriptors keep their meaning when the buffer grows

and the local push invariant `ViewPX` of a `BytesViewArray` builder built on them.
-/
namespace SaModel.Lemmas.C03
open SaModel SaModel.Build SaModel.Spec

theorem leBytes_cons (x : UInt8) (r : Bytes) : leBytes (x :: r) = x.toNat + 256 * leBytes r := by simp [leBytes]

theorem leBytes_lt : ∀ (b : Bytes), leBytes b < 256 ^ b.length
  | [] => by simp [leBytes]
  | x :: r => by
    have ih := leBytes_lt r
    have hx : x.toNat < 256 := x.toNat_lt
    rw [leBytes_cons, List.length_cons, Nat.pow_succ]
    have : 256 * leBytes r + 256 ≤ 256 * 256 ^ r.length := by
      have := Nat.mul_le_mul_left 256 (Nat.succ_le_of_lt ih)
      simpa [Nat.mul_succ] using this
    omega

/-- byte `k` of the little-endian value is the `k`-th byte -/
theorem leBytes_byte : ∀ (b : Bytes) (k : Nat) (h : k < b.length), leBytes b / 2 ^ (8 * k) % 256 = b[k].toNat
  | [], k, h => by simp at h
  | x :: r, 0, _ => by
    have hx : x.toNat < 256 := x.toNat_lt
    simp only [leBytes_cons, Nat.mul_zero, Nat.pow_zero, Nat.div_one, List.getElem_cons_zero]
    omega
  | x :: r, k + 1, h => by
    have hx : x.toNat < 256 := x.toNat_lt
    have e : 2 ^ (8 * (k + 1)) = 256 * 2 ^ (8 * k) := by
      rw [Nat.mul_succ, Nat.pow_add]; simp [Nat.mul_comm]
    rw [leBytes_cons, e, ← Nat.div_div_eq_div_mul]
    have : (x.toNat + 256 * leBytes r) / 256 = leBytes r := by omega
    rw [this, List.getElem_cons_succ]
    exact leBytes_byte r k (by simpa using h)

theorem decodeView_inline (bufs : List Bytes) (data : Bytes) (h : data.length ≤ 12) :
    decodeView bufs (packInline data) = .ok data := by
  unfold decodeView packInline
  have hl : (data.length + 2 ^ 32 * leBytes data) % 4294967296 = data.length := by omega
  simp only [hl, h, if_true]
  congr 1
  apply List.ext_getElem
  · simp [u128Bytes]
  · intro k h1 h2
    simp only [u128Bytes, List.getElem_map, List.getElem_range, Nat.shiftRight_eq_div_pow]
    have e : 2 ^ (8 * (4 + k)) = 2 ^ 32 * 2 ^ (8 * k) := by
      rw [Nat.mul_add, Nat.pow_add]
    rw [e, ← Nat.div_div_eq_div_mul]
    have : (data.length + 2 ^ 32 * leBytes data) / 2 ^ 32 = leBytes data := by omega
    rw [this, leBytes_byte data k h2]
    simp

theorem decodeView_inline_isOk (bufs : List Bytes) (data : Bytes) (h : data.length ≤ 12) :
    (decodeView bufs (packInline data)).isOk = true := by
  rw [decodeView_inline bufs data h]; rfl

theorem pre_lt (data : Bytes) : leBytes (data.take 4) < 2 ^ 32 := by
  have := leBytes_lt (data.take 4)
  have hl : (data.take 4).length ≤ 4 := by simp; omega
  have : (256 : Nat) ^ (data.take 4).length ≤ 256 ^ 4 := Nat.pow_le_pow_right (by omega) hl
  omega

theorem decodeView_extern_isOk (buf data : Bytes) :
    (decodeView [buf ++ data] (packExtern data 0 buf.length)).isOk = true := by
  unfold decodeView packExtern
  have h4 := pre_lt data
  generalize leBytes (data.take 4) = pre at h4
  generalize hd : data.length % 2 ^ 32 = dl
  generalize ho : buf.length % 2 ^ 32 = off
  have hdl : dl < 2 ^ 32 := by rw [← hd]; exact Nat.mod_lt _ (by omega)
  have hoff : off < 2 ^ 32 := by rw [← ho]; exact Nat.mod_lt _ (by omega)
  have hdle : dl ≤ data.length := by rw [← hd]; exact Nat.mod_le _ _
  have hole : off ≤ buf.length := by rw [← ho]; exact Nat.mod_le _ _
  simp only [Nat.shiftRight_eq_div_pow]
  have e1 : (dl + 2 ^ 32 * pre + 2 ^ 64 * (0 % 2 ^ 32) + 2 ^ 96 * off) % 4294967296 = dl := by omega
  have e2 : (dl + 2 ^ 32 * pre + 2 ^ 64 * (0 % 2 ^ 32) + 2 ^ 96 * off) / 2 ^ 64 % 4294967296 = 0 := by omega
  have e3 : (dl + 2 ^ 32 * pre + 2 ^ 64 * (0 % 2 ^ 32) + 2 ^ 96 * off) / 2 ^ 96 % 4294967296 = off := by omega
  rw [e1, e2, e3]
  split
  · rfl
  · simp only [List.getElem?_cons_zero, List.length_append]
    rw [if_pos (by omega)]
    rfl

/-- below 4 GiB an out-of-line descriptor designates exactly the pushed bytes -/
theorem decodeView_extern (buf data : Bytes) (hlen : 12 < data.length) (hsmall : (buf ++ data).length < 2 ^ 32) :
    decodeView [buf ++ data] (packExtern data 0 buf.length) = .ok data := by
  unfold decodeView packExtern
  have h4 := pre_lt data
  generalize leBytes (data.take 4) = pre at h4
  rw [List.length_append] at hsmall
  have hd : data.length % 2 ^ 32 = data.length := Nat.mod_eq_of_lt (by omega)
  have ho : buf.length % 2 ^ 32 = buf.length := Nat.mod_eq_of_lt (by omega)
  rw [hd, ho]
  generalize hdl : data.length = dl at *
  generalize hbl : buf.length = off at *
  simp only [Nat.shiftRight_eq_div_pow]
  have e1 : (dl + 2 ^ 32 * pre + 2 ^ 64 * (0 % 2 ^ 32) + 2 ^ 96 * off) % 4294967296 = dl := by omega
  have e2 : (dl + 2 ^ 32 * pre + 2 ^ 64 * (0 % 2 ^ 32) + 2 ^ 96 * off) / 2 ^ 64 % 4294967296 = 0 := by omega
  have e3 : (dl + 2 ^ 32 * pre + 2 ^ 64 * (0 % 2 ^ 32) + 2 ^ 96 * off) / 2 ^ 96 % 4294967296 = off := by omega
  rw [e1, e2, e3]
  have hn : ¬ dl ≤ 12 := by omega
  simp only [hn, if_false, List.getElem?_cons_zero, List.length_append, hdl, hbl, Nat.le_refl, if_true]
  congr 1
  rw [← hbl, List.drop_left, ← hdl, List.take_length]

theorem decodeView_append_of_isOk (buf extra : Bytes) (d : Nat) (h : (decodeView [buf] d).isOk = true) :
    decodeView [buf ++ extra] d = decodeView [buf] d := by
  unfold decodeView at h ⊢
  simp only at h ⊢
  split
  · rfl
  · rename_i hlen
    simp only [hlen, if_false] at h
    cases hb : (d >>> 64) % 4294967296 with
    | zero =>
      simp only [hb, List.getElem?_cons_zero] at h ⊢
      split at h
      · rename_i hle
        rw [if_pos (by simp; omega)]
        rw [List.drop_append_of_le_length (by omega), List.take_append_of_le_length (by simp; omega)]
        rw [if_pos hle]
      · simp [R.isOk, fail] at h
    | succ n =>
      simp only [hb] at h ⊢
      simp [R.isOk, fail] at h

/-! ### one bytes-view builder -/

/-- every descriptor designates bytes of the buffer; as long as the buffer is below 4 GiB, a Utf8View builder's
slots are valid UTF-8 -/
def ViewPX (ty : ViewTy) (views : List Nat) (buf : Bytes) : Prop :=
  (∀ d ∈ views, (decodeView [buf] d).isOk = true) ∧
  (ty = .utf8View → buf.length < 2 ^ 32 → ∀ d ∈ views, validUtf8 (viewBytes buf d) = true)

theorem ViewPX_fresh (ty : ViewTy) : ViewPX ty [] [] := ⟨by simp, by simp⟩

theorem viewBytes_of_ok {buf : Bytes} {d : Nat} {b : Bytes} (h : decodeView [buf] d = .ok b) : viewBytes buf d = b := by
  simp only [viewBytes, h]

/-- appending one descriptor `d` (buffer grown by `extra`) that designates `value` whenever the new buffer is small -/
theorem ViewPX_snoc {ty : ViewTy} {views : List Nat} {buf extra : Bytes} {d : Nat} {value : Bytes}
    (h : ViewPX ty views buf) (hok : (decodeView [buf ++ extra] d).isOk = true)
    (hval : ty = .utf8View → (buf ++ extra).length < 2 ^ 32 →
      decodeView [buf ++ extra] d = .ok value ∧ validUtf8 value = true) :
    ViewPX ty (views ++ [d]) (buf ++ extra) := by
  obtain ⟨h1, h2⟩ := h
  refine ⟨?_, ?_⟩
  · intro d' hd'
    rcases List.mem_append.1 hd' with hm | hm
    · rw [decodeView_append_of_isOk buf extra d' (h1 d' hm)]; exact h1 d' hm
    · simp only [List.mem_singleton] at hm; subst hm; exact hok
  · intro hty hsm d' hd'
    rcases List.mem_append.1 hd' with hm | hm
    · have hb : buf.length < 2 ^ 32 := by rw [List.length_append] at hsm; omega
      have := h2 hty hb d' hm
      simp only [viewBytes] at this ⊢
      rw [decodeView_append_of_isOk buf extra d' (h1 d' hm)]
      exact this
    · simp only [List.mem_singleton] at hm; subst hm
      obtain ⟨e, hv⟩ := hval hty hsm
      rw [viewBytes_of_ok e]; exact hv

/-- a placeholder / null slot: the inline descriptor of the empty string -/
theorem ViewPX_default {ty : ViewTy} {views : List Nat} {buf : Bytes} (h : ViewPX ty views buf) :
    ViewPX ty (views ++ [packInline []]) buf := by
  have := ViewPX_snoc (extra := []) (d := packInline []) (value := []) (by simpa using h)
    (by rw [decodeView_inline _ [] (by simp)]; rfl)
    (fun _ _ => ⟨decodeView_inline _ [] (by simp), rfl⟩)
  simpa using this

/-- what a successful `push_scalar_value` returns: the value inline, or out of line at the end of the buffer -/
theorem viewPushValue_cases {views : List Nat} {buf value : Bytes} {r : List Nat × Bytes}
    (h : viewPushValue views buf value = .ok r) :
    (r = (views ++ [packInline value], buf) ∧ value.length ≤ 12) ∨
    (r = (views ++ [packExtern value 0 buf.length], buf ++ value) ∧ 12 < value.length) := by
  unfold viewPushValue at h
  split at h
  · rename_i hle; cases h; exact .inl ⟨rfl, hle⟩
  · rename_i hgt
    split at h
    · cases h
    · cases h; exact .inr ⟨rfl, by omega⟩

/-- the same for the sequence path (`start_seq` … `end_seq`) -/
theorem viewSeq_cases {views : List Nat} {buf value : Bytes} {r : List Nat × Bytes}
    (h : viewSeq views buf value = .ok r) :
    (r = (views ++ [packInline value], buf) ∧ value.length ≤ 12) ∨
    (r = (views ++ [packExtern value 0 buf.length], buf ++ value) ∧ 12 < value.length) := by
  unfold viewSeq at h
  split at h
  · cases h
  · split at h
    · rename_i hle; cases h; exact .inl ⟨rfl, hle⟩
    · rename_i hgt
      split at h
      · cases h
      · cases h; exact .inr ⟨rfl, by omega⟩

/-- `push_scalar_value` / `end_seq` -/
theorem ViewPX_push {ty : ViewTy} {views : List Nat} {buf value : Bytes} {r : List Nat × Bytes} (h : ViewPX ty views buf)
    (hv : ty = .utf8View → validUtf8 value = true)
    (hr : (r = (views ++ [packInline value], buf) ∧ value.length ≤ 12) ∨
      (r = (views ++ [packExtern value 0 buf.length], buf ++ value) ∧ 12 < value.length)) :
    ViewPX ty r.1 r.2 := by
  rcases hr with ⟨rfl, hle⟩ | ⟨rfl, hgt⟩
  · have := ViewPX_snoc (extra := []) (d := packInline value) (value := value) (by simpa using h)
      (decodeView_inline_isOk _ value hle)
      (fun hty _ => ⟨decodeView_inline _ value hle, hv hty⟩)
    simpa using this
  · exact ViewPX_snoc h (decodeView_extern_isOk buf value)
      (fun hty hsm => ⟨decodeView_extern buf value (by omega) hsm, hv hty⟩)

end SaModel.Lemmas.C03
