import SaModel.Lemmas.C03Assemble
import SaModel.Spec.WF
/-
`finish_wf`: the array a builder finishes into is a well-formed array of the field the builder was created for:

    BuiltFor dt nullable b → WFB b → Sound b → WFX b → finish ext b = ok a → wf dt nullable a = true

`BuiltFor` relates a builder to the data type it was created for (kind, parameters, child metas, bitmap present iff
nullable); `newDT_builtFor` (Lemmas/C03New.lean) establishes it.  `WFX` is the part of the state invariant that
`WFB` (Build/Inv.lean) does not carry and `Spec.wf` asks for: values in the range of their physical type,
offsets within i32/i64, string data valid UTF-8.
-/
namespace SaModel.Lemmas.C03
open SaModel SaModel.Build SaModel.Spec SaModel.Lemmas.Bits

/-! ### the data type a builder stands for -/

def intDT : IntTy → DataType
  | .i8 => .int8 | .i16 => .int16 | .i32 => .int32 | .i64 => .int64
  | .u8 => .uint8 | .u16 => .uint16 | .u32 => .uint32 | .u64 => .uint64

def leafDT : LeafKind → DataType
  | .bool => .boolean
  | .int t => intDT t
  | .f16 => .float16 | .f32 => .float32 | .f64 => .float64
  | .date32 => .date32 | .date64 => .date64
  | .time32 u => .time32 u | .time64 u => .time64 u
  | .duration u => .duration u
  | .timestamp u tz _ => .timestamp u tz
  | .decimal p s => .decimal128 p s

def bytesDT : BytesTy → DataType
  | .utf8 => .utf8 | .largeUtf8 => .largeUtf8 | .binary => .binary | .largeBinary => .largeBinary

def viewDT : ViewTy → DataType
  | .utf8View => .utf8View | .binaryView => .binaryView

mutual
/-- `b` is (a later state of) the builder `build_builder` creates for a field of type `dt` / nullability `nl` -/
def BuiltFor : DataType → Bool → B → Prop
  | dt, _, .null _ _ => dt = .null
  | dt, _, .unknownVariant _ => dt = .null
  | dt, nl, .leaf _ k v _ => dt = leafDT k ∧ v.isSome = nl
  | dt, nl, .bytes _ ty v _ _ => dt = bytesDT ty ∧ v.isSome = nl
  | dt, nl, .bytesView _ ty v _ _ => dt = viewDT ty ∧ v.isSome = nl
  | dt, nl, .fixedSizeBinary _ n _ v _ _ => dt = .fixedSizeBinary (n : Int) ∧ v.isSome = nl
  | dt, nl, .list _ large fm v _ el =>
    ∃ f : Field, dt = (if large then .largeList f else .list f) ∧ fm = metaOfField f ∧ v.isSome = nl ∧
      BuiltFor f.dataType f.nullable el
  | dt, nl, .fixedSizeList _ fm n _ v _ el =>
    ∃ f : Field, dt = .fixedSizeList f (n : Int) ∧ fm = metaOfField f ∧ v.isSome = nl ∧
      BuiltFor f.dataType f.nullable el
  | dt, nl, .map _ mm v _ ks vs =>
    ∃ (ename : String) (kf vf : Field) (sorted enl : Bool) (emd : Metadata),
      dt = .map (.mk ename (.struct (.cons kf (.cons vf .nil))) enl emd) sorted ∧
      mm = { entriesName := ename, sorted := sorted, keys := metaOfField kf, values := metaOfField vf } ∧
      v.isSome = nl ∧ BuiltFor kf.dataType kf.nullable ks ∧ BuiltFor vf.dataType vf.nullable vs
  | dt, nl, .struct _ _ v fs _ _ _ => ∃ fields : Fields, dt = .struct fields ∧ v.isSome = nl ∧ BuiltForL fields fs
  | dt, nl, .dictionary _ idx vals _ =>
    ∃ (k vdt : DataType), dt = .dictionary k vdt ∧ isIntDT k = true ∧ BuiltFor k nl idx ∧ BuiltFor vdt false vals
  | dt, _, .union _ fs _ _ _ => ∃ (ufs : UFields) (mode : UnionMode), dt = .union ufs mode ∧ BuiltForU ufs fs 0
def BuiltForL : Fields → BL → Prop
  | .nil, .nil => True
  | .cons f r, .cons b m rl => m = metaOfField f ∧ BuiltFor f.dataType f.nullable b ∧ BuiltForL r rl
  | _, _ => False
def BuiltForU : UFields → BL → Nat → Prop
  | .nil, .nil, _ => True
  | .cons tid f r, .cons b m rl, k =>
    tid = (k : Int) ∧ m = metaOfField f ∧ BuiltFor f.dataType f.nullable b ∧ BuiltForU r rl (k + 1)
  | _, _, _ => False
end

/-! ### the rest of the state invariant that `Spec.wf` asks for -/

def i32Rng : Int × Int := (-2147483648, 2147483647)
def i64Rng : Int × Int := (-9223372036854775808, 9223372036854775807)

/-- physical range of the values a leaf builder stores (none: unconstrained) -/
def leafRange : LeafKind → Option (Int × Int)
  | .bool => none
  | .int t => some (primRange (primOfInt t))
  | .f16 => some (0, 65535) | .f32 => some (0, 4294967295) | .f64 => some (0, 18446744073709551615)
  | .date32 => some i32Rng | .date64 => some i64Rng
  | .time32 _ => some i32Rng | .time64 _ => some i64Rng
  | .duration _ => some i64Rng
  | .timestamp _ _ _ => some i64Rng
  | .decimal _ _ => none

mutual
/-- values in physical range, offsets within i32/i64, string data valid UTF-8.  Purely a property of the stored
values/offsets/bytes (no `dec`, independent of `WFB`). -/
def WFX : B → Prop
  | .leaf _ k _ vals => ∀ r, leafRange k = some r → inRng r vals = true
  | .bytes _ ty _ offs data =>
    (∀ o ∈ offs, o ≤ offMax (isLargeTy ty)) ∧ (isUtf8Ty ty = true → bytesUtf8 offs data = true)
  | .bytesView _ ty _ views buf => ty = .utf8View → ∀ d ∈ views, validUtf8 (viewBytes buf d) = true
  | .list _ large _ _ offs el => (∀ o ∈ offs, o ≤ offMax large) ∧ WFX el
  | .fixedSizeList _ _ _ _ _ _ el => WFX el
  | .map _ _ _ offs ks vs => (∀ o ∈ offs, o ≤ 2147483647) ∧ WFX ks ∧ WFX vs
  | .struct _ _ _ fs _ _ _ => WFXL fs
  | .dictionary _ idx vals _ => WFX idx ∧ WFX vals
  | .union _ fs _ _ _ => WFXL fs
  | _ => True
def WFXL : BL → Prop
  | .nil => True
  | .cons b _ r => WFX b ∧ WFXL r
end

/-! ### bitmaps -/

/-- **bitmap of a finished array**: present iff nullable, no bit offset, exactly ⌈len/8⌉ bytes, padding clear -/
theorem validityOk_finish (v : Validity) (nl : Bool) (n : Nat) (hn : v.isSome = nl) (hv : VLen v n) :
    validityOk nl (finishValidity v) n = true := by
  cases v with
  | none => simp at hn; subst hn; rfl
  | some bits =>
    simp at hn; subst hn
    have hl : bits.length = n := hv bits rfl
    simp only [finishValidity, Option.map_some, validityOk, Bool.true_and, beq_self_eq_true, packBits_length, hl,
      List.all_eq_true, List.mem_range]
    intro k hk
    rw [getBit_packBits_pad bits (n + k) (by omega) (by rw [packBits_length]; omega)]
    rfl

/-! ### offsets -/

theorem OffsOK_mem (offs : List Int) (n : Nat) (h : OffsOK offs n) (o : Int) (ho : o ∈ offs) : 0 ≤ o ∧ o ≤ (n : Int) := by
  obtain ⟨i, hi, rfl⟩ := List.getElem_of_mem ho
  by_cases hlt : i + 1 < offs.length
  · have := OffsOK_pair offs n h i hlt; omega
  · have hl := h.2.1
    have hi' : i = offs.length - 1 := by omega
    subst hi'
    rw [List.getLast?_eq_getElem?, List.getElem?_eq_getElem (by omega)] at hl
    simp only [Option.some.injEq] at hl
    omega

theorem OffsOK_last_le (offs : List Int) (n : Nat) (m : Int) (h : OffsOK offs n) (hm : ∀ o ∈ offs, o ≤ m) :
    (n : Int) ≤ m := hm _ (List.mem_of_getLast? h.2.1)

theorem offsetsOk_of (offs : List Int) (n : Nat) (m : Int) (h : OffsOK offs n) (hm' : ∀ o ∈ offs, o ≤ m) :
    offsetsOk offs n m = true := by
  have hm := OffsOK_last_le offs n m h hm'
  simp only [offsetsOk, Bool.and_eq_true, beq_iff_eq, List.all_eq_true, decide_eq_true_eq]
  refine ⟨⟨⟨h.1, h.2.1⟩, ?_⟩, ?_⟩
  · intro ab hab
    obtain ⟨i, hi, rfl⟩ := List.getElem_of_mem hab
    have hi' : i < (pairs offs).length := hi
    have := pairs_getElem offs i hi'
    rw [pairs_length] at hi'
    have hp := OffsOK_pair offs n h i (by omega)
    simp only [List.getElem_zip, List.getElem_tail]
    exact hp.2.1
  · intro o ho
    have := OffsOK_mem offs n h o ho
    omega

/-! ### leaves -/

theorem timeUnit_beq_self (u : TimeUnit) : (u == u) = true := by cases u <;> rfl

theorem finishLeaf_wf (k : LeafKind) (v : Validity) (vals : List Int) (nl : Bool) (hn : v.isSome = nl)
    (hv : VLen v vals.length) (hr : ∀ r, leafRange k = some r → inRng r vals = true) :
    wf (leafDT k) nl (finishLeaf k v vals) = true := by
  have hvo := validityOk_finish v nl vals.length hn hv
  cases k with
  | bool =>
    simp only [leafDT, finishLeaf, wf, hvo, Bool.true_and, beq_self_eq_true, packBits_length, List.length_map]
  | int t =>
    have := hr _ rfl
    cases t <;>
      (simp only [leafDT, intDT, finishLeaf, primOfInt, wf, primMatches, hvo, Bool.true_and]; exact this)
  | f16 => have := hr _ rfl; simp only [leafDT, finishLeaf, wf, primMatches, primRange, hvo, this, Bool.true_and]
  | f32 => have := hr _ rfl; simp only [leafDT, finishLeaf, wf, primMatches, primRange, hvo, this, Bool.true_and]
  | f64 => have := hr _ rfl; simp only [leafDT, finishLeaf, wf, primMatches, primRange, hvo, this, Bool.true_and]
  | date32 =>
    have := hr _ rfl
    simp only [leafDT, finishLeaf, wf, primMatches, primRange, hvo, Bool.true_and]; exact this
  | date64 =>
    have := hr _ rfl
    simp only [leafDT, finishLeaf, wf, primMatches, primRange, hvo, Bool.true_and]; exact this
  | time32 u =>
    have := hr _ rfl
    simp only [leafDT, finishLeaf, wf, hvo, Bool.true_and, timeUnit_beq_self]; exact this
  | time64 u =>
    have := hr _ rfl
    simp only [leafDT, finishLeaf, wf, hvo, Bool.true_and, timeUnit_beq_self]; exact this
  | duration u =>
    have := hr _ rfl
    simp only [leafDT, finishLeaf, wf, hvo, Bool.true_and, timeUnit_beq_self]; exact this
  | timestamp u tz utc =>
    have := hr _ rfl
    simp only [leafDT, finishLeaf, wf, hvo, Bool.true_and, beq_self_eq_true, timeUnit_beq_self]; exact this
  | decimal p s =>
    simp only [leafDT, finishLeaf, wf, hvo, Bool.and_true, beq_self_eq_true]

/-! ### small facts -/

theorem metaMatches_metaOfField (f : Field) : metaMatches (metaOfField f) f = true := by
  cases f; simp [metaMatches, metaOfField, Field.name, Field.nullable, Field.metadata]

theorem mem_maskNull (v : Validity) (xs : List LVal) (x : LVal) (h : x ∈ maskNull v xs) : x = .null ∨ x ∈ xs := by
  cases v with
  | none => exact Or.inr h
  | some bits =>
    simp only [maskNull] at h
    obtain ⟨i, hi, rfl⟩ := List.getElem_of_mem h
    simp only [List.getElem_zipWith]
    split
    · exact Or.inr (List.getElem_mem _)
    · exact Or.inl rfl

theorem slotsAllOk_of (a : Arr) (h : ∀ r ∈ decodeAll a, r.isOk = true) : slotsAllOk a = true := by
  simp only [slotsAllOk, List.all_eq_true]; exact h

theorem validityOk_false (v : Option Bits) (n : Nat) (h : validityOk false v n = true) : v = none := by
  cases v with
  | none => rfl
  | some b => simp [validityOk] at h

theorem validUtf8_nil : validUtf8 [] = true := rfl

theorem bytesUtf8_append (offs : List Int) (data : Bytes) (l : Int) (hl : offs.getLast? = some l)
    (h : bytesUtf8 offs data = true) : bytesUtf8 (offs ++ [l]) data = true := by
  have hp := pairs_append_last offs l hl l
  simp only [pairs] at hp
  unfold bytesUtf8 at h ⊢
  rw [hp, List.all_append, h]
  simp [validUtf8]

theorem offsetsOk_append (offs : List Int) (n : Nat) (m : Int) (h : offsetsOk offs n m = true) :
    offsetsOk (offs ++ [offs.getLastD 0]) n m = true := by
  simp only [offsetsOk, Bool.and_eq_true, beq_iff_eq, List.all_eq_true, decide_eq_true_eq] at h ⊢
  obtain ⟨⟨⟨h1, h2⟩, h3⟩, h4⟩ := h
  have hne : offs ≠ [] := by intro e; rw [e] at h2; cases h2
  have hlast : offs.getLastD 0 = (n : Int) := by rw [List.getLastD_eq_getLast?, h2]; rfl
  have hp := pairs_append_last offs n h2 n
  simp only [pairs] at hp
  rw [hlast]
  refine ⟨⟨⟨?_, by simp⟩, ?_⟩, ?_⟩
  · cases offs with
    | nil => exact absurd rfl hne
    | cons a r => simpa using h1
  · intro ab hab
    rw [hp, List.mem_append, List.mem_singleton] at hab
    rcases hab with hab | rfl
    · exact h3 ab hab
    · exact Int.le_refl _
  · intro o ho
    rw [List.mem_append, List.mem_singleton] at ho
    rcases ho with ho | rfl
    · exact h4 o ho
    · have hm : (n : Int) ∈ offs := List.mem_of_getLast? h2
      exact h4 _ hm

/-- `serialize_str("")` keeps a non-nullable string array well formed -/
theorem wf_appendEmptyStr_bytes (dt : DataType) (ty : BytesTy) (v : Option Bits) (offs : List Int) (data : Bytes)
    (h : wf dt false (.bytes ty v offs data) = true) : wf dt false (appendEmptyStr (.bytes ty v offs data)) = true := by
  simp only [appendEmptyStr]
  cases ty <;> cases dt <;> simp only [wf, Bool.and_eq_true, Bool.false_eq_true] at h ⊢
  · obtain ⟨⟨hv, ho⟩, hu⟩ := h
    have := validityOk_false v _ hv; subst this
    have hl : offs.getLast? = some (offs.getLastD 0) := by
      simp only [offsetsOk, Bool.and_eq_true, beq_iff_eq] at ho
      rw [List.getLastD_eq_getLast?, ho.1.1.2]; rfl
    exact ⟨⟨rfl, offsetsOk_append offs _ _ ho⟩, bytesUtf8_append offs data _ hl hu⟩
  · obtain ⟨⟨hv, ho⟩, hu⟩ := h
    have := validityOk_false v _ hv; subst this
    have hl : offs.getLast? = some (offs.getLastD 0) := by
      simp only [offsetsOk, Bool.and_eq_true, beq_iff_eq] at ho
      rw [List.getLastD_eq_getLast?, ho.1.1.2]; rfl
    exact ⟨⟨rfl, offsetsOk_append offs _ _ ho⟩, bytesUtf8_append offs data _ hl hu⟩
  · obtain ⟨hv, ho⟩ := h
    have := validityOk_false v _ hv; subst this
    exact ⟨rfl, offsetsOk_append offs _ _ ho⟩
  · obtain ⟨hv, ho⟩ := h
    have := validityOk_false v _ hv; subst this
    exact ⟨rfl, offsetsOk_append offs _ _ ho⟩

theorem decodeView_packInline_nil' (bufs : List Bytes) : decodeView bufs (packInline []) = .ok [] := by
  simp [decodeView, packInline, leBytes, u128Bytes]

theorem decodeAll_bytesView_snoc (ty : ViewTy) (views : List Nat) (bufs : List Bytes) :
    decodeAll (.bytesView ty none (views ++ [packInline []]) bufs) =
      decodeAll (.bytesView ty none views bufs) ++ [.ok (bytesVal (ty == .utf8View) [])] := by
  simp only [decodeAll, List.length_append, List.length_singleton, List.range_succ, List.map_append, List.map_cons,
    List.map_nil]
  congr 1
  · apply List.map_congr_left
    intro i hi
    rw [getD_append_left views _ i 0 (by simpa using hi)]
  · have : (views ++ [packInline []]).getD views.length 0 = packInline [] := by
      simp [List.getD_eq_getElem?_getD]
    rw [this, decodeView_packInline_nil']
    rfl

theorem wf_appendEmptyStr_bytesView (dt : DataType) (ty : ViewTy) (v : Option Bits) (views : List Nat)
    (bufs : List Bytes) (h : wf dt false (.bytesView ty v views bufs) = true) :
    wf dt false (appendEmptyStr (.bytesView ty v views bufs)) = true := by
  simp only [appendEmptyStr]
  cases ty <;> cases dt <;> simp only [wf, Bool.and_eq_true, Bool.false_eq_true] at h ⊢
  · obtain ⟨⟨hv, hs⟩, hu⟩ := h
    have := validityOk_false v _ hv; subst this
    refine ⟨⟨rfl, ?_⟩, ?_⟩
    · simp only [slotsAllOk, decodeAll_bytesView_snoc, List.all_append] at hs ⊢
      rw [hs]; rfl
    · rw [decodeAll_bytesView_snoc, List.all_append, hu]
      rfl
  · obtain ⟨hv, hs⟩ := h
    have := validityOk_false v _ hv; subst this
    refine ⟨rfl, ?_⟩
    simp only [slotsAllOk, decodeAll_bytesView_snoc, List.all_append] at hs ⊢
    rw [hs]; rfl

theorem wf_appendEmptyStr (dt : DataType) (va : Arr) (h : wf dt false va = true) :
    wf dt false (appendEmptyStr va) = true := by
  cases va with
  | bytes ty v offs data => exact wf_appendEmptyStr_bytes dt ty v offs data h
  | bytesView ty v views bufs => exact wf_appendEmptyStr_bytesView dt ty v views bufs h
  | _ => exact h

end SaModel.Lemmas.C03
