import SaModel.Lemmas.C04Schema
import SaModel.Lemmas.C01CompSmall
/-
C04, acceptance half ("the schema traced from the type accepts every value of that type"): the schema-level facts the
completeness theorem of C01 (`Props/C01Complete.lean`) asks for, for traced schemas of the fragment.

  mapping_total : noEnum t → mappingDT o t = (dt, nb, md) → total dt n md ∧ defOK dt md      (C01's non-capacity exclusion
                  never applies: a traced schema of an enum-free type has no UnknownVariant placeholder and no union)
  newDT_traced    : frag t → mappingDT o t = (dt, nb, md) → newDT path dt nl md = ok b, and the fresh builder has the full
                  head room `room b = 2^31 - 1` (no offsets yet, 2^32 free dictionary keys)
-/
namespace SaModel.Roundtrip
open SaModel SaModel.Spec SaModel.Build

theorem total_prim (o : TraceOpts) (p : Prim) (n : Bool) (md : Metadata) :
    total (primDT o p) n md = true ∧ defOK (primDT o p) md = true := by
  cases p with
  | int t => cases t <;> simp [primDT, intDT, total, defOK]
  | str => simp only [primDT, strDT]; split <;> (try split) <;> simp [total, defOK]
  | _ => simp [primDT, total, defOK]

mutual
theorem mapping_total (o : TraceOpts) : ∀ (t : Ty) (dt : DataType) (nb : Bool) (md : Metadata),
    noEnum t = true → mappingDT o t = (dt, nb, md) → (∀ n, total dt n md = true) ∧ defOK dt md = true
  | .prim p, dt, nb, md, _, hm => by
    simp only [mappingDT, Prod.mk.injEq] at hm; obtain ⟨rfl, rfl, rfl⟩ := hm
    exact ⟨fun n => (total_prim o p n []).1, (total_prim o p false []).2⟩
  | .unit, dt, nb, md, _, hm => by
    simp only [mappingDT, Prod.mk.injEq] at hm; obtain ⟨rfl, rfl, rfl⟩ := hm
    simp [total, defOK, isUnknownVariant, strategyOf_nil]
  | .unitStruct _, dt, nb, md, _, hm => by
    simp only [mappingDT, Prod.mk.injEq] at hm; obtain ⟨rfl, rfl, rfl⟩ := hm
    simp [total, defOK, isUnknownVariant, strategyOf_nil]
  | .option t, dt, nb, md, hn, hm => by
    rcases hm' : mappingDT o t with ⟨dt', nb', md'⟩
    simp only [mappingDT, hm', Prod.mk.injEq] at hm; obtain ⟨rfl, rfl, rfl⟩ := hm
    exact mapping_total o t _ _ _ (by simpa [noEnum] using hn) hm'
  | .newtype _ t, dt, nb, md, hn, hm => by
    simp only [mappingDT] at hm
    exact mapping_total o t _ _ _ (by simpa [noEnum] using hn) hm
  | .vec t, dt, nb, md, hn, hm => by
    rcases hm' : mappingDT o t with ⟨dt', nb', md'⟩
    simp only [mappingDT, hm', Prod.mk.injEq] at hm; obtain ⟨rfl, rfl, rfl⟩ := hm
    have ih := mapping_total o t _ _ _ (by simpa [noEnum] using hn) hm'
    split <;> simp [total, totalF, defOK, ih.1]
  | .tuple ts, dt, nb, md, hn, hm => by
    simp only [mappingDT, Prod.mk.injEq] at hm; obtain ⟨rfl, rfl, rfl⟩ := hm
    have ih := mappingPos_total o ts 0 (by simpa [noEnum] using hn)
    simp [total, defOK, ih.1, ih.2]
  | .tupleStruct _ ts, dt, nb, md, hn, hm => by
    simp only [mappingDT, Prod.mk.injEq] at hm; obtain ⟨rfl, rfl, rfl⟩ := hm
    have ih := mappingPos_total o ts 0 (by simpa [noEnum] using hn)
    simp [total, defOK, ih.1, ih.2]
  | .struct _ fs, dt, nb, md, hn, hm => by
    simp only [mappingDT, Prod.mk.injEq] at hm; obtain ⟨rfl, rfl, rfl⟩ := hm
    have ih := mappingFields_total o fs (by simpa [noEnum] using hn)
    simp [total, defOK, ih.1, ih.2]
  | .map k v, dt, nb, md, hn, hm => by
    rcases hk : mappingDT o k with ⟨kdt, knb, kmd⟩
    rcases hv : mappingDT o v with ⟨vdt, vnb, vmd⟩
    simp only [mappingDT, hk, hv, Prod.mk.injEq] at hm; obtain ⟨rfl, rfl, rfl⟩ := hm
    simp only [noEnum, Bool.and_eq_true] at hn
    have ihk := mapping_total o k _ _ _ hn.1 hk
    have ihv := mapping_total o v _ _ _ hn.2 hv
    simp [total, totalF, defOK, ihk.1, ihv.1]
  | .enum _ _, _, _, _, hn, _ => by simp [noEnum] at hn
theorem mappingPos_total (o : TraceOpts) : ∀ (ts : Tys) (i : Nat), noEnumTys ts = true →
    totalFs (mappingPos o i ts) = true ∧ defOKFs (mappingPos o i ts) = true
  | .nil, _, _ => by simp [mappingPos, totalFs, defOKFs]
  | .cons t r, i, hn => by
    simp only [noEnumTys, Bool.and_eq_true] at hn
    rcases hm : mappingDT o t with ⟨dt, nb, md⟩
    have h1 := mapping_total o t _ _ _ hn.1 hm
    have h2 := mappingPos_total o r (i + 1) hn.2
    simp [mappingPos, hm, totalFs, totalF, defOKFs, defOKF, h1.1, h1.2, h2.1, h2.2]
theorem mappingFields_total (o : TraceOpts) : ∀ (fs : TFields), noEnumFields fs = true →
    totalFs (mappingFields o fs) = true ∧ defOKFs (mappingFields o fs) = true
  | .nil, _ => by simp [mappingFields, totalFs, defOKFs]
  | .cons n s t r, hn => by
    simp only [noEnumFields, Bool.and_eq_true] at hn
    rcases hm : mappingDT o t with ⟨dt, nb, md⟩
    have h1 := mapping_total o t _ _ _ hn.1 hm
    have h2 := mappingFields_total o r hn.2
    simp [mappingFields, hm, totalFs, totalF, defOKFs, defOKF, h1.1, h1.2, h2.1, h2.2]
end

/-! ### `build_builder` accepts a traced schema; the fresh builder has the full head room -/

/-- no counter used yet, every dictionary has at least `2^31 - 1` free keys -/
def FullRoom (b : B) : Prop := used b = 0 ∧ keysRoom b = LIM
def FullRoomL (bl : BL) : Prop := usedL bl = 0 ∧ keysRoomL bl = LIM

theorem lastNat_zero : lastNat [0] = 0 := rfl

theorem newDT_prim (o : TraceOpts) (p : Prim) (path : String) (nl : Bool) (md : Metadata) :
    ∃ b, newDT path (primDT o p) nl md = .ok b ∧ FullRoom b := by
  cases p with
  | int t => cases t <;> exact ⟨_, rfl, rfl, rfl⟩
  | str =>
    simp only [primDT, strDT]
    by_cases hd : o.stringDictionaryEncoding = true <;> by_cases hl : o.stringsAsLargeUtf8 = true <;>
      simp only [hd, hl, if_true, if_false, Bool.false_eq_true]
    · exact ⟨_, rfl, rfl, by simp [keysRoom, keyRoom, IntTy.max, LIM]⟩
    · exact ⟨_, rfl, rfl, by simp [keysRoom, keyRoom, IntTy.max, LIM]⟩
    · exact ⟨_, rfl, rfl, rfl⟩
    · exact ⟨_, rfl, rfl, rfl⟩
  | _ => exact ⟨_, rfl, rfl, rfl⟩

theorem mkStruct_ok (path : String) (bl : BL) (nl : Bool) (hd : hasDup bl.names = false) (hr : FullRoomL bl) :
    ∃ b, mkStruct path bl nl = .ok b ∧ FullRoom b := by
  refine ⟨.struct path 0 (newValidity nl) bl (List.replicate bl.length none) 0 (List.replicate bl.length false),
    by simp [mkStruct, hd], ?_⟩
  exact ⟨by simpa [used] using hr.1, by simpa [keysRoom] using hr.2⟩

mutual
theorem newDT_traced (o : TraceOpts) : ∀ (t : Ty) (dt : DataType) (nb : Bool) (md : Metadata),
    frag t = true → mappingDT o t = (dt, nb, md) → ∀ (path : String) (nl : Bool), ∃ b, newDT path dt nl md = .ok b ∧ FullRoom b
  | .prim p, dt, nb, md, _, hm, path, nl => by
    simp only [mappingDT, Prod.mk.injEq] at hm; obtain ⟨rfl, rfl, rfl⟩ := hm; exact newDT_prim o p path nl []
  | .unit, dt, nb, md, _, hm, path, nl => by
    simp only [mappingDT, Prod.mk.injEq] at hm; obtain ⟨rfl, rfl, rfl⟩ := hm
    exact ⟨.null path 0, by simp [newDT, strategyOf_nil], rfl, rfl⟩
  | .unitStruct _, dt, nb, md, _, hm, path, nl => by
    simp only [mappingDT, Prod.mk.injEq] at hm; obtain ⟨rfl, rfl, rfl⟩ := hm
    exact ⟨.null path 0, by simp [newDT, strategyOf_nil], rfl, rfl⟩
  | .option t, dt, nb, md, hf, hm, path, nl => by
    rcases hm' : mappingDT o t with ⟨dt', nb', md'⟩
    simp only [mappingDT, hm', Prod.mk.injEq] at hm; obtain ⟨rfl, rfl, rfl⟩ := hm
    exact newDT_traced o t _ _ _ (by simpa [frag] using hf) hm' path nl
  | .newtype _ t, dt, nb, md, hf, hm, path, nl => by
    simp only [mappingDT] at hm
    exact newDT_traced o t _ _ _ (by simpa [frag] using hf) hm path nl
  | .vec t, dt, nb, md, hf, hm, path, nl => by
    rcases hm' : mappingDT o t with ⟨dt', nb', md'⟩
    simp only [mappingDT, hm', Prod.mk.injEq] at hm; obtain ⟨rfl, rfl, rfl⟩ := hm
    obtain ⟨el, hel, hu, hk⟩ := newDT_traced o t _ _ _ (by simpa [frag] using hf) hm' (path ++ "." ++ childName "element") nb'
    by_cases hl : o.sequenceAsLargeList = true
    · refine ⟨_, by simp only [hl, if_true, newDT, newB, Field.name, hel, bind, Except.bind, pure, Except.pure]; rfl, ?_, ?_⟩
      · simp [used, lastNat_zero, hu]
      · simp [keysRoom, hk]
    · refine ⟨_, by simp only [hl, if_false, Bool.false_eq_true, newDT, newB, Field.name, hel, bind, Except.bind, pure, Except.pure]; rfl, ?_, ?_⟩
      · simp [used, lastNat_zero, hu]
      · simp [keysRoom, hk]
  | .tuple ts, dt, nb, md, hf, hm, path, nl => by
    simp only [mappingDT, Prod.mk.injEq] at hm; obtain ⟨rfl, rfl, rfl⟩ := hm
    obtain ⟨bl, hbl, hnames, hr⟩ := newPos_traced o ts 0 (by simpa [frag] using hf) path
    obtain ⟨b, hb, hfr⟩ := mkStruct_ok path bl nl (by rw [hnames]; exact hasDup_posNames _ _) hr
    exact ⟨b, by simp only [newDT, hbl, bind, Except.bind]; exact hb, hfr⟩
  | .tupleStruct _ ts, dt, nb, md, hf, hm, path, nl => by
    simp only [mappingDT, Prod.mk.injEq] at hm; obtain ⟨rfl, rfl, rfl⟩ := hm
    obtain ⟨bl, hbl, hnames, hr⟩ := newPos_traced o ts 0 (by simpa [frag] using hf) path
    obtain ⟨b, hb, hfr⟩ := mkStruct_ok path bl nl (by rw [hnames]; exact hasDup_posNames _ _) hr
    exact ⟨b, by simp only [newDT, hbl, bind, Except.bind]; exact hb, hfr⟩
  | .struct _ fs, dt, nb, md, hf, hm, path, nl => by
    simp only [mappingDT, Prod.mk.injEq] at hm; obtain ⟨rfl, rfl, rfl⟩ := hm
    simp only [frag, Bool.and_eq_true, Bool.not_eq_true'] at hf
    obtain ⟨bl, hbl, hnames, hr⟩ := newFields_traced o fs hf.2 path
    obtain ⟨b, hb, hfr⟩ := mkStruct_ok path bl nl (by rw [hnames]; exact hf.1) hr
    exact ⟨b, by simp only [newDT, hbl, bind, Except.bind]; exact hb, hfr⟩
  | .map k v, dt, nb, md, hf, hm, path, nl => by
    rcases hk : mappingDT o k with ⟨kdt, knb, kmd⟩
    rcases hv : mappingDT o v with ⟨vdt, vnb, vmd⟩
    simp only [mappingDT, hk, hv, Prod.mk.injEq] at hm; obtain ⟨rfl, rfl, rfl⟩ := hm
    simp only [frag, Bool.and_eq_true] at hf
    obtain ⟨kb, hkb, hku, hkk⟩ := newDT_traced o k _ _ _ hf.1 hk (path ++ "." ++ childName "entries" ++ "." ++ childName "key") knb
    obtain ⟨vb, hvb, hvu, hvk⟩ := newDT_traced o v _ _ _ hf.2 hv (path ++ "." ++ childName "entries" ++ "." ++ childName "value") vnb
    refine ⟨_, by simp only [newDT, newB, Field.name, hkb, hvb, bind, Except.bind, pure, Except.pure]; rfl, ?_, ?_⟩
    · simp [used, lastNat_zero, hku, hvu]
    · simp [keysRoom, hkk, hvk]
  | .enum _ _, _, _, _, hf, _, _, _ => by simp [frag] at hf
theorem newPos_traced (o : TraceOpts) : ∀ (ts : Tys) (i : Nat), fragTys ts = true → ∀ (path : String),
    ∃ bl, newFields path (mappingPos o i ts) = .ok bl ∧ bl.names = posNames i ts.length ∧ FullRoomL bl
  | .nil, _, _, _ => ⟨.nil, rfl, rfl, rfl, rfl⟩
  | .cons t r, i, hf, path => by
    simp only [fragTys, Bool.and_eq_true] at hf
    rcases hm : mappingDT o t with ⟨dt, nb, md⟩
    obtain ⟨b, hb, hu, hk⟩ := newDT_traced o t _ _ _ hf.1 hm (path ++ "." ++ posName i) nb
    obtain ⟨bl, hbl, hnames, hru, hrk⟩ := newPos_traced o r (i + 1) hf.2 path
    refine ⟨_, by simp only [mappingPos, hm, newFields, newB, Field.name, hb, hbl, bind, Except.bind, pure, Except.pure]; rfl, ?_, ?_, ?_⟩
    · simp [BL.names, metaOfField, hnames, Tys.length, posNames]
    · simp [usedL, hu, hru]
    · simp [keysRoomL, hk, hrk]
theorem newFields_traced (o : TraceOpts) : ∀ (fs : TFields), fragFields fs = true → ∀ (path : String),
    ∃ bl, newFields path (mappingFields o fs) = .ok bl ∧ bl.names = fs.names ∧ FullRoomL bl
  | .nil, _, _ => ⟨.nil, rfl, rfl, rfl, rfl⟩
  | .cons n s t r, hf, path => by
    simp only [fragFields, Bool.and_eq_true] at hf
    rcases hm : mappingDT o t with ⟨dt, nb, md⟩
    obtain ⟨b, hb, hu, hk⟩ := newDT_traced o t _ _ _ hf.1.1 hm (path ++ "." ++ n) nb
    obtain ⟨bl, hbl, hnames, hru, hrk⟩ := newFields_traced o r hf.2 path
    refine ⟨_, by simp only [mappingFields, hm, newFields, newB, Field.name, hb, hbl, bind, Except.bind, pure, Except.pure]; rfl, ?_, ?_, ?_⟩
    · simp [BL.names, metaOfField, hnames, TFields.names]
    · simp [usedL, hu, hru]
    · simp [keysRoomL, hk, hrk]
end

theorem fields_ofList_toList : ∀ (l : Fields), Fields.ofList l.toList = l
  | .nil => rfl
  | .cons f r => by simp [Fields.toList, Fields.ofList, fields_ofList_toList r]

/-- **`ArrayBuilder::new` accepts the schema traced from a record type of the fragment**; the fresh root has the full
head room `2^31 - 1` -/
theorem newRoot_traced (o : TraceOpts) (n : String) (fs : TFields) (hf : frag (.struct n fs) = true) :
    ∃ root0, newRoot (mappingFields o fs).toList = .ok root0 ∧ room root0 = 2147483647 := by
  simp only [frag, Bool.and_eq_true, Bool.not_eq_true'] at hf
  obtain ⟨bl, hbl, hnames, hr⟩ := newFields_traced o fs hf.2 "$"
  obtain ⟨b, hb, hu, hk⟩ := mkStruct_ok "$" bl false (by rw [hnames]; exact hf.1) hr
  refine ⟨b, by simp only [newRoot, fields_ofList_toList, hbl, bind, Except.bind]; exact hb, ?_⟩
  rw [room_eq, hu, hk]; rfl

end SaModel.Roundtrip
