import SaModel.Lemmas.C04Schema
import SaModel.Lemmas.C01CompSmall
import SaModel.Lemmas.C04Scope
/-
C04, acceptance half ("the schema traced from the type accepts every value of that type"): the schema-level facts the
completeness theorems of C01 (`runRows_complete'` / `toMarrow_complete'`, `Props/C01CompleteObs.lean`) ask for, for traced
schemas of the grammar `fragE` (enums included).

  mapping_total : sized t → mappingDT o t = (dt, nb, md) → (∀ n, total dt n md) ∧ defOK dt md   (C01's non-capacity exclusion
                  never applies: the traced schema of a type whose enums have 1 … 128 variants has no UnknownVariant
                  placeholder, and the first variant of every union takes `serialize_default`)
  newDT_traced  : fragE t → mappingDT o t = (dt, nb, md) → ∃ b, newDT path dt nl md = ok b ∧ FullRoom b (the fresh builder has
                  the full head room: no offsets yet, 2^32 free dictionary keys);  newRoot_traced: `room root0 = 2^31 - 1`
-/
namespace SaModel.Roundtrip
open SaModel SaModel.Spec SaModel.Build

theorem total_prim (o : TraceOpts) (p : Prim) (n : Bool) (md : Metadata) :
    total (primDT o p) n md = true ∧ defOK (primDT o p) md = true := by
  cases p with
  | int t => cases t <;> simp [primDT, intDT, total, defOK]
  | str | strRef | cowStr => simp only [primDT, strDT]; split <;> (try split) <;> simp [total, defOK]
  | _ => simp [primDT, total, defOK]

mutual
/-- an enum-free type is `sized` (no enum to bound): `noEnum` implies the hypothesis of `mapping_total` -/
theorem noEnum_sized : ∀ (t : Ty), noEnum t = true → sized t = true
  | .prim _, _ | .unit, _ | .unitStruct _, _ => by simp [sized]
  | .option t, h | .newtype _ t, h | .vec t, h => by
    simp only [noEnum] at h; simpa [sized] using noEnum_sized t h
  | .map k v, h => by
    simp only [noEnum, Bool.and_eq_true] at h
    simp [sized, noEnum_sized k h.1, noEnum_sized v h.2]
  | .struct _ fs, h => by
    simp only [noEnum] at h
    simpa [sized] using noEnumFields_sized fs h
  | .tuple ts, h | .tupleStruct _ ts, h => by
    simp only [noEnum] at h
    simpa [sized] using noEnumTys_sized ts h
  | .enum _ _, h => by simp [noEnum] at h
theorem noEnumTys_sized : ∀ (ts : Tys), noEnumTys ts = true → sizedTys ts = true
  | .nil, _ => by simp [sizedTys]
  | .cons t r, h => by
    simp only [noEnumTys, Bool.and_eq_true] at h
    simp [sizedTys, noEnum_sized t h.1, noEnumTys_sized r h.2]
theorem noEnumFields_sized : ∀ (fs : TFields), noEnumFields fs = true → sizedFields fs = true
  | .nil, _ => by simp [sizedFields]
  | .cons _ _ t r, h => by
    simp only [noEnumFields, Bool.and_eq_true] at h
    simp [sizedFields, noEnum_sized t h.1, noEnumFields_sized r h.2]
end

theorem total_strDT (o : TraceOpts) (n : Bool) (md : Metadata) :
    total (.dictionary .uint32 (strDT o)) n md = true ∧ defOK (.dictionary .uint32 (strDT o)) md = true := by
  simp [total, defOK]

mutual
theorem mapping_total (o : TraceOpts) : ∀ (t : Ty) (dt : DataType) (nb : Bool) (md : Metadata),
    sized t = true → mappingDT o t = (dt, nb, md) → (∀ n, total dt n md = true) ∧ defOK dt md = true
  | .prim p, dt, nb, md, _, hm => by
    simp only [mappingDT, Prod.mk.injEq] at hm; obtain ⟨rfl, rfl, rfl⟩ := hm
    exact ⟨fun n => (total_prim o p n []).1, (total_prim o p false []).2⟩
  | .unit, dt, nb, md, _, hm => by
    simp only [mappingDT, Prod.mk.injEq] at hm; obtain ⟨rfl, rfl, rfl⟩ := hm
    simp [total, defOK, isUnknownVariant, strategyOf_nil]
  | .unitStruct _, dt, nb, md, _, hm => by
    simp only [mappingDT, Prod.mk.injEq] at hm; obtain ⟨rfl, rfl, rfl⟩ := hm
    simp [total, defOK, isUnknownVariant, strategyOf_nil]
  | .option t, dt, nb, md, hn, hm => by
    rcases hm' : mappingDT o t with ⟨dt', nb', md'⟩
    simp only [mappingDT, hm', Prod.mk.injEq] at hm; obtain ⟨rfl, rfl, rfl⟩ := hm
    exact mapping_total o t _ _ _ (by simpa [sized] using hn) hm'
  | .newtype _ t, dt, nb, md, hn, hm => by
    simp only [mappingDT] at hm
    exact mapping_total o t _ _ _ (by simpa [sized] using hn) hm
  | .vec t, dt, nb, md, hn, hm => by
    rcases hm' : mappingDT o t with ⟨dt', nb', md'⟩
    simp only [mappingDT, hm', Prod.mk.injEq] at hm; obtain ⟨rfl, rfl, rfl⟩ := hm
    have ih := mapping_total o t _ _ _ (by simpa [sized] using hn) hm'
    split <;> simp [total, totalF, defOK, ih.1]
  | .tuple ts, dt, nb, md, hn, hm => by
    simp only [mappingDT, Prod.mk.injEq] at hm; obtain ⟨rfl, rfl, rfl⟩ := hm
    have ih := mappingPos_total o ts 0 (by simpa [sized] using hn)
    simp [total, defOK, ih.1, ih.2]
  | .tupleStruct _ ts, dt, nb, md, hn, hm => by
    simp only [mappingDT, Prod.mk.injEq] at hm; obtain ⟨rfl, rfl, rfl⟩ := hm
    have ih := mappingPos_total o ts 0 (by simpa [sized] using hn)
    simp [total, defOK, ih.1, ih.2]
  | .struct _ fs, dt, nb, md, hn, hm => by
    simp only [mappingDT, Prod.mk.injEq] at hm; obtain ⟨rfl, rfl, rfl⟩ := hm
    have ih := mappingFields_total o fs (by simpa [sized] using hn)
    simp [total, defOK, ih.1, ih.2]
  | .map k v, dt, nb, md, hn, hm => by
    rcases hk : mappingDT o k with ⟨kdt, knb, kmd⟩
    rcases hv : mappingDT o v with ⟨vdt, vnb, vmd⟩
    simp only [mappingDT, hk, hv, Prod.mk.injEq] at hm; obtain ⟨rfl, rfl, rfl⟩ := hm
    simp only [sized, Bool.and_eq_true] at hn
    have ihk := mapping_total o k _ _ _ hn.1 hk
    have ihv := mapping_total o v _ _ _ hn.2 hv
    simp [total, totalF, defOK, ihk.1, ihv.1]
  | .enum _ vars, dt, nb, md, hn, hm => by
    simp only [sized, Bool.and_eq_true, decide_eq_true_eq] at hn
    simp only [mappingDT] at hm
    split at hm
    · simp only [Prod.mk.injEq] at hm; obtain ⟨rfl, rfl, rfl⟩ := hm
      exact ⟨fun n => (total_strDT o n []).1, (total_strDT o false []).2⟩
    · simp only [Prod.mk.injEq] at hm; obtain ⟨rfl, rfl, rfl⟩ := hm
      obtain ⟨ht, hl, hd⟩ := mappingVariants_total o vars 0 hn.2
      simp [total, defOK, ht, hl, hn.1.2, hd hn.1.1]
theorem mappingPos_total (o : TraceOpts) : ∀ (ts : Tys) (i : Nat), sizedTys ts = true →
    totalFs (mappingPos o i ts) = true ∧ defOKFs (mappingPos o i ts) = true
  | .nil, _, _ => by simp [mappingPos, totalFs, defOKFs]
  | .cons t r, i, hn => by
    simp only [sizedTys, Bool.and_eq_true] at hn
    rcases hm : mappingDT o t with ⟨dt, nb, md⟩
    have h1 := mapping_total o t _ _ _ hn.1 hm
    have h2 := mappingPos_total o r (i + 1) hn.2
    simp [mappingPos, hm, totalFs, totalF, defOKFs, defOKF, h1.1, h1.2, h2.1, h2.2]
theorem mappingFields_total (o : TraceOpts) : ∀ (fs : TFields), sizedFields fs = true →
    totalFs (mappingFields o fs) = true ∧ defOKFs (mappingFields o fs) = true
  | .nil, _ => by simp [mappingFields, totalFs, defOKFs]
  | .cons n s t r, hn => by
    simp only [sizedFields, Bool.and_eq_true] at hn
    rcases hm : mappingDT o t with ⟨dt, nb, md⟩
    have h1 := mapping_total o t _ _ _ hn.1 hm
    have h2 := mappingFields_total o r hn.2
    simp [mappingFields, hm, totalFs, totalF, defOKFs, defOKF, h1.1, h1.2, h2.1, h2.2]
/-- the children of the Union an enum is traced to: every child is `total`, there are as many children as variants, and
`serialize_default` goes through the FIRST child (no child is an `UnknownVariant` placeholder), which supports it -/
theorem mappingVariants_total (o : TraceOpts) : ∀ (vars : Variants) (i : Nat), sizedVariants vars = true →
    totalUs (mappingVariants o i vars) = true ∧ UFields.length (mappingVariants o i vars) = vars.length ∧
      (1 ≤ vars.length → defOKFirst (mappingVariants o i vars) = true)
  | .nil, _, _ => by simp [mappingVariants, totalUs, UFields.length, Variants.length]
  | .cons vn .unit r, i, hn => by
    simp only [sizedVariants, sizedVariant, Bool.and_eq_true] at hn
    obtain ⟨h2, hl, _⟩ := mappingVariants_total o r (i + 1) hn.2
    simp [mappingVariants, totalUs, totalF, total, UFields.length, Variants.length, defOKFirst, isPlaceholderF, defOKF,
      defOK, isUnknownVariant_nil, h2, hl]
  | .cons vn (.newtype t) r, i, hn => by
    simp only [sizedVariants, sizedVariant, Bool.and_eq_true] at hn
    rcases hm : mappingDT o t with ⟨dt, nb, md⟩
    have h1 := mapping_total o t _ _ _ hn.1 hm
    have hu := unknown_mapping o t _ _ _ hm
    obtain ⟨h2, hl, _⟩ := mappingVariants_total o r (i + 1) hn.2
    simp [mappingVariants, hm, totalUs, totalF, UFields.length, Variants.length, defOKFirst, isPlaceholderF, defOKF,
      hu, h1.1, h1.2, h2, hl]
  | .cons vn (.tuple ts) r, i, hn => by
    simp only [sizedVariants, sizedVariant, Bool.and_eq_true] at hn
    have h1 := mappingPos_total o ts 0 hn.1
    obtain ⟨h2, hl, _⟩ := mappingVariants_total o r (i + 1) hn.2
    simp [mappingVariants, totalUs, totalF, total, UFields.length, Variants.length, defOKFirst, isPlaceholderF, defOKF,
      defOK, isUnknownVariant_struct, h1.1, h1.2, h2, hl]
  | .cons vn (.struct fs) r, i, hn => by
    simp only [sizedVariants, sizedVariant, Bool.and_eq_true] at hn
    have h1 := mappingFields_total o fs hn.1
    obtain ⟨h2, hl, _⟩ := mappingVariants_total o r (i + 1) hn.2
    simp [mappingVariants, totalUs, totalF, total, UFields.length, Variants.length, defOKFirst, isPlaceholderF, defOKF,
      defOK, isUnknownVariant_struct, h1.1, h1.2, h2, hl]
end

/-! ### `build_builder` accepts a traced schema; the fresh builder has the full head room -/

/-- no counter used yet, every dictionary has at least `2^31 - 1` free keys -/
def FullRoom (b : B) : Prop := used b = 0 ∧ keysRoom b = LIM
def FullRoomL (bl : BL) : Prop := usedL bl = 0 ∧ keysRoomL bl = LIM

theorem lastNat_zero : lastNat [0] = 0 := rfl

theorem newDT_prim (o : TraceOpts) (p : Prim) (path : String) (nl : Bool) (md : Metadata) :
    ∃ b, newDT path (primDT o p) nl md = .ok b ∧ FullRoom b := by
  cases p with
  | int t => cases t <;> exact ⟨_, rfl, rfl, rfl⟩
  | str | strRef | cowStr =>
    simp only [primDT, strDT]
    by_cases hd : o.stringDictionaryEncoding = true <;> by_cases hl : o.stringsAsLargeUtf8 = true <;>
      simp only [hd, hl, if_true, if_false, Bool.false_eq_true]
    · exact ⟨_, rfl, rfl, by simp [keysRoom, keyRoom, IntTy.max, LIM]⟩
    · exact ⟨_, rfl, rfl, by simp [keysRoom, keyRoom, IntTy.max, LIM]⟩
    · exact ⟨_, rfl, rfl, rfl⟩
    · exact ⟨_, rfl, rfl, rfl⟩
  | _ => exact ⟨_, rfl, rfl, rfl⟩

theorem mkStruct_ok (path : String) (bl : BL) (nl : Bool) (hd : hasDup bl.names = false) (hr : FullRoomL bl) :
    ∃ b, mkStruct path bl nl = .ok b ∧ FullRoom b := by
  refine ⟨.struct path 0 (newValidity nl) bl (List.replicate bl.length none) 0 (List.replicate bl.length false),
    by simp [mkStruct, hd], ?_⟩
  exact ⟨by simpa [used] using hr.1, by simpa [keysRoom] using hr.2⟩

theorem newDT_strDict (o : TraceOpts) (path : String) (nl : Bool) (md : Metadata) :
    ∃ b, newDT path (.dictionary .uint32 (strDT o)) nl md = .ok b ∧ FullRoom b := by
  simp only [strDT]
  by_cases hl : o.stringsAsLargeUtf8 = true <;> simp only [hl, if_true, if_false, Bool.false_eq_true]
  · exact ⟨_, rfl, rfl, by simp [keysRoom, keyRoom, IntTy.max, LIM]⟩
  · exact ⟨_, rfl, rfl, by simp [keysRoom, keyRoom, IntTy.max, LIM]⟩

/-- `UnionBuilder::new`: the fresh Union builder over fresh children has the full head room -/
theorem mkUnion_full (path : String) (bl : BL) (hr : FullRoomL bl) :
    FullRoom (.union path bl [] [] (List.replicate bl.length 0)) :=
  ⟨by simpa [used, curUsed_zeros] using hr.1, by simpa [keysRoom] using hr.2⟩

mutual
theorem newDT_traced (o : TraceOpts) : ∀ (t : Ty) (dt : DataType) (nb : Bool) (md : Metadata),
    fragE t = true → mappingDT o t = (dt, nb, md) → ∀ (path : String) (nl : Bool), ∃ b, newDT path dt nl md = .ok b ∧ FullRoom b
  | .prim p, dt, nb, md, _, hm, path, nl => by
    simp only [mappingDT, Prod.mk.injEq] at hm; obtain ⟨rfl, rfl, rfl⟩ := hm; exact newDT_prim o p path nl []
  | .unit, dt, nb, md, _, hm, path, nl => by
    simp only [mappingDT, Prod.mk.injEq] at hm; obtain ⟨rfl, rfl, rfl⟩ := hm
    exact ⟨.null path 0, by simp [newDT, strategyOf_nil], rfl, rfl⟩
  | .unitStruct _, dt, nb, md, _, hm, path, nl => by
    simp only [mappingDT, Prod.mk.injEq] at hm; obtain ⟨rfl, rfl, rfl⟩ := hm
    exact ⟨.null path 0, by simp [newDT, strategyOf_nil], rfl, rfl⟩
  | .option t, dt, nb, md, hf, hm, path, nl => by
    rcases hm' : mappingDT o t with ⟨dt', nb', md'⟩
    simp only [mappingDT, hm', Prod.mk.injEq] at hm; obtain ⟨rfl, rfl, rfl⟩ := hm
    exact newDT_traced o t _ _ _ (by simpa [fragE] using hf) hm' path nl
  | .newtype _ t, dt, nb, md, hf, hm, path, nl => by
    simp only [mappingDT] at hm
    exact newDT_traced o t _ _ _ (by simpa [fragE] using hf) hm path nl
  | .vec t, dt, nb, md, hf, hm, path, nl => by
    rcases hm' : mappingDT o t with ⟨dt', nb', md'⟩
    simp only [mappingDT, hm', Prod.mk.injEq] at hm; obtain ⟨rfl, rfl, rfl⟩ := hm
    obtain ⟨el, hel, hu, hk⟩ := newDT_traced o t _ _ _ (by simpa [fragE] using hf) hm' (path ++ "." ++ childName "element") nb'
    by_cases hl : o.sequenceAsLargeList = true
    · refine ⟨_, by simp only [hl, if_true, newDT, newB, Field.name, hel, bind, Except.bind, pure, Except.pure]; rfl, ?_, ?_⟩
      · simp [used, lastNat_zero, hu]
      · simp [keysRoom, hk]
    · refine ⟨_, by simp only [hl, if_false, Bool.false_eq_true, newDT, newB, Field.name, hel, bind, Except.bind, pure, Except.pure]; rfl, ?_, ?_⟩
      · simp [used, lastNat_zero, hu]
      · simp [keysRoom, hk]
  | .tuple ts, dt, nb, md, hf, hm, path, nl => by
    simp only [mappingDT, Prod.mk.injEq] at hm; obtain ⟨rfl, rfl, rfl⟩ := hm
    obtain ⟨bl, hbl, hnames, hr⟩ := newPos_traced o ts 0 (by simpa [fragE] using hf) path
    obtain ⟨b, hb, hfr⟩ := mkStruct_ok path bl nl (by rw [hnames]; exact hasDup_posNames _ _) hr
    exact ⟨b, by simp only [newDT, hbl, bind, Except.bind]; exact hb, hfr⟩
  | .tupleStruct _ ts, dt, nb, md, hf, hm, path, nl => by
    simp only [mappingDT, Prod.mk.injEq] at hm; obtain ⟨rfl, rfl, rfl⟩ := hm
    obtain ⟨bl, hbl, hnames, hr⟩ := newPos_traced o ts 0 (by simpa [fragE] using hf) path
    obtain ⟨b, hb, hfr⟩ := mkStruct_ok path bl nl (by rw [hnames]; exact hasDup_posNames _ _) hr
    exact ⟨b, by simp only [newDT, hbl, bind, Except.bind]; exact hb, hfr⟩
  | .struct _ fs, dt, nb, md, hf, hm, path, nl => by
    simp only [mappingDT, Prod.mk.injEq] at hm; obtain ⟨rfl, rfl, rfl⟩ := hm
    simp only [fragE, Bool.and_eq_true, Bool.not_eq_true'] at hf
    obtain ⟨bl, hbl, hnames, hr⟩ := newFields_traced o fs hf.2 path
    obtain ⟨b, hb, hfr⟩ := mkStruct_ok path bl nl (by rw [hnames]; exact hf.1) hr
    exact ⟨b, by simp only [newDT, hbl, bind, Except.bind]; exact hb, hfr⟩
  | .map k v, dt, nb, md, hf, hm, path, nl => by
    rcases hk : mappingDT o k with ⟨kdt, knb, kmd⟩
    rcases hv : mappingDT o v with ⟨vdt, vnb, vmd⟩
    simp only [mappingDT, hk, hv, Prod.mk.injEq] at hm; obtain ⟨rfl, rfl, rfl⟩ := hm
    simp only [fragE, Bool.and_eq_true] at hf
    obtain ⟨kb, hkb, hku, hkk⟩ := newDT_traced o k _ _ _ hf.1 hk (path ++ "." ++ childName "entries" ++ "." ++ childName "key") knb
    obtain ⟨vb, hvb, hvu, hvk⟩ := newDT_traced o v _ _ _ hf.2 hv (path ++ "." ++ childName "entries" ++ "." ++ childName "value") vnb
    refine ⟨_, by simp only [newDT, newB, Field.name, hkb, hvb, bind, Except.bind, pure, Except.pure]; rfl, ?_, ?_⟩
    · simp [used, lastNat_zero, hku, hvu]
    · simp [keysRoom, hkk, hvk]
  | .enum _ vars, dt, nb, md, hf, hm, path, nl => by
    simp only [fragE, Bool.and_eq_true] at hf
    simp only [mappingDT] at hm
    split at hm
    · simp only [Prod.mk.injEq] at hm; obtain ⟨rfl, rfl, rfl⟩ := hm
      exact newDT_strDict o path nl []
    · simp only [Prod.mk.injEq] at hm; obtain ⟨rfl, rfl, rfl⟩ := hm
      obtain ⟨bl, hbl, hr⟩ := newVariants_traced o vars 0 hf.2 path
      exact ⟨_, by simp only [newDT, hbl, bind, Except.bind, pure, Except.pure], mkUnion_full path bl hr⟩
theorem newPos_traced (o : TraceOpts) : ∀ (ts : Tys) (i : Nat), fragETys ts = true → ∀ (path : String),
    ∃ bl, newFields path (mappingPos o i ts) = .ok bl ∧ bl.names = posNames i ts.length ∧ FullRoomL bl
  | .nil, _, _, _ => ⟨.nil, rfl, rfl, rfl, rfl⟩
  | .cons t r, i, hf, path => by
    simp only [fragETys, Bool.and_eq_true] at hf
    rcases hm : mappingDT o t with ⟨dt, nb, md⟩
    obtain ⟨b, hb, hu, hk⟩ := newDT_traced o t _ _ _ hf.1 hm (path ++ "." ++ posName i) nb
    obtain ⟨bl, hbl, hnames, hru, hrk⟩ := newPos_traced o r (i + 1) hf.2 path
    refine ⟨_, by simp only [mappingPos, hm, newFields, newB, Field.name, hb, hbl, bind, Except.bind, pure, Except.pure]; rfl, ?_, ?_, ?_⟩
    · simp [BL.names, metaOfField, hnames, Tys.length, posNames]
    · simp [usedL, hu, hru]
    · simp [keysRoomL, hk, hrk]
theorem newFields_traced (o : TraceOpts) : ∀ (fs : TFields), fragEFields fs = true → ∀ (path : String),
    ∃ bl, newFields path (mappingFields o fs) = .ok bl ∧ bl.names = fs.names ∧ FullRoomL bl
  | .nil, _, _ => ⟨.nil, rfl, rfl, rfl, rfl⟩
  | .cons n s t r, hf, path => by
    simp only [fragEFields, Bool.and_eq_true] at hf
    rcases hm : mappingDT o t with ⟨dt, nb, md⟩
    obtain ⟨b, hb, hu, hk⟩ := newDT_traced o t _ _ _ hf.1.1 hm (path ++ "." ++ n) nb
    obtain ⟨bl, hbl, hnames, hru, hrk⟩ := newFields_traced o r hf.2 path
    refine ⟨_, by simp only [mappingFields, hm, newFields, newB, Field.name, hb, hbl, bind, Except.bind, pure, Except.pure]; rfl, ?_, ?_, ?_⟩
    · simp [BL.names, metaOfField, hnames, TFields.names]
    · simp [usedL, hu, hru]
    · simp [keysRoomL, hk, hrk]
/-- `build_builder` accepts the children of the Union an enum is traced to: the type ids `mappingVariants o i` gives are
the consecutive numbers from `i`, exactly what `newUnionFields … i` demands -/
theorem newVariants_traced (o : TraceOpts) : ∀ (vars : Variants) (i : Nat), fragEVariants vars = true → ∀ (path : String),
    ∃ bl, newUnionFields path (mappingVariants o i vars) i = .ok bl ∧ FullRoomL bl
  | .nil, _, _, _ => ⟨.nil, rfl, rfl, rfl⟩
  | .cons vn .unit r, i, hf, path => by
    simp only [fragEVariants, fragEVariant, Bool.and_eq_true] at hf
    obtain ⟨bl, hbl, hru, hrk⟩ := newVariants_traced o r (i + 1) hf.2 path
    refine ⟨.cons (.null (path ++ "." ++ childName vn) 0) _ bl, by
      simp only [mappingVariants, newUnionFields, newB, newDT, strategyOf_nil, Field.name, hbl, bind, Except.bind, pure,
        Except.pure, bne_self_eq_false, Bool.false_eq_true, if_false]; rfl, ?_, ?_⟩
    · simp [usedL, used, hru]
    · simp [keysRoomL, keysRoom, hrk]
  | .cons vn (.newtype t) r, i, hf, path => by
    simp only [fragEVariants, fragEVariant, Bool.and_eq_true] at hf
    rcases hm : mappingDT o t with ⟨dt, nb, md⟩
    obtain ⟨b, hb, hu, hk⟩ := newDT_traced o t _ _ _ hf.1 hm (path ++ "." ++ childName vn) nb
    obtain ⟨bl, hbl, hru, hrk⟩ := newVariants_traced o r (i + 1) hf.2 path
    refine ⟨.cons b _ bl, by
      simp only [mappingVariants, hm, newUnionFields, newB, Field.name, hb, hbl, bind, Except.bind, pure,
        Except.pure, bne_self_eq_false, Bool.false_eq_true, if_false]; rfl, ?_, ?_⟩
    · simp [usedL, hu, hru]
    · simp [keysRoomL, hk, hrk]
  | .cons vn (.tuple ts) r, i, hf, path => by
    simp only [fragEVariants, fragEVariant, Bool.and_eq_true] at hf
    obtain ⟨cl, hcl, hnames, hr⟩ := newPos_traced o ts 0 hf.1 (path ++ "." ++ childName vn)
    obtain ⟨b, hb, hu, hk⟩ := mkStruct_ok (path ++ "." ++ childName vn) cl false (by rw [hnames]; exact hasDup_posNames _ _) hr
    obtain ⟨bl, hbl, hru, hrk⟩ := newVariants_traced o r (i + 1) hf.2 path
    refine ⟨.cons b _ bl, by
      simp only [mappingVariants, newUnionFields, newB, newDT, Field.name, hcl, hb, hbl, bind, Except.bind, pure,
        Except.pure, bne_self_eq_false, Bool.false_eq_true, if_false]; rfl, ?_, ?_⟩
    · simp [usedL, hu, hru]
    · simp [keysRoomL, hk, hrk]
  | .cons vn (.struct fs) r, i, hf, path => by
    simp only [fragEVariants, fragEVariant, Bool.and_eq_true, Bool.not_eq_true'] at hf
    obtain ⟨cl, hcl, hnames, hr⟩ := newFields_traced o fs hf.1.2 (path ++ "." ++ childName vn)
    obtain ⟨b, hb, hu, hk⟩ := mkStruct_ok (path ++ "." ++ childName vn) cl false (by rw [hnames]; exact hf.1.1) hr
    obtain ⟨bl, hbl, hru, hrk⟩ := newVariants_traced o r (i + 1) hf.2 path
    refine ⟨.cons b _ bl, by
      simp only [mappingVariants, newUnionFields, newB, newDT, Field.name, hcl, hb, hbl, bind, Except.bind, pure,
        Except.pure, bne_self_eq_false, Bool.false_eq_true, if_false]; rfl, ?_, ?_⟩
    · simp [usedL, hu, hru]
    · simp [keysRoomL, hk, hrk]
end

theorem fields_ofList_toList : ∀ (l : Fields), Fields.ofList l.toList = l
  | .nil => rfl
  | .cons f r => by simp [Fields.toList, Fields.ofList, fields_ofList_toList r]

/-- **`ArrayBuilder::new` accepts the schema traced from a record type of the fragment**; the fresh root has the full
head room `2^31 - 1` -/
theorem newRoot_traced (o : TraceOpts) (n : String) (fs : TFields) (hf : fragE (.struct n fs) = true) :
    ∃ root0, newRoot (mappingFields o fs).toList = .ok root0 ∧ room root0 = 2147483647 := by
  simp only [fragE, Bool.and_eq_true, Bool.not_eq_true'] at hf
  obtain ⟨bl, hbl, hnames, hr⟩ := newFields_traced o fs hf.2 "$"
  obtain ⟨b, hb, hu, hk⟩ := mkStruct_ok "$" bl false (by rw [hnames]; exact hf.1) hr
  refine ⟨b, by simp only [newRoot, fields_ofList_toList, hbl, bind, Except.bind]; exact hb, ?_⟩
  rw [room_eq, hu, hk]; rfl

end SaModel.Roundtrip
