import SaModel.Roundtrip.Types
/-
C04 helper: the UTF-8 bytes of a string determine the string (`unserStr ∘ strBytes = some`).
`ByteArray.toList` is defined by an index loop in core; `toList_eq` relates it to the underlying array.
-/
namespace SaModel.Roundtrip

theorem ByteArray.size_eq' (bs : ByteArray) : bs.size = bs.data.toList.length := by
  cases bs; simp [ByteArray.size]

theorem ByteArray.get!_eq' (bs : ByteArray) (i : Nat) (h : i < bs.data.toList.length) :
    bs.get! i = bs.data.toList[i] := by
  cases bs with | mk d =>
  show d[i]! = d.toList[i]
  have h' : i < d.size := by simpa using h
  rw [getElem!_pos d i h']; simp

theorem ByteArray.toList_loop_eq (bs : ByteArray) : ∀ (k i : Nat) (r : List UInt8), bs.size - i = k →
    ByteArray.toList.loop bs i r = r.reverse ++ bs.data.toList.drop i := by
  intro k
  induction k with
  | zero =>
    intro i r h
    unfold ByteArray.toList.loop
    have : ¬ i < bs.size := by omega
    simp only [this, if_false]
    have h2 : bs.data.toList.length ≤ i := by rw [← ByteArray.size_eq']; omega
    rw [List.drop_eq_nil_of_le h2]; simp
  | succ k ih =>
    intro i r h
    unfold ByteArray.toList.loop
    have hi : i < bs.size := by omega
    simp only [hi, if_true]
    rw [ih (i+1) _ (by omega)]
    have hlen : i < bs.data.toList.length := by rw [← ByteArray.size_eq']; exact hi
    rw [List.drop_eq_getElem_cons hlen, ByteArray.get!_eq' bs i hlen]
    simp

theorem ByteArray.toList_eq (bs : ByteArray) : bs.toList = bs.data.toList := by
  unfold ByteArray.toList
  rw [ByteArray.toList_loop_eq bs _ 0 [] rfl]; simp

theorem ByteArray.toByteArray_toList (bs : ByteArray) : bs.toList.toByteArray = bs := by
  rw [ByteArray.toList_eq]
  apply ByteArray.ext
  apply Array.toList_inj.mp
  rw [List.toList_data_toByteArray]

theorem fromUTF8?_toUTF8 (s : String) : String.fromUTF8? s.toUTF8 = some s := by
  unfold String.fromUTF8?
  split
  · rfl
  · rename_i h; exact absurd s.isValidUTF8 h

/-- the bytes a string column stores determine the string -/
theorem unserStr_toUTF8 (s : String) : unserStr s.toUTF8.toList = some s := by
  unfold unserStr; rw [ByteArray.toByteArray_toList, fromUTF8?_toUTF8]

theorem unserStr_toByteArray (s : String) : unserStr s.toByteArray.toList = some s := unserStr_toUTF8 s

end SaModel.Roundtrip
