import SaModel.Roundtrip.Bridge
import SaModel.Lemmas.C04Interp
import SaModel.Spec.WF
/-
C04: reading the logical value of a typed value back at its own type.

  cast_lvO : fragE t → wt t v → inScopeU o t v → strOK o t v → mappingDT o t = (dt, nb, md) → Spec.wf dt nl a →
             Read.cast (toTarget t) a (lvO o t v) = must (dvalOf t (norm t v))            (Lemmas/C04CastLv.lean)

`Read.cast` is the value-level specification of typed reads that `Props.C02.read_typed_decode` proves the reader model
against; `a` is any well-formed array of the traced field (only its type skeleton is used).
-/
namespace SaModel.Roundtrip
open SaModel SaModel.Spec SaModel.Build

/-! ### the type skeleton of a well-formed array -/

theorem wf_null {nl : Bool} {a : Arr} (h : Spec.wf .null nl a = true) : ∃ len, a = .null len := by
  cases a <;> try (simp [Spec.wf] at h)
  case null len => exact ⟨len, rfl⟩
  case prim ty v vals => cases ty <;> simp [primMatches] at h

theorem wf_boolean {nl : Bool} {a : Arr} (h : Spec.wf .boolean nl a = true) : ∃ len v vals, a = .boolean len v vals := by
  cases a <;> try (simp [Spec.wf] at h)
  case boolean len v vals => exact ⟨len, v, vals, rfl⟩
  case prim ty v vals => cases ty <;> simp [primMatches] at h

theorem wf_int {nl : Bool} {a : Arr} (t : IntTy) (h : Spec.wf (intDT t) nl a = true) :
    ∃ ty v vals, a = .prim ty v vals ∧ Read.isIntPrim ty = true := by
  cases t <;> cases a <;> try (simp [Spec.wf, intDT] at h)
  all_goals (
    rename_i ty v vals
    refine ⟨ty, v, vals, rfl, ?_⟩
    cases ty <;> first | rfl | simp [primMatches] at h)

theorem wf_float32 {nl : Bool} {a : Arr} (h : Spec.wf .float32 nl a = true) : ∃ v vals, a = .prim .float32 v vals := by
  cases a <;> try (simp [Spec.wf] at h)
  case prim ty v vals => cases ty <;> first | exact ⟨v, vals, rfl⟩ | simp [primMatches] at h

theorem wf_float64 {nl : Bool} {a : Arr} (h : Spec.wf .float64 nl a = true) : ∃ v vals, a = .prim .float64 v vals := by
  cases a <;> try (simp [Spec.wf] at h)
  case prim ty v vals => cases ty <;> first | exact ⟨v, vals, rfl⟩ | simp [primMatches] at h

theorem wf_list {nl : Bool} {a : Arr} {f : Field} (h : Spec.wf (.list f) nl a = true) :
    ∃ v offs fm el, a = .list false v offs fm el ∧ Spec.metaMatches fm f = true ∧ Spec.wf f.dataType f.nullable el = true := by
  cases a <;> try (simp [Spec.wf] at h)
  case list lg v offs fm el =>
    cases lg <;> simp [Spec.wf] at h
    exact ⟨v, offs, fm, el, rfl, h.1.1.2, h.2⟩
  case prim ty v vals => cases ty <;> simp [primMatches] at h

theorem wf_largeList {nl : Bool} {a : Arr} {f : Field} (h : Spec.wf (.largeList f) nl a = true) :
    ∃ v offs fm el, a = .list true v offs fm el ∧ Spec.metaMatches fm f = true ∧ Spec.wf f.dataType f.nullable el = true := by
  cases a <;> try (simp [Spec.wf] at h)
  case list lg v offs fm el =>
    cases lg <;> simp [Spec.wf] at h
    exact ⟨v, offs, fm, el, rfl, h.1.1.2, h.2⟩
  case prim ty v vals => cases ty <;> simp [primMatches] at h

theorem wf_struct {nl : Bool} {a : Arr} {fs : Fields} (h : Spec.wf (.struct fs) nl a = true) :
    ∃ len v cols, a = .struct len v cols ∧ Spec.validityOk nl v len = true ∧ Spec.wfFields fs cols len = true := by
  cases a <;> try (simp [Spec.wf] at h)
  case struct len v cols => exact ⟨len, v, cols, rfl, h.1, h.2⟩
  case prim ty v vals => cases ty <;> simp [primMatches] at h

theorem wf_map {nl : Bool} {a : Arr} {en : String} {kf vf : Field} {enl : Bool} {emd : Metadata} {sorted : Bool}
    (h : Spec.wf (.map (.mk en (.struct (.cons kf (.cons vf .nil))) enl emd) sorted) nl a = true) :
    ∃ v offs mm ks vs, a = .map v offs mm ks vs ∧ Spec.metaMatches mm.keys kf = true ∧ Spec.metaMatches mm.values vf = true ∧
      Spec.wf kf.dataType kf.nullable ks = true ∧ Spec.wf vf.dataType vf.nullable vs = true := by
  cases a <;> try (simp [Spec.wf] at h)
  case map v offs mm ks vs => exact ⟨v, offs, mm, ks, vs, rfl, h.1.1.1.1.1.2, h.1.1.1.1.2, h.1.2, h.2⟩
  case prim ty v vals => cases ty <;> simp [primMatches] at h

/-! ### scalars -/

theorem norm_prim (p : Prim) (v : Val) : norm (.prim p) v = v := by
  cases v <;> simp [norm]

theorem cast_prim (o : TraceOpts) (p : Prim) (v : Val) (a : Arr) (nl : Bool) (hw : p.wt v = true)
    (hwf : Spec.wf (primDT o p) nl a = true) :
    Read.cast (primTarget p) a (lv (.prim p) v) = Read.must (dvalOf (.prim p) v) := by
  cases p with
  | bool =>
    cases v <;> simp [Prim.wt] at hw
    obtain ⟨len, vv, vals, rfl⟩ := wf_boolean hwf
    simp [primTarget, lv, dvalOf, Read.cast, Read.castScalar, Read.castLeaf, Read.ofLeaf]
  | int t =>
    cases v <;> simp [Prim.wt] at hw
    obtain ⟨ty, vv, vals, rfl, hty⟩ := wf_int t hwf
    simp [primTarget, lv, dvalOf, Read.cast, Read.castScalar, Read.castLeaf, Read.ofLeaf, hty, hw]
  | f32 =>
    cases v <;> simp [Prim.wt] at hw
    obtain ⟨vv, vals, rfl⟩ := wf_float32 hwf
    simp [primTarget, lv, dvalOf, Read.cast, Read.castScalar, Read.castLeaf, Read.ofLeaf]
  | f64 =>
    cases v <;> simp [Prim.wt] at hw
    obtain ⟨vv, vals, rfl⟩ := wf_float64 hwf
    simp [primTarget, lv, dvalOf, Read.cast, Read.castScalar, Read.castLeaf, Read.ofLeaf]
  | char =>
    cases v <;> simp [Prim.wt] at hw
    rename_i c
    obtain ⟨ty, vv, vals, rfl, hty⟩ := wf_int .u32 hwf
    have hr : IntTy.u32.inRange (c : Int) = true := by
      have h1 : (c : Int) ≤ 4294967295 := by omega
      simp [IntTy.inRange, IntTy.min, IntTy.max, h1]
    have hs : Read.isScalarValue c = true := by
      simp [Read.isScalarValue]; omega
    simp [primTarget, lv, dvalOf, Read.cast, Read.castScalar, Read.castLeaf, Read.ofLeaf, hty, hr, hs]
  | str =>
    cases v <;> simp [Prim.wt] at hw
    simp [primTarget, lv, dvalOf, Read.cast, Read.castScalar, Read.castLeaf, Read.ofLeaf, Read.strBytes]
  | bytes =>
    cases v <;> simp [Prim.wt] at hw
    simp [primTarget, lv, dvalOf, Read.cast, Read.castScalar, Read.castLeaf, Read.ofLeaf]
  -- borrowed targets: the typed-read specification (`Read.castLeaf`) hands a string / binary value of ANY column to
  -- `&'de str` / `&'de [u8]` as a BORROWED slice (`visit_borrowed_str` / `visit_borrowed_bytes`)
  | strRef | cowStr =>
    cases v <;> simp [Prim.wt] at hw
    simp [primTarget, lv, dvalOf, Read.cast, Read.castScalar, Read.castLeaf, Read.ofLeaf, Read.strBytes]
  | bytesRef | bytesSeq =>
    cases v <;> simp [Prim.wt] at hw
    simp [primTarget, lv, dvalOf, Read.cast, Read.castScalar, Read.castLeaf, Read.ofLeaf]

/-! ### helpers for the containers -/

theorem cast_option_nonnull (t : Read.Target) (a : Arr) (x : LVal) (d : Read.DVal) (hx : x ≠ .null)
    (h : Read.cast t a x = Read.must d) : Read.cast (.option t) a x = Read.must (.some d) := by
  cases x <;> first | exact absurd rfl hx | simp [Read.cast, h, Read.Claim.andThen, Read.must]

theorem nodupNames_eq : ∀ (l : List String), Read.nodupNames l = !hasDup l
  | [] => rfl
  | x :: xs => by simp [Read.nodupNames, hasDup, nodupNames_eq xs]

theorem DVals.ofList_toList : ∀ (l : Read.DVals), Read.DVals.ofList l.toList = l
  | .nil => rfl
  | .cons v r => by simp [Read.DVals.toList, Read.DVals.ofList, DVals.ofList_toList r]

theorem DEntries.ofList_toList : ∀ (l : Read.DEntries), Read.DEntries.ofList l.toList = l
  | .nil => rfl
  | .cons k v r => by simp [Read.DEntries.toList, Read.DEntries.ofList, DEntries.ofList_toList r]

theorem toTargetFields_names : ∀ (fs : TFields), Read.TFields.names (toTargetFields fs) = fs.names
  | .nil => rfl
  | .cons n s t r => by simp [toTargetFields, Read.TFields.names, TFields.names, toTargetFields_names r]

theorem wfFields_names (o : TraceOpts) : ∀ (fs : TFields) (cols : ArrFields) (len : Nat),
    Spec.wfFields (mappingFields o fs) cols len = true → Read.ArrFields.names cols = fs.names
  | .nil, .nil, _, _ => rfl
  | .nil, .cons _ _ _, _, h => by simp [mappingFields, Spec.wfFields] at h
  | .cons n s t r, .nil, _, h => by
    rcases hm : mappingDT o t with ⟨dt, nb, md⟩
    simp [mappingFields, hm, Spec.wfFields] at h
  | .cons n s t r, .cons fm a rest, len, h => by
    rcases hm : mappingDT o t with ⟨dt, nb, md⟩
    simp only [mappingFields, hm, Spec.wfFields, Bool.and_eq_true] at h
    have hn : fm.name = n := by
      have := h.1.1.1
      simp only [Spec.metaMatches, Field.name, Bool.and_eq_true, beq_iff_eq] at this
      exact this.1.1
    simp [Read.ArrFields.names, TFields.names, hn, wfFields_names o r rest len h.2]

/-- every field of the suffix `(fs2, vs2)` is found by name among the columns, with its (option-dependent) logical value
`lvO o`, in a well-formed column of its traced type -/
def FoundA (o : TraceOpts) (cols : ArrFields) (lfs : LFields) : TFields → Vals → Prop
  | .cons n _ t rest, .cons v vrest =>
    (∃ a dt nb md nl, Read.fieldNamed cols lfs n = some (a, lvO o t v) ∧ mappingDT o t = (dt, nb, md) ∧ Spec.wf dt nl a = true) ∧
      FoundA o cols lfs rest vrest
  | _, _ => True

theorem foundA_mono (o : TraceOpts) (c c' : ArrFields) (l l' : LFields) : ∀ (fs2 : TFields) (vs2 : Vals),
    (∀ m, fs2.names.contains m = true → Read.fieldNamed c' l' m = Read.fieldNamed c l m) →
    FoundA o c l fs2 vs2 → FoundA o c' l' fs2 vs2
  | .nil, _, _, _ => by simp [FoundA]
  | .cons _ _ _ _, .nil, _, _ => by simp [FoundA]
  | .cons n s t rest, .cons v vrest, hall, h => by
    obtain ⟨⟨a, dt, nb, md, nl, h1, h2, h3⟩, hr⟩ := h
    refine ⟨⟨a, dt, nb, md, nl, ?_, h2, h3⟩, foundA_mono o c c' l l' rest vrest ?_ hr⟩
    · rw [hall n (by simp [TFields.names])]; exact h1
    · intro m hm
      exact hall m (by simp only [TFields.names, List.contains_cons, hm, Bool.or_true])

theorem foundA_of (o : TraceOpts) (len : Nat) : ∀ (fs : TFields) (vs : Vals) (cols : ArrFields),
    Spec.wfFields (mappingFields o fs) cols len = true → wtFields fs vs = true → hasDup fs.names = false →
    FoundA o cols (lvOFields o fs vs) fs vs
  | .nil, _, _, _, _, _ => by simp [FoundA]
  | .cons _ _ _ _, .nil, _, _, hw, _ => by simp [wtFields] at hw
  | .cons n s t r, .cons v vrest, .nil, h, _, _ => by
    rcases hm : mappingDT o t with ⟨dt, nb, md⟩
    simp [mappingFields, hm, Spec.wfFields] at h
  | .cons n s t r, .cons v vrest, .cons fm a rest, h, hw, hd => by
    rcases hm : mappingDT o t with ⟨dt, nb, md⟩
    simp only [mappingFields, hm, Spec.wfFields, Bool.and_eq_true] at h
    simp only [wtFields, Bool.and_eq_true] at hw
    simp only [TFields.names, hasDup, Bool.or_eq_false_iff] at hd
    have hn : fm.name = n := by
      have := h.1.1.1
      simp only [Spec.metaMatches, Field.name, Bool.and_eq_true, beq_iff_eq] at this
      exact this.1.1
    have ih := foundA_of o len r vrest rest h.2 hw.2 hd.2
    refine ⟨⟨a, dt, nb, md, nb, ?_, hm, ?_⟩, foundA_mono o rest _ (lvOFields o r vrest) _ r vrest ?_ ih⟩
    · simp [lvOFields, Read.fieldNamed, hn]
    · simpa [Field.dataType, Field.nullable] using h.1.2
    · intro m hmem
      have hne : (fm.name == m) = false := by
        cases hb : (fm.name == m) with
        | false => rfl
        | true =>
          have : fm.name = m := by simpa using hb
          rw [hn] at this; subst this
          rw [hd.1] at hmem; cases hmem
      simp [lvOFields, Read.fieldNamed, hne]

end SaModel.Roundtrip
