import SaModel.Lemmas.C04Cast
import SaModel.Lemmas.C04Bytes
/-
C04: helpers for typed reads of enums (Union columns).  A well-formed array of the Union an enum is traced to has one
child per variant, with consecutive type ids; the reader finds the child by type id and the variant by the child's
NAME (`castVariant … none name`), which is the right one because variant names are distinct.

Enums stored as strings (`enums_without_data_as_strings`: a Dictionary(UInt32, string type) column): the logical value
is the variant NAME, the reader finds the variant by that name (`castVariantStr_get`; names distinct, a name is
determined by its UTF-8 bytes: `strBytes_inj`) and answers for unit variants only.
-/
namespace SaModel.Roundtrip
open SaModel SaModel.Spec SaModel.Build

theorem wf_union {nl : Bool} {a : Arr} {ufs : UFields} {m : UnionMode} (h : Spec.wf (.union ufs m) nl a = true) :
    ∃ types offs cols, a = .union types offs cols ∧ Spec.wfUFields ufs cols 0 = true := by
  cases a <;> try (simp [Spec.wf] at h)
  case union types offs cols => exact ⟨types, offs, cols, rfl, h.1.2⟩
  case prim ty v vals => cases ty <;> simp [primMatches] at h

/-- the child of variant `i`, found by its type id -/
theorem findId_variant (o : TraceOpts) : ∀ (vars : Variants) (cols : ArrUFields) (k i : Nat) (vn : String) (kind : Variant),
    Spec.wfUFields (mappingVariants o k vars) cols (k : Int) = true → vars.get? i = some (vn, kind) →
    ∃ fm child, Read.ArrUFields.findId cols ((k + i : Nat) : Int) = some (fm, child) ∧ fm.name = vn ∧
      Spec.wf (variantField o vn kind).dataType (variantField o vn kind).nullable child = true
  | .nil, _, _, _, _, _, _, hg => by simp [Variants.get?] at hg
  | .cons n v rest, .nil, k, _, _, _, h, _ => by cases v <;> simp [mappingVariants, Spec.wfUFields] at h
  | .cons n v rest, .cons tid fm a arest, k, 0, vn, kind, h, hg => by
    simp only [Variants.get?, Option.some.injEq, Prod.mk.injEq] at hg
    obtain ⟨rfl, rfl⟩ := hg
    have hh : (tid == (k : Int)) = true ∧ Spec.metaMatches fm (variantField o n v) = true ∧
        Spec.wf (variantField o n v).dataType (variantField o n v).nullable a = true := by
      cases v <;> simp [mappingVariants, Spec.wfUFields, variantField] at h ⊢ <;> simp [h]
    refine ⟨fm, a, ?_, ?_, hh.2.2⟩
    · have : tid = (k : Int) := by simpa using hh.1
      simp [Read.ArrUFields.findId, this]
    · have := hh.2.1
      simp only [Spec.metaMatches, Bool.and_eq_true, beq_iff_eq] at this
      rw [this.1.1]; cases v <;> rfl
  | .cons n v rest, .cons tid fm a arest, k, i + 1, vn, kind, h, hg => by
    have hh : (tid == (k : Int)) = true ∧ Spec.wfUFields (mappingVariants o (k + 1) rest) arest ((k + 1 : Nat) : Int) = true := by
      have hc : ((k + 1 : Nat) : Int) = (k : Int) + 1 := by omega
      rw [hc]
      cases v <;> (simp only [mappingVariants, Spec.wfUFields, Bool.and_eq_true, beq_iff_eq] at h
                   exact ⟨by simp [h.1.1.1.1], h.2⟩)
    obtain ⟨fm', child, h1, h2, h3⟩ := findId_variant o rest arest (k + 1) i vn kind hh.2 (by simpa [Variants.get?] using hg)
    refine ⟨fm', child, ?_, h2, h3⟩
    have ht : tid = (k : Int) := by simpa using hh.1
    have hk : k + 1 + i = k + (i + 1) := by omega
    rw [hk] at h1
    have h1' : Read.ArrUFields.findId arest ((k : Int) + ((i : Int) + 1)) = some (fm', child) := by
      have : (((k + (i + 1) : Nat)) : Int) = (k : Int) + ((i : Int) + 1) := by omega
      rw [← this]; exact h1
    have hne : ¬ ((k : Int) = (k : Int) + ((i : Int) + 1)) := by omega
    simp [Read.ArrUFields.findId, ht, hne, h1']

def toTargetKind : Variant → Read.VKind
  | .unit => .unit
  | .newtype t => .newtype (toTarget t)
  | .tuple ts => .tuple (toTargets ts)
  | .struct fs => .struct (toTargetFields fs)

theorem toTargetVariants_cons (n : String) (v : Variant) (r : Variants) :
    toTargetVariants (.cons n v r) = .cons n (toTargetKind v) (toTargetVariants r) := by
  cases v <;> rfl

theorem get?_mem_names : ∀ (vars : Variants) (i : Nat) (vn : String) (kind : Variant),
    vars.get? i = some (vn, kind) → vars.names.contains vn = true
  | .nil, _, _, _, h => by simp [Variants.get?] at h
  | .cons n v r, 0, vn, kind, h => by
    simp only [Variants.get?, Option.some.injEq, Prod.mk.injEq] at h
    simp [Variants.names, h.1]
  | .cons n v r, i + 1, vn, kind, h => by
    have := get?_mem_names r i vn kind (by simpa [Variants.get?] using h)
    simp only [Variants.names, List.contains_cons, this, Bool.or_true]

/-- reading by variant name reaches the variant with that name -/
theorem castVariant_get (child : Arr) (x : LVal) : ∀ (vars : Variants) (i : Nat) (vn : String) (kind : Variant),
    hasDup vars.names = false → vars.get? i = some (vn, kind) →
    Read.castVariant (toTargetVariants vars) none vn child x =
      (Read.castKind (toTargetKind kind) child x).andThen fun p => Read.must (.enum (nameKey vn) p)
  | .nil, _, _, _, _, h => by simp [Variants.get?] at h
  | .cons n v r, 0, vn, kind, _, h => by
    simp only [Variants.get?, Option.some.injEq, Prod.mk.injEq] at h
    obtain ⟨rfl, rfl⟩ := h
    simp [toTargetVariants_cons, Read.castVariant, nameKey]
  | .cons n v r, i + 1, vn, kind, hd, h => by
    simp only [Variants.names, hasDup, Bool.or_eq_false_iff] at hd
    have hmem := get?_mem_names r i vn kind (by simpa [Variants.get?] using h)
    have hne : (n == vn) = false := by
      cases hb : (n == vn) with
      | false => rfl
      | true =>
        have : n = vn := by simpa using hb
        subst this
        rw [hd.1] at hmem; cases hmem
    have ih := castVariant_get child x r i vn kind hd.2 (by simpa [Variants.get?] using h)
    simp [toTargetVariants_cons, Read.castVariant, hne, ih]

/-! ### enums stored as strings -/

/-- the type skeleton of a well-formed dictionary array (the full statement `wf_dictionary` is in C04Reader.lean) -/
theorem wf_dictionary_shape {nl : Bool} {a : Arr} {k v : DataType} (h : Spec.wf (.dictionary k v) nl a = true) :
    ∃ ks vs, a = .dictionary ks vs := by
  cases a <;> try (simp [Spec.wf] at h)
  case dictionary ks vs => exact ⟨ks, vs, rfl⟩
  case prim ty v vals => cases ty <;> simp [primMatches] at h

/-- the UTF-8 bytes of a name determine it -/
theorem strBytes_inj {a b : String} (h : Read.strBytes a = Read.strBytes b) : a = b := by
  have h1 := unserStr_toUTF8 a
  have h2 := unserStr_toUTF8 b
  simp only [Read.strBytes] at h
  rw [h, h2] at h1
  exact (Option.some.inj h1).symm

/-- reading a variant NAME from a string column reaches the variant with that name; only a unit variant is answered -/
theorem castVariantStr_get : ∀ (vars : Variants) (i : Nat) (vn : String) (kind : Variant),
    hasDup vars.names = false → vars.get? i = some (vn, kind) →
    Read.castVariantStr (toTargetVariants vars) (Read.strBytes vn) =
      (match kind with
       | .unit => Read.must (.enum (nameKey vn) .unit)
       | _ => Read.mustFail "strings carry no variant data")
  | .nil, _, _, _, _, h => by simp [Variants.get?] at h
  | .cons n v r, 0, vn, kind, _, h => by
    simp only [Variants.get?, Option.some.injEq, Prod.mk.injEq] at h
    obtain ⟨rfl, rfl⟩ := h
    cases v <;> simp [toTargetVariants_cons, toTargetKind, Read.castVariantStr, nameKey]
  | .cons n v r, i + 1, vn, kind, hd, h => by
    simp only [Variants.names, hasDup, Bool.or_eq_false_iff] at hd
    have hmem := get?_mem_names r i vn kind (by simpa [Variants.get?] using h)
    have hne : (Read.strBytes n == Read.strBytes vn) = false := by
      cases hb : (Read.strBytes n == Read.strBytes vn) with
      | false => rfl
      | true =>
        have : n = vn := strBytes_inj (by simpa using hb)
        subst this
        rw [hd.1] at hmem; cases hmem
    have ih := castVariantStr_get r i vn kind hd.2 (by simpa [Variants.get?] using h)
    simp only [toTargetVariants_cons, Read.castVariantStr, hne, Bool.false_eq_true, if_false, ih]

end SaModel.Roundtrip
