import SaModel.Lemmas.C04Cast
/-
C04: `cast_lv` — the typed read specification `Read.cast`, at the target of a type, on the logical value of a value of
that type, in a well-formed array of the traced field, demands exactly the normalised value (fragment `frag`).
Mutual structural recursion over the value.
-/
namespace SaModel.Roundtrip
open SaModel SaModel.Spec SaModel.Build

mutual
theorem cast_lv (o : TraceOpts) : ∀ (t : Ty) (v : Val) (a : Arr) (dt : DataType) (nb : Bool) (md : Metadata) (nl : Bool),
    frag t = true → wt t v = true → mappingDT o t = (dt, nb, md) → Spec.wf dt nl a = true →
    Read.cast (toTarget t) a (lv t v) = Read.must (dvalOf t (norm t v))
  | t, .bool b, a, dt, nb, md, nl, hf, hw, hm, hwf => by
    cases t with
    | prim p =>
      simp only [mappingDT, Prod.mk.injEq] at hm; obtain ⟨rfl, rfl, rfl⟩ := hm
      rw [norm_prim]; exact cast_prim o p _ a nl (by simpa [wt] using hw) hwf
    | _ => simp [wt] at hw
  | t, .int x, a, dt, nb, md, nl, hf, hw, hm, hwf => by
    cases t with
    | prim p =>
      simp only [mappingDT, Prod.mk.injEq] at hm; obtain ⟨rfl, rfl, rfl⟩ := hm
      rw [norm_prim]; exact cast_prim o p _ a nl (by simpa [wt] using hw) hwf
    | _ => simp [wt] at hw
  | t, .f32 x, a, dt, nb, md, nl, hf, hw, hm, hwf => by
    cases t with
    | prim p =>
      simp only [mappingDT, Prod.mk.injEq] at hm; obtain ⟨rfl, rfl, rfl⟩ := hm
      rw [norm_prim]; exact cast_prim o p _ a nl (by simpa [wt] using hw) hwf
    | _ => simp [wt] at hw
  | t, .f64 x, a, dt, nb, md, nl, hf, hw, hm, hwf => by
    cases t with
    | prim p =>
      simp only [mappingDT, Prod.mk.injEq] at hm; obtain ⟨rfl, rfl, rfl⟩ := hm
      rw [norm_prim]; exact cast_prim o p _ a nl (by simpa [wt] using hw) hwf
    | _ => simp [wt] at hw
  | t, .char x, a, dt, nb, md, nl, hf, hw, hm, hwf => by
    cases t with
    | prim p =>
      simp only [mappingDT, Prod.mk.injEq] at hm; obtain ⟨rfl, rfl, rfl⟩ := hm
      rw [norm_prim]; exact cast_prim o p _ a nl (by simpa [wt] using hw) hwf
    | _ => simp [wt] at hw
  | t, .str x, a, dt, nb, md, nl, hf, hw, hm, hwf => by
    cases t with
    | prim p =>
      simp only [mappingDT, Prod.mk.injEq] at hm; obtain ⟨rfl, rfl, rfl⟩ := hm
      rw [norm_prim]; exact cast_prim o p _ a nl (by simpa [wt] using hw) hwf
    | _ => simp [wt] at hw
  | t, .bytes x, a, dt, nb, md, nl, hf, hw, hm, hwf => by
    cases t with
    | prim p =>
      simp only [mappingDT, Prod.mk.injEq] at hm; obtain ⟨rfl, rfl, rfl⟩ := hm
      rw [norm_prim]; exact cast_prim o p _ a nl (by simpa [wt] using hw) hwf
    | _ => simp [wt] at hw
  | t, .unit, a, dt, nb, md, nl, hf, hw, hm, hwf => by
    cases t with
    | prim p => cases p <;> simp [wt, Prim.wt] at hw
    | unit =>
      simp only [mappingDT, Prod.mk.injEq] at hm; obtain ⟨rfl, rfl, rfl⟩ := hm
      obtain ⟨len, rfl⟩ := wf_null hwf
      simp [toTarget, lv, norm, dvalOf, Read.cast, Read.castScalar, Read.isNullArr]
    | unitStruct n =>
      simp only [mappingDT, Prod.mk.injEq] at hm; obtain ⟨rfl, rfl, rfl⟩ := hm
      obtain ⟨len, rfl⟩ := wf_null hwf
      simp [toTarget, lv, norm, dvalOf, Read.cast, Read.castScalar, Read.isNullArr]
    | _ => simp [wt] at hw
  | t, .none, a, dt, nb, md, nl, hf, hw, hm, hwf => by
    cases t with
    | prim p => cases p <;> simp [wt, Prim.wt] at hw
    | option t' => simp [toTarget, lv, norm, dvalOf, Read.cast]
    | _ => simp [wt] at hw
  | t, .some v, a, dt, nb, md, nl, hf, hw, hm, hwf => by
    cases t with
    | prim p => cases p <;> simp [wt, Prim.wt] at hw
    | option t' =>
      rcases hm' : mappingDT o t' with ⟨dt', nb', md'⟩
      simp only [mappingDT, hm', Prod.mk.injEq] at hm; obtain ⟨rfl, rfl, rfl⟩ := hm
      have ih := cast_lv o t' v a _ _ _ nl (by simpa [frag] using hf) (by simpa [wt] using hw) hm' hwf
      by_cases hn : lv t' v = .null
      · simp [toTarget, lv, norm, dvalOf, hn, Read.cast]
      · simp only [toTarget, lv, norm, hn, if_false, dvalOf]
        exact cast_option_nonnull _ a _ _ hn ih
    | _ => simp [wt] at hw
  | t, .newtype v, a, dt, nb, md, nl, hf, hw, hm, hwf => by
    cases t with
    | prim p => cases p <;> simp [wt, Prim.wt] at hw
    | newtype n t' =>
      simp only [mappingDT] at hm
      have ih := cast_lv o t' v a _ _ _ nl (by simpa [frag] using hf) (by simpa [wt] using hw) hm hwf
      simpa [toTarget, lv, norm, dvalOf, Read.cast] using ih
    | _ => simp [wt] at hw
  | t, .vec vs, a, dt, nb, md, nl, hf, hw, hm, hwf => by
    cases t with
    | prim p => cases p <;> simp [wt, Prim.wt] at hw
    | vec t' =>
      rcases hm' : mappingDT o t' with ⟨dt', nb', md'⟩
      simp only [mappingDT, hm', Prod.mk.injEq] at hm; obtain ⟨rfl, rfl, rfl⟩ := hm
      have hel : ∃ lg v offs fm el, a = .list lg v offs fm el ∧ Spec.wf dt' nb' el = true := by
        by_cases hl : o.sequenceAsLargeList = true
        · simp only [hl, if_true] at hwf
          obtain ⟨v, offs, fm, el, rfl, _, h⟩ := wf_largeList hwf
          exact ⟨_, v, offs, fm, el, rfl, h⟩
        · simp only [hl] at hwf
          obtain ⟨v, offs, fm, el, rfl, _, h⟩ := wf_list hwf
          exact ⟨_, v, offs, fm, el, rfl, h⟩
      obtain ⟨lg, vv, offs, fm, el, rfl, hel⟩ := hel
      have ih := cast_lvAll o t' vs el dt' nb' md' nb' (by simpa [frag] using hf) (by simpa [wt] using hw) hm' hel
      simp [toTarget, lv, norm, dvalOf, Read.cast, ih, Read.andThenL, DVals.ofList_toList]
    | _ => simp [wt] at hw
  | t, .map es, a, dt, nb, md, nl, hf, hw, hm, hwf => by
    cases t with
    | prim p => cases p <;> simp [wt, Prim.wt] at hw
    | map k v =>
      rcases hk : mappingDT o k with ⟨kdt, knb, kmd⟩
      rcases hv : mappingDT o v with ⟨vdt, vnb, vmd⟩
      simp only [mappingDT, hk, hv, Prod.mk.injEq] at hm; obtain ⟨rfl, rfl, rfl⟩ := hm
      simp only [frag, Bool.and_eq_true] at hf
      obtain ⟨vv, offs, mm, ks, vs, rfl, _, _, hwk, hwv⟩ := wf_map hwf
      have ih := cast_lvEntries o k v es ks vs kdt knb kmd vdt vnb vmd hf.1 hf.2 (by simpa [wt] using hw) hk hv hwk hwv
      simp [toTarget, lv, norm, dvalOf, Read.cast, ih, Read.andThenE, DEntries.ofList_toList]
    | _ => simp [wt] at hw
  | t, .tuple vs, a, dt, nb, md, nl, hf, hw, hm, hwf => by
    cases t with
    | prim p => cases p <;> simp [wt, Prim.wt] at hw
    | tuple ts =>
      simp only [mappingDT, Prod.mk.injEq] at hm; obtain ⟨rfl, rfl, rfl⟩ := hm
      obtain ⟨len, vv, cols, rfl, _, hcols⟩ := wf_struct hwf
      have ih := cast_lvPos o ts vs 0 cols len (by simpa [frag] using hf) (by simpa [wt] using hw) hcols
      simp [toTarget, lv, norm, dvalOf, Read.cast, Read.tupleClaim, ih, Read.andThenL, DVals.ofList_toList]
    | tupleStruct n ts =>
      simp only [mappingDT, Prod.mk.injEq] at hm; obtain ⟨rfl, rfl, rfl⟩ := hm
      obtain ⟨len, vv, cols, rfl, _, hcols⟩ := wf_struct hwf
      have ih := cast_lvPos o ts vs 0 cols len (by simpa [frag] using hf) (by simpa [wt] using hw) hcols
      simp [toTarget, lv, norm, dvalOf, Read.cast, Read.tupleClaim, ih, Read.andThenL, DVals.ofList_toList]
    | _ => simp [wt] at hw
  | t, .struct vs, a, dt, nb, md, nl, hf, hw, hm, hwf => by
    cases t with
    | prim p => cases p <;> simp [wt, Prim.wt] at hw
    | struct n fs =>
      simp only [mappingDT, Prod.mk.injEq] at hm; obtain ⟨rfl, rfl, rfl⟩ := hm
      simp only [frag, Bool.and_eq_true, Bool.not_eq_true'] at hf
      have hw' : wtFields fs vs = true := by simpa [wt] using hw
      obtain ⟨len, vv, cols, rfl, _, hcols⟩ := wf_struct hwf
      have hfound := foundA_of o len fs vs cols hcols hw' hf.1
      have ih := cast_lvFields o cols (lvFields fs vs) fs vs hf.2 hw' hfound
      have hn1 := wfFields_names o fs cols len hcols
      simp [toTarget, lv, norm, dvalOf, Read.cast, Read.structClaim, hn1, toTargetFields_names, nodupNames_eq, hf.1, ih,
        Read.andThenE, DEntries.ofList_toList]
    | _ => simp [wt] at hw
  | t, .variant i p, a, dt, nb, md, nl, hf, hw, hm, hwf => by
    cases t with
    | prim p => cases p <;> simp [wt, Prim.wt] at hw
    | enum n vars => simp [frag] at hf
    | _ => simp [wt] at hw

theorem cast_lvAll (o : TraceOpts) : ∀ (t : Ty) (vs : Vals) (el : Arr) (dt : DataType) (nb : Bool) (md : Metadata) (nl : Bool),
    frag t = true → wtAll t vs = true → mappingDT o t = (dt, nb, md) → Spec.wf dt nl el = true →
    Read.claimVals (fun x => Read.cast (toTarget t) el x) (lvAll t vs) = .ok (some (dvalAll t (normAll t vs)).toList)
  | t, .nil, el, dt, nb, md, nl, _, _, _, _ => by simp [lvAll, normAll, dvalAll, Read.claimVals, Read.DVals.toList]
  | t, .cons v rest, el, dt, nb, md, nl, hf, hw, hm, hwf => by
    simp only [wtAll, Bool.and_eq_true] at hw
    have h1 := cast_lv o t v el dt nb md nl hf hw.1 hm hwf
    have h2 := cast_lvAll o t rest el dt nb md nl hf hw.2 hm hwf
    simp [lvAll, normAll, dvalAll, Read.claimVals, Read.DVals.toList, h1, h2, Read.consClaim, Read.must]

theorem cast_lvEntries (o : TraceOpts) : ∀ (k v : Ty) (es : VEntries) (ks vs : Arr)
    (kdt : DataType) (knb : Bool) (kmd : Metadata) (vdt : DataType) (vnb : Bool) (vmd : Metadata),
    frag k = true → frag v = true → wtEntries k v es = true → mappingDT o k = (kdt, knb, kmd) → mappingDT o v = (vdt, vnb, vmd) →
    Spec.wf kdt knb ks = true → Spec.wf vdt vnb vs = true →
    Read.claimEntries (fun w => Read.cast (toTarget k) ks w) (fun w => Read.cast (toTarget v) vs w) (lvEntries k v es) =
      .ok (some (dvalEntries k v (normEntries k v es)).toList)
  | k, v, .nil, _, _, _, _, _, _, _, _, _, _, _, _, _, _, _ => by
    simp [lvEntries, normEntries, dvalEntries, Read.claimEntries, Read.DEntries.toList]
  | k, v, .cons a b rest, ks, vs, kdt, knb, kmd, vdt, vnb, vmd, hfk, hfv, hw, hk, hv, hwk, hwv => by
    simp only [wtEntries, Bool.and_eq_true] at hw
    have h1 := cast_lv o k a ks kdt knb kmd knb hfk hw.1.1 hk hwk
    have h2 := cast_lv o v b vs vdt vnb vmd vnb hfv hw.1.2 hv hwv
    have h3 := cast_lvEntries o k v rest ks vs kdt knb kmd vdt vnb vmd hfk hfv hw.2 hk hv hwk hwv
    simp [lvEntries, normEntries, dvalEntries, Read.claimEntries, Read.DEntries.toList, h1, h2, h3, Read.consClaim,
      Read.pairClaim, Read.must]

theorem cast_lvFields (o : TraceOpts) (cols : ArrFields) (lfs : LFields) : ∀ (fs2 : TFields) (vs2 : Vals),
    fragFields fs2 = true → wtFields fs2 vs2 = true → FoundA o cols lfs fs2 vs2 →
    Read.castFields (toTargetFields fs2) cols lfs = .ok (some (dvalFields fs2 (normFields fs2 vs2)).toList)
  | .nil, .nil, _, _, _ => by simp [toTargetFields, Read.castFields, normFields, dvalFields, Read.DEntries.toList]
  | .nil, .cons _ _, _, hw, _ => by simp [wtFields] at hw
  | .cons _ _ _ _, .nil, _, hw, _ => by simp [wtFields] at hw
  | .cons n s t rest, .cons v vrest, hf, hw, hfound => by
    simp only [fragFields, Bool.and_eq_true] at hf
    simp only [wtFields, Bool.and_eq_true] at hw
    obtain ⟨⟨a, dt, nb, md, nl, h1, h2, h3⟩, hr⟩ := hfound
    have hc := cast_lv o t v a dt nb md nl hf.1.1 hw.1 h2 h3
    have ih := cast_lvFields o cols lfs rest vrest hf.2 hw.2 hr
    simp [toTargetFields, Read.castFields, h1, hc, ih, normFields, dvalFields, Read.DEntries.toList, Read.consClaim,
      Read.must, nameKey]

theorem cast_lvPos (o : TraceOpts) : ∀ (ts : Tys) (vs : Vals) (i : Nat) (cols : ArrFields) (len : Nat),
    fragTys ts = true → wtPos ts vs = true → Spec.wfFields (mappingPos o i ts) cols len = true →
    Read.castTuple (toTargets ts) cols (lvPos i ts vs) = .ok (some (dvalPos ts (normPos ts vs)).toList)
  | .nil, .nil, _, _, _, _, _, _ => by simp [toTargets, Read.castTuple, normPos, dvalPos, Read.DVals.toList]
  | .nil, .cons _ _, _, _, _, _, hw, _ => by simp [wtPos] at hw
  | .cons _ _, .nil, _, _, _, _, hw, _ => by simp [wtPos] at hw
  | .cons t rest, .cons v vrest, i, .nil, len, _, _, h => by
    rcases hm : mappingDT o t with ⟨dt, nb, md⟩
    simp [mappingPos, hm, Spec.wfFields] at h
  | .cons t rest, .cons v vrest, i, .cons fm a arest, len, hf, hw, h => by
    rcases hm : mappingDT o t with ⟨dt, nb, md⟩
    simp only [mappingPos, hm, Spec.wfFields, Bool.and_eq_true] at h
    simp only [fragTys, Bool.and_eq_true] at hf
    simp only [wtPos, Bool.and_eq_true] at hw
    have hc := cast_lv o t v a dt nb md nb hf.1 hw.1 hm (by simpa [Field.dataType, Field.nullable] using h.1.2)
    have ih := cast_lvPos o rest vrest (i + 1) arest len hf.2 hw.2 h.2
    simp [toTargets, lvPos, Read.castTuple, hc, ih, normPos, dvalPos, Read.DVals.toList, Read.consClaim, Read.must]
end

end SaModel.Roundtrip
