import SaModel.Lemmas.C04Cast
import SaModel.Lemmas.C04CastEnum
import SaModel.Lemmas.C04LvO
import SaModel.Lemmas.C04ScopeLv
import SaModel.Lemmas.C04Scope
/-
C04: `cast_lvO` — the typed read specification `Read.cast`, at the target of a type, on the OPTION-DEPENDENT logical value
`lvO o` of a value of that type, in a well-formed array of the field the type is traced to under the options `o`, demands
exactly the normalised value (fragment `fragE`, enums in both storage forms: dense Union, and Dictionary(UInt32, string)
for enums without data under `enums_without_data_as_strings`, where the logical value is the variant NAME).
Exclusions: `inScopeU` (no `None` at a Union position) and `strOK` (a value of a string-stored enum is a unit variant).
The right-hand side does not depend on the storage form: `norm` (defined through `lv`) is the normalisation of both forms
(`lvO_null_iff`).  Mutual structural recursion over the value.
-/
namespace SaModel.Roundtrip
open SaModel SaModel.Spec SaModel.Build

mutual
theorem cast_lvO (o : TraceOpts) : ∀ (t : Ty) (v : Val) (a : Arr) (dt : DataType) (nb : Bool) (md : Metadata) (nl : Bool),
    fragE t = true → wt t v = true → inScopeU o t v = true → strOK o t v = true → mappingDT o t = (dt, nb, md) → Spec.wf dt nl a = true →
    Read.cast (toTarget t) a (lvO o t v) = Read.must (dvalOf t (norm t v))
  | t, .bool b, a, dt, nb, md, nl, hf, hw, hs, hso, hm, hwf => by
    cases t with
    | prim p =>
      simp only [mappingDT, Prod.mk.injEq] at hm; obtain ⟨rfl, rfl, rfl⟩ := hm
      rw [norm_prim, lvO_prim]; exact cast_prim o p _ a nl (by simpa [wt] using hw) hwf
    | _ => simp [wt] at hw
  | t, .int x, a, dt, nb, md, nl, hf, hw, hs, hso, hm, hwf => by
    cases t with
    | prim p =>
      simp only [mappingDT, Prod.mk.injEq] at hm; obtain ⟨rfl, rfl, rfl⟩ := hm
      rw [norm_prim, lvO_prim]; exact cast_prim o p _ a nl (by simpa [wt] using hw) hwf
    | _ => simp [wt] at hw
  | t, .f32 x, a, dt, nb, md, nl, hf, hw, hs, hso, hm, hwf => by
    cases t with
    | prim p =>
      simp only [mappingDT, Prod.mk.injEq] at hm; obtain ⟨rfl, rfl, rfl⟩ := hm
      rw [norm_prim, lvO_prim]; exact cast_prim o p _ a nl (by simpa [wt] using hw) hwf
    | _ => simp [wt] at hw
  | t, .f64 x, a, dt, nb, md, nl, hf, hw, hs, hso, hm, hwf => by
    cases t with
    | prim p =>
      simp only [mappingDT, Prod.mk.injEq] at hm; obtain ⟨rfl, rfl, rfl⟩ := hm
      rw [norm_prim, lvO_prim]; exact cast_prim o p _ a nl (by simpa [wt] using hw) hwf
    | _ => simp [wt] at hw
  | t, .char x, a, dt, nb, md, nl, hf, hw, hs, hso, hm, hwf => by
    cases t with
    | prim p =>
      simp only [mappingDT, Prod.mk.injEq] at hm; obtain ⟨rfl, rfl, rfl⟩ := hm
      rw [norm_prim, lvO_prim]; exact cast_prim o p _ a nl (by simpa [wt] using hw) hwf
    | _ => simp [wt] at hw
  | t, .str x, a, dt, nb, md, nl, hf, hw, hs, hso, hm, hwf => by
    cases t with
    | prim p =>
      simp only [mappingDT, Prod.mk.injEq] at hm; obtain ⟨rfl, rfl, rfl⟩ := hm
      rw [norm_prim, lvO_prim]; exact cast_prim o p _ a nl (by simpa [wt] using hw) hwf
    | _ => simp [wt] at hw
  | t, .bytes x, a, dt, nb, md, nl, hf, hw, hs, hso, hm, hwf => by
    cases t with
    | prim p =>
      simp only [mappingDT, Prod.mk.injEq] at hm; obtain ⟨rfl, rfl, rfl⟩ := hm
      rw [norm_prim, lvO_prim]; exact cast_prim o p _ a nl (by simpa [wt] using hw) hwf
    | _ => simp [wt] at hw
  | t, .unit, a, dt, nb, md, nl, hf, hw, hs, hso, hm, hwf => by
    cases t with
    | prim p => cases p <;> simp [wt, Prim.wt] at hw
    | unit =>
      simp only [mappingDT, Prod.mk.injEq] at hm; obtain ⟨rfl, rfl, rfl⟩ := hm
      obtain ⟨len, rfl⟩ := wf_null hwf
      simp [toTarget, lvO, norm, dvalOf, Read.cast, Read.castScalar, Read.isNullArr]
    | unitStruct n =>
      simp only [mappingDT, Prod.mk.injEq] at hm; obtain ⟨rfl, rfl, rfl⟩ := hm
      obtain ⟨len, rfl⟩ := wf_null hwf
      simp [toTarget, lvO, norm, dvalOf, Read.cast, Read.castScalar, Read.isNullArr]
    | _ => simp [wt] at hw
  | t, .none, a, dt, nb, md, nl, hf, hw, hs, hso, hm, hwf => by
    cases t with
    | prim p => cases p <;> simp [wt, Prim.wt] at hw
    | option t' => simp [toTarget, lvO, norm, dvalOf, Read.cast]
    | _ => simp [wt] at hw
  | t, .some v, a, dt, nb, md, nl, hf, hw, hs, hso, hm, hwf => by
    cases t with
    | prim p => cases p <;> simp [wt, Prim.wt] at hw
    | option t' =>
      rcases hm' : mappingDT o t' with ⟨dt', nb', md'⟩
      simp only [mappingDT, hm', Prod.mk.injEq] at hm; obtain ⟨rfl, rfl, rfl⟩ := hm
      have ih := cast_lvO o t' v a _ _ _ nl (by simpa [fragE] using hf) (by simpa [wt] using hw) (by simpa [inScopeU] using hs) (by simpa [strOK] using hso) hm' hwf
      have hiff := lvO_null_iff o t' v (by simpa [wt] using hw)
      by_cases hn : lv t' v = .null
      · simp [toTarget, lvO, norm, dvalOf, hn, hiff.mpr hn, Read.cast]
      · simp only [toTarget, lvO, norm, hn, if_false, dvalOf]
        exact cast_option_nonnull _ a _ _ (fun h => hn (hiff.mp h)) ih
    | _ => simp [wt] at hw
  | t, .newtype v, a, dt, nb, md, nl, hf, hw, hs, hso, hm, hwf => by
    cases t with
    | prim p => cases p <;> simp [wt, Prim.wt] at hw
    | newtype n t' =>
      simp only [mappingDT] at hm
      have ih := cast_lvO o t' v a _ _ _ nl (by simpa [fragE] using hf) (by simpa [wt] using hw) (by simpa [inScopeU] using hs) (by simpa [strOK] using hso) hm hwf
      simpa [toTarget, lvO, norm, dvalOf, Read.cast] using ih
    | _ => simp [wt] at hw
  | t, .vec vs, a, dt, nb, md, nl, hf, hw, hs, hso, hm, hwf => by
    cases t with
    | prim p => cases p <;> simp [wt, Prim.wt] at hw
    | vec t' =>
      rcases hm' : mappingDT o t' with ⟨dt', nb', md'⟩
      simp only [mappingDT, hm', Prod.mk.injEq] at hm; obtain ⟨rfl, rfl, rfl⟩ := hm
      have hel : ∃ lg v offs fm el, a = .list lg v offs fm el ∧ Spec.wf dt' nb' el = true := by
        by_cases hl : o.sequenceAsLargeList = true
        · simp only [hl, if_true] at hwf
          obtain ⟨v, offs, fm, el, rfl, _, h⟩ := wf_largeList hwf
          exact ⟨_, v, offs, fm, el, rfl, h⟩
        · simp only [hl] at hwf
          obtain ⟨v, offs, fm, el, rfl, _, h⟩ := wf_list hwf
          exact ⟨_, v, offs, fm, el, rfl, h⟩
      obtain ⟨lg, vv, offs, fm, el, rfl, hel⟩ := hel
      have ih := cast_lvAllO o t' vs el dt' nb' md' nb' (by simpa [fragE] using hf) (by simpa [wt] using hw) (by simpa [inScopeU] using hs) (by simpa [strOK] using hso) hm' hel
      simp [toTarget, lvO, norm, dvalOf, Read.cast, ih, Read.andThenL, DVals.ofList_toList]
    | _ => simp [wt] at hw
  | t, .map es, a, dt, nb, md, nl, hf, hw, hs, hso, hm, hwf => by
    cases t with
    | prim p => cases p <;> simp [wt, Prim.wt] at hw
    | map k v =>
      rcases hk : mappingDT o k with ⟨kdt, knb, kmd⟩
      rcases hv : mappingDT o v with ⟨vdt, vnb, vmd⟩
      simp only [mappingDT, hk, hv, Prod.mk.injEq] at hm; obtain ⟨rfl, rfl, rfl⟩ := hm
      simp only [fragE, Bool.and_eq_true] at hf
      obtain ⟨vv, offs, mm, ks, vs, rfl, _, _, hwk, hwv⟩ := wf_map hwf
      have ih := cast_lvEntriesO o k v es ks vs kdt knb kmd vdt vnb vmd hf.1 hf.2 (by simpa [wt] using hw) (by simpa [inScopeU] using hs) (by simpa [strOK] using hso) hk hv hwk hwv
      simp [toTarget, lvO, norm, dvalOf, Read.cast, ih, Read.andThenE, DEntries.ofList_toList]
    | _ => simp [wt] at hw
  | t, .tuple vs, a, dt, nb, md, nl, hf, hw, hs, hso, hm, hwf => by
    cases t with
    | prim p => cases p <;> simp [wt, Prim.wt] at hw
    | tuple ts =>
      simp only [mappingDT, Prod.mk.injEq] at hm; obtain ⟨rfl, rfl, rfl⟩ := hm
      obtain ⟨len, vv, cols, rfl, _, hcols⟩ := wf_struct hwf
      have ih := cast_lvPosO o ts vs 0 cols len (by simpa [fragE] using hf) (by simpa [wt] using hw) (by simpa [inScopeU] using hs) (by simpa [strOK] using hso) hcols
      simp [toTarget, lvO, norm, dvalOf, Read.cast, Read.tupleClaim, ih, Read.andThenL, DVals.ofList_toList]
    | tupleStruct n ts =>
      simp only [mappingDT, Prod.mk.injEq] at hm; obtain ⟨rfl, rfl, rfl⟩ := hm
      obtain ⟨len, vv, cols, rfl, _, hcols⟩ := wf_struct hwf
      have ih := cast_lvPosO o ts vs 0 cols len (by simpa [fragE] using hf) (by simpa [wt] using hw) (by simpa [inScopeU] using hs) (by simpa [strOK] using hso) hcols
      simp [toTarget, lvO, norm, dvalOf, Read.cast, Read.tupleClaim, ih, Read.andThenL, DVals.ofList_toList]
    | _ => simp [wt] at hw
  | t, .struct vs, a, dt, nb, md, nl, hf, hw, hs, hso, hm, hwf => by
    cases t with
    | prim p => cases p <;> simp [wt, Prim.wt] at hw
    | struct n fs =>
      simp only [mappingDT, Prod.mk.injEq] at hm; obtain ⟨rfl, rfl, rfl⟩ := hm
      simp only [fragE, Bool.and_eq_true, Bool.not_eq_true'] at hf
      have hw' : wtFields fs vs = true := by simpa [wt] using hw
      obtain ⟨len, vv, cols, rfl, _, hcols⟩ := wf_struct hwf
      have hfound := foundA_of o len fs vs cols hcols hw' hf.1
      have ih := cast_lvFieldsO o cols (lvOFields o fs vs) fs vs hf.2 hw' (by simpa [inScopeU] using hs) (by simpa [strOK] using hso) hfound
      have hn1 := wfFields_names o fs cols len hcols
      simp [toTarget, lvO, norm, dvalOf, Read.cast, Read.structClaim, hn1, toTargetFields_names, nodupNames_eq, hf.1, ih,
        Read.andThenE, DEntries.ofList_toList]
    | _ => simp [wt] at hw
  | t, .variant i p, a, dt, nb, md, nl, hf, hw, hs, hso, hm, hwf => by
    cases t with
    | prim p => cases p <;> simp [wt, Prim.wt] at hw
    | enum n vars =>
      simp only [fragE, Bool.and_eq_true, Bool.not_eq_true'] at hf
      cases hg : vars.get? i with
      | none => simp [wt, hg] at hw
      | some q =>
      obtain ⟨vn, kind⟩ := q
      cases hform : (vars.withoutData && o.enumsWithoutDataAsStrings) with
      | true =>
        -- stored as a string: Dictionary(UInt32, string type), the logical value is the variant name
        simp only [mappingDT, hform, if_true, Prod.mk.injEq] at hm
        obtain ⟨rfl, rfl, rfl⟩ := hm
        obtain ⟨ks, vs, rfl⟩ := wf_dictionary_shape hwf
        have hcs := castVariantStr_get vars i vn kind hf.1 hg
        simp only [Read.strBytes] at hcs
        cases kind with
        | unit =>
          simp only [toTarget, lvO, hform, norm, dvalOf, hg, Read.cast, Read.isStringLike, if_true, Bool.not_false,
            Bool.and_self]
          exact hcs
        | newtype _ => simp [strOK, hform, hg] at hso
        | tuple _ => simp [strOK, hform, hg] at hso
        | struct _ => simp [strOK, hform, hg] at hso
      | false =>
        obtain ⟨rfl, rfl, rfl⟩ := enum_union o n vars dt nb md hform hm
        obtain ⟨types, offs, cols, rfl, hcols⟩ := wf_union hwf
        have hpay := hs
        simp only [inScopeU, hg] at hpay
        have hspay := hso
        simp only [strOK, hform, hg, Bool.false_eq_true, if_false] at hspay
        have hfk := fragEVariants_get vars i vn kind hf.2 hg
        obtain ⟨fm, child, hfind, hname, hchild⟩ := findId_variant o vars cols 0 i vn kind (by simpa using hcols) hg
        simp only [Nat.zero_add] at hfind
        have hcv := castVariant_get child
        cases kind with
        | unit =>
          obtain ⟨len, rfl⟩ := wf_null (by simpa [variantField, Field.dataType, Field.nullable] using hchild)
          simp [toTarget, lvO, hform, norm, dvalOf, hg, Read.cast, hfind, hname, hcv _ vars i vn .unit hf.1 hg, toTargetKind,
            Read.castKind, Read.isNullArr, Read.LVal.isNull, Read.Claim.andThen, Read.must]
        | newtype t' =>
          have hw' : wtSingle t' p = true := by simpa [wt, hg] using hw
          rcases hm' : mappingDT o t' with ⟨dt', nb', md'⟩
          cases p with
          | nil => simp [wtSingle] at hw'
          | cons v rest =>
            cases rest with
            | cons _ _ => simp [wtSingle] at hw'
            | nil =>
              have ih := cast_lvO o t' v child dt' nb' md' nb' (by simpa [fragEVariant] using hfk)
                (by simpa [wtSingle] using hw') (by simpa [inScopeUSingle] using hpay) (by simpa [strOKSingle] using hspay) hm'
                (by simpa [variantField, Field.dataType, Field.nullable, hm'] using hchild)
              simp [toTarget, lvO, hform, norm, dvalOf, hg, lvOSingle, normSingle, dvalSingle, Read.cast, hfind, hname,
                hcv _ vars i vn _ hf.1 hg, toTargetKind, Read.castKind, ih, Read.Claim.andThen, Read.must]
        | tuple ts =>
          have hw' : wtPos ts p = true := by simpa [wt, hg] using hw
          obtain ⟨len, vv, ccols, rfl, _, hccols⟩ := wf_struct
            (by simpa [variantField, Field.dataType, Field.nullable] using hchild : Spec.wf (.struct (mappingPos o 0 ts)) false child = true)
          have ih := cast_lvPosO o ts p 0 ccols len (by simpa [fragEVariant] using hfk) hw' hpay hspay hccols
          simp [toTarget, lvO, hform, norm, dvalOf, hg, Read.cast, hfind, hname, hcv _ vars i vn _ hf.1 hg, toTargetKind,
            Read.castKind, Read.tupleClaim, ih, Read.andThenL, DVals.ofList_toList, Read.Claim.andThen, Read.must]
        | struct fs =>
          have hw' : wtFields fs p = true := by simpa [wt, hg] using hw
          simp only [fragEVariant, Bool.and_eq_true, Bool.not_eq_true'] at hfk
          obtain ⟨len, vv, ccols, rfl, _, hccols⟩ := wf_struct
            (by simpa [variantField, Field.dataType, Field.nullable] using hchild : Spec.wf (.struct (mappingFields o fs)) false child = true)
          have hfound := foundA_of o len fs p ccols hccols hw' hfk.1
          have ih := cast_lvFieldsO o ccols (lvOFields o fs p) fs p hfk.2 hw' hpay hspay hfound
          have hn1 := wfFields_names o fs ccols len hccols
          simp [toTarget, lvO, hform, norm, dvalOf, hg, Read.cast, hfind, hname, hcv _ vars i vn _ hf.1 hg, toTargetKind,
            Read.castKind, Read.structClaim, hn1, toTargetFields_names, nodupNames_eq, hfk.1, ih, Read.andThenE,
            DEntries.ofList_toList, Read.Claim.andThen, Read.must]
    | _ => simp [wt] at hw

theorem cast_lvAllO (o : TraceOpts) : ∀ (t : Ty) (vs : Vals) (el : Arr) (dt : DataType) (nb : Bool) (md : Metadata) (nl : Bool),
    fragE t = true → wtAll t vs = true → inScopeUAll o t vs = true → strOKAll o t vs = true → mappingDT o t = (dt, nb, md) → Spec.wf dt nl el = true →
    Read.claimVals (fun x => Read.cast (toTarget t) el x) (lvOAll o t vs) = .ok (some (dvalAll t (normAll t vs)).toList)
  | t, .nil, el, dt, nb, md, nl, _, _, _, _, _, _ => by simp [lvOAll, normAll, dvalAll, Read.claimVals, Read.DVals.toList]
  | t, .cons v rest, el, dt, nb, md, nl, hf, hw, hs, hso, hm, hwf => by
    simp only [wtAll, Bool.and_eq_true] at hw
    simp only [inScopeUAll, Bool.and_eq_true] at hs
    simp only [strOKAll, Bool.and_eq_true] at hso
    have h1 := cast_lvO o t v el dt nb md nl hf hw.1 hs.1 hso.1 hm hwf
    have h2 := cast_lvAllO o t rest el dt nb md nl hf hw.2 hs.2 hso.2 hm hwf
    simp [lvOAll, normAll, dvalAll, Read.claimVals, Read.DVals.toList, h1, h2, Read.consClaim, Read.must]

theorem cast_lvEntriesO (o : TraceOpts) : ∀ (k v : Ty) (es : VEntries) (ks vs : Arr)
    (kdt : DataType) (knb : Bool) (kmd : Metadata) (vdt : DataType) (vnb : Bool) (vmd : Metadata),
    fragE k = true → fragE v = true → wtEntries k v es = true → inScopeUEntries o k v es = true → strOKEntries o k v es = true →
    mappingDT o k = (kdt, knb, kmd) → mappingDT o v = (vdt, vnb, vmd) →
    Spec.wf kdt knb ks = true → Spec.wf vdt vnb vs = true →
    Read.claimEntries (fun w => Read.cast (toTarget k) ks w) (fun w => Read.cast (toTarget v) vs w) (lvOEntries o k v es) =
      .ok (some (dvalEntries k v (normEntries k v es)).toList)
  | k, v, .nil, _, _, _, _, _, _, _, _, _, _, _, _, _, _, _, _, _ => by
    simp [lvOEntries, normEntries, dvalEntries, Read.claimEntries, Read.DEntries.toList]
  | k, v, .cons a b rest, ks, vs, kdt, knb, kmd, vdt, vnb, vmd, hfk, hfv, hw, hs, hso, hk, hv, hwk, hwv => by
    simp only [wtEntries, Bool.and_eq_true] at hw
    simp only [inScopeUEntries, Bool.and_eq_true] at hs
    simp only [strOKEntries, Bool.and_eq_true] at hso
    have h1 := cast_lvO o k a ks kdt knb kmd knb hfk hw.1.1 hs.1.1 hso.1.1 hk hwk
    have h2 := cast_lvO o v b vs vdt vnb vmd vnb hfv hw.1.2 hs.1.2 hso.1.2 hv hwv
    have h3 := cast_lvEntriesO o k v rest ks vs kdt knb kmd vdt vnb vmd hfk hfv hw.2 hs.2 hso.2 hk hv hwk hwv
    simp [lvOEntries, normEntries, dvalEntries, Read.claimEntries, Read.DEntries.toList, h1, h2, h3, Read.consClaim,
      Read.pairClaim, Read.must]

theorem cast_lvFieldsO (o : TraceOpts) (cols : ArrFields) (lfs : LFields) : ∀ (fs2 : TFields) (vs2 : Vals),
    fragEFields fs2 = true → wtFields fs2 vs2 = true → inScopeUFields o fs2 vs2 = true → strOKFields o fs2 vs2 = true → FoundA o cols lfs fs2 vs2 →
    Read.castFields (toTargetFields fs2) cols lfs = .ok (some (dvalFields fs2 (normFields fs2 vs2)).toList)
  | .nil, .nil, _, _, _, _, _ => by simp [toTargetFields, Read.castFields, normFields, dvalFields, Read.DEntries.toList]
  | .nil, .cons _ _, _, hw, _, _, _ => by simp [wtFields] at hw
  | .cons _ _ _ _, .nil, _, hw, _, _, _ => by simp [wtFields] at hw
  | .cons n s t rest, .cons v vrest, hf, hw, hs, hso, hfound => by
    simp only [fragEFields, Bool.and_eq_true] at hf
    simp only [wtFields, Bool.and_eq_true] at hw
    simp only [inScopeUFields, Bool.and_eq_true] at hs
    simp only [strOKFields, Bool.and_eq_true] at hso
    obtain ⟨⟨a, dt, nb, md, nl, h1, h2, h3⟩, hr⟩ := hfound
    have hc := cast_lvO o t v a dt nb md nl hf.1.1 hw.1 hs.1 hso.1 h2 h3
    have ih := cast_lvFieldsO o cols lfs rest vrest hf.2 hw.2 hs.2 hso.2 hr
    simp [toTargetFields, Read.castFields, h1, hc, ih, normFields, dvalFields, Read.DEntries.toList, Read.consClaim,
      Read.must, nameKey]

theorem cast_lvPosO (o : TraceOpts) : ∀ (ts : Tys) (vs : Vals) (i : Nat) (cols : ArrFields) (len : Nat),
    fragETys ts = true → wtPos ts vs = true → inScopeUPos o ts vs = true → strOKPos o ts vs = true → Spec.wfFields (mappingPos o i ts) cols len = true →
    Read.castTuple (toTargets ts) cols (lvOPos o i ts vs) = .ok (some (dvalPos ts (normPos ts vs)).toList)
  | .nil, .nil, _, _, _, _, _, _, _, _ => by simp [toTargets, Read.castTuple, normPos, dvalPos, Read.DVals.toList]
  | .nil, .cons _ _, _, _, _, _, hw, _, _, _ => by simp [wtPos] at hw
  | .cons _ _, .nil, _, _, _, _, hw, _, _, _ => by simp [wtPos] at hw
  | .cons t rest, .cons v vrest, i, .nil, len, _, _, _, _, h => by
    rcases hm : mappingDT o t with ⟨dt, nb, md⟩
    simp [mappingPos, hm, Spec.wfFields] at h
  | .cons t rest, .cons v vrest, i, .cons fm a arest, len, hf, hw, hs, hso, h => by
    rcases hm : mappingDT o t with ⟨dt, nb, md⟩
    simp only [mappingPos, hm, Spec.wfFields, Bool.and_eq_true] at h
    simp only [fragETys, Bool.and_eq_true] at hf
    simp only [wtPos, Bool.and_eq_true] at hw
    simp only [inScopeUPos, Bool.and_eq_true] at hs
    simp only [strOKPos, Bool.and_eq_true] at hso
    have hc := cast_lvO o t v a dt nb md nb hf.1 hw.1 hs.1 hso.1 hm (by simpa [Field.dataType, Field.nullable] using h.1.2)
    have ih := cast_lvPosO o rest vrest (i + 1) arest len hf.2 hw.2 hs.2 hso.2 h.2
    simp [toTargets, lvOPos, Read.castTuple, hc, ih, normPos, dvalPos, Read.DVals.toList, Read.consClaim, Read.must]
end

/-! ### the statements about `lv` (stronger exclusion `inScope`: no value of a string-stored enum at all), derived from `cast_lvO`

Under `inScope` the two exclusions hold and `lvO o = lv` (`scope_of_inScope`, Lemmas/C04ScopeLv.lean). -/

theorem cast_lvE (o : TraceOpts) (t : Ty) (v : Val) (a : Arr) (dt : DataType) (nb : Bool) (md : Metadata) (nl : Bool)
    (hf : fragE t = true) (hw : wt t v = true) (hs : inScope o t v = true) (hm : mappingDT o t = (dt, nb, md))
    (hwf : Spec.wf dt nl a = true) : Read.cast (toTarget t) a (lv t v) = Read.must (dvalOf t (norm t v)) := by
  have h := scope_of_inScope o t v hs
  rw [← h.2.2]; exact cast_lvO o t v a dt nb md nl hf hw h.1 h.2.1 hm hwf

theorem cast_lvAllE (o : TraceOpts) (t : Ty) (vs : Vals) (el : Arr) (dt : DataType) (nb : Bool) (md : Metadata) (nl : Bool)
    (hf : fragE t = true) (hw : wtAll t vs = true) (hs : inScopeAll o t vs = true) (hm : mappingDT o t = (dt, nb, md))
    (hwf : Spec.wf dt nl el = true) :
    Read.claimVals (fun x => Read.cast (toTarget t) el x) (lvAll t vs) = .ok (some (dvalAll t (normAll t vs)).toList) := by
  have h := scope_of_inScopeAll o t vs hs
  rw [← h.2.2]; exact cast_lvAllO o t vs el dt nb md nl hf hw h.1 h.2.1 hm hwf

theorem cast_lvEntriesE (o : TraceOpts) (k v : Ty) (es : VEntries) (ks vs : Arr)
    (kdt : DataType) (knb : Bool) (kmd : Metadata) (vdt : DataType) (vnb : Bool) (vmd : Metadata)
    (hfk : fragE k = true) (hfv : fragE v = true) (hw : wtEntries k v es = true) (hs : inScopeEntries o k v es = true)
    (hk : mappingDT o k = (kdt, knb, kmd)) (hv : mappingDT o v = (vdt, vnb, vmd))
    (hwk : Spec.wf kdt knb ks = true) (hwv : Spec.wf vdt vnb vs = true) :
    Read.claimEntries (fun w => Read.cast (toTarget k) ks w) (fun w => Read.cast (toTarget v) vs w) (lvEntries k v es) =
      .ok (some (dvalEntries k v (normEntries k v es)).toList) := by
  have h := scope_of_inScopeEntries o k v es hs
  rw [← h.2.2]; exact cast_lvEntriesO o k v es ks vs kdt knb kmd vdt vnb vmd hfk hfv hw h.1 h.2.1 hk hv hwk hwv

theorem cast_lvPosE (o : TraceOpts) (ts : Tys) (vs : Vals) (i : Nat) (cols : ArrFields) (len : Nat)
    (hf : fragETys ts = true) (hw : wtPos ts vs = true) (hs : inScopePos o ts vs = true)
    (h : Spec.wfFields (mappingPos o i ts) cols len = true) :
    Read.castTuple (toTargets ts) cols (lvPos i ts vs) = .ok (some (dvalPos ts (normPos ts vs)).toList) := by
  have hh := scope_of_inScopePos o i ts vs hs
  rw [← hh.2.2]; exact cast_lvPosO o ts vs i cols len hf hw hh.1 hh.2.1 h

/-- `cast_lvE` on the enum-free fragment (no exclusion applies) -/
theorem cast_lv (o : TraceOpts) (t : Ty) (v : Val) (a : Arr) (dt : DataType) (nb : Bool) (md : Metadata) (nl : Bool)
    (hf : frag t = true) (hw : wt t v = true) (hm : mappingDT o t = (dt, nb, md)) (hwf : Spec.wf dt nl a = true) :
    Read.cast (toTarget t) a (lv t v) = Read.must (dvalOf t (norm t v)) :=
  cast_lvE o t v a dt nb md nl (frag_fragE t hf) hw (frag_inScope o t v hf) hm hwf

end SaModel.Roundtrip
