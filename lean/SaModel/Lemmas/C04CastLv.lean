import SaModel.Lemmas.C04Cast
import SaModel.Lemmas.C04CastEnum
/-
C04: `cast_lvE` — the typed read specification `Read.cast`, at the target of a type, on the logical value of a value of
that type, in a well-formed array of the traced field, demands exactly the normalised value (fragment `fragE`).
Mutual structural recursion over the value.
-/
namespace SaModel.Roundtrip
open SaModel SaModel.Spec SaModel.Build

mutual
theorem cast_lvE (o : TraceOpts) : ∀ (t : Ty) (v : Val) (a : Arr) (dt : DataType) (nb : Bool) (md : Metadata) (nl : Bool),
    fragE t = true → wt t v = true → inScope o t v = true → mappingDT o t = (dt, nb, md) → Spec.wf dt nl a = true →
    Read.cast (toTarget t) a (lv t v) = Read.must (dvalOf t (norm t v))
  | t, .bool b, a, dt, nb, md, nl, hf, hw, hs, hm, hwf => by
    cases t with
    | prim p =>
      simp only [mappingDT, Prod.mk.injEq] at hm; obtain ⟨rfl, rfl, rfl⟩ := hm
      rw [norm_prim]; exact cast_prim o p _ a nl (by simpa [wt] using hw) hwf
    | _ => simp [wt] at hw
  | t, .int x, a, dt, nb, md, nl, hf, hw, hs, hm, hwf => by
    cases t with
    | prim p =>
      simp only [mappingDT, Prod.mk.injEq] at hm; obtain ⟨rfl, rfl, rfl⟩ := hm
      rw [norm_prim]; exact cast_prim o p _ a nl (by simpa [wt] using hw) hwf
    | _ => simp [wt] at hw
  | t, .f32 x, a, dt, nb, md, nl, hf, hw, hs, hm, hwf => by
    cases t with
    | prim p =>
      simp only [mappingDT, Prod.mk.injEq] at hm; obtain ⟨rfl, rfl, rfl⟩ := hm
      rw [norm_prim]; exact cast_prim o p _ a nl (by simpa [wt] using hw) hwf
    | _ => simp [wt] at hw
  | t, .f64 x, a, dt, nb, md, nl, hf, hw, hs, hm, hwf => by
    cases t with
    | prim p =>
      simp only [mappingDT, Prod.mk.injEq] at hm; obtain ⟨rfl, rfl, rfl⟩ := hm
      rw [norm_prim]; exact cast_prim o p _ a nl (by simpa [wt] using hw) hwf
    | _ => simp [wt] at hw
  | t, .char x, a, dt, nb, md, nl, hf, hw, hs, hm, hwf => by
    cases t with
    | prim p =>
      simp only [mappingDT, Prod.mk.injEq] at hm; obtain ⟨rfl, rfl, rfl⟩ := hm
      rw [norm_prim]; exact cast_prim o p _ a nl (by simpa [wt] using hw) hwf
    | _ => simp [wt] at hw
  | t, .str x, a, dt, nb, md, nl, hf, hw, hs, hm, hwf => by
    cases t with
    | prim p =>
      simp only [mappingDT, Prod.mk.injEq] at hm; obtain ⟨rfl, rfl, rfl⟩ := hm
      rw [norm_prim]; exact cast_prim o p _ a nl (by simpa [wt] using hw) hwf
    | _ => simp [wt] at hw
  | t, .bytes x, a, dt, nb, md, nl, hf, hw, hs, hm, hwf => by
    cases t with
    | prim p =>
      simp only [mappingDT, Prod.mk.injEq] at hm; obtain ⟨rfl, rfl, rfl⟩ := hm
      rw [norm_prim]; exact cast_prim o p _ a nl (by simpa [wt] using hw) hwf
    | _ => simp [wt] at hw
  | t, .unit, a, dt, nb, md, nl, hf, hw, hs, hm, hwf => by
    cases t with
    | prim p => cases p <;> simp [wt, Prim.wt] at hw
    | unit =>
      simp only [mappingDT, Prod.mk.injEq] at hm; obtain ⟨rfl, rfl, rfl⟩ := hm
      obtain ⟨len, rfl⟩ := wf_null hwf
      simp [toTarget, lv, norm, dvalOf, Read.cast, Read.castScalar, Read.isNullArr]
    | unitStruct n =>
      simp only [mappingDT, Prod.mk.injEq] at hm; obtain ⟨rfl, rfl, rfl⟩ := hm
      obtain ⟨len, rfl⟩ := wf_null hwf
      simp [toTarget, lv, norm, dvalOf, Read.cast, Read.castScalar, Read.isNullArr]
    | _ => simp [wt] at hw
  | t, .none, a, dt, nb, md, nl, hf, hw, hs, hm, hwf => by
    cases t with
    | prim p => cases p <;> simp [wt, Prim.wt] at hw
    | option t' => simp [toTarget, lv, norm, dvalOf, Read.cast]
    | _ => simp [wt] at hw
  | t, .some v, a, dt, nb, md, nl, hf, hw, hs, hm, hwf => by
    cases t with
    | prim p => cases p <;> simp [wt, Prim.wt] at hw
    | option t' =>
      rcases hm' : mappingDT o t' with ⟨dt', nb', md'⟩
      simp only [mappingDT, hm', Prod.mk.injEq] at hm; obtain ⟨rfl, rfl, rfl⟩ := hm
      have ih := cast_lvE o t' v a _ _ _ nl (by simpa [fragE] using hf) (by simpa [wt] using hw) (by simpa [inScope] using hs) hm' hwf
      by_cases hn : lv t' v = .null
      · simp [toTarget, lv, norm, dvalOf, hn, Read.cast]
      · simp only [toTarget, lv, norm, hn, if_false, dvalOf]
        exact cast_option_nonnull _ a _ _ hn ih
    | _ => simp [wt] at hw
  | t, .newtype v, a, dt, nb, md, nl, hf, hw, hs, hm, hwf => by
    cases t with
    | prim p => cases p <;> simp [wt, Prim.wt] at hw
    | newtype n t' =>
      simp only [mappingDT] at hm
      have ih := cast_lvE o t' v a _ _ _ nl (by simpa [fragE] using hf) (by simpa [wt] using hw) (by simpa [inScope] using hs) hm hwf
      simpa [toTarget, lv, norm, dvalOf, Read.cast] using ih
    | _ => simp [wt] at hw
  | t, .vec vs, a, dt, nb, md, nl, hf, hw, hs, hm, hwf => by
    cases t with
    | prim p => cases p <;> simp [wt, Prim.wt] at hw
    | vec t' =>
      rcases hm' : mappingDT o t' with ⟨dt', nb', md'⟩
      simp only [mappingDT, hm', Prod.mk.injEq] at hm; obtain ⟨rfl, rfl, rfl⟩ := hm
      have hel : ∃ lg v offs fm el, a = .list lg v offs fm el ∧ Spec.wf dt' nb' el = true := by
        by_cases hl : o.sequenceAsLargeList = true
        · simp only [hl, if_true] at hwf
          obtain ⟨v, offs, fm, el, rfl, _, h⟩ := wf_largeList hwf
          exact ⟨_, v, offs, fm, el, rfl, h⟩
        · simp only [hl] at hwf
          obtain ⟨v, offs, fm, el, rfl, _, h⟩ := wf_list hwf
          exact ⟨_, v, offs, fm, el, rfl, h⟩
      obtain ⟨lg, vv, offs, fm, el, rfl, hel⟩ := hel
      have ih := cast_lvAllE o t' vs el dt' nb' md' nb' (by simpa [fragE] using hf) (by simpa [wt] using hw) (by simpa [inScope] using hs) hm' hel
      simp [toTarget, lv, norm, dvalOf, Read.cast, ih, Read.andThenL, DVals.ofList_toList]
    | _ => simp [wt] at hw
  | t, .map es, a, dt, nb, md, nl, hf, hw, hs, hm, hwf => by
    cases t with
    | prim p => cases p <;> simp [wt, Prim.wt] at hw
    | map k v =>
      rcases hk : mappingDT o k with ⟨kdt, knb, kmd⟩
      rcases hv : mappingDT o v with ⟨vdt, vnb, vmd⟩
      simp only [mappingDT, hk, hv, Prod.mk.injEq] at hm; obtain ⟨rfl, rfl, rfl⟩ := hm
      simp only [fragE, Bool.and_eq_true] at hf
      obtain ⟨vv, offs, mm, ks, vs, rfl, _, _, hwk, hwv⟩ := wf_map hwf
      have ih := cast_lvEntriesE o k v es ks vs kdt knb kmd vdt vnb vmd hf.1 hf.2 (by simpa [wt] using hw) (by simpa [inScope] using hs) hk hv hwk hwv
      simp [toTarget, lv, norm, dvalOf, Read.cast, ih, Read.andThenE, DEntries.ofList_toList]
    | _ => simp [wt] at hw
  | t, .tuple vs, a, dt, nb, md, nl, hf, hw, hs, hm, hwf => by
    cases t with
    | prim p => cases p <;> simp [wt, Prim.wt] at hw
    | tuple ts =>
      simp only [mappingDT, Prod.mk.injEq] at hm; obtain ⟨rfl, rfl, rfl⟩ := hm
      obtain ⟨len, vv, cols, rfl, _, hcols⟩ := wf_struct hwf
      have ih := cast_lvPosE o ts vs 0 cols len (by simpa [fragE] using hf) (by simpa [wt] using hw) (by simpa [inScope] using hs) hcols
      simp [toTarget, lv, norm, dvalOf, Read.cast, Read.tupleClaim, ih, Read.andThenL, DVals.ofList_toList]
    | tupleStruct n ts =>
      simp only [mappingDT, Prod.mk.injEq] at hm; obtain ⟨rfl, rfl, rfl⟩ := hm
      obtain ⟨len, vv, cols, rfl, _, hcols⟩ := wf_struct hwf
      have ih := cast_lvPosE o ts vs 0 cols len (by simpa [fragE] using hf) (by simpa [wt] using hw) (by simpa [inScope] using hs) hcols
      simp [toTarget, lv, norm, dvalOf, Read.cast, Read.tupleClaim, ih, Read.andThenL, DVals.ofList_toList]
    | _ => simp [wt] at hw
  | t, .struct vs, a, dt, nb, md, nl, hf, hw, hs, hm, hwf => by
    cases t with
    | prim p => cases p <;> simp [wt, Prim.wt] at hw
    | struct n fs =>
      simp only [mappingDT, Prod.mk.injEq] at hm; obtain ⟨rfl, rfl, rfl⟩ := hm
      simp only [fragE, Bool.and_eq_true, Bool.not_eq_true'] at hf
      have hw' : wtFields fs vs = true := by simpa [wt] using hw
      obtain ⟨len, vv, cols, rfl, _, hcols⟩ := wf_struct hwf
      have hfound := foundA_of o len fs vs cols hcols hw' hf.1
      have ih := cast_lvFieldsE o cols (lvFields fs vs) fs vs hf.2 hw' (by simpa [inScope] using hs) hfound
      have hn1 := wfFields_names o fs cols len hcols
      simp [toTarget, lv, norm, dvalOf, Read.cast, Read.structClaim, hn1, toTargetFields_names, nodupNames_eq, hf.1, ih,
        Read.andThenE, DEntries.ofList_toList]
    | _ => simp [wt] at hw
  | t, .variant i p, a, dt, nb, md, nl, hf, hw, hs, hm, hwf => by
    cases t with
    | prim p => cases p <;> simp [wt, Prim.wt] at hw
    | enum n vars =>
      simp only [inScope, Bool.and_eq_true, Bool.not_eq_true'] at hs
      obtain ⟨hform, hpay⟩ := hs
      obtain ⟨rfl, rfl, rfl⟩ := enum_union o n vars dt nb md hform hm
      simp only [fragE, Bool.and_eq_true, Bool.not_eq_true'] at hf
      obtain ⟨types, offs, cols, rfl, hcols⟩ := wf_union hwf
      cases hg : vars.get? i with
      | none => simp [wt, hg] at hw
      | some q =>
        obtain ⟨vn, kind⟩ := q
        have hfk := fragEVariants_get vars i vn kind hf.2 hg
        obtain ⟨fm, child, hfind, hname, hchild⟩ := findId_variant o vars cols 0 i vn kind (by simpa using hcols) hg
        simp only [Nat.zero_add] at hfind
        have hcv := castVariant_get child
        cases kind with
        | unit =>
          obtain ⟨len, rfl⟩ := wf_null (by simpa [variantField, Field.dataType, Field.nullable] using hchild)
          simp [toTarget, lv, norm, dvalOf, hg, Read.cast, hfind, hname, hcv _ vars i vn .unit hf.1 hg, toTargetKind,
            Read.castKind, Read.isNullArr, Read.LVal.isNull, Read.Claim.andThen, Read.must]
        | newtype t' =>
          have hw' : wtSingle t' p = true := by simpa [wt, hg] using hw
          rcases hm' : mappingDT o t' with ⟨dt', nb', md'⟩
          cases p with
          | nil => simp [wtSingle] at hw'
          | cons v rest =>
            cases rest with
            | cons _ _ => simp [wtSingle] at hw'
            | nil =>
              have ih := cast_lvE o t' v child dt' nb' md' nb' (by simpa [fragEVariant] using hfk)
                (by simpa [wtSingle] using hw') (by simpa [hg, inScopeSingle] using hpay) hm'
                (by simpa [variantField, Field.dataType, Field.nullable, hm'] using hchild)
              simp [toTarget, lv, norm, dvalOf, hg, lvSingle, normSingle, dvalSingle, Read.cast, hfind, hname,
                hcv _ vars i vn _ hf.1 hg, toTargetKind, Read.castKind, ih, Read.Claim.andThen, Read.must]
        | tuple ts =>
          have hw' : wtPos ts p = true := by simpa [wt, hg] using hw
          obtain ⟨len, vv, ccols, rfl, _, hccols⟩ := wf_struct
            (by simpa [variantField, Field.dataType, Field.nullable] using hchild : Spec.wf (.struct (mappingPos o 0 ts)) false child = true)
          have ih := cast_lvPosE o ts p 0 ccols len (by simpa [fragEVariant] using hfk) hw' (by simpa [hg] using hpay) hccols
          simp [toTarget, lv, norm, dvalOf, hg, Read.cast, hfind, hname, hcv _ vars i vn _ hf.1 hg, toTargetKind,
            Read.castKind, Read.tupleClaim, ih, Read.andThenL, DVals.ofList_toList, Read.Claim.andThen, Read.must]
        | struct fs =>
          have hw' : wtFields fs p = true := by simpa [wt, hg] using hw
          simp only [fragEVariant, Bool.and_eq_true, Bool.not_eq_true'] at hfk
          obtain ⟨len, vv, ccols, rfl, _, hccols⟩ := wf_struct
            (by simpa [variantField, Field.dataType, Field.nullable] using hchild : Spec.wf (.struct (mappingFields o fs)) false child = true)
          have hfound := foundA_of o len fs p ccols hccols hw' hfk.1
          have ih := cast_lvFieldsE o ccols (lvFields fs p) fs p hfk.2 hw' (by simpa [hg] using hpay) hfound
          have hn1 := wfFields_names o fs ccols len hccols
          simp [toTarget, lv, norm, dvalOf, hg, Read.cast, hfind, hname, hcv _ vars i vn _ hf.1 hg, toTargetKind,
            Read.castKind, Read.structClaim, hn1, toTargetFields_names, nodupNames_eq, hfk.1, ih, Read.andThenE,
            DEntries.ofList_toList, Read.Claim.andThen, Read.must]
    | _ => simp [wt] at hw

theorem cast_lvAllE (o : TraceOpts) : ∀ (t : Ty) (vs : Vals) (el : Arr) (dt : DataType) (nb : Bool) (md : Metadata) (nl : Bool),
    fragE t = true → wtAll t vs = true → inScopeAll o t vs = true → mappingDT o t = (dt, nb, md) → Spec.wf dt nl el = true →
    Read.claimVals (fun x => Read.cast (toTarget t) el x) (lvAll t vs) = .ok (some (dvalAll t (normAll t vs)).toList)
  | t, .nil, el, dt, nb, md, nl, _, _, _, _, _ => by simp [lvAll, normAll, dvalAll, Read.claimVals, Read.DVals.toList]
  | t, .cons v rest, el, dt, nb, md, nl, hf, hw, hs, hm, hwf => by
    simp only [wtAll, Bool.and_eq_true] at hw
    simp only [inScopeAll, Bool.and_eq_true] at hs
    have h1 := cast_lvE o t v el dt nb md nl hf hw.1 hs.1 hm hwf
    have h2 := cast_lvAllE o t rest el dt nb md nl hf hw.2 hs.2 hm hwf
    simp [lvAll, normAll, dvalAll, Read.claimVals, Read.DVals.toList, h1, h2, Read.consClaim, Read.must]

theorem cast_lvEntriesE (o : TraceOpts) : ∀ (k v : Ty) (es : VEntries) (ks vs : Arr)
    (kdt : DataType) (knb : Bool) (kmd : Metadata) (vdt : DataType) (vnb : Bool) (vmd : Metadata),
    fragE k = true → fragE v = true → wtEntries k v es = true → inScopeEntries o k v es = true →
    mappingDT o k = (kdt, knb, kmd) → mappingDT o v = (vdt, vnb, vmd) →
    Spec.wf kdt knb ks = true → Spec.wf vdt vnb vs = true →
    Read.claimEntries (fun w => Read.cast (toTarget k) ks w) (fun w => Read.cast (toTarget v) vs w) (lvEntries k v es) =
      .ok (some (dvalEntries k v (normEntries k v es)).toList)
  | k, v, .nil, _, _, _, _, _, _, _, _, _, _, _, _, _, _, _, _ => by
    simp [lvEntries, normEntries, dvalEntries, Read.claimEntries, Read.DEntries.toList]
  | k, v, .cons a b rest, ks, vs, kdt, knb, kmd, vdt, vnb, vmd, hfk, hfv, hw, hs, hk, hv, hwk, hwv => by
    simp only [wtEntries, Bool.and_eq_true] at hw
    simp only [inScopeEntries, Bool.and_eq_true] at hs
    have h1 := cast_lvE o k a ks kdt knb kmd knb hfk hw.1.1 hs.1.1 hk hwk
    have h2 := cast_lvE o v b vs vdt vnb vmd vnb hfv hw.1.2 hs.1.2 hv hwv
    have h3 := cast_lvEntriesE o k v rest ks vs kdt knb kmd vdt vnb vmd hfk hfv hw.2 hs.2 hk hv hwk hwv
    simp [lvEntries, normEntries, dvalEntries, Read.claimEntries, Read.DEntries.toList, h1, h2, h3, Read.consClaim,
      Read.pairClaim, Read.must]

theorem cast_lvFieldsE (o : TraceOpts) (cols : ArrFields) (lfs : LFields) : ∀ (fs2 : TFields) (vs2 : Vals),
    fragEFields fs2 = true → wtFields fs2 vs2 = true → inScopeFields o fs2 vs2 = true → FoundA o cols lfs fs2 vs2 →
    Read.castFields (toTargetFields fs2) cols lfs = .ok (some (dvalFields fs2 (normFields fs2 vs2)).toList)
  | .nil, .nil, _, _, _, _ => by simp [toTargetFields, Read.castFields, normFields, dvalFields, Read.DEntries.toList]
  | .nil, .cons _ _, _, hw, _, _ => by simp [wtFields] at hw
  | .cons _ _ _ _, .nil, _, hw, _, _ => by simp [wtFields] at hw
  | .cons n s t rest, .cons v vrest, hf, hw, hs, hfound => by
    simp only [fragEFields, Bool.and_eq_true] at hf
    simp only [wtFields, Bool.and_eq_true] at hw
    simp only [inScopeFields, Bool.and_eq_true] at hs
    obtain ⟨⟨a, dt, nb, md, nl, h1, h2, h3⟩, hr⟩ := hfound
    have hc := cast_lvE o t v a dt nb md nl hf.1.1 hw.1 hs.1 h2 h3
    have ih := cast_lvFieldsE o cols lfs rest vrest hf.2 hw.2 hs.2 hr
    simp [toTargetFields, Read.castFields, h1, hc, ih, normFields, dvalFields, Read.DEntries.toList, Read.consClaim,
      Read.must, nameKey]

theorem cast_lvPosE (o : TraceOpts) : ∀ (ts : Tys) (vs : Vals) (i : Nat) (cols : ArrFields) (len : Nat),
    fragETys ts = true → wtPos ts vs = true → inScopePos o ts vs = true → Spec.wfFields (mappingPos o i ts) cols len = true →
    Read.castTuple (toTargets ts) cols (lvPos i ts vs) = .ok (some (dvalPos ts (normPos ts vs)).toList)
  | .nil, .nil, _, _, _, _, _, _, _ => by simp [toTargets, Read.castTuple, normPos, dvalPos, Read.DVals.toList]
  | .nil, .cons _ _, _, _, _, _, hw, _, _ => by simp [wtPos] at hw
  | .cons _ _, .nil, _, _, _, _, hw, _, _ => by simp [wtPos] at hw
  | .cons t rest, .cons v vrest, i, .nil, len, _, _, _, h => by
    rcases hm : mappingDT o t with ⟨dt, nb, md⟩
    simp [mappingPos, hm, Spec.wfFields] at h
  | .cons t rest, .cons v vrest, i, .cons fm a arest, len, hf, hw, hs, h => by
    rcases hm : mappingDT o t with ⟨dt, nb, md⟩
    simp only [mappingPos, hm, Spec.wfFields, Bool.and_eq_true] at h
    simp only [fragETys, Bool.and_eq_true] at hf
    simp only [wtPos, Bool.and_eq_true] at hw
    simp only [inScopePos, Bool.and_eq_true] at hs
    have hc := cast_lvE o t v a dt nb md nb hf.1 hw.1 hs.1 hm (by simpa [Field.dataType, Field.nullable] using h.1.2)
    have ih := cast_lvPosE o rest vrest (i + 1) arest len hf.2 hw.2 hs.2 h.2
    simp [toTargets, lvPos, Read.castTuple, hc, ih, normPos, dvalPos, Read.DVals.toList, Read.consClaim, Read.must]
end

/-- `cast_lvE` on the enum-free fragment (no exclusion applies) -/
theorem cast_lv (o : TraceOpts) (t : Ty) (v : Val) (a : Arr) (dt : DataType) (nb : Bool) (md : Metadata) (nl : Bool)
    (hf : frag t = true) (hw : wt t v = true) (hm : mappingDT o t = (dt, nb, md)) (hwf : Spec.wf dt nl a = true) :
    Read.cast (toTarget t) a (lv t v) = Read.must (dvalOf t (norm t v)) :=
  cast_lvE o t v a dt nb md nl (frag_fragE t hf) hw (frag_inScope o t v hf) hm hwf

end SaModel.Roundtrip
