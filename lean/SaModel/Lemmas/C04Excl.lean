import SaModel.Lemmas.C04Interp
import SaModel.Lemmas.C04Scope
/-
C04: the type-directed exclusion `inScopeU o t v` (no `None`, nor a field left out by `skip_serializing_if`, at a position
traced to a Union) IS the run-time exclusion the `roundtrip` driver decides on (schema, serialized row):
      inScopeU o t v = !noneAtUnion (mappingDT o t).1 (ser t v)          (fragE t, wt t v)
and at the root   inScopeU o (.struct n fs) v = !noneAtUnionRow (mappingFields o fs).toList (ser (.struct n fs) v).
Whole grammar `fragE` (enums in both storage forms, all four variant kinds), every option set.
Structurally recursive on the value.
-/
namespace SaModel.Roundtrip
open SaModel SaModel.Build

/-! ### the data types of wrappers -/

theorem mappingDT_option_fst (o : TraceOpts) (t : Ty) : (mappingDT o (.option t)).1 = (mappingDT o t).1 := by
  rcases hm : mappingDT o t with ⟨dt, nb, md⟩
  simp only [mappingDT, hm]

theorem mappingDT_newtype_eq (o : TraceOpts) (n : String) (t : Ty) : mappingDT o (.newtype n t) = mappingDT o t := by
  simp only [mappingDT]

/-- a data-less type is traced to Null -/
theorem nullTy_dt (o : TraceOpts) : ∀ (t : Ty), isNullTy t = true → (mappingDT o t).1 = .null
  | .unit, _ => by simp only [mappingDT]
  | .unitStruct _, _ => by simp only [mappingDT]
  | .option t, h => by
    rw [mappingDT_option_fst]; exact nullTy_dt o t (by simpa [isNullTy] using h)
  | .newtype n t, h => by
    rw [mappingDT_newtype_eq]; exact nullTy_dt o t (by simpa [isNullTy] using h)
  | .prim _, h | .vec _, h | .tuple _, h | .struct _ _, h | .tupleStruct _ _, h | .enum _ _, h | .map _ _, h => by
    simp [isNullTy] at h

/-- no Union below a data-less type: the exclusion is vacuous there -/
theorem nullTy_inScopeU (o : TraceOpts) : ∀ (t : Ty) (v : Val), isNullTy t = true → inScopeU o t v = true
  | .unit, v, _ => by cases v <;> simp [inScopeU]
  | .unitStruct _, v, _ => by cases v <;> simp [inScopeU]
  | .option t, v, h => by
    have h' : isNullTy t = true := by simpa [isNullTy] using h
    cases v with
    | none => simp [inScopeU, nullTy_dt o t h', isUnion]
    | some v => simpa [inScopeU] using nullTy_inScopeU o t v h'
    | _ => simp [inScopeU]
  | .newtype n t, v, h => by
    have h' : isNullTy t = true := by simpa [isNullTy] using h
    cases v with
    | newtype v => simpa [inScopeU] using nullTy_inScopeU o t v h'
    | _ => simp [inScopeU]
  | .prim _, _, h | .vec _, _, h | .tuple _, _, h | .struct _ _, _, h | .tupleStruct _ _, _, h | .enum _ _, _, h
  | .map _ _, _, h => by
    simp [isNullTy] at h

/-- the variants of an enum "without data" are unit variants and newtype variants around data-less types -/
theorem withoutData_get : ∀ (vars : Variants) (i : Nat) (vn : String) (kind : Variant),
    vars.withoutData = true → vars.get? i = some (vn, kind) →
    kind = .unit ∨ ∃ t, kind = .newtype t ∧ isNullTy t = true
  | .nil, _, _, _, _, h => by simp [Variants.get?] at h
  | .cons n v rest, 0, vn, kind, hw, h => by
    simp only [Variants.get?, Option.some.injEq, Prod.mk.injEq] at h
    obtain ⟨_, rfl⟩ := h
    cases v with
    | unit => exact .inl rfl
    | newtype t =>
      simp only [Variants.withoutData, Bool.and_eq_true] at hw
      exact .inr ⟨t, rfl, hw.1⟩
    | tuple ts => simp [Variants.withoutData] at hw
    | struct fs => simp [Variants.withoutData] at hw
  | .cons n v rest, i + 1, vn, kind, hw, h => by
    have hr : rest.withoutData = true := by
      cases v with
      | unit => simpa [Variants.withoutData] using hw
      | newtype t =>
        simp only [Variants.withoutData, Bool.and_eq_true] at hw
        exact hw.2
      | tuple ts => simp [Variants.withoutData] at hw
      | struct fs => simp [Variants.withoutData] at hw
    exact withoutData_get rest i vn kind hr (by simpa [Variants.get?] using h)

/-! ### the children of the Union -/

/-- the data type of the child of the Union an enum is traced to, for one variant (`(variantField o vn kind).dataType`) -/
def variantDT (o : TraceOpts) : Variant → DataType
  | .unit => .null
  | .newtype t => (mappingDT o t).1
  | .tuple ts => .struct (mappingPos o 0 ts)
  | .struct fs => .struct (mappingFields o fs)

theorem variantDT_eq (o : TraceOpts) (vn : String) (kind : Variant) : variantDT o kind = (variantField o vn kind).dataType := by
  cases kind <;> rfl

/-- child `i` of the Union is the `i`-th variant's field -/
theorem dtAt_mappingVariants (o : TraceOpts) : ∀ (vars : Variants) (k i : Nat),
    UFields.dtAt (mappingVariants o k vars) i = (vars.get? i).map fun p => variantDT o p.2
  | .nil, _, _ => by simp [mappingVariants, UFields.dtAt, Variants.get?]
  | .cons vn v rest, k, 0 => by
    cases v with
    | newtype t =>
      rcases hm : mappingDT o t with ⟨dt, nb, md⟩
      simp [mappingVariants, UFields.dtAt, Variants.get?, variantDT, hm]
    | _ => simp [mappingVariants, UFields.dtAt, Variants.get?, variantDT]
  | .cons vn v rest, k, i + 1 => by
    have ih := dtAt_mappingVariants o rest (k + 1) i
    cases v <;> (simp only [mappingVariants, UFields.dtAt, Variants.get?]; exact ih)

/-! ### records: keys of the serialized record vs fields of the traced Struct -/

private theorem beq_false_symm {a b : String} (h : (a == b) = false) : (b == a) = false := by
  have h1 : a ≠ b := by simpa using h
  have h2 : b ≠ a := fun e => h1 e.symm
  simpa using h2

/-- the keys of a serialized record are field names -/
theorem hasKey_serFields (name : String) : ∀ (fs : TFields) (vs : Vals), fs.names.contains name = false →
    SFields.hasKey (serFields fs vs) name = false
  | .nil, _, _ => by simp [serFields, SFields.hasKey]
  | .cons _ _ _ _, .nil, _ => by simp [serFields, SFields.hasKey]
  | .cons n s t rest, .cons v vrest, h => by
    simp only [TFields.names, List.contains_cons, Bool.or_eq_false_iff] at h
    have ih := hasKey_serFields name rest vrest h.2
    have hne : (n == name) = false := beq_false_symm h.1
    by_cases hs : s = true ∧ v = .none
    · simp [serFields, hs, ih]
    · simp [serFields, hs, SFields.hasKey, hne, ih]

/-- a key that is no field name of the schema does not change which union-typed fields are missing -/
theorem missingUnion_cons_key (o : TraceOpts) (k : String) (a : Nat) (x : SVal) : ∀ (fs : TFields) (S : SFields),
    fs.names.contains k = false →
    missingUnion (mappingFields o fs) (.cons k a x S) = missingUnion (mappingFields o fs) S
  | .nil, _, _ => by simp [mappingFields, missingUnion]
  | .cons n s t rest, S, h => by
    rcases hm : mappingDT o t with ⟨dt, nb, md⟩
    simp only [TFields.names, List.contains_cons, Bool.or_eq_false_iff] at h
    have hne : (k == n) = false := h.1
    simp [mappingFields, hm, missingUnion, SFields.hasKey, hne, missingUnion_cons_key o k a x rest S h.2]

/-- a schema field whose name is no key of the record is never looked up -/
theorem noneAtUnionNamed_cons_field (n : String) (dt : DataType) (nb : Bool) (md : Metadata) (F : Fields) :
    ∀ (S : SFields), SFields.hasKey S n = false →
    noneAtUnionNamed (.cons (.mk n dt nb md) F) S = noneAtUnionNamed F S
  | .nil, _ => by simp [noneAtUnionNamed]
  | .cons k a x rest, h => by
    simp only [SFields.hasKey, Bool.or_eq_false_iff] at h
    have hne : (n == k) = false := beq_false_symm h.1
    simp [noneAtUnionNamed, Fields.dtOf, hne, noneAtUnionNamed_cons_field n dt nb md F rest h.2]

private theorem bool_step_skip (u m x : Bool) (a b : Bool) (ha : a = !u) (hb : b = !(m || x)) :
    (a && b) = !((u && !false || m) || x) := by
  subst ha; subst hb; cases u <;> cases m <;> cases x <;> rfl

private theorem bool_step_keep (u c m x : Bool) (a b : Bool) (ha : a = !c) (hb : b = !(m || x)) :
    (a && b) = !((u && !true || m) || (c || x)) := by
  subst ha; subst hb; cases u <;> cases c <;> cases m <;> cases x <;> rfl

private theorem bool_and_not (c x a b : Bool) (ha : a = !c) (hb : b = !x) : (a && b) = !(c || x) := by
  subst ha; subst hb; cases c <;> cases x <;> rfl

/-! ### the main theorem -/

mutual
/-- **the type-directed exclusion is the driver's run-time exclusion** -/
theorem inScopeU_iff (o : TraceOpts) : ∀ (t : Ty) (v : Val), fragE t = true → wt t v = true →
    inScopeU o t v = !noneAtUnion (mappingDT o t).1 (ser t v)
  | t, .bool b, hf, hw => by
    cases t with
    | prim p => cases p <;> simp [wt, Prim.wt] at hw <;> simp [inScopeU, ser, noneAtUnion]
    | _ => simp [wt] at hw
  | t, .int x, hf, hw => by
    cases t with
    | prim p => cases p <;> simp [wt, Prim.wt] at hw <;> simp [inScopeU, ser, noneAtUnion]
    | _ => simp [wt] at hw
  | t, .f32 x, hf, hw => by
    cases t with
    | prim p => cases p <;> simp [wt, Prim.wt] at hw <;> simp [inScopeU, ser, noneAtUnion]
    | _ => simp [wt] at hw
  | t, .f64 x, hf, hw => by
    cases t with
    | prim p => cases p <;> simp [wt, Prim.wt] at hw <;> simp [inScopeU, ser, noneAtUnion]
    | _ => simp [wt] at hw
  | t, .char x, hf, hw => by
    cases t with
    | prim p => cases p <;> simp [wt, Prim.wt] at hw <;> simp [inScopeU, ser, noneAtUnion]
    | _ => simp [wt] at hw
  | t, .str x, hf, hw => by
    cases t with
    | prim p => cases p <;> simp [wt, Prim.wt] at hw <;> simp [inScopeU, ser, noneAtUnion]
    | _ => simp [wt] at hw
  | t, .bytes x, hf, hw => by
    cases t with
    | prim p => cases p <;> simp [wt, Prim.wt] at hw <;> simp [inScopeU, ser, noneAtUnion, mappingDT, primDT]
    | _ => simp [wt] at hw
  | t, .unit, hf, hw => by
    cases t with
    | prim p => cases p <;> simp [wt, Prim.wt] at hw
    | unit => simp [inScopeU, ser, noneAtUnion, mappingDT, isUnion]
    | unitStruct n => simp [inScopeU, ser, noneAtUnion]
    | _ => simp [wt] at hw
  | t, .none, hf, hw => by
    cases t with
    | prim p => cases p <;> simp [wt, Prim.wt] at hw
    | option t' => rw [mappingDT_option_fst]; simp [inScopeU, ser, noneAtUnion]
    | _ => simp [wt] at hw
  | t, .some v, hf, hw => by
    cases t with
    | prim p => cases p <;> simp [wt, Prim.wt] at hw
    | option t' =>
      have ih := inScopeU_iff o t' v (by simpa [fragE] using hf) (by simpa [wt] using hw)
      rw [mappingDT_option_fst]; simpa [inScopeU, ser, noneAtUnion] using ih
    | _ => simp [wt] at hw
  | t, .newtype v, hf, hw => by
    cases t with
    | prim p => cases p <;> simp [wt, Prim.wt] at hw
    | newtype n t' =>
      have ih := inScopeU_iff o t' v (by simpa [fragE] using hf) (by simpa [wt] using hw)
      rw [mappingDT_newtype_eq]; simpa [inScopeU, ser, noneAtUnion] using ih
    | _ => simp [wt] at hw
  | t, .vec vs, hf, hw => by
    cases t with
    | prim p => cases p <;> simp [wt, Prim.wt] at hw
    | vec t' =>
      have ih := inScopeUAll_iff o t' vs (by simpa [fragE] using hf) (by simpa [wt] using hw)
      rcases hm : mappingDT o t' with ⟨dt, nb, md⟩
      rw [hm] at ih
      by_cases hl : o.sequenceAsLargeList = true <;> simp [inScopeU, ser, mappingDT, hm, hl, noneAtUnion, ih]
    | _ => simp [wt] at hw
  | t, .tuple vs, hf, hw => by
    cases t with
    | prim p => cases p <;> simp [wt, Prim.wt] at hw
    | tuple ts =>
      have ih := inScopeUPos_iff o 0 ts vs (by simpa [fragE] using hf) (by simpa [wt] using hw)
      simp [inScopeU, ser, mappingDT, noneAtUnion, ih]
    | tupleStruct n ts =>
      have ih := inScopeUPos_iff o 0 ts vs (by simpa [fragE] using hf) (by simpa [wt] using hw)
      simp [inScopeU, ser, mappingDT, noneAtUnion, ih]
    | _ => simp [wt] at hw
  | t, .struct vs, hf, hw => by
    cases t with
    | prim p => cases p <;> simp [wt, Prim.wt] at hw
    | struct n fs =>
      simp only [fragE, Bool.and_eq_true, Bool.not_eq_true'] at hf
      have ih := inScopeUFields_iff o fs vs hf.1 hf.2 (by simpa [wt] using hw)
      simp [inScopeU, ser, mappingDT, noneAtUnion, ih]
    | _ => simp [wt] at hw
  | t, .map es, hf, hw => by
    cases t with
    | prim p => cases p <;> simp [wt, Prim.wt] at hw
    | map k v =>
      simp only [fragE, Bool.and_eq_true] at hf
      have ih := inScopeUEntries_iff o k v es hf.1 hf.2 (by simpa [wt] using hw)
      rcases hk : mappingDT o k with ⟨kdt, knb, kmd⟩
      rcases hv : mappingDT o v with ⟨vdt, vnb, vmd⟩
      rw [hk, hv] at ih
      simp [inScopeU, ser, mappingDT, hk, hv, noneAtUnion, ih]
    | _ => simp [wt] at hw
  | t, .variant i p, hf, hw => by
    cases t with
    | prim p => cases p <;> simp [wt, Prim.wt] at hw
    | enum n vars =>
      simp only [fragE, Bool.and_eq_true, Bool.not_eq_true'] at hf
      cases hg : vars.get? i with
      | none => simp [wt, hg] at hw
      | some q =>
        obtain ⟨vn, kind⟩ := q
        have hfk := fragEVariants_get vars i vn kind hf.2 hg
        by_cases hform : (vars.withoutData && o.enumsWithoutDataAsStrings) = true
        · -- stored as a string: not a Union, and nothing below it is one
          have hdt : (mappingDT o (.enum n vars)).1 = .dictionary .uint32 (strDT o) := by
            simp only [mappingDT, hform, if_true]
          rw [hdt]
          simp only [Bool.and_eq_true] at hform
          rcases withoutData_get vars i vn kind hform.1 hg with rfl | ⟨t', rfl, hnull⟩
          · simp [inScopeU, ser, hg, noneAtUnion]
          · cases p with
            | nil => simp [wt, hg, wtSingle] at hw
            | cons v rest =>
              cases rest with
              | cons _ _ => simp [wt, hg, wtSingle] at hw
              | nil =>
                simp [inScopeU, ser, hg, serSingle, inScopeUSingle, noneAtUnion, nullTy_inScopeU o t' v hnull]
        · have hform' : (vars.withoutData && o.enumsWithoutDataAsStrings) = false := by simpa using hform
          have hdt : (mappingDT o (.enum n vars)).1 = .union (mappingVariants o 0 vars) .dense := by
            simp only [mappingDT, hform', Bool.false_eq_true, if_false]
          rw [hdt]
          have hat := dtAt_mappingVariants o vars 0 i
          rw [hg] at hat
          simp only [Option.map_some] at hat
          cases kind with
          | unit => simp [inScopeU, ser, hg, noneAtUnion]
          | newtype t' =>
            cases p with
            | nil => simp [wt, hg, wtSingle] at hw
            | cons v rest =>
              cases rest with
              | cons _ _ => simp [wt, hg, wtSingle] at hw
              | nil =>
                have ih := inScopeU_iff o t' v (by simpa [fragEVariant] using hfk) (by simpa [wt, hg, wtSingle] using hw)
                simp [inScopeU, ser, hg, serSingle, inScopeUSingle, noneAtUnion, hat, variantDT, ih]
          | tuple ts =>
            have ih := inScopeUPos_iff o 0 ts p (by simpa [fragEVariant] using hfk) (by simpa [wt, hg] using hw)
            simp [inScopeU, ser, hg, noneAtUnion, hat, variantDT, ih]
          | struct fs =>
            simp only [fragEVariant, Bool.and_eq_true, Bool.not_eq_true'] at hfk
            have ih := inScopeUFields_iff o fs p hfk.1 hfk.2 (by simpa [wt, hg] using hw)
            simp [inScopeU, ser, hg, noneAtUnion, hat, variantDT, ih]
    | _ => simp [wt] at hw

theorem inScopeUAll_iff (o : TraceOpts) : ∀ (t : Ty) (vs : Vals), fragE t = true → wtAll t vs = true →
    inScopeUAll o t vs = !noneAtUnionAll (mappingDT o t).1 (serAll t vs)
  | _, .nil, _, _ => by simp [inScopeUAll, serAll, noneAtUnionAll]
  | t, .cons v rest, hf, hw => by
    simp only [wtAll, Bool.and_eq_true] at hw
    have h1 := inScopeU_iff o t v hf hw.1
    have h2 := inScopeUAll_iff o t rest hf hw.2
    simp only [inScopeUAll, serAll, noneAtUnionAll]
    exact bool_and_not _ _ _ _ h1 h2

theorem inScopeUPos_iff (o : TraceOpts) : ∀ (i : Nat) (ts : Tys) (vs : Vals), fragETys ts = true → wtPos ts vs = true →
    inScopeUPos o ts vs = !noneAtUnionPos (mappingPos o i ts) (serPos ts vs)
  | _, .nil, _, _, _ => by simp [inScopeUPos, serPos, noneAtUnionPos]
  | _, .cons _ _, .nil, _, _ => by simp [inScopeUPos, serPos, noneAtUnionPos]
  | i, .cons t ts, .cons v rest, hf, hw => by
    simp only [fragETys, Bool.and_eq_true] at hf
    simp only [wtPos, Bool.and_eq_true] at hw
    have h1 := inScopeU_iff o t v hf.1 hw.1
    have h2 := inScopeUPos_iff o (i + 1) ts rest hf.2 hw.2
    rcases hm : mappingDT o t with ⟨dt, nb, md⟩
    rw [hm] at h1
    simp only [inScopeUPos, serPos, mappingPos, hm, noneAtUnionPos]
    exact bool_and_not _ _ _ _ h1 h2

theorem inScopeUFields_iff (o : TraceOpts) : ∀ (fs : TFields) (vs : Vals), hasDup fs.names = false →
    fragEFields fs = true → wtFields fs vs = true →
    inScopeUFields o fs vs =
      !(missingUnion (mappingFields o fs) (serFields fs vs) || noneAtUnionNamed (mappingFields o fs) (serFields fs vs))
  | .nil, _, _, _, _ => by simp [inScopeUFields, serFields, mappingFields, missingUnion, noneAtUnionNamed]
  | .cons _ _ _ _, .nil, _, _, hw => by simp [wtFields] at hw
  | .cons n s t fs, .cons v rest, hd, hf, hw => by
    simp only [TFields.names, hasDup, Bool.or_eq_false_iff] at hd
    simp only [fragEFields, Bool.and_eq_true] at hf
    simp only [wtFields, Bool.and_eq_true] at hw
    have h1 := inScopeU_iff o t v hf.1.1 hw.1
    have h2 := inScopeUFields_iff o fs rest hd.2 hf.2 hw.2
    have hk := hasKey_serFields n fs rest hd.1
    rcases hm : mappingDT o t with ⟨dt, nb, md⟩
    rw [hm] at h1
    by_cases hs : s = true ∧ v = .none
    · -- the field is left out: an Option whose `None` is missing
      obtain ⟨hs1, hs2⟩ := hs
      subst hs2
      have hopt : isOption t = true := by
        have := hf.1.2; simpa [hs1] using this
      cases t with
      | option t' =>
        simp only [ser, noneAtUnion] at h1
        simp only [inScopeUFields, serFields, hs1, and_self, if_true, mappingFields, hm, missingUnion, hk,
          noneAtUnionNamed_cons_field n dt nb md (mappingFields o fs) _ hk]
        exact bool_step_skip _ _ _ _ _ h1 h2
      | _ => simp [isOption] at hopt
    · simp only [inScopeUFields, serFields, hs, if_false, mappingFields, hm, missingUnion, SFields.hasKey, beq_self_eq_true,
        Bool.true_or, noneAtUnionNamed, Fields.dtOf, if_true,
        noneAtUnionNamed_cons_field n dt nb md (mappingFields o fs) _ hk, missingUnion_cons_key o n 0 _ fs _ hd.1]
      exact bool_step_keep _ _ _ _ _ _ h1 h2

theorem inScopeUEntries_iff (o : TraceOpts) : ∀ (k v : Ty) (es : VEntries), fragE k = true → fragE v = true →
    wtEntries k v es = true →
    inScopeUEntries o k v es = !noneAtUnionEntries (mappingDT o k).1 (mappingDT o v).1 (serEntries k v es)
  | _, _, .nil, _, _, _ => by simp [inScopeUEntries, serEntries, noneAtUnionEntries]
  | k, v, .cons a b rest, hfk, hfv, hw => by
    simp only [wtEntries, Bool.and_eq_true] at hw
    have h1 := inScopeU_iff o k a hfk hw.1.1
    have h2 := inScopeU_iff o v b hfv hw.1.2
    have h3 := inScopeUEntries_iff o k v rest hfk hfv hw.2
    simp only [inScopeUEntries, serEntries, noneAtUnionEntries, h1, h2, h3]
    cases noneAtUnion (mappingDT o k).1 (ser k a) <;> cases noneAtUnion (mappingDT o v).1 (ser v b) <;>
      cases noneAtUnionEntries (mappingDT o k).1 (mappingDT o v).1 (serEntries k v rest) <;> rfl
end

/-! ### at the root -/

private theorem fields_ofList_toList : ∀ (fs : Fields), Fields.ofList fs.toList = fs
  | .nil => rfl
  | .cons f r => by rw [Fields.toList, Fields.ofList, fields_ofList_toList r]

/-- **the driver's exclusion** `rows.any (noneAtUnionRow fields)` **on a traced root is the type-directed one** -/
theorem inScopeU_root (o : TraceOpts) (n : String) (fs : TFields) (v : Val) (fields : List Field)
    (hf : fragE (.struct n fs) = true) (hw : wt (.struct n fs) v = true) (hfields : fields = (mappingFields o fs).toList) :
    inScopeU o (.struct n fs) v = !noneAtUnionRow fields (ser (.struct n fs) v) := by
  have h := inScopeU_iff o (.struct n fs) v hf hw
  have hdt : (mappingDT o (.struct n fs)).1 = .struct (mappingFields o fs) := by simp only [mappingDT]
  rw [hdt] at h
  rw [h, hfields, noneAtUnionRow, fields_ofList_toList]

/-- the same through `mappingRoot` (the schema `from_type` returns) -/
theorem inScopeU_mappingRoot (o : TraceOpts) (n : String) (fs : TFields) (v : Val) (fields : List Field)
    (hf : fragE (.struct n fs) = true) (hw : wt (.struct n fs) v = true) (hroot : mappingRoot o (.struct n fs) = some fields) :
    inScopeU o (.struct n fs) v = !noneAtUnionRow fields (ser (.struct n fs) v) := by
  refine inScopeU_root o n fs v fields hf hw ?_
  simp only [mappingRoot, mappingDT, Option.some.injEq] at hroot
  exact hroot.symm

/-! ### an instance: `struct R { a: i32, e: Option<E> }`, `enum E { A, B(bool) }`, value `R { a: 1, e: None }` -/

def exclExE : Ty := .enum "E" (.cons "A" .unit (.cons "B" (.newtype (.prim .bool)) .nil))
def exclExFs (skip : Bool) : TFields := .cons "a" false (.prim (.int .i32)) (.cons "e" skip (.option exclExE) .nil)
def exclExR (skip : Bool) : Ty := .struct "R" (exclExFs skip)
def exclExNone : Val := .struct (.cons (.int 1) (.cons .none .nil))
def exclExSome : Val := .struct (.cons (.int 1) (.cons (.some (.variant 1 (.cons (.bool true) .nil))) .nil))

/-- `e = None` at a Union position: both forms say "excluded", whether the field is presented as `None` or left out by
`skip_serializing_if`; `e = Some(B(true))` is in scope -/
example : ∀ skip : Bool,
    inScopeU {} (exclExR skip) exclExNone = false ∧
    noneAtUnionRow (mappingFields {} (exclExFs skip)).toList (ser (exclExR skip) exclExNone) = true ∧
    inScopeU {} (exclExR skip) exclExSome = true ∧
    noneAtUnionRow (mappingFields {} (exclExFs skip)).toList (ser (exclExR skip) exclExSome) = false := by decide +kernel

/-- a data-less enum stored as a string is no Union: `None` is in scope there -/
example :
    let o : TraceOpts := { enumsWithoutDataAsStrings := true }
    let t : Ty := .struct "R" (.cons "e" true (.option (.enum "E" (.cons "A" .unit (.cons "B" (.newtype .unit) .nil)))) .nil)
    let v : Val := .struct (.cons .none .nil)
    inScopeU o t v = true ∧ noneAtUnion (mappingDT o t).1 (ser t v) = false := by decide +kernel

end SaModel.Roundtrip
