import SaModel.Lemmas.C04ExtPush
import SaModel.Lemmas.C03Shape
/-
C04, removing `ExtOK`: `finish` / `build_arrays` / `to_marrow` against a schema without temporal columns do not depend on the
chrono parsers of `ext`:

  noTemporalDT          : no Date32 / Date64 / Time32 / Time64 / Timestamp / Duration anywhere in a data type
  noParsed_of_builtFor  : BuiltFor dt nl b → noTemporalDT dt → noParsedB b
  finish_refuse         : noParsedB b → finish ext b = finish (refuseExt ext) b
  toMarrow_refuse       : (∀ f ∈ fields, noTemporalDT f.dataType) → toMarrow ext fields rows = toMarrow (refuseExt ext) fields rows
-/
namespace SaModel.Build
open SaModel SaModel.Spec SaModel.Lemmas.C03

/-! ### `into_array` -/

mutual
theorem finish_refuse (ext : Ext) : ∀ (b : B), noParsedB b = true → finish ext b = finish (refuseExt ext) b
  | .null _ _, _ => by simp only [finish]
  | .unknownVariant _, _ => by simp only [finish]
  | .leaf _ _ _ _, _ => by simp only [finish]
  | .bytes _ _ _ _ _, _ => by simp only [finish]
  | .bytesView _ _ _ _ _, _ => by simp only [finish]
  | .fixedSizeBinary _ _ _ _ _ _, _ => by simp only [finish]
  | .list _ _ _ _ _ el, h => by
    simp only [noParsedB] at h
    simp only [finish, finish_refuse ext el h]
  | .fixedSizeList _ _ _ _ _ _ el, h => by
    simp only [noParsedB] at h
    simp only [finish, finish_refuse ext el h]
  | .map _ _ _ _ ks vs, h => by
    simp only [noParsedB, Bool.and_eq_true] at h
    simp only [finish, finish_refuse ext ks h.1, finish_refuse ext vs h.2]
  | .struct _ _ _ fs _ _ _, h => by
    simp only [noParsedB] at h
    simp only [finish, finishFields_refuse ext fs h]
  | .dictionary _ idx vals _, h => by
    simp only [noParsedB, Bool.and_eq_true] at h
    simp only [finish, finish_refuse ext idx h.1, finish_refuse ext vals h.2, pushScalar_refuse ext vals _ h.2]
  | .union _ fs _ _ _, h => by
    simp only [noParsedB] at h
    simp only [finish, finishUFields_refuse ext fs 0 h]
theorem finishFields_refuse (ext : Ext) : ∀ (fs : BL), noParsedBL fs = true →
    finishFields ext fs = finishFields (refuseExt ext) fs
  | .nil, _ => by simp only [finishFields]
  | .cons b _ r, h => by
    simp only [noParsedBL, Bool.and_eq_true] at h
    simp only [finishFields, finish_refuse ext b h.1, finishFields_refuse ext r h.2]
theorem finishUFields_refuse (ext : Ext) : ∀ (fs : BL) (idx : Nat), noParsedBL fs = true →
    finishUFields ext fs idx = finishUFields (refuseExt ext) fs idx
  | .nil, _, _ => by simp only [finishUFields]
  | .cons b _ r, idx, h => by
    simp only [noParsedBL, Bool.and_eq_true] at h
    simp only [finishUFields, finish_refuse ext b h.1, finishUFields_refuse ext r (idx + 1) h.2]
end

theorem buildArrays_refuse (ext : Ext) (root : B) (h : noParsedB root = true) :
    buildArrays ext root = buildArrays (refuseExt ext) root := by
  cases root with
  | struct p len v fs cached next seen =>
    simp only [noParsedB] at h
    simp only [buildArrays, finishFields_refuse ext fs h]
  | _ => simp only [buildArrays]

/-! ### the rows -/

theorem foldlM_push_refuse (ext : Ext) : ∀ (rows : List SVal) (r0 : B), noParsedB r0 = true →
    rows.foldlM (push ext) r0 = rows.foldlM (push (refuseExt ext)) r0
  | [], _, _ => rfl
  | x :: rest, r0, h => by
    simp only [List.foldlM_cons]
    rw [push_refuse ext x r0 h]
    refine bind_congr_ok _ _ _ fun r1 h1 => ?_
    exact foldlM_push_refuse ext rest r1 (noParsedB.of_takeRest (push_takeRest _ x r0 r1 h1) h)

/-- `runRows` / `toMarrow` on a root builder without temporal leaves -/
theorem toMarrow_refuse_of_root (ext : Ext) (fields : List Field) (rows : List SVal)
    (h : ∀ root, newRoot fields = .ok root → noParsedB root = true) :
    runRows ext fields rows = runRows (refuseExt ext) fields rows ∧
    toMarrow ext fields rows = toMarrow (refuseExt ext) fields rows := by
  constructor
  · simp only [runRows]
    refine bind_congr_ok _ _ _ fun r0 h0 => ?_
    exact foldlM_push_refuse ext rows r0 (h r0 h0)
  · simp only [toMarrow]
    refine bind_congr_ok _ _ _ fun r0 h0 => ?_
    rw [foldlM_push_refuse ext rows r0 (h r0 h0)]
    refine bind_congr_ok _ _ _ fun r1 h1 => ?_
    rw [buildArrays_refuse ext r1
      (noParsedB.of_takeRest (foldlM_takeRest _ (push_takeRest _) rows r0 r1 h1) (h r0 h0))]

/-! ### the schema side -/

mutual
/-- no temporal type (Date32 / Date64 / Time32 / Time64 / Timestamp / Duration) anywhere in the data type -/
def noTemporalDT : DataType → Bool
  | .date32 | .date64 | .timestamp _ _ | .time32 _ | .time64 _ | .duration _ => false
  | .list f | .largeList f | .fixedSizeList f _ | .map f _ => noTemporalF f
  | .struct fs => noTemporalFs fs
  | .union ufs _ => noTemporalUs ufs
  | .dictionary k v => noTemporalDT k && noTemporalDT v
  | .runEndEncoded a b => noTemporalF a && noTemporalF b
  | _ => true
def noTemporalF : Field → Bool
  | .mk _ dt _ _ => noTemporalDT dt
def noTemporalFs : Fields → Bool
  | .nil => true
  | .cons f r => noTemporalF f && noTemporalFs r
def noTemporalUs : UFields → Bool
  | .nil => true
  | .cons _ f r => noTemporalF f && noTemporalUs r
end

theorem noTemporalF_dt (f : Field) : noTemporalF f = noTemporalDT f.dataType := by
  cases f; simp [noTemporalF, Field.dataType]

theorem noTemporalFs_ofList : ∀ (l : List Field), (∀ f ∈ l, noTemporalDT f.dataType = true) →
    noTemporalFs (Fields.ofList l) = true
  | [], _ => rfl
  | f :: r, h => by
    simp only [Fields.ofList, noTemporalFs, Bool.and_eq_true]
    exact ⟨by rw [noTemporalF_dt]; exact h f (by simp), noTemporalFs_ofList r fun g hg => h g (by simp [hg])⟩

theorem noTemporalFs_toList : ∀ (fs : Fields), noTemporalFs fs = true → ∀ f ∈ fs.toList, noTemporalDT f.dataType = true
  | .nil, _, f, hf => by simp [Fields.toList] at hf
  | .cons g r, h, f, hf => by
    simp only [noTemporalFs, Bool.and_eq_true] at h
    simp only [Fields.toList, List.mem_cons] at hf
    rcases hf with rfl | hf
    · rw [← noTemporalF_dt]; exact h.1
    · exact noTemporalFs_toList r h.2 f hf

theorem leafDT_noTemporal (k : LeafKind) (h : noTemporalDT (leafDT k) = true) : k.isParsed = false := by
  cases k <;> first | rfl | (simp [leafDT, noTemporalDT] at h)

mutual
/-- the builder of a field without temporal types has no temporal leaf -/
theorem noParsed_of_builtFor : ∀ (b : B) (dt : DataType) (nl : Bool), BuiltFor dt nl b → noTemporalDT dt = true →
    noParsedB b = true
  | .null _ _, _, _, _, _ | .unknownVariant _, _, _, _, _ | .bytes _ _ _ _ _, _, _, _, _
  | .bytesView _ _ _ _ _, _, _, _, _ | .fixedSizeBinary _ _ _ _ _ _, _, _, _, _ => by simp [noParsedB]
  | .leaf _ k _ _, dt, nl, hb, hn => by
    simp only [BuiltFor] at hb
    obtain ⟨rfl, _⟩ := hb
    simp [noParsedB, leafDT_noTemporal k hn]
  | .list _ large fm v _ el, dt, nl, hb, hn => by
    simp only [BuiltFor] at hb
    obtain ⟨f, rfl, _, _, hel⟩ := hb
    have hnf : noTemporalDT f.dataType = true := by
      rw [← noTemporalF_dt]; cases large <;> simpa [noTemporalDT] using hn
    simpa [noParsedB] using noParsed_of_builtFor el _ _ hel hnf
  | .fixedSizeList _ fm n _ v _ el, dt, nl, hb, hn => by
    simp only [BuiltFor] at hb
    obtain ⟨f, rfl, _, _, hel⟩ := hb
    have hnf : noTemporalDT f.dataType = true := by rw [← noTemporalF_dt]; simpa [noTemporalDT] using hn
    simpa [noParsedB] using noParsed_of_builtFor el _ _ hel hnf
  | .map _ mm v _ ks vs, dt, nl, hb, hn => by
    simp only [BuiltFor] at hb
    obtain ⟨ename, kf, vf, sorted, enl, emd, rfl, _, _, hk, hv⟩ := hb
    simp only [noTemporalDT, noTemporalF, noTemporalFs, Bool.and_eq_true, Bool.and_true] at hn
    have ihk := noParsed_of_builtFor ks _ _ hk (by rw [← noTemporalF_dt]; exact hn.1)
    have ihv := noParsed_of_builtFor vs _ _ hv (by rw [← noTemporalF_dt]; exact hn.2)
    simp [noParsedB, ihk, ihv]
  | .struct _ _ v fs _ _ _, dt, nl, hb, hn => by
    simp only [BuiltFor] at hb
    obtain ⟨fields, rfl, _, hl⟩ := hb
    simpa [noParsedB] using noParsedL_of_builtFor fs fields hl (by simpa [noTemporalDT] using hn)
  | .dictionary _ idx vals _, dt, nl, hb, hn => by
    simp only [BuiltFor] at hb
    obtain ⟨k, vdt, rfl, _, hk, hv⟩ := hb
    simp only [noTemporalDT, Bool.and_eq_true] at hn
    simp [noParsedB, noParsed_of_builtFor idx _ _ hk hn.1, noParsed_of_builtFor vals _ _ hv hn.2]
  | .union _ fs _ _ _, dt, nl, hb, hn => by
    simp only [BuiltFor] at hb
    obtain ⟨ufs, mode, rfl, hu⟩ := hb
    simpa [noParsedB] using noParsedU_of_builtFor fs ufs 0 hu (by simpa [noTemporalDT] using hn)
theorem noParsedL_of_builtFor : ∀ (bl : BL) (fs : Fields), BuiltForL fs bl → noTemporalFs fs = true →
    noParsedBL bl = true
  | .nil, _, _, _ => by simp [noParsedBL]
  | .cons b m r, .nil, hb, _ => by simp [BuiltForL] at hb
  | .cons b m r, .cons f fr, hb, hn => by
    simp only [BuiltForL] at hb
    simp only [noTemporalFs, Bool.and_eq_true] at hn
    have ih1 := noParsed_of_builtFor b _ _ hb.2.1 (by rw [← noTemporalF_dt]; exact hn.1)
    have ih2 := noParsedL_of_builtFor r fr hb.2.2 hn.2
    simp [noParsedBL, ih1, ih2]
theorem noParsedU_of_builtFor : ∀ (bl : BL) (ufs : UFields) (k : Nat), BuiltForU ufs bl k → noTemporalUs ufs = true →
    noParsedBL bl = true
  | .nil, _, _, _, _ => by simp [noParsedBL]
  | .cons b m r, .nil, _, hb, _ => by simp [BuiltForU] at hb
  | .cons b m r, .cons t f fr, k, hb, hn => by
    simp only [BuiltForU] at hb
    simp only [noTemporalUs, Bool.and_eq_true] at hn
    have ih1 := noParsed_of_builtFor b _ _ hb.2.2.1 (by rw [← noTemporalF_dt]; exact hn.1)
    have ih2 := noParsedU_of_builtFor r fr (k + 1) hb.2.2.2 hn.2
    simp [noParsedBL, ih1, ih2]
end

/-- the root builder of a schema without temporal columns has no temporal leaf -/
theorem newRoot_noParsed (fields : List Field) (hf : ∀ f ∈ fields, noTemporalDT f.dataType = true) (root : B)
    (h : newRoot fields = .ok root) : noParsedB root = true :=
  noParsed_of_builtFor root _ _ (newRoot_builtFor fields root h)
    (by simpa [noTemporalDT] using noTemporalFs_ofList fields hf)

/-- **`to_marrow` against a schema without temporal columns never consults the chrono parsers**: it is the same function
under `refuseExt ext` (whose parsers refuse everything, so that `ExtOK (refuseExt ext)` holds trivially: `refuseExt_ok`) -/
theorem toMarrow_refuse (ext : Ext) (fields : List Field) (rows : List SVal)
    (hf : ∀ f ∈ fields, noTemporalDT f.dataType = true) :
    toMarrow ext fields rows = toMarrow (refuseExt ext) fields rows :=
  (toMarrow_refuse_of_root ext fields rows (newRoot_noParsed fields hf)).2

theorem runRows_refuse (ext : Ext) (fields : List Field) (rows : List SVal)
    (hf : ∀ f ∈ fields, noTemporalDT f.dataType = true) :
    runRows ext fields rows = runRows (refuseExt ext) fields rows :=
  (toMarrow_refuse_of_root ext fields rows (newRoot_noParsed fields hf)).1

/-! ### non-vacuity: an `ext` whose parsers return OUT-OF-RANGE values (`ExtOK` is false for it) -/

/-- every chrono parser "succeeds" with `2^63`, which fits no temporal column -/
def exBadExt : Ext :=
  { parseDate := fun _ _ => .ok 9223372036854775808
    parseTime := fun _ _ => .ok 9223372036854775808
    parseTimestamp := fun _ _ _ => .ok 9223372036854775808
    parseDuration := fun _ _ => .ok 9223372036854775808 }

example : ¬ ExtOK exBadExt := fun h => absurd (h.date32 "" _ rfl).2 (by decide)

def exRefuseFields : List Field := [⟨"a", .int32, false, []⟩, ⟨"s", .list ⟨"element", .largeUtf8, true, []⟩, true, []⟩]
def exRefuseRows : List SVal :=
  [.record "R" (.cons "a" 0 (.int .i32 7) (.cons "s" 1 (.seq (.cons (.str "x") (.cons .none .nil))) .nil)),
   .record "R" (.cons "a" 0 (.int .i32 (-1)) (.cons "s" 1 .none .nil))]

/-- the hypothesis of `toMarrow_refuse` is met, serialization succeeds under the bad `ext`, and — the theorem — under
`refuseExt exBadExt` with the same arrays -/
example : (∀ f ∈ exRefuseFields, noTemporalDT f.dataType = true) ∧
    (toMarrow exBadExt exRefuseFields exRefuseRows).isOk = true := by decide +kernel

example : toMarrow (refuseExt exBadExt) exRefuseFields exRefuseRows = toMarrow exBadExt exRefuseFields exRefuseRows :=
  (toMarrow_refuse exBadExt exRefuseFields exRefuseRows (by decide +kernel)).symm

/-- the hypothesis is needed: against a Date32 column the two differ (the bad parser's value is stored) -/
example : noTemporalDT (.date32) = false ∧
    toMarrow exBadExt [⟨"d", .date32, false, []⟩] [.record "R" (.cons "d" 0 (.str "x") .nil)] ≠
    toMarrow (refuseExt exBadExt) [⟨"d", .date32, false, []⟩] [.record "R" (.cons "d" 0 (.str "x") .nil)] := by
  decide +kernel

end SaModel.Build
