import SaModel.Lemmas.C10TakePush
import SaModel.Lemmas.C03LR
/-
C04, removing `ExtOK`: the external chrono parsers of `Ext` (`parseDate`, `parseTime`, `parseTimestamp`,
`parseDuration`) are consulted only by `convLeaf ext k (.str s)` for a TEMPORAL leaf kind `k` (Date32 / Date64 / Time32 /
Time64 / Timestamp / Duration).  A builder without such a leaf (`noParsedB`) therefore behaves the same under `ext` and
under `refuseExt ext` — the same record with the four parsers replaced by ones that always refuse —, and `refuseExt ext`
satisfies `ExtOK` trivially (`refuseExt_ok`).

This file: the definitions, invariance of `noParsedB` under `take`, and the non-recursive part of the congruence
(`convLeaf`, `scalarToString`, `pushScalar`, `pushByteElems`, and the combinators `SS.element`, `recordWith`,
`seqLikeWith`, one union row).  The mutual block `push` is in C04ExtPush.lean, `finish` / `toMarrow` and the schema side in
C04ExtFinish.lean.
-/
namespace SaModel.Build
open SaModel SaModel.Spec

/-- `ext` with the four chrono parsers replaced by parsers that refuse every string (the float printers and the decimal
conversions are kept) -/
def refuseExt (ext : Ext) : Ext :=
  { ext with
    parseDate := fun _ _ => fail "ext"
    parseTime := fun _ _ => fail "ext"
    parseTimestamp := fun _ _ _ => fail "ext"
    parseDuration := fun _ _ => fail "ext" }

/-- the refusing parsers return nothing, in particular nothing out of range -/
theorem refuseExt_ok (ext : Ext) : Lemmas.C03.ExtOK (refuseExt ext) where
  date32 := by intro s v h; cases h
  date64 := by intro s v h; cases h
  time := by intro u s v h; cases h
  timestamp := by intro u utc s v h; cases h
  duration := by intro u s v h; cases h

/-- the leaf kinds whose `serialize_str` goes through an external parser -/
def LeafKind.isParsed : LeafKind → Bool
  | .date32 | .date64 | .time32 _ | .time64 _ | .duration _ | .timestamp _ _ _ => true
  | _ => false

mutual
/-- no temporal leaf anywhere in the builder tree -/
def noParsedB : B → Bool
  | .leaf _ k _ _ => !k.isParsed
  | .list _ _ _ _ _ el => noParsedB el
  | .fixedSizeList _ _ _ _ _ _ el => noParsedB el
  | .map _ _ _ _ ks vs => noParsedB ks && noParsedB vs
  | .struct _ _ _ fs _ _ _ => noParsedBL fs
  | .dictionary _ idx vals _ => noParsedB idx && noParsedB vals
  | .union _ fs _ _ _ => noParsedBL fs
  | _ => true
def noParsedBL : BL → Bool
  | .nil => true
  | .cons b _ r => noParsedB b && noParsedBL r
end

mutual
theorem noParsedB_takeRest : ∀ (b : B), noParsedB (takeRest b) = noParsedB b
  | .null _ _ => by simp [takeRest, noParsedB]
  | .unknownVariant _ => by simp [takeRest, noParsedB]
  | .leaf _ _ _ _ => by simp [takeRest, noParsedB]
  | .bytes _ _ _ _ _ => by simp [takeRest, noParsedB]
  | .bytesView _ _ _ _ _ => by simp [takeRest, noParsedB]
  | .fixedSizeBinary _ _ _ _ _ _ => by simp [takeRest, noParsedB]
  | .list _ _ _ _ _ el => by simp only [takeRest, noParsedB]; exact noParsedB_takeRest el
  | .fixedSizeList _ _ _ _ _ _ el => by simp only [takeRest, noParsedB]; exact noParsedB_takeRest el
  | .map _ _ _ _ ks vs => by simp only [takeRest, noParsedB]; rw [noParsedB_takeRest ks, noParsedB_takeRest vs]
  | .struct _ _ _ fs _ _ _ => by simp only [takeRest, noParsedB]; exact noParsedBL_takeRest fs
  | .dictionary _ idx vals _ => by
    simp only [takeRest, noParsedB]; rw [noParsedB_takeRest idx, noParsedB_takeRest vals]
  | .union _ fs _ _ _ => by simp only [takeRest, noParsedB]; exact noParsedBL_takeRest fs
theorem noParsedBL_takeRest : ∀ (fs : BL), noParsedBL (takeRestAll fs) = noParsedBL fs
  | .nil => by simp [takeRestAll, noParsedBL]
  | .cons b _ r => by simp only [takeRestAll, noParsedBL]; rw [noParsedB_takeRest b, noParsedBL_takeRest r]
end

theorem noParsedB.of_takeRest {b b' : B} (h : takeRest b' = takeRest b) (hs : noParsedB b = true) :
    noParsedB b' = true := by
  rw [← noParsedB_takeRest b', h, noParsedB_takeRest b]; exact hs

theorem noParsedBL.of_takeRest {fs fs' : BL} (h : takeRestAll fs' = takeRestAll fs) (hs : noParsedBL fs = true) :
    noParsedBL fs' = true := by
  rw [← noParsedBL_takeRest fs', h, noParsedBL_takeRest fs]; exact hs

theorem noParsedBL.of_skel {s s' : SS} (h : SSkel s' s) (hs : noParsedBL s.fields = true) :
    noParsedBL s'.fields = true :=
  noParsedBL.of_takeRest h.2.2.1 hs

theorem noParsedBL_get : ∀ (fs : BL) (i : Nat) (c : B) (m : FieldMeta), noParsedBL fs = true → fs.get? i = some (c, m) →
    noParsedB c = true
  | .nil, _, _, _, _, h => by simp [BL.get?] at h
  | .cons b m' r, 0, c, m, hs, h => by
    simp only [BL.get?, Option.some.injEq, Prod.mk.injEq] at h
    simp only [noParsedBL, Bool.and_eq_true] at hs
    rw [← h.1]; exact hs.1
  | .cons b m' r, i + 1, c, m, hs, h => by
    simp only [BL.get?] at h
    simp only [noParsedBL, Bool.and_eq_true] at hs
    exact noParsedBL_get r i c m hs.2 h

/-! ### monad plumbing -/

/-- two binds with the same first step agree if their continuations agree on its successful result -/
theorem bind_congr_ok {α β} (m : R α) (f g : α → R β) (h : ∀ a, m = .ok a → f a = g a) : (m >>= f) = (m >>= g) := by
  cases m with
  | ok a => exact h a rfl
  | error e => rfl

/-! ### scalars -/

theorem convLeaf_refuse (ext : Ext) (k : LeafKind) (x : SVal) (hk : k.isParsed = false) :
    convLeaf ext k x = convLeaf (refuseExt ext) k x := by
  cases k <;> first | (simp [LeafKind.isParsed] at hk; done) | (cases x <;> rfl)

theorem scalarToString_refuse (ext : Ext) (x : SVal) : scalarToString (refuseExt ext) x = scalarToString ext x := by
  cases x <;> rfl

theorem pushScalar_refuse (ext : Ext) : ∀ (b : B) (x : SVal), noParsedB b = true →
    pushScalar ext b x = pushScalar (refuseExt ext) b x
  | .null _ _, x, _ => by simp only [pushScalar]
  | .unknownVariant _, x, _ => by simp only [pushScalar]
  | .leaf p k v vals, x, h => by
    simp only [noParsedB, Bool.not_eq_true'] at h
    simp only [pushScalar, convLeaf_refuse ext k x h]
  | .bytes _ _ _ _ _, x, _ => by simp only [pushScalar, scalarToString_refuse]
  | .bytesView _ _ _ _ _, x, _ => by simp only [pushScalar, scalarToString_refuse]
  | .fixedSizeBinary _ _ _ _ _ _, x, _ => by simp only [pushScalar]
  | .dictionary p idx vals index, x, h => by
    simp only [noParsedB, Bool.and_eq_true] at h
    simp only [pushScalar, scalarToString_refuse, pushScalar_refuse ext idx _ h.1, pushScalar_refuse ext vals _ h.2]
  | .list _ _ _ _ _ _, x, _ => by simp only [pushScalar]
  | .fixedSizeList _ _ _ _ _ _ _, x, _ => by simp only [pushScalar]
  | .map _ _ _ _ _ _, x, _ => by simp only [pushScalar]
  | .struct _ _ _ _ _ _ _, x, _ => by simp only [pushScalar]
  | .union _ _ _ _ _, x, _ => by simp only [pushScalar]

theorem pushByteElems_refuse (ext : Ext) (large : Bool) : ∀ (bs : Bytes) (el : B) (offs : List Int),
    noParsedB el = true → pushByteElems ext large el offs bs = pushByteElems (refuseExt ext) large el offs bs
  | [], el, offs, _ => by simp only [pushByteElems]
  | x :: rest, el, offs, h => by
    simp only [pushByteElems]
    refine bind_congr_ok _ _ _ fun o' _ => ?_
    rw [pushScalar_refuse ext el _ h]
    refine bind_congr_ok _ _ _ fun el' hel => ?_
    exact pushByteElems_refuse ext large rest el' o'
      (noParsedB.of_takeRest (pushScalar_takeRest _ el _ el' ((ctx_ok _ _ _).1 hel)) h)

/-! ### the combinators of `push` -/

theorem SS.element_refuse {s : SS} {idx : Nat} {pc pc' : B → R B}
    (hs : noParsedBL s.fields = true) (hpc : ∀ c, noParsedB c = true → pc c = pc' c) :
    s.element idx pc = s.element idx pc' := by
  unfold SS.element
  split
  · rfl
  · rfl
  · split
    · rfl
    · rename_i c m hget
      rw [hpc c (noParsedBL_get _ _ _ _ hs hget)]

/-- a whole record (`start`, fields, `end`) -/
theorem record_refuse {p len v fs cached next seen} {pf pf' : SS → R SS}
    (hs : noParsedBL fs = true) (hpf : ∀ s, noParsedBL s.fields = true → pf s = pf' s) :
    (do
      let s ← SS.start ⟨p, len, v, fs, cached, next, seen⟩
      let s ← pf s
      let s ← s.finishRow
      pure s.toB : R B) =
    (do
      let s ← SS.start ⟨p, len, v, fs, cached, next, seen⟩
      let s ← pf' s
      let s ← s.finishRow
      pure s.toB : R B) := by
  refine bind_congr_ok _ _ _ fun s1 h1 => ?_
  rw [hpf s1 (noParsedBL.of_skel (SS.start_skel h1) hs)]

theorem recordWith_refuse {pf pf' : SS → R SS} (hpf : ∀ s, noParsedBL s.fields = true → pf s = pf' s) :
    ∀ (b : B), noParsedB b = true → recordWith pf b = recordWith pf' b := by
  intro b h
  cases b with
  | struct p len v fs cached next seen =>
    simp only [noParsedB] at h
    simp only [recordWith]
    exact record_refuse h hpf
  | _ => simp only [recordWith]

theorem seqLikeWith_refuse {pe pe' : Bool → B → List Int → R (B × List Int)} {pc pc' : B → Nat → R (B × Nat)}
    {pt pt' : SS → R SS} {bytes : R Bytes}
    (hpe : ∀ large el offs, noParsedB el = true → pe large el offs = pe' large el offs)
    (hpc : ∀ el c, noParsedB el = true → pc el c = pc' el c)
    (hpt : ∀ s, noParsedBL s.fields = true → pt s = pt' s) :
    ∀ (b : B) (k : SeqKind), noParsedB b = true →
      seqLikeWith pe pc pt bytes b k = seqLikeWith pe' pc' pt' bytes b k := by
  intro b k h
  cases b with
  | list p large fm v offs el =>
    simp only [noParsedB] at h
    simp only [seqLikeWith]
    refine bind_congr_ok _ _ _ fun v' _ => ?_
    refine bind_congr_ok _ _ _ fun o' _ => ?_
    rw [hpe large el o' h]
  | fixedSizeList p fm n len v cur el =>
    simp only [noParsedB] at h
    simp only [seqLikeWith]
    refine bind_congr_ok _ _ _ fun v' _ => ?_
    rw [hpc el 0 h]
  | struct p len v fs cached next seen =>
    simp only [noParsedB] at h
    cases k with
    | seq => simp only [seqLikeWith]
    | tuple => simp only [seqLikeWith]; exact record_refuse h hpt
    | tupleStruct => simp only [seqLikeWith]; exact record_refuse h hpt
  | _ => simp only [seqLikeWith]

/-- one row of a union: bookkeeping + the variant's child -/
theorem union_row_refuse {p fs types offs cur} {i : Nat} {pc pc' : B → R B}
    (hs : noParsedBL fs = true) (hpc : ∀ c, noParsedB c = true → pc c = pc' c) :
    (do
      let (c, types', offs', cur') ← serializeVariant fs types offs cur i
      let c' ← pc c
      pure (.union p (fs.set i c') types' offs' cur') : R B) =
    (do
      let (c, types', offs', cur') ← serializeVariant fs types offs cur i
      let c' ← pc' c
      pure (.union p (fs.set i c') types' offs' cur') : R B) := by
  refine bind_congr_ok _ _ _ fun r hr => ?_
  obtain ⟨m, co, hget, _⟩ := serializeVariant_ok hr
  obtain ⟨c, t', o', cur'⟩ := r
  simp only
  rw [hpc c (noParsedBL_get _ _ _ _ hs hget)]

end SaModel.Build
