import SaModel.Lemmas.C04ExtFree
/-
C04, removing `ExtOK`: `push` (the whole mutual block) on a builder without temporal leaves does not depend on the chrono
parsers of `ext` — it is the same function under `refuseExt ext`.  Same case split as `push_takeRest`
(Lemmas/C10TakePush.lean), which also supplies the invariance of `noParsedB` along the state-threading loops.
-/
namespace SaModel.Build
open SaModel SaModel.Spec

mutual
theorem push_refuse (ext : Ext) : ∀ (x : SVal) (b : B), noParsedB b = true → push ext b x = push (refuseExt ext) b x
  | .some v, b, h => by simp only [push]; exact push_refuse ext v b h
  | .newtypeStruct _ v, b, h => by simp only [push]; exact push_refuse ext v b h
  | .none, b, _ => by simp only [push]
  | .unit, b, _ => by simp only [push]
  | .seq xs, b, h => by
    simp only [push]
    exact congrArg (ctx b.ann) (seqLikeWith_refuse (fun large el offs hel => pushElems_refuse ext xs large el offs hel)
      (fun el c hel => pushCountElems_refuse ext xs el c hel) (fun s hs => pushTupleElems_refuse ext xs s hs) b _ h)
  | .tuple xs, b, h => by
    simp only [push]
    exact congrArg (ctx b.ann) (seqLikeWith_refuse (fun large el offs hel => pushElems_refuse ext xs large el offs hel)
      (fun el c hel => pushCountElems_refuse ext xs el c hel) (fun s hs => pushTupleElems_refuse ext xs s hs) b _ h)
  | .tupleStruct _ xs, b, h => by
    simp only [push]
    exact congrArg (ctx b.ann) (seqLikeWith_refuse (fun large el offs hel => pushElems_refuse ext xs large el offs hel)
      (fun el c hel => pushCountElems_refuse ext xs el c hel) (fun s hs => pushTupleElems_refuse ext xs s hs) b _ h)
  | .record _ fs, b, h => by
    simp only [push]
    exact congrArg (ctx b.ann) (recordWith_refuse (fun s hs => pushFields_refuse ext fs s hs) b h)
  | .map es, b, h => by
    cases b with
    | struct p len v fs cached next seen =>
      simp only [noParsedB] at h
      simp only [push]
      exact congrArg (ctx _) (record_refuse (pf := fun s => pushStructEntries ext { s with next := UNKNOWN_KEY } es)
        (pf' := fun s => pushStructEntries (refuseExt ext) { s with next := UNKNOWN_KEY } es) h
        (fun s hs => pushStructEntries_refuse ext es _ hs))
    | map p mm v offs ks vs =>
      simp only [noParsedB, Bool.and_eq_true] at h
      simp only [push]
      refine congrArg (ctx _) ?_
      refine bind_congr_ok _ _ _ fun v' _ => ?_
      refine bind_congr_ok _ _ _ fun o' _ => ?_
      rw [pushMapEntries_refuse ext es o' ks vs h.1 h.2]
    | _ => simp only [push]
  | .mapRaw ops, b, h => by
    cases b with
    | struct p len v fs cached next seen =>
      simp only [noParsedB] at h
      simp only [push]
      exact congrArg (ctx _) (record_refuse (pf := fun s => pushStructOps ext { s with next := UNKNOWN_KEY } ops)
        (pf' := fun s => pushStructOps (refuseExt ext) { s with next := UNKNOWN_KEY } ops) h
        (fun s hs => pushStructOps_refuse ext ops _ hs))
    | map p mm v offs ks vs =>
      simp only [noParsedB, Bool.and_eq_true] at h
      simp only [push]
      refine congrArg (ctx _) ?_
      refine bind_congr_ok _ _ _ fun v' _ => ?_
      refine bind_congr_ok _ _ _ fun o' _ => ?_
      rw [pushMapOps_refuse ext ops false o' ks vs h.1 h.2]
    | _ => simp only [push]
  | .unitVariant n i vn, b, h => by
    cases b with
    | union p fs types offs cur => simp only [push]
    | _ => simp only [push]; rw [pushScalar_refuse ext _ _ h]
  | .newtypeVariant _ i _ v, b, h => by
    cases b with
    | union p fs types offs cur =>
      simp only [noParsedB] at h
      simp only [push]
      exact congrArg (ctx _) (union_row_refuse (pc := fun c => push ext c v) (pc' := fun c => push (refuseExt ext) c v) h
        (fun c hc => push_refuse ext v c hc))
    | _ => simp only [push]
  | .tupleVariant _ i _ xs, b, h => by
    cases b with
    | union p fs types offs cur =>
      simp only [noParsedB] at h
      simp only [push]
      refine congrArg (ctx _) (union_row_refuse
        (pc := fun c => ctx c.ann (seqLikeWith (fun large el offs => pushElems ext large el offs xs)
          (fun el c => pushCountElems ext el c xs) (fun s => pushTupleElems ext s xs) (u8All xs) c .tupleStruct))
        (pc' := fun c => ctx c.ann (seqLikeWith (fun large el offs => pushElems (refuseExt ext) large el offs xs)
          (fun el c => pushCountElems (refuseExt ext) el c xs) (fun s => pushTupleElems (refuseExt ext) s xs) (u8All xs) c
          .tupleStruct)) h ?_)
      intro c hc
      exact congrArg (ctx c.ann) (seqLikeWith_refuse (fun large el offs hel => pushElems_refuse ext xs large el offs hel)
        (fun el c hel => pushCountElems_refuse ext xs el c hel) (fun s hs => pushTupleElems_refuse ext xs s hs) c _ hc)
    | _ => simp only [push]
  | .structVariant _ i _ fields, b, h => by
    cases b with
    | union p fs types offs cur =>
      simp only [noParsedB] at h
      simp only [push]
      refine congrArg (ctx _) (union_row_refuse
        (pc := fun c => ctx c.ann (recordWith (fun s => pushFields ext s fields) c))
        (pc' := fun c => ctx c.ann (recordWith (fun s => pushFields (refuseExt ext) s fields) c)) h ?_)
      intro c hc
      exact congrArg (ctx c.ann) (recordWith_refuse (fun s hs => pushFields_refuse ext fields s hs) c hc)
    | _ => simp only [push]
  | .bytes bs, b, h => by
    cases b with
    | list p large fm v offs el =>
      simp only [noParsedB] at h
      simp only [push]
      refine congrArg (ctx _) ?_
      refine bind_congr_ok _ _ _ fun v' _ => ?_
      refine bind_congr_ok _ _ _ fun o' _ => ?_
      rw [pushByteElems_refuse ext large bs el o' h]
    | _ => simp only [push]; rw [pushScalar_refuse ext _ _ h]
  | .bool x, b, h => by simp only [push]; rw [pushScalar_refuse ext _ _ h]
  | .int t x, b, h => by simp only [push]; rw [pushScalar_refuse ext _ _ h]
  | .f32 x, b, h => by simp only [push]; rw [pushScalar_refuse ext _ _ h]
  | .f64 x, b, h => by simp only [push]; rw [pushScalar_refuse ext _ _ h]
  | .char x, b, h => by simp only [push]; rw [pushScalar_refuse ext _ _ h]
  | .str x, b, h => by simp only [push]; rw [pushScalar_refuse ext _ _ h]
  | .unitStruct _, b, _ => by simp only [push]

theorem pushElems_refuse (ext : Ext) : ∀ (xs : SVals) (large : Bool) (el : B) (offs : List Int), noParsedB el = true →
    pushElems ext large el offs xs = pushElems (refuseExt ext) large el offs xs
  | .nil, large, el, offs, _ => by simp only [pushElems]
  | .cons x rest, large, el, offs, h => by
    simp only [pushElems]
    refine bind_congr_ok _ _ _ fun o' _ => ?_
    rw [push_refuse ext x el h]
    refine bind_congr_ok _ _ _ fun el' hel => ?_
    exact pushElems_refuse ext rest large el' o' (noParsedB.of_takeRest (push_takeRest _ x el el' hel) h)

theorem pushCountElems_refuse (ext : Ext) : ∀ (xs : SVals) (el : B) (c : Nat), noParsedB el = true →
    pushCountElems ext el c xs = pushCountElems (refuseExt ext) el c xs
  | .nil, el, c, _ => by simp only [pushCountElems]
  | .cons x rest, el, c, h => by
    simp only [pushCountElems]
    rw [push_refuse ext x el h]
    refine bind_congr_ok _ _ _ fun el' hel => ?_
    exact pushCountElems_refuse ext rest el' (c + 1) (noParsedB.of_takeRest (push_takeRest _ x el el' hel) h)

theorem pushTupleElems_refuse (ext : Ext) : ∀ (xs : SVals) (s : SS), noParsedBL s.fields = true →
    pushTupleElems ext s xs = pushTupleElems (refuseExt ext) s xs
  | .nil, s, _ => by simp only [pushTupleElems]
  | .cons x rest, s, h => by
    simp only [pushTupleElems]
    split
    · rw [SS.element_refuse (pc' := fun c => push (refuseExt ext) c x) h (fun c hc => push_refuse ext x c hc)]
      refine bind_congr_ok _ _ _ fun s1 h1 => ?_
      exact pushTupleElems_refuse ext rest s1
        (noParsedBL.of_skel (SS.element_skel (fun c c' hc => push_takeRest _ x c c' hc) h1) h)
    · exact pushTupleElems_refuse ext rest s h

theorem pushFields_refuse (ext : Ext) : ∀ (fs : SFields) (s : SS), noParsedBL s.fields = true →
    pushFields ext s fs = pushFields (refuseExt ext) s fs
  | .nil, s, _ => by simp only [pushFields]
  | .cons key al x rest, s, h => by
    rcases hl : lookup s.fields.names s.cached s.next (key, al) with ⟨_ | idx, cached'⟩
    · simp only [pushFields, hl]
      exact pushFields_refuse ext rest _ h
    · simp only [pushFields, hl]
      rw [SS.element_refuse (s := { s with cached := cached' }) (pc' := fun c => push (refuseExt ext) c x) h
        (fun c hc => push_refuse ext x c hc)]
      refine bind_congr_ok _ _ _ fun s1 h1 => ?_
      exact pushFields_refuse ext rest s1
        (noParsedBL.of_skel (SS.element_skel (fun c c' hc => push_takeRest _ x c c' hc) h1) h)

theorem pushStructEntries_refuse (ext : Ext) : ∀ (es : SEntries) (s : SS), noParsedBL s.fields = true →
    pushStructEntries ext s es = pushStructEntries (refuseExt ext) s es
  | .nil, s, _ => by simp only [pushStructEntries]
  | .cons k x rest, s, h => by
    simp only [pushStructEntries]
    refine bind_congr_ok _ _ _ fun key _ => ?_
    cases hi : indexOfName s.fields.names key with
    | none => exact pushStructEntries_refuse ext rest _ h
    | some idx =>
      simp only
      rw [SS.element_refuse (pc' := fun c => push (refuseExt ext) c x) h (fun c hc => push_refuse ext x c hc)]
      refine bind_congr_ok _ _ _ fun s1 h1 => ?_
      exact pushStructEntries_refuse ext rest _
        (noParsedBL.of_skel (s' := s1) (SS.element_skel (fun c c' hc => push_takeRest _ x c c' hc) h1) h)

theorem pushStructOps_refuse (ext : Ext) : ∀ (ops : SMapOps) (s : SS), noParsedBL s.fields = true →
    pushStructOps ext s ops = pushStructOps (refuseExt ext) s ops
  | .nil, s, _ => by simp only [pushStructOps]
  | .key k rest, s, h => by
    simp only [pushStructOps]
    refine bind_congr_ok _ _ _ fun key _ => ?_
    exact pushStructOps_refuse ext rest _ h
  | .value x rest, s, h => by
    simp only [pushStructOps]
    split
    · rw [SS.element_refuse (pc' := fun c => push (refuseExt ext) c x) h (fun c hc => push_refuse ext x c hc)]
      refine bind_congr_ok _ _ _ fun s1 h1 => ?_
      exact pushStructOps_refuse ext rest _
        (noParsedBL.of_skel (s' := s1) (SS.element_skel (fun c c' hc => push_takeRest _ x c c' hc) h1) h)
    · exact pushStructOps_refuse ext rest _ h

theorem pushMapEntries_refuse (ext : Ext) : ∀ (es : SEntries) (offs : List Int) (ks vs : B), noParsedB ks = true →
    noParsedB vs = true → pushMapEntries ext offs ks vs es = pushMapEntries (refuseExt ext) offs ks vs es
  | .nil, offs, ks, vs, _, _ => by simp only [pushMapEntries]
  | .cons k x rest, offs, ks, vs, hk, hv => by
    simp only [pushMapEntries]
    refine bind_congr_ok _ _ _ fun o' _ => ?_
    rw [push_refuse ext k ks hk]
    refine bind_congr_ok _ _ _ fun ks' hks => ?_
    rw [push_refuse ext x vs hv]
    refine bind_congr_ok _ _ _ fun vs' hvs => ?_
    exact pushMapEntries_refuse ext rest o' ks' vs' (noParsedB.of_takeRest (push_takeRest _ k ks ks' hks) hk)
      (noParsedB.of_takeRest (push_takeRest _ x vs vs' hvs) hv)

theorem pushMapOps_refuse (ext : Ext) : ∀ (ops : SMapOps) (pd : Bool) (offs : List Int) (ks vs : B), noParsedB ks = true →
    noParsedB vs = true → pushMapOps ext pd offs ks vs ops = pushMapOps (refuseExt ext) pd offs ks vs ops
  | .nil, pd, offs, ks, vs, _, _ => by simp only [pushMapOps]
  | .key k rest, pd, offs, ks, vs, hk, hv => by
    simp only [pushMapOps]
    split
    · rfl
    · refine bind_congr_ok _ _ _ fun o' _ => ?_
      rw [push_refuse ext k ks hk]
      refine bind_congr_ok _ _ _ fun ks' hks => ?_
      exact pushMapOps_refuse ext rest true o' ks' vs (noParsedB.of_takeRest (push_takeRest _ k ks ks' hks) hk) hv
  | .value x rest, pd, offs, ks, vs, hk, hv => by
    simp only [pushMapOps]
    split
    · rfl
    · rw [push_refuse ext x vs hv]
      refine bind_congr_ok _ _ _ fun vs' hvs => ?_
      exact pushMapOps_refuse ext rest false offs ks vs' hk (noParsedB.of_takeRest (push_takeRest _ x vs vs' hvs) hv)
end

end SaModel.Build
