import SaModel.Lemmas.C04ExtFinish
import SaModel.Roundtrip.Types
/-
C04, removing `ExtOK`: the documented mapping of a Rust type (`Roundtrip.mappingDT`, what `from_type` returns) never
contains a temporal type — for EVERY type and EVERY option set —, so `to_marrow` against a traced schema never consults
the chrono parsers of `ext` (`toMarrow_refuse_traced`).
-/
namespace SaModel.Roundtrip
open SaModel SaModel.Spec SaModel.Build

theorem noTemporal_str (o : TraceOpts) : noTemporalDT (strDT o) = true := by
  unfold strDT; split <;> rfl

theorem noTemporal_prim (o : TraceOpts) (p : Prim) : noTemporalDT (primDT o p) = true := by
  cases p with
  | int t => cases t <;> rfl
  | str | strRef | cowStr =>
    simp only [primDT]
    split
    · simp [noTemporalDT, noTemporal_str]
    · exact noTemporal_str o
  | _ => rfl

mutual
theorem mapping_noTemporal (o : TraceOpts) :
    ∀ (t : Ty) (dt : DataType) (nb : Bool) (md : Metadata), mappingDT o t = (dt, nb, md) → noTemporalDT dt = true
  | .prim p, dt, nb, md, hm => by
    simp only [mappingDT, Prod.mk.injEq] at hm; obtain ⟨rfl, rfl, rfl⟩ := hm; exact noTemporal_prim o p
  | .unit, dt, nb, md, hm | .unitStruct _, dt, nb, md, hm => by
    simp only [mappingDT, Prod.mk.injEq] at hm; obtain ⟨rfl, rfl, rfl⟩ := hm; rfl
  | .option t, dt, nb, md, hm => by
    rcases hm' : mappingDT o t with ⟨dt', nb', md'⟩
    simp only [mappingDT, hm', Prod.mk.injEq] at hm; obtain ⟨rfl, rfl, rfl⟩ := hm
    exact mapping_noTemporal o t _ _ _ hm'
  | .newtype _ t, dt, nb, md, hm => by
    simp only [mappingDT] at hm
    exact mapping_noTemporal o t _ _ _ hm
  | .vec t, dt, nb, md, hm => by
    rcases hm' : mappingDT o t with ⟨dt', nb', md'⟩
    simp only [mappingDT, hm', Prod.mk.injEq] at hm; obtain ⟨rfl, rfl, rfl⟩ := hm
    have ih := mapping_noTemporal o t _ _ _ hm'
    split <;> simpa [noTemporalDT, noTemporalF] using ih
  | .tuple ts, dt, nb, md, hm | .tupleStruct _ ts, dt, nb, md, hm => by
    simp only [mappingDT, Prod.mk.injEq] at hm; obtain ⟨rfl, rfl, rfl⟩ := hm
    simpa [noTemporalDT] using mappingPos_noTemporal o ts 0
  | .struct _ fs, dt, nb, md, hm => by
    simp only [mappingDT, Prod.mk.injEq] at hm; obtain ⟨rfl, rfl, rfl⟩ := hm
    simpa [noTemporalDT] using mappingFields_noTemporal o fs
  | .map k v, dt, nb, md, hm => by
    rcases hk : mappingDT o k with ⟨kdt, knb, kmd⟩
    rcases hv : mappingDT o v with ⟨vdt, vnb, vmd⟩
    simp only [mappingDT, hk, hv, Prod.mk.injEq] at hm; obtain ⟨rfl, rfl, rfl⟩ := hm
    simp [noTemporalDT, noTemporalF, noTemporalFs, mapping_noTemporal o k _ _ _ hk, mapping_noTemporal o v _ _ _ hv]
  | .enum _ vars, dt, nb, md, hm => by
    simp only [mappingDT] at hm
    split at hm
    · simp only [Prod.mk.injEq] at hm; obtain ⟨rfl, rfl, rfl⟩ := hm
      simp [noTemporalDT, noTemporal_str]
    · simp only [Prod.mk.injEq] at hm; obtain ⟨rfl, rfl, rfl⟩ := hm
      simpa [noTemporalDT] using mappingVariants_noTemporal o vars 0
theorem mappingPos_noTemporal (o : TraceOpts) : ∀ (ts : Tys) (i : Nat), noTemporalFs (mappingPos o i ts) = true
  | .nil, _ => rfl
  | .cons t r, i => by
    rcases hm : mappingDT o t with ⟨dt, nb, md⟩
    simp [mappingPos, hm, noTemporalFs, noTemporalF, mapping_noTemporal o t _ _ _ hm, mappingPos_noTemporal o r (i + 1)]
theorem mappingFields_noTemporal (o : TraceOpts) : ∀ (fs : TFields), noTemporalFs (mappingFields o fs) = true
  | .nil => rfl
  | .cons n s t r => by
    rcases hm : mappingDT o t with ⟨dt, nb, md⟩
    simp [mappingFields, hm, noTemporalFs, noTemporalF, mapping_noTemporal o t _ _ _ hm, mappingFields_noTemporal o r]
theorem mappingVariants_noTemporal (o : TraceOpts) : ∀ (vs : Variants) (i : Nat),
    noTemporalUs (mappingVariants o i vs) = true
  | .nil, _ => rfl
  | .cons vn .unit r, i => by
    simp [mappingVariants, noTemporalUs, noTemporalF, noTemporalDT, mappingVariants_noTemporal o r (i + 1)]
  | .cons vn (.newtype t) r, i => by
    rcases hm : mappingDT o t with ⟨dt, nb, md⟩
    simp [mappingVariants, hm, noTemporalUs, noTemporalF, mapping_noTemporal o t _ _ _ hm,
      mappingVariants_noTemporal o r (i + 1)]
  | .cons vn (.tuple ts) r, i => by
    simp [mappingVariants, noTemporalUs, noTemporalF, noTemporalDT, mappingPos_noTemporal o ts 0,
      mappingVariants_noTemporal o r (i + 1)]
  | .cons vn (.struct fs) r, i => by
    simp [mappingVariants, noTemporalUs, noTemporalF, noTemporalDT, mappingFields_noTemporal o fs,
      mappingVariants_noTemporal o r (i + 1)]
end

/-- the schema traced from a record type has no temporal column -/
theorem mappingFields_toList_noTemporal (o : TraceOpts) (fs : TFields) :
    ∀ f ∈ (mappingFields o fs).toList, noTemporalDT f.dataType = true :=
  noTemporalFs_toList _ (mappingFields_noTemporal o fs)

/-- **`to_marrow` against a traced schema does not depend on the chrono parsers**: the same outcome under `refuseExt ext` -/
theorem toMarrow_refuse_traced (ext : Ext) (o : TraceOpts) (fs : TFields) (fields : List Field)
    (hfields : fields = (mappingFields o fs).toList) (rows : List SVal) :
    toMarrow ext fields rows = toMarrow (refuseExt ext) fields rows :=
  toMarrow_refuse ext fields rows (by rw [hfields]; exact mappingFields_toList_noTemporal o fs)

/-! non-vacuity: a traced schema (a struct with an `i32`, an `Option<String>` and a `Vec<bool>`), the out-of-range parsers
`exBadExt` (for which `ExtOK` is FALSE): serialization succeeds, and `refuseExt` gives the same arrays -/
def exRefuseTy : TFields :=
  .cons "a" false (.prim (.int .i32)) (.cons "s" false (.option (.prim .str)) (.cons "v" false (.vec (.prim .bool)) .nil))
def exRefuseTyRows : List SVal :=
  [ser (.struct "R" exRefuseTy) (.struct (.cons (.int 7) (.cons (.some (.str "x")) (.cons (.vec (.cons (.bool true) .nil)) .nil)))),
   ser (.struct "R" exRefuseTy) (.struct (.cons (.int (-1)) (.cons .none (.cons (.vec .nil) .nil))))]

example : (toMarrow exBadExt (mappingFields {} exRefuseTy).toList exRefuseTyRows).isOk = true ∧
    ((mappingFields {} exRefuseTy).toList.map (·.dataType)).length = 3 := by decide +kernel

example : toMarrow (refuseExt exBadExt) (mappingFields {} exRefuseTy).toList exRefuseTyRows =
    toMarrow exBadExt (mappingFields {} exRefuseTy).toList exRefuseTyRows :=
  (toMarrow_refuse_traced exBadExt {} exRefuseTy _ rfl exRefuseTyRows).symm

end SaModel.Roundtrip
