import SaModel.Lemmas.C04Trace
import SaModel.Props.C08
/-
C04: `from_type` SUCCEEDS on every type the documented mapping does not refuse, and returns `mappingFields`.

`mappable o t` is the decidable statement of the documented refusals of the mapping (`Spec.mapping`, no overwrites):
a null-only field (`()`, a unit struct, a unit variant) without `allow_null_fields`; an enum without data with neither
`enums_without_data_as_strings` nor `allow_null_fields`; an enum with more than 128 variants that is traced to a Union.

  mapping_ok / mappingTys_ok / mappingFields_ok / mappingVariants_ok
                     mappable (viewOpts O) t → Spec.mapping O name path nl (toTraceTy t) = ok ⟨name, dt, nl || nb, md⟩
  mapping_mappable   (+ Tys / Fields / Variants) the converse: `Spec.mapping` succeeds ONLY on mappable types (`mappable` is exact)
  mapping_ok_iff     `(∃ f, Spec.mapping … = ok f) ↔ mappable …`
  fromTypeSpec_ok    walkable, mappable, passes ≤ budget → Spec.fromTypeSpec O (struct n fs) = ok (mappingFields fs).toList
  fromType_ok        the same for the tracer model `Trace.fromType` (through `Props.C08.C08_from_type`)
-/
namespace SaModel.Roundtrip
open SaModel SaModel.Trace

mutual
/-- the documented mapping does not refuse the type (no overwrites) -/
def mappable (o : TraceOpts) : Ty → Bool
  | .prim _ => true
  | .unit | .unitStruct _ => o.allowNullFields
  | .option t | .newtype _ t | .vec t => mappable o t
  | .map k v => mappable o k && mappable o v
  | .tuple ts | .tupleStruct _ ts => mappableTys o ts
  | .struct _ fs => mappableFields o fs
  | .enum _ vars => (vars.withoutData && o.enumsWithoutDataAsStrings) ||
      ((!vars.withoutData || o.allowNullFields) && decide (vars.length ≤ 128) && mappableVariants o vars)
def mappableTys (o : TraceOpts) : Tys → Bool
  | .nil => true
  | .cons t r => mappable o t && mappableTys o r
def mappableFields (o : TraceOpts) : TFields → Bool
  | .nil => true
  | .cons _ _ t r => mappable o t && mappableFields o r
def mappableVariants (o : TraceOpts) : Variants → Bool
  | .nil => true
  | .cons _ .unit r => o.allowNullFields && mappableVariants o r
  | .cons _ (.newtype t) r => mappable o t && mappableVariants o r
  | .cons _ (.tuple ts) r => mappableTys o ts && mappableVariants o r
  | .cons _ (.struct fs) r => mappableFields o fs && mappableVariants o r
end

mutual
private theorem fields_ofList_toList : ∀ (fs : Fields), Fields.ofList fs.toList = fs
  | .nil => rfl
  | .cons f r => by simp only [Fields.toList, Fields.ofList, fields_ofList_toList r]
end

mutual
private theorem ufields_ofList_toList : ∀ (fs : UFields), UFields.ofList fs.toList = fs
  | .nil => rfl
  | .cons i f r => by simp only [UFields.toList, UFields.ofList, ufields_ofList_toList r]
end

/-- the guard `if i > 127 then fail …` of `Spec.mappingVariants`, passed -/
theorem guard_pass {β} {i : Nat} {m : String} {k k' : R β} (hi : i ≤ 127) :
    (if i > 127 then ((fail m : R PUnit) >>= fun _ => k') else k) = k := by
  rw [if_neg (by omega)]

theorem ok_bind {α β} (a : α) (f : α → R β) : ((Except.ok a : R α) >>= f) = f a := rfl

/-! ### the mapping succeeds on mappable types -/

mutual
theorem mapping_ok (O : Options) (h0 : O.overwrites = []) : ∀ (t : Ty) (name path : String) (nl : Bool)
    (dt : DataType) (nb : Bool) (md : Metadata), mappable (viewOpts O) t = true →
    mappingDT (viewOpts O) t = (dt, nb, md) →
    Spec.mapping O name path nl (toTraceTy t) = .ok (.mk name dt (nl || nb) md)
  | .prim p, name, path, nl, dt, nb, md, _, hm => by
    simp only [mappingDT, Prod.mk.injEq] at hm; obtain ⟨rfl, rfl, rfl⟩ := hm
    cases p <;> simp only [toTraceTy, primTraceTy, Spec.mapping, overwritten_none O h0, Bool.or_false, primDT]
    case str =>
      simp only [Spec.stringField, strDT_view, view_dict]
      split <;> simp [*]
    case strRef =>
      simp only [Spec.stringField, strDT_view, view_dict]
      split <;> simp [*]
    case cowStr =>
      simp only [Spec.stringField, strDT_view, view_dict]
      split <;> simp [*]
    case int t => cases t <;> rfl
  | .unit, name, path, nl, dt, nb, md, hp, hm => by
    simp only [mappingDT, Prod.mk.injEq] at hm; obtain ⟨rfl, rfl, rfl⟩ := hm
    have ha : O.allow_null_fields = true := by simp only [mappable] at hp; exact hp
    simp only [toTraceTy, Spec.mapping, overwritten_none O h0, Spec.nullField, ha, if_true, Bool.or_true]
  | .unitStruct n, name, path, nl, dt, nb, md, hp, hm => by
    simp only [mappingDT, Prod.mk.injEq] at hm; obtain ⟨rfl, rfl, rfl⟩ := hm
    have ha : O.allow_null_fields = true := by simp only [mappable] at hp; exact hp
    simp only [toTraceTy, Spec.mapping, overwritten_none O h0, Spec.nullField, ha, if_true, Bool.or_true]
  | .option t, name, path, nl, dt, nb, md, hp, hm => by
    rcases hm' : mappingDT (viewOpts O) t with ⟨dt', nb', md'⟩
    simp only [mappingDT, hm', Prod.mk.injEq] at hm; obtain ⟨rfl, rfl, rfl⟩ := hm
    simp only [mappable] at hp
    simp only [toTraceTy, Spec.mapping]
    rw [mapping_ok O h0 t name path true _ _ _ hp hm']
    simp
  | .newtype n t, name, path, nl, dt, nb, md, hp, hm => by
    simp only [mappingDT] at hm
    simp only [mappable] at hp
    simp only [toTraceTy, Spec.mapping]
    exact mapping_ok O h0 t name path nl _ _ _ hp hm
  | .vec t, name, path, nl, dt, nb, md, hp, hm => by
    rcases hm' : mappingDT (viewOpts O) t with ⟨dt', nb', md'⟩
    simp only [mappingDT, hm', Prod.mk.injEq, view_large] at hm; obtain ⟨rfl, rfl, rfl⟩ := hm
    simp only [mappable] at hp
    simp only [toTraceTy, Spec.mapping, overwritten_none O h0]
    rw [mapping_ok O h0 t _ _ false _ _ _ hp hm']
    simp [ok_bind]
  | .tuple ts, name, path, nl, dt, nb, md, hp, hm => by
    simp only [mappingDT, Prod.mk.injEq] at hm; obtain ⟨rfl, rfl, rfl⟩ := hm
    simp only [mappable] at hp
    simp only [toTraceTy, Spec.mapping, overwritten_none O h0]
    rw [mappingTys_ok O h0 ts path 0 hp]
    simp [ok_bind, fields_ofList_toList, Spec.tupleMeta, TUPLE_MD]
  | .tupleStruct n ts, name, path, nl, dt, nb, md, hp, hm => by
    simp only [mappingDT, Prod.mk.injEq] at hm; obtain ⟨rfl, rfl, rfl⟩ := hm
    simp only [mappable] at hp
    simp only [toTraceTy, Spec.mapping, overwritten_none O h0]
    rw [mappingTys_ok O h0 ts path 0 hp]
    simp [ok_bind, fields_ofList_toList, Spec.tupleMeta, TUPLE_MD]
  | .struct n fs, name, path, nl, dt, nb, md, hp, hm => by
    simp only [mappingDT, Prod.mk.injEq] at hm; obtain ⟨rfl, rfl, rfl⟩ := hm
    simp only [mappable] at hp
    simp only [toTraceTy, Spec.mapping, overwritten_none O h0]
    rw [mappingFields_ok O h0 fs path hp]
    simp [ok_bind, fields_ofList_toList]
  | .map k v, name, path, nl, dt, nb, md, hp, hm => by
    rcases hk' : mappingDT (viewOpts O) k with ⟨kdt, knb, kmd⟩
    rcases hv' : mappingDT (viewOpts O) v with ⟨vdt, vnb, vmd⟩
    simp only [mappingDT, hk', hv', Prod.mk.injEq] at hm; obtain ⟨rfl, rfl, rfl⟩ := hm
    simp only [mappable, Bool.and_eq_true] at hp
    simp only [toTraceTy, Spec.mapping, overwritten_none O h0]
    rw [mapping_ok O h0 k _ _ false _ _ _ hp.1 hk', mapping_ok O h0 v _ _ false _ _ _ hp.2 hv']
    simp [ok_bind, Fields.ofList]
  | .enum n vs, name, path, nl, dt, nb, md, hp, hm => by
    simp only [toTraceTy, Spec.mapping, overwritten_none O h0, withoutData_trace]
    simp only [mappingDT] at hm
    simp only [mappable, Bool.or_eq_true] at hp
    by_cases hc : (vs.withoutData && O.enums_without_data_as_strings) = true
    · have hc' : (vs.withoutData && (viewOpts O).enumsWithoutDataAsStrings) = true := hc
      rw [if_pos hc]; rw [if_pos hc'] at hm
      simp only [Prod.mk.injEq] at hm; obtain ⟨rfl, rfl, rfl⟩ := hm
      simp [strDT_view]
    · have hc' : ¬ (vs.withoutData && (viewOpts O).enumsWithoutDataAsStrings) = true := hc
      rw [if_neg hc]; rw [if_neg hc'] at hm
      simp only [Prod.mk.injEq] at hm; obtain ⟨rfl, rfl, rfl⟩ := hm
      rcases hp with hp | hp
      · exact absurd hp hc'
      · simp only [Bool.and_eq_true, decide_eq_true_eq] at hp
        obtain ⟨⟨h1, h2⟩, h3⟩ := hp
        have h1' : (!vs.withoutData || O.allow_null_fields) = true := h1
        have hne : ¬ (vs.withoutData && !O.allow_null_fields) = true := by
          cases hw : vs.withoutData <;> cases ha : O.allow_null_fields <;> simp [hw, ha] at h1' ⊢
        rw [if_neg hne, mappingVariants_ok O h0 vs path 0 h3 (by omega)]
        simp [ok_bind, ufields_ofList_toList]
theorem mappingTys_ok (O : Options) (h0 : O.overwrites = []) : ∀ (ts : Tys) (path : String) (i : Nat),
    mappableTys (viewOpts O) ts = true →
    Spec.mappingTys O path i (toTraceTys ts) = .ok (mappingPos (viewOpts O) i ts).toList
  | .nil, _, _, _ => by
    simp only [toTraceTys, Spec.mappingTys, mappingPos, Fields.toList]
  | .cons t r, path, i, hp => by
    rcases hm' : mappingDT (viewOpts O) t with ⟨dt', nb', md'⟩
    simp only [mappableTys, Bool.and_eq_true] at hp
    simp only [toTraceTys, Spec.mappingTys]
    rw [mapping_ok O h0 t _ _ false _ _ _ hp.1 hm', mappingTys_ok O h0 r path (i + 1) hp.2]
    simp [ok_bind, mappingPos, hm', Fields.toList, posName]
theorem mappingFields_ok (O : Options) (h0 : O.overwrites = []) : ∀ (fs : TFields) (path : String),
    mappableFields (viewOpts O) fs = true →
    Spec.mappingFields O path (toTraceFields fs) = .ok (mappingFields (viewOpts O) fs).toList
  | .nil, _, _ => by
    simp only [toTraceFields, Spec.mappingFields, mappingFields, Fields.toList]
  | .cons n s t r, path, hp => by
    rcases hm' : mappingDT (viewOpts O) t with ⟨dt', nb', md'⟩
    simp only [mappableFields, Bool.and_eq_true] at hp
    simp only [toTraceFields, Spec.mappingFields]
    rw [mapping_ok O h0 t _ _ false _ _ _ hp.1 hm', mappingFields_ok O h0 r path hp.2]
    simp [ok_bind, mappingFields, hm', Fields.toList]
theorem mappingVariants_ok (O : Options) (h0 : O.overwrites = []) : ∀ (vars : Variants) (path : String) (i : Nat),
    mappableVariants (viewOpts O) vars = true → i + vars.length ≤ 128 →
    Spec.mappingVariants O path i (toTraceVariants vars) = .ok (mappingVariants (viewOpts O) i vars).toList
  | .nil, _, _, _, _ => by
    simp only [toTraceVariants, Spec.mappingVariants, mappingVariants, UFields.toList]
  | .cons n .unit r, path, i, hp, hl => by
    simp only [mappableVariants, Bool.and_eq_true] at hp
    simp only [Variants.length] at hl
    have ha : O.allow_null_fields = true := hp.1
    simp only [toTraceVariants, Spec.mappingVariants, overwritten_none O h0, Spec.nullField, ha, if_true]
    rw [guard_pass (by omega), mappingVariants_ok O h0 r path (i + 1) hp.2 (by omega)]
    simp [ok_bind, mappingVariants, UFields.toList]
  | .cons n (.newtype t) r, path, i, hp, hl => by
    rcases hm' : mappingDT (viewOpts O) t with ⟨dt', nb', md'⟩
    simp only [mappableVariants, Bool.and_eq_true] at hp
    simp only [Variants.length] at hl
    simp only [toTraceVariants, Spec.mappingVariants]
    rw [guard_pass (by omega), mapping_ok O h0 t _ _ false _ _ _ hp.1 hm',
      mappingVariants_ok O h0 r path (i + 1) hp.2 (by omega)]
    simp [ok_bind, mappingVariants, hm', UFields.toList]
  | .cons n (.tuple ts) r, path, i, hp, hl => by
    simp only [mappableVariants, Bool.and_eq_true] at hp
    simp only [Variants.length] at hl
    simp only [toTraceVariants, Spec.mappingVariants, overwritten_none O h0]
    rw [guard_pass (by omega), mappingTys_ok O h0 ts _ 0 hp.1, mappingVariants_ok O h0 r path (i + 1) hp.2 (by omega)]
    simp [ok_bind, mappingVariants, UFields.toList, fields_ofList_toList, Spec.tupleMeta, TUPLE_MD]
  | .cons n (.struct fs) r, path, i, hp, hl => by
    simp only [mappableVariants, Bool.and_eq_true] at hp
    simp only [Variants.length] at hl
    simp only [toTraceVariants, Spec.mappingVariants, overwritten_none O h0]
    rw [guard_pass (by omega), mappingFields_ok O h0 fs _ hp.1, mappingVariants_ok O h0 r path (i + 1) hp.2 (by omega)]
    simp [ok_bind, mappingVariants, UFields.toList, fields_ofList_toList]
end

/-! ### `mappable` is exact: the mapping succeeds ONLY on mappable types -/

mutual
theorem mapping_mappable (O : Options) (h0 : O.overwrites = []) : ∀ (t : Ty) (name path : String) (nl : Bool) (f : Field),
    Spec.mapping O name path nl (toTraceTy t) = .ok f → mappable (viewOpts O) t = true
  | .prim _, _, _, _, _, _ => by simp only [mappable]
  | .unit, name, path, nl, f, h => by
    simp only [toTraceTy, Spec.mapping, overwritten_none O h0, Spec.nullField] at h
    split at h
    · rename_i ha; simp only [mappable]; exact ha
    · cases h
  | .unitStruct n, name, path, nl, f, h => by
    simp only [toTraceTy, Spec.mapping, overwritten_none O h0, Spec.nullField] at h
    split at h
    · rename_i ha; simp only [mappable]; exact ha
    · cases h
  | .option t, name, path, nl, f, h => by
    simp only [toTraceTy, Spec.mapping] at h
    simp only [mappable]
    exact mapping_mappable O h0 t name path true f h
  | .newtype n t, name, path, nl, f, h => by
    simp only [toTraceTy, Spec.mapping] at h
    simp only [mappable]
    exact mapping_mappable O h0 t name path nl f h
  | .vec t, name, path, nl, f, h => by
    simp only [toTraceTy, Spec.mapping, overwritten_none O h0] at h
    obtain ⟨item, hi, _⟩ := bind_ok h
    simp only [mappable]
    exact mapping_mappable O h0 t _ _ false item hi
  | .tuple ts, name, path, nl, f, h => by
    simp only [toTraceTy, Spec.mapping, overwritten_none O h0] at h
    obtain ⟨fs, hi, _⟩ := bind_ok h
    simp only [mappable]
    exact mappingTys_mappable O h0 ts path 0 fs hi
  | .tupleStruct n ts, name, path, nl, f, h => by
    simp only [toTraceTy, Spec.mapping, overwritten_none O h0] at h
    obtain ⟨fs, hi, _⟩ := bind_ok h
    simp only [mappable]
    exact mappingTys_mappable O h0 ts path 0 fs hi
  | .struct n fs, name, path, nl, f, h => by
    simp only [toTraceTy, Spec.mapping, overwritten_none O h0] at h
    obtain ⟨fl, hi, _⟩ := bind_ok h
    simp only [mappable]
    exact mappingFields_mappable O h0 fs path fl hi
  | .map k v, name, path, nl, f, h => by
    simp only [toTraceTy, Spec.mapping, overwritten_none O h0] at h
    obtain ⟨kf, hk, h⟩ := bind_ok h
    obtain ⟨vf, hv, _⟩ := bind_ok h
    simp only [mappable, Bool.and_eq_true]
    exact ⟨mapping_mappable O h0 k _ _ false kf hk, mapping_mappable O h0 v _ _ false vf hv⟩
  | .enum n vs, name, path, nl, f, h => by
    simp only [toTraceTy, Spec.mapping, overwritten_none O h0, withoutData_trace] at h
    simp only [mappable, Bool.or_eq_true]
    by_cases hc : (vs.withoutData && O.enums_without_data_as_strings) = true
    · exact Or.inl hc
    · rw [if_neg hc] at h
      split at h
      · cases h
      · rename_i hne
        obtain ⟨cs, hi, _⟩ := bind_ok h
        have hv := mappingVariants_mappable O h0 vs path 0 cs (by omega) hi
        refine Or.inr ?_
        simp only [Bool.and_eq_true, decide_eq_true_eq]
        refine ⟨⟨?_, by omega⟩, hv.1⟩
        show (!vs.withoutData || O.allow_null_fields) = true
        cases hw : vs.withoutData <;> cases ha : O.allow_null_fields <;> simp [hw, ha] at hne ⊢
theorem mappingTys_mappable (O : Options) (h0 : O.overwrites = []) : ∀ (ts : Tys) (path : String) (i : Nat) (fs : List Field),
    Spec.mappingTys O path i (toTraceTys ts) = .ok fs → mappableTys (viewOpts O) ts = true
  | .nil, _, _, _, _ => by simp only [mappableTys]
  | .cons t r, path, i, fs, h => by
    simp only [toTraceTys, Spec.mappingTys] at h
    obtain ⟨f, hf, h⟩ := bind_ok h
    obtain ⟨rest, hr, _⟩ := bind_ok h
    simp only [mappableTys, Bool.and_eq_true]
    exact ⟨mapping_mappable O h0 t _ _ false f hf, mappingTys_mappable O h0 r path (i + 1) rest hr⟩
theorem mappingFields_mappable (O : Options) (h0 : O.overwrites = []) : ∀ (fs : TFields) (path : String) (fl : List Field),
    Spec.mappingFields O path (toTraceFields fs) = .ok fl → mappableFields (viewOpts O) fs = true
  | .nil, _, _, _ => by simp only [mappableFields]
  | .cons n s t r, path, fl, h => by
    simp only [toTraceFields, Spec.mappingFields] at h
    obtain ⟨f, hf, h⟩ := bind_ok h
    obtain ⟨rest, hr, _⟩ := bind_ok h
    simp only [mappableFields, Bool.and_eq_true]
    exact ⟨mapping_mappable O h0 t _ _ false f hf, mappingFields_mappable O h0 r path rest hr⟩
theorem mappingVariants_mappable (O : Options) (h0 : O.overwrites = []) : ∀ (vars : Variants) (path : String) (i : Nat)
    (cs : List (Int × Field)), i ≤ 128 → Spec.mappingVariants O path i (toTraceVariants vars) = .ok cs →
    mappableVariants (viewOpts O) vars = true ∧ i + vars.length ≤ 128
  | .nil, _, i, _, hi, _ => by simp only [mappableVariants, Variants.length]; exact ⟨trivial, by omega⟩
  | .cons n .unit r, path, i, cs, _, h => by
    simp only [toTraceVariants, Spec.mappingVariants, overwritten_none O h0, Spec.nullField] at h
    obtain ⟨hi, h⟩ := guard_ok h
    obtain ⟨f, hf, h⟩ := bind_ok h
    obtain ⟨rest, hr, _⟩ := bind_ok h
    have ih := mappingVariants_mappable O h0 r path (i + 1) rest (by omega) hr
    simp only [mappableVariants, Variants.length, Bool.and_eq_true]
    split at hf
    · rename_i ha; exact ⟨⟨ha, ih.1⟩, by omega⟩
    · cases hf
  | .cons n (.newtype t) r, path, i, cs, _, h => by
    simp only [toTraceVariants, Spec.mappingVariants] at h
    obtain ⟨hi, h⟩ := guard_ok h
    obtain ⟨f, hf, h⟩ := bind_ok h
    obtain ⟨rest, hr, _⟩ := bind_ok h
    have ih := mappingVariants_mappable O h0 r path (i + 1) rest (by omega) hr
    simp only [mappableVariants, Variants.length, Bool.and_eq_true]
    exact ⟨⟨mapping_mappable O h0 t _ _ false f hf, ih.1⟩, by omega⟩
  | .cons n (.tuple ts) r, path, i, cs, _, h => by
    simp only [toTraceVariants, Spec.mappingVariants, overwritten_none O h0] at h
    obtain ⟨hi, h⟩ := guard_ok h
    obtain ⟨f, hf, h⟩ := bind_ok h
    obtain ⟨rest, hr, _⟩ := bind_ok h
    obtain ⟨fs, hfs, _⟩ := bind_ok hf
    have ih := mappingVariants_mappable O h0 r path (i + 1) rest (by omega) hr
    simp only [mappableVariants, Variants.length, Bool.and_eq_true]
    exact ⟨⟨mappingTys_mappable O h0 ts _ 0 fs hfs, ih.1⟩, by omega⟩
  | .cons n (.struct fields) r, path, i, cs, _, h => by
    simp only [toTraceVariants, Spec.mappingVariants, overwritten_none O h0] at h
    obtain ⟨hi, h⟩ := guard_ok h
    obtain ⟨f, hf, h⟩ := bind_ok h
    obtain ⟨rest, hr, _⟩ := bind_ok h
    obtain ⟨fs, hfs, _⟩ := bind_ok hf
    have ih := mappingVariants_mappable O h0 r path (i + 1) rest (by omega) hr
    simp only [mappableVariants, Variants.length, Bool.and_eq_true]
    exact ⟨⟨mappingFields_mappable O h0 fields _ fs hfs, ih.1⟩, by omega⟩
end

/-- **`mappable` is exactly "the documented mapping does not refuse"** (no overwrites) -/
theorem mapping_ok_iff (O : Options) (h0 : O.overwrites = []) (t : Ty) (name path : String) (nl : Bool) :
    (∃ f, Spec.mapping O name path nl (toTraceTy t) = .ok f) ↔ mappable (viewOpts O) t = true := by
  constructor
  · rintro ⟨f, h⟩; exact mapping_mappable O h0 t name path nl f h
  · intro hp
    rcases hm : mappingDT (viewOpts O) t with ⟨dt, nb, md⟩
    exact ⟨_, mapping_ok O h0 t name path nl dt nb md hp hm⟩

/-! ### `from_type` succeeds -/

/-- the documented result of `from_type` on a struct: walkable (depth limit, no map under `map_as_struct`, no enum
without variants), mappable (no documented refusal of the mapping), passes within the budget, no overwrites ⇒ the fields
of the documented mapping -/
theorem fromTypeSpec_ok (O : Options) (h0 : O.overwrites = []) (n : String) (fs : TFields)
    (hw : Spec.walkable O "$" (toTraceTy (.struct n fs)) = true)
    (hp : mappable (viewOpts O) (.struct n fs) = true)
    (hb : Spec.passes (toTraceTy (.struct n fs)) ≤ O.from_type_budget) :
    Spec.fromTypeSpec O (toTraceTy (.struct n fs)) = .ok (mappingFields (viewOpts O) fs).toList := by
  have hm : mappingDT (viewOpts O) (.struct n fs) = (.struct (mappingFields (viewOpts O) fs), false, []) := by
    simp only [mappingDT]
  unfold Spec.fromTypeSpec
  rw [if_neg (by simp [hw]), if_neg (by omega), h0, mapping_ok O h0 (.struct n fs) "$" "$" false _ _ _ hp hm]
  simp [ok_bind, Field.nullable, Field.dataType]

/-- `Agree x (.ok v)` forces `x = .ok v` -/
theorem agree_ok {α} {x : R α} {v : α} (h : Lemmas.C08.Agree x (.ok v)) : x = .ok v := by
  cases x with
  | ok a => have : a = v := h; rw [this]
  | error e => cases e <;> exact absurd h (by simp [Lemmas.C08.Agree])

/-- **`from_type` succeeds** (the tracer model, every exploration order `c`): on a struct type that is walkable,
mappable and within the budget, without overwrites, `from_type` returns exactly the fields of the documented mapping -/
theorem fromType_ok (c : Trace.Code) (O : Options) (h0 : O.overwrites = []) (n : String) (fs : TFields)
    (hw : Spec.walkable O "$" (toTraceTy (.struct n fs)) = true)
    (hp : mappable (viewOpts O) (.struct n fs) = true)
    (hb : Spec.passes (toTraceTy (.struct n fs)) ≤ O.from_type_budget) :
    Trace.fromType c O (toTraceTy (.struct n fs)) = .ok (mappingFields (viewOpts O) fs).toList := by
  have hag := Props.C08.C08_from_type c O (toTraceTy (.struct n fs))
  rw [fromTypeSpec_ok O h0 n fs hw hp hb] at hag
  exact agree_ok hag

/-! ### non-vacuity: struct types with an enum field that meet the three hypotheses -/

/-- `struct S { id: i64, e: E }`, `enum E { A, B(String), C { x: bool }, D(u8, Option<f32>) }` under `allow_null_fields` -/
def exTy : TFields :=
  .cons "id" false (.prim (.int .i64)) (.cons "e" false (.enum "E"
    (.cons "A" .unit (.cons "B" (.newtype (.prim .str)) (.cons "C" (.struct (.cons "x" false (.prim .bool) .nil))
      (.cons "D" (.tuple (.cons (.prim (.int .u8)) (.cons (.option (.prim .f32)) .nil))) .nil))))) .nil)

example :
    let O : Options := { allow_null_fields := true }
    O.overwrites = [] ∧ Spec.walkable O "$" (toTraceTy (.struct "S" exTy)) = true ∧
      mappable (viewOpts O) (.struct "S" exTy) = true ∧
      Spec.passes (toTraceTy (.struct "S" exTy)) ≤ O.from_type_budget := by decide +kernel

/-- `struct S { id: i64, color: Option<Color> }`, `enum Color { Red, Green, Blue(()) }` under
`enums_without_data_as_strings` (default `allow_null_fields = false`): the enum is stored as a string column -/
def exTyStr : TFields :=
  .cons "id" false (.prim (.int .i64)) (.cons "color" false (.option (.enum "Color"
    (.cons "Red" .unit (.cons "Green" .unit (.cons "Blue" (.newtype .unit) .nil))))) .nil)

example :
    let O : Options := { enums_without_data_as_strings := true }
    O.overwrites = [] ∧ Spec.walkable O "$" (toTraceTy (.struct "S" exTyStr)) = true ∧
      mappable (viewOpts O) (.struct "S" exTyStr) = true ∧
      Spec.passes (toTraceTy (.struct "S" exTyStr)) ≤ O.from_type_budget := by decide +kernel

/-- so `from_type` returns the documented fields on both, for every exploration order -/
example (c : Trace.Code) :
    Trace.fromType c { allow_null_fields := true } (toTraceTy (.struct "S" exTy)) =
      .ok (mappingFields (viewOpts { allow_null_fields := true }) exTy).toList :=
  fromType_ok c _ rfl "S" exTy (by decide +kernel) (by decide +kernel) (by decide +kernel)

end SaModel.Roundtrip
