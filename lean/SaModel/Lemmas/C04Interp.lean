import SaModel.Roundtrip.Types
import SaModel.Spec.Interp
/-
C04, injectivity of the Rust → Arrow mapping, first half: the documented mapping (`Spec.interpDT`, the very function
the `build` / `roundtrip` drivers compare the implementation's arrays with) sends the serialization of a well-typed
value at its traced field to the type-directed logical value:
      interpDT ext dt nb md (ser t v) = ok (lv t v)        where (dt, nb₀, md) = mappingDT o t and nb₀ → nb.
-/
namespace SaModel.Roundtrip
open SaModel SaModel.Build SaModel.Spec

theorem boolInt_ne_zero (b : Bool) : (boolInt b != 0) = b := by cases b <;> decide

end SaModel.Roundtrip
