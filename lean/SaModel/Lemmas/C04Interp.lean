import SaModel.Roundtrip.Types
import SaModel.Spec.Interp
/-
C04, injectivity of the Rust → Arrow mapping, first half: the documented mapping (`Spec.interpDT`, the very function
the `build` / `roundtrip` drivers compare the implementation's arrays with) sends the serialization of a well-typed
value at its traced field to the type-directed logical value:
      interpDT ext dt nb md (ser t v) = ok (lv t v)        where (dt, nb₀, md) = mappingDT o t and nb₀ → nb,
for every option set `o`, provided no `None` sits at a Union position (documented exclusion).
Proved for the fragment `frag` (see its definition); structurally recursive on the value.
-/
namespace SaModel.Roundtrip
open SaModel SaModel.Build SaModel.Spec

theorem boolInt_ne_zero (b : Bool) : (boolInt b != 0) = b := by cases b <;> decide

theorem strategyOf_nil : strategyOf [] = none := rfl

theorem isUnknownVariant_nil (dt : DataType) : isUnknownVariant dt [] = false := by
  cases dt <;> simp [isUnknownVariant, strategyOf_nil]

theorem isUnknownVariant_struct (fs : Fields) (md : Metadata) : isUnknownVariant (.struct fs) md = false := rfl

/-- the mapping never produces the `UnknownVariant` placeholder -/
theorem unknown_mapping (o : TraceOpts) : ∀ (t : Ty) (dt : DataType) (nb : Bool) (md : Metadata),
    mappingDT o t = (dt, nb, md) → isUnknownVariant dt md = false
  | .prim p, dt, nb, md, h => by
    simp [mappingDT] at h; obtain ⟨_, _, rfl⟩ := h; exact isUnknownVariant_nil _
  | .unit, dt, nb, md, h => by
    simp [mappingDT] at h; obtain ⟨_, _, rfl⟩ := h; exact isUnknownVariant_nil _
  | .unitStruct _, dt, nb, md, h => by
    simp [mappingDT] at h; obtain ⟨_, _, rfl⟩ := h; exact isUnknownVariant_nil _
  | .option t, dt, nb, md, h => by
    rcases hm : mappingDT o t with ⟨dt', nb', md'⟩
    simp [mappingDT, hm] at h; obtain ⟨rfl, _, rfl⟩ := h
    exact unknown_mapping o t _ _ _ hm
  | .newtype _ t, dt, nb, md, h => by
    simp [mappingDT] at h
    exact unknown_mapping o t _ _ _ h
  | .vec t, dt, nb, md, h => by
    simp [mappingDT] at h; obtain ⟨_, _, rfl⟩ := h; exact isUnknownVariant_nil _
  | .tuple ts, dt, nb, md, h => by
    simp [mappingDT] at h; obtain ⟨rfl, _, _⟩ := h; rfl
  | .tupleStruct _ ts, dt, nb, md, h => by
    simp [mappingDT] at h; obtain ⟨rfl, _, _⟩ := h; rfl
  | .struct _ fs, dt, nb, md, h => by
    simp [mappingDT] at h; obtain ⟨rfl, _, _⟩ := h; rfl
  | .enum _ vars, dt, nb, md, h => by
    simp [mappingDT] at h
    split at h <;> (simp at h; obtain ⟨_, _, rfl⟩ := h; exact isUnknownVariant_nil _)
  | .map k v, dt, nb, md, h => by
    simp [mappingDT] at h; obtain ⟨_, _, rfl⟩ := h; exact isUnknownVariant_nil _

theorem interpNull_ok (dt : DataType) (md : Metadata) (hu : isUnknownVariant dt md = false) (hn : isUnion dt = false) :
    interpNull dt true md = .ok .null := by
  unfold interpNull
  simp only [hu]
  cases dt <;> simp_all [isUnion]


theorem LVals.ofList_toList : ∀ (l : LVals), LVals.ofList l.toList = l
  | .nil => rfl
  | .cons v r => by simp [LVals.toList, LVals.ofList, LVals.ofList_toList r]

theorem LEntries.ofList_toList : ∀ (l : LEntries), LEntries.ofList l.toList = l
  | .nil => rfl
  | .cons k v r => by simp [LEntries.toList, LEntries.ofList, LEntries.ofList_toList r]

/-- the fragment of the grammar for which `interp_ser` is proved -/
def frag : Ty → Bool
  | .prim _ | .unit | .unitStruct _ => true
  | .option t | .newtype _ t | .vec t => frag t
  | .map k v => frag k && frag v
  | _ => false

theorem interp_prim (ext : Ext) (o : TraceOpts) (p : Prim) (v : Val) (nb : Bool) (h : p.wt v = true) :
    interpDT ext (primDT o p) nb [] (ser (.prim p) v) = .ok (lv (.prim p) v) := by
  cases p with
  | bool =>
    cases v <;> simp [Prim.wt] at h
    simp [ser, lv, primDT, interpDT, isUnknownVariant, interpScalar, convLeaf, boolInt_ne_zero, bind, Except.bind, pure, Except.pure]
  | int t =>
    cases v <;> simp [Prim.wt] at h
    cases t <;> simp [ser, lv, primDT, intDT, interpDT, isUnknownVariant, interpScalar, convLeaf, tryInto, h, bind, Except.bind, pure, Except.pure]
  | f32 =>
    cases v <;> simp [Prim.wt] at h
    simp [ser, lv, primDT, interpDT, isUnknownVariant, interpScalar, convLeaf, bind, Except.bind, pure, Except.pure]
  | f64 =>
    cases v <;> simp [Prim.wt] at h
    simp [ser, lv, primDT, interpDT, isUnknownVariant, interpScalar, convLeaf, bind, Except.bind, pure, Except.pure]
  | char =>
    cases v <;> simp [Prim.wt] at h
    rename_i c
    have hr : IntTy.u32.inRange (c : Int) = true := by
      have h1 : (0 : Int) ≤ c := by omega
      have h2 : (c : Int) ≤ 4294967295 := by omega
      simp [IntTy.inRange, IntTy.min, IntTy.max, h1, h2]
    simp [ser, lv, primDT, interpDT, isUnknownVariant, interpScalar, convLeaf, tryInto, hr, bind, Except.bind, pure, Except.pure]
  | str =>
    cases v <;> simp [Prim.wt] at h
    simp only [ser, lv, primDT, strDT]
    by_cases hd : o.stringDictionaryEncoding = true <;> by_cases hl : o.stringsAsLargeUtf8 = true <;>
      simp [hd, hl, interpDT, isUnknownVariant, interpScalar, scalarToString, strBytes]
  | bytes =>
    cases v <;> simp [Prim.wt] at h
    simp [ser, lv, primDT, interpDT, isUnknownVariant, interpScalar]


mutual
theorem interp_ser (ext : Ext) (o : TraceOpts) : ∀ (t : Ty) (v : Val) (nb : Bool) (dt : DataType) (nb0 : Bool) (md : Metadata),
    frag t = true → wt t v = true → mappingDT o t = (dt, nb0, md) → (nb0 = true → nb = true) →
    noneAtUnion dt (ser t v) = false →
    interpDT ext dt nb md (ser t v) = .ok (lv t v)
  | t, .bool b, nb, dt, nb0, md, hf, hw, hm, hnb, hx => by
    cases t with
    | prim p =>
      simp only [mappingDT, Prod.mk.injEq] at hm; obtain ⟨rfl, rfl, rfl⟩ := hm
      exact interp_prim ext o p _ nb (by simpa [wt] using hw)
    | _ => simp [wt] at hw
  | t, .int x, nb, dt, nb0, md, hf, hw, hm, hnb, hx => by
    cases t with
    | prim p =>
      simp only [mappingDT, Prod.mk.injEq] at hm; obtain ⟨rfl, rfl, rfl⟩ := hm
      exact interp_prim ext o p _ nb (by simpa [wt] using hw)
    | _ => simp [wt] at hw
  | t, .f32 x, nb, dt, nb0, md, hf, hw, hm, hnb, hx => by
    cases t with
    | prim p =>
      simp only [mappingDT, Prod.mk.injEq] at hm; obtain ⟨rfl, rfl, rfl⟩ := hm
      exact interp_prim ext o p _ nb (by simpa [wt] using hw)
    | _ => simp [wt] at hw
  | t, .f64 x, nb, dt, nb0, md, hf, hw, hm, hnb, hx => by
    cases t with
    | prim p =>
      simp only [mappingDT, Prod.mk.injEq] at hm; obtain ⟨rfl, rfl, rfl⟩ := hm
      exact interp_prim ext o p _ nb (by simpa [wt] using hw)
    | _ => simp [wt] at hw
  | t, .char x, nb, dt, nb0, md, hf, hw, hm, hnb, hx => by
    cases t with
    | prim p =>
      simp only [mappingDT, Prod.mk.injEq] at hm; obtain ⟨rfl, rfl, rfl⟩ := hm
      exact interp_prim ext o p _ nb (by simpa [wt] using hw)
    | _ => simp [wt] at hw
  | t, .str x, nb, dt, nb0, md, hf, hw, hm, hnb, hx => by
    cases t with
    | prim p =>
      simp only [mappingDT, Prod.mk.injEq] at hm; obtain ⟨rfl, rfl, rfl⟩ := hm
      exact interp_prim ext o p _ nb (by simpa [wt] using hw)
    | _ => simp [wt] at hw
  | t, .bytes x, nb, dt, nb0, md, hf, hw, hm, hnb, hx => by
    cases t with
    | prim p =>
      simp only [mappingDT, Prod.mk.injEq] at hm; obtain ⟨rfl, rfl, rfl⟩ := hm
      exact interp_prim ext o p _ nb (by simpa [wt] using hw)
    | _ => simp [wt] at hw
  | t, .unit, nb, dt, nb0, md, hf, hw, hm, hnb, hx => by
    cases t with
    | prim p => cases p <;> simp [wt, Prim.wt] at hw
    | unit =>
      simp only [mappingDT, Prod.mk.injEq] at hm; obtain ⟨rfl, rfl, rfl⟩ := hm
      simp [ser, lv, interpDT, interpNull, isUnknownVariant, strategyOf_nil]
    | unitStruct n =>
      simp only [mappingDT, Prod.mk.injEq] at hm; obtain ⟨rfl, rfl, rfl⟩ := hm
      simp [ser, lv, interpDT, interpScalar, isUnknownVariant, strategyOf_nil]
    | _ => simp [wt] at hw
  | t, .none, nb, dt, nb0, md, hf, hw, hm, hnb, hx => by
    cases t with
    | prim p => cases p <;> simp [wt, Prim.wt] at hw
    | option t' =>
      rcases hm' : mappingDT o t' with ⟨dt', nb', md'⟩
      simp only [mappingDT, hm', Prod.mk.injEq] at hm; obtain ⟨rfl, rfl, rfl⟩ := hm
      have hnb' : nb = true := hnb rfl
      subst hnb'
      simp only [ser, noneAtUnion] at hx
      simp only [ser, lv, interpDT]
      exact interpNull_ok _ _ (unknown_mapping o t' _ _ _ hm') hx
    | _ => simp [wt] at hw
  | t, .some v, nb, dt, nb0, md, hf, hw, hm, hnb, hx => by
    cases t with
    | prim p => cases p <;> simp [wt, Prim.wt] at hw
    | option t' =>
      rcases hm' : mappingDT o t' with ⟨dt', nb', md'⟩
      simp only [mappingDT, hm', Prod.mk.injEq] at hm; obtain ⟨rfl, rfl, rfl⟩ := hm
      have hnb' : nb = true := hnb rfl
      simp only [ser, noneAtUnion] at hx
      simp only [ser, lv, interpDT]
      exact interp_ser ext o t' v nb _ _ _ (by simpa [frag] using hf) (by simpa [wt] using hw) hm' (fun _ => hnb') hx
    | _ => simp [wt] at hw
  | t, .newtype v, nb, dt, nb0, md, hf, hw, hm, hnb, hx => by
    cases t with
    | prim p => cases p <;> simp [wt, Prim.wt] at hw
    | newtype n t' =>
      simp only [mappingDT] at hm
      simp only [ser, noneAtUnion] at hx
      simp only [ser, lv, interpDT]
      exact interp_ser ext o t' v nb _ _ _ (by simpa [frag] using hf) (by simpa [wt] using hw) hm hnb hx
    | _ => simp [wt] at hw
  | t, .vec vs, nb, dt, nb0, md, hf, hw, hm, hnb, hx => by
    cases t with
    | prim p => cases p <;> simp [wt, Prim.wt] at hw
    | vec t' =>
      rcases hm' : mappingDT o t' with ⟨dt', nb', md'⟩
      simp only [mappingDT, hm', Prod.mk.injEq] at hm; obtain ⟨rfl, rfl, rfl⟩ := hm
      have ih := interp_serAll ext o t' vs dt' nb' md' (by simpa [frag] using hf) (by simpa [wt] using hw) hm'
      by_cases hl : o.sequenceAsLargeList = true
      · simp only [ser, hl, if_true, noneAtUnion] at hx
        have ih' := ih hx
        simp [ser, lv, hl, interpDT, isUnknownVariant, ih', bind, Except.bind, pure, Except.pure, LVals.ofList_toList]
      · simp only [ser, hl, noneAtUnion] at hx
        have ih' := ih hx
        simp [ser, lv, hl, interpDT, isUnknownVariant, ih', bind, Except.bind, pure, Except.pure, LVals.ofList_toList]
    | _ => simp [wt] at hw
  | t, .map es, nb, dt, nb0, md, hf, hw, hm, hnb, hx => by
    cases t with
    | prim p => cases p <;> simp [wt, Prim.wt] at hw
    | map k v =>
      rcases hk : mappingDT o k with ⟨kdt, knb, kmd⟩
      rcases hv : mappingDT o v with ⟨vdt, vnb, vmd⟩
      simp only [mappingDT, hk, hv, Prod.mk.injEq] at hm; obtain ⟨rfl, rfl, rfl⟩ := hm
      simp only [frag, Bool.and_eq_true] at hf
      simp only [ser, noneAtUnion] at hx
      have ih := interp_serEntries ext o k v es kdt knb kmd vdt vnb vmd hf.1 hf.2 (by simpa [wt] using hw) hk hv hx
      simp [ser, lv, interpDT, isUnknownVariant, ih, bind, Except.bind, pure, Except.pure, LEntries.ofList_toList]
    | _ => simp [wt] at hw
  | t, .tuple vs, nb, dt, nb0, md, hf, hw, hm, hnb, hx => by
    cases t with
    | prim p => cases p <;> simp [wt, Prim.wt] at hw
    | tuple ts => simp [frag] at hf
    | tupleStruct n ts => simp [frag] at hf
    | _ => simp [wt] at hw
  | t, .struct vs, nb, dt, nb0, md, hf, hw, hm, hnb, hx => by
    cases t with
    | prim p => cases p <;> simp [wt, Prim.wt] at hw
    | struct n fs => simp [frag] at hf
    | _ => simp [wt] at hw
  | t, .variant i p, nb, dt, nb0, md, hf, hw, hm, hnb, hx => by
    cases t with
    | prim p => cases p <;> simp [wt, Prim.wt] at hw
    | enum n vars => simp [frag] at hf
    | _ => simp [wt] at hw

theorem interp_serAll (ext : Ext) (o : TraceOpts) : ∀ (t : Ty) (vs : Vals) (dt : DataType) (nb0 : Bool) (md : Metadata),
    frag t = true → wtAll t vs = true → mappingDT o t = (dt, nb0, md) →
    noneAtUnionAll dt (serAll t vs) = false →
    interpAll ext dt nb0 md (serAll t vs) = .ok (lvAll t vs).toList
  | t, .nil, dt, nb0, md, _, _, _, _ => by simp [serAll, lvAll, interpAll, LVals.toList]
  | t, .cons v rest, dt, nb0, md, hf, hw, hm, hx => by
    simp only [wtAll, Bool.and_eq_true] at hw
    simp only [serAll, noneAtUnionAll, Bool.or_eq_false_iff] at hx
    have h1 := interp_ser ext o t v nb0 dt nb0 md hf hw.1 hm (fun h => h) hx.1
    have h2 := interp_serAll ext o t rest dt nb0 md hf hw.2 hm hx.2
    simp [serAll, lvAll, interpAll, LVals.toList, h1, h2, bind, Except.bind, pure, Except.pure]

theorem interp_serEntries (ext : Ext) (o : TraceOpts) : ∀ (k v : Ty) (es : VEntries)
    (kdt : DataType) (knb : Bool) (kmd : Metadata) (vdt : DataType) (vnb : Bool) (vmd : Metadata),
    frag k = true → frag v = true → wtEntries k v es = true → mappingDT o k = (kdt, knb, kmd) → mappingDT o v = (vdt, vnb, vmd) →
    noneAtUnionEntries kdt vdt (serEntries k v es) = false →
    interpEntries ext kdt knb kmd vdt vnb vmd (serEntries k v es) = .ok (lvEntries k v es).toList
  | k, v, .nil, _, _, _, _, _, _, _, _, _, _, _, _ => by simp [serEntries, lvEntries, interpEntries, LEntries.toList]
  | k, v, .cons a b rest, kdt, knb, kmd, vdt, vnb, vmd, hfk, hfv, hw, hk, hv, hx => by
    simp only [wtEntries, Bool.and_eq_true] at hw
    simp only [serEntries, noneAtUnionEntries, Bool.or_eq_false_iff] at hx
    have h1 := interp_ser ext o k a knb kdt knb kmd hfk hw.1.1 hk (fun h => h) hx.1.1
    have h2 := interp_ser ext o v b vnb vdt vnb vmd hfv hw.1.2 hv (fun h => h) hx.1.2
    have h3 := interp_serEntries ext o k v rest kdt knb kmd vdt vnb vmd hfk hfv hw.2 hk hv hx.2
    simp [serEntries, lvEntries, interpEntries, LEntries.toList, h1, h2, h3, bind, Except.bind, pure, Except.pure]
end

end SaModel.Roundtrip
