import SaModel.Roundtrip.Types
import SaModel.Spec.Interp
import SaModel.Lemmas.C01LeafBridge
import SaModel.Lemmas.C04Pos
import SaModel.Lemmas.C04Scope
/-
C04, injectivity of the Rust → Arrow mapping, first half: the documented mapping (`Spec.interpDT`, the very function
the `build` / `roundtrip` drivers compare the implementation's arrays with) sends the serialization of a well-typed
value at its traced field to the type-directed, option-dependent logical value:
      interpDT ext dt nb md (ser t v) = ok (lvO o t v)     where (dt, nb₀, md) = mappingDT o t and nb₀ → nb,
for every option set `o` (`interp_serO`), provided no `None` sits at a Union position (`inScopeU`, the documented
exclusion) and every value of an enum stored as a string (`enums_without_data_as_strings`) is a unit variant (`strOK`);
the logical value of such a value is the variant NAME.
Proved for the grammar `fragE` (scalars, `()`, unit structs, Option, newtype structs, Vec, maps, structs by field name
incl. `skip_serializing_if`, tuples / tuple structs / arrays by position: `Lemmas/C04Pos.lean`, enums).  On the enum-free
fragment `frag` no exclusion applies and `lvO o = lv` (`frag_scopeO`, `frag_lvO`, `interp_ser`).
Structurally recursive on the value.
-/
namespace SaModel.Roundtrip
open SaModel SaModel.Build SaModel.Spec

theorem boolInt_ne_zero (b : Bool) : (boolInt b != 0) = b := by cases b <;> decide

theorem strategyOf_nil : strategyOf [] = none := rfl

theorem isUnknownVariant_nil (dt : DataType) : isUnknownVariant dt [] = false := by
  cases dt <;> simp [isUnknownVariant, strategyOf_nil]

theorem isUnknownVariant_struct (fs : Fields) (md : Metadata) : isUnknownVariant (.struct fs) md = false := rfl

/-- the mapping never produces the `UnknownVariant` placeholder -/
theorem unknown_mapping (o : TraceOpts) : ∀ (t : Ty) (dt : DataType) (nb : Bool) (md : Metadata),
    mappingDT o t = (dt, nb, md) → isUnknownVariant dt md = false
  | .prim p, dt, nb, md, h => by
    simp [mappingDT] at h; obtain ⟨_, _, rfl⟩ := h; exact isUnknownVariant_nil _
  | .unit, dt, nb, md, h => by
    simp [mappingDT] at h; obtain ⟨_, _, rfl⟩ := h; exact isUnknownVariant_nil _
  | .unitStruct _, dt, nb, md, h => by
    simp [mappingDT] at h; obtain ⟨_, _, rfl⟩ := h; exact isUnknownVariant_nil _
  | .option t, dt, nb, md, h => by
    rcases hm : mappingDT o t with ⟨dt', nb', md'⟩
    simp [mappingDT, hm] at h; obtain ⟨rfl, _, rfl⟩ := h
    exact unknown_mapping o t _ _ _ hm
  | .newtype _ t, dt, nb, md, h => by
    simp [mappingDT] at h
    exact unknown_mapping o t _ _ _ h
  | .vec t, dt, nb, md, h => by
    simp [mappingDT] at h; obtain ⟨_, _, rfl⟩ := h; exact isUnknownVariant_nil _
  | .tuple ts, dt, nb, md, h => by
    simp [mappingDT] at h; obtain ⟨rfl, _, _⟩ := h; rfl
  | .tupleStruct _ ts, dt, nb, md, h => by
    simp [mappingDT] at h; obtain ⟨rfl, _, _⟩ := h; rfl
  | .struct _ fs, dt, nb, md, h => by
    simp [mappingDT] at h; obtain ⟨rfl, _, _⟩ := h; rfl
  | .enum _ vars, dt, nb, md, h => by
    simp [mappingDT] at h
    split at h <;> (simp at h; obtain ⟨_, _, rfl⟩ := h; exact isUnknownVariant_nil _)
  | .map k v, dt, nb, md, h => by
    simp [mappingDT] at h; obtain ⟨_, _, rfl⟩ := h; exact isUnknownVariant_nil _

theorem interpNull_ok (dt : DataType) (md : Metadata) (hu : isUnknownVariant dt md = false) (hn : isUnion dt = false) :
    interpNull dt true md = .ok .null := by
  unfold interpNull
  simp only [hu]
  cases dt <;> simp_all [isUnion]


theorem LVals.ofList_toList : ∀ (l : LVals), LVals.ofList l.toList = l
  | .nil => rfl
  | .cons v r => by simp [LVals.toList, LVals.ofList, LVals.ofList_toList r]

theorem LEntries.ofList_toList : ∀ (l : LEntries), LEntries.ofList l.toList = l
  | .nil => rfl
  | .cons k v r => by simp [LEntries.toList, LEntries.ofList, LEntries.ofList_toList r]

theorem LFields.ofList_toList : ∀ (l : LFields), LFields.ofList l.toList = l
  | .nil => rfl
  | .cons n v r => by simp [LFields.toList, LFields.ofList, LFields.ofList_toList r]

def isOption : Ty → Bool
  | .option _ => true
  | _ => false

def Variants.names : Variants → List String
  | .nil => []
  | .cons n _ r => n :: r.names

mutual
/-- the grammar for which `interp_ser` / `cast_lv` are proved, enums included: scalars, `()`, unit structs, Option,
newtype structs, Vec, maps, tuples / tuple structs / arrays, structs and enums (unit / newtype / tuple / struct
variants) with pairwise distinct field / variant names whose `skip_serializing_if = "Option::is_none"` fields are
Options (guaranteed by rustc / serde for real types). -/
def fragE : Ty → Bool
  | .prim _ | .unit | .unitStruct _ => true
  | .option t | .newtype _ t | .vec t => fragE t
  | .map k v => fragE k && fragE v
  | .struct _ fs => !hasDup fs.names && fragEFields fs
  | .tuple ts | .tupleStruct _ ts => fragETys ts
  | .enum _ vars => !hasDup vars.names && fragEVariants vars

def fragETys : Tys → Bool
  | .nil => true
  | .cons t rest => fragE t && fragETys rest

def fragEFields : TFields → Bool
  | .nil => true
  | .cons _ skip t rest => fragE t && (!skip || isOption t) && fragEFields rest

def fragEVariant : Variant → Bool
  | .unit => true
  | .newtype t => fragE t
  | .tuple ts => fragETys ts
  | .struct fs => !hasDup fs.names && fragEFields fs

def fragEVariants : Variants → Bool
  | .nil => true
  | .cons _ v rest => fragEVariant v && fragEVariants rest
end

mutual
/-- the documented exclusions, type directed: **no `None` at a position traced to a Union** (`Option<enum>` = `None`,
also as a field left out by `skip_serializing_if`), and no value of a data-less enum stored as a string
(`enums_without_data_as_strings`: the logical value is the variant name there, `lv` describes the Union form).
`noneAtUnion (mappingDT o t).1 (ser t v) = false` is the same exclusion read off schema × serialized value. -/
def inScope (o : TraceOpts) : Ty → Val → Bool
  | .option t, .none => !isUnion (mappingDT o t).1
  | .option t, .some v => inScope o t v
  | .newtype _ t, .newtype v => inScope o t v
  | .vec t, .vec vs => inScopeAll o t vs
  | .tuple ts, .tuple vs => inScopePos o ts vs
  | .tupleStruct _ ts, .tuple vs => inScopePos o ts vs
  | .struct _ fs, .struct vs => inScopeFields o fs vs
  | .map k v, .map es => inScopeEntries o k v es
  | .enum _ vars, .variant i payload =>
    !(vars.withoutData && o.enumsWithoutDataAsStrings) &&
    match vars.get? i with
    | some (_, .newtype t) => inScopeSingle o t payload
    | some (_, .tuple ts) => inScopePos o ts payload
    | some (_, .struct fs) => inScopeFields o fs payload
    | _ => true
  | _, _ => true

def inScopeSingle (o : TraceOpts) (t : Ty) : Vals → Bool
  | .cons v .nil => inScope o t v
  | _ => true

def inScopeAll (o : TraceOpts) (t : Ty) : Vals → Bool
  | .nil => true
  | .cons v rest => inScope o t v && inScopeAll o t rest

def inScopePos (o : TraceOpts) : Tys → Vals → Bool
  | .cons t ts, .cons v rest => inScope o t v && inScopePos o ts rest
  | _, _ => true

def inScopeFields (o : TraceOpts) : TFields → Vals → Bool
  | .cons _ _ t fs, .cons v rest => inScope o t v && inScopeFields o fs rest
  | _, _ => true

def inScopeEntries (o : TraceOpts) (k v : Ty) : VEntries → Bool
  | .nil => true
  | .cons a b rest => inScope o k a && inScope o v b && inScopeEntries o k v rest
end

theorem primDT_not_union (o : TraceOpts) (p : Prim) : isUnion (primDT o p) = false := by
  cases p with
  | int t => cases t <;> rfl
  | str | strRef | cowStr => simp only [primDT, strDT]; split <;> (try split) <;> rfl
  | _ => rfl

/-- the bytes a sequence of `serialize_u8` calls means (`Spec.bytesOf`) are the bytes of the slice -/
theorem bytesOf_u8Seq : ∀ b : List UInt8, bytesOf (u8Seq b) = some b
  | [] => rfl
  | x :: r => by
    have h1 : (0 : Int) ≤ (x.toNat : Int) := Int.natCast_nonneg _
    have h2 : ((x.toNat : Nat) : Int) ≤ 255 := by have := x.toNat_lt; omega
    simp [u8Seq, bytesOf, byteOf, h1, h2, bytesOf_u8Seq r]

theorem interp_prim (ext : Ext) (o : TraceOpts) (p : Prim) (v : Val) (nb : Bool) (h : p.wt v = true) :
    interpDT ext (primDT o p) nb [] (ser (.prim p) v) = .ok (lv (.prim p) v) := by
  cases p with
  | bool =>
    cases v <;> simp [Prim.wt] at h
    simp [ser, lv, primDT, interpDT, isUnknownVariant, interpScalar_eq_old, normErr_ok_iff, interpScalarOld, convLeaf, boolInt_ne_zero, bind, Except.bind, pure, Except.pure]
  | int t =>
    cases v <;> simp [Prim.wt] at h
    cases t <;> simp [ser, lv, primDT, intDT, interpDT, isUnknownVariant, interpScalar_eq_old, normErr_ok_iff, interpScalarOld, convLeaf, tryInto, h, bind, Except.bind, pure, Except.pure]
  | f32 =>
    cases v <;> simp [Prim.wt] at h
    simp [ser, lv, primDT, interpDT, isUnknownVariant, interpScalar_eq_old, normErr_ok_iff, interpScalarOld, convLeaf, bind, Except.bind, pure, Except.pure]
  | f64 =>
    cases v <;> simp [Prim.wt] at h
    simp [ser, lv, primDT, interpDT, isUnknownVariant, interpScalar_eq_old, normErr_ok_iff, interpScalarOld, convLeaf, bind, Except.bind, pure, Except.pure]
  | char =>
    cases v <;> simp [Prim.wt] at h
    rename_i c
    have hr : IntTy.u32.inRange (c : Int) = true := by
      have h1 : (0 : Int) ≤ c := by omega
      have h2 : (c : Int) ≤ 4294967295 := by omega
      simp [IntTy.inRange, IntTy.min, IntTy.max, h1, h2]
    simp [ser, lv, primDT, interpDT, isUnknownVariant, interpScalar_eq_old, normErr_ok_iff, interpScalarOld, convLeaf, tryInto, hr, bind, Except.bind, pure, Except.pure]
  | str | strRef | cowStr =>
    cases v <;> simp [Prim.wt] at h
    simp only [ser, lv, primDT, strDT]
    by_cases hd : o.stringDictionaryEncoding = true <;> by_cases hl : o.stringsAsLargeUtf8 = true <;>
      simp [hd, hl, interpDT, isUnknownVariant, interpScalar_eq_old, normErr_ok_iff, interpScalarOld, interpDictStr, dictValue, liftO, scalarToString, strBytes]
  | bytes | bytesRef =>
    cases v <;> simp [Prim.wt] at h
    simp [ser, lv, primDT, interpDT, isUnknownVariant, interpScalar_eq_old, normErr_ok_iff, interpScalarOld]
  | bytesSeq =>
    -- `&[u8]` without serde_bytes: the SEQUENCE of u8 means the same binary value (`Spec.bytesOf`)
    cases v <;> simp [Prim.wt] at h
    simp [ser, lv, primDT, interpDT, isUnknownVariant, specBytes, bytesOf_u8Seq, liftO, bind, Except.bind, pure, Except.pure]


/-- the first field called `name`, with its skip flag, type and value -/
def lookupTV : TFields → Vals → String → Option (Bool × Ty × Val)
  | .cons n s t rest, .cons v vrest, name => if n == name then some (s, t, v) else lookupTV rest vrest name
  | _, _, _ => none

theorem lookupTV_none (name : String) : ∀ (fs : TFields) (vs : Vals), fs.names.contains name = false → lookupTV fs vs name = none
  | .nil, _, _ => by simp [lookupTV]
  | .cons n s t rest, .nil, _ => by simp [lookupTV]
  | .cons n s t rest, .cons v vrest, h => by
    simp only [TFields.names, List.contains_cons, Bool.or_eq_false_iff] at h
    have hne : (n == name) = false := by
      have h1 : (name == n) = false := h.1
      have h2 : name ≠ n := by simpa using h1
      have h3 : n ≠ name := fun e => h2 e.symm
      simpa using h3
    simp [lookupTV, hne, lookupTV_none name rest vrest h.2]

/-- by-name lookup in the serialized record finds exactly the value of the field with that name -/
theorem interpByName_ser (ext : Ext) (L : Ty → Val → LVal) (name : String) (dt : DataType) (nb : Bool) (md : Metadata) :
    ∀ (fs : TFields) (vs : Vals), hasDup fs.names = false →
    (∀ s t v, lookupTV fs vs name = some (s, t, v) → ¬ (s = true ∧ v = .none) → interpDT ext dt nb md (ser t v) = .ok (L t v)) →
    interpByName ext name dt nb md (serFields fs vs) =
      .ok (match lookupTV fs vs name with
           | some (s, t, v) => if s = true ∧ v = .none then [] else [L t v]
           | none => [])
  | .nil, vs, _, _ => by simp [serFields, interpByName, lookupTV]
  | .cons n s t rest, .nil, _, _ => by simp [serFields, interpByName, lookupTV]
  | .cons n s t rest, .cons v vrest, hd, hi => by
    simp only [TFields.names, hasDup, Bool.or_eq_false_iff] at hd
    by_cases hn : (n == name) = true
    · have hnn : n = name := by simpa using hn
      subst hnn
      have hnone := lookupTV_none n rest vrest hd.1
      have ihr := interpByName_ser ext L n dt nb md rest vrest hd.2 (by intro s t v h; rw [hnone] at h; cases h)
      rw [hnone] at ihr
      by_cases hs : s = true ∧ v = .none
      · simp [serFields, hs, lookupTV, ihr]
      · have hv := hi s t v (by simp [lookupTV]) hs
        simp [serFields, hs, lookupTV, interpByName, ihr, hv, bind, Except.bind, pure, Except.pure]
    · have hn' : (n == name) = false := by simpa using hn
      have ihr := interpByName_ser ext L name dt nb md rest vrest hd.2 (by
        intro s' t' v' h; exact hi s' t' v' (by simp [lookupTV, hn', h]))
      by_cases hs : s = true ∧ v = .none
      · simp [serFields, hs, lookupTV, hn', ihr]
      · simp [serFields, hs, lookupTV, hn', interpByName, ihr, bind, Except.bind, pure, Except.pure]


/-- the fields of the suffix `(fs2, vs2)` are found by name in the whole record -/
def Found (fsAll : TFields) (vsAll : Vals) : TFields → Vals → Prop
  | .cons n s t rest, .cons v vrest => lookupTV fsAll vsAll n = some (s, t, v) ∧ Found fsAll vsAll rest vrest
  | _, _ => True

theorem found_of (fsAll : TFields) (vsAll : Vals) : ∀ (fs2 : TFields) (vs2 : Vals),
    (∀ name, fs2.names.contains name = true → lookupTV fsAll vsAll name = lookupTV fs2 vs2 name) →
    hasDup fs2.names = false → Found fsAll vsAll fs2 vs2
  | .nil, _, _, _ => by simp [Found]
  | .cons n s t rest, .nil, _, _ => by simp [Found]
  | .cons n s t rest, .cons v vrest, hall, hd => by
    simp only [TFields.names, hasDup, Bool.or_eq_false_iff] at hd
    refine ⟨?_, found_of fsAll vsAll rest vrest ?_ hd.2⟩
    · rw [hall n (by simp [TFields.names])]; simp [lookupTV]
    · intro name hmem
      rw [hall name (by simp only [TFields.names, List.contains_cons, hmem, Bool.or_true])]
      have hne : (n == name) = false := by
        cases hb : (n == name) with
        | false => rfl
        | true =>
          have : n = name := by simpa using hb
          subst this
          rw [hd.1] at hmem; cases hmem
      simp [lookupTV, hne]

/-- every field value of the record satisfies `interp_serO` (logical value `lvO o`) at its own traced field -/
def EachOk (ext : Ext) (o : TraceOpts) : TFields → Vals → Prop
  | .cons _ _ t rest, .cons v vrest =>
    (∀ dt nb0 md, mappingDT o t = (dt, nb0, md) → interpDT ext dt nb0 md (ser t v) = .ok (lvO o t v)) ∧ EachOk ext o rest vrest
  | _, _ => True

/-- one step of `structOf` -/
def stepF (ext : Ext) (sf : SFields) (f : Field) : R (String × LVal) := do
  let found ← interpByName ext f.name f.dataType f.nullable f.metadata sf
  let v ← pickOne f.name f.nullable f.dataType f.metadata found
  pure (f.name, v)

theorem structOf_eq (ext : Ext) (fields : List Field) (sf : SFields) :
    structOf fields (fun f => interpByName ext f.name f.dataType f.nullable f.metadata sf) =
      (do let vals ← fields.mapM (stepF ext sf); pure (.struct (LFields.ofList vals))) := rfl

theorem mapM_struct (ext : Ext) (o : TraceOpts) (fsAll : TFields) (vsAll : Vals) (hd : hasDup fsAll.names = false) :
    ∀ (fs2 : TFields) (vs2 : Vals), wtFields fs2 vs2 = true → fragEFields fs2 = true → inScopeUFields o fs2 vs2 = true →
    Found fsAll vsAll fs2 vs2 → EachOk ext o fs2 vs2 →
    (mappingFields o fs2).toList.mapM (stepF ext (serFields fsAll vsAll)) = .ok (lvOFields o fs2 vs2).toList
  | .nil, .nil, _, _, _, _, _ => by simp [mappingFields, Fields.toList, lvOFields, LFields.toList, pure, Except.pure]
  | .nil, .cons _ _, hw, _, _, _, _ => by simp [wtFields] at hw
  | .cons _ _ _ _, .nil, hw, _, _, _, _ => by simp [wtFields] at hw
  | .cons n s t rest, .cons v vrest, hw, hf, hsc, hfound, heach => by
    simp only [wtFields, Bool.and_eq_true] at hw
    simp only [fragEFields, Bool.and_eq_true] at hf
    simp only [inScopeUFields, Bool.and_eq_true] at hsc
    obtain ⟨hl, hfr⟩ := hfound
    obtain ⟨hev, her⟩ := heach
    have ih := mapM_struct ext o fsAll vsAll hd rest vrest hw.2 hf.2 hsc.2 hfr her
    rcases hm : mappingDT o t with ⟨dt, nb0, md⟩
    have hby := interpByName_ser ext (lvO o) n dt nb0 md fsAll vsAll hd (by
      intro s' t' v' h' _
      rw [hl] at h'
      simp only [Option.some.injEq, Prod.mk.injEq] at h'
      obtain ⟨_, rfl, rfl⟩ := h'
      exact hev dt nb0 md hm)
    rw [hl] at hby
    simp only [mappingFields, hm, Fields.toList, List.mapM_cons, ih, lvOFields, LFields.toList]
    by_cases hs : s = true ∧ v = .none
    · -- the field was left out: an Option, read as null
      obtain ⟨hs1, hs2⟩ := hs
      subst hs2
      have hopt : isOption t = true := by
        have := hf.1.2; simpa [hs1] using this
      cases t with
      | option t' =>
        rcases hm' : mappingDT o t' with ⟨dt', nb', md'⟩
        simp only [mappingDT, hm', Prod.mk.injEq] at hm; obtain ⟨rfl, rfl, rfl⟩ := hm
        have hnu : isUnion dt' = false := by simpa [inScopeU, hm'] using hsc.1
        have hnull := interpNull_ok dt' md' (unknown_mapping o t' _ _ _ hm') hnu
        simp [stepF, Field.name, Field.dataType, Field.nullable, Field.metadata, hby, hs1, pickOne, hnull, lvO,
          bind, Except.bind, pure, Except.pure]
      | _ => simp [isOption] at hopt
    · simp [stepF, Field.name, Field.dataType, Field.nullable, Field.metadata, hby, hs, pickOne,
        bind, Except.bind, pure, Except.pure]

/-- a serialized record of well-typed, in-scope fields, at the Struct its type is traced to -/
theorem interp_record (ext : Ext) (o : TraceOpts) (fs : TFields) (vs : Vals) (hd : hasDup fs.names = false)
    (hw : wtFields fs vs = true) (hf : fragEFields fs = true) (hsc : inScopeUFields o fs vs = true) (heach : EachOk ext o fs vs) :
    structOf (mappingFields o fs).toList (fun f => interpByName ext f.name f.dataType f.nullable f.metadata (serFields fs vs)) =
      .ok (.struct (lvOFields o fs vs)) := by
  have hfound := found_of fs vs fs vs (fun _ _ => rfl) hd
  rw [structOf_eq, mapM_struct ext o fs vs hd fs vs hw hf hsc hfound heach]
  simp [bind, Except.bind, pure, Except.pure, LFields.ofList_toList]

/-! ### enums: the children of the Union -/

/-- the child of the Union an enum is traced to, for one variant -/
def variantField (o : TraceOpts) (vn : String) : Variant → Field
  | .unit => .mk vn .null true []
  | .newtype t => .mk vn (mappingDT o t).1 (mappingDT o t).2.1 (mappingDT o t).2.2
  | .tuple ts => .mk vn (.struct (mappingPos o 0 ts)) false TUPLE_MD
  | .struct fs => .mk vn (.struct (mappingFields o fs)) false []

theorem mappingVariants_get (o : TraceOpts) : ∀ (vars : Variants) (k i : Nat),
    (mappingVariants o k vars).toList[i]? = (vars.get? i).map fun p => (((k + i : Nat) : Int), variantField o p.1 p.2)
  | .nil, _, _ => by simp [mappingVariants, UFields.toList, Variants.get?]
  | .cons vn v rest, k, 0 => by
    cases v <;> simp [mappingVariants, UFields.toList, Variants.get?, variantField]
  | .cons vn v rest, k, i + 1 => by
    have ih := mappingVariants_get o rest (k + 1) i
    have hk : k + 1 + i = k + (i + 1) := by omega
    rw [hk] at ih
    cases v <;> (simp only [mappingVariants, UFields.toList, Variants.get?, List.getElem?_cons_succ]; exact ih)

theorem fragEVariants_get : ∀ (vars : Variants) (i : Nat) (vn : String) (kind : Variant),
    fragEVariants vars = true → vars.get? i = some (vn, kind) → fragEVariant kind = true
  | .nil, _, _, _, _, h => by simp [Variants.get?] at h
  | .cons n v rest, 0, vn, kind, hf, h => by
    simp only [Variants.get?, Option.some.injEq, Prod.mk.injEq] at h
    simp only [fragEVariants, Bool.and_eq_true] at hf
    rw [← h.2]; exact hf.1
  | .cons n v rest, i + 1, vn, kind, hf, h => by
    simp only [fragEVariants, Bool.and_eq_true] at hf
    exact fragEVariants_get rest i vn kind hf.2 (by simpa [Variants.get?] using h)

theorem enum_union (o : TraceOpts) (n : String) (vars : Variants) (dt : DataType) (nb : Bool) (md : Metadata)
    (hform : (vars.withoutData && o.enumsWithoutDataAsStrings) = false) (hm : mappingDT o (.enum n vars) = (dt, nb, md)) :
    dt = .union (mappingVariants o 0 vars) .dense ∧ nb = false ∧ md = [] := by
  simp only [mappingDT, hform, Bool.false_eq_true, if_false, Prod.mk.injEq] at hm
  exact ⟨hm.1.symm, hm.2.1.symm, hm.2.2.symm⟩

/-- on scalars the option-dependent logical value is the plain one -/
theorem lvO_prim (o : TraceOpts) (p : Prim) (v : Val) : lvO o (.prim p) v = lv (.prim p) v := by
  cases p <;> cases v <;> simp [lvO, lv]

/-- `interp_prim` for `lvO` -/
theorem interp_primO (ext : Ext) (o : TraceOpts) (p : Prim) (v : Val) (nb : Bool) (h : p.wt v = true) :
    interpDT ext (primDT o p) nb [] (ser (.prim p) v) = .ok (lvO o (.prim p) v) := by
  rw [lvO_prim]; exact interp_prim ext o p v nb h

mutual
/-- **the documented mapping sends the serialization of a well-typed value to its (option-dependent) logical value**
`lvO o`: the Union form for enums with data (or without `enums_without_data_as_strings`), the variant NAME for an enum
without data stored as a string.  Exclusions: no `None` at a Union position (`inScopeU`, documented), and the values of
string-stored enums are unit variants (`strOK`). -/
theorem interp_serO (ext : Ext) (o : TraceOpts) : ∀ (t : Ty) (v : Val) (nb : Bool) (dt : DataType) (nb0 : Bool) (md : Metadata),
    fragE t = true → wt t v = true → inScopeU o t v = true → strOK o t v = true →
    mappingDT o t = (dt, nb0, md) → (nb0 = true → nb = true) →
    interpDT ext dt nb md (ser t v) = .ok (lvO o t v)
  | t, .bool b, nb, dt, nb0, md, hf, hw, hs, hk, hm, hnb => by
    cases t with
    | prim p =>
      simp only [mappingDT, Prod.mk.injEq] at hm; obtain ⟨rfl, rfl, rfl⟩ := hm
      exact interp_primO ext o p _ nb (by simpa [wt] using hw)
    | _ => simp [wt] at hw
  | t, .int x, nb, dt, nb0, md, hf, hw, hs, hk, hm, hnb => by
    cases t with
    | prim p =>
      simp only [mappingDT, Prod.mk.injEq] at hm; obtain ⟨rfl, rfl, rfl⟩ := hm
      exact interp_primO ext o p _ nb (by simpa [wt] using hw)
    | _ => simp [wt] at hw
  | t, .f32 x, nb, dt, nb0, md, hf, hw, hs, hk, hm, hnb => by
    cases t with
    | prim p =>
      simp only [mappingDT, Prod.mk.injEq] at hm; obtain ⟨rfl, rfl, rfl⟩ := hm
      exact interp_primO ext o p _ nb (by simpa [wt] using hw)
    | _ => simp [wt] at hw
  | t, .f64 x, nb, dt, nb0, md, hf, hw, hs, hk, hm, hnb => by
    cases t with
    | prim p =>
      simp only [mappingDT, Prod.mk.injEq] at hm; obtain ⟨rfl, rfl, rfl⟩ := hm
      exact interp_primO ext o p _ nb (by simpa [wt] using hw)
    | _ => simp [wt] at hw
  | t, .char x, nb, dt, nb0, md, hf, hw, hs, hk, hm, hnb => by
    cases t with
    | prim p =>
      simp only [mappingDT, Prod.mk.injEq] at hm; obtain ⟨rfl, rfl, rfl⟩ := hm
      exact interp_primO ext o p _ nb (by simpa [wt] using hw)
    | _ => simp [wt] at hw
  | t, .str x, nb, dt, nb0, md, hf, hw, hs, hk, hm, hnb => by
    cases t with
    | prim p =>
      simp only [mappingDT, Prod.mk.injEq] at hm; obtain ⟨rfl, rfl, rfl⟩ := hm
      exact interp_primO ext o p _ nb (by simpa [wt] using hw)
    | _ => simp [wt] at hw
  | t, .bytes x, nb, dt, nb0, md, hf, hw, hs, hk, hm, hnb => by
    cases t with
    | prim p =>
      simp only [mappingDT, Prod.mk.injEq] at hm; obtain ⟨rfl, rfl, rfl⟩ := hm
      exact interp_primO ext o p _ nb (by simpa [wt] using hw)
    | _ => simp [wt] at hw
  | t, .unit, nb, dt, nb0, md, hf, hw, hs, hk, hm, hnb => by
    cases t with
    | prim p => cases p <;> simp [wt, Prim.wt] at hw
    | unit =>
      simp only [mappingDT, Prod.mk.injEq] at hm; obtain ⟨rfl, rfl, rfl⟩ := hm
      simp [ser, lvO, interpDT, interpNull, isUnknownVariant, strategyOf_nil]
    | unitStruct n =>
      simp only [mappingDT, Prod.mk.injEq] at hm; obtain ⟨rfl, rfl, rfl⟩ := hm
      simp [ser, lvO, interpDT, interpNull, isUnknownVariant, strategyOf_nil]
    | _ => simp [wt] at hw
  | t, .none, nb, dt, nb0, md, hf, hw, hs, hk, hm, hnb => by
    cases t with
    | prim p => cases p <;> simp [wt, Prim.wt] at hw
    | option t' =>
      rcases hm' : mappingDT o t' with ⟨dt', nb', md'⟩
      simp only [mappingDT, hm', Prod.mk.injEq] at hm; obtain ⟨rfl, rfl, rfl⟩ := hm
      have hnb' : nb = true := hnb rfl
      subst hnb'
      have hnu : isUnion dt' = false := by simpa [inScopeU, hm'] using hs
      simp only [ser, lvO, interpDT]
      exact interpNull_ok _ _ (unknown_mapping o t' _ _ _ hm') hnu
    | _ => simp [wt] at hw
  | t, .some v, nb, dt, nb0, md, hf, hw, hs, hk, hm, hnb => by
    cases t with
    | prim p => cases p <;> simp [wt, Prim.wt] at hw
    | option t' =>
      rcases hm' : mappingDT o t' with ⟨dt', nb', md'⟩
      simp only [mappingDT, hm', Prod.mk.injEq] at hm; obtain ⟨rfl, rfl, rfl⟩ := hm
      have hnb' : nb = true := hnb rfl
      simp only [ser, lvO, interpDT]
      exact interp_serO ext o t' v nb _ _ _ (by simpa [fragE] using hf) (by simpa [wt] using hw)
        (by simpa [inScopeU] using hs) (by simpa [strOK] using hk) hm' (fun _ => hnb')
    | _ => simp [wt] at hw
  | t, .newtype v, nb, dt, nb0, md, hf, hw, hs, hk, hm, hnb => by
    cases t with
    | prim p => cases p <;> simp [wt, Prim.wt] at hw
    | newtype n t' =>
      simp only [mappingDT] at hm
      simp only [ser, lvO, interpDT]
      exact interp_serO ext o t' v nb _ _ _ (by simpa [fragE] using hf) (by simpa [wt] using hw)
        (by simpa [inScopeU] using hs) (by simpa [strOK] using hk) hm hnb
    | _ => simp [wt] at hw
  | t, .vec vs, nb, dt, nb0, md, hf, hw, hs, hk, hm, hnb => by
    cases t with
    | prim p => cases p <;> simp [wt, Prim.wt] at hw
    | vec t' =>
      rcases hm' : mappingDT o t' with ⟨dt', nb', md'⟩
      simp only [mappingDT, hm', Prod.mk.injEq] at hm; obtain ⟨rfl, rfl, rfl⟩ := hm
      have ih := interp_serAllO ext o t' vs dt' nb' md' (by simpa [fragE] using hf) (by simpa [wt] using hw)
        (by simpa [inScopeU] using hs) (by simpa [strOK] using hk) hm'
      by_cases hl : o.sequenceAsLargeList = true
      · simp [ser, lvO, hl, interpDT, isUnknownVariant, ih, bind, Except.bind, pure, Except.pure, LVals.ofList_toList]
      · simp [ser, lvO, hl, interpDT, isUnknownVariant, ih, bind, Except.bind, pure, Except.pure, LVals.ofList_toList]
    | _ => simp [wt] at hw
  | t, .map es, nb, dt, nb0, md, hf, hw, hs, hk, hm, hnb => by
    cases t with
    | prim p => cases p <;> simp [wt, Prim.wt] at hw
    | map k v =>
      rcases hkm : mappingDT o k with ⟨kdt, knb, kmd⟩
      rcases hvm : mappingDT o v with ⟨vdt, vnb, vmd⟩
      simp only [mappingDT, hkm, hvm, Prod.mk.injEq] at hm; obtain ⟨rfl, rfl, rfl⟩ := hm
      simp only [fragE, Bool.and_eq_true] at hf
      have ih := interp_serEntriesO ext o k v es kdt knb kmd vdt vnb vmd hf.1 hf.2 (by simpa [wt] using hw)
        (by simpa [inScopeU] using hs) (by simpa [strOK] using hk) hkm hvm
      simp [ser, lvO, interpDT, isUnknownVariant, ih, bind, Except.bind, pure, Except.pure, LEntries.ofList_toList]
    | _ => simp [wt] at hw
  | t, .tuple vs, nb, dt, nb0, md, hf, hw, hs, hk, hm, hnb => by
    cases t with
    | prim p => cases p <;> simp [wt, Prim.wt] at hw
    | tuple ts =>
      simp only [mappingDT, Prod.mk.injEq] at hm; obtain ⟨rfl, rfl, rfl⟩ := hm
      have hw' : wtPos ts vs = true := by simpa [wt] using hw
      have heach := interp_serEachPosO ext o ts vs (by simpa [fragE] using hf) hw' (by simpa [inScopeU] using hs)
        (by simpa [strOK] using hk)
      simp only [ser, lvO, interpDT, isUnknownVariant_struct]
      rw [interp_tuple ext o ts vs hw' heach]
      simp [LFields.ofList_toList]
    | tupleStruct n ts =>
      simp only [mappingDT, Prod.mk.injEq] at hm; obtain ⟨rfl, rfl, rfl⟩ := hm
      have hw' : wtPos ts vs = true := by simpa [wt] using hw
      have heach := interp_serEachPosO ext o ts vs (by simpa [fragE] using hf) hw' (by simpa [inScopeU] using hs)
        (by simpa [strOK] using hk)
      simp only [ser, lvO, interpDT, isUnknownVariant_struct]
      rw [interp_tuple ext o ts vs hw' heach]
      simp [LFields.ofList_toList]
    | _ => simp [wt] at hw
  | t, .struct vs, nb, dt, nb0, md, hf, hw, hs, hk, hm, hnb => by
    cases t with
    | prim p => cases p <;> simp [wt, Prim.wt] at hw
    | struct n fs =>
      simp only [mappingDT, Prod.mk.injEq] at hm; obtain ⟨rfl, rfl, rfl⟩ := hm
      simp only [fragE, Bool.and_eq_true, Bool.not_eq_true'] at hf
      have hw' : wtFields fs vs = true := by simpa [wt] using hw
      have hs' : inScopeUFields o fs vs = true := by simpa [inScopeU] using hs
      have heach := interp_serEachO ext o fs vs hf.2 hw' hs' (by simpa [strOK] using hk)
      simp only [ser, lvO, interpDT, isUnknownVariant_struct]
      rw [interp_record ext o fs vs hf.1 hw' hf.2 hs' heach]
      simp
    | _ => simp [wt] at hw
  | t, .variant i p, nb, dt, nb0, md, hf, hw, hs, hk, hm, hnb => by
    cases t with
    | prim p => cases p <;> simp [wt, Prim.wt] at hw
    | enum n vars =>
      simp only [fragE, Bool.and_eq_true, Bool.not_eq_true'] at hf
      cases hg : vars.get? i with
      | none => simp [wt, hg] at hw
      | some q =>
        obtain ⟨vn, kind⟩ := q
        have hfk := fragEVariants_get vars i vn kind hf.2 hg
        by_cases hform : (vars.withoutData && o.enumsWithoutDataAsStrings) = true
        · -- an enum without data stored as a string: the variant name
          simp only [mappingDT, hform, if_true, Prod.mk.injEq] at hm; obtain ⟨rfl, rfl, rfl⟩ := hm
          simp only [strOK, hform, if_true, hg] at hk
          cases kind with
          | unit =>
            have hst : interpDictStr ext (strDT o) vn = .ok (.str (strBytes vn)) := by
              unfold strDT; split <;> rfl
            simp [ser, lvO, hg, hform, interpDT, interpScalar_eq_old, normErr_ok_iff, interpScalarOld, scalarToString, hst, strBytes]
          | _ => simp at hk
        · -- the Union form
          have hform' : (vars.withoutData && o.enumsWithoutDataAsStrings) = false := by simpa using hform
          obtain ⟨rfl, rfl, rfl⟩ := enum_union o n vars dt nb0 md hform' hm
          simp only [inScopeU, hg] at hs
          simp only [strOK, hform', Bool.false_eq_true, if_false, hg] at hk
          have hget := mappingVariants_get o vars 0 i
          rw [hg] at hget
          simp only [Option.map_some, Nat.zero_add] at hget
          cases kind with
          | unit =>
            simp [ser, lvO, hform', hg, interpDT, hget, variantField, interpNull, isUnknownVariant, strategyOf_nil,
              bind, Except.bind, pure, Except.pure]
          | newtype t' =>
            have hw' : wtSingle t' p = true := by simpa [wt, hg] using hw
            rcases hm' : mappingDT o t' with ⟨dt', nb', md'⟩
            cases p with
            | nil => simp [wtSingle] at hw'
            | cons v rest =>
              cases rest with
              | cons _ _ => simp [wtSingle] at hw'
              | nil =>
                have ih := interp_serO ext o t' v nb' dt' nb' md' (by simpa [fragEVariant] using hfk)
                  (by simpa [wtSingle] using hw') (by simpa [inScopeUSingle] using hs)
                  (by simpa [strOKSingle] using hk) hm' (fun h => h)
                simp [ser, lvO, hform', hg, serSingle, lvOSingle, interpDT, hget, variantField, hm', ih,
                  bind, Except.bind, pure, Except.pure]
          | tuple ts =>
            have hw' : wtPos ts p = true := by simpa [wt, hg] using hw
            have heach := interp_serEachPosO ext o ts p (by simpa [fragEVariant] using hfk) hw' hs hk
            simp only [ser, lvO, hform', hg, interpDT, hget, variantField, isUnknownVariant_struct]
            simp only [Bool.false_eq_true, if_false]
            rw [interp_tuple ext o ts p hw' heach]
            simp [bind, Except.bind, pure, Except.pure, LFields.ofList_toList]
          | struct fs =>
            have hw' : wtFields fs p = true := by simpa [wt, hg] using hw
            simp only [fragEVariant, Bool.and_eq_true, Bool.not_eq_true'] at hfk
            have heach := interp_serEachO ext o fs p hfk.2 hw' hs hk
            simp only [ser, lvO, hform', hg, interpDT, hget, variantField, isUnknownVariant_struct]
            simp only [Bool.false_eq_true, if_false]
            rw [interp_record ext o fs p hfk.1 hw' hfk.2 hs heach]
            simp [bind, Except.bind, pure, Except.pure]
    | _ => simp [wt] at hw

theorem interp_serAllO (ext : Ext) (o : TraceOpts) : ∀ (t : Ty) (vs : Vals) (dt : DataType) (nb0 : Bool) (md : Metadata),
    fragE t = true → wtAll t vs = true → inScopeUAll o t vs = true → strOKAll o t vs = true → mappingDT o t = (dt, nb0, md) →
    interpAll ext dt nb0 md (serAll t vs) = .ok (lvOAll o t vs).toList
  | t, .nil, dt, nb0, md, _, _, _, _, _ => by simp [serAll, lvOAll, interpAll, LVals.toList]
  | t, .cons v rest, dt, nb0, md, hf, hw, hs, hk, hm => by
    simp only [wtAll, Bool.and_eq_true] at hw
    simp only [inScopeUAll, Bool.and_eq_true] at hs
    simp only [strOKAll, Bool.and_eq_true] at hk
    have h1 := interp_serO ext o t v nb0 dt nb0 md hf hw.1 hs.1 hk.1 hm (fun h => h)
    have h2 := interp_serAllO ext o t rest dt nb0 md hf hw.2 hs.2 hk.2 hm
    simp [serAll, lvOAll, interpAll, LVals.toList, h1, h2, bind, Except.bind, pure, Except.pure]

theorem interp_serEntriesO (ext : Ext) (o : TraceOpts) : ∀ (k v : Ty) (es : VEntries)
    (kdt : DataType) (knb : Bool) (kmd : Metadata) (vdt : DataType) (vnb : Bool) (vmd : Metadata),
    fragE k = true → fragE v = true → wtEntries k v es = true → inScopeUEntries o k v es = true →
    strOKEntries o k v es = true →
    mappingDT o k = (kdt, knb, kmd) → mappingDT o v = (vdt, vnb, vmd) →
    interpEntries ext kdt knb kmd vdt vnb vmd (serEntries k v es) = .ok (lvOEntries o k v es).toList
  | k, v, .nil, _, _, _, _, _, _, _, _, _, _, _, _, _ => by simp [serEntries, lvOEntries, interpEntries, LEntries.toList]
  | k, v, .cons a b rest, kdt, knb, kmd, vdt, vnb, vmd, hfk, hfv, hw, hs, hk, hkm, hvm => by
    simp only [wtEntries, Bool.and_eq_true] at hw
    simp only [inScopeUEntries, Bool.and_eq_true] at hs
    simp only [strOKEntries, Bool.and_eq_true] at hk
    have h1 := interp_serO ext o k a knb kdt knb kmd hfk hw.1.1 hs.1.1 hk.1.1 hkm (fun h => h)
    have h2 := interp_serO ext o v b vnb vdt vnb vmd hfv hw.1.2 hs.1.2 hk.1.2 hvm (fun h => h)
    have h3 := interp_serEntriesO ext o k v rest kdt knb kmd vdt vnb vmd hfk hfv hw.2 hs.2 hk.2 hkm hvm
    simp [serEntries, lvOEntries, interpEntries, LEntries.toList, h1, h2, h3, bind, Except.bind, pure, Except.pure]

theorem interp_serEachO (ext : Ext) (o : TraceOpts) : ∀ (fs : TFields) (vs : Vals),
    fragEFields fs = true → wtFields fs vs = true → inScopeUFields o fs vs = true → strOKFields o fs vs = true →
    EachOk ext o fs vs
  | .nil, _, _, _, _, _ => by simp [EachOk]
  | .cons _ _ _ _, .nil, _, _, _, _ => by simp [EachOk]
  | .cons n s t rest, .cons v vrest, hf, hw, hs, hk => by
    simp only [fragEFields, Bool.and_eq_true] at hf
    simp only [wtFields, Bool.and_eq_true] at hw
    simp only [inScopeUFields, Bool.and_eq_true] at hs
    simp only [strOKFields, Bool.and_eq_true] at hk
    exact ⟨fun dt nb0 md hm => interp_serO ext o t v nb0 dt nb0 md hf.1.1 hw.1 hs.1 hk.1 hm (fun h => h),
      interp_serEachO ext o rest vrest hf.2 hw.2 hs.2 hk.2⟩

theorem interp_serEachPosO (ext : Ext) (o : TraceOpts) : ∀ (ts : Tys) (vs : Vals),
    fragETys ts = true → wtPos ts vs = true → inScopeUPos o ts vs = true → strOKPos o ts vs = true →
    EachOkPos ext o ts vs
  | .nil, _, _, _, _, _ => by simp [EachOkPos]
  | .cons _ _, .nil, _, _, _, _ => by simp [EachOkPos]
  | .cons t rest, .cons v vrest, hf, hw, hs, hk => by
    simp only [fragETys, Bool.and_eq_true] at hf
    simp only [wtPos, Bool.and_eq_true] at hw
    simp only [inScopeUPos, Bool.and_eq_true] at hs
    simp only [strOKPos, Bool.and_eq_true] at hk
    exact ⟨fun dt nb0 md hm => interp_serO ext o t v nb0 dt nb0 md hf.1 hw.1 hs.1 hk.1 hm (fun h => h),
      interp_serEachPosO ext o rest vrest hf.2 hw.2 hs.2 hk.2⟩
end

/-! ### the enum-free fragment -/

mutual
/-- the fragment of the grammar for which `interp_ser` is proved: scalars, `()`, unit structs, Option, newtype
structs, Vec, maps, and structs with pairwise distinct field names whose `skip_serializing_if = "Option::is_none"`
fields are Options (both guaranteed by rustc / serde for real types), tuples / tuple structs / arrays.  Enums are not
in it. -/
def frag : Ty → Bool
  | .prim _ | .unit | .unitStruct _ => true
  | .option t | .newtype _ t | .vec t => frag t
  | .map k v => frag k && frag v
  | .struct _ fs => !hasDup fs.names && fragFields fs
  | .tuple ts | .tupleStruct _ ts => fragTys ts
  | _ => false

def fragTys : Tys → Bool
  | .nil => true
  | .cons t rest => frag t && fragTys rest

def fragFields : TFields → Bool
  | .nil => true
  | .cons _ skip t rest => frag t && (!skip || isOption t) && fragFields rest
end

/-- no type of the fragment is traced to a Union -/
theorem frag_not_union (o : TraceOpts) : ∀ (t : Ty) (dt : DataType) (nb : Bool) (md : Metadata),
    frag t = true → mappingDT o t = (dt, nb, md) → isUnion dt = false
  | .prim p, dt, nb, md, _, h => by
    simp only [mappingDT, Prod.mk.injEq] at h; obtain ⟨rfl, _, _⟩ := h; exact primDT_not_union o p
  | .unit, dt, nb, md, _, h => by
    simp only [mappingDT, Prod.mk.injEq] at h; obtain ⟨rfl, _, _⟩ := h; rfl
  | .unitStruct _, dt, nb, md, _, h => by
    simp only [mappingDT, Prod.mk.injEq] at h; obtain ⟨rfl, _, _⟩ := h; rfl
  | .option t, dt, nb, md, hf, h => by
    rcases hm : mappingDT o t with ⟨dt', nb', md'⟩
    simp only [mappingDT, hm, Prod.mk.injEq] at h; obtain ⟨rfl, _, _⟩ := h
    exact frag_not_union o t _ _ _ (by simpa [frag] using hf) hm
  | .newtype _ t, dt, nb, md, hf, h => by
    simp only [mappingDT] at h
    exact frag_not_union o t _ _ _ (by simpa [frag] using hf) h
  | .vec t, dt, nb, md, _, h => by
    rcases hm : mappingDT o t with ⟨dt', nb', md'⟩
    simp only [mappingDT, hm, Prod.mk.injEq] at h; obtain ⟨rfl, _, _⟩ := h
    split <;> rfl
  | .map k v, dt, nb, md, _, h => by
    rcases hk : mappingDT o k with ⟨kdt, knb, kmd⟩
    rcases hv : mappingDT o v with ⟨vdt, vnb, vmd⟩
    simp only [mappingDT, hk, hv, Prod.mk.injEq] at h; obtain ⟨rfl, _, _⟩ := h; rfl
  | .struct _ fs, dt, nb, md, _, h => by
    simp only [mappingDT, Prod.mk.injEq] at h; obtain ⟨rfl, _, _⟩ := h; rfl
  | .tuple _, dt, nb, md, _, h => by
    simp only [mappingDT, Prod.mk.injEq] at h; obtain ⟨rfl, _, _⟩ := h; rfl
  | .tupleStruct _ _, dt, nb, md, _, h => by
    simp only [mappingDT, Prod.mk.injEq] at h; obtain ⟨rfl, _, _⟩ := h; rfl
  | .enum _ _, _, _, _, hf, _ => by simp [frag] at hf


mutual
theorem frag_fragE : ∀ (t : Ty), frag t = true → fragE t = true
  | .prim _, _ | .unit, _ | .unitStruct _, _ => by simp [fragE]
  | .option t, h | .newtype _ t, h | .vec t, h => by
    simp only [frag] at h; simpa [fragE] using frag_fragE t h
  | .map k v, h => by
    simp only [frag, Bool.and_eq_true] at h
    simp [fragE, frag_fragE k h.1, frag_fragE v h.2]
  | .struct _ fs, h => by
    simp only [frag, Bool.and_eq_true] at h
    simp [fragE, h.1, fragFields_fragE fs h.2]
  | .tuple ts, h | .tupleStruct _ ts, h => by
    simp only [frag] at h; simpa [fragE] using fragTys_fragE ts h
  | .enum _ _, h => by simp [frag] at h
theorem fragTys_fragE : ∀ (ts : Tys), fragTys ts = true → fragETys ts = true
  | .nil, _ => by simp [fragETys]
  | .cons t r, h => by
    simp only [fragTys, Bool.and_eq_true] at h
    simp [fragETys, frag_fragE t h.1, fragTys_fragE r h.2]
theorem fragFields_fragE : ∀ (fs : TFields), fragFields fs = true → fragEFields fs = true
  | .nil, _ => by simp [fragEFields]
  | .cons _ s t r, h => by
    simp only [fragFields, Bool.and_eq_true] at h
    simp only [fragEFields, Bool.and_eq_true]
    exact ⟨⟨frag_fragE t h.1.1, h.1.2⟩, fragFields_fragE r h.2⟩
end

mutual
/-- the exclusions are vacuous in the enum-free fragment -/
theorem frag_inScope (o : TraceOpts) : ∀ (t : Ty) (v : Val), frag t = true → inScope o t v = true
  | t, .none, hf => by
    cases t with
    | option t' =>
      rcases hm' : mappingDT o t' with ⟨dt', nb', md'⟩
      simp [inScope, hm', frag_not_union o t' _ _ _ (by simpa [frag] using hf) hm']
    | _ => simp [inScope]
  | t, .some v, hf => by
    cases t with
    | option t' => simpa [inScope] using frag_inScope o t' v (by simpa [frag] using hf)
    | _ => simp [inScope]
  | t, .newtype v, hf => by
    cases t with
    | newtype n t' => simpa [inScope] using frag_inScope o t' v (by simpa [frag] using hf)
    | _ => simp [inScope]
  | t, .vec vs, hf => by
    cases t with
    | vec t' => simpa [inScope] using frag_inScopeAll o t' vs (by simpa [frag] using hf)
    | _ => simp [inScope]
  | t, .tuple vs, hf => by
    cases t with
    | tuple ts => simpa [inScope] using frag_inScopePos o ts vs (by simpa [frag] using hf)
    | tupleStruct n ts => simpa [inScope] using frag_inScopePos o ts vs (by simpa [frag] using hf)
    | _ => simp [inScope]
  | t, .struct vs, hf => by
    cases t with
    | struct n fs =>
      simp only [frag, Bool.and_eq_true] at hf
      simpa [inScope] using frag_inScopeFields o fs vs hf.2
    | _ => simp [inScope]
  | t, .map es, hf => by
    cases t with
    | map k v =>
      simp only [frag, Bool.and_eq_true] at hf
      simpa [inScope] using frag_inScopeEntries o k v es hf.1 hf.2
    | _ => simp [inScope]
  | t, .variant i p, hf => by
    cases t with
    | enum n vars => simp [frag] at hf
    | _ => simp [inScope]
  | t, .bool _, _ | t, .int _, _ | t, .f32 _, _ | t, .f64 _, _ | t, .char _, _ | t, .str _, _ | t, .bytes _, _
  | t, .unit, _ => by cases t <;> simp [inScope]
theorem frag_inScopeAll (o : TraceOpts) : ∀ (t : Ty) (vs : Vals), frag t = true → inScopeAll o t vs = true
  | _, .nil, _ => by simp [inScopeAll]
  | t, .cons v r, hf => by simp [inScopeAll, frag_inScope o t v hf, frag_inScopeAll o t r hf]
theorem frag_inScopePos (o : TraceOpts) : ∀ (ts : Tys) (vs : Vals), fragTys ts = true → inScopePos o ts vs = true
  | .nil, _, _ => by simp [inScopePos]
  | .cons _ _, .nil, _ => by simp [inScopePos]
  | .cons t ts, .cons v r, hf => by
    simp only [fragTys, Bool.and_eq_true] at hf
    simp [inScopePos, frag_inScope o t v hf.1, frag_inScopePos o ts r hf.2]
theorem frag_inScopeFields (o : TraceOpts) : ∀ (fs : TFields) (vs : Vals), fragFields fs = true → inScopeFields o fs vs = true
  | .nil, _, _ => by simp [inScopeFields]
  | .cons _ _ _ _, .nil, _ => by simp [inScopeFields]
  | .cons _ _ t fs, .cons v r, hf => by
    simp only [fragFields, Bool.and_eq_true] at hf
    simp [inScopeFields, frag_inScope o t v hf.1.1, frag_inScopeFields o fs r hf.2]
theorem frag_inScopeEntries (o : TraceOpts) : ∀ (k v : Ty) (es : VEntries), frag k = true → frag v = true →
    inScopeEntries o k v es = true
  | _, _, .nil, _, _ => by simp [inScopeEntries]
  | k, v, .cons a b r, hk, hv => by
    simp [inScopeEntries, frag_inScope o k a hk, frag_inScope o v b hv, frag_inScopeEntries o k v r hk hv]
end

mutual
/-- the documented exclusion is vacuous in the enum-free fragment -/
theorem frag_inScopeU (o : TraceOpts) : ∀ (t : Ty) (v : Val), frag t = true → inScopeU o t v = true
  | t, .none, hf => by
    cases t with
    | option t' =>
      rcases hm' : mappingDT o t' with ⟨dt', nb', md'⟩
      simp [inScopeU, hm', frag_not_union o t' _ _ _ (by simpa [frag] using hf) hm']
    | _ => simp [inScopeU]
  | t, .some v, hf => by
    cases t with
    | option t' => simpa [inScopeU] using frag_inScopeU o t' v (by simpa [frag] using hf)
    | _ => simp [inScopeU]
  | t, .newtype v, hf => by
    cases t with
    | newtype n t' => simpa [inScopeU] using frag_inScopeU o t' v (by simpa [frag] using hf)
    | _ => simp [inScopeU]
  | t, .vec vs, hf => by
    cases t with
    | vec t' => simpa [inScopeU] using frag_inScopeUAll o t' vs (by simpa [frag] using hf)
    | _ => simp [inScopeU]
  | t, .tuple vs, hf => by
    cases t with
    | tuple ts => simpa [inScopeU] using frag_inScopeUPos o ts vs (by simpa [frag] using hf)
    | tupleStruct n ts => simpa [inScopeU] using frag_inScopeUPos o ts vs (by simpa [frag] using hf)
    | _ => simp [inScopeU]
  | t, .struct vs, hf => by
    cases t with
    | struct n fs =>
      simp only [frag, Bool.and_eq_true] at hf
      simpa [inScopeU] using frag_inScopeUFields o fs vs hf.2
    | _ => simp [inScopeU]
  | t, .map es, hf => by
    cases t with
    | map k v =>
      simp only [frag, Bool.and_eq_true] at hf
      simpa [inScopeU] using frag_inScopeUEntries o k v es hf.1 hf.2
    | _ => simp [inScopeU]
  | t, .variant i p, hf => by
    cases t with
    | enum n vars => simp [frag] at hf
    | _ => simp [inScopeU]
  | t, .bool _, _ | t, .int _, _ | t, .f32 _, _ | t, .f64 _, _ | t, .char _, _ | t, .str _, _ | t, .bytes _, _
  | t, .unit, _ => by cases t <;> simp [inScopeU]
theorem frag_inScopeUAll (o : TraceOpts) : ∀ (t : Ty) (vs : Vals), frag t = true → inScopeUAll o t vs = true
  | _, .nil, _ => by simp [inScopeUAll]
  | t, .cons v r, hf => by simp [inScopeUAll, frag_inScopeU o t v hf, frag_inScopeUAll o t r hf]
theorem frag_inScopeUPos (o : TraceOpts) : ∀ (ts : Tys) (vs : Vals), fragTys ts = true → inScopeUPos o ts vs = true
  | .nil, _, _ => by simp [inScopeUPos]
  | .cons _ _, .nil, _ => by simp [inScopeUPos]
  | .cons t ts, .cons v r, hf => by
    simp only [fragTys, Bool.and_eq_true] at hf
    simp [inScopeUPos, frag_inScopeU o t v hf.1, frag_inScopeUPos o ts r hf.2]
theorem frag_inScopeUFields (o : TraceOpts) : ∀ (fs : TFields) (vs : Vals), fragFields fs = true → inScopeUFields o fs vs = true
  | .nil, _, _ => by simp [inScopeUFields]
  | .cons _ _ _ _, .nil, _ => by simp [inScopeUFields]
  | .cons _ _ t fs, .cons v r, hf => by
    simp only [fragFields, Bool.and_eq_true] at hf
    simp [inScopeUFields, frag_inScopeU o t v hf.1.1, frag_inScopeUFields o fs r hf.2]
theorem frag_inScopeUEntries (o : TraceOpts) : ∀ (k v : Ty) (es : VEntries), frag k = true → frag v = true →
    inScopeUEntries o k v es = true
  | _, _, .nil, _, _ => by simp [inScopeUEntries]
  | k, v, .cons a b r, hk, hv => by
    simp [inScopeUEntries, frag_inScopeU o k a hk, frag_inScopeU o v b hv, frag_inScopeUEntries o k v r hk hv]
end

mutual
/-- no string-stored enum occurs in the enum-free fragment -/
theorem frag_strOK (o : TraceOpts) : ∀ (t : Ty) (v : Val), frag t = true → strOK o t v = true
  | t, .some v, hf => by
    cases t with
    | option t' => simpa [strOK] using frag_strOK o t' v (by simpa [frag] using hf)
    | _ => simp [strOK]
  | t, .newtype v, hf => by
    cases t with
    | newtype n t' => simpa [strOK] using frag_strOK o t' v (by simpa [frag] using hf)
    | _ => simp [strOK]
  | t, .vec vs, hf => by
    cases t with
    | vec t' => simpa [strOK] using frag_strOKAll o t' vs (by simpa [frag] using hf)
    | _ => simp [strOK]
  | t, .tuple vs, hf => by
    cases t with
    | tuple ts => simpa [strOK] using frag_strOKPos o ts vs (by simpa [frag] using hf)
    | tupleStruct n ts => simpa [strOK] using frag_strOKPos o ts vs (by simpa [frag] using hf)
    | _ => simp [strOK]
  | t, .struct vs, hf => by
    cases t with
    | struct n fs =>
      simp only [frag, Bool.and_eq_true] at hf
      simpa [strOK] using frag_strOKFields o fs vs hf.2
    | _ => simp [strOK]
  | t, .map es, hf => by
    cases t with
    | map k v =>
      simp only [frag, Bool.and_eq_true] at hf
      simpa [strOK] using frag_strOKEntries o k v es hf.1 hf.2
    | _ => simp [strOK]
  | t, .variant i p, hf => by
    cases t with
    | enum n vars => simp [frag] at hf
    | _ => simp [strOK]
  | t, .bool _, _ | t, .int _, _ | t, .f32 _, _ | t, .f64 _, _ | t, .char _, _ | t, .str _, _ | t, .bytes _, _
  | t, .unit, _ | t, .none, _ => by cases t <;> simp [strOK]
theorem frag_strOKAll (o : TraceOpts) : ∀ (t : Ty) (vs : Vals), frag t = true → strOKAll o t vs = true
  | _, .nil, _ => by simp [strOKAll]
  | t, .cons v r, hf => by simp [strOKAll, frag_strOK o t v hf, frag_strOKAll o t r hf]
theorem frag_strOKPos (o : TraceOpts) : ∀ (ts : Tys) (vs : Vals), fragTys ts = true → strOKPos o ts vs = true
  | .nil, _, _ => by simp [strOKPos]
  | .cons _ _, .nil, _ => by simp [strOKPos]
  | .cons t ts, .cons v r, hf => by
    simp only [fragTys, Bool.and_eq_true] at hf
    simp [strOKPos, frag_strOK o t v hf.1, frag_strOKPos o ts r hf.2]
theorem frag_strOKFields (o : TraceOpts) : ∀ (fs : TFields) (vs : Vals), fragFields fs = true → strOKFields o fs vs = true
  | .nil, _, _ => by simp [strOKFields]
  | .cons _ _ _ _, .nil, _ => by simp [strOKFields]
  | .cons _ _ t fs, .cons v r, hf => by
    simp only [fragFields, Bool.and_eq_true] at hf
    simp [strOKFields, frag_strOK o t v hf.1.1, frag_strOKFields o fs r hf.2]
theorem frag_strOKEntries (o : TraceOpts) : ∀ (k v : Ty) (es : VEntries), frag k = true → frag v = true →
    strOKEntries o k v es = true
  | _, _, .nil, _, _ => by simp [strOKEntries]
  | k, v, .cons a b r, hk, hv => by
    simp [strOKEntries, frag_strOK o k a hk, frag_strOK o v b hv, frag_strOKEntries o k v r hk hv]
end

/-- no exclusion applies to enum-free types -/
theorem frag_scopeO (o : TraceOpts) (t : Ty) (v : Val) (hf : frag t = true) :
    inScopeU o t v = true ∧ strOK o t v = true :=
  ⟨frag_inScopeU o t v hf, frag_strOK o t v hf⟩

mutual
/-- in the enum-free fragment the option-dependent logical value is the plain one -/
theorem frag_lvO (o : TraceOpts) : ∀ (t : Ty) (v : Val), frag t = true → lvO o t v = lv t v
  | t, .some v, hf => by
    cases t with
    | option t' => simpa [lvO, lv] using frag_lvO o t' v (by simpa [frag] using hf)
    | prim p => exact lvO_prim o p _
    | _ => simp [lvO, lv]
  | t, .newtype v, hf => by
    cases t with
    | newtype n t' => simpa [lvO, lv] using frag_lvO o t' v (by simpa [frag] using hf)
    | prim p => exact lvO_prim o p _
    | _ => simp [lvO, lv]
  | t, .vec vs, hf => by
    cases t with
    | vec t' => simpa [lvO, lv] using frag_lvOAll o t' vs (by simpa [frag] using hf)
    | prim p => exact lvO_prim o p _
    | _ => simp [lvO, lv]
  | t, .tuple vs, hf => by
    cases t with
    | tuple ts => simpa [lvO, lv] using frag_lvOPos o ts vs 0 (by simpa [frag] using hf)
    | tupleStruct n ts => simpa [lvO, lv] using frag_lvOPos o ts vs 0 (by simpa [frag] using hf)
    | prim p => exact lvO_prim o p _
    | _ => simp [lvO, lv]
  | t, .struct vs, hf => by
    cases t with
    | struct n fs =>
      simp only [frag, Bool.and_eq_true] at hf
      simpa [lvO, lv] using frag_lvOFields o fs vs hf.2
    | prim p => exact lvO_prim o p _
    | _ => simp [lvO, lv]
  | t, .map es, hf => by
    cases t with
    | map k v =>
      simp only [frag, Bool.and_eq_true] at hf
      simpa [lvO, lv] using frag_lvOEntries o k v es hf.1 hf.2
    | prim p => exact lvO_prim o p _
    | _ => simp [lvO, lv]
  | t, .variant i p, hf => by
    cases t with
    | enum n vars => simp [frag] at hf
    | prim p => exact lvO_prim o p _
    | _ => simp [lvO, lv]
  | t, .bool _, _ | t, .int _, _ | t, .f32 _, _ | t, .f64 _, _ | t, .char _, _ | t, .str _, _ | t, .bytes _, _
  | t, .unit, _ | t, .none, _ => by
    cases t with
    | prim p => exact lvO_prim o p _
    | _ => simp [lvO, lv]
theorem frag_lvOAll (o : TraceOpts) : ∀ (t : Ty) (vs : Vals), frag t = true → lvOAll o t vs = lvAll t vs
  | _, .nil, _ => by simp [lvOAll, lvAll]
  | t, .cons v r, hf => by simp [lvOAll, lvAll, frag_lvO o t v hf, frag_lvOAll o t r hf]
theorem frag_lvOPos (o : TraceOpts) : ∀ (ts : Tys) (vs : Vals) (i : Nat), fragTys ts = true → lvOPos o i ts vs = lvPos i ts vs
  | .nil, _, _, _ => by simp [lvOPos, lvPos]
  | .cons _ _, .nil, _, _ => by simp [lvOPos, lvPos]
  | .cons t ts, .cons v r, i, hf => by
    simp only [fragTys, Bool.and_eq_true] at hf
    simp [lvOPos, lvPos, frag_lvO o t v hf.1, frag_lvOPos o ts r (i + 1) hf.2]
theorem frag_lvOFields (o : TraceOpts) : ∀ (fs : TFields) (vs : Vals), fragFields fs = true → lvOFields o fs vs = lvFields fs vs
  | .nil, _, _ => by simp [lvOFields, lvFields]
  | .cons _ _ _ _, .nil, _ => by simp [lvOFields, lvFields]
  | .cons _ _ t fs, .cons v r, hf => by
    simp only [fragFields, Bool.and_eq_true] at hf
    simp [lvOFields, lvFields, frag_lvO o t v hf.1.1, frag_lvOFields o fs r hf.2]
theorem frag_lvOEntries (o : TraceOpts) : ∀ (k v : Ty) (es : VEntries), frag k = true → frag v = true →
    lvOEntries o k v es = lvEntries k v es
  | _, _, .nil, _, _ => by simp [lvOEntries, lvEntries]
  | k, v, .cons a b r, hk, hv => by
    simp [lvOEntries, lvEntries, frag_lvO o k a hk, frag_lvO o v b hv, frag_lvOEntries o k v r hk hv]
end

/-- `interp_serO` on the enum-free fragment (no exclusion applies, `lvO o = lv`) -/
theorem interp_ser (ext : Ext) (o : TraceOpts) (t : Ty) (v : Val) (nb : Bool) (dt : DataType) (nb0 : Bool) (md : Metadata)
    (hf : frag t = true) (hw : wt t v = true) (hm : mappingDT o t = (dt, nb0, md)) (hnb : nb0 = true → nb = true) :
    interpDT ext dt nb md (ser t v) = .ok (lv t v) := by
  rw [← frag_lvO o t v hf]
  exact interp_serO ext o t v nb dt nb0 md (frag_fragE t hf) hw (frag_inScopeU o t v hf) (frag_strOK o t v hf) hm hnb

end SaModel.Roundtrip
