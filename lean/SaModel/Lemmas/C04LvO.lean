import SaModel.Roundtrip.Types
import SaModel.Lemmas.C04Utf8
import SaModel.Lemmas.C04Interp
import SaModel.Lemmas.C04Scope
import SaModel.Read.ToD
/-
C04: small facts about the option-dependent logical value `lvO o` (Roundtrip/Types.lean).

  lvO_null_iff   a well-typed value is stored as a null under `lvO o` exactly when it is under `lv` (an enum value is
                 never null, in the Union form nor in the string form): `norm` (defined through `lv`) is also the
                 normalisation of the option-dependent form
  utf8Ok_lvO     every string inside `lvO o t v` is well-formed UTF-8 (strings of the value and variant NAMES are `String`s)
  (`scope_of_inScope`, Lemmas/C04ScopeLv.lean: under the old exclusion `inScope` the two logical values agree)
-/
namespace SaModel.Roundtrip
open SaModel

/-- an enum value is never null, in either storage form; everything else is stored alike up to the enums inside -/
theorem lvO_null_iff (o : TraceOpts) : ∀ (t : Ty) (v : Val), wt t v = true → (lvO o t v = .null ↔ lv t v = .null)
  | t, .bool _, _ | t, .int _, _ | t, .f32 _, _ | t, .f64 _, _ | t, .char _, _ | t, .str _, _ | t, .bytes _, _
  | t, .unit, _ | t, .none, _ | t, .vec _, _ | t, .tuple _, _ | t, .struct _, _ | t, .map _, _ => by
    cases t with
    | prim p => cases p <;> simp [lv, lvO]
    | _ => simp [lv, lvO]
  | t, .some v, hw => by
    cases t with
    | prim p => cases p <;> simp [wt, Prim.wt] at hw
    | option t' => simpa [lv, lvO] using lvO_null_iff o t' v (by simpa [wt] using hw)
    | _ => simp [wt] at hw
  | t, .newtype v, hw => by
    cases t with
    | prim p => cases p <;> simp [wt, Prim.wt] at hw
    | newtype n t' => simpa [lv, lvO] using lvO_null_iff o t' v (by simpa [wt] using hw)
    | _ => simp [wt] at hw
  | t, .variant i payload, hw => by
    cases t with
    | prim p => cases p <;> simp [wt, Prim.wt] at hw
    | enum n vars =>
      cases hg : vars.get? i with
      | none => simp [wt, hg] at hw
      | some q =>
        obtain ⟨vn, kind⟩ := q
        cases kind with
        | newtype t' =>
          have hw' : wtSingle t' payload = true := by simpa [wt, hg] using hw
          cases payload with
          | nil => simp [wtSingle] at hw'
          | cons v rest =>
            cases rest with
            | cons _ _ => simp [wtSingle] at hw'
            | nil => by_cases hform : (vars.withoutData && o.enumsWithoutDataAsStrings) = true <;>
                simp [lv, lvO, hg, hform, lvSingle, lvOSingle]
        | _ => by_cases hform : (vars.withoutData && o.enumsWithoutDataAsStrings) = true <;> simp [lv, lvO, hg, hform]
    | _ => simp [wt] at hw

/-! ### strings inside `lvO o t v` are valid UTF-8 -/

mutual
theorem utf8Ok_lvO (o : TraceOpts) : ∀ (t : Ty) (v : Val), Read.utf8Ok (lvO o t v) = true
  | t, .bool _ | t, .int _ | t, .f32 _ | t, .f64 _ | t, .char _ | t, .bytes _ | t, .unit | t, .none => by
    cases t <;> first | (rename_i p; cases p <;> simp [lvO, Read.utf8Ok]) | simp [lvO, Read.utf8Ok]
  | t, .str s => by
    cases t with
    | prim p =>
      cases p with
      | str | strRef | cowStr => simp only [lvO, Read.utf8Ok]; exact Lemmas.C04Utf8.validUtf8_strBytes s
      | _ => simp [lvO, Read.utf8Ok]
    | _ => simp [lvO, Read.utf8Ok]
  | t, .some v => by
    cases t <;> first | (rename_i p; cases p <;> simp [lvO, Read.utf8Ok]) | simp [lvO, Read.utf8Ok]
    all_goals exact utf8Ok_lvO o _ v
  | t, .newtype v => by
    cases t <;> first | (rename_i p; cases p <;> simp [lvO, Read.utf8Ok]) | simp [lvO, Read.utf8Ok]
    all_goals exact utf8Ok_lvO o _ v
  | t, .vec vs => by
    cases t <;> first | (rename_i p; cases p <;> simp [lvO, Read.utf8Ok]) | simp [lvO, Read.utf8Ok]
    all_goals exact utf8Ok_lvOAll o _ vs
  | t, .tuple vs => by
    cases t <;> first | (rename_i p; cases p <;> simp [lvO, Read.utf8Ok]) | simp [lvO, Read.utf8Ok]
    all_goals exact utf8Ok_lvOPos o _ _ vs
  | t, .struct vs => by
    cases t <;> first | (rename_i p; cases p <;> simp [lvO, Read.utf8Ok]) | simp [lvO, Read.utf8Ok]
    all_goals exact utf8Ok_lvOFields o _ vs
  | t, .map es => by
    cases t <;> first | (rename_i p; cases p <;> simp [lvO, Read.utf8Ok]) | simp [lvO, Read.utf8Ok]
    all_goals exact utf8Ok_lvOEntries o _ _ es
  | t, .variant i payload => by
    cases t with
    | prim p => cases p <;> simp [lvO, Read.utf8Ok]
    | enum n vars =>
      by_cases hform : (vars.withoutData && o.enumsWithoutDataAsStrings) = true
      · cases hg : vars.get? i with
        | none => simp [lvO, hform, hg, Read.utf8Ok]
        | some q =>
          obtain ⟨vn, kind⟩ := q
          simp only [lvO, hform, hg, if_true, Read.utf8Ok]
          exact Lemmas.C04Utf8.validUtf8_strBytes vn
      · cases hg : vars.get? i with
        | none => simp [lvO, hform, hg, Read.utf8Ok]
        | some q =>
          obtain ⟨vn, kind⟩ := q
          cases kind with
          | unit => simp [lvO, hform, hg, Read.utf8Ok]
          | newtype t' =>
            cases payload with
            | nil => simp [lvO, hform, hg, lvOSingle, Read.utf8Ok]
            | cons v rest =>
              cases rest with
              | nil => simpa [lvO, hform, hg, lvOSingle, Read.utf8Ok] using utf8Ok_lvO o t' v
              | cons _ _ => simp [lvO, hform, hg, lvOSingle, Read.utf8Ok]
          | tuple ts => simpa [lvO, hform, hg, Read.utf8Ok] using utf8Ok_lvOPos o 0 ts payload
          | struct fs => simpa [lvO, hform, hg, Read.utf8Ok] using utf8Ok_lvOFields o fs payload
    | _ => simp [lvO, Read.utf8Ok]
theorem utf8Ok_lvOAll (o : TraceOpts) : ∀ (t : Ty) (vs : Vals), Read.utf8OkList (lvOAll o t vs) = true
  | _, .nil => by simp [lvOAll, Read.utf8OkList]
  | t, .cons v rest => by simp [lvOAll, Read.utf8OkList, utf8Ok_lvO o t v, utf8Ok_lvOAll o t rest]
theorem utf8Ok_lvOPos (o : TraceOpts) : ∀ (i : Nat) (ts : Tys) (vs : Vals), Read.utf8OkFields (lvOPos o i ts vs) = true
  | _, .nil, _ => by simp [lvOPos, Read.utf8OkFields]
  | _, .cons _ _, .nil => by simp [lvOPos, Read.utf8OkFields]
  | i, .cons t ts, .cons v rest => by
    simp [lvOPos, Read.utf8OkFields, utf8Ok_lvO o t v, utf8Ok_lvOPos o (i + 1) ts rest]
theorem utf8Ok_lvOFields (o : TraceOpts) : ∀ (fs : TFields) (vs : Vals), Read.utf8OkFields (lvOFields o fs vs) = true
  | .nil, _ => by simp [lvOFields, Read.utf8OkFields]
  | .cons _ _ _ _, .nil => by simp [lvOFields, Read.utf8OkFields]
  | .cons n s t fs, .cons v rest => by
    simp [lvOFields, Read.utf8OkFields, utf8Ok_lvO o t v, utf8Ok_lvOFields o fs rest]
theorem utf8Ok_lvOEntries (o : TraceOpts) : ∀ (k v : Ty) (es : VEntries), Read.utf8OkEntries (lvOEntries o k v es) = true
  | _, _, .nil => by simp [lvOEntries, Read.utf8OkEntries]
  | k, v, .cons a b rest => by
    simp [lvOEntries, Read.utf8OkEntries, utf8Ok_lvO o k a, utf8Ok_lvO o v b, utf8Ok_lvOEntries o k v rest]
end

end SaModel.Roundtrip
