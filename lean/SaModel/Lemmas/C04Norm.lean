import SaModel.Roundtrip.Types
/-
C04: `norm` is the identity on types without an `Option` directly over a nullable position.

`nullableTy t`  — a value of `t` can be stored as a null: `()`, unit structs, `Option<_>`, newtype structs of those;
`plainOpt t`    — no `Option<t'>` with `nullableTy t'` occurs anywhere in `t` (no `Option<Option<_>>`, `Option<()>`, …).
  lv_ne_null    : ¬ nullableTy t → wt t v → lv t v ≠ null
  norm_eq_self  : plainOpt t → wt t v → norm t v = v            (whole grammar)
so for such types the round trip of C04 is literally the identity.
-/
namespace SaModel.Roundtrip
open SaModel

def nullableTy : Ty → Bool
  | .unit | .unitStruct _ | .option _ => true
  | .newtype _ t => nullableTy t
  | _ => false

mutual
def plainOpt : Ty → Bool
  | .prim _ | .unit | .unitStruct _ => true
  | .option t => !nullableTy t && plainOpt t
  | .newtype _ t | .vec t => plainOpt t
  | .map k v => plainOpt k && plainOpt v
  | .struct _ fs => plainOptFields fs
  | .tuple ts | .tupleStruct _ ts => plainOptTys ts
  | .enum _ vars => plainOptVariants vars
def plainOptTys : Tys → Bool
  | .nil => true
  | .cons t r => plainOpt t && plainOptTys r
def plainOptFields : TFields → Bool
  | .nil => true
  | .cons _ _ t r => plainOpt t && plainOptFields r
def plainOptVariant : Variant → Bool
  | .unit => true
  | .newtype t => plainOpt t
  | .tuple ts => plainOptTys ts
  | .struct fs => plainOptFields fs
def plainOptVariants : Variants → Bool
  | .nil => true
  | .cons _ v r => plainOptVariant v && plainOptVariants r
end

theorem plainOptVariants_get : ∀ (vars : Variants) (i : Nat) (vn : String) (kind : Variant),
    plainOptVariants vars = true → vars.get? i = some (vn, kind) → plainOptVariant kind = true
  | .nil, _, _, _, _, h => by simp [Variants.get?] at h
  | .cons n v rest, 0, vn, kind, hf, h => by
    simp only [Variants.get?, Option.some.injEq, Prod.mk.injEq] at h
    simp only [plainOptVariants, Bool.and_eq_true] at hf
    rw [← h.2]; exact hf.1
  | .cons n v rest, i + 1, vn, kind, hf, h => by
    simp only [plainOptVariants, Bool.and_eq_true] at hf
    exact plainOptVariants_get rest i vn kind hf.2 (by simpa [Variants.get?] using h)

/-- a well-typed value of a non-nullable type is not stored as a null -/
theorem lv_ne_null : ∀ (t : Ty) (v : Val), nullableTy t = false → wt t v = true → lv t v ≠ .null
  | .prim p, v, _, hw => by
    cases p <;> cases v <;> simp [wt, Prim.wt] at hw <;> simp [lv]
  | .unit, _, hn, _ | .unitStruct _, _, hn, _ | .option _, _, hn, _ => by simp [nullableTy] at hn
  | .newtype _ t, v, hn, hw => by
    cases v <;> simp [wt] at hw
    rename_i v'
    simpa [lv] using lv_ne_null t v' (by simpa [nullableTy] using hn) hw
  | .vec _, v, _, hw => by cases v <;> simp [wt] at hw <;> simp [lv]
  | .tuple _, v, _, hw => by cases v <;> simp [wt] at hw <;> simp [lv]
  | .tupleStruct _ _, v, _, hw => by cases v <;> simp [wt] at hw <;> simp [lv]
  | .struct _ _, v, _, hw => by cases v <;> simp [wt] at hw <;> simp [lv]
  | .map _ _, v, _, hw => by cases v <;> simp [wt] at hw <;> simp [lv]
  | .enum _ vars, v, _, hw => by
    cases v <;> try (simp [wt] at hw)
    rename_i i p
    cases hg : vars.get? i with
    | none => simp [wt, hg] at hw
    | some q =>
      obtain ⟨vn, kind⟩ := q
      cases kind with
      | unit => simp [lv, hg]
      | tuple ts => simp [lv, hg]
      | struct fs => simp [lv, hg]
      | newtype t' =>
        have hw' : wtSingle t' p = true := by simpa [wt, hg] using hw
        cases p with
        | nil => simp [wtSingle] at hw'
        | cons v rest =>
          cases rest with
          | cons _ _ => simp [wtSingle] at hw'
          | nil => simp [lv, hg, lvSingle]

mutual
/-- **`norm` is the identity** on well-typed values of types without `Option` directly over a nullable position -/
theorem norm_eq_self : ∀ (t : Ty) (v : Val), plainOpt t = true → wt t v = true → norm t v = v
  | t, .some v, hp, hw => by
    cases t with
    | option t' =>
      simp only [plainOpt, Bool.and_eq_true, Bool.not_eq_true'] at hp
      have hw' : wt t' v = true := by simpa [wt] using hw
      simp [norm, lv_ne_null t' v hp.1 hw', norm_eq_self t' v hp.2 hw']
    | _ => simp [norm]
  | t, .newtype v, hp, hw => by
    cases t with
    | newtype n t' => simp [norm, norm_eq_self t' v (by simpa [plainOpt] using hp) (by simpa [wt] using hw)]
    | _ => simp [norm]
  | t, .vec vs, hp, hw => by
    cases t with
    | vec t' => simp [norm, normAll_eq_self t' vs (by simpa [plainOpt] using hp) (by simpa [wt] using hw)]
    | _ => simp [norm]
  | t, .tuple vs, hp, hw => by
    cases t with
    | tuple ts => simp [norm, normPos_eq_self ts vs (by simpa [plainOpt] using hp) (by simpa [wt] using hw)]
    | tupleStruct n ts => simp [norm, normPos_eq_self ts vs (by simpa [plainOpt] using hp) (by simpa [wt] using hw)]
    | _ => simp [norm]
  | t, .struct vs, hp, hw => by
    cases t with
    | struct n fs => simp [norm, normFields_eq_self fs vs (by simpa [plainOpt] using hp) (by simpa [wt] using hw)]
    | _ => simp [norm]
  | t, .map es, hp, hw => by
    cases t with
    | map k v =>
      simp only [plainOpt, Bool.and_eq_true] at hp
      simp [norm, normEntries_eq_self k v es hp.1 hp.2 (by simpa [wt] using hw)]
    | _ => simp [norm]
  | t, .variant i p, hp, hw => by
    cases t with
    | enum n vars =>
      cases hg : vars.get? i with
      | none => simp [norm, hg]
      | some q =>
        obtain ⟨vn, kind⟩ := q
        have hk := plainOptVariants_get vars i vn kind (by simpa [plainOpt] using hp) hg
        cases kind with
        | unit => simp [norm, hg]
        | newtype t' =>
          have hw' : wtSingle t' p = true := by simpa [wt, hg] using hw
          cases p with
          | nil => simp [norm, hg, normSingle]
          | cons v rest =>
            cases rest with
            | cons _ _ => simp [norm, hg, normSingle]
            | nil =>
              simp [norm, hg, normSingle, norm_eq_self t' v (by simpa [plainOptVariant] using hk) (by simpa [wtSingle] using hw')]
        | tuple ts =>
          simp [norm, hg, normPos_eq_self ts p (by simpa [plainOptVariant] using hk) (by simpa [wt, hg] using hw)]
        | struct fs =>
          simp [norm, hg, normFields_eq_self fs p (by simpa [plainOptVariant] using hk) (by simpa [wt, hg] using hw)]
    | _ => simp [norm]
  | t, .bool _, _, _ | t, .int _, _, _ | t, .f32 _, _, _ | t, .f64 _, _, _ | t, .char _, _, _ | t, .str _, _, _
  | t, .bytes _, _, _ | t, .unit, _, _ | t, .none, _, _ => by cases t <;> simp [norm]
theorem normAll_eq_self : ∀ (t : Ty) (vs : Vals), plainOpt t = true → wtAll t vs = true → normAll t vs = vs
  | _, .nil, _, _ => by simp [normAll]
  | t, .cons v r, hp, hw => by
    simp only [wtAll, Bool.and_eq_true] at hw
    simp [normAll, norm_eq_self t v hp hw.1, normAll_eq_self t r hp hw.2]
theorem normPos_eq_self : ∀ (ts : Tys) (vs : Vals), plainOptTys ts = true → wtPos ts vs = true → normPos ts vs = vs
  | .nil, vs, _, _ => by simp [normPos]
  | .cons _ _, .nil, _, _ => by simp [normPos]
  | .cons t ts, .cons v r, hp, hw => by
    simp only [plainOptTys, Bool.and_eq_true] at hp
    simp only [wtPos, Bool.and_eq_true] at hw
    simp [normPos, norm_eq_self t v hp.1 hw.1, normPos_eq_self ts r hp.2 hw.2]
theorem normFields_eq_self : ∀ (fs : TFields) (vs : Vals), plainOptFields fs = true → wtFields fs vs = true → normFields fs vs = vs
  | .nil, vs, _, _ => by simp [normFields]
  | .cons _ _ _ _, .nil, _, _ => by simp [normFields]
  | .cons _ _ t fs, .cons v r, hp, hw => by
    simp only [plainOptFields, Bool.and_eq_true] at hp
    simp only [wtFields, Bool.and_eq_true] at hw
    simp [normFields, norm_eq_self t v hp.1 hw.1, normFields_eq_self fs r hp.2 hw.2]
theorem normEntries_eq_self : ∀ (k v : Ty) (es : VEntries), plainOpt k = true → plainOpt v = true → wtEntries k v es = true →
    normEntries k v es = es
  | _, _, .nil, _, _, _ => by simp [normEntries]
  | k, v, .cons a b r, hk, hv, hw => by
    simp only [wtEntries, Bool.and_eq_true] at hw
    simp [normEntries, norm_eq_self k a hk hw.1.1, norm_eq_self v b hv hw.1.2, normEntries_eq_self k v r hk hv hw.2]
end

end SaModel.Roundtrip
