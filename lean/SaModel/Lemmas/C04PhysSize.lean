import SaModel.Lemmas.C04Physical
import SaModel.Lemmas.C03PhysSize
/-
C04: the size condition `sizeOKDT` of `Props.C03.toMarrow_physical` for schemas traced by `from_type`.  The documented mapping
never produces a FixedSizeList (arrays / tuples are structs), EVERY option — so the condition is `number of records ≤ i64::MAX`
(`Lemmas.C03.sizeOKDT_of_fslFree`), dictionary-encoded strings and data-less enums included.
-/
namespace SaModel.Roundtrip
open SaModel SaModel.Spec SaModel.Lemmas.C03

theorem fslFree_prim (o : TraceOpts) (p : Prim) : fslFreeDT (primDT o p) = true := by
  cases p with
  | int t => cases t <;> rfl
  | str | strRef | cowStr => simp only [primDT, strDT]; split <;> (try split) <;> rfl
  | _ => rfl

mutual
theorem mapping_fslFree (o : TraceOpts) :
    ∀ (t : Ty) (dt : DataType) (nb : Bool) (md : Metadata), mappingDT o t = (dt, nb, md) → fslFreeDT dt = true
  | .prim p, dt, nb, md, hm => by
    simp only [mappingDT, Prod.mk.injEq] at hm; obtain ⟨rfl, rfl, rfl⟩ := hm; exact fslFree_prim o p
  | .unit, dt, nb, md, hm | .unitStruct _, dt, nb, md, hm => by
    simp only [mappingDT, Prod.mk.injEq] at hm; obtain ⟨rfl, rfl, rfl⟩ := hm; rfl
  | .option t, dt, nb, md, hm => by
    rcases hm' : mappingDT o t with ⟨dt', nb', md'⟩
    simp only [mappingDT, hm', Prod.mk.injEq] at hm; obtain ⟨rfl, rfl, rfl⟩ := hm
    exact mapping_fslFree o t _ _ _ hm'
  | .newtype _ t, dt, nb, md, hm => by
    simp only [mappingDT] at hm
    exact mapping_fslFree o t _ _ _ hm
  | .vec t, dt, nb, md, hm => by
    rcases hm' : mappingDT o t with ⟨dt', nb', md'⟩
    simp only [mappingDT, hm', Prod.mk.injEq] at hm; obtain ⟨rfl, rfl, rfl⟩ := hm
    have ih := mapping_fslFree o t _ _ _ hm'
    split <;> simpa [fslFreeDT, fslFreeF] using ih
  | .tuple ts, dt, nb, md, hm | .tupleStruct _ ts, dt, nb, md, hm => by
    simp only [mappingDT, Prod.mk.injEq] at hm; obtain ⟨rfl, rfl, rfl⟩ := hm
    simpa [fslFreeDT] using mappingPos_fslFree o ts 0
  | .struct _ fs, dt, nb, md, hm => by
    simp only [mappingDT, Prod.mk.injEq] at hm; obtain ⟨rfl, rfl, rfl⟩ := hm
    simpa [fslFreeDT] using mappingFields_fslFree o fs
  | .map k v, dt, nb, md, hm => by
    rcases hk : mappingDT o k with ⟨kdt, knb, kmd⟩
    rcases hv : mappingDT o v with ⟨vdt, vnb, vmd⟩
    simp only [mappingDT, hk, hv, Prod.mk.injEq] at hm; obtain ⟨rfl, rfl, rfl⟩ := hm
    simp [fslFreeDT, fslFreeF, mapping_fslFree o k _ _ _ hk, mapping_fslFree o v _ _ _ hv]
  | .enum _ vars, dt, nb, md, hm => by
    simp only [mappingDT] at hm
    split at hm
    · simp only [Prod.mk.injEq] at hm; obtain ⟨rfl, rfl, rfl⟩ := hm; rfl
    · simp only [Prod.mk.injEq] at hm; obtain ⟨rfl, rfl, rfl⟩ := hm
      simpa [fslFreeDT] using mappingVariants_fslFree o vars 0
theorem mappingPos_fslFree (o : TraceOpts) : ∀ (ts : Tys) (i : Nat), fslFreeFs (mappingPos o i ts) = true
  | .nil, _ => rfl
  | .cons t r, i => by
    rcases hm : mappingDT o t with ⟨dt, nb, md⟩
    simp [mappingPos, hm, fslFreeFs, fslFreeF, mapping_fslFree o t _ _ _ hm, mappingPos_fslFree o r (i + 1)]
theorem mappingFields_fslFree (o : TraceOpts) : ∀ (fs : TFields), fslFreeFs (mappingFields o fs) = true
  | .nil => rfl
  | .cons n s t r => by
    rcases hm : mappingDT o t with ⟨dt, nb, md⟩
    simp [mappingFields, hm, fslFreeFs, fslFreeF, mapping_fslFree o t _ _ _ hm, mappingFields_fslFree o r]
theorem mappingVariants_fslFree (o : TraceOpts) : ∀ (vs : Variants) (i : Nat), fslFreeUFs (mappingVariants o i vs) = true
  | .nil, _ => rfl
  | .cons vn .unit r, i => by
    simp [mappingVariants, fslFreeUFs, fslFreeF, fslFreeDT, mappingVariants_fslFree o r (i + 1)]
  | .cons vn (.newtype t) r, i => by
    rcases hm : mappingDT o t with ⟨dt, nb, md⟩
    simp [mappingVariants, hm, fslFreeUFs, fslFreeF, mapping_fslFree o t _ _ _ hm, mappingVariants_fslFree o r (i + 1)]
  | .cons vn (.tuple ts) r, i => by
    simp [mappingVariants, fslFreeUFs, fslFreeF, fslFreeDT, mappingPos_fslFree o ts 0, mappingVariants_fslFree o r (i + 1)]
  | .cons vn (.struct fs) r, i => by
    simp [mappingVariants, fslFreeUFs, fslFreeF, fslFreeDT, mappingFields_fslFree o fs, mappingVariants_fslFree o r (i + 1)]
end

theorem fslFreeFs_toList : ∀ (fs : Fields), fslFreeFs fs = true → ∀ f ∈ fs.toList, fslFreeDT f.dataType = true
  | .nil, _, f, hf => by simp [Fields.toList] at hf
  | .cons g r, h, f, hf => by
    simp only [fslFreeFs, Bool.and_eq_true] at h
    simp only [Fields.toList, List.mem_cons] at hf
    rcases hf with rfl | hf
    · cases f; simpa [fslFreeF, Field.dataType] using h.1
    · exact fslFreeFs_toList r h.2 f hf

/-- **the size condition of `toMarrow_physical` for a schema traced by `from_type`**: at most `i64::MAX` records -/
theorem mapped_sizeOK (o : TraceOpts) (fs : TFields) (L : Nat) (hL : L ≤ 9223372036854775807) :
    ∀ f ∈ (mappingFields o fs).toList, sizeOKDT f.dataType L = true :=
  fun f hf => sizeOKDT_of_fslFree _ L (fslFreeFs_toList _ (mappingFields_fslFree o fs) f hf) hL

end SaModel.Roundtrip
