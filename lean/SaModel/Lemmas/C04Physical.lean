import SaModel.Lemmas.C04Safe
import SaModel.Lemmas.C04CastEnum
import SaModel.Lemmas.C02Container
/-
C04: `Read.physical` (the side condition of C02: lengths a Rust `usize` / slice can hold) holds of every well-formed array
of a "plain" data type (no Dictionary, no FixedSizeList, no RunEndEncoded anywhere) — in particular of every array that is
well formed for a traced schema when neither strings nor data-less enums are dictionary encoded.

  plainDT / plainF / plainFs / plainUs : the predicate on data types
  physical_of_wf        : Spec.wf dt nl a → plainDT dt → Read.physical a
  physicalFields_of_wf  : Spec.wfFields fs cols len → plainFs fs → Read.physicalFields cols
  physicalUFields_of_wf : Spec.wfUFields ufs cols k → plainUs ufs → Read.physicalUFields cols
  mapping_plain / mappingPos_plain / mappingFields_plain / mappingVariants_plain :
      o.stringDictionaryEncoding = false → o.enumsWithoutDataAsStrings = false → the traced types are plain
  physical_traced       : Spec.wfFields (mappingFields o fs) cols len → Read.physicalFields cols
-/
namespace SaModel.Roundtrip
open SaModel SaModel.Spec

mutual
/-- no Dictionary, no FixedSizeList, no RunEndEncoded anywhere in the type -/
def plainDT : DataType → Bool
  | .dictionary _ _ | .runEndEncoded _ _ | .fixedSizeList _ _ => false
  | .list f | .largeList f | .map f _ => plainF f
  | .struct fs => plainFs fs
  | .union ufs _ => plainUs ufs
  | _ => true
def plainF : Field → Bool
  | .mk _ dt _ _ => plainDT dt
def plainFs : Fields → Bool
  | .nil => true
  | .cons f r => plainF f && plainFs r
def plainUs : UFields → Bool
  | .nil => true
  | .cons _ f r => plainF f && plainUs r
end

theorem plainF_dt (f : Field) : plainF f = plainDT f.dataType := by cases f; simp [plainF, Field.dataType]

/-! a plain type has no Dictionary (`noDictDT` of Lemmas/C04Safe.lean) -/
mutual
theorem noDict_of_plain : ∀ (dt : DataType), plainDT dt = true → noDictDT dt = true
  | .list f, h | .largeList f, h | .map f _, h => by
    simp only [plainDT] at h; simp only [noDictDT]; exact noDictF_of_plain f h
  | .struct fs, h => by simp only [plainDT] at h; simp only [noDictDT]; exact noDictFs_of_plain fs h
  | .union ufs _, h => by simp only [plainDT] at h; simp only [noDictDT]; exact noDictUs_of_plain ufs h
  | .dictionary _ _, h | .runEndEncoded _ _, h | .fixedSizeList _ _, h => by simp [plainDT] at h
  | .null, _ | .boolean, _ | .int8, _ | .int16, _ | .int32, _ | .int64, _
  | .uint8, _ | .uint16, _ | .uint32, _ | .uint64, _
  | .float16, _ | .float32, _ | .float64, _
  | .utf8, _ | .largeUtf8, _ | .utf8View, _ | .binary, _ | .largeBinary, _
  | .binaryView, _ | .fixedSizeBinary _, _ | .date32, _ | .date64, _
  | .timestamp _ _, _ | .time32 _, _ | .time64 _, _ | .duration _, _
  | .interval _, _ | .decimal128 _ _, _ => by simp [noDictDT]
theorem noDictF_of_plain : ∀ (f : Field), plainF f = true → noDictF f = true
  | .mk _ dt _ _, h => by simp only [plainF] at h; simp only [noDictF]; exact noDict_of_plain dt h
theorem noDictFs_of_plain : ∀ (fs : Fields), plainFs fs = true → noDictFs fs = true
  | .nil, _ => rfl
  | .cons f r, h => by
    simp only [plainFs, Bool.and_eq_true] at h
    simp [noDictFs, noDictF_of_plain f h.1, noDictFs_of_plain r h.2]
theorem noDictUs_of_plain : ∀ (ufs : UFields), plainUs ufs = true → noDictUs ufs = true
  | .nil, _ => rfl
  | .cons _ f r, h => by
    simp only [plainUs, Bool.and_eq_true] at h
    simp [noDictUs, noDictF_of_plain f h.1, noDictUs_of_plain r h.2]
end

/-! ### `physical` of a well-formed array of a plain type (structural recursion on the array) -/

mutual
theorem physical_of_wf : ∀ (a : Arr) (dt : DataType) (nl : Bool), Spec.wf dt nl a = true → plainDT dt = true →
    Read.physical a = true
  | .null _, _, _, _, _ | .boolean _ _ _, _, _, _, _ | .prim _ _ _, _, _, _, _ | .time _ _ _ _, _, _, _, _
  | .timestamp _ _ _ _, _, _, _, _ | .decimal128 _ _ _ _, _, _, _, _ | .bytes _ _ _ _, _, _, _, _
  | .bytesView _ _ _ _, _, _, _, _ | .fixedSizeBinary _ _ _, _, _, _, _ => by simp [Read.physical]
  | .struct len v cols, dt, nl, h, hp => by
    cases dt <;> try (simp [Spec.wf] at h)
    case struct fs =>
      simp only [plainDT] at hp
      simp only [Read.physical]
      exact physicalFields_of_wf cols fs len h.2 hp
  | .list lg v offs fm el, dt, nl, h, hp => by
    cases dt <;> try (simp [Spec.wf] at h)
    case list f =>
      cases lg <;> simp [Spec.wf] at h
      simp only [plainDT, plainF_dt] at hp
      simp only [Read.physical]
      exact physical_of_wf el _ _ h.2 hp
    case largeList f =>
      cases lg <;> simp [Spec.wf] at h
      simp only [plainDT, plainF_dt] at hp
      simp only [Read.physical]
      exact physical_of_wf el _ _ h.2 hp
  | .fixedSizeList len v n fm el, dt, nl, h, hp => by
    cases dt <;> first | (simp [Spec.wf] at h; done) | (simp [plainDT] at hp; done)
  | .map v offs mm ks vs, dt, nl, h, hp => by
    cases dt <;> try (simp [Spec.wf] at h)
    case map f sorted =>
      rcases f with ⟨ename, edt, enl, emd⟩
      cases edt <;> try (simp [Spec.wf] at h)
      case struct efs =>
        rcases efs with _ | ⟨kf, _ | ⟨vf, _ | ⟨xf, r⟩⟩⟩ <;> try (simp [Spec.wf] at h)
        simp only [plainDT, plainF, plainFs, Bool.and_true, Bool.and_eq_true, plainF_dt] at hp
        simp only [Read.physical, Bool.and_eq_true]
        exact ⟨physical_of_wf ks _ _ h.1.2 hp.1, physical_of_wf vs _ _ h.2 hp.2⟩
  | .dictionary ks vs, dt, nl, h, hp => by
    cases dt <;> first | (simp [Spec.wf] at h; done) | (simp [plainDT] at hp; done)
  | .union types offs cols, dt, nl, h, hp => by
    cases dt <;> try (simp [Spec.wf] at h)
    case union ufs m =>
      simp only [plainDT] at hp
      simp only [Read.physical]
      exact physicalUFields_of_wf cols ufs 0 h.1.2 hp
theorem physicalFields_of_wf : ∀ (cols : ArrFields) (fs : Fields) (len : Nat), Spec.wfFields fs cols len = true →
    plainFs fs = true → Read.physicalFields cols = true
  | .nil, _, _, _, _ => rfl
  | .cons fm a r, .nil, _, h, _ => by simp [Spec.wfFields] at h
  | .cons fm a r, .cons f fr, len, h, hp => by
    simp only [Spec.wfFields, Bool.and_eq_true] at h
    simp only [plainFs, Bool.and_eq_true, plainF_dt] at hp
    simp only [Read.physicalFields, Bool.and_eq_true]
    exact ⟨physical_of_wf a _ _ h.1.2 hp.1, physicalFields_of_wf r fr len h.2 hp.2⟩
theorem physicalUFields_of_wf : ∀ (cols : ArrUFields) (ufs : UFields) (k : Int), Spec.wfUFields ufs cols k = true →
    plainUs ufs = true → Read.physicalUFields cols = true
  | .nil, _, _, _, _ => rfl
  | .cons tid fm a r, .nil, _, h, _ => by simp [Spec.wfUFields] at h
  | .cons tid fm a r, .cons t f fr, k, h, hp => by
    simp only [Spec.wfUFields, Bool.and_eq_true] at h
    simp only [plainUs, Bool.and_eq_true, plainF_dt] at hp
    simp only [Read.physicalUFields, Bool.and_eq_true]
    exact ⟨physical_of_wf a _ _ h.1.2 hp.1, physicalUFields_of_wf r fr (k + 1) h.2 hp.2⟩
end

/-! ### traced schemas are plain when neither strings nor data-less enums are dictionary encoded -/

theorem plain_prim (o : TraceOpts) (hd : o.stringDictionaryEncoding = false) (p : Prim) : plainDT (primDT o p) = true := by
  cases p with
  | int t => cases t <;> rfl
  | str | strRef | cowStr => simp only [primDT, hd, strDT, Bool.false_eq_true, if_false]; split <;> rfl
  | _ => rfl

mutual
theorem mapping_plain (o : TraceOpts) (hd : o.stringDictionaryEncoding = false) (he : o.enumsWithoutDataAsStrings = false) :
    ∀ (t : Ty) (dt : DataType) (nb : Bool) (md : Metadata), mappingDT o t = (dt, nb, md) → plainDT dt = true
  | .prim p, dt, nb, md, hm => by
    simp only [mappingDT, Prod.mk.injEq] at hm; obtain ⟨rfl, rfl, rfl⟩ := hm; exact plain_prim o hd p
  | .unit, dt, nb, md, hm | .unitStruct _, dt, nb, md, hm => by
    simp only [mappingDT, Prod.mk.injEq] at hm; obtain ⟨rfl, rfl, rfl⟩ := hm; rfl
  | .option t, dt, nb, md, hm => by
    rcases hm' : mappingDT o t with ⟨dt', nb', md'⟩
    simp only [mappingDT, hm', Prod.mk.injEq] at hm; obtain ⟨rfl, rfl, rfl⟩ := hm
    exact mapping_plain o hd he t _ _ _ hm'
  | .newtype _ t, dt, nb, md, hm => by
    simp only [mappingDT] at hm
    exact mapping_plain o hd he t _ _ _ hm
  | .vec t, dt, nb, md, hm => by
    rcases hm' : mappingDT o t with ⟨dt', nb', md'⟩
    simp only [mappingDT, hm', Prod.mk.injEq] at hm; obtain ⟨rfl, rfl, rfl⟩ := hm
    have ih := mapping_plain o hd he t _ _ _ hm'
    split <;> simpa [plainDT, plainF] using ih
  | .tuple ts, dt, nb, md, hm | .tupleStruct _ ts, dt, nb, md, hm => by
    simp only [mappingDT, Prod.mk.injEq] at hm; obtain ⟨rfl, rfl, rfl⟩ := hm
    simpa [plainDT] using mappingPos_plain o hd he ts 0
  | .struct _ fs, dt, nb, md, hm => by
    simp only [mappingDT, Prod.mk.injEq] at hm; obtain ⟨rfl, rfl, rfl⟩ := hm
    simpa [plainDT] using mappingFields_plain o hd he fs
  | .map k v, dt, nb, md, hm => by
    rcases hk : mappingDT o k with ⟨kdt, knb, kmd⟩
    rcases hv : mappingDT o v with ⟨vdt, vnb, vmd⟩
    simp only [mappingDT, hk, hv, Prod.mk.injEq] at hm; obtain ⟨rfl, rfl, rfl⟩ := hm
    simp [plainDT, plainF, plainFs, mapping_plain o hd he k _ _ _ hk, mapping_plain o hd he v _ _ _ hv]
  | .enum _ vars, dt, nb, md, hm => by
    simp only [mappingDT, he, Bool.and_false, Bool.false_eq_true, if_false, Prod.mk.injEq] at hm
    obtain ⟨rfl, rfl, rfl⟩ := hm
    simpa [plainDT] using mappingVariants_plain o hd he vars 0
theorem mappingPos_plain (o : TraceOpts) (hd : o.stringDictionaryEncoding = false) (he : o.enumsWithoutDataAsStrings = false) :
    ∀ (ts : Tys) (i : Nat), plainFs (mappingPos o i ts) = true
  | .nil, _ => rfl
  | .cons t r, i => by
    rcases hm : mappingDT o t with ⟨dt, nb, md⟩
    simp [mappingPos, hm, plainFs, plainF, mapping_plain o hd he t _ _ _ hm, mappingPos_plain o hd he r (i + 1)]
theorem mappingFields_plain (o : TraceOpts) (hd : o.stringDictionaryEncoding = false) (he : o.enumsWithoutDataAsStrings = false) :
    ∀ (fs : TFields), plainFs (mappingFields o fs) = true
  | .nil => rfl
  | .cons n s t r => by
    rcases hm : mappingDT o t with ⟨dt, nb, md⟩
    simp [mappingFields, hm, plainFs, plainF, mapping_plain o hd he t _ _ _ hm, mappingFields_plain o hd he r]
theorem mappingVariants_plain (o : TraceOpts) (hd : o.stringDictionaryEncoding = false) (he : o.enumsWithoutDataAsStrings = false) :
    ∀ (vs : Variants) (i : Nat), plainUs (mappingVariants o i vs) = true
  | .nil, _ => rfl
  | .cons vn .unit r, i => by
    simp [mappingVariants, plainUs, plainF, plainDT, mappingVariants_plain o hd he r (i + 1)]
  | .cons vn (.newtype t) r, i => by
    rcases hm : mappingDT o t with ⟨dt, nb, md⟩
    simp [mappingVariants, hm, plainUs, plainF, mapping_plain o hd he t _ _ _ hm, mappingVariants_plain o hd he r (i + 1)]
  | .cons vn (.tuple ts) r, i => by
    simp [mappingVariants, plainUs, plainF, plainDT, mappingPos_plain o hd he ts 0, mappingVariants_plain o hd he r (i + 1)]
  | .cons vn (.struct fs) r, i => by
    simp [mappingVariants, plainUs, plainF, plainDT, mappingFields_plain o hd he fs, mappingVariants_plain o hd he r (i + 1)]
end

/-! ### the corollaries for traced schemas -/

/-- **every array that is well formed for a traced schema (no dictionary encoding) is physical** -/
theorem physical_traced (o : TraceOpts) (hd : o.stringDictionaryEncoding = false) (he : o.enumsWithoutDataAsStrings = false)
    (fs : TFields) (cols : ArrFields) (len : Nat)
    (h : Spec.wfFields (mappingFields o fs) cols len = true) : Read.physicalFields cols = true :=
  physicalFields_of_wf cols _ len h (mappingFields_plain o hd he fs)

/-- … for the array of one traced type -/
theorem physical_traced_ty (o : TraceOpts) (hd : o.stringDictionaryEncoding = false) (he : o.enumsWithoutDataAsStrings = false)
    (t : Ty) (dt : DataType) (nb : Bool) (md : Metadata) (hm : mappingDT o t = (dt, nb, md)) (nl : Bool) (a : Arr)
    (h : Spec.wf dt nl a = true) : Read.physical a = true :=
  physical_of_wf a dt nl h (mapping_plain o hd he t dt nb md hm)

/-- … for the root struct array of a traced schema -/
theorem physical_traced_root (o : TraceOpts) (hd : o.stringDictionaryEncoding = false) (he : o.enumsWithoutDataAsStrings = false)
    (fs : TFields) (nl : Bool) (a : Arr)
    (h : Spec.wf (.struct (mappingFields o fs)) nl a = true) : Read.physical a = true :=
  physical_of_wf a _ nl h (by simpa [plainDT] using mappingFields_plain o hd he fs)

end SaModel.Roundtrip
