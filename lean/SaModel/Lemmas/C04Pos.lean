import SaModel.Lemmas.C04PosName
import SaModel.Spec.Interp
import SaModel.Lemmas.C01LeafBridge
/-
C04: tuples / tuple structs / arrays / tuple variants in `interp_ser`.  A tuple is traced to a Struct whose children are
called "0", "1", …; `Spec.interpDT` matches element `k` of the serialized tuple with the field whose name has index `k`
among the field names (`indexOfName`).  Because the positional names are distinct (`C04PosName`), field `i` gets element `i`.
-/
namespace SaModel.Roundtrip
open SaModel SaModel.Build SaModel.Spec

/-- the `k`-th component of a tuple value with its type -/
def nthTV : Tys → Vals → Nat → Option (Ty × Val)
  | .cons t _, .cons v _, 0 => some (t, v)
  | .cons _ ts, .cons _ vs, k + 1 => nthTV ts vs k
  | _, _, _ => none

theorem interpNth_serPos (ext : Ext) (dt : DataType) (nb : Bool) (md : Metadata) : ∀ (ts : Tys) (vs : Vals) (k : Nat),
    interpNth ext dt nb md k (serPos ts vs) =
      match nthTV ts vs k with
      | some (t, v) => (do pure [← interpDT ext dt nb md (ser t v)])
      | none => .ok []
  | .nil, vs, k => by cases k <;> simp [serPos, interpNth, nthTV]
  | .cons t ts, .nil, k => by cases k <;> simp [serPos, interpNth, nthTV]
  | .cons t ts, .cons v vs, 0 => by simp [serPos, interpNth, nthTV]
  | .cons t ts, .cons v vs, k + 1 => by
    simp only [serPos, interpNth, nthTV]
    exact interpNth_serPos ext dt nb md ts vs k

/-- every component satisfies `interp_serO` (option-dependent logical value `lvO o`) at its own traced field -/
def EachOkPos (ext : Ext) (o : TraceOpts) : Tys → Vals → Prop
  | .cons t rest, .cons v vrest =>
    (∀ dt nb0 md, mappingDT o t = (dt, nb0, md) → interpDT ext dt nb0 md (ser t v) = .ok (lvO o t v)) ∧ EachOkPos ext o rest vrest
  | _, _ => True

/-- one step of `structOf` for a positional presentation -/
def stepP (ext : Ext) (names : List String) (xs : SVals) (f : Field) : R (String × LVal) := do
  let found ← interpNth ext f.dataType f.nullable f.metadata (indexOfName names f.name |>.getD 0) xs
  let v ← pickOne f.name f.nullable f.dataType f.metadata found
  pure (f.name, v)

theorem structOf_pos_eq (ext : Ext) (fs : Fields) (xs : SVals) :
    structOf fs.toList (fun f => interpNth ext f.dataType f.nullable f.metadata
        (indexOfName (fs.toList.map Field.name) f.name |>.getD 0) xs) =
      (do let vals ← fs.toList.mapM (stepP ext (fs.toList.map Field.name) xs); pure (.struct (LFields.ofList vals))) := rfl

theorem mapM_tuple (ext : Ext) (o : TraceOpts) (tsAll : Tys) (vsAll : Vals) :
    ∀ (ts2 : Tys) (vs2 : Vals) (i : Nat), wtPos ts2 vs2 = true →
    (∀ j, nthTV tsAll vsAll (i + j) = nthTV ts2 vs2 j) → i + ts2.length ≤ tsAll.length → EachOkPos ext o ts2 vs2 →
    (mappingPos o i ts2).toList.mapM (stepP ext (posNames 0 tsAll.length) (serPos tsAll vsAll)) = .ok (lvOPos o i ts2 vs2).toList
  | .nil, .nil, i, _, _, _, _ => by simp [mappingPos, Fields.toList, lvOPos, LFields.toList, pure, Except.pure]
  | .nil, .cons _ _, _, hw, _, _, _ => by simp [wtPos] at hw
  | .cons _ _, .nil, _, hw, _, _, _ => by simp [wtPos] at hw
  | .cons t rest, .cons v vrest, i, hw, hsuf, hlen, heach => by
    simp only [wtPos, Bool.and_eq_true] at hw
    simp only [Tys.length] at hlen
    obtain ⟨hev, her⟩ := heach
    have ih := mapM_tuple ext o tsAll vsAll rest vrest (i + 1) hw.2
      (fun j => by have := hsuf (j + 1); simp only [nthTV] at this; rw [← this]; congr 1; omega) (by omega) her
    rcases hm : mappingDT o t with ⟨dt, nb0, md⟩
    have hidx := indexOfName_posNames i tsAll.length (by omega)
    have hnth : nthTV tsAll vsAll i = some (t, v) := by simpa [nthTV] using hsuf 0
    have hint := interpNth_serPos ext dt nb0 md tsAll vsAll i
    rw [hnth] at hint
    simp only [hev dt nb0 md hm] at hint
    simp only [mappingPos, hm, Fields.toList, List.mapM_cons, ih, lvOPos, LFields.toList]
    simp [stepP, Field.name, Field.dataType, Field.nullable, Field.metadata, hidx, hint, pickOne,
      bind, Except.bind, pure, Except.pure]

/-- a serialized tuple of well-typed components, at the Struct its type is traced to, is the struct of the
(option-dependent) logical values `lvOPos o` -/
theorem interp_tuple (ext : Ext) (o : TraceOpts) (ts : Tys) (vs : Vals) (hw : wtPos ts vs = true)
    (heach : EachOkPos ext o ts vs) :
    structOf (mappingPos o 0 ts).toList (fun f => interpNth ext f.dataType f.nullable f.metadata
        (indexOfName ((mappingPos o 0 ts).toList.map Field.name) f.name |>.getD 0) (serPos ts vs)) =
      .ok (.struct (LFields.ofList (lvOPos o 0 ts vs).toList)) := by
  rw [structOf_pos_eq, mappingPos_names,
    mapM_tuple ext o ts vs ts vs 0 hw (fun j => by simp) (by omega) heach]
  rfl

end SaModel.Roundtrip
