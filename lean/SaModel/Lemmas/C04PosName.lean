import SaModel.Roundtrip.Types
import SaModel.Build.Builder
import Std.Data.String.ToNat
/-
C04: the positional names `"0"`, `"1"`, … that `ensure_tuple` gives the elements of a tuple are pairwise distinct
(`toString : Nat → String` is injective: `Nat.repr_injective` of the toolchain's `Std.Data.String.ToNat`), hence
`indexOfName` finds position `i` under the name `posName i`.
-/
namespace SaModel.Roundtrip
open SaModel SaModel.Build

theorem posName_injective {i j : Nat} (h : posName i = posName j) : i = j := by
  unfold posName at h
  exact Nat.repr_injective h

theorem posName_beq (i j : Nat) : (posName i == posName j) = decide (i = j) := by
  by_cases h : i = j
  · subst h; simp
  · have : posName i ≠ posName j := fun e => h (posName_injective e)
    simp [h, this]

/-- `indexOfName` over the positional names `s, s+1, …, s+n-1` finds `i` at offset `i - s` -/
theorem indexOfName_go_posNames (i : Nat) : ∀ (n s k : Nat), s ≤ i → i < s + n →
    indexOfName.go (posName i) (posNames s n) k = some (k + (i - s))
  | 0, s, k, h1, h2 => by omega
  | n + 1, s, k, h1, h2 => by
    simp only [posNames, indexOfName.go, posName_beq]
    by_cases h : s = i
    · subst h; simp
    · simp only [h, decide_false, Bool.false_eq_true, if_false]
      rw [indexOfName_go_posNames i n (s + 1) (k + 1) (by omega) (by omega)]
      congr 1; omega

theorem indexOfName_posNames (i n : Nat) (h : i < n) : indexOfName (posNames 0 n) (posName i) = some i := by
  unfold indexOfName
  rw [indexOfName_go_posNames i n 0 0 (by omega) (by omega)]
  simp

/-- the positional names of a tuple are pairwise distinct -/
theorem hasDup_posNames : ∀ (n s : Nat), hasDup (posNames s n) = false
  | 0, _ => rfl
  | n + 1, s => by
    simp only [posNames, hasDup, Bool.or_eq_false_iff]
    refine ⟨?_, hasDup_posNames n (s + 1)⟩
    have : ∀ (m t : Nat), s < t → (posNames t m).contains (posName s) = false := by
      intro m
      induction m with
      | zero => intro t _; rfl
      | succ m ih =>
        intro t ht
        simp only [posNames, List.contains_cons, Bool.or_eq_false_iff]
        refine ⟨?_, ih (t + 1) (by omega)⟩
        rw [posName_beq]; simp; omega
    exact this n (s + 1) (by omega)

theorem mappingPos_names (o : TraceOpts) : ∀ (ts : Tys) (i : Nat),
    (mappingPos o i ts).toList.map Field.name = posNames i ts.length
  | .nil, _ => rfl
  | .cons t r, i => by
    rcases hm : mappingDT o t with ⟨dt, nb, md⟩
    simp [mappingPos, hm, Fields.toList, Tys.length, posNames, Field.name, mappingPos_names o r (i + 1)]

end SaModel.Roundtrip
