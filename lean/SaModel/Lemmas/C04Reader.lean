import SaModel.Lemmas.C04Cast
import SaModel.Lemmas.C04Trace
import SaModel.Lemmas.C04Utf8
import SaModel.Read.ToD
/-
C04: the remaining hypotheses of `Props.C02.read_typed_decode`, discharged for traced schemas and typed values.

  new_of_wf   a well-formed array of a traced field is accepted by `ArrayDeserializer::new` (`Read.new`): only the
              strategies the tracer writes (none, TupleAsStruct), dictionaries only as Dictionary(UInt32, Utf8 | LargeUtf8)
              with non-nullable values
  utf8Ok_lv   every string inside the logical value of a typed value is well-formed UTF-8 (it comes from a `String`)
-/
namespace SaModel.Roundtrip
open SaModel SaModel.Spec SaModel.Build

theorem wf_bytes {nl : Bool} {a : Arr} {dt : DataType} (hdt : dt = .utf8 ∨ dt = .largeUtf8 ∨ dt = .largeBinary)
    (h : Spec.wf dt nl a = true) : ∃ ty v offs data, a = .bytes ty v offs data ∧ (dt ≠ .largeBinary → Spec.isUtf8Ty ty = true) ∧
      Spec.validityOk nl v (offs.length - 1) = true := by
  rcases hdt with rfl | rfl | rfl <;> cases a <;> try (simp [Spec.wf] at h)
  all_goals first
    | (rename_i ty v vals; cases ty <;> simp [primMatches] at h)
    | (rename_i ty v offs data
       cases ty <;> simp [Spec.wf] at h
       exact ⟨_, v, offs, data, rfl, by simp [Spec.isUtf8Ty], by simp [h]⟩)

theorem wf_dictionary {nl : Bool} {a : Arr} {k v : DataType} (h : Spec.wf (.dictionary k v) nl a = true) :
    ∃ ks vs, a = .dictionary ks vs ∧ Spec.wf k nl ks = true ∧ Spec.wf v false vs = true := by
  cases a <;> try (simp [Spec.wf] at h)
  case dictionary ks vs => exact ⟨ks, vs, rfl, h.1.1, h.1.2⟩
  case prim ty v vals => cases ty <;> simp [primMatches] at h

theorem strategyOk_nil : Read.strategyOk [] = .ok () := rfl
theorem strategyOk_tuple : Read.strategyOk TUPLE_MD = .ok () := by decide

/-- the metadata the documented mapping writes: none, or the TupleAsStruct strategy -/
theorem mapping_md (o : TraceOpts) : ∀ (t : Ty) (dt : DataType) (nb : Bool) (md : Metadata),
    mappingDT o t = (dt, nb, md) → Read.strategyOk md = .ok ()
  | .prim _, _, _, _, hm | .unit, _, _, _, hm | .unitStruct _, _, _, _, hm | .struct _ _, _, _, _, hm => by
    simp only [mappingDT, Prod.mk.injEq] at hm; obtain ⟨_, _, rfl⟩ := hm; rfl
  | .tuple _, _, _, _, hm | .tupleStruct _ _, _, _, _, hm => by
    simp only [mappingDT, Prod.mk.injEq] at hm; obtain ⟨_, _, rfl⟩ := hm; exact strategyOk_tuple
  | .option t, _, _, _, hm => by
    rcases hm' : mappingDT o t with ⟨dt', nb', md'⟩
    simp only [mappingDT, hm', Prod.mk.injEq] at hm; obtain ⟨_, _, rfl⟩ := hm
    exact mapping_md o t _ _ _ hm'
  | .newtype _ t, _, _, _, hm => by
    simp only [mappingDT] at hm; exact mapping_md o t _ _ _ hm
  | .vec t, _, _, _, hm => by
    rcases hm' : mappingDT o t with ⟨dt', nb', md'⟩
    simp only [mappingDT, hm', Prod.mk.injEq] at hm; obtain ⟨_, _, rfl⟩ := hm; rfl
  | .map k v, _, _, _, hm => by
    rcases hk : mappingDT o k with ⟨kdt, knb, kmd⟩
    rcases hv : mappingDT o v with ⟨vdt, vnb, vmd⟩
    simp only [mappingDT, hk, hv, Prod.mk.injEq] at hm; obtain ⟨_, _, rfl⟩ := hm; rfl
  | .enum _ vars, _, _, _, hm => by
    simp only [mappingDT] at hm
    split at hm <;> (simp only [Prod.mk.injEq] at hm; obtain ⟨_, _, rfl⟩ := hm; rfl)

theorem meta_md {fm : FieldMeta} {f : Field} (h : Spec.metaMatches fm f = true) : fm.metadata = f.metadata := by
  simp only [Spec.metaMatches, Bool.and_eq_true, beq_iff_eq] at h; exact h.2

theorem new_str (o : TraceOpts) (nl : Bool) (a : Arr) (h : Spec.wf (strDT o) nl a = true) :
    ∃ ty v offs data, a = .bytes ty v offs data ∧ Spec.isUtf8Ty ty = true ∧ Spec.validityOk nl v (offs.length - 1) = true := by
  have hdt : strDT o = .utf8 ∨ strDT o = .largeUtf8 ∨ strDT o = .largeBinary := by
    unfold strDT; split <;> simp
  obtain ⟨ty, v, offs, data, rfl, hu, hv⟩ := wf_bytes hdt h
  exact ⟨ty, v, offs, data, rfl, hu (by unfold strDT; split <;> simp), hv⟩

/-- a well-formed `Dictionary(UInt32, Utf8 | LargeUtf8)` array (strings under `string_dictionary_encoding`, enums without
data under `enums_without_data_as_strings`) is accepted: integer keys, string values without a validity bitmap -/
theorem new_dict (o : TraceOpts) (nl : Bool) (a : Arr) (h : Spec.wf (.dictionary .uint32 (strDT o)) nl a = true) :
    Read.new Read.Fixes.all a = .ok () := by
  obtain ⟨ks, vs, rfl, hk, hv⟩ := wf_dictionary h
  obtain ⟨kty, kv, kvals, rfl, hki⟩ := wf_int .u32 hk
  obtain ⟨ty, vv, offs, data, rfl, hu, hvv⟩ := new_str o false vs hv
  have : vv = none := by
    cases vv with
    | none => rfl
    | some b => simp [Spec.validityOk] at hvv
  subst this
  simp [Read.new, hki, hu]

theorem new_prim (o : TraceOpts) (p : Prim) (nl : Bool) (a : Arr) (h : Spec.wf (primDT o p) nl a = true) :
    Read.new Read.Fixes.all a = .ok () := by
  cases p with
  | bool => obtain ⟨_, _, _, rfl⟩ := wf_boolean h; rfl
  | int t => obtain ⟨_, _, _, rfl, _⟩ := wf_int t h; rfl
  | f32 => obtain ⟨_, _, rfl⟩ := wf_float32 h; rfl
  | f64 => obtain ⟨_, _, rfl⟩ := wf_float64 h; rfl
  | char => obtain ⟨_, _, _, rfl, _⟩ := wf_int .u32 h; rfl
  | bytes | bytesRef | bytesSeq =>
    obtain ⟨_, _, _, _, rfl, _, _⟩ := wf_bytes (dt := .largeBinary) (by simp) h; rfl
  | str | strRef | cowStr =>
    simp only [primDT] at h
    split at h
    · exact new_dict o nl a h
    · obtain ⟨ty, vv, offs, data, rfl, _, _⟩ := new_str o nl a h; rfl

/-- shape of a well-formed Union array: dense (offsets present), as many offsets as type ids, children matching the
union fields with consecutive type ids from 0 -/
theorem wf_union_dense {nl : Bool} {a : Arr} {ufs : UFields} {m : UnionMode} (h : Spec.wf (.union ufs m) nl a = true) :
    ∃ types offs cols, a = .union types (some offs) cols ∧ offs.length = types.length ∧
      Spec.wfUFields ufs cols 0 = true := by
  cases a <;> try (simp [Spec.wf] at h)
  case union types offs cols =>
    cases offs with
    | none => simp at h
    | some os => exact ⟨types, os, cols, rfl, by simpa using h.1.1.2, h.1.2⟩
  case prim ty v vals => cases ty <;> simp [primMatches] at h

/-- child `i` of the Union an enum is traced to is `variantField` of the variant -/
theorem mappingVariants_cons (o : TraceOpts) (i : Nat) (vn : String) (v : Variant) (rest : Variants) :
    mappingVariants o i (.cons vn v rest) = .cons (i : Int) (variantField o vn v) (mappingVariants o (i + 1) rest) := by
  cases v <;> simp [mappingVariants, variantField]

mutual
theorem new_of_wf (o : TraceOpts) : ∀ (t : Ty) (dt : DataType) (nb : Bool) (md : Metadata) (nl : Bool) (a : Arr),
    mappingDT o t = (dt, nb, md) → Spec.wf dt nl a = true → Read.new Read.Fixes.all a = .ok ()
  | .prim p, dt, nb, md, nl, a, hm, h => by
    simp only [mappingDT, Prod.mk.injEq] at hm; obtain ⟨rfl, rfl, rfl⟩ := hm; exact new_prim o p nl a h
  | .unit, dt, nb, md, nl, a, hm, h => by
    simp only [mappingDT, Prod.mk.injEq] at hm; obtain ⟨rfl, rfl, rfl⟩ := hm
    obtain ⟨_, rfl⟩ := wf_null h; rfl
  | .unitStruct _, dt, nb, md, nl, a, hm, h => by
    simp only [mappingDT, Prod.mk.injEq] at hm; obtain ⟨rfl, rfl, rfl⟩ := hm
    obtain ⟨_, rfl⟩ := wf_null h; rfl
  | .option t, dt, nb, md, nl, a, hm, h => by
    rcases hm' : mappingDT o t with ⟨dt', nb', md'⟩
    simp only [mappingDT, hm', Prod.mk.injEq] at hm; obtain ⟨rfl, rfl, rfl⟩ := hm
    exact new_of_wf o t _ _ _ nl a hm' h
  | .newtype _ t, dt, nb, md, nl, a, hm, h => by
    simp only [mappingDT] at hm
    exact new_of_wf o t _ _ _ nl a hm h
  | .vec t, dt, nb, md, nl, a, hm, h => by
    rcases hm' : mappingDT o t with ⟨dt', nb', md'⟩
    simp only [mappingDT, hm', Prod.mk.injEq] at hm; obtain ⟨rfl, rfl, rfl⟩ := hm
    have hel : ∃ lg v offs fm el, a = .list lg v offs fm el ∧ fm.metadata = md' ∧ Spec.wf dt' nb' el = true := by
      by_cases hl : o.sequenceAsLargeList = true
      · simp only [hl, if_true] at h
        obtain ⟨v, offs, fm, el, rfl, hmm, h⟩ := wf_largeList h
        exact ⟨_, v, offs, fm, el, rfl, meta_md hmm, h⟩
      · simp only [hl] at h
        obtain ⟨v, offs, fm, el, rfl, hmm, h⟩ := wf_list h
        exact ⟨_, v, offs, fm, el, rfl, meta_md hmm, h⟩
    obtain ⟨lg, vv, offs, fm, el, rfl, hmd, hel⟩ := hel
    have ih := new_of_wf o t _ _ _ nb' el hm' hel
    simp [Read.new, hmd, mapping_md o t _ _ _ hm', ih, bind, Except.bind]
  | .tuple ts, dt, nb, md, nl, a, hm, h => by
    simp only [mappingDT, Prod.mk.injEq] at hm; obtain ⟨rfl, rfl, rfl⟩ := hm
    obtain ⟨len, vv, cols, rfl, _, hcols⟩ := wf_struct h
    simpa [Read.new] using newPos_of_wf o ts 0 cols len hcols
  | .tupleStruct _ ts, dt, nb, md, nl, a, hm, h => by
    simp only [mappingDT, Prod.mk.injEq] at hm; obtain ⟨rfl, rfl, rfl⟩ := hm
    obtain ⟨len, vv, cols, rfl, _, hcols⟩ := wf_struct h
    simpa [Read.new] using newPos_of_wf o ts 0 cols len hcols
  | .struct _ fs, dt, nb, md, nl, a, hm, h => by
    simp only [mappingDT, Prod.mk.injEq] at hm; obtain ⟨rfl, rfl, rfl⟩ := hm
    obtain ⟨len, vv, cols, rfl, _, hcols⟩ := wf_struct h
    simpa [Read.new] using newFields_of_wf o fs cols len hcols
  | .map k v, dt, nb, md, nl, a, hm, h => by
    rcases hk : mappingDT o k with ⟨kdt, knb, kmd⟩
    rcases hv : mappingDT o v with ⟨vdt, vnb, vmd⟩
    simp only [mappingDT, hk, hv, Prod.mk.injEq] at hm; obtain ⟨rfl, rfl, rfl⟩ := hm
    obtain ⟨vv, offs, mm, ks, vs, rfl, hmk, hmv, hwk, hwv⟩ := wf_map h
    have ihk := new_of_wf o k _ _ _ knb ks hk hwk
    have ihv := new_of_wf o v _ _ _ vnb vs hv hwv
    have e1 : mm.keys.metadata = kmd := meta_md hmk
    have e2 : mm.values.metadata = vmd := meta_md hmv
    simp [Read.new, e1, e2, mapping_md o k _ _ _ hk, mapping_md o v _ _ _ hv, ihk, ihv, bind, Except.bind]
  | .enum _ vars, dt, nb, md, nl, a, hm, h => by
    simp only [mappingDT] at hm
    split at hm
    · simp only [Prod.mk.injEq] at hm; obtain ⟨rfl, rfl, rfl⟩ := hm
      exact new_dict o nl a h
    · simp only [Prod.mk.injEq] at hm; obtain ⟨rfl, rfl, rfl⟩ := hm
      obtain ⟨types, offs, cols, rfl, hlen, hcols⟩ := wf_union_dense h
      have ih := newVariants_of_wf o vars 0 cols (by simpa using hcols)
      simp [Read.new, hlen, ih]
theorem newPos_of_wf (o : TraceOpts) : ∀ (ts : Tys) (i : Nat) (cols : ArrFields) (len : Nat),
    Spec.wfFields (mappingPos o i ts) cols len = true → Read.newFields Read.Fixes.all cols = .ok ()
  | .nil, _, .nil, _, _ => rfl
  | .nil, _, .cons _ _ _, _, h => by simp [mappingPos, Spec.wfFields] at h
  | .cons t r, i, .nil, _, h => by
    rcases hm : mappingDT o t with ⟨dt, nb, md⟩
    simp [mappingPos, hm, Spec.wfFields] at h
  | .cons t r, i, .cons fm a rest, len, h => by
    rcases hm : mappingDT o t with ⟨dt, nb, md⟩
    simp only [mappingPos, hm, Spec.wfFields, Bool.and_eq_true] at h
    have e : fm.metadata = md := meta_md h.1.1.1
    have ih1 := new_of_wf o t _ _ _ nb a hm (by simpa [Field.dataType, Field.nullable] using h.1.2)
    have ih2 := newPos_of_wf o r (i + 1) rest len h.2
    simp [Read.newFields, e, mapping_md o t _ _ _ hm, ih1, ih2, bind, Except.bind]
theorem newFields_of_wf (o : TraceOpts) : ∀ (fs : TFields) (cols : ArrFields) (len : Nat),
    Spec.wfFields (mappingFields o fs) cols len = true → Read.newFields Read.Fixes.all cols = .ok ()
  | .nil, .nil, _, _ => rfl
  | .nil, .cons _ _ _, _, h => by simp [mappingFields, Spec.wfFields] at h
  | .cons n s t r, .nil, _, h => by
    rcases hm : mappingDT o t with ⟨dt, nb, md⟩
    simp [mappingFields, hm, Spec.wfFields] at h
  | .cons n s t r, .cons fm a rest, len, h => by
    rcases hm : mappingDT o t with ⟨dt, nb, md⟩
    simp only [mappingFields, hm, Spec.wfFields, Bool.and_eq_true] at h
    have e : fm.metadata = md := meta_md h.1.1.1
    have ih1 := new_of_wf o t _ _ _ nb a hm (by simpa [Field.dataType, Field.nullable] using h.1.2)
    have ih2 := newFields_of_wf o r rest len h.2
    simp [Read.newFields, e, mapping_md o t _ _ _ hm, ih1, ih2, bind, Except.bind]
/-- one child of the Union: a well-formed array of `variantField o vn kind` is accepted, and the child's metadata (none,
or TupleAsStruct) is a known strategy -/
theorem newVariant_of_wf (o : TraceOpts) : ∀ (kind : Variant) (vn : String) (a : Arr),
    Spec.wf (variantField o vn kind).dataType (variantField o vn kind).nullable a = true →
    Read.strategyOk (variantField o vn kind).metadata = .ok () ∧ Read.new Read.Fixes.all a = .ok ()
  | .unit, vn, a, h => by
    refine ⟨rfl, ?_⟩
    obtain ⟨_, rfl⟩ := wf_null (nl := true) h; rfl
  | .newtype t, vn, a, h => by
    rcases hm : mappingDT o t with ⟨dt, nb, md⟩
    simp only [variantField, hm] at h ⊢
    exact ⟨mapping_md o t _ _ _ hm, new_of_wf o t _ _ _ nb a hm h⟩
  | .tuple ts, vn, a, h => by
    refine ⟨strategyOk_tuple, ?_⟩
    simp only [variantField] at h
    obtain ⟨len, vv, cols, rfl, _, hcols⟩ := wf_struct h
    simpa [Read.new] using newPos_of_wf o ts 0 cols len hcols
  | .struct fs, vn, a, h => by
    refine ⟨strategyOk_nil, ?_⟩
    simp only [variantField] at h
    obtain ⟨len, vv, cols, rfl, _, hcols⟩ := wf_struct h
    simpa [Read.new] using newFields_of_wf o fs cols len hcols
/-- the children of the Union an enum is traced to: consecutive type ids, every child accepted -/
theorem newVariants_of_wf (o : TraceOpts) : ∀ (vars : Variants) (i : Nat) (cols : ArrUFields),
    Spec.wfUFields (mappingVariants o i vars) cols (i : Int) = true → Read.newUFields Read.Fixes.all cols i = .ok ()
  | .nil, _, .nil, _ => rfl
  | .nil, _, .cons _ _ _ _, h => by simp [mappingVariants, Spec.wfUFields] at h
  | .cons vn v r, i, .nil, h => by simp [mappingVariants_cons, Spec.wfUFields] at h
  | .cons vn v r, i, .cons tid fm a rest, h => by
    simp only [mappingVariants_cons, Spec.wfUFields, Bool.and_eq_true, beq_iff_eq] at h
    obtain ⟨⟨⟨⟨h1, _⟩, hmm⟩, hw⟩, hrest⟩ := h
    subst h1
    have e : fm.metadata = (variantField o vn v).metadata := meta_md hmm
    obtain ⟨hs, ih1⟩ := newVariant_of_wf o v vn a hw
    have ih2 := newVariants_of_wf o r (i + 1) rest (by simpa using hrest)
    simp [Read.newUFields, e, hs, ih1, ih2, bind, Except.bind]
end

/-! ### strings of typed values are valid UTF-8 -/

mutual
theorem utf8Ok_lv : ∀ (t : Ty) (v : Val), Read.utf8Ok (lv t v) = true
  | t, .bool _ | t, .int _ | t, .f32 _ | t, .f64 _ | t, .char _ | t, .bytes _ | t, .unit | t, .none => by
    cases t <;> first | (rename_i p; cases p <;> simp [lv, Read.utf8Ok]) | simp [lv, Read.utf8Ok]
  | t, .str s => by
    cases t with
    | prim p =>
      cases p with
      | str | strRef | cowStr => simp only [lv, Read.utf8Ok]; exact Lemmas.C04Utf8.validUtf8_strBytes s
      | _ => simp [lv, Read.utf8Ok]
    | _ => simp [lv, Read.utf8Ok]
  | t, .some v => by
    cases t <;> first | (rename_i p; cases p <;> simp [lv, Read.utf8Ok]) | simp [lv, Read.utf8Ok]
    all_goals exact utf8Ok_lv _ v
  | t, .newtype v => by
    cases t <;> first | (rename_i p; cases p <;> simp [lv, Read.utf8Ok]) | simp [lv, Read.utf8Ok]
    all_goals exact utf8Ok_lv _ v
  | t, .vec vs => by
    cases t <;> first | (rename_i p; cases p <;> simp [lv, Read.utf8Ok]) | simp [lv, Read.utf8Ok]
    all_goals exact utf8Ok_lvAll _ vs
  | t, .tuple vs => by
    cases t <;> first | (rename_i p; cases p <;> simp [lv, Read.utf8Ok]) | simp [lv, Read.utf8Ok]
    all_goals exact utf8Ok_lvPos _ _ vs
  | t, .struct vs => by
    cases t <;> first | (rename_i p; cases p <;> simp [lv, Read.utf8Ok]) | simp [lv, Read.utf8Ok]
    all_goals exact utf8Ok_lvFields _ vs
  | t, .map es => by
    cases t <;> first | (rename_i p; cases p <;> simp [lv, Read.utf8Ok]) | simp [lv, Read.utf8Ok]
    all_goals exact utf8Ok_lvEntries _ _ es
  | t, .variant i payload => by
    cases t with
    | prim p => cases p <;> simp [lv, Read.utf8Ok]
    | enum n vars =>
      simp only [lv]
      split
      · simp [Read.utf8Ok]
      · rename_i t' _
        cases payload with
        | nil => simp [lvSingle, Read.utf8Ok]
        | cons v rest =>
          cases rest with
          | nil => simpa [lvSingle, Read.utf8Ok] using utf8Ok_lv t' v
          | cons _ _ => simp [lvSingle, Read.utf8Ok]
      · simpa [Read.utf8Ok] using utf8Ok_lvPos 0 _ payload
      · simpa [Read.utf8Ok] using utf8Ok_lvFields _ payload
      · simp [Read.utf8Ok]
    | _ => simp [lv, Read.utf8Ok]
theorem utf8Ok_lvAll : ∀ (t : Ty) (vs : Vals), Read.utf8OkList (lvAll t vs) = true
  | _, .nil => by simp [lvAll, Read.utf8OkList]
  | t, .cons v rest => by simp [lvAll, Read.utf8OkList, utf8Ok_lv t v, utf8Ok_lvAll t rest]
theorem utf8Ok_lvPos : ∀ (i : Nat) (ts : Tys) (vs : Vals), Read.utf8OkFields (lvPos i ts vs) = true
  | _, .nil, _ => by simp [lvPos, Read.utf8OkFields]
  | _, .cons _ _, .nil => by simp [lvPos, Read.utf8OkFields]
  | i, .cons t ts, .cons v rest => by simp [lvPos, Read.utf8OkFields, utf8Ok_lv t v, utf8Ok_lvPos (i + 1) ts rest]
theorem utf8Ok_lvFields : ∀ (fs : TFields) (vs : Vals), Read.utf8OkFields (lvFields fs vs) = true
  | .nil, _ => by simp [lvFields, Read.utf8OkFields]
  | .cons _ _ _ _, .nil => by simp [lvFields, Read.utf8OkFields]
  | .cons n s t fs, .cons v rest => by simp [lvFields, Read.utf8OkFields, utf8Ok_lv t v, utf8Ok_lvFields fs rest]
theorem utf8Ok_lvEntries : ∀ (k v : Ty) (es : VEntries), Read.utf8OkEntries (lvEntries k v es) = true
  | _, _, .nil => by simp [lvEntries, Read.utf8OkEntries]
  | k, v, .cons a b rest => by
    simp [lvEntries, Read.utf8OkEntries, utf8Ok_lv k a, utf8Ok_lv v b, utf8Ok_lvEntries k v rest]
end

end SaModel.Roundtrip
