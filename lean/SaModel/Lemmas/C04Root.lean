import SaModel.Roundtrip.Bridge
import SaModel.Spec.WF
import SaModel.Lemmas.C02DecodeAt
import SaModel.Lemmas.C02Container
/-
C04: the root reader over the arrays `to_marrow` returned — list plumbing between the per-column statements of
C01 / C03 (`arrs[j]`, `cols[j]`) and the struct view `rootArr fields arrs len` the reader model works on.
-/
namespace SaModel.Roundtrip
open SaModel SaModel.Spec

theorem metaMatches_self (f : Field) : Spec.metaMatches (metaOfField f) f = true := by
  cases f; simp [Spec.metaMatches, metaOfField, Field.name, Field.nullable, Field.metadata]

/-- well-formed columns of one length make a well-formed root -/
theorem zip_wf (len : Nat) : ∀ (fields : List Field) (arrs : List Arr), arrs.length = fields.length →
    (∀ (j : Nat) (f : Field) (a : Arr), fields[j]? = some f → arrs[j]? = some a →
      Spec.WFS f a = true ∧ (decodeAll a).length = len) →
    Spec.wfFields (Fields.ofList fields) (zipCols fields arrs) len = true
  | [], [], _, _ => rfl
  | [], _ :: _, h, _ => by simp at h
  | _ :: _, [], h, _ => by simp at h
  | f :: fs, a :: as, hl, h => by
    have h0 := h 0 f a rfl rfl
    have ih := zip_wf len fs as (by simpa using hl) (fun j f' a' hf ha => h (j + 1) f' a' (by simpa using hf) (by simpa using ha))
    simp only [Fields.ofList, zipCols, Spec.wfFields, metaMatches_self, ih, Bool.and_true, Bool.true_and, Bool.and_eq_true,
      beq_iff_eq]
    exact ⟨h0.2, h0.1⟩

theorem slot_map_ok (c : List LVal) (i : Nat) (h : i < c.length) : slot (c.map .ok) i = .ok (c.getD i .null) := by
  simp [slot, h, List.getD]

/-- slot `i` of an array whose slots all decode -/
theorem decodeAt_of_decodeAll (a : Arr) (c : List LVal) (i : Nat) (h : decodeAll a = c.map .ok) (hi : i < c.length) :
    decodeAt a i = .ok (c.getD i .null) := by
  rw [← (decodeAll_spec a).2 i, h]; exact slot_map_ok c i hi

theorem zip_decode (i : Nat) : ∀ (fields : List Field) (arrs : List Arr) (cols : List (String × List LVal)),
    arrs.map decodeAll = cols.map (fun c => c.2.map .ok) → cols.map (·.1) = fields.map (·.name) →
    (∀ c ∈ cols, i < c.2.length) →
    decodeFieldsAt (zipCols fields arrs) i = .ok (cols.map fun c => (c.1, c.2.getD i .null))
  | [], arrs, cols, _, h2, _ => by
    cases cols with
    | nil => cases arrs <;> rfl
    | cons _ _ => simp at h2
  | f :: fs, [], cols, h1, h2, _ => by
    cases cols with
    | nil => simp at h2
    | cons _ _ => simp at h1
  | f :: fs, a :: as, [], h1, _, _ => by simp at h1
  | f :: fs, a :: as, c :: cs, h1, h2, h3 => by
    simp only [List.map_cons, List.cons.injEq] at h1 h2
    have hd := decodeAt_of_decodeAll a c.2 i h1.1 (h3 c (by simp))
    have ih := zip_decode i fs as cs h1.2 h2.2 (fun c' hc' => h3 c' (by simp [hc']))
    have hn : (metaOfField f).name = c.1 := by
      cases f; simp only [metaOfField]; exact h2.1.symm
    simp [zipCols, decodeFieldsAt, hd, ih, hn, bind, Except.bind, pure, Except.pure]

theorem zip_physical : ∀ (fields : List Field) (arrs : List Arr), (∀ a ∈ arrs, Read.physical a = true) →
    Read.physicalFields (zipCols fields arrs) = true
  | [], _, _ => by simp [zipCols, Read.physicalFields]
  | _ :: _, [], _ => by simp [zipCols, Read.physicalFields]
  | f :: fs, a :: as, h => by
    simp [zipCols, Read.physicalFields, h a (by simp), zip_physical fs as (fun a' ha' => h a' (by simp [ha']))]

theorem vlen_eq_lenOf (a : Arr) (h : Read.new Read.Fixes.all a = .ok ()) : Read.vlen a = lenOf a := by
  cases a with
  | dictionary ks vs =>
    cases ks with
    | prim _ _ _ => simp only [Read.vlen, lenOf]
    | _ => simp only [Read.new] at h; cases h
  | _ => simp only [Read.vlen, lenOf]

theorem zip_vlen : ∀ (fields : List Field) (arrs : List Arr), arrs.length = fields.length →
    Read.newFields Read.Fixes.all (zipCols fields arrs) = .ok () → arrs.map Read.vlen = arrs.map lenOf
  | _, [], _, _ => rfl
  | [], _ :: _, h, _ => by simp at h
  | f :: fs, a :: as, hl, h => by
    simp only [zipCols, Read.newFields] at h
    obtain ⟨u1, _, h⟩ := Read.bind_ok_inv h
    obtain ⟨u2, h2, h⟩ := Read.bind_ok_inv h
    cases u2
    simp [vlen_eq_lenOf a h2, zip_vlen fs as (by simpa using hl) h]

theorem access_new (len : Nat) : ∀ (lens : List Nat) (n : Nat), lens.length = n → lens ≠ [] → (∀ x ∈ lens, x = len) →
    Access.new true n lens = .ok len
  | [], _, _, h, _ => absurd rfl h
  | l :: rest, n, hn, _, h => by
    have hl : l = len := h l (by simp)
    subst hl
    have hall : ((l :: rest).take n).all (· == l) = true := by
      rw [List.all_eq_true]
      intro x hx
      have := h x (List.mem_of_mem_take hx)
      simp [this]
    simp only [Access.new, Bool.true_and, bne_iff_ne, ne_eq, hn, not_true_eq_false, if_false, hall, if_true]

end SaModel.Roundtrip
