import SaModel.Lemmas.C04Schema
import SaModel.Lemmas.C04ExtSchema
import SaModel.Lemmas.C04PhysSize
import SaModel.Lemmas.C04Physical
import SaModel.Lemmas.C04Accept
import SaModel.Lemmas.C04FromType
/-
C04 — the ROOT KINDS of `from_type`.

`Tracer::to_schema` (serde_arrow/src/internal/schema/tracer.rs) turns the field the root tracer was traced to into a schema:

    nullable                    ⇒ Err("The root type cannot be nullable")
    DataType::Struct(children)  ⇒ Ok(children)          -- the metadata of the root field (strategy TupleAsStruct) is dropped
    DataType::Null              ⇒ Err("No records found to determine schema")
    any other data type         ⇒ Err("Schema tracing is not directly supported for the root data type …")

so the root kinds the crate supports are exactly the types traced to a NON-NULLABLE STRUCT: a struct with named fields, a
tuple struct (columns "0", "1", …), a tuple / fixed array (the same), and a newtype struct around any of these (newtype
structs are transparent for the tracer, the builders and the readers) — `recordRoot`, `rootCols_isSome_iff`.  Everything
else (`()`, unit structs, scalars, Option, Vec, maps, enums, and newtypes of those) is refused.

This file: `rootCols` (the columns of a root type under the documented mapping), its syntactic characterisation, the
schema facts of the lemma files of C04 restated for the columns of ANY root (each is the `mapping_*` lemma at the struct
the root is traced to), and the independence of `Spec.interpDT` at a Struct from the metadata of the field.
-/
namespace SaModel.Roundtrip
open SaModel SaModel.Build SaModel.Spec SaModel.Lemmas.C03

/-- the columns of a root type: the children of the non-nullable struct it is traced to (`Tracer::to_schema`) -/
def rootCols (o : TraceOpts) (t : Ty) : Option Fields :=
  match mappingDT o t with
  | (.struct fs, false, _) => some fs
  | _ => none

theorem mappingRoot_eq_rootCols (o : TraceOpts) (t : Ty) : mappingRoot o t = (rootCols o t).map Fields.toList := by
  rcases hm : mappingDT o t with ⟨dt, nb, md⟩
  cases dt <;> cases nb <;> simp [mappingRoot, rootCols, hm]

/-- the root kinds `from_type` supports, syntactically: a struct with named fields, a tuple struct, a tuple (fixed arrays
are tuples for serde), a newtype struct around one of these -/
def recordRoot : Ty → Bool
  | .struct _ _ | .tupleStruct _ _ | .tuple _ => true
  | .newtype _ t => recordRoot t
  | _ => false

/-- what is under the newtype wrappers of a root type -/
def rootCore : Ty → Ty
  | .newtype _ t => rootCore t
  | t => t

/-- unfolding of the hypothesis "the root is traced to a non-nullable struct with the columns `F`" -/
theorem rootCols_some {o : TraceOpts} {t : Ty} {F : Fields} (h : rootCols o t = some F) :
    ∃ md, mappingDT o t = (.struct F, false, md) := by
  unfold rootCols at h
  split at h
  · rename_i fs md hm
    cases h
    exact ⟨md, hm⟩
  · cases h

theorem rootCols_of_mapping {o : TraceOpts} {t : Ty} {F : Fields} {md : Metadata} (h : mappingDT o t = (.struct F, false, md)) :
    rootCols o t = some F := by
  simp [rootCols, h]

/-- **the supported root kinds, characterised**: a type is traced to a non-nullable struct — for every option set —
exactly when it is a struct with named fields, a tuple struct, a tuple, or a newtype struct around one of these -/
theorem rootCols_isSome_iff (o : TraceOpts) : ∀ (t : Ty), (rootCols o t).isSome = recordRoot t
  | .prim .bool | .prim .f32 | .prim .f64 | .prim .char | .prim .bytes | .prim .bytesRef | .prim .bytesSeq => by simp [rootCols, mappingDT, recordRoot, primDT]
  | .prim (.int it) => by cases it <;> simp [rootCols, mappingDT, recordRoot, primDT, intDT]
  | .prim .str | .prim .strRef | .prim .cowStr => by
    cases h1 : o.stringDictionaryEncoding <;> cases h2 : o.stringsAsLargeUtf8 <;>
      simp [rootCols, mappingDT, recordRoot, primDT, strDT, h1, h2]
  | .unit => by simp [rootCols, mappingDT, recordRoot]
  | .unitStruct _ => by simp [rootCols, mappingDT, recordRoot]
  | .option t => by
    rcases hm : mappingDT o t with ⟨dt, nb, md⟩
    simp [rootCols, mappingDT, hm, recordRoot]
  | .vec t => by
    rcases hm : mappingDT o t with ⟨dt, nb, md⟩
    cases h1 : o.sequenceAsLargeList <;> simp [rootCols, mappingDT, hm, recordRoot, h1]
  | .tuple _ => by simp [rootCols, mappingDT, recordRoot]
  | .tupleStruct _ _ => by simp [rootCols, mappingDT, recordRoot]
  | .struct _ _ => by simp [rootCols, mappingDT, recordRoot]
  | .newtype _ t => by
    have ih := rootCols_isSome_iff o t
    simpa [rootCols, mappingDT, recordRoot] using ih
  | .enum _ vars => by
    cases h1 : (vars.withoutData && o.enumsWithoutDataAsStrings) <;> simp [rootCols, mappingDT, recordRoot, h1]
  | .map k v => by
    rcases hk : mappingDT o k with ⟨kdt, knb, kmd⟩
    rcases hv : mappingDT o v with ⟨vdt, vnb, vmd⟩
    simp [rootCols, mappingDT, hk, hv, recordRoot]

/-- the columns by root kind -/
theorem rootCols_struct (o : TraceOpts) (n : String) (fs : TFields) : rootCols o (.struct n fs) = some (mappingFields o fs) := by
  simp [rootCols, mappingDT]
theorem rootCols_tupleStruct (o : TraceOpts) (n : String) (ts : Tys) : rootCols o (.tupleStruct n ts) = some (mappingPos o 0 ts) := by
  simp [rootCols, mappingDT]
theorem rootCols_tuple (o : TraceOpts) (ts : Tys) : rootCols o (.tuple ts) = some (mappingPos o 0 ts) := by
  simp [rootCols, mappingDT]
theorem rootCols_newtype (o : TraceOpts) (n : String) (t : Ty) : rootCols o (.newtype n t) = rootCols o t := by
  simp [rootCols, mappingDT]

theorem mappingPos_ne_nil (o : TraceOpts) (i : Nat) : ∀ (ts : Tys), ts ≠ .nil → mappingPos o i ts ≠ .nil
  | .nil, h => absurd rfl h
  | .cons t r, _ => by
    rcases hm : mappingDT o t with ⟨dt, nb, md⟩
    simp [mappingPos, hm]

theorem mappingFields_ne_nil (o : TraceOpts) : ∀ (fs : TFields), fs ≠ .nil → mappingFields o fs ≠ .nil
  | .nil, h => absurd rfl h
  | .cons n s t r, _ => by
    rcases hm : mappingDT o t with ⟨dt, nb, md⟩
    simp [mappingFields, hm]

/-! ### the schema facts of C04, for the columns of any root -/

theorem rootCols_side {o : TraceOpts} {t : Ty} {F : Fields} (h : rootCols o t = some F) : SideFs F := by
  obtain ⟨md, hm⟩ := rootCols_some h
  have := mapping_side o t _ _ _ hm
  unfold SideFs; simpa [Side, SchemaOK, covered] using this

theorem rootCols_noTemporal {o : TraceOpts} {t : Ty} {F : Fields} (h : rootCols o t = some F) :
    ∀ f ∈ F.toList, noTemporalDT f.dataType = true := by
  obtain ⟨md, hm⟩ := rootCols_some h
  have := mapping_noTemporal o t _ _ _ hm
  exact noTemporalFs_toList _ (by simpa [noTemporalDT] using this)

/-- `to_marrow` against the schema of any root does not depend on the chrono parsers -/
theorem toMarrow_refuse_root (ext : Ext) {o : TraceOpts} {t : Ty} {F : Fields} (h : rootCols o t = some F) (fields : List Field)
    (hfields : fields = F.toList) (rows : List SVal) :
    toMarrow ext fields rows = toMarrow (refuseExt ext) fields rows :=
  toMarrow_refuse ext fields rows (by rw [hfields]; exact rootCols_noTemporal h)

theorem rootCols_sizeOK {o : TraceOpts} {t : Ty} {F : Fields} (h : rootCols o t = some F) (L : Nat) (hL : L ≤ 9223372036854775807) :
    ∀ f ∈ F.toList, sizeOKDT f.dataType L = true := by
  obtain ⟨md, hm⟩ := rootCols_some h
  have := mapping_fslFree o t _ _ _ hm
  exact fun f hf => sizeOKDT_of_fslFree _ L (fslFreeFs_toList _ (by simpa [fslFreeDT] using this) f hf) hL

theorem rootCols_plain {o : TraceOpts} (hd : o.stringDictionaryEncoding = false) (he : o.enumsWithoutDataAsStrings = false)
    {t : Ty} {F : Fields} (h : rootCols o t = some F) : plainFs F = true := by
  obtain ⟨md, hm⟩ := rootCols_some h
  simpa [plainDT] using mapping_plain o hd he t _ _ _ hm

theorem rootCols_total {o : TraceOpts} {t : Ty} {F : Fields} (h : rootCols o t = some F) (hs : sized t = true) :
    totalFs F = true := by
  obtain ⟨md, hm⟩ := rootCols_some h
  have := (mapping_total o t _ _ _ hs hm).1 false
  simpa [total] using this

/-- **`ArrayBuilder::new` accepts the schema traced from any supported root type of the grammar**; the fresh root has the
full head room `2^31 - 1` (`newRoot_traced` for every root kind: `newDT "$" (.struct F) false md` IS `newRoot F.toList`) -/
theorem newRoot_root {o : TraceOpts} {t : Ty} {F : Fields} (h : rootCols o t = some F) (hf : fragE t = true) :
    ∃ root0, newRoot F.toList = .ok root0 ∧ room root0 = 2147483647 := by
  obtain ⟨md, hm⟩ := rootCols_some h
  obtain ⟨b, hb, hu, hk⟩ := newDT_traced o t _ _ _ hf hm "$" false
  refine ⟨b, by simpa only [newRoot, fields_ofList_toList, newDT] using hb, ?_⟩
  rw [room_eq, hu, hk]; rfl

/-! ### `Spec.interpDT` at a Struct does not look at the metadata of the field -/

theorem interpDT_struct_md (ext : Ext) (F : Fields) (nb : Bool) (md md' : Metadata) :
    ∀ (x : SVal), interpDT ext (.struct F) nb md x = interpDT ext (.struct F) nb md' x
  | .some v => by simp only [interpDT]; exact interpDT_struct_md ext F nb md md' v
  | .newtypeStruct _ v => by simp only [interpDT]; exact interpDT_struct_md ext F nb md md' v
  | .none | .unit | .unitStruct _ => by simp [interpDT, interpNull, isUnknownVariant]
  | .seq _ | .tuple _ | .tupleStruct _ _ | .bytes _ | .record _ _ | .map _ | .mapRaw _ => by
    simp [interpDT, isUnknownVariant]
  | .unitVariant _ _ _ | .newtypeVariant _ _ _ _ | .tupleVariant _ _ _ _ | .structVariant _ _ _ _ => by
    simp [interpDT]
  | .bool _ | .int _ _ | .f32 _ | .f64 _ | .char _ | .str _ => by simp [interpDT, isUnknownVariant]

/-! ### `from_type` on a supported root -/

/-- the documented result of `from_type` on any root traced to a non-nullable struct: walkable, mappable, passes within
the budget, no overwrites ⇒ the columns of the documented mapping (`fromTypeSpec_ok` for every root kind) -/
theorem fromTypeSpec_ok_root (O : Trace.Options) (h0 : O.overwrites = []) (t : Ty) (F : Fields)
    (hroot : rootCols (viewOpts O) t = some F)
    (hw : Trace.Spec.walkable O "$" (toTraceTy t) = true)
    (hp : mappable (viewOpts O) t = true)
    (hb : Trace.Spec.passes (toTraceTy t) ≤ O.from_type_budget) :
    Trace.Spec.fromTypeSpec O (toTraceTy t) = .ok F.toList := by
  obtain ⟨md, hm⟩ := rootCols_some hroot
  unfold Trace.Spec.fromTypeSpec
  rw [if_neg (by simp [hw]), if_neg (by omega), h0, mapping_ok O h0 t "$" "$" false _ _ _ hp hm]
  simp [ok_bind, Field.nullable, Field.dataType]

/-- **`from_type` succeeds on every supported root kind** (the tracer model, every exploration order `c`) -/
theorem fromType_ok_root (c : Trace.Code) (O : Trace.Options) (h0 : O.overwrites = []) (t : Ty) (F : Fields)
    (hroot : rootCols (viewOpts O) t = some F)
    (hw : Trace.Spec.walkable O "$" (toTraceTy t) = true)
    (hp : mappable (viewOpts O) t = true)
    (hb : Trace.Spec.passes (toTraceTy t) ≤ O.from_type_budget) :
    Trace.fromType c O (toTraceTy t) = .ok F.toList := by
  have hag := Props.C08.C08_from_type c O (toTraceTy t)
  rw [fromTypeSpec_ok_root O h0 t F hroot hw hp hb] at hag
  exact agree_ok hag

end SaModel.Roundtrip
