import SaModel.Lemmas.C04Schema
import SaModel.Props.C03
import SaModel.Lemmas.C04SafeDT
/-
C04: C01's `Safe` hypothesis holds for every schema without Dictionary types (unions included) — in particular for every
traced schema when neither strings (`string_dictionary_encoding`) nor data-less enums (`enums_without_data_as_strings`)
are dictionary encoded.

  safe_of_noDict   : BuiltFor dt nl b → noDictDT dt → Safe b ∧ DefSafe b
  mapping_noDict   : o.stringDictionaryEncoding = false → noEnum t → mappingDT o t = (dt, nb, md) → noDictDT dt
  mapping_noDictE  : o.stringDictionaryEncoding = false → o.enumsWithoutDataAsStrings = false →
                     mappingDT o t = (dt, nb, md) → noDictDT dt                      (every type, enums included)
  safeDT_of_noDict : noDictDT dt → safeDT dt n ∧ defSafeDT dt n md   (the decidable condition of Lemmas/C04SafeDT.lean)
  safe_of_traced / safe_of_tracedE / safe_of_traced_schema : `Safe root0` for traced schemas
-/
namespace SaModel.Roundtrip
open SaModel SaModel.Spec SaModel.Build SaModel.Lemmas.C03

mutual
def noDictDT : DataType → Bool
  | .dictionary _ _ | .runEndEncoded _ _ => false
  | .list f | .largeList f | .fixedSizeList f _ | .map f _ => noDictF f
  | .struct fs => noDictFs fs
  | .union ufs _ => noDictUs ufs
  | _ => true
def noDictF : Field → Bool
  | .mk _ dt _ _ => noDictDT dt
def noDictFs : Fields → Bool
  | .nil => true
  | .cons f r => noDictF f && noDictFs r
def noDictUs : UFields → Bool
  | .nil => true
  | .cons _ f r => noDictF f && noDictUs r
end

theorem noDictF_dt (f : Field) : noDictF f = noDictDT f.dataType := by cases f; simp [noDictF, Field.dataType]

/-- `DefSafe` of every child gives `DefSafe` of the child `serialize_default` delegates to -/
theorem defSafeFirst_of_defSafeL : ∀ (bl : BL), DefSafeL bl → DefSafeFirst bl
  | .nil, _ => by simp [DefSafeFirst]
  | .cons b _ r, h => by
    simp only [DefSafeL] at h
    simp only [DefSafeFirst]
    exact ⟨fun _ => defSafeFirst_of_defSafeL r h.2, fun _ => h.1⟩

mutual
theorem safe_of_noDict : ∀ (b : B) (dt : DataType) (nl : Bool), BuiltFor dt nl b → noDictDT dt = true → Safe b ∧ DefSafe b
  | .null _ _, _, _, _, _ | .unknownVariant _, _, _, _, _ | .leaf _ _ _ _, _, _, _, _ | .bytes _ _ _ _ _, _, _, _, _
  | .bytesView _ _ _ _ _, _, _, _, _ | .fixedSizeBinary _ _ _ _ _ _, _, _, _, _ => by simp [Safe, DefSafe]
  | .list _ large fm v _ el, dt, nl, hb, hn => by
    simp only [BuiltFor] at hb
    obtain ⟨f, rfl, _, _, hel⟩ := hb
    have hnf : noDictDT f.dataType = true := by
      rw [← noDictF_dt]; cases large <;> simpa [noDictDT] using hn
    have ih := safe_of_noDict el _ _ hel hnf
    simp [Safe, DefSafe, ih.1]
  | .fixedSizeList _ fm n _ v _ el, dt, nl, hb, hn => by
    simp only [BuiltFor] at hb
    obtain ⟨f, rfl, _, _, hel⟩ := hb
    have hnf : noDictDT f.dataType = true := by rw [← noDictF_dt]; simpa [noDictDT] using hn
    have ih := safe_of_noDict el _ _ hel hnf
    simp [Safe, DefSafe, ih.1, ih.2]
  | .map _ mm v _ ks vs, dt, nl, hb, hn => by
    simp only [BuiltFor] at hb
    obtain ⟨ename, kf, vf, sorted, enl, emd, rfl, _, _, hk, hv⟩ := hb
    simp only [noDictDT, noDictF, noDictFs, Bool.and_eq_true, Bool.and_true] at hn
    have ihk := safe_of_noDict ks _ _ hk (by rw [← noDictF_dt]; exact hn.1)
    have ihv := safe_of_noDict vs _ _ hv (by rw [← noDictF_dt]; exact hn.2)
    simp [Safe, DefSafe, ihk.1, ihv.1]
  | .struct _ _ v fs _ _ _, dt, nl, hb, hn => by
    simp only [BuiltFor] at hb
    obtain ⟨fields, rfl, _, hl⟩ := hb
    have ih := safeL_of_noDict fs fields hl (by simpa [noDictDT] using hn)
    simp [Safe, DefSafe, ih.1, ih.2]
  | .dictionary _ idx vals _, dt, nl, hb, hn => by
    simp only [BuiltFor] at hb
    obtain ⟨k, vdt, rfl, _, _⟩ := hb
    simp [noDictDT] at hn
  | .union _ fs _ _ _, dt, nl, hb, hn => by
    simp only [BuiltFor] at hb
    obtain ⟨ufs, mode, rfl, hu⟩ := hb
    have ih := safeU_of_noDict fs ufs 0 hu (by simpa [noDictDT] using hn)
    simp only [Safe, DefSafe]
    exact ⟨ih.1, defSafeFirst_of_defSafeL fs ih.2⟩
theorem safeL_of_noDict : ∀ (bl : BL) (fs : Fields), BuiltForL fs bl → noDictFs fs = true → SafeL bl ∧ DefSafeL bl
  | .nil, _, _, _ => by simp [SafeL, DefSafeL]
  | .cons b m r, .nil, hb, _ => by simp [BuiltForL] at hb
  | .cons b m r, .cons f fr, hb, hn => by
    simp only [BuiltForL] at hb
    simp only [noDictFs, Bool.and_eq_true] at hn
    have ih1 := safe_of_noDict b _ _ hb.2.1 (by rw [← noDictF_dt]; exact hn.1)
    have ih2 := safeL_of_noDict r fr hb.2.2 hn.2
    simp [SafeL, DefSafeL, ih1.1, ih1.2, ih2.1, ih2.2]
theorem safeU_of_noDict : ∀ (bl : BL) (ufs : UFields) (k : Nat), BuiltForU ufs bl k → noDictUs ufs = true →
    SafeL bl ∧ DefSafeL bl
  | .nil, _, _, _, _ => by simp [SafeL, DefSafeL]
  | .cons b m r, .nil, _, hb, _ => by simp [BuiltForU] at hb
  | .cons b m r, .cons t f fr, k, hb, hn => by
    simp only [BuiltForU] at hb
    simp only [noDictUs, Bool.and_eq_true] at hn
    have ih1 := safe_of_noDict b _ _ hb.2.2.1 (by rw [← noDictF_dt]; exact hn.1)
    have ih2 := safeU_of_noDict r fr (k + 1) hb.2.2.2 hn.2
    simp [SafeL, DefSafeL, ih1.1, ih1.2, ih2.1, ih2.2]
end

theorem noDict_prim (o : TraceOpts) (hd : o.stringDictionaryEncoding = false) (p : Prim) : noDictDT (primDT o p) = true := by
  cases p with
  | int t => cases t <;> rfl
  | str | strRef | cowStr => simp only [primDT, hd, strDT, Bool.false_eq_true, if_false]; split <;> rfl
  | _ => rfl

mutual
theorem mapping_noDict (o : TraceOpts) (hd : o.stringDictionaryEncoding = false) :
    ∀ (t : Ty) (dt : DataType) (nb : Bool) (md : Metadata), noEnum t = true → mappingDT o t = (dt, nb, md) → noDictDT dt = true
  | .prim p, dt, nb, md, _, hm => by
    simp only [mappingDT, Prod.mk.injEq] at hm; obtain ⟨rfl, rfl, rfl⟩ := hm; exact noDict_prim o hd p
  | .unit, dt, nb, md, _, hm | .unitStruct _, dt, nb, md, _, hm => by
    simp only [mappingDT, Prod.mk.injEq] at hm; obtain ⟨rfl, rfl, rfl⟩ := hm; rfl
  | .option t, dt, nb, md, hn, hm => by
    rcases hm' : mappingDT o t with ⟨dt', nb', md'⟩
    simp only [mappingDT, hm', Prod.mk.injEq] at hm; obtain ⟨rfl, rfl, rfl⟩ := hm
    exact mapping_noDict o hd t _ _ _ (by simpa [noEnum] using hn) hm'
  | .newtype _ t, dt, nb, md, hn, hm => by
    simp only [mappingDT] at hm
    exact mapping_noDict o hd t _ _ _ (by simpa [noEnum] using hn) hm
  | .vec t, dt, nb, md, hn, hm => by
    rcases hm' : mappingDT o t with ⟨dt', nb', md'⟩
    simp only [mappingDT, hm', Prod.mk.injEq] at hm; obtain ⟨rfl, rfl, rfl⟩ := hm
    have ih := mapping_noDict o hd t _ _ _ (by simpa [noEnum] using hn) hm'
    split <;> simpa [noDictDT, noDictF] using ih
  | .tuple ts, dt, nb, md, hn, hm | .tupleStruct _ ts, dt, nb, md, hn, hm => by
    simp only [mappingDT, Prod.mk.injEq] at hm; obtain ⟨rfl, rfl, rfl⟩ := hm
    simpa [noDictDT] using mappingPos_noDict o hd ts 0 (by simpa [noEnum] using hn)
  | .struct _ fs, dt, nb, md, hn, hm => by
    simp only [mappingDT, Prod.mk.injEq] at hm; obtain ⟨rfl, rfl, rfl⟩ := hm
    simpa [noDictDT] using mappingFields_noDict o hd fs (by simpa [noEnum] using hn)
  | .map k v, dt, nb, md, hn, hm => by
    rcases hk : mappingDT o k with ⟨kdt, knb, kmd⟩
    rcases hv : mappingDT o v with ⟨vdt, vnb, vmd⟩
    simp only [mappingDT, hk, hv, Prod.mk.injEq] at hm; obtain ⟨rfl, rfl, rfl⟩ := hm
    simp only [noEnum, Bool.and_eq_true] at hn
    simp [noDictDT, noDictF, noDictFs, mapping_noDict o hd k _ _ _ hn.1 hk, mapping_noDict o hd v _ _ _ hn.2 hv]
  | .enum _ _, _, _, _, hn, _ => by simp [noEnum] at hn
theorem mappingPos_noDict (o : TraceOpts) (hd : o.stringDictionaryEncoding = false) :
    ∀ (ts : Tys) (i : Nat), noEnumTys ts = true → noDictFs (mappingPos o i ts) = true
  | .nil, _, _ => rfl
  | .cons t r, i, hn => by
    rcases hm : mappingDT o t with ⟨dt, nb, md⟩
    simp only [noEnumTys, Bool.and_eq_true] at hn
    simp [mappingPos, hm, noDictFs, noDictF, mapping_noDict o hd t _ _ _ hn.1 hm, mappingPos_noDict o hd r (i + 1) hn.2]
theorem mappingFields_noDict (o : TraceOpts) (hd : o.stringDictionaryEncoding = false) :
    ∀ (fs : TFields), noEnumFields fs = true → noDictFs (mappingFields o fs) = true
  | .nil, _ => rfl
  | .cons n s t r, hn => by
    rcases hm : mappingDT o t with ⟨dt, nb, md⟩
    simp only [noEnumFields, Bool.and_eq_true] at hn
    simp [mappingFields, hm, noDictFs, noDictF, mapping_noDict o hd t _ _ _ hn.1 hm, mappingFields_noDict o hd r hn.2]
end

theorem ofList_toList' : ∀ (l : Fields), Fields.ofList l.toList = l
  | .nil => rfl
  | .cons f r => by simp [Fields.toList, Fields.ofList, ofList_toList' r]

/-- **`Safe` for traced schemas without dictionary-encoded strings** -/
theorem safe_of_traced (o : TraceOpts) (hd : o.stringDictionaryEncoding = false) (fs : TFields) (hn : noEnumFields fs = true)
    (fields : List Field) (hfields : fields = (mappingFields o fs).toList) :
    ∀ root0, newRoot fields = .ok root0 → Safe root0 := by
  intro root0 h0
  have hb := Props.C03.newRoot_builtFor fields root0 h0
  have hofl : Fields.ofList fields = mappingFields o fs := by
    rw [hfields]
    exact ofList_toList' _
  exact (safe_of_noDict root0 _ _ hb (by rw [hofl]; simpa [noDictDT] using mappingFields_noDict o hd fs hn)).1

/-! ### every type (enums included) when neither strings nor data-less enums are dictionary encoded -/

mutual
theorem mapping_noDictE (o : TraceOpts) (hd : o.stringDictionaryEncoding = false) (he : o.enumsWithoutDataAsStrings = false) :
    ∀ (t : Ty) (dt : DataType) (nb : Bool) (md : Metadata), mappingDT o t = (dt, nb, md) → noDictDT dt = true
  | .prim p, dt, nb, md, hm => by
    simp only [mappingDT, Prod.mk.injEq] at hm; obtain ⟨rfl, rfl, rfl⟩ := hm; exact noDict_prim o hd p
  | .unit, dt, nb, md, hm | .unitStruct _, dt, nb, md, hm => by
    simp only [mappingDT, Prod.mk.injEq] at hm; obtain ⟨rfl, rfl, rfl⟩ := hm; rfl
  | .option t, dt, nb, md, hm => by
    rcases hm' : mappingDT o t with ⟨dt', nb', md'⟩
    simp only [mappingDT, hm', Prod.mk.injEq] at hm; obtain ⟨rfl, rfl, rfl⟩ := hm
    exact mapping_noDictE o hd he t _ _ _ hm'
  | .newtype _ t, dt, nb, md, hm => by
    simp only [mappingDT] at hm
    exact mapping_noDictE o hd he t _ _ _ hm
  | .vec t, dt, nb, md, hm => by
    rcases hm' : mappingDT o t with ⟨dt', nb', md'⟩
    simp only [mappingDT, hm', Prod.mk.injEq] at hm; obtain ⟨rfl, rfl, rfl⟩ := hm
    have ih := mapping_noDictE o hd he t _ _ _ hm'
    split <;> simpa [noDictDT, noDictF] using ih
  | .tuple ts, dt, nb, md, hm | .tupleStruct _ ts, dt, nb, md, hm => by
    simp only [mappingDT, Prod.mk.injEq] at hm; obtain ⟨rfl, rfl, rfl⟩ := hm
    simpa [noDictDT] using mappingPos_noDictE o hd he ts 0
  | .struct _ fs, dt, nb, md, hm => by
    simp only [mappingDT, Prod.mk.injEq] at hm; obtain ⟨rfl, rfl, rfl⟩ := hm
    simpa [noDictDT] using mappingFields_noDictE o hd he fs
  | .map k v, dt, nb, md, hm => by
    rcases hk : mappingDT o k with ⟨kdt, knb, kmd⟩
    rcases hv : mappingDT o v with ⟨vdt, vnb, vmd⟩
    simp only [mappingDT, hk, hv, Prod.mk.injEq] at hm; obtain ⟨rfl, rfl, rfl⟩ := hm
    simp [noDictDT, noDictF, noDictFs, mapping_noDictE o hd he k _ _ _ hk, mapping_noDictE o hd he v _ _ _ hv]
  | .enum _ vars, dt, nb, md, hm => by
    simp only [mappingDT, he, Bool.and_false, Bool.false_eq_true, if_false, Prod.mk.injEq] at hm
    obtain ⟨rfl, rfl, rfl⟩ := hm
    simpa [noDictDT] using mappingVariants_noDictE o hd he vars 0
theorem mappingPos_noDictE (o : TraceOpts) (hd : o.stringDictionaryEncoding = false) (he : o.enumsWithoutDataAsStrings = false) :
    ∀ (ts : Tys) (i : Nat), noDictFs (mappingPos o i ts) = true
  | .nil, _ => rfl
  | .cons t r, i => by
    rcases hm : mappingDT o t with ⟨dt, nb, md⟩
    simp [mappingPos, hm, noDictFs, noDictF, mapping_noDictE o hd he t _ _ _ hm, mappingPos_noDictE o hd he r (i + 1)]
theorem mappingFields_noDictE (o : TraceOpts) (hd : o.stringDictionaryEncoding = false) (he : o.enumsWithoutDataAsStrings = false) :
    ∀ (fs : TFields), noDictFs (mappingFields o fs) = true
  | .nil => rfl
  | .cons n s t r => by
    rcases hm : mappingDT o t with ⟨dt, nb, md⟩
    simp [mappingFields, hm, noDictFs, noDictF, mapping_noDictE o hd he t _ _ _ hm, mappingFields_noDictE o hd he r]
theorem mappingVariants_noDictE (o : TraceOpts) (hd : o.stringDictionaryEncoding = false) (he : o.enumsWithoutDataAsStrings = false) :
    ∀ (vs : Variants) (i : Nat), noDictUs (mappingVariants o i vs) = true
  | .nil, _ => rfl
  | .cons vn .unit r, i => by
    simp [mappingVariants, noDictUs, noDictF, noDictDT, mappingVariants_noDictE o hd he r (i + 1)]
  | .cons vn (.newtype t) r, i => by
    rcases hm : mappingDT o t with ⟨dt, nb, md⟩
    simp [mappingVariants, hm, noDictUs, noDictF, mapping_noDictE o hd he t _ _ _ hm, mappingVariants_noDictE o hd he r (i + 1)]
  | .cons vn (.tuple ts) r, i => by
    simp [mappingVariants, noDictUs, noDictF, noDictDT, mappingPos_noDictE o hd he ts 0, mappingVariants_noDictE o hd he r (i + 1)]
  | .cons vn (.struct fs) r, i => by
    simp [mappingVariants, noDictUs, noDictF, noDictDT, mappingFields_noDictE o hd he fs, mappingVariants_noDictE o hd he r (i + 1)]
end

/-- **`Safe` for every traced schema (enums included) without dictionary encoding** -/
theorem safe_of_tracedE (o : TraceOpts) (hd : o.stringDictionaryEncoding = false) (he : o.enumsWithoutDataAsStrings = false)
    (fs : TFields) (fields : List Field) (hfields : fields = (mappingFields o fs).toList) :
    ∀ root0, newRoot fields = .ok root0 → Safe root0 := by
  intro root0 h0
  have hb := Props.C03.newRoot_builtFor fields root0 h0
  have hofl : Fields.ofList fields = mappingFields o fs := by
    rw [hfields]
    exact ofList_toList' _
  exact (safe_of_noDict root0 _ _ hb (by rw [hofl]; simpa [noDictDT] using mappingFields_noDictE o hd he fs)).1

/-! ### the decidable condition `safeDT` (Lemmas/C04SafeDT.lean) holds for every schema without Dictionary types -/

mutual
theorem safeDT_of_noDict : ∀ (dt : DataType) (n : Bool) (md : Metadata), noDictDT dt = true →
    safeDT dt n = true ∧ defSafeDT dt n md = true
  | .list f, n, md, h | .largeList f, n, md, h => by
    simp only [noDictDT] at h
    simp [safeDT, defSafeDT, (safeF_of_noDict f h).1]
  | .fixedSizeList f _, n, md, h => by
    simp only [noDictDT] at h
    simp [safeDT, defSafeDT, (safeF_of_noDict f h).1, (safeF_of_noDict f h).2]
  | .map f s, n, md, h => by
    simp only [noDictDT] at h
    exact ⟨safeDT_map f s n (safeF_of_noDict f h).1, by simp [defSafeDT]⟩
  | .struct fs, n, md, h => by
    simp only [noDictDT] at h
    simp [safeDT, defSafeDT, (safeFs_of_noDict fs h).1, (safeFs_of_noDict fs h).2]
  | .union ufs _, n, md, h => by
    simp only [noDictDT] at h
    simp [safeDT, defSafeDT, (safeUs_of_noDict ufs h).1, (safeUs_of_noDict ufs h).2]
  | .dictionary _ _, _, _, h => by simp [noDictDT] at h
  | .runEndEncoded _ _, _, _, h => by simp [noDictDT] at h
  | .null, _, _, _ | .boolean, _, _, _ | .int8, _, _, _ | .int16, _, _, _ | .int32, _, _, _ | .int64, _, _, _
  | .uint8, _, _, _ | .uint16, _, _, _ | .uint32, _, _, _ | .uint64, _, _, _
  | .float16, _, _, _ | .float32, _, _, _ | .float64, _, _, _
  | .utf8, _, _, _ | .largeUtf8, _, _, _ | .utf8View, _, _, _ | .binary, _, _, _ | .largeBinary, _, _, _
  | .binaryView, _, _, _ | .fixedSizeBinary _, _, _, _ | .date32, _, _, _ | .date64, _, _, _
  | .timestamp _ _, _, _, _ | .time32 _, _, _, _ | .time64 _, _, _, _ | .duration _, _, _, _
  | .interval _, _, _, _ | .decimal128 _ _, _, _, _ => by simp [safeDT, defSafeDT]
theorem safeF_of_noDict : ∀ (f : Field), noDictF f = true → safeF f = true ∧ defSafeF f = true
  | .mk _ dt n md, h => by
    simp only [noDictF] at h
    simpa [safeF, defSafeF] using safeDT_of_noDict dt n md h
theorem safeFs_of_noDict : ∀ (fs : Fields), noDictFs fs = true → safeFs fs = true ∧ defSafeFs fs = true
  | .nil, _ => by simp [safeFs, defSafeFs]
  | .cons f r, h => by
    simp only [noDictFs, Bool.and_eq_true] at h
    simp [safeFs, defSafeFs, safeF_of_noDict f h.1, safeFs_of_noDict r h.2]
theorem safeUs_of_noDict : ∀ (ufs : UFields), noDictUs ufs = true → safeUs ufs = true ∧ defSafeFirstU ufs = true
  | .nil, _ => by simp [safeUs, defSafeFirstU]
  | .cons _ f r, h => by
    simp only [noDictUs, Bool.and_eq_true] at h
    have h1 := safeF_of_noDict f h.1
    have h2 := safeUs_of_noDict r h.2
    simp only [safeUs, defSafeFirstU, h1.1, h1.2, h2.1, h2.2]
    simp
end

/-- **`Safe` for a traced schema from the decidable condition `safeFs`** (any option set; with dictionary-encoded strings
or enums the condition says: no non-nullable dictionary receives `serialize_default`) -/
theorem safe_of_traced_schema (o : TraceOpts) (fs : TFields) (hc : coveredFs (mappingFields o fs) = true)
    (hs : safeFs (mappingFields o fs) = true) (fields : List Field) (hfields : fields = (mappingFields o fs).toList) :
    ∀ root0, newRoot fields = .ok root0 → Safe root0 := by
  have hofl : Fields.ofList fields = mappingFields o fs := by
    rw [hfields]
    exact ofList_toList' _
  exact safe_of_schema fields (by rw [← coveredFs_ofList, hofl]; exact hc) (by rw [hofl]; exact hs)

/-- … the coverage side condition is `mappingFields_side` (every type, enums included) -/
theorem safe_of_traced_safeFs (o : TraceOpts) (fs : TFields)
    (hs : safeFs (mappingFields o fs) = true) (fields : List Field) (hfields : fields = (mappingFields o fs).toList) :
    ∀ root0, newRoot fields = .ok root0 → Safe root0 :=
  safe_of_traced_schema o fs (mappingFields_side o fs).2 hs fields hfields

end SaModel.Roundtrip
