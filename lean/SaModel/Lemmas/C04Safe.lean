import SaModel.Lemmas.C04Schema
import SaModel.Props.C03
/-
C04: C01's `Safe` hypothesis holds for every schema without Dictionary / Union types — in particular for every traced
schema of an enum-free type when `string_dictionary_encoding` is off.

  safe_of_noDict : BuiltFor dt nl b → noDictDT dt → Safe b ∧ DefSafe b
  mapping_noDict : o.stringDictionaryEncoding = false → noEnum t → mappingDT o t = (dt, nb, md) → noDictDT dt
-/
namespace SaModel.Roundtrip
open SaModel SaModel.Spec SaModel.Build SaModel.Lemmas.C03

mutual
def noDictDT : DataType → Bool
  | .dictionary _ _ | .union _ _ | .runEndEncoded _ _ => false
  | .list f | .largeList f | .fixedSizeList f _ | .map f _ => noDictF f
  | .struct fs => noDictFs fs
  | _ => true
def noDictF : Field → Bool
  | .mk _ dt _ _ => noDictDT dt
def noDictFs : Fields → Bool
  | .nil => true
  | .cons f r => noDictF f && noDictFs r
end

theorem noDictF_dt (f : Field) : noDictF f = noDictDT f.dataType := by cases f; simp [noDictF, Field.dataType]

mutual
theorem safe_of_noDict : ∀ (b : B) (dt : DataType) (nl : Bool), BuiltFor dt nl b → noDictDT dt = true → Safe b ∧ DefSafe b
  | .null _ _, _, _, _, _ | .unknownVariant _, _, _, _, _ | .leaf _ _ _ _, _, _, _, _ | .bytes _ _ _ _ _, _, _, _, _
  | .bytesView _ _ _ _ _, _, _, _, _ | .fixedSizeBinary _ _ _ _ _ _, _, _, _, _ => by simp [Safe, DefSafe]
  | .list _ large fm v _ el, dt, nl, hb, hn => by
    simp only [BuiltFor] at hb
    obtain ⟨f, rfl, _, _, hel⟩ := hb
    have hnf : noDictDT f.dataType = true := by
      rw [← noDictF_dt]; cases large <;> simpa [noDictDT] using hn
    have ih := safe_of_noDict el _ _ hel hnf
    simp [Safe, DefSafe, ih.1]
  | .fixedSizeList _ fm n _ v _ el, dt, nl, hb, hn => by
    simp only [BuiltFor] at hb
    obtain ⟨f, rfl, _, _, hel⟩ := hb
    have hnf : noDictDT f.dataType = true := by rw [← noDictF_dt]; simpa [noDictDT] using hn
    have ih := safe_of_noDict el _ _ hel hnf
    simp [Safe, DefSafe, ih.1, ih.2]
  | .map _ mm v _ ks vs, dt, nl, hb, hn => by
    simp only [BuiltFor] at hb
    obtain ⟨ename, kf, vf, sorted, enl, emd, rfl, _, _, hk, hv⟩ := hb
    simp only [noDictDT, noDictF, noDictFs, Bool.and_eq_true, Bool.and_true] at hn
    have ihk := safe_of_noDict ks _ _ hk (by rw [← noDictF_dt]; exact hn.1)
    have ihv := safe_of_noDict vs _ _ hv (by rw [← noDictF_dt]; exact hn.2)
    simp [Safe, DefSafe, ihk.1, ihv.1]
  | .struct _ _ v fs _ _ _, dt, nl, hb, hn => by
    simp only [BuiltFor] at hb
    obtain ⟨fields, rfl, _, hl⟩ := hb
    have ih := safeL_of_noDict fs fields hl (by simpa [noDictDT] using hn)
    simp [Safe, DefSafe, ih.1, ih.2]
  | .dictionary _ idx vals _, dt, nl, hb, hn => by
    simp only [BuiltFor] at hb
    obtain ⟨k, vdt, rfl, _, _⟩ := hb
    simp [noDictDT] at hn
  | .union _ fs _ _ _, dt, nl, hb, hn => by
    simp only [BuiltFor] at hb
    obtain ⟨ufs, mode, rfl, _⟩ := hb
    simp [noDictDT] at hn
theorem safeL_of_noDict : ∀ (bl : BL) (fs : Fields), BuiltForL fs bl → noDictFs fs = true → SafeL bl ∧ DefSafeL bl
  | .nil, _, _, _ => by simp [SafeL, DefSafeL]
  | .cons b m r, .nil, hb, _ => by simp [BuiltForL] at hb
  | .cons b m r, .cons f fr, hb, hn => by
    simp only [BuiltForL] at hb
    simp only [noDictFs, Bool.and_eq_true] at hn
    have ih1 := safe_of_noDict b _ _ hb.2.1 (by rw [← noDictF_dt]; exact hn.1)
    have ih2 := safeL_of_noDict r fr hb.2.2 hn.2
    simp [SafeL, DefSafeL, ih1.1, ih1.2, ih2.1, ih2.2]
end

theorem noDict_prim (o : TraceOpts) (hd : o.stringDictionaryEncoding = false) (p : Prim) : noDictDT (primDT o p) = true := by
  cases p with
  | int t => cases t <;> rfl
  | str => simp only [primDT, hd, strDT, Bool.false_eq_true, if_false]; split <;> rfl
  | _ => rfl

mutual
theorem mapping_noDict (o : TraceOpts) (hd : o.stringDictionaryEncoding = false) :
    ∀ (t : Ty) (dt : DataType) (nb : Bool) (md : Metadata), noEnum t = true → mappingDT o t = (dt, nb, md) → noDictDT dt = true
  | .prim p, dt, nb, md, _, hm => by
    simp only [mappingDT, Prod.mk.injEq] at hm; obtain ⟨rfl, rfl, rfl⟩ := hm; exact noDict_prim o hd p
  | .unit, dt, nb, md, _, hm | .unitStruct _, dt, nb, md, _, hm => by
    simp only [mappingDT, Prod.mk.injEq] at hm; obtain ⟨rfl, rfl, rfl⟩ := hm; rfl
  | .option t, dt, nb, md, hn, hm => by
    rcases hm' : mappingDT o t with ⟨dt', nb', md'⟩
    simp only [mappingDT, hm', Prod.mk.injEq] at hm; obtain ⟨rfl, rfl, rfl⟩ := hm
    exact mapping_noDict o hd t _ _ _ (by simpa [noEnum] using hn) hm'
  | .newtype _ t, dt, nb, md, hn, hm => by
    simp only [mappingDT] at hm
    exact mapping_noDict o hd t _ _ _ (by simpa [noEnum] using hn) hm
  | .vec t, dt, nb, md, hn, hm => by
    rcases hm' : mappingDT o t with ⟨dt', nb', md'⟩
    simp only [mappingDT, hm', Prod.mk.injEq] at hm; obtain ⟨rfl, rfl, rfl⟩ := hm
    have ih := mapping_noDict o hd t _ _ _ (by simpa [noEnum] using hn) hm'
    split <;> simpa [noDictDT, noDictF] using ih
  | .tuple ts, dt, nb, md, hn, hm | .tupleStruct _ ts, dt, nb, md, hn, hm => by
    simp only [mappingDT, Prod.mk.injEq] at hm; obtain ⟨rfl, rfl, rfl⟩ := hm
    simpa [noDictDT] using mappingPos_noDict o hd ts 0 (by simpa [noEnum] using hn)
  | .struct _ fs, dt, nb, md, hn, hm => by
    simp only [mappingDT, Prod.mk.injEq] at hm; obtain ⟨rfl, rfl, rfl⟩ := hm
    simpa [noDictDT] using mappingFields_noDict o hd fs (by simpa [noEnum] using hn)
  | .map k v, dt, nb, md, hn, hm => by
    rcases hk : mappingDT o k with ⟨kdt, knb, kmd⟩
    rcases hv : mappingDT o v with ⟨vdt, vnb, vmd⟩
    simp only [mappingDT, hk, hv, Prod.mk.injEq] at hm; obtain ⟨rfl, rfl, rfl⟩ := hm
    simp only [noEnum, Bool.and_eq_true] at hn
    simp [noDictDT, noDictF, noDictFs, mapping_noDict o hd k _ _ _ hn.1 hk, mapping_noDict o hd v _ _ _ hn.2 hv]
  | .enum _ _, _, _, _, hn, _ => by simp [noEnum] at hn
theorem mappingPos_noDict (o : TraceOpts) (hd : o.stringDictionaryEncoding = false) :
    ∀ (ts : Tys) (i : Nat), noEnumTys ts = true → noDictFs (mappingPos o i ts) = true
  | .nil, _, _ => rfl
  | .cons t r, i, hn => by
    rcases hm : mappingDT o t with ⟨dt, nb, md⟩
    simp only [noEnumTys, Bool.and_eq_true] at hn
    simp [mappingPos, hm, noDictFs, noDictF, mapping_noDict o hd t _ _ _ hn.1 hm, mappingPos_noDict o hd r (i + 1) hn.2]
theorem mappingFields_noDict (o : TraceOpts) (hd : o.stringDictionaryEncoding = false) :
    ∀ (fs : TFields), noEnumFields fs = true → noDictFs (mappingFields o fs) = true
  | .nil, _ => rfl
  | .cons n s t r, hn => by
    rcases hm : mappingDT o t with ⟨dt, nb, md⟩
    simp only [noEnumFields, Bool.and_eq_true] at hn
    simp [mappingFields, hm, noDictFs, noDictF, mapping_noDict o hd t _ _ _ hn.1 hm, mappingFields_noDict o hd r hn.2]
end

theorem ofList_toList' : ∀ (l : Fields), Fields.ofList l.toList = l
  | .nil => rfl
  | .cons f r => by simp [Fields.toList, Fields.ofList, ofList_toList' r]

/-- **`Safe` for traced schemas without dictionary-encoded strings** -/
theorem safe_of_traced (o : TraceOpts) (hd : o.stringDictionaryEncoding = false) (fs : TFields) (hn : noEnumFields fs = true)
    (fields : List Field) (hfields : fields = (mappingFields o fs).toList) :
    ∀ root0, newRoot fields = .ok root0 → Safe root0 := by
  intro root0 h0
  have hb := Props.C03.newRoot_builtFor fields root0 h0
  have hofl : Fields.ofList fields = mappingFields o fs := by
    rw [hfields]
    exact ofList_toList' _
  exact (safe_of_noDict root0 _ _ hb (by rw [hofl]; simpa [noDictDT] using mappingFields_noDict o hd fs hn)).1

end SaModel.Roundtrip
