import SaModel.Lemmas.C01NewShape
import SaModel.Lemmas.C01CompDefs
import SaModel.Lemmas.C01CompLeaf
/-
C01's `Safe` (hypothesis of the `Safe`-carrying C01 / C03 theorems; of no C04 theorem, which go through the hidden-rows
refinement of Props/C01Obs.lean) as a DECIDABLE property of the schema.

  safeDT dt n        — `Safe` of the builder `build_builder` creates for a field ⟨dt, n, _⟩
  defSafeDT dt n md  — `DefSafe` of that builder
  safe_iff_shape     : Shape b dt n md → (Safe b ↔ safeDT dt n = true) ∧ (DefSafe b ↔ defSafeDT dt n md = true)
  safe_of_schema     : fields.all coveredF → safeFs (ofList fields) → newRoot fields = ok root0 → Safe root0
  safe_schema_iff    : fields.all coveredF → newRoot fields = ok root0 → (Safe root0 ↔ safeFs (ofList fields) = true)

`Safe` fails exactly for a dictionary with non-nullable keys that receives `serialize_default`: below a nullable
struct / fixed-size list (directly, through non-nullable structs / fixed-size lists, or as the first non-placeholder
variant of a union).
-/
namespace SaModel.Build
open SaModel SaModel.Spec

mutual
/-- `DefSafe` of the builder of a field ⟨dt, nullable, md⟩ -/
def defSafeDT : DataType → Bool → Metadata → Bool
  | .dictionary _ _, n, _ => n
  | .struct fs, _, _ => defSafeFs fs
  | .fixedSizeList f _, _, _ => defSafeF f
  | .union ufs _, _, _ => defSafeFirstU ufs
  | _, _, _ => true
def defSafeF : Field → Bool
  | .mk _ dt n md => defSafeDT dt n md
def defSafeFs : Fields → Bool
  | .nil => true
  | .cons f r => defSafeF f && defSafeFs r
/-- the variant `UnionBuilder::serialize_default` delegates to: the first that is not a placeholder -/
def defSafeFirstU : UFields → Bool
  | .nil => true
  | .cons _ f r => if isPlaceholderF f then defSafeFirstU r else defSafeF f
end

mutual
/-- `Safe` of the builder of a field ⟨dt, nullable, _⟩ -/
def safeDT : DataType → Bool → Bool
  | .list f, _ => safeF f
  | .largeList f, _ => safeF f
  | .fixedSizeList f _, n => safeF f && (!n || defSafeF f)
  | .map (.mk _ (.struct (.cons kf (.cons vf _))) _ _) _, _ => safeF kf && safeF vf
  | .struct fs, n => safeFs fs && (!n || defSafeFs fs)
  | .union ufs _, _ => safeUs ufs
  | .dictionary _ v, _ => safeDT v false     -- the value builder is the builder of the non-nullable value field
  | _, _ => true
def safeF : Field → Bool
  | .mk _ dt n _ => safeDT dt n
def safeFs : Fields → Bool
  | .nil => true
  | .cons f r => safeF f && safeFs r
def safeUs : UFields → Bool
  | .nil => true
  | .cons _ f r => safeF f && safeUs r
end

/-- the entries struct of a map: `Safe` of the map builder only looks at the key and value children -/
theorem safeDT_map (f : Field) (s n : Bool) (h : safeF f = true) : safeDT (.map f s) n = true := by
  unfold safeDT
  split <;> first | rfl | skip
  all_goals simp_all [safeF, safeDT, safeFs]

theorem safe_of_intLeaf (b : B) (h : b.isIntLeaf = true) : b.isDict = false ∧ Safe b ∧ DefSafe b := by
  cases b <;> simp [B.isIntLeaf] at h <;> simp [B.isDict, Safe, DefSafe]

theorem safe_of_utf8B (b : B) (h : b.isUtf8B = true) : Safe b := by
  cases b <;> simp [B.isUtf8B] at h <;> simp [Safe]

mutual
/-- **`Safe` / `DefSafe` of a builder are the schema-level conditions `safeDT` / `defSafeDT` of its field** -/
theorem safe_iff_shape : ∀ (b : B) (dt : DataType) (n : Bool) (md : Metadata), Shape b dt n md →
    (Safe b ↔ safeDT dt n = true) ∧ (DefSafe b ↔ defSafeDT dt n md = true)
  | .null _ _, dt, n, md, h => by
    simp only [Shape] at h; obtain ⟨rfl, _⟩ := h; simp [Safe, DefSafe, safeDT, defSafeDT]
  | .unknownVariant _, dt, n, md, h => by
    simp only [Shape] at h; obtain ⟨rfl, _⟩ := h; simp [Safe, DefSafe, safeDT, defSafeDT]
  | .leaf _ k v _, dt, n, md, h => by
    simp only [Shape] at h
    cases dt <;> simp [kindOf] at h <;> simp [Safe, DefSafe, safeDT, defSafeDT]
  | .bytes _ ty _ _ _, dt, n, md, h => by
    simp only [Shape] at h; obtain ⟨rfl, _⟩ := h
    cases ty <;> simp [Safe, DefSafe, safeDT, defSafeDT, bytesDT]
  | .bytesView _ ty _ _ _, dt, n, md, h => by
    simp only [Shape] at h; obtain ⟨rfl, _⟩ := h
    cases ty <;> simp [Safe, DefSafe, safeDT, defSafeDT, viewDT]
  | .fixedSizeBinary _ _ _ _ _ _, dt, n, md, h => by
    simp only [Shape] at h; obtain ⟨rfl, _⟩ := h; simp [Safe, DefSafe, safeDT, defSafeDT]
  | .list _ large _ v _ el, dt, n, md, h => by
    simp only [Shape] at h
    obtain ⟨_, cname, cdt, cn, cmd, rfl, hel⟩ := h
    have ih := safe_iff_shape el cdt cn cmd hel
    cases large <;> simp [Safe, DefSafe, safeDT, defSafeDT, safeF, ih.1]
  | .fixedSizeList _ _ k _ v _ el, dt, n, md, h => by
    simp only [Shape] at h
    obtain ⟨hv, cname, cdt, cn, cmd, rfl, hel⟩ := h
    have ih := safe_iff_shape el cdt cn cmd hel
    simp only [Safe, DefSafe, safeDT, defSafeDT, safeF, defSafeF, hv, ih.1, ih.2]
    cases n <;> simp
  | .map _ _ v _ ks vs, dt, n, md, h => by
    simp only [Shape] at h
    obtain ⟨_, ename, kn, kdt, knl, kmd, vn, vdt, vnl, vmd, rest, en, emd, sorted, rfl, hk, hv⟩ := h
    have ihk := safe_iff_shape ks kdt knl kmd hk
    have ihv := safe_iff_shape vs vdt vnl vmd hv
    simp [Safe, DefSafe, safeDT, defSafeDT, safeF, ihk.1, ihv.1]
  | .struct _ _ v fs _ _ _, dt, n, md, h => by
    simp only [Shape] at h
    obtain ⟨hv, sfs, rfl, hl⟩ := h
    have ih := safeL_iff_shape fs sfs hl
    simp only [Safe, DefSafe, safeDT, defSafeDT, hv, ih.1, ih.2]
    cases n <;> simp
  | .dictionary _ idx vals _, dt, n, md, h => by
    simp only [Shape] at h
    obtain ⟨⟨kdt, vdt, rfl, hsv⟩, hi, hn, hu⟩ := h
    have h1 := safe_of_intLeaf idx hi
    have h2 := (safe_iff_shape vals vdt false [] hsv).1
    simp [Safe, DefSafe, safeDT, defSafeDT, h1.1, h1.2.1, h1.2.2, h2, hn]
  | .union _ fs _ _ _, dt, n, md, h => by
    simp only [Shape] at h
    obtain ⟨ufs, mode, rfl, hu⟩ := h
    have ih := safeU_iff_shape fs ufs 0 hu
    simp only [Safe, DefSafe, safeDT, defSafeDT]
    exact ih
theorem safeL_iff_shape : ∀ (bl : BL) (fs : Fields), ShapeL bl fs →
    (SafeL bl ↔ safeFs fs = true) ∧ (DefSafeL bl ↔ defSafeFs fs = true)
  | .nil, .nil, _ => by simp [SafeL, DefSafeL, safeFs, defSafeFs]
  | .cons b m r, .cons (.mk fname fdt fn fmd) rest, h => by
    simp only [ShapeL] at h
    have ih1 := safe_iff_shape b fdt fn fmd h.2.2.1
    have ih2 := safeL_iff_shape r rest h.2.2.2
    simp [SafeL, DefSafeL, safeFs, defSafeFs, safeF, defSafeF, ih1.1, ih1.2, ih2.1, ih2.2]
  | .nil, .cons _ _, h => by simp [ShapeL] at h
  | .cons _ _ _, .nil, h => by simp [ShapeL] at h
theorem safeU_iff_shape : ∀ (bl : BL) (ufs : UFields) (k : Nat), ShapeU bl ufs k →
    (SafeL bl ↔ safeUs ufs = true) ∧ (DefSafeFirst bl ↔ defSafeFirstU ufs = true)
  | .nil, .nil, _, _ => by simp [SafeL, DefSafeFirst, safeUs, defSafeFirstU]
  | .cons b m r, .cons tid (.mk fname fdt fn fmd) rest, k, h => by
    simp only [ShapeU] at h
    have ih1 := safe_iff_shape b fdt fn fmd h.2.1
    have ih2 := safeU_iff_shape r rest (k + 1) h.2.2
    have hp := Shape_placeholder h.2.1
    refine ⟨by simp [SafeL, safeUs, safeF, ih1.1, ih2.1], ?_⟩
    simp only [DefSafeFirst, defSafeFirstU, isPlaceholderF, defSafeF, ← hp, ih1.2, ih2.2]
    cases b.isPlaceholder <;> simp
  | .nil, .cons _ _ _, _, h => by simp [ShapeU] at h
  | .cons _ _ _, .nil, _, h => by simp [ShapeU] at h
end

/-- the direction the C01 / C03 / C04 theorems use -/
theorem safe_of_shape (b : B) (dt : DataType) (n : Bool) (md : Metadata) (h : Shape b dt n md) :
    (safeDT dt n = true → Safe b) ∧ (defSafeDT dt n md = true → DefSafe b) :=
  ⟨(safe_iff_shape b dt n md h).1.2, (safe_iff_shape b dt n md h).2.2⟩

theorem safeL_of_shape (bl : BL) (fs : Fields) (h : ShapeL bl fs) :
    (safeFs fs = true → SafeL bl) ∧ (defSafeFs fs = true → DefSafeL bl) :=
  ⟨(safeL_iff_shape bl fs h).1.2, (safeL_iff_shape bl fs h).2.2⟩

theorem safeU_of_shape (bl : BL) (ufs : UFields) (k : Nat) (h : ShapeU bl ufs k) :
    (safeUs ufs = true → SafeL bl) ∧ (defSafeFirstU ufs = true → DefSafeFirst bl) :=
  ⟨(safeU_iff_shape bl ufs k h).1.2, (safeU_iff_shape bl ufs k h).2.2⟩

/-- **`Safe` of the root builder is the decidable condition `safeFs` of the schema** (exact) -/
theorem safe_schema_iff (fields : List Field) (hc : fields.all coveredF = true) :
    ∀ root0, newRoot fields = .ok root0 → (Safe root0 ↔ safeFs (Fields.ofList fields) = true) := by
  intro root0 h0
  have hs := newRoot_shape hc h0
  have := (safe_iff_shape root0 _ _ _ hs).1
  simpa [safeDT] using this

/-- **`Safe` derived from the schema** -/
theorem safe_of_schema (fields : List Field) (hc : fields.all coveredF = true)
    (hs : safeFs (Fields.ofList fields) = true) : ∀ root0, newRoot fields = .ok root0 → Safe root0 :=
  fun root0 h0 => (safe_schema_iff fields hc root0 h0).2 hs

/-! ### the condition is neither vacuous nor trivial -/

/-- dictionaries at the top level of the root struct (which is not nullable) are fine, nullable or not -/
example : safeFs (Fields.ofList
    [.mk "s" (.dictionary .uint32 .largeUtf8) false [], .mk "t" (.dictionary .uint32 .largeUtf8) true []]) = true := by
  decide

/-- `Option<struct { s: String }>` with `string_dictionary_encoding`: the non-nullable dictionary below a nullable struct -/
example : safeFs (Fields.ofList
    [.mk "o" (.struct (.cons (.mk "s" (.dictionary .uint32 .largeUtf8) false []) .nil)) true []]) = false := by
  decide

/-- … and it is fine again when the dictionary itself is nullable -/
example : safeFs (Fields.ofList
    [.mk "o" (.struct (.cons (.mk "s" (.dictionary .uint32 .largeUtf8) true []) .nil)) true []]) = true := by
  decide

end SaModel.Build
