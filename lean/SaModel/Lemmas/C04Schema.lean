import SaModel.Lemmas.C04Trace
import SaModel.Lemmas.C04Interp
import SaModel.Props.C01
/-
C04: the side conditions of C01 / C03 hold for traced schemas and derived serializations.

Schema side (EVERY type of the grammar, enums included, every option set): the documented mapping never produces a
FixedSizeBinary or a dictionary other than Dictionary(UInt32, Utf8 | LargeUtf8); an enum is either that dictionary or a
dense Union of such children:
  mapping_side : mappingDT o t = (dt, nb, md) → SchemaOK dt ∧ covered dt
  mappingVariants_side : SchemaOKU (mappingVariants o i vars) ∧ coveredU (mappingVariants o i vars)
Value side: a derived `Serialize` issues no raw key / value streams and scalars of their own width:
  ser_noRaw, ser_SValOK.
-/
namespace SaModel.Roundtrip
open SaModel SaModel.Spec SaModel.Build SaModel.Lemmas.C03

def Side (dt : DataType) : Prop := SchemaOK dt ∧ covered dt = true
def SideFs (fs : Fields) : Prop := SchemaOKFs fs ∧ coveredFs fs = true

theorem side_prim (o : TraceOpts) (p : Prim) : Side (primDT o p) := by
  cases p with
  | int t => cases t <;> simp [Side, primDT, intDT, SchemaOK, covered]
  | str | strRef | cowStr =>
    simp only [Side, primDT, strDT]
    split <;> split <;> simp [SchemaOK, covered, Build.isIntDT, isStrDT]
  | _ => simp [Side, primDT, SchemaOK, covered]

theorem side_strDT (o : TraceOpts) : Side (.dictionary .uint32 (strDT o)) := by
  simp only [Side, strDT]
  split <;> simp [SchemaOK, covered, Build.isIntDT, isStrDT]

def SideU (ufs : UFields) : Prop := SchemaOKU ufs ∧ coveredU ufs = true

mutual
theorem mapping_side (o : TraceOpts) : ∀ (t : Ty) (dt : DataType) (nb : Bool) (md : Metadata),
    mappingDT o t = (dt, nb, md) → Side dt
  | .prim p, dt, nb, md, hm => by
    simp only [mappingDT, Prod.mk.injEq] at hm; obtain ⟨rfl, rfl, rfl⟩ := hm; exact side_prim o p
  | .unit, dt, nb, md, hm => by
    simp only [mappingDT, Prod.mk.injEq] at hm; obtain ⟨rfl, rfl, rfl⟩ := hm; simp [Side, SchemaOK, covered]
  | .unitStruct _, dt, nb, md, hm => by
    simp only [mappingDT, Prod.mk.injEq] at hm; obtain ⟨rfl, rfl, rfl⟩ := hm; simp [Side, SchemaOK, covered]
  | .option t, dt, nb, md, hm => by
    rcases hm' : mappingDT o t with ⟨dt', nb', md'⟩
    simp only [mappingDT, hm', Prod.mk.injEq] at hm; obtain ⟨rfl, rfl, rfl⟩ := hm
    exact mapping_side o t _ _ _ hm'
  | .newtype _ t, dt, nb, md, hm => by
    simp only [mappingDT] at hm
    exact mapping_side o t _ _ _ hm
  | .vec t, dt, nb, md, hm => by
    rcases hm' : mappingDT o t with ⟨dt', nb', md'⟩
    simp only [mappingDT, hm', Prod.mk.injEq] at hm; obtain ⟨rfl, rfl, rfl⟩ := hm
    have ih := mapping_side o t _ _ _ hm'
    unfold Side at ih ⊢
    split <;> simpa [SchemaOK, SchemaOKF, covered, coveredF] using ih
  | .tuple ts, dt, nb, md, hm => by
    simp only [mappingDT, Prod.mk.injEq] at hm; obtain ⟨rfl, rfl, rfl⟩ := hm
    have ih := mappingPos_side o ts 0
    unfold SideFs at ih; simpa [Side, SchemaOK, covered] using ih
  | .tupleStruct _ ts, dt, nb, md, hm => by
    simp only [mappingDT, Prod.mk.injEq] at hm; obtain ⟨rfl, rfl, rfl⟩ := hm
    have ih := mappingPos_side o ts 0
    unfold SideFs at ih; simpa [Side, SchemaOK, covered] using ih
  | .struct _ fs, dt, nb, md, hm => by
    simp only [mappingDT, Prod.mk.injEq] at hm; obtain ⟨rfl, rfl, rfl⟩ := hm
    have ih := mappingFields_side o fs
    unfold SideFs at ih; simpa [Side, SchemaOK, covered] using ih
  | .map k v, dt, nb, md, hm => by
    rcases hk : mappingDT o k with ⟨kdt, knb, kmd⟩
    rcases hv : mappingDT o v with ⟨vdt, vnb, vmd⟩
    simp only [mappingDT, hk, hv, Prod.mk.injEq] at hm; obtain ⟨rfl, rfl, rfl⟩ := hm
    have ihk := mapping_side o k _ _ _ hk
    have ihv := mapping_side o v _ _ _ hv
    unfold Side at ihk ihv ⊢
    simp [SchemaOK, SchemaOKF, SchemaOKFs, covered, coveredF, coveredFs, ihk, ihv]
  | .enum _ vars, dt, nb, md, hm => by
    simp only [mappingDT] at hm
    split at hm
    · simp only [Prod.mk.injEq] at hm; obtain ⟨rfl, rfl, rfl⟩ := hm; exact side_strDT o
    · simp only [Prod.mk.injEq] at hm; obtain ⟨rfl, rfl, rfl⟩ := hm
      have ih := mappingVariants_side o vars 0
      unfold SideU at ih; simpa [Side, SchemaOK, covered] using ih
theorem mappingPos_side (o : TraceOpts) : ∀ (ts : Tys) (i : Nat), SideFs (mappingPos o i ts)
  | .nil, _ => by simp [SideFs, mappingPos, SchemaOKFs, coveredFs]
  | .cons t r, i => by
    rcases hm : mappingDT o t with ⟨dt, nb, md⟩
    have ih1 := mapping_side o t _ _ _ hm
    have ih2 := mappingPos_side o r (i + 1)
    unfold Side at ih1; unfold SideFs at ih2 ⊢
    simp [mappingPos, hm, SchemaOKFs, SchemaOKF, coveredFs, coveredF, ih1, ih2]
theorem mappingFields_side (o : TraceOpts) : ∀ (fs : TFields), SideFs (mappingFields o fs)
  | .nil => by simp [SideFs, mappingFields, SchemaOKFs, coveredFs]
  | .cons n s t r => by
    rcases hm : mappingDT o t with ⟨dt, nb, md⟩
    have ih1 := mapping_side o t _ _ _ hm
    have ih2 := mappingFields_side o r
    unfold Side at ih1; unfold SideFs at ih2 ⊢
    simp [mappingFields, hm, SchemaOKFs, SchemaOKF, coveredFs, coveredF, ih1, ih2]
/-- the children of the dense Union an enum is traced to (type ids from `i`) -/
theorem mappingVariants_side (o : TraceOpts) : ∀ (vars : Variants) (i : Nat), SideU (mappingVariants o i vars)
  | .nil, _ => by simp [SideU, mappingVariants, SchemaOKU, coveredU]
  | .cons vn .unit r, i => by
    have ih2 := mappingVariants_side o r (i + 1)
    unfold SideU at ih2 ⊢
    simp [mappingVariants, SchemaOKU, SchemaOKF, SchemaOK, coveredU, coveredF, covered, ih2]
  | .cons vn (.newtype t) r, i => by
    rcases hm : mappingDT o t with ⟨dt, nb, md⟩
    have ih1 := mapping_side o t _ _ _ hm
    have ih2 := mappingVariants_side o r (i + 1)
    unfold Side at ih1; unfold SideU at ih2 ⊢
    simp [mappingVariants, hm, SchemaOKU, SchemaOKF, coveredU, coveredF, ih1, ih2]
  | .cons vn (.tuple ts) r, i => by
    have ih1 := mappingPos_side o ts 0
    have ih2 := mappingVariants_side o r (i + 1)
    unfold SideFs at ih1; unfold SideU at ih2 ⊢
    simp [mappingVariants, SchemaOKU, SchemaOKF, SchemaOK, coveredU, coveredF, covered, ih1, ih2]
  | .cons vn (.struct fs) r, i => by
    have ih1 := mappingFields_side o fs
    have ih2 := mappingVariants_side o r (i + 1)
    unfold SideFs at ih1; unfold SideU at ih2 ⊢
    simp [mappingVariants, SchemaOKU, SchemaOKF, SchemaOK, coveredU, coveredF, covered, ih1, ih2]
end

/-- every field of a schema satisfies the two schema side conditions of C01 / C03 -/
theorem sideFs_toList : ∀ (fs : Fields), SideFs fs → ∀ f ∈ fs.toList, SchemaOKF f ∧ coveredF f = true
  | .nil, _, f, hf => by simp [Fields.toList] at hf
  | .cons g r, h, f, hf => by
    unfold SideFs at h
    simp only [SchemaOKFs, coveredFs, Bool.and_eq_true] at h
    simp only [Fields.toList, List.mem_cons] at hf
    rcases hf with rfl | hf
    · exact ⟨h.1.1, h.2.1⟩
    · exact sideFs_toList r ⟨h.1.2, h.2.2⟩ f hf

mutual
theorem frag_noEnum : ∀ (t : Ty), frag t = true → noEnum t = true
  | .prim _, _ | .unit, _ | .unitStruct _, _ => by simp [noEnum]
  | .option t, h | .newtype _ t, h | .vec t, h => by
    simp only [frag] at h; simpa [noEnum] using frag_noEnum t h
  | .map k v, h => by
    simp only [frag, Bool.and_eq_true] at h
    simp [noEnum, frag_noEnum k h.1, frag_noEnum v h.2]
  | .struct _ fs, h => by
    simp only [frag, Bool.and_eq_true] at h
    simpa [noEnum] using fragFields_noEnum fs h.2
  | .tuple ts, h | .tupleStruct _ ts, h => by
    simp only [frag] at h
    simpa [noEnum] using fragTys_noEnum ts h
  | .enum _ _, h => by simp [frag] at h
theorem fragTys_noEnum : ∀ (ts : Tys), fragTys ts = true → noEnumTys ts = true
  | .nil, _ => by simp [noEnumTys]
  | .cons t r, h => by
    simp only [fragTys, Bool.and_eq_true] at h
    simp [noEnumTys, frag_noEnum t h.1, fragTys_noEnum r h.2]
theorem fragFields_noEnum : ∀ (fs : TFields), fragFields fs = true → noEnumFields fs = true
  | .nil, _ => by simp [noEnumFields]
  | .cons _ _ t r, h => by
    simp only [fragFields, Bool.and_eq_true] at h
    simp [noEnumFields, frag_noEnum t h.1.1, fragFields_noEnum r h.2]
end

/-! ### the value side -/

/-- the sequence form of a byte slice (`&[u8]` without serde_bytes): no raw streams, every `u8` in range -/
theorem noRaws_u8Seq : ∀ b : List UInt8, noRaws (u8Seq b) = true
  | [] => rfl
  | _ :: r => by simp [u8Seq, noRaws, noRaw, noRaws_u8Seq r]

theorem svalsOK_u8Seq : ∀ b : List UInt8, SValsOK (u8Seq b)
  | [] => by simp [u8Seq, SValsOK]
  | x :: r => by
    have h2 : ((x.toNat : Nat) : Int) ≤ 255 := by have := x.toNat_lt; omega
    simp [u8Seq, SValsOK, SValOK, ScalarOK, IntTy.inRange, IntTy.min, IntTy.max, h2, svalsOK_u8Seq r]

mutual
theorem ser_ok : ∀ (t : Ty) (v : Val), wt t v = true → noRaw (ser t v) = true ∧ SValOK (ser t v)
  | t, .bool b, hw => by
    cases t with
    | prim p => cases p <;> simp [wt, Prim.wt] at hw <;> simp [ser, noRaw, SValOK]
    | _ => simp [wt] at hw
  | t, .int x, hw => by
    cases t with
    | prim p => cases p <;> simp [wt, Prim.wt] at hw <;> simp [ser, noRaw, SValOK, ScalarOK, hw]
    | _ => simp [wt] at hw
  | t, .f32 x, hw => by
    cases t with
    | prim p => cases p <;> simp [wt, Prim.wt] at hw <;> simp [ser, noRaw, SValOK, ScalarOK, hw]
    | _ => simp [wt] at hw
  | t, .f64 x, hw => by
    cases t with
    | prim p => cases p <;> simp [wt, Prim.wt] at hw <;> simp [ser, noRaw, SValOK, ScalarOK, hw]
    | _ => simp [wt] at hw
  | t, .char x, hw => by
    cases t with
    | prim p => cases p <;> simp [wt, Prim.wt] at hw <;> simp [ser, noRaw, SValOK]
    | _ => simp [wt] at hw
  | t, .str x, hw => by
    cases t with
    | prim p => cases p <;> simp [wt, Prim.wt] at hw <;> simp [ser, noRaw, SValOK]
    | _ => simp [wt] at hw
  | t, .bytes x, hw => by
    cases t with
    | prim p => cases p <;> simp [wt, Prim.wt] at hw <;> simp [ser, noRaw, SValOK, noRaws_u8Seq, svalsOK_u8Seq]
    | _ => simp [wt] at hw
  | t, .unit, hw => by
    cases t with
    | prim p => cases p <;> simp [wt, Prim.wt] at hw
    | _ => simp [ser, noRaw, SValOK]
  | t, .none, hw => by
    cases t with
    | prim p => cases p <;> simp [wt, Prim.wt] at hw
    | _ => simp [ser, noRaw, SValOK]
  | t, .some v, hw => by
    cases t with
    | prim p => cases p <;> simp [wt, Prim.wt] at hw
    | option t' => simpa [ser, noRaw, SValOK] using ser_ok t' v (by simpa [wt] using hw)
    | _ => simp [wt] at hw
  | t, .newtype v, hw => by
    cases t with
    | prim p => cases p <;> simp [wt, Prim.wt] at hw
    | newtype n t' => simpa [ser, noRaw, SValOK] using ser_ok t' v (by simpa [wt] using hw)
    | _ => simp [wt] at hw
  | t, .vec vs, hw => by
    cases t with
    | prim p => cases p <;> simp [wt, Prim.wt] at hw
    | vec t' => simpa [ser, noRaw, SValOK] using serAll_ok t' vs (by simpa [wt] using hw)
    | _ => simp [wt] at hw
  | t, .tuple vs, hw => by
    cases t with
    | prim p => cases p <;> simp [wt, Prim.wt] at hw
    | tuple ts => simpa [ser, noRaw, SValOK] using serPos_ok ts vs (by simpa [wt] using hw)
    | tupleStruct n ts => simpa [ser, noRaw, SValOK] using serPos_ok ts vs (by simpa [wt] using hw)
    | _ => simp [wt] at hw
  | t, .struct vs, hw => by
    cases t with
    | prim p => cases p <;> simp [wt, Prim.wt] at hw
    | struct n fs => simpa [ser, noRaw, SValOK] using serFields_ok fs vs (by simpa [wt] using hw)
    | _ => simp [wt] at hw
  | t, .map es, hw => by
    cases t with
    | prim p => cases p <;> simp [wt, Prim.wt] at hw
    | map k v => simpa [ser, noRaw, SValOK] using serEntries_ok k v es (by simpa [wt] using hw)
    | _ => simp [wt] at hw
  | t, .variant i payload, hw => by
    cases t with
    | prim p => cases p <;> simp [wt, Prim.wt] at hw
    | enum n vars =>
      simp only [wt] at hw
      simp only [ser]
      split at hw
      · simp [noRaw, SValOK]
      · rename_i vn t' heq
        cases payload with
        | nil => simp [wtSingle] at hw
        | cons v rest =>
          cases rest with
          | nil => simpa [serSingle, noRaw, SValOK] using ser_ok t' v (by simpa [wtSingle] using hw)
          | cons _ _ => simp [wtSingle] at hw
      · rename_i vn ts heq
        simpa [noRaw, SValOK] using serPos_ok ts payload hw
      · rename_i vn fs heq
        simpa [noRaw, SValOK] using serFields_ok fs payload hw
      · cases hw
    | _ => simp [wt] at hw
theorem serAll_ok : ∀ (t : Ty) (vs : Vals), wtAll t vs = true → noRaws (serAll t vs) = true ∧ SValsOK (serAll t vs)
  | t, .nil, _ => by simp [serAll, noRaws, SValsOK]
  | t, .cons v rest, hw => by
    simp only [wtAll, Bool.and_eq_true] at hw
    have h1 := ser_ok t v hw.1
    have h2 := serAll_ok t rest hw.2
    simp [serAll, noRaws, SValsOK, h1, h2]
theorem serPos_ok : ∀ (ts : Tys) (vs : Vals), wtPos ts vs = true → noRaws (serPos ts vs) = true ∧ SValsOK (serPos ts vs)
  | .nil, .nil, _ => by simp [serPos, noRaws, SValsOK]
  | .nil, .cons _ _, hw => by simp [wtPos] at hw
  | .cons _ _, .nil, hw => by simp [wtPos] at hw
  | .cons t ts, .cons v rest, hw => by
    simp only [wtPos, Bool.and_eq_true] at hw
    have h1 := ser_ok t v hw.1
    have h2 := serPos_ok ts rest hw.2
    simp [serPos, noRaws, SValsOK, h1, h2]
theorem serFields_ok : ∀ (fs : TFields) (vs : Vals), wtFields fs vs = true → noRawf (serFields fs vs) = true ∧ SFieldsOK (serFields fs vs)
  | .nil, .nil, _ => by simp [serFields, noRawf, SFieldsOK]
  | .nil, .cons _ _, hw => by simp [wtFields] at hw
  | .cons _ _ _ _, .nil, hw => by simp [wtFields] at hw
  | .cons n s t fs, .cons v rest, hw => by
    simp only [wtFields, Bool.and_eq_true] at hw
    have h1 := ser_ok t v hw.1
    have h2 := serFields_ok fs rest hw.2
    simp only [serFields]
    split
    · exact h2
    · simp [noRawf, SFieldsOK, h1, h2]
theorem serEntries_ok : ∀ (k v : Ty) (es : VEntries), wtEntries k v es = true →
    noRawe (serEntries k v es) = true ∧ SEntriesOK (serEntries k v es)
  | k, v, .nil, _ => by simp [serEntries, noRawe, SEntriesOK]
  | k, v, .cons a b rest, hw => by
    simp only [wtEntries, Bool.and_eq_true] at hw
    have h1 := ser_ok k a hw.1.1
    have h2 := ser_ok v b hw.1.2
    have h3 := serEntries_ok k v rest hw.2
    simp [serEntries, noRawe, SEntriesOK, h1, h2, h3]
end

end SaModel.Roundtrip
