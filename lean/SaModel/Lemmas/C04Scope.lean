import SaModel.Roundtrip.Types
/-
C04: the type-level side condition and the value-level exclusions of the composed theorems, as decidable definitions.

* `sized t`        every enum in `t` has between 1 and 128 variants (type ids are `i8`: `UnionBuilder` / the tracer
                   refuse variant 128; an enum without variants has no values and is not traceable);
* `inScopeU o t v` the documented exclusion `Option<enum → Union>` = `None`, type directed: no `None` (nor a field left
                   out by `skip_serializing_if`) at a position traced to a Union.  It is the driver's run-time exclusion
                   `noneAtUnion (mappingDT o t).1 (ser t v) = false` (`Lemmas/C04Excl.lean`);
* `strOK o t v`    every value of an enum stored as a string (`enums_without_data_as_strings`, enum without data) is a
                   UNIT variant.  Vacuous unless a data-less enum has a newtype variant around a data-less type
                   (`enum E { A, B(()) }`): the tracer counts `B(())` as "without data", the string builder refuses it
                   (crate defect, notes/C04.md);
* `inScopeO o t v` both.
-/
namespace SaModel.Roundtrip
open SaModel

mutual
/-- every enum has between 1 and 128 variants -/
def sized : Ty → Bool
  | .prim _ | .unit | .unitStruct _ => true
  | .option t | .newtype _ t | .vec t => sized t
  | .map k v => sized k && sized v
  | .struct _ fs => sizedFields fs
  | .tuple ts | .tupleStruct _ ts => sizedTys ts
  | .enum _ vars => decide (1 ≤ vars.length) && decide (vars.length ≤ 128) && sizedVariants vars

def sizedTys : Tys → Bool
  | .nil => true
  | .cons t rest => sized t && sizedTys rest

def sizedFields : TFields → Bool
  | .nil => true
  | .cons _ _ t rest => sized t && sizedFields rest

def sizedVariant : Variant → Bool
  | .unit => true
  | .newtype t => sized t
  | .tuple ts => sizedTys ts
  | .struct fs => sizedFields fs

def sizedVariants : Variants → Bool
  | .nil => true
  | .cons _ v rest => sizedVariant v && sizedVariants rest
end

mutual
/-- **no `None` at a position traced to a Union** (`Option<enum>` = `None`, also as a field left out by
`skip_serializing_if`): the property's documented exclusion, type directed -/
def inScopeU (o : TraceOpts) : Ty → Val → Bool
  | .option t, .none => !isUnion (mappingDT o t).1
  | .option t, .some v => inScopeU o t v
  | .newtype _ t, .newtype v => inScopeU o t v
  | .vec t, .vec vs => inScopeUAll o t vs
  | .tuple ts, .tuple vs => inScopeUPos o ts vs
  | .tupleStruct _ ts, .tuple vs => inScopeUPos o ts vs
  | .struct _ fs, .struct vs => inScopeUFields o fs vs
  | .map k v, .map es => inScopeUEntries o k v es
  | .enum _ vars, .variant i payload =>
    match vars.get? i with
    | some (_, .newtype t) => inScopeUSingle o t payload
    | some (_, .tuple ts) => inScopeUPos o ts payload
    | some (_, .struct fs) => inScopeUFields o fs payload
    | _ => true
  | _, _ => true

def inScopeUSingle (o : TraceOpts) (t : Ty) : Vals → Bool
  | .cons v .nil => inScopeU o t v
  | _ => true

def inScopeUAll (o : TraceOpts) (t : Ty) : Vals → Bool
  | .nil => true
  | .cons v rest => inScopeU o t v && inScopeUAll o t rest

def inScopeUPos (o : TraceOpts) : Tys → Vals → Bool
  | .cons t ts, .cons v rest => inScopeU o t v && inScopeUPos o ts rest
  | _, _ => true

def inScopeUFields (o : TraceOpts) : TFields → Vals → Bool
  | .cons _ _ t fs, .cons v rest => inScopeU o t v && inScopeUFields o fs rest
  | _, _ => true

def inScopeUEntries (o : TraceOpts) (k v : Ty) : VEntries → Bool
  | .nil => true
  | .cons a b rest => inScopeU o k a && inScopeU o v b && inScopeUEntries o k v rest
end

mutual
/-- every value of an enum stored as a string is a unit variant -/
def strOK (o : TraceOpts) : Ty → Val → Bool
  | .option t, .some v => strOK o t v
  | .newtype _ t, .newtype v => strOK o t v
  | .vec t, .vec vs => strOKAll o t vs
  | .tuple ts, .tuple vs => strOKPos o ts vs
  | .tupleStruct _ ts, .tuple vs => strOKPos o ts vs
  | .struct _ fs, .struct vs => strOKFields o fs vs
  | .map k v, .map es => strOKEntries o k v es
  | .enum _ vars, .variant i payload =>
    if vars.withoutData && o.enumsWithoutDataAsStrings then
      match vars.get? i with
      | some (_, .unit) => true
      | _ => false
    else
      match vars.get? i with
      | some (_, .newtype t) => strOKSingle o t payload
      | some (_, .tuple ts) => strOKPos o ts payload
      | some (_, .struct fs) => strOKFields o fs payload
      | _ => true
  | _, _ => true

def strOKSingle (o : TraceOpts) (t : Ty) : Vals → Bool
  | .cons v .nil => strOK o t v
  | _ => true

def strOKAll (o : TraceOpts) (t : Ty) : Vals → Bool
  | .nil => true
  | .cons v rest => strOK o t v && strOKAll o t rest

def strOKPos (o : TraceOpts) : Tys → Vals → Bool
  | .cons t ts, .cons v rest => strOK o t v && strOKPos o ts rest
  | _, _ => true

def strOKFields (o : TraceOpts) : TFields → Vals → Bool
  | .cons _ _ t fs, .cons v rest => strOK o t v && strOKFields o fs rest
  | _, _ => true

def strOKEntries (o : TraceOpts) (k v : Ty) : VEntries → Bool
  | .nil => true
  | .cons a b rest => strOK o k a && strOK o v b && strOKEntries o k v rest
end

/-- the exclusions of the composed theorems: the documented one (`inScopeU`) and the string-enum defect (`strOK`) -/
def inScopeO (o : TraceOpts) (t : Ty) (v : Val) : Bool := inScopeU o t v && strOK o t v

end SaModel.Roundtrip
