import SaModel.Lemmas.C04Interp
import SaModel.Lemmas.C04Scope
/-
C04: the old scope (`inScope`: no `None` at a Union position AND no value of a string-stored enum at all) implies the new
one (`inScopeU` and `strOK`), and there the option-dependent logical value `lvO o` is the option-independent `lv`.
No hypothesis on the type or the value (ill-typed pairs fall into the default arms of every function).
Structurally recursive on the value.
-/
namespace SaModel.Roundtrip
open SaModel

mutual
theorem scope_of_inScope (o : TraceOpts) : ∀ (t : Ty) (v : Val), inScope o t v = true →
    inScopeU o t v = true ∧ strOK o t v = true ∧ lvO o t v = lv t v
  | t, .none, h => by
    cases t with
    | option t' => exact ⟨by simpa [inScope, inScopeU] using h, by simp [strOK], by simp [lvO, lv]⟩
    | prim p => cases p <;> simp [inScopeU, strOK, lvO, lv]
    | _ => simp [inScopeU, strOK, lvO, lv]
  | t, .some v, h => by
    cases t with
    | option t' =>
      have ih := scope_of_inScope o t' v (by simpa [inScope] using h)
      simpa [inScopeU, strOK, lvO, lv] using ih
    | prim p => cases p <;> simp [inScopeU, strOK, lvO, lv]
    | _ => simp [inScopeU, strOK, lvO, lv]
  | t, .newtype v, h => by
    cases t with
    | newtype n t' =>
      have ih := scope_of_inScope o t' v (by simpa [inScope] using h)
      simpa [inScopeU, strOK, lvO, lv] using ih
    | prim p => cases p <;> simp [inScopeU, strOK, lvO, lv]
    | _ => simp [inScopeU, strOK, lvO, lv]
  | t, .vec vs, h => by
    cases t with
    | vec t' =>
      have ih := scope_of_inScopeAll o t' vs (by simpa [inScope] using h)
      simpa [inScopeU, strOK, lvO, lv] using ih
    | prim p => cases p <;> simp [inScopeU, strOK, lvO, lv]
    | _ => simp [inScopeU, strOK, lvO, lv]
  | t, .tuple vs, h => by
    cases t with
    | tuple ts =>
      have ih := scope_of_inScopePos o 0 ts vs (by simpa [inScope] using h)
      simpa [inScopeU, strOK, lvO, lv] using ih
    | tupleStruct n ts =>
      have ih := scope_of_inScopePos o 0 ts vs (by simpa [inScope] using h)
      simpa [inScopeU, strOK, lvO, lv] using ih
    | prim p => cases p <;> simp [inScopeU, strOK, lvO, lv]
    | _ => simp [inScopeU, strOK, lvO, lv]
  | t, .struct vs, h => by
    cases t with
    | struct n fs =>
      have ih := scope_of_inScopeFields o fs vs (by simpa [inScope] using h)
      simpa [inScopeU, strOK, lvO, lv] using ih
    | prim p => cases p <;> simp [inScopeU, strOK, lvO, lv]
    | _ => simp [inScopeU, strOK, lvO, lv]
  | t, .map es, h => by
    cases t with
    | map k v =>
      have ih := scope_of_inScopeEntries o k v es (by simpa [inScope] using h)
      simpa [inScopeU, strOK, lvO, lv] using ih
    | prim p => cases p <;> simp [inScopeU, strOK, lvO, lv]
    | _ => simp [inScopeU, strOK, lvO, lv]
  | t, .variant i p, h => by
    cases t with
    | enum n vars =>
      simp only [inScope, Bool.and_eq_true, Bool.not_eq_true'] at h
      obtain ⟨hform, hpay⟩ := h
      cases hg : vars.get? i with
      | none => simp [inScopeU, strOK, lvO, lv, hg, hform]
      | some q =>
        obtain ⟨vn, kind⟩ := q
        rw [hg] at hpay
        cases kind with
        | unit => simp [inScopeU, strOK, lvO, lv, hg, hform]
        | newtype t' =>
          have ih := scope_of_inScopeSingle o i t' p hpay
          simpa [inScopeU, strOK, lvO, lv, hg, hform] using ih
        | tuple ts =>
          have ih := scope_of_inScopePos o 0 ts p hpay
          simpa [inScopeU, strOK, lvO, lv, hg, hform] using ih
        | struct fs =>
          have ih := scope_of_inScopeFields o fs p hpay
          simpa [inScopeU, strOK, lvO, lv, hg, hform] using ih
    | prim p => cases p <;> simp [inScopeU, strOK, lvO, lv]
    | _ => simp [inScopeU, strOK, lvO, lv]
  | t, .bool _, _ | t, .int _, _ | t, .f32 _, _ | t, .f64 _, _ | t, .char _, _ | t, .str _, _ | t, .bytes _, _
  | t, .unit, _ => by
    cases t with
    | prim p => cases p <;> simp [inScopeU, strOK, lvO, lv]
    | _ => simp [inScopeU, strOK, lvO, lv]

theorem scope_of_inScopeSingle (o : TraceOpts) : ∀ (i : Nat) (t : Ty) (vs : Vals), inScopeSingle o t vs = true →
    inScopeUSingle o t vs = true ∧ strOKSingle o t vs = true ∧ lvOSingle o i t vs = lvSingle i t vs
  | _, _, .nil, _ => by simp [inScopeUSingle, strOKSingle, lvOSingle, lvSingle]
  | _, _, .cons _ (.cons _ _), _ => by simp [inScopeUSingle, strOKSingle, lvOSingle, lvSingle]
  | i, t, .cons v .nil, h => by
    have ih := scope_of_inScope o t v (by simpa [inScopeSingle] using h)
    simpa [inScopeUSingle, strOKSingle, lvOSingle, lvSingle] using ih

theorem scope_of_inScopeAll (o : TraceOpts) : ∀ (t : Ty) (vs : Vals), inScopeAll o t vs = true →
    inScopeUAll o t vs = true ∧ strOKAll o t vs = true ∧ lvOAll o t vs = lvAll t vs
  | _, .nil, _ => by simp [inScopeUAll, strOKAll, lvOAll, lvAll]
  | t, .cons v rest, h => by
    simp only [inScopeAll, Bool.and_eq_true] at h
    have h1 := scope_of_inScope o t v h.1
    have h2 := scope_of_inScopeAll o t rest h.2
    simp [inScopeUAll, strOKAll, lvOAll, lvAll, h1, h2]

theorem scope_of_inScopePos (o : TraceOpts) : ∀ (i : Nat) (ts : Tys) (vs : Vals), inScopePos o ts vs = true →
    inScopeUPos o ts vs = true ∧ strOKPos o ts vs = true ∧ lvOPos o i ts vs = lvPos i ts vs
  | _, .nil, _, _ => by simp [inScopeUPos, strOKPos, lvOPos, lvPos]
  | _, .cons _ _, .nil, _ => by simp [inScopeUPos, strOKPos, lvOPos, lvPos]
  | i, .cons t ts, .cons v rest, h => by
    simp only [inScopePos, Bool.and_eq_true] at h
    have h1 := scope_of_inScope o t v h.1
    have h2 := scope_of_inScopePos o (i + 1) ts rest h.2
    simp [inScopeUPos, strOKPos, lvOPos, lvPos, h1, h2]

theorem scope_of_inScopeFields (o : TraceOpts) : ∀ (fs : TFields) (vs : Vals), inScopeFields o fs vs = true →
    inScopeUFields o fs vs = true ∧ strOKFields o fs vs = true ∧ lvOFields o fs vs = lvFields fs vs
  | .nil, _, _ => by simp [inScopeUFields, strOKFields, lvOFields, lvFields]
  | .cons _ _ _ _, .nil, _ => by simp [inScopeUFields, strOKFields, lvOFields, lvFields]
  | .cons n s t fs, .cons v rest, h => by
    simp only [inScopeFields, Bool.and_eq_true] at h
    have h1 := scope_of_inScope o t v h.1
    have h2 := scope_of_inScopeFields o fs rest h.2
    simp [inScopeUFields, strOKFields, lvOFields, lvFields, h1, h2]

theorem scope_of_inScopeEntries (o : TraceOpts) : ∀ (k v : Ty) (es : VEntries), inScopeEntries o k v es = true →
    inScopeUEntries o k v es = true ∧ strOKEntries o k v es = true ∧ lvOEntries o k v es = lvEntries k v es
  | _, _, .nil, _ => by simp [inScopeUEntries, strOKEntries, lvOEntries, lvEntries]
  | k, v, .cons a b rest, h => by
    simp only [inScopeEntries, Bool.and_eq_true] at h
    have h1 := scope_of_inScope o k a h.1.1
    have h2 := scope_of_inScope o v b h.1.2
    have h3 := scope_of_inScopeEntries o k v rest h.2
    simp [inScopeUEntries, strOKEntries, lvOEntries, lvEntries, h1, h2, h3]
end

/-- the old scope implies the new one -/
theorem inScopeO_of_inScope (o : TraceOpts) (t : Ty) (v : Val) (h : inScope o t v = true) : inScopeO o t v = true := by
  have := scope_of_inScope o t v h
  simp [inScopeO, this.1, this.2.1]

/-- the new exclusions are vacuous in the enum-free fragment -/
theorem frag_inScopeO (o : TraceOpts) (t : Ty) (v : Val) (hf : frag t = true) : inScopeO o t v = true :=
  inScopeO_of_inScope o t v (frag_inScope o t v hf)

end SaModel.Roundtrip
