import SaModel.Roundtrip.Bridge
/-
C04: the two statements of the documented Rust → Arrow mapping agree.

`Trace.Spec.mapping` (SaModel/Trace/Mapping.lean, what C08 proves `from_type` to be) is an `R Field` with the
documented refusals (null-only fields, data-less enums, overwrites); `Roundtrip.mappingDT` (SaModel/Roundtrip/Types.lean,
what C04's `interp_ser` / `cast_lv` are about) is a total function of the type.  Whenever the former succeeds, without
overwrites, on the translation of ANY type (enums included), it is the latter:

  mapping_eq       Spec.mapping O name path nl (toTraceTy t) = ok f → f = ⟨name, dt, nl || nb, md⟩, (dt, nb, md) = mappingDT (viewOpts O) t
  fromTypeSpec_eq  Spec.fromTypeSpec O (toTraceTy t) = ok fields → mappingRoot (viewOpts O) t = some fields
-/
namespace SaModel.Roundtrip
open SaModel SaModel.Trace

mutual
/-- no enum anywhere in the type -/
def noEnum : Ty → Bool
  | .prim _ | .unit | .unitStruct _ => true
  | .option t | .newtype _ t | .vec t => noEnum t
  | .map k v => noEnum k && noEnum v
  | .tuple ts | .tupleStruct _ ts => noEnumTys ts
  | .struct _ fs => noEnumFields fs
  | .enum _ _ => false
def noEnumTys : Tys → Bool
  | .nil => true
  | .cons t r => noEnum t && noEnumTys r
def noEnumFields : TFields → Bool
  | .nil => true
  | .cons _ _ t r => noEnum t && noEnumFields r
end

theorem overwritten_none (O : Options) (h : O.overwrites = []) (name path : String) (k : Unit → R Field) :
    Spec.overwritten O name path k = k () := by
  simp [Spec.overwritten, h]

theorem bind_ok {α β} {x : R α} {f : α → R β} {b : β} (h : (x >>= f) = .ok b) : ∃ a, x = .ok a ∧ f a = .ok b := by
  cases x with
  | ok a => exact ⟨a, rfl, h⟩
  | error e => cases h

theorem strDT_view (O : Options) : strDT (viewOpts O) = O.string_type := rfl

theorem view_large (O : Options) : (viewOpts O).sequenceAsLargeList = O.sequence_as_large_list := rfl
theorem view_dict (O : Options) : (viewOpts O).stringDictionaryEncoding = O.string_dictionary_encoding := rfl

theorem view_enumStr (O : Options) : (viewOpts O).enumsWithoutDataAsStrings = O.enums_without_data_as_strings := rfl
theorem view_allowNull (O : Options) : (viewOpts O).allowNullFields = O.allow_null_fields := rfl

/-- "carries no data" is the same predicate on both descriptions of the type -/
theorem isNullTy_trace : ∀ (t : Ty), Spec.isNullTy (toTraceTy t) = isNullTy t
  | .prim p => by cases p <;> rfl
  | .unit => rfl
  | .unitStruct _ => rfl
  | .option t => by simp only [toTraceTy, Spec.isNullTy, isNullTy]; exact isNullTy_trace t
  | .newtype _ t => by simp only [toTraceTy, Spec.isNullTy, isNullTy]; exact isNullTy_trace t
  | .vec _ => rfl
  | .tuple _ => rfl
  | .tupleStruct _ _ => rfl
  | .struct _ _ => rfl
  | .enum _ _ => rfl
  | .map _ _ => rfl

/-- "enum without data" is the same predicate on both descriptions of the type -/
theorem withoutData_trace : ∀ (vars : Variants), Spec.withoutData (toTraceVariants vars) = vars.withoutData
  | .nil => rfl
  | .cons _ .unit r => by
    simp only [toTraceVariants, Spec.withoutData, Variants.withoutData]; exact withoutData_trace r
  | .cons _ (.newtype t) r => by
    simp only [toTraceVariants, Spec.withoutData, Variants.withoutData, isNullTy_trace, withoutData_trace r]
  | .cons _ (.tuple _) _ => rfl
  | .cons _ (.struct _) _ => rfl

/-- the guard `if i > 127 then fail …` of `Spec.mappingVariants`, passed -/
theorem guard_ok {β} {i : Nat} {m : String} {k k' : R β} {b : β}
    (h : (if i > 127 then ((fail m : R PUnit) >>= fun _ => k') else k) = .ok b) : i ≤ 127 ∧ k = .ok b := by
  by_cases hi : i > 127
  · rw [if_pos hi] at h; cases h
  · rw [if_neg hi] at h; exact ⟨by omega, h⟩

mutual
theorem mapping_eq (O : Options) (h0 : O.overwrites = []) : ∀ (t : Ty) (name path : String) (nl : Bool) (f : Field)
    (dt : DataType) (nb : Bool) (md : Metadata),
    Spec.mapping O name path nl (toTraceTy t) = .ok f → mappingDT (viewOpts O) t = (dt, nb, md) →
    f = .mk name dt (nl || nb) md
  | .prim p, name, path, nl, f, dt, nb, md, h, hm => by
    simp only [mappingDT, Prod.mk.injEq] at hm; obtain ⟨rfl, rfl, rfl⟩ := hm
    cases p <;>
      simp only [toTraceTy, primTraceTy, Spec.mapping, overwritten_none O h0, Except.ok.injEq] at h <;> subst h
    case str =>
      simp only [Spec.stringField, primDT, strDT_view, view_dict, Bool.or_false]
      split <;> simp [*]
    case strRef =>
      simp only [Spec.stringField, primDT, strDT_view, view_dict, Bool.or_false]
      split <;> simp [*]
    case cowStr =>
      simp only [Spec.stringField, primDT, strDT_view, view_dict, Bool.or_false]
      split <;> simp [*]
    case int t => cases t <;> simp [primDT, intDT, intDataType]
    all_goals simp [primDT]
  | .unit, name, path, nl, f, dt, nb, md, h, hm => by
    simp only [mappingDT, Prod.mk.injEq] at hm; obtain ⟨rfl, rfl, rfl⟩ := hm
    simp only [toTraceTy, Spec.mapping, overwritten_none O h0, Spec.nullField] at h
    split at h
    · cases h; simp
    · cases h
  | .unitStruct n, name, path, nl, f, dt, nb, md, h, hm => by
    simp only [mappingDT, Prod.mk.injEq] at hm; obtain ⟨rfl, rfl, rfl⟩ := hm
    simp only [toTraceTy, Spec.mapping, overwritten_none O h0, Spec.nullField] at h
    split at h
    · cases h; simp
    · cases h
  | .option t, name, path, nl, f, dt, nb, md, h, hm => by
    rcases hm' : mappingDT (viewOpts O) t with ⟨dt', nb', md'⟩
    simp only [mappingDT, hm', Prod.mk.injEq] at hm; obtain ⟨rfl, rfl, rfl⟩ := hm
    simp only [toTraceTy, Spec.mapping] at h
    have ih := mapping_eq O h0 t name path true f _ _ _ h hm'
    rw [ih]; simp
  | .newtype n t, name, path, nl, f, dt, nb, md, h, hm => by
    simp only [mappingDT] at hm
    simp only [toTraceTy, Spec.mapping] at h
    exact mapping_eq O h0 t name path nl f _ _ _ h hm
  | .vec t, name, path, nl, f, dt, nb, md, h, hm => by
    rcases hm' : mappingDT (viewOpts O) t with ⟨dt', nb', md'⟩
    simp only [mappingDT, hm', Prod.mk.injEq, view_large] at hm; obtain ⟨rfl, rfl, rfl⟩ := hm
    simp only [toTraceTy, Spec.mapping, overwritten_none O h0] at h
    obtain ⟨item, hi, h⟩ := bind_ok h
    have ih := mapping_eq O h0 t _ _ false item _ _ _ hi hm'
    cases h
    rw [ih]
    simp
  | .tuple ts, name, path, nl, f, dt, nb, md, h, hm => by
    simp only [mappingDT, Prod.mk.injEq] at hm; obtain ⟨rfl, rfl, rfl⟩ := hm
    simp only [toTraceTy, Spec.mapping, overwritten_none O h0] at h
    obtain ⟨fs, hi, h⟩ := bind_ok h
    have ih := mappingTys_eq O h0 ts path 0 fs hi
    cases h
    simp [ih, Spec.tupleMeta, TUPLE_MD]
  | .tupleStruct n ts, name, path, nl, f, dt, nb, md, h, hm => by
    simp only [mappingDT, Prod.mk.injEq] at hm; obtain ⟨rfl, rfl, rfl⟩ := hm
    simp only [toTraceTy, Spec.mapping, overwritten_none O h0] at h
    obtain ⟨fs, hi, h⟩ := bind_ok h
    have ih := mappingTys_eq O h0 ts path 0 fs hi
    cases h
    simp [ih, Spec.tupleMeta, TUPLE_MD]
  | .struct n fs, name, path, nl, f, dt, nb, md, h, hm => by
    simp only [mappingDT, Prod.mk.injEq] at hm; obtain ⟨rfl, rfl, rfl⟩ := hm
    simp only [toTraceTy, Spec.mapping, overwritten_none O h0] at h
    obtain ⟨fl, hi, h⟩ := bind_ok h
    have ih := mappingFields_eq O h0 fs path fl hi
    cases h
    simp [ih]
  | .map k v, name, path, nl, f, dt, nb, md, h, hm => by
    rcases hk' : mappingDT (viewOpts O) k with ⟨kdt, knb, kmd⟩
    rcases hv' : mappingDT (viewOpts O) v with ⟨vdt, vnb, vmd⟩
    simp only [mappingDT, hk', hv', Prod.mk.injEq] at hm; obtain ⟨rfl, rfl, rfl⟩ := hm
    simp only [toTraceTy, Spec.mapping, overwritten_none O h0] at h
    obtain ⟨kf, hk, h⟩ := bind_ok h
    obtain ⟨vf, hv, h⟩ := bind_ok h
    have ihk := mapping_eq O h0 k _ _ false kf _ _ _ hk hk'
    have ihv := mapping_eq O h0 v _ _ false vf _ _ _ hv hv'
    cases h
    rw [ihk, ihv]
    simp [Fields.ofList]
  | .enum n vs, name, path, nl, f, dt, nb, md, h, hm => by
    simp only [toTraceTy, Spec.mapping, overwritten_none O h0, withoutData_trace] at h
    simp only [mappingDT] at hm
    by_cases hc : (vs.withoutData && O.enums_without_data_as_strings) = true
    · have hc' : (vs.withoutData && (viewOpts O).enumsWithoutDataAsStrings) = true := hc
      rw [if_pos hc] at h; rw [if_pos hc'] at hm
      simp only [Prod.mk.injEq] at hm; obtain ⟨rfl, rfl, rfl⟩ := hm
      cases h
      simp [strDT_view]
    · have hc' : ¬ (vs.withoutData && (viewOpts O).enumsWithoutDataAsStrings) = true := hc
      rw [if_neg hc] at h; rw [if_neg hc'] at hm
      simp only [Prod.mk.injEq] at hm; obtain ⟨rfl, rfl, rfl⟩ := hm
      split at h
      · cases h
      · obtain ⟨cs, hi, h⟩ := bind_ok h
        have ih := mappingVariants_eq O h0 vs path 0 cs hi
        cases h
        simp [ih]
theorem mappingTys_eq (O : Options) (h0 : O.overwrites = []) : ∀ (ts : Tys) (path : String) (i : Nat) (fs : List Field),
    Spec.mappingTys O path i (toTraceTys ts) = .ok fs → Fields.ofList fs = mappingPos (viewOpts O) i ts
  | .nil, _, _, fs, h => by
    simp only [toTraceTys, Spec.mappingTys, Except.ok.injEq] at h; subst h; rfl
  | .cons t r, path, i, fs, h => by
    rcases hm' : mappingDT (viewOpts O) t with ⟨dt', nb', md'⟩
    simp only [toTraceTys, Spec.mappingTys] at h
    obtain ⟨f, hf, h⟩ := bind_ok h
    obtain ⟨rest, hr, h⟩ := bind_ok h
    have ih1 := mapping_eq O h0 t _ _ false f _ _ _ hf hm'
    have ih2 := mappingTys_eq O h0 r path (i + 1) rest hr
    cases h
    rw [ih1]
    simp [Fields.ofList, mappingPos, hm', ih2, posName]
theorem mappingFields_eq (O : Options) (h0 : O.overwrites = []) : ∀ (fs : TFields) (path : String) (fl : List Field),
    Spec.mappingFields O path (toTraceFields fs) = .ok fl → Fields.ofList fl = mappingFields (viewOpts O) fs
  | .nil, _, fl, h => by
    simp only [toTraceFields, Spec.mappingFields, Except.ok.injEq] at h; subst h; rfl
  | .cons n s t r, path, fl, h => by
    rcases hm' : mappingDT (viewOpts O) t with ⟨dt', nb', md'⟩
    simp only [toTraceFields, Spec.mappingFields] at h
    obtain ⟨f, hf, h⟩ := bind_ok h
    obtain ⟨rest, hr, h⟩ := bind_ok h
    have ih1 := mapping_eq O h0 t _ _ false f _ _ _ hf hm'
    have ih2 := mappingFields_eq O h0 r path rest hr
    cases h
    rw [ih1]
    simp [Fields.ofList, mappingFields, hm', ih2]
/-- the children of the Union an enum is traced to: one per variant in declaration order, type id = declaration index -/
theorem mappingVariants_eq (O : Options) (h0 : O.overwrites = []) : ∀ (vars : Variants) (path : String) (i : Nat)
    (cs : List (Int × Field)),
    Spec.mappingVariants O path i (toTraceVariants vars) = .ok cs → UFields.ofList cs = mappingVariants (viewOpts O) i vars
  | .nil, _, _, cs, h => by
    simp only [toTraceVariants, Spec.mappingVariants, Except.ok.injEq] at h; subst h; rfl
  | .cons n .unit r, path, i, cs, h => by
    simp only [toTraceVariants, Spec.mappingVariants, overwritten_none O h0, Spec.nullField] at h
    obtain ⟨_, h⟩ := guard_ok h
    obtain ⟨f, hf, h⟩ := bind_ok h
    obtain ⟨rest, hr, h⟩ := bind_ok h
    have ih2 := mappingVariants_eq O h0 r path (i + 1) rest hr
    cases h
    split at hf
    · cases hf
      simp [UFields.ofList, mappingVariants, ih2]
    · cases hf
  | .cons n (.newtype t) r, path, i, cs, h => by
    rcases hm' : mappingDT (viewOpts O) t with ⟨dt', nb', md'⟩
    simp only [toTraceVariants, Spec.mappingVariants] at h
    obtain ⟨_, h⟩ := guard_ok h
    obtain ⟨f, hf, h⟩ := bind_ok h
    obtain ⟨rest, hr, h⟩ := bind_ok h
    have ih1 := mapping_eq O h0 t _ _ false f _ _ _ hf hm'
    have ih2 := mappingVariants_eq O h0 r path (i + 1) rest hr
    cases h
    rw [ih1]
    simp [UFields.ofList, mappingVariants, hm', ih2]
  | .cons n (.tuple ts) r, path, i, cs, h => by
    simp only [toTraceVariants, Spec.mappingVariants, overwritten_none O h0] at h
    obtain ⟨_, h⟩ := guard_ok h
    obtain ⟨f, hf, h⟩ := bind_ok h
    obtain ⟨rest, hr, h⟩ := bind_ok h
    obtain ⟨fs, hfs, hf⟩ := bind_ok hf
    have ih1 := mappingTys_eq O h0 ts _ 0 fs hfs
    have ih2 := mappingVariants_eq O h0 r path (i + 1) rest hr
    cases h; cases hf
    simp [UFields.ofList, mappingVariants, ih1, ih2, Spec.tupleMeta, TUPLE_MD]
  | .cons n (.struct fields) r, path, i, cs, h => by
    simp only [toTraceVariants, Spec.mappingVariants, overwritten_none O h0] at h
    obtain ⟨_, h⟩ := guard_ok h
    obtain ⟨f, hf, h⟩ := bind_ok h
    obtain ⟨rest, hr, h⟩ := bind_ok h
    obtain ⟨fs, hfs, hf⟩ := bind_ok hf
    have ih1 := mappingFields_eq O h0 fields _ fs hfs
    have ih2 := mappingVariants_eq O h0 r path (i + 1) rest hr
    cases h; cases hf
    simp [UFields.ofList, mappingVariants, ih1, ih2]
end

/-- **the documented result of `from_type` is the documented mapping of C04**: whenever `Spec.fromTypeSpec` succeeds
(no overwrites; any budget and any setting of the other options) on ANY type (enums included), its fields are
`mappingRoot` -/
theorem fromTypeSpec_eq (O : Options) (h0 : O.overwrites = []) (t : Ty) (fields : List Field)
    (h : Spec.fromTypeSpec O (toTraceTy t) = .ok fields) : mappingRoot (viewOpts O) t = some fields := by
  unfold Spec.fromTypeSpec at h
  split at h
  · cases h
  · split at h
    · cases h
    · split at h
      · cases h
      · obtain ⟨root, hr, h⟩ := bind_ok h
        rcases hm : mappingDT (viewOpts O) t with ⟨dt, nb, md⟩
        have ih := mapping_eq O h0 t _ _ false root _ _ _ hr hm
        subst ih
        simp only [Field.nullable, Bool.false_or, Field.dataType] at h
        split at h
        · cases h
        · rename_i hnb
          split at h
          · rename_i children hdt
            cases h
            have hnb' : nb = false := by simpa using hnb
            subst hnb'
            simp [mappingRoot, hm]
          · cases h

end SaModel.Roundtrip
