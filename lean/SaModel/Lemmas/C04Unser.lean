import SaModel.Lemmas.C04Bytes
/-
C04, injectivity of the Rust → Arrow mapping, second half: the logical value of a well-typed value determines the
value up to the documented normalisation:  `unser t (lv t v) = some (norm t v)`   — whole grammar.
Structurally recursive on the value.
-/
namespace SaModel.Roundtrip
open SaModel

theorem unser_option (t : Ty) (x : LVal) :
    unser (.option t) x = if x = .null then some .none else (unser t x).map .some := rfl

theorem unser_newtype (n : String) (t : Ty) (x : LVal) : unser (.newtype n t) x = (unser t x).map .newtype := rfl

theorem peel_eq_unser (t : Ty) (x : LVal) : peel x (fun core => unserCore core x) t = unser t x := rfl

theorem unser_prim (p : Prim) (x : LVal) : unser (.prim p) x = unserCore (.prim p) x := rfl
theorem unser_unit (x : LVal) : unser .unit x = unserCore .unit x := rfl
theorem unser_unitStruct (n : String) (x : LVal) : unser (.unitStruct n) x = unserCore (.unitStruct n) x := rfl
theorem unser_vec (t : Ty) (x : LVal) : unser (.vec t) x = unserCore (.vec t) x := rfl
theorem unser_tuple (ts : Tys) (x : LVal) : unser (.tuple ts) x = unserCore (.tuple ts) x := rfl
theorem unser_tupleStruct (n : String) (ts : Tys) (x : LVal) : unser (.tupleStruct n ts) x = unserCore (.tupleStruct n ts) x := rfl
theorem unser_struct (n : String) (fs : TFields) (x : LVal) : unser (.struct n fs) x = unserCore (.struct n fs) x := rfl
theorem unser_enum (n : String) (vs : Variants) (x : LVal) : unser (.enum n vs) x = unserCore (.enum n vs) x := rfl
theorem unser_map (k v : Ty) (x : LVal) : unser (.map k v) x = unserCore (.map k v) x := rfl

/-- reading a union slot whose type id is the variant index -/
theorem unserCore_union (vars : Variants) (n : String) (i : Nat) (x : LVal) :
    unserCore (.enum n vars) (.union (i : Int) x) =
      match vars.get? i with
      | some (_, .unit) => some (.variant i .nil)
      | some (_, .newtype t) => (unser t x).map fun v => .variant i (.cons v .nil)
      | some (_, .tuple ts) => (unserPosOf ts x).map (.variant i)
      | some (_, .struct fs) => (unserFieldsOf fs x).map (.variant i)
      | none => none := by
  rw [unserCore]
  have hi : ¬ ((i : Int) < 0) := by omega
  rw [if_neg hi, Int.toNat_natCast]
  rfl

mutual
theorem unser_lv : ∀ (t : Ty) (v : Val), wt t v = true → unser t (lv t v) = some (norm t v)
  | t, .bool b, h => by
    cases t with
    | prim p => cases p <;> simp [wt, Prim.wt] at h <;> simp [unser_prim, unserCore, lv, norm]
    | _ => simp [wt] at h
  | t, .int x, h => by
    cases t with
    | prim p => cases p <;> simp [wt, Prim.wt] at h <;> simp [unser_prim, unserCore, lv, norm]
    | _ => simp [wt] at h
  | t, .f32 x, h => by
    cases t with
    | prim p => cases p <;> simp [wt, Prim.wt] at h <;> simp [unser_prim, unserCore, lv, norm]
    | _ => simp [wt] at h
  | t, .f64 x, h => by
    cases t with
    | prim p => cases p <;> simp [wt, Prim.wt] at h <;> simp [unser_prim, unserCore, lv, norm]
    | _ => simp [wt] at h
  | t, .char x, h => by
    cases t with
    | prim p => cases p <;> simp [wt, Prim.wt] at h <;> simp [unser_prim, unserCore, lv, norm]
    | _ => simp [wt] at h
  | t, .str s, h => by
    cases t with
    | prim p => cases p <;> simp [wt, Prim.wt] at h <;> simp [unser_prim, unserCore, lv, norm, unserStr_toByteArray]
    | _ => simp [wt] at h
  | t, .bytes b, h => by
    cases t with
    | prim p => cases p <;> simp [wt, Prim.wt] at h <;> simp [unser_prim, unserCore, lv, norm]
    | _ => simp [wt] at h
  | t, .unit, h => by
    cases t with
    | prim p => cases p <;> simp [wt, Prim.wt] at h
    | unit => simp [unser_unit, unserCore, lv, norm]
    | unitStruct n => simp [unser_unitStruct, unserCore, lv, norm]
    | _ => simp [wt] at h
  | t, .none, h => by
    cases t with
    | prim p => cases p <;> simp [wt, Prim.wt] at h
    | option t' => simp [unser_option, lv, norm]
    | _ => simp [wt] at h
  | t, .some v, h => by
    cases t with
    | prim p => cases p <;> simp [wt, Prim.wt] at h
    | option t' =>
      simp only [wt] at h
      have ih := unser_lv t' v h
      simp only [unser_option, lv, norm]
      by_cases hn : lv t' v = .null
      · simp [hn]
      · simp [hn, ih]
    | _ => simp [wt] at h
  | t, .newtype v, h => by
    cases t with
    | prim p => cases p <;> simp [wt, Prim.wt] at h
    | newtype n t' =>
      simp only [wt] at h
      have ih := unser_lv t' v h
      simp [unser_newtype, lv, norm, ih]
    | _ => simp [wt] at h
  | t, .vec vs, h => by
    cases t with
    | prim p => cases p <;> simp [wt, Prim.wt] at h
    | vec t' =>
      simp only [wt] at h
      have ih := unserAll_lv t' vs h
      simp [unser_vec, unserCore, lv, norm, ih]
    | _ => simp [wt] at h
  | t, .tuple vs, h => by
    cases t with
    | prim p => cases p <;> simp [wt, Prim.wt] at h
    | tuple ts =>
      simp only [wt] at h
      have ih := unserPos_lv 0 ts vs h
      simp [unser_tuple, unserCore, lv, norm, ih]
    | tupleStruct n ts =>
      simp only [wt] at h
      have ih := unserPos_lv 0 ts vs h
      simp [unser_tupleStruct, unserCore, lv, norm, ih]
    | _ => simp [wt] at h
  | t, .struct vs, h => by
    cases t with
    | prim p => cases p <;> simp [wt, Prim.wt] at h
    | struct n fs =>
      simp only [wt] at h
      have ih := unserFields_lv fs vs h
      simp [unser_struct, unserCore, lv, norm, ih]
    | _ => simp [wt] at h
  | t, .map es, h => by
    cases t with
    | prim p => cases p <;> simp [wt, Prim.wt] at h
    | map k v =>
      simp only [wt] at h
      have ih := unserEntries_lv k v es h
      simp [unser_map, unserCore, lv, norm, ih]
    | _ => simp [wt] at h
  | t, .variant i payload, h => by
    cases t with
    | prim p => cases p <;> simp [wt, Prim.wt] at h
    | enum n vars =>
      rw [wt] at h
      rw [lv, norm, unser_enum]
      cases hg : vars.get? i with
      | none => simp [hg] at h
      | some nv =>
        obtain ⟨vn, var⟩ := nv
        cases var with
        | unit =>
          simp only [hg] at h ⊢
          cases payload with
          | nil => simp [unserCore_union, hg]
          | cons a b => simp [Vals.isNil] at h
        | newtype t' =>
          simp only [hg] at h ⊢
          cases payload with
          | nil => simp [wtSingle] at h
          | cons a b =>
            cases b with
            | cons c d => simp [wtSingle] at h
            | nil =>
              simp only [wtSingle] at h
              have ih := unser_lv t' a h
              simp [lvSingle, normSingle, unserCore_union, hg, ih]
        | tuple ts =>
          simp only [hg] at h ⊢
          have ih := unserPos_lv 0 ts payload h
          simp [unserCore_union, unserPosOf, hg, ih]
        | struct fs =>
          simp only [hg] at h ⊢
          have ih := unserFields_lv fs payload h
          simp [unserCore_union, unserFieldsOf, hg, ih]
    | _ => simp [wt] at h

theorem unserAll_lv : ∀ (t : Ty) (vs : Vals), wtAll t vs = true → unserAll t (lvAll t vs) = some (normAll t vs)
  | _, .nil, _ => by simp [lvAll, unserAll, normAll]
  | t, .cons v rest, h => by
    simp [wtAll] at h
    have ih1 := unser_lv t v h.1
    have ih2 := unserAll_lv t rest h.2
    simp [lvAll, unserAll, normAll, peel_eq_unser, ih1, ih2]

theorem unserPos_lv : ∀ (i : Nat) (ts : Tys) (vs : Vals), wtPos ts vs = true →
    unserPos ts (lvPos i ts vs) = some (normPos ts vs)
  | _, .nil, .nil, _ => by simp [lvPos, unserPos, normPos]
  | _, .nil, .cons _ _, h => by simp [wtPos] at h
  | _, .cons _ _, .nil, h => by simp [wtPos] at h
  | i, .cons t ts, .cons v rest, h => by
    simp [wtPos] at h
    have ih1 := unser_lv t v h.1
    have ih2 := unserPos_lv (i + 1) ts rest h.2
    simp [lvPos, unserPos, normPos, peel_eq_unser, ih1, ih2]

theorem unserFields_lv : ∀ (fs : TFields) (vs : Vals), wtFields fs vs = true →
    unserFields fs (lvFields fs vs) = some (normFields fs vs)
  | .nil, .nil, _ => by simp [lvFields, unserFields, normFields]
  | .nil, .cons _ _, h => by simp [wtFields] at h
  | .cons _ _ _ _, .nil, h => by simp [wtFields] at h
  | .cons n s t fs, .cons v rest, h => by
    simp [wtFields] at h
    have ih1 := unser_lv t v h.1
    have ih2 := unserFields_lv fs rest h.2
    simp [lvFields, unserFields, normFields, peel_eq_unser, ih1, ih2]

theorem unserEntries_lv : ∀ (k v : Ty) (es : VEntries), wtEntries k v es = true →
    unserEntries k v (lvEntries k v es) = some (normEntries k v es)
  | _, _, .nil, _ => by simp [lvEntries, unserEntries, normEntries]
  | k, v, .cons a b rest, h => by
    simp [wtEntries] at h
    have ih1 := unser_lv k a h.1.1
    have ih2 := unser_lv v b h.1.2
    have ih3 := unserEntries_lv k v rest h.2
    simp [lvEntries, unserEntries, normEntries, peel_eq_unser, ih1, ih2, ih3]
end

end SaModel.Roundtrip
