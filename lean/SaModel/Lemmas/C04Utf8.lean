import SaModel.Lemmas.Utf8
import SaModel.Read.DVal
/-
C04: the bytes of a Lean `String` satisfy the READER's UTF-8 recogniser (`Read.validUtf8`, the model of
`std::str::from_utf8` in the string readers) — the counterpart of `Lemmas.Utf8.validUtf8_strBytes`, which is about the
specification's recogniser `Spec.validUtf8`.
-/
namespace SaModel.Lemmas.C04Utf8
open SaModel SaModel.Read

theorem lt_lit (b : UInt8) (n : Nat) (hn : n < 256) : (b < UInt8.ofNat n) ↔ b.toNat < n := by
  rw [UInt8.lt_iff_toNat_lt, Lemmas.Utf8.toNat_ofNat_lt n hn]

theorem le_lit (b : UInt8) (n : Nat) (hn : n < 256) : (b ≤ UInt8.ofNat n) ↔ b.toNat ≤ n := by
  rw [UInt8.le_iff_toNat_le, Lemmas.Utf8.toNat_ofNat_lt n hn]

theorem lit_le (b : UInt8) (n : Nat) (hn : n < 256) : (UInt8.ofNat n ≤ b) ↔ n ≤ b.toNat := by
  rw [UInt8.le_iff_toNat_le, Lemmas.Utf8.toNat_ofNat_lt n hn]

theorem beq_lit (b : UInt8) (n : Nat) (hn : n < 256) : (b == UInt8.ofNat n) = decide (b.toNat = n) := by
  by_cases h : b.toNat = n
  · have : b = UInt8.ofNat n := by
      apply UInt8.toNat_inj.mp; rw [Lemmas.Utf8.toNat_ofNat_lt n hn]; exact h
    simp [this, Lemmas.Utf8.toNat_ofNat_lt n hn]
  · have : b ≠ UInt8.ofNat n := by
      intro e; apply h; rw [e, Lemmas.Utf8.toNat_ofNat_lt n hn]
    simp [this, h]

theorem isCont_iff (b : UInt8) : isCont b = true ↔ 0x80 ≤ b.toNat ∧ b.toNat ≤ 0xBF := by
  have h1 := lit_le b 0x80 (by decide)
  have h2 := le_lit b 0xBF (by decide)
  simp only [isCont, Bool.and_eq_true, decide_eq_true_eq]
  exact and_congr h1 h2

theorem valid1 (b0 : UInt8) (rest : Bytes) (h : b0.toNat < 0x80) : validUtf8 (b0 :: rest) = validUtf8 rest := by
  have h0 : b0 < 0x80 := (lt_lit b0 0x80 (by decide)).mpr h
  rw [validUtf8.eq_def]
  simp only [h0, if_true]

theorem rng (b : UInt8) (lo hi : Nat) (hlo : lo < 256) (hhi : hi < 256) (h : lo ≤ b.toNat ∧ b.toNat ≤ hi) :
    (decide (UInt8.ofNat lo ≤ b) && decide (b ≤ UInt8.ofNat hi)) = true := by
  simp only [Bool.and_eq_true, decide_eq_true_eq]
  exact ⟨(lit_le b lo hlo).mpr h.1, (le_lit b hi hhi).mpr h.2⟩

theorem valid2 (b0 b1 : UInt8) (rest : Bytes) (h0 : 0xC2 ≤ b0.toNat ∧ b0.toNat ≤ 0xDF)
    (h1 : 0x80 ≤ b1.toNat ∧ b1.toNat ≤ 0xBF) : validUtf8 (b0 :: b1 :: rest) = validUtf8 rest := by
  have n0 : ¬ b0 < 0x80 := fun h => by have := (lt_lit b0 0x80 (by decide)).mp h; omega
  have c0 : (decide (0xC2 ≤ b0) && decide (b0 ≤ 0xDF)) = true := rng b0 0xC2 0xDF (by decide) (by decide) h0
  have c1 : isCont b1 = true := (isCont_iff b1).mpr h1
  rw [validUtf8.eq_def]
  simp only [n0, if_false, c0, if_true, c1, Bool.true_and]

theorem valid3 (b0 b1 b2 : UInt8) (rest : Bytes) (h0 : 0xE0 ≤ b0.toNat ∧ b0.toNat ≤ 0xEF)
    (h1 : (if b0.toNat = 0xE0 then 0xA0 else 0x80) ≤ b1.toNat ∧ b1.toNat ≤ (if b0.toNat = 0xED then 0x9F else 0xBF))
    (h2 : 0x80 ≤ b2.toNat ∧ b2.toNat ≤ 0xBF) : validUtf8 (b0 :: b1 :: b2 :: rest) = validUtf8 rest := by
  have n0 : ¬ b0 < 0x80 := fun h => by have := (lt_lit b0 0x80 (by decide)).mp h; omega
  have n1 : (decide (0xC2 ≤ b0) && decide (b0 ≤ 0xDF)) = false := by
    rw [Bool.and_eq_false_iff]; right
    simp only [decide_eq_false_iff_not]
    intro h; have := (le_lit b0 0xDF (by decide)).mp h; omega
  have c0 : (decide (0xE0 ≤ b0) && decide (b0 ≤ 0xEF)) = true := rng b0 0xE0 0xEF (by decide) (by decide) h0
  have c2 : isCont b2 = true := (isCont_iff b2).mpr h2
  have e1 : (b0 == 0xE0) = decide (b0.toNat = 0xE0) := beq_lit b0 0xE0 (by decide)
  have e2 : (b0 == 0xED) = decide (b0.toNat = 0xED) := beq_lit b0 0xED (by decide)
  have ci : (if (b0 == 0xE0) = true then decide (0xA0 ≤ b1) && decide (b1 ≤ 0xBF)
      else if (b0 == 0xED) = true then decide (0x80 ≤ b1) && decide (b1 ≤ 0x9F) else isCont b1) = true := by
    rw [e1, e2]
    by_cases a1 : b0.toNat = 0xE0
    · have a2 : ¬ b0.toNat = 0xED := by omega
      simp only [a1, a2, if_true, if_false] at h1
      simp only [a1, decide_true, if_true]
      exact rng b1 0xA0 0xBF (by decide) (by decide) h1
    · by_cases a2 : b0.toNat = 0xED
      · simp only [a1, a2, if_true, if_false] at h1
        simp only [a1, a2, decide_false, decide_true, if_true, if_false, Bool.false_eq_true]
        exact rng b1 0x80 0x9F (by decide) (by decide) h1
      · simp only [a1, a2, if_false] at h1
        simp only [a1, a2, decide_false, if_false, Bool.false_eq_true]
        exact (isCont_iff b1).mpr h1
  rw [validUtf8.eq_def]
  simp only [n0, if_false, n1, c0, if_true, ci, c2, Bool.true_and, Bool.false_eq_true]

theorem valid4 (b0 b1 b2 b3 : UInt8) (rest : Bytes) (h0 : 0xF0 ≤ b0.toNat ∧ b0.toNat ≤ 0xF4)
    (h1 : (if b0.toNat = 0xF0 then 0x90 else 0x80) ≤ b1.toNat ∧ b1.toNat ≤ (if b0.toNat = 0xF4 then 0x8F else 0xBF))
    (h2 : 0x80 ≤ b2.toNat ∧ b2.toNat ≤ 0xBF) (h3 : 0x80 ≤ b3.toNat ∧ b3.toNat ≤ 0xBF) :
    validUtf8 (b0 :: b1 :: b2 :: b3 :: rest) = validUtf8 rest := by
  have n0 : ¬ b0 < 0x80 := fun h => by have := (lt_lit b0 0x80 (by decide)).mp h; omega
  have n1 : (decide (0xC2 ≤ b0) && decide (b0 ≤ 0xDF)) = false := by
    rw [Bool.and_eq_false_iff]; right
    simp only [decide_eq_false_iff_not]
    intro h; have := (le_lit b0 0xDF (by decide)).mp h; omega
  have n2 : (decide (0xE0 ≤ b0) && decide (b0 ≤ 0xEF)) = false := by
    rw [Bool.and_eq_false_iff]; right
    simp only [decide_eq_false_iff_not]
    intro h; have := (le_lit b0 0xEF (by decide)).mp h; omega
  have c0 : (decide (0xF0 ≤ b0) && decide (b0 ≤ 0xF4)) = true := rng b0 0xF0 0xF4 (by decide) (by decide) h0
  have c2 : isCont b2 = true := (isCont_iff b2).mpr h2
  have c3 : isCont b3 = true := (isCont_iff b3).mpr h3
  have e1 : (b0 == 0xF0) = decide (b0.toNat = 0xF0) := beq_lit b0 0xF0 (by decide)
  have e2 : (b0 == 0xF4) = decide (b0.toNat = 0xF4) := beq_lit b0 0xF4 (by decide)
  have ci : (if (b0 == 0xF0) = true then decide (0x90 ≤ b1) && decide (b1 ≤ 0xBF)
      else if (b0 == 0xF4) = true then decide (0x80 ≤ b1) && decide (b1 ≤ 0x8F) else isCont b1) = true := by
    rw [e1, e2]
    by_cases a1 : b0.toNat = 0xF0
    · have a2 : ¬ b0.toNat = 0xF4 := by omega
      simp only [a1, a2, if_true, if_false] at h1
      simp only [a1, decide_true, if_true]
      exact rng b1 0x90 0xBF (by decide) (by decide) h1
    · by_cases a2 : b0.toNat = 0xF4
      · simp only [a1, a2, if_true, if_false] at h1
        simp only [a1, a2, decide_false, decide_true, if_true, if_false, Bool.false_eq_true]
        exact rng b1 0x80 0x8F (by decide) (by decide) h1
      · simp only [a1, a2, if_false] at h1
        simp only [a1, a2, decide_false, if_false, Bool.false_eq_true]
        exact (isCont_iff b1).mpr h1
  rw [validUtf8.eq_def]
  simp only [n0, if_false, n1, n2, c0, if_true, ci, c2, c3, Bool.true_and, Bool.false_eq_true]

/-- the encoding of one scalar value is accepted and consumed -/
theorem validUtf8_encodeChar_append (c : Char) (rest : Bytes) :
    validUtf8 (String.utf8EncodeChar c ++ rest) = validUtf8 rest := by
  have hv : c.val.toNat < 55296 ∨ 57343 < c.val.toNat ∧ c.val.toNat < 1114112 := c.valid
  unfold String.utf8EncodeChar
  generalize c.val.toNat = v at hv
  simp only []
  split
  · apply valid1
    rw [Lemmas.Utf8.toNat_ofNat_lt _ (by omega)]; omega
  · split
    · apply valid2
      · rw [Lemmas.Utf8.toNat_ofNat_lt _ (by omega)]; omega
      · rw [Lemmas.Utf8.toNat_ofNat_lt _ (by omega)]; omega
    · split
      · apply valid3
        · rw [Lemmas.Utf8.toNat_ofNat_lt _ (by omega)]; omega
        · rw [Lemmas.Utf8.toNat_ofNat_lt (v / 4096 % 16 + 224) (by omega), Lemmas.Utf8.toNat_ofNat_lt (v / 64 % 64 + 128) (by omega)]
          constructor
          · split <;> omega
          · split <;> omega
        · rw [Lemmas.Utf8.toNat_ofNat_lt _ (by omega)]; omega
      · apply valid4
        · rw [Lemmas.Utf8.toNat_ofNat_lt _ (by omega)]; omega
        · rw [Lemmas.Utf8.toNat_ofNat_lt (v / 262144 % 8 + 240) (by omega), Lemmas.Utf8.toNat_ofNat_lt (v / 4096 % 64 + 128) (by omega)]
          constructor
          · split <;> omega
          · split <;> omega
        · rw [Lemmas.Utf8.toNat_ofNat_lt _ (by omega)]; omega
        · rw [Lemmas.Utf8.toNat_ofNat_lt _ (by omega)]; omega

theorem validUtf8_flatMap (cs : List Char) : validUtf8 (cs.flatMap String.utf8EncodeChar) = true := by
  induction cs with
  | nil => rfl
  | cons c r ih => rw [List.flatMap_cons, validUtf8_encodeChar_append, ih]

/-- **every string of a typed value is valid UTF-8 for the reader's recogniser** -/
theorem validUtf8_strBytes (s : String) : validUtf8 (strBytes s) = true := by
  obtain ⟨m, hm⟩ := s.isValidUTF8
  unfold strBytes String.toUTF8
  rw [Lemmas.Utf8.toList_eq, hm, List.utf8Encode, List.toList_data_toByteArray]
  exact validUtf8_flatMap m

end SaModel.Lemmas.C04Utf8
