import SaModel.Lemmas.C01Shape
/-
C05 — the documented-lossy cells of the Rust → Arrow mapping, and the proof that they are the only cells of
`Spec.interpScalar` (every leaf of `Spec.interpDT` goes through it) where the stored logical value is not the
value presented.  A *cell* is a pair (leaf kind of the column, serde scalar call).
-/
namespace SaModel.Props.C05
open SaModel SaModel.Build SaModel.Spec

/-- **The documented lossy cells** (serde_arrow/Status.md, float_builder.rs, decimal_builder.rs):
integer → float (`v as f32/f64`, chars included: they go through `u32`), float narrowing (f64 → f32, f32/f64 → f16),
and decimal columns fed from text or floats (digits beyond the declared scale are truncated). -/
def documentedLossy : LeafKind → SVal → Bool
  | .f32, .int _ _ | .f64, .int _ _ | .f32, .char _ | .f64, .char _ => true
  | .f32, .f64 _ | .f16, .f32 _ | .f16, .f64 _ => true
  | .decimal _ _, .str _ | .decimal _ _, .f32 _ | .decimal _ _, .f64 _ => true
  | _, _ => false

/-- the same on data types (`kindOf`: the leaf-kind table of `interpScalar`); string, binary and Null columns have none -/
def documentedLossyDT (dt : DataType) (x : SVal) : Bool :=
  match kindOf dt with
  | some k => documentedLossy k x
  | none => false

/-- the number a scalar call presents (a bool is 0 / 1, a char its code point) -/
def numOf : SVal → Option Int
  | .bool b => some (boolInt b)
  | .int _ v => some v
  | .char c => some (c : Int)
  | _ => none

/-- temporal text goes through the codecs (`Ext.parse…`; their exactness is C14); Time32 additionally narrows checked -/
def parseTemporal (ext : Ext) : LeafKind → String → Option (R Int)
  | .date32, s => some (ext.parseDate false s)
  | .date64, s => some (ext.parseDate true s)
  | .time32 u, s => some (do tryInto .i32 (← ext.parseTime u s))
  | .time64 u, s => some (ext.parseTime u s)
  | .timestamp u _ utc, s => some (ext.parseTimestamp u utc s)
  | .duration u, s => some (ext.parseDuration u s)
  | _, _ => none

/-- What "stored unchanged" means for the storage integer `w` of a leaf builder of kind `k` and the scalar `x`:
numbers by value, floats of the column's own width by bit pattern, f32 → f64 by the (exact) IEEE widening, temporal
text by the codec. -/
inductive StoredExact (ext : Ext) : LeafKind → SVal → Int → Prop
  | num {k x w} (h : numOf x = some w) : StoredExact ext k x w
  | f32 (b : Nat) : StoredExact ext .f32 (.f32 b) b
  | f64 (b : Nat) : StoredExact ext .f64 (.f64 b) b
  | widen (b : Nat) : StoredExact ext .f64 (.f32 b) (Float.convert Float.f32 Float.f64 b)
  | text {k s r w} (hp : parseTemporal ext k s = some r) (hr : r = .ok w) : StoredExact ext k (.str s) w

theorem tryInto_ok {t : IntTy} {v w : Int} (h : tryInto t v = .ok w) : w = v := by
  unfold tryInto at h
  split at h
  · cases h; rfl
  · cases h

/-- every accepting cell of `convLeaf` is a documented lossy one or stores the value unchanged -/
theorem convLeaf_exact (ext : Ext) (k : LeafKind) (x : SVal) (w : Int) (h : convLeaf ext k x = .ok w)
    (hl : documentedLossy k x = false) : StoredExact ext k x w := by
  cases x with
  | bool b =>
    cases k <;> simp only [convLeaf, notSupported, fail] at h <;> try (cases h; done)
    · cases h; exact .num rfl
    · exact .num (by rw [tryInto_ok h]; rfl)
  | int t v =>
    cases k <;> simp only [documentedLossy] at hl <;> try (cases hl; done)
    all_goals first
      | (cases t <;> simp only [convLeaf, notSupported, fail] at h <;> first
          | (cases h; done)
          | (cases h; exact .num rfl)
          | (exact .num (by rw [tryInto_ok h]; rfl))
          | (split at h <;> first | (cases h; done) | (cases h; exact .num rfl) | exact .num (by rw [tryInto_ok h]; rfl)))
  | char c =>
    cases k <;> simp only [documentedLossy] at hl <;> try (cases hl; done)
    all_goals simp only [convLeaf, notSupported, fail] at h <;> first
      | (cases h; done)
      | exact .num (by rw [tryInto_ok h]; rfl)
  | f32 b =>
    cases k <;> simp only [documentedLossy] at hl <;> try (cases hl; done)
    all_goals simp only [convLeaf, notSupported, fail] at h <;> first
      | (cases h; done)
      | (cases h; exact .f32 b)
      | (cases h; exact .widen b)
  | f64 b =>
    cases k <;> simp only [documentedLossy] at hl <;> try (cases hl; done)
    all_goals simp only [convLeaf, notSupported, fail] at h <;> first
      | (cases h; done)
      | (cases h; exact .f64 b)
  | str s =>
    cases k <;> simp only [documentedLossy] at hl <;> try (cases hl; done)
    all_goals simp only [convLeaf, notSupported, fail] at h <;> first
      | (cases h; done)
      | exact .text rfl h
  | _ => cases k <;> simp only [convLeaf, notSupported, fail] at h <;> cases h

/-- What "the stored logical value is the value presented" means at the level of `interpScalar`:
* `bool`    a bool in a Boolean column;
* `int`     a number (bool as 0/1, char as code point, any integer width) in an integer-backed column: same number;
* `float`   a float in a float column of the same width: same bit pattern; f32 into Float64: the IEEE widening;
* `codec`   temporal text in a temporal column: the value the codec returns (C14);
* `text`    a scalar in a string / dictionary column: its `to_string()` — for a `str` the string itself;
* `bytes`   bytes in a binary column: the same bytes (FixedSizeBinary: of exactly the declared length);
* `unit`    a unit struct in a Null column. -/
inductive Faithful (ext : Ext) : DataType → SVal → LVal → Prop
  | bool {dt} (b : Bool) (hk : kindOf dt = some .bool) : Faithful ext dt (.bool b) (.bool b)
  | int {dt x k w} (hk : kindOf dt = some k) (hx : numOf x = some w) : Faithful ext dt x (.int w)
  | float32 (b : Nat) : Faithful ext .float32 (.f32 b) (.float b)
  | float64 (b : Nat) : Faithful ext .float64 (.f64 b) (.float b)
  | widen (b : Nat) : Faithful ext .float64 (.f32 b) (.float (Float.convert Float.f32 Float.f64 b))
  | codec {dt k s r w} (hk : kindOf dt = some k) (hp : parseTemporal ext k s = some r) (hr : r = .ok w) :
      Faithful ext dt (.str s) (.int w)
  | text {dt x s} (hd : dt = .utf8 ∨ dt = .largeUtf8 ∨ dt = .utf8View)
      (hs : scalarToString ext x = some s) : Faithful ext dt x (.str (strBytes s))
  /-- a dictionary column: the string form of the scalar, at the VALUE type of the dictionary (the string itself for
  the string types, the parsed value for `Dictionary(_, Date32)` … — `Spec.interpDictStr`) -/
  | dict {kt vt x s lv} (hs : scalarToString ext x = some s) (hv : interpDictStr ext vt s = .ok lv) :
      Faithful ext (.dictionary kt vt) x lv
  | bytes {dt} (b : Bytes) (hd : dt = .binary ∨ dt = .largeBinary ∨ dt = .binaryView ∨ dt = .fixedSizeBinary b.length) :
      Faithful ext dt (.bytes b) (.bin b)
  | unit (n : String) : Faithful ext .null (.unitStruct n) .null

theorem boolInt_ne_zero' (b : Bool) : (boolInt b != 0) = b := by cases b <;> rfl

theorem bind_ok' {α β} (r : R α) (f : α → R β) (v : β) (h : (r >>= f) = .ok v) : ∃ a, r = .ok a ∧ f a = .ok v := by
  cases r with
  | error e => cases h
  | ok a => exact ⟨a, rfl, h⟩

/-- **the documented lossy cells are the only ones**: wherever `interpScalar` is defined outside them, the logical
value is the value presented -/
theorem interpScalar_faithful (ext : Ext) (dt : DataType) (x : SVal) (lv : LVal)
    (h : interpScalar ext dt x = .ok lv) (hl : documentedLossyDT dt x = false) : Faithful ext dt x lv := by
  cases hk : kindOf dt with
  | some k =>
    rw [interpScalar_kind hk, normErr_ok_iff] at h
    obtain ⟨w, hc, hp⟩ := bind_ok' _ _ _ h
    simp only [pure, Except.pure, Except.ok.injEq] at hp
    subst hp
    simp only [documentedLossyDT, hk] at hl
    have hs := convLeaf_exact ext k x w hc hl
    cases hs with
    | num hx =>
      cases k with
      | bool =>
        -- only a bool reaches a Boolean column
        cases x <;> simp only [convLeaf, notSupported, fail] at hc <;> try (cases hc; done)
        cases hc
        simp only [leafVal, boolInt_ne_zero']
        exact .bool _ hk
      | f16 | f32 | f64 =>
        -- no number is stored unchanged in a float column: int / char are lossy cells, bool is refused
        cases x <;> simp only [numOf] at hx <;> try (cases hx; done)
        all_goals first
          | (simp only [documentedLossy] at hl; cases hl; done)
          | (simp only [convLeaf, notSupported, fail] at hc; cases hc; done)
      | _ => exact .int hk hx
    | f32 b => cases dt <;> simp [kindOf] at hk; exact .float32 b
    | f64 b => cases dt <;> simp [kindOf] at hk; exact .float64 b
    | widen b => cases dt <;> simp [kindOf] at hk; exact .widen b
    | text hp hr =>
      cases k <;> simp only [parseTemporal] at hp <;> try (cases hp; done)
      all_goals exact .codec hk (by simp only [parseTemporal]; exact hp) hr
  | none =>
    cases dt <;> simp only [kindOf] at hk <;> try (cases hk; done)
    all_goals simp only [interpScalar_eq_old, normErr_ok_iff, interpScalarOld] at h
    case utf8 | largeUtf8 | utf8View =>
      split at h
      · cases h; exact .text (by simp) (by assumption)
      · cases h
    case dictionary kt vt =>
      split at h
      · exact .dict (by assumption) h
      · cases h
    case binary | largeBinary | binaryView =>
      split at h
      · cases h; exact .bytes _ (by simp)
      · cases h
    case fixedSizeBinary n =>
      split at h
      · split at h
        · cases h; rename_i hn; exact .bytes _ (by simp [hn])
        · cases h
      · cases h
    case null =>
      split at h
      · cases h; exact .unit _
      · cases h
    all_goals (cases h)

end SaModel.Props.C05
