import SaModel.Props.C16
import SaModel.Lemmas.C01LeafBridge
/-
C05 / C01 — the parser parameters of the leaf specification (`Spec.textValue ext`, Spec/Leaf.lean) instantiated with
the codec models the correspondence driver uses (`Props.C16.codecExt`, = `extOfAux` of Driver/Suites/Build.lean), and
tied to the PARSER SPECIFICATIONS of C15 / C14 — definitions that do not mention the codec models:

  specLeaf_decimal_text_codec    Decimal128(p, s), 1 ≤ p ≤ 38, any text:  specLeaf = (Spec.Decimal.expected p s bytes).map .int
                                 (`expected`: the decimal grammar, ⌊|value|·10^s⌋ < 10^p, sign — Spec/Decimal.lean)
  specLeaf_duration_text_codec   Duration(u), any text: defined with value v  ⇔  the text is a span (`parseSpan`) whose
                                 `Props.C14.specDuration` (exact nanoseconds, floor to the unit, sign, i64 range) is v

For these two cells the specification's value is therefore fixed by definitions independent of every model of the crate
except the span GRAMMAR (`Codec.parseSpan`).  Dates, times and timestamps: C14 characterises the codec's value
(`date_exact`, `timeOfString_exact`, `timestamp_exact`) relative to the hand-written model of chrono's `FromStr`
(`parseNaiveDate` …); there is no text-level specification independent of that model, so those cells keep the parameter.
-/
namespace SaModel.Props.C05
open SaModel SaModel.Build SaModel.Spec SaModel.Props.C16

theorem specLeaf_decimal_text_codec (f32Str f64Str : Nat → String) (cast : Nat → Int → Bool → Nat → Option (Bool × Int))
    (p : Nat) (s : Int) (t : String) (hp1 : 1 ≤ p) (hp : p ≤ 38) :
    specLeaf (codecExt f32Str f64Str cast) (.decimal128 p s) (.str t) =
      (Spec.Decimal.expected p s t.toUTF8.toList).map .int := by
  simp only [specLeaf, decimalCell, textValue, codecExt]
  rcases SaModel.Props.C15.serializeStr_spec p s t.toUTF8.toList hp1 hp with ⟨v, h1, h2⟩ | ⟨h1, m, h2⟩
  · rw [h1, h2]; rfl
  · rw [h1, h2]; rfl

theorem specLeaf_duration_text_codec (f32Str f64Str : Nat → String) (cast : Nat → Int → Bool → Nat → Option (Bool × Int))
    (u : TimeUnit) (t : String) (v : Int) :
    specLeaf (codecExt f32Str f64Str cast) (.duration u) (.str t) = some (.int v) ↔
      ∃ sp, SaModel.Codec.parseSpan t.toList = .ok sp ∧ SaModel.Props.C14.specDuration sp (codecUnit u) = some v := by
  simp only [specLeaf, durationCell, textValue, codecExt, SaModel.Codec.durationOfString]
  cases hp : SaModel.Codec.parseSpan t.toList with
  | error e => simp [bind, Except.bind, Except.toOption]
  | ok sp =>
    have := SaModel.Props.C14.span_ok_iff t.toList sp (codecUnit u) v hp
    simp only [bind, Except.bind, Except.ok.injEq, exists_eq_left']
    rw [← this]
    cases sp.toArrowDuration (codecUnit u) <;> simp [Except.toOption]

/-- non-vacuity: `"-12.345"` in `Decimal128(5, 2)` is `-1234` (truncation to the scale: documented lossy), `"123456"`
has no value in `Decimal128(5, 0)`; `PT1.5S` in `Duration(Millisecond)` is 1500 -/
example : specLeaf (codecExt (fun _ => "") (fun _ => "") (fun _ _ _ _ => none)) (.decimal128 5 2) (.str "-12.345") = some (.int (-1234)) ∧
    specLeaf (codecExt (fun _ => "") (fun _ => "") (fun _ _ _ _ => none)) (.decimal128 5 0) (.str "123456") = none := by
  rw [specLeaf_decimal_text_codec _ _ _ 5 2 _ (by decide) (by decide), specLeaf_decimal_text_codec _ _ _ 5 0 _ (by decide) (by decide)]
  decide +kernel

example : specLeaf (codecExt (fun _ => "") (fun _ => "") (fun _ _ _ _ => none)) (.duration .millisecond) (.str "PT1.5S") = some (.int 1500) := by
  decide +kernel

end SaModel.Props.C05
