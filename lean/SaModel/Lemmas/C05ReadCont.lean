import SaModel.Lemmas.C05ReadLeaf
import SaModel.Lemmas.C02TypedCont
/-
C05, reader direction, part 2: the side condition `noKnown` (the two recorded known findings, anywhere in the value)
and one rejection lemma per target constructor.  `Rej t`: whenever the value-level specification `cast t` says the
read of a slot must fail, `readAs t` fails.  Every lemma takes `Rej` of the component targets as hypotheses;
`Props/C05.lean` ties the knot by structural recursion over `Target`.
-/
namespace SaModel.Read
open SaModel SaModel.Spec

/-! ### the side condition -/

def allVals (f : LVal → Bool) : LVals → Bool
  | .nil => true
  | .cons v r => f v && allVals f r

def allEntries (fk fv : LVal → Bool) : LEntries → Bool
  | .nil => true
  | .cons k v r => fk k && fv v && allEntries fk fv r

def allStructAsMap (f : Arr → LVal → Bool) : ArrFields → LFields → Bool
  | .cons _ a rest, .cons _ lv lrest => f a lv && allStructAsMap f rest lrest
  | _, _ => true

/-- **known finding #23** (C05-null-container-into-non-option) at a struct column: a null slot read into a tuple /
struct / map target -/
def structPart (f : ArrFields → LFields → Bool) (a : Arr) (lv : LVal) : Bool :=
  match a, lv with
  | .struct _ _ fs, .struct lfs => f fs lfs
  | .struct _ _ _, .null => false
  | _, _ => true

mutual
/-- `noKnown t a lv`: reading the value `lv` of column `a` into `t` meets neither known finding anywhere:
* #23 — a NULL Struct / List / LargeList / FixedSizeList / Map slot read into a non-`Option` container target
  (`Vec`, tuple, tuple struct, map, struct, tuple / struct variant payload, `ByteBuf` from a list);
* #24 — an integer column read as `bool` with a value other than 0 / 1.
Mirrors the recursion of `cast` (decidable: a `Bool`). -/
def noKnown : Target → Arr → LVal → Bool
  | .any, _, _ => true
  | .ignored, _, _ => true
  | .option t, a, lv =>
    match lv with
    | .null => true
    | lv => noKnown t a lv
  | .newtype t, a, lv => noKnown t a lv
  | .seq t, a, lv =>
    match a, lv with
    | .list _ _ _ _ el, .list items => allVals (fun v => noKnown t el v) items
    | .fixedSizeList _ _ _ _ el, .list items => allVals (fun v => noKnown t el v) items
    | .list _ _ _ _ _, .null => false
    | .fixedSizeList _ _ _ _ _, .null => false
    | _, _ => true
  | .tuple ts, a, lv => structPart (fun fs lfs => noKnownTuple ts fs lfs) a lv
  | .tupleStruct ts, a, lv => structPart (fun fs lfs => noKnownTuple ts fs lfs) a lv
  | .map k v, a, lv =>
    match a, lv with
    | .struct _ _ fs, .struct lfs => allStructAsMap (fun c w => noKnown v c w) fs lfs
    | .map _ _ _ ks vs, .map es => allEntries (fun w => noKnown k ks w) (fun w => noKnown v vs w) es
    | .struct _ _ _, .null => false
    | .map _ _ _ _ _, .null => false
    | _, _ => true
  | .struct tfs, a, lv => structPart (fun fs lfs => noKnownFields tfs fs lfs) a lv
  | .enum byIndex vs, a, lv =>
    match a, lv with
    | .union _ _ fs, .union t v =>
      (match ArrUFields.findId fs t with
       | none => true
       | some (fm, child) =>
         if byIndex then noKnownVariant vs (some t.toNat) fm.name child v else noKnownVariant vs none fm.name child v)
    | _, _ => true
  | .bool, a, lv => !intAsBool .bool a lv
  | .byteBuf, a, lv =>
    match a, lv with
    | .list _ _ _ _ _, .null => false
    | _, _ => true
  | .unit, _, _ => true
  | .unitStruct, _, _ => true
  | .int _, _, _ => true
  | .f32, _, _ => true
  | .f64, _, _ => true
  | .char, _, _ => true
  | .string, _, _ => true
  | .str, _, _ => true
  | .bytes, _, _ => true
def noKnownTuple : Targets → ArrFields → LFields → Bool
  | .cons t rest, .cons _ a frest, .cons _ v lrest => noKnown t a v && noKnownTuple rest frest lrest
  | _, _, _ => true
def noKnownFields : TFields → ArrFields → LFields → Bool
  | .nil, _, _ => true
  | .cons n t rest, fs, lfs =>
    (match fieldNamed fs lfs n with
     | some (a, v) => noKnown t a v
     | none => true) && noKnownFields rest fs lfs
def noKnownVariant : TVariants → Option Nat → String → Arr → LVal → Bool
  | .nil, _, _, _, _ => true
  | .cons n k rest, sel, name, child, v =>
    if (match sel with | some i => i == 0 | none => n == name) then noKnownKind k child v
    else noKnownVariant rest (sel.map (· - 1)) name child v
def noKnownKind : VKind → Arr → LVal → Bool
  | .unit, _, _ => true
  | .newtype t, child, v => noKnown t child v
  | .tuple ts, child, v => structPart (fun fs lfs => noKnownTuple ts fs lfs) child v
  | .struct tfs, child, v => structPart (fun fs lfs => noKnownFields tfs fs lfs) child v
end

def Rej (t : Target) : Prop :=
  ∀ (a : Arr) (i : Nat) (lv : LVal) (e : Fail), decodeAt a i = .ok lv → new Fixes.all a = .ok () → physical a = true →
    utf8Ok lv = true → noKnown t a lv = true → cast t a lv = .error e → (readAs Fixes.all t a i).isOk = false

/-! ### combinators -/

theorem andThen_err {x : Claim} {f : DVal → Claim} {e : Fail} (hf : ∀ d e', f d ≠ .error e')
    (h : x.andThen f = .error e) : x = .error e := by
  unfold Claim.andThen at h
  split at h
  · exact absurd h (hf _ _)
  · simp [na] at h
  · exact h

theorem andThenL_err {x : R (Option (List DVal))} {f : List DVal → Claim} {e : Fail} (hf : ∀ d e', f d ≠ .error e')
    (h : andThenL x f = .error e) : x = .error e := by
  unfold andThenL at h
  split at h
  · exact absurd h (hf _ _)
  · simp [na] at h
  · cases h; rfl

theorem andThenE_err {x : R (Option (List (DVal × DVal)))} {f : List (DVal × DVal) → Claim} {e : Fail}
    (hf : ∀ d e', f d ≠ .error e') (h : andThenE x f = .error e) : x = .error e := by
  unfold andThenE at h
  split at h
  · exact absurd h (hf _ _)
  · simp [na] at h
  · cases h; rfl

theorem must_ne_err {d : DVal} {e : Fail} : must d ≠ .error e := by simp [must]

theorem consClaim_err {α} {x : R (Option α)} {rest : R (Option (List α))} {e : Fail}
    (h : consClaim x rest = .error e) : (∃ e', x = .error e') ∨ (∃ e', rest = .error e') := by
  unfold consClaim at h
  split at h
  · exact .inl ⟨_, rfl⟩
  · split at h
    · exact .inr ⟨_, rfl⟩
    · cases h
  · split at h
    · cases h
    · exact .inr ⟨_, h⟩

theorem claimVals_err {c : LVal → Claim} : ∀ (xs : List LVal) (e : Fail), claimVals c (LVals.ofList xs) = .error e →
    ∃ v ∈ xs, ∃ e', c v = .error e'
  | [], e, h => by simp [LVals.ofList, claimVals] at h
  | x :: xs, e, h => by
    simp only [LVals.ofList, claimVals] at h
    rcases consClaim_err h with ⟨e', h1⟩ | ⟨e', h2⟩
    · exact ⟨x, by simp, e', h1⟩
    · obtain ⟨v, hv, r⟩ := claimVals_err xs e' h2
      exact ⟨v, by simp [hv], r⟩

theorem allVals_mem {f : LVal → Bool} : ∀ (xs : List LVal), allVals f (LVals.ofList xs) = true → ∀ v ∈ xs, f v = true
  | [], _, v, hv => by cases hv
  | x :: xs, h, v, hv => by
    simp only [LVals.ofList, allVals, Bool.and_eq_true] at h
    rcases List.mem_cons.1 hv with rfl | hv
    · exact h.1
    · exact allVals_mem xs h.2 v hv

theorem readRange_fails {f : Nat → R LVal} {g : Nat → R DVal} {bad : LVal → Prop}
    (hfg : ∀ j v, f j = .ok v → bad v → (g j).isOk = false) :
    ∀ (n s : Nat) (xs : List LVal), seqAt f s n = .ok xs → (∃ v ∈ xs, bad v) → (readRange g s n).isOk = false
  | 0, s, xs, hs, hb => by
    unfold seqAt at hs; cases hs
    obtain ⟨v, hv, _⟩ := hb; cases hv
  | n + 1, s, xs, hs, hb => by
    unfold seqAt at hs
    obtain ⟨v, hv, hs⟩ := bind_ok_inv hs
    obtain ⟨vs, hvs, hs⟩ := bind_ok_inv hs
    cases hs
    unfold readRange
    obtain ⟨w, hw, hbw⟩ := hb
    rcases List.mem_cons.1 hw with rfl | hw
    · exact bind_fails_left (hfg s _ hv hbw)
    · exact bind_fails fun _ _ => bind_fails_left (readRange_fails hfg n (s + 1) vs hvs ⟨w, hw, hbw⟩)

theorem mapM_fails {α β} {f : α → R β} : ∀ (l : List α), (∃ x ∈ l, (f x).isOk = false) → (l.mapM f).isOk = false
  | [], h => by obtain ⟨x, hx, _⟩ := h; cases hx
  | y :: l, h => by
    rw [List.mapM_cons]
    obtain ⟨x, hx, hf⟩ := h
    rcases List.mem_cons.1 hx with rfl | hx
    · exact bind_fails_left hf
    · exact bind_fails fun _ _ => bind_fails_left (mapM_fails l ⟨x, hx, hf⟩)

/-! ### targets without components -/

theorem rej_any : Rej .any := by
  intro a i lv e _ _ _ _ _ hc
  simp [cast, must] at hc

theorem rej_ignored : Rej .ignored := by
  intro a i lv e _ _ _ _ _ hc
  simp [cast, must] at hc

theorem rej_scalar {t : Target} {m : Method} (hm : methodOf t = some m) (hc' : ∀ a lv, cast t a lv = castScalar t a lv)
    (hk' : ∀ a lv, noKnown t a lv = true → intAsBool t a lv = false)
    (hr : ∀ a i, readAs Fixes.all t a i = (scalar Fixes.all m a i >>= accept t)) : Rej t := by
  intro a i lv e h hn hp hu hk hc
  rw [hc'] at hc
  rw [hr]
  exact scalar_rej hm a i lv e h hn hp hu (hk' a lv hk) hc

theorem intAsBool_not_bool {t : Target} (ht : t ≠ .bool) (a : Arr) (lv : LVal) : intAsBool t a lv = false := by
  unfold intAsBool
  split
  · exact absurd rfl ht
  · rfl

theorem list_range_facts {lg : Bool} {v : Option Bits} {offs : List Int} {fm : FieldMeta} {el : Arr} {i : Nat} {xs : List LVal}
    (hi : i < offs.length - 1)
    (hxs : rangeAt (decodeAt el) (lenOf el) (offs.getD i 0) (offs.getD (i + 1) 0) = .ok xs) :
    ∃ s e, listRange Fixes.all offs i = .ok (s, e) ∧ seqAt (decodeAt el) s (e - s) = .ok xs := by
  let _ := lg; let _ := v; let _ := fm
  obtain ⟨h0, h1, _, hseq⟩ := rangeAt_ok hxs
  exact ⟨_, _, listRange_eval hi h0 h1, hseq⟩

theorem rej_bytes : Rej .bytes := by
  intro a i lv e h hn hp hu hk hc
  simp only [cast] at hc
  by_cases hl : ∃ lg v offs fm el, a = .list lg v offs fm el
  · obtain ⟨lg, v, offs, fm, el, rfl⟩ := hl
    simp only [readAs]
    exact bind_fails fun _ _ => rfl
  · have hr : readAs Fixes.all .bytes a i = (scalar Fixes.all .bytes a i >>= accept .bytes) := by
      cases a <;> first | rfl | exact absurd ⟨_, _, _, _, _, rfl⟩ hl
    rw [hr]
    exact scalar_rej rfl a i lv e h hn hp hu (intAsBool_not_bool (by simp) a lv) hc

theorem rej_byteBuf : Rej .byteBuf := by
  intro a i lv e h hn hp hu hk hc
  simp only [cast] at hc
  by_cases hl : ∃ lg v offs fm el, a = .list lg v offs fm el
  · obtain ⟨lg, v, offs, fm, el, rfl⟩ := hl
    obtain ⟨hi, hlv⟩ := list_inv h
    rcases hlv with rfl | ⟨xs, hxs, rfl⟩
    · simp [noKnown] at hk
    · have hcl := andThenL_err (fun _ _ => must_ne_err) hc
      obtain ⟨w, hw, e', hwe⟩ := claimVals_err xs e hcl
      obtain ⟨s, en, hr, hseq⟩ := list_range_facts (lg := lg) (v := v) (fm := fm) hi hxs
      unfold physical at hp
      simp only [utf8Ok] at hu
      have hf := readRange_fails (g := fun j => scalar Fixes.all (.int .u8) el j >>= accept (.int .u8))
        (bad := fun x => utf8Ok x = true ∧ ∃ e', castScalar (.int .u8) el x = .error e')
        (fun j x hj hb => scalar_rej (t := .int .u8) rfl el j x _ hj (new_list_inv hn) hp hb.1
          (intAsBool_not_bool (by simp) el x) hb.2.choose_spec) _ _ xs hseq
        ⟨w, hw, utf8OkList_mem xs hu w hw, e', hwe⟩
      simp only [readAs, hr, bind, Except.bind] at hf ⊢
      exact bind_fails_left hf
  · have hc : castScalar .byteBuf a lv = .error e := by
      revert hc
      cases a <;> first | exact id | exact absurd ⟨_, _, _, _, _, rfl⟩ hl
    have hr : readAs Fixes.all .byteBuf a i = (scalar Fixes.all .byteBuf a i >>= accept .byteBuf) := by
      cases a <;> first | rfl | exact absurd ⟨_, _, _, _, _, rfl⟩ hl
    rw [hr]
    exact scalar_rej rfl a i lv e h hn hp hu (intAsBool_not_bool (by simp) a lv) hc

theorem rej_option {t : Target} (hS : Rej t) : Rej (.option t) := by
  intro a i lv e h hn hp hu hk hc
  have hs := isSome_of_decode a i lv h hn hp hu
  simp only [readAs, hs, bind, Except.bind]
  cases lv with
  | null => simp [cast, must] at hc
  | _ =>
    simp only [cast] at hc
    simp only [noKnown] at hk
    have hc1 := andThen_err (fun _ _ => must_ne_err) hc
    simp only [LVal.isNull, Bool.not_false, if_true]
    exact bind_fails_left (hS a i _ e h hn hp hu hk hc1)

theorem rej_newtype {t : Target} (hS : Rej t) : Rej (.newtype t) := by
  intro a i lv e h hn hp hu hk hc
  simp only [cast] at hc
  simp only [noKnown] at hk
  simp only [readAs]
  exact hS a i lv e h hn hp hu hk hc

/-! ### sequences -/

theorem u8Claim_err {t : Target} {x : UInt8} {e : Fail} (h : u8Claim t x = .error e) : (u8As t x).isOk = false := by
  cases t <;> simp only [u8Claim, must, reduceCtorEq] at h <;> try (simp [u8As, fail, R.isOk]; done)
  case int ty =>
    split at h
    · cases h
    · rename_i hr
      simp [u8As, hr, fail, R.isOk]

theorem claimList_err : ∀ (cs : List Claim) (e : Fail), claimList cs = .error e → ∃ c ∈ cs, ∃ e', c = .error e'
  | [], e, h => by simp [claimList] at h
  | c :: cs, e, h => by
    simp only [claimList] at h
    rcases consClaim_err h with ⟨e', h1⟩ | ⟨e', h2⟩
    · exact ⟨c, by simp, e', h1⟩
    · obtain ⟨c', hc', r⟩ := claimList_err cs e' h2
      exact ⟨c', by simp [hc'], r⟩

theorem castBinSeq_err {t : Target} {b : Bytes} {e : Fail} (h : castBinSeq t b = .error e) :
    (b.mapM (u8As t)).isOk = false := by
  unfold castBinSeq at h
  split at h
  · simp [must] at h
  · simp [na] at h
  · rename_i e' he
    obtain ⟨c, hc, e'', hce⟩ := claimList_err _ _ he
    obtain ⟨x, hx, rfl⟩ := List.mem_map.1 hc
    exact mapM_fails b ⟨x, hx, u8Claim_err hce⟩

theorem fsl_range_facts {len : Nat} {n : Int} {el : Arr} {i : Nat} {xs : List LVal}
    (hi : i < len) (hn0 : 0 ≤ n) (hlen : lenOf el ≤ usizeMax)
    (hxs : rangeAt (decodeAt el) (lenOf el) (i * n) ((i + 1) * n) = .ok xs) :
    ∃ s e, fslRange Fixes.all len n i = .ok (s, e) ∧ seqAt (decodeAt el) s (e - s) = .ok xs := by
  obtain ⟨_, _, hle, hseq⟩ := rangeAt_ok hxs
  have hlt : ¬ i ≥ len := by omega
  have e1 : ((i : Int) * n).toNat = i * n.toNat := by
    have : (i : Int) * n = ((i * n.toNat : Nat) : Int) := by
      rw [Int.natCast_mul, Int.toNat_of_nonneg hn0]
    rw [this, Int.toNat_natCast]
  have e2 : (((i : Int) + 1) * n).toNat = (i + 1) * n.toNat := by
    have : ((i : Int) + 1) * n = (((i + 1) * n.toNat : Nat) : Int) := by
      rw [Int.natCast_mul, Int.toNat_of_nonneg hn0]; simp
    rw [this, Int.toNat_natCast]
  have hfit : ¬ (i + 1) * n.toNat > usizeMax := by
    have : (((i + 1) * n.toNat : Nat) : Int) ≤ (lenOf el : Int) := by
      rw [Int.natCast_mul, Int.toNat_of_nonneg hn0]; simpa using hle
    omega
  have hrange : fslRange Fixes.all len n i = .ok (i * n.toNat, (i + 1) * n.toNat) := by
    unfold fslRange
    simp only [hlt, if_false, tryIntoUsize_nonneg hn0, bind, Except.bind, hfit, pure, Except.pure]
  rw [e1, e2] at hseq
  exact ⟨_, _, hrange, hseq⟩

theorem rej_seq {t : Target} (hS : Rej t) : Rej (.seq t) := by
  intro a i lv e h hn hp hu hk hc
  cases a with
  | list lg v offs fm el =>
    obtain ⟨hi, hlv⟩ := list_inv h
    rcases hlv with rfl | ⟨xs, hxs, rfl⟩
    · simp [noKnown] at hk
    · simp only [cast] at hc
      simp only [noKnown] at hk
      have hcl := andThenL_err (fun _ _ => must_ne_err) hc
      obtain ⟨w, hw, e', hwe⟩ := claimVals_err xs e hcl
      obtain ⟨s, en, hr, hseq⟩ := list_range_facts (lg := lg) (v := v) (fm := fm) hi hxs
      unfold physical at hp
      simp only [utf8Ok] at hu
      have hf := readRange_fails (g := fun j => readAs Fixes.all t el j)
        (bad := fun x => utf8Ok x = true ∧ noKnown t el x = true ∧ ∃ e', cast t el x = .error e')
        (fun j x hj hb => hS el j x _ hj (new_list_inv hn) hp hb.1 hb.2.1 hb.2.2.choose_spec) _ _ xs hseq
        ⟨w, hw, utf8OkList_mem xs hu w hw, allVals_mem xs hk w hw, e', hwe⟩
      simp only [readAs, hr, bind, Except.bind]
      exact bind_fails_left hf
  | fixedSizeList len v n fm el =>
    obtain ⟨hi, hlv⟩ := fsl_inv h
    rcases hlv with rfl | ⟨xs, hneg, hxs, rfl⟩
    · simp [noKnown] at hk
    · simp only [cast] at hc
      simp only [noKnown] at hk
      have hcl := andThenL_err (fun _ _ => must_ne_err) hc
      obtain ⟨w, hw, e', hwe⟩ := claimVals_err xs e hcl
      obtain ⟨hnew, hn0⟩ := new_fsl_inv hn
      unfold physical at hp
      simp only [Bool.and_eq_true, decide_eq_true_eq] at hp
      obtain ⟨s, en, hr, hseq⟩ := fsl_range_facts hi hn0 hp.1 hxs
      simp only [utf8Ok] at hu
      have hf := readRange_fails (g := fun j => readAs Fixes.all t el j)
        (bad := fun x => utf8Ok x = true ∧ noKnown t el x = true ∧ ∃ e', cast t el x = .error e')
        (fun j x hj hb => hS el j x _ hj hnew hp.2 hb.1 hb.2.1 hb.2.2.choose_spec) _ _ xs hseq
        ⟨w, hw, utf8OkList_mem xs hu w hw, allVals_mem xs hk w hw, e', hwe⟩
      simp only [readAs, hr, bind, Except.bind]
      exact bind_fails_left hf
  | bytes ty v offs data =>
    rcases bytes_get h hu with ⟨rfl, hg⟩ | ⟨b, rfl, hg⟩
    · cases hty : isUtf8Ty ty <;>
        simp [readAs, binaryElems, hty, hg, getRequired, bind, Except.bind, fail, notImpl, R.isOk]
    · cases hty : isUtf8Ty ty
      · simp only [cast, bytesVal, hty, isBinaryLike, Bool.false_eq_true, if_false, Bool.not_false, if_true] at hc
        have := castBinSeq_err hc
        simp only [readAs, binaryElems, hty, Bool.false_eq_true, if_false, hg, getRequired, bind, Except.bind, pure,
          Except.pure]
        exact bind_fails_left this
      · simp [readAs, binaryElems, hty, notImpl, fail, R.isOk]
  | bytesView ty v views buffers =>
    rcases view_get h hu with ⟨rfl, hg⟩ | ⟨b, rfl, hg⟩
    · cases hty : isUtf8View ty <;>
        simp [readAs, binaryElems, hty, hg, getRequired, bind, Except.bind, fail, notImpl, R.isOk]
    · cases hty : isUtf8View ty
      · simp only [cast, bytesVal, hty, isBinaryLike, Bool.false_eq_true, if_false, Bool.not_false, if_true] at hc
        have := castBinSeq_err hc
        simp only [readAs, binaryElems, hty, Bool.false_eq_true, if_false, hg, getRequired, bind, Except.bind, pure,
          Except.pure]
        exact bind_fails_left this
      · simp [readAs, binaryElems, hty, notImpl, fail, R.isOk]
  | fixedSizeBinary n v data =>
    rcases fsb_get h hn with ⟨rfl, hg⟩ | ⟨b, rfl, hg⟩
    · simp [readAs, binaryElems, hg, getRequired, bind, Except.bind, fail, R.isOk]
    · simp only [cast, isBinaryLike, if_true] at hc
      have := castBinSeq_err hc
      simp only [readAs, binaryElems, hg, getRequired, bind, Except.bind, pure, Except.pure]
      exact bind_fails_left this
  | _ => simp [readAs, binaryElems, notImpl, fail, R.isOk]

end SaModel.Read
