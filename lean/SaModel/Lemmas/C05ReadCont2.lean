import SaModel.Lemmas.C05ReadCont
/-
C05, reader direction, part 3: tuples, maps and enums.
-/
namespace SaModel.Read
open SaModel SaModel.Spec

/-! ### tuples over struct columns -/

theorem readTupleFields_rej : ∀ (ts : Targets), (∀ t ∈ Targets.toList ts, Rej t) →
    ∀ (fs : ArrFields) (i : Nat) (vals : List (String × LVal)) (e : Fail),
    decodeFieldsAt fs i = .ok vals → newFields Fixes.all fs = .ok () → physicalFields fs = true →
    utf8OkFields (LFields.ofList vals) = true → noKnownTuple ts fs (LFields.ofList vals) = true →
    castTuple ts fs (LFields.ofList vals) = .error e → (readTupleFields Fixes.all ts fs i).isOk = false
  | .nil, _, fs, i, vals, e, _, _, _, _, _, hc => by simp [castTuple] at hc
  | .cons t rest, _, .nil, i, vals, e, _, _, _, _, _, _ => by simp [readTupleFields, fail, R.isOk]
  | .cons t rest, hS, .cons fm a frest, i, vals, e, h, hn, hp, hu, hk, hc => by
    obtain ⟨v, r, hv, hr, rfl⟩ := decodeFieldsAt_cons_inv h
    obtain ⟨hna, hnr⟩ := newFields_cons_inv hn
    unfold physicalFields at hp
    simp only [Bool.and_eq_true] at hp
    simp only [LFields.ofList, utf8OkFields, Bool.and_eq_true] at hu
    simp only [LFields.ofList, castTuple] at hc
    simp only [LFields.ofList, noKnownTuple, Bool.and_eq_true] at hk
    simp only [readTupleFields]
    rcases consClaim_err hc with ⟨e', h1⟩ | ⟨e', h2⟩
    · exact bind_fails_left (hS t (by simp [Targets.toList]) a i v e' hv hna hp.1 hu.1 hk.1 h1)
    · exact bind_fails fun _ _ => bind_fails_left
        (readTupleFields_rej rest (fun t' ht' => hS t' (by simp [Targets.toList, ht'])) frest i r e' hr hnr hp.2 hu.2 hk.2 h2)

/-- `tupleClaim` + `tupleVisit` (tuple, tuple struct, tuple variant) -/
theorem tupleVisit_rej {ts : Targets} (hS : ∀ t ∈ Targets.toList ts, Rej t) (a : Arr) (i : Nat) (lv : LVal) (e : Fail)
    (h : decodeAt a i = .ok lv) (hn : new Fixes.all a = .ok ()) (hp : physical a = true) (hu : utf8Ok lv = true)
    (hk : structPart (fun fs lfs => noKnownTuple ts fs lfs) a lv = true)
    (hc : tupleClaim (fun fs lfs => castTuple ts fs lfs) a lv = .error e) :
    (tupleVisit Fixes.all (fun fs => readTupleFields Fixes.all ts fs i) a i).isOk = false := by
  cases a with
  | struct len v fs =>
    obtain ⟨hi, hlv⟩ := struct_inv h
    rcases hlv with rfl | ⟨vals, hvals, rfl⟩
    · simp [structPart] at hk
    · simp only [tupleClaim] at hc
      simp only [structPart] at hk
      have hcl := andThenL_err (fun _ _ => must_ne_err) hc
      unfold physical at hp
      simp only [utf8Ok] at hu
      have := readTupleFields_rej ts hS fs i vals e hvals (new_struct_inv hn) hp hu hk hcl
      simp only [tupleVisit, structItem_ok hi, bind, Except.bind]
      exact bind_fails_left this
  | _ => simp [tupleVisit, notImpl, fail, R.isOk]

theorem rej_tuple {ts : Targets} (hS : ∀ t ∈ Targets.toList ts, Rej t) : Rej (.tuple ts) := by
  intro a i lv e h hn hp hu hk hc
  simp only [cast] at hc
  simp only [noKnown] at hk
  simp only [readAs]
  exact tupleVisit_rej hS a i lv e h hn hp hu hk hc

theorem rej_tupleStruct {ts : Targets} (hS : ∀ t ∈ Targets.toList ts, Rej t) : Rej (.tupleStruct ts) := by
  intro a i lv e h hn hp hu hk hc
  simp only [cast] at hc
  simp only [noKnown] at hk
  simp only [readAs]
  exact tupleVisit_rej hS a i lv e h hn hp hu hk hc

/-! ### maps -/

theorem pairClaim_err {k v : Claim} {e : Fail} (h : pairClaim k v = .error e) :
    (∃ e', k = .error e') ∨ (∃ e', v = .error e') := by
  unfold pairClaim at h
  split at h
  · exact .inl ⟨_, rfl⟩
  · exact .inr ⟨_, rfl⟩
  · cases h
  · cases h

theorem castVariantStr_err : ∀ (vs : TVariants) (b : Bytes) (e : Fail), castVariantStr vs b = .error e →
    (strVariant vs b).isOk = false
  | .nil, b, e, _ => by simp [strVariant, fail, R.isOk]
  | .cons n k rest, b, e, h => by
    unfold castVariantStr at h
    unfold strVariant
    split at h
    · rename_i hb
      simp only [hb, if_true]
      cases k <;> simp [must, fail, R.isOk] at h ⊢
    · rename_i hb
      simp only [hb, Bool.false_eq_true, if_false]
      exact castVariantStr_err rest b e h

/-- a field name as map key: where `mapKeyClaim` says the key cannot take it, serde's `StrDeserializer` fails -/
theorem mapKeyClaim_err {k : Target} {name : String} {e : Fail} (h : mapKeyClaim k name = .error e) :
    (strDeAs k name).isOk = false := by
  cases k <;> simp only [mapKeyClaim, must, reduceCtorEq] at h <;> try (simp [strDeAs, rejected, fail, R.isOk]; done)
  case char =>
    simp only [strDeAs]
    split at h
    · cases h
    · rename_i hne
      split
      · rename_i c hc; exact absurd hc (hne c)
      · simp [rejected, fail, R.isOk]
  case «enum» byIndex vs =>
    unfold strDeAs
    cases byIndex
    · simp only [Bool.false_eq_true, if_false] at h ⊢
      exact castVariantStr_err vs _ e h
    · simp [rejected, fail, R.isOk]

theorem structAsMap_rej {k v : Target} (hS : Rej v) :
    ∀ (fs : ArrFields) (i : Nat) (vals : List (String × LVal)) (e : Fail),
    decodeFieldsAt fs i = .ok vals → newFields Fixes.all fs = .ok () → physicalFields fs = true →
    utf8OkFields (LFields.ofList vals) = true →
    allStructAsMap (fun c w => noKnown v c w) fs (LFields.ofList vals) = true →
    claimStructAsMap (mapKeyClaim k) (fun c w => cast v c w) fs (LFields.ofList vals) = .error e →
    (fs.toList.mapM fun (p : FieldMeta × Arr) => do
        let kk ← strDeAs k p.1.name
        let vv ← readAs Fixes.all v p.2 i
        pure (kk, vv)).isOk = false
  | .nil, i, vals, e, h, _, _, _, _, hc => by
    unfold decodeFieldsAt at h; cases h
    simp [LFields.ofList, claimStructAsMap] at hc
  | .cons fm a rest, i, vals, e, h, hn, hp, hu, hk, hc => by
    obtain ⟨w, r, hw, hr, rfl⟩ := decodeFieldsAt_cons_inv h
    obtain ⟨hna, hnr⟩ := newFields_cons_inv hn
    unfold physicalFields at hp
    simp only [Bool.and_eq_true] at hp
    simp only [LFields.ofList, utf8OkFields, Bool.and_eq_true] at hu
    simp only [LFields.ofList, claimStructAsMap] at hc
    simp only [LFields.ofList, allStructAsMap, Bool.and_eq_true] at hk
    rw [ArrFields.toList, List.mapM_cons]
    rcases consClaim_err hc with ⟨e', h1⟩ | ⟨e', h2⟩
    · rcases pairClaim_err h1 with ⟨e'', hke⟩ | ⟨e'', hve⟩
      · exact bind_fails_left (bind_fails_left (mapKeyClaim_err hke))
      · exact bind_fails_left (bind_fails fun _ _ => bind_fails_left (hS a i w e'' hw hna hp.1 hu.1 hk.1 hve))
    · exact bind_fails fun _ _ => bind_fails_left (structAsMap_rej hS rest i r e' hr hnr hp.2 hu.2 hk.2 h2)

theorem readRange_pairs_fails {f1 f2 : Nat → R LVal} {g1 g2 : Nat → R DVal} {bad1 bad2 : LVal → Prop}
    (h1 : ∀ j v, f1 j = .ok v → bad1 v → (g1 j).isOk = false) (h2 : ∀ j v, f2 j = .ok v → bad2 v → (g2 j).isOk = false) :
    ∀ (n s : Nat) (ks ws : List LVal), seqAt f1 s n = .ok ks → seqAt f2 s n = .ok ws →
      (∃ p ∈ ks.zip ws, bad1 p.1 ∨ bad2 p.2) →
      (readRange (fun j => do let k ← g1 j; let v ← g2 j; pure (k, v)) s n).isOk = false
  | 0, s, ks, ws, hk, hw, hb => by
    unfold seqAt at hk hw; cases hk; cases hw
    obtain ⟨p, hp, _⟩ := hb; simp at hp
  | n + 1, s, ks, ws, hk, hw, hb => by
    unfold seqAt at hk hw
    obtain ⟨k, hk1, hk⟩ := bind_ok_inv hk
    obtain ⟨ks', hks, hk⟩ := bind_ok_inv hk
    cases hk
    obtain ⟨w, hw1, hw⟩ := bind_ok_inv hw
    obtain ⟨ws', hws, hw⟩ := bind_ok_inv hw
    cases hw
    unfold readRange
    obtain ⟨p, hp, hbp⟩ := hb
    simp only [List.zip_cons_cons, List.mem_cons] at hp
    rcases hp with rfl | hp
    · rcases hbp with hb1 | hb2
      · exact bind_fails_left (bind_fails_left (h1 s k hk1 hb1))
      · exact bind_fails_left (bind_fails fun _ _ => bind_fails_left (h2 s w hw1 hb2))
    · exact bind_fails fun _ _ => bind_fails_left
        (readRange_pairs_fails h1 h2 n (s + 1) ks' ws' hks hws ⟨p, hp, hbp⟩)

theorem claimEntries_err {c1 c2 : LVal → Claim} : ∀ (ps : List (LVal × LVal)) (e : Fail),
    claimEntries c1 c2 (LEntries.ofList ps) = .error e →
    ∃ p ∈ ps, (∃ e', c1 p.1 = .error e') ∨ (∃ e', c2 p.2 = .error e')
  | [], e, h => by simp [LEntries.ofList, claimEntries] at h
  | (k, w) :: ps, e, h => by
    simp only [LEntries.ofList, claimEntries] at h
    rcases consClaim_err h with ⟨e', h1⟩ | ⟨e', h2⟩
    · exact ⟨(k, w), by simp, pairClaim_err h1⟩
    · obtain ⟨p, hp, r⟩ := claimEntries_err ps e' h2
      exact ⟨p, by simp [hp], r⟩

theorem allEntries_mem {fk fv : LVal → Bool} : ∀ (ps : List (LVal × LVal)),
    allEntries fk fv (LEntries.ofList ps) = true → ∀ p ∈ ps, fk p.1 = true ∧ fv p.2 = true
  | [], _, p, hp => by cases hp
  | (k, w) :: ps, h, p, hp => by
    simp only [LEntries.ofList, allEntries, Bool.and_eq_true] at h
    rcases List.mem_cons.1 hp with rfl | hp
    · exact ⟨h.1.1, h.1.2⟩
    · exact allEntries_mem ps h.2 p hp

theorem rej_map {k v : Target} (hK : Rej k) (hV : Rej v) : Rej (.map k v) := by
  intro a i lv e h hn hp hu hk hc
  cases a with
  | struct len vb fs =>
    obtain ⟨hi, hlv⟩ := struct_inv h
    rcases hlv with rfl | ⟨vals, hvals, rfl⟩
    · simp [noKnown] at hk
    · simp only [cast] at hc
      simp only [noKnown] at hk
      have hcl := andThenE_err (fun _ _ => must_ne_err) hc
      unfold physical at hp
      simp only [utf8Ok] at hu
      have := structAsMap_rej (k := k) hV fs i vals e hvals (new_struct_inv hn) hp hu hk hcl
      simp only [readAs, structItem_ok hi, bind, Except.bind]
      exact bind_fails_left this
  | map vb offs mm ks vs =>
    obtain ⟨hi, hlv⟩ := map_inv h
    rcases hlv with rfl | ⟨kxs, wxs, hkx, hwx, rfl⟩
    · simp [noKnown] at hk
    · simp only [cast] at hc
      simp only [noKnown] at hk
      have hcl := andThenE_err (fun _ _ => must_ne_err) hc
      obtain ⟨h0, h1, _, hkseq⟩ := rangeAt_ok hkx
      obtain ⟨_, _, _, hwseq⟩ := rangeAt_ok hwx
      obtain ⟨hnk, hnv⟩ := new_map_inv hn
      unfold physical at hp
      simp only [Bool.and_eq_true] at hp
      simp only [utf8Ok] at hu
      have hlen : kxs.length = wxs.length := by
        rw [seqAt_length _ _ _ hkseq, seqAt_length _ _ _ hwseq]
      obtain ⟨pk, pw⟩ := utf8OkEntries_zip kxs wxs hlen hu
      obtain ⟨p, hpm, hbad⟩ := claimEntries_err _ _ hcl
      have hnk' := allEntries_mem _ hk p hpm
      have hmem := List.of_mem_zip hpm
      have hf := readRange_pairs_fails (g1 := fun j => readAs Fixes.all k ks j) (g2 := fun j => readAs Fixes.all v vs j)
        (bad1 := fun x => utf8Ok x = true ∧ noKnown k ks x = true ∧ ∃ e', cast k ks x = .error e')
        (bad2 := fun x => utf8Ok x = true ∧ noKnown v vs x = true ∧ ∃ e', cast v vs x = .error e')
        (fun j x hj hb => hK ks j x _ hj hnk hp.1 hb.1 hb.2.1 hb.2.2.choose_spec)
        (fun j x hj hb => hV vs j x _ hj hnv hp.2 hb.1 hb.2.1 hb.2.2.choose_spec) _ _ kxs wxs hkseq hwseq
        ⟨p, hpm, by
          rcases hbad with hb | hb
          · exact .inl ⟨pk _ hmem.1, hnk'.1, hb⟩
          · exact .inr ⟨pw _ hmem.2, hnk'.2, hb⟩⟩
      simp only [readAs, listRange_eval hi h0 h1, bind, Except.bind] at hf ⊢
      exact bind_fails_left hf
  | _ => simp [readAs, notImpl, fail, R.isOk]

/-! ### enums -/

def KRej (k : VKind) : Prop :=
  ∀ (child : Arr) (off : Nat) (lv : LVal) (e : Fail), decodeAt child off = .ok lv → new Fixes.all child = .ok () →
    physical child = true → utf8Ok lv = true → noKnownKind k child lv = true → castKind k child lv = .error e →
    (readKind Fixes.all k (some (child, off))).isOk = false

/-- only the Null reader answers `deserialize_unit` -/
theorem scalar_unit_fails (a : Arr) (i : Nat) (h : isNullArr a = false) :
    (scalar Fixes.all .unit a i >>= accept .unit).isOk = false := by
  cases a <;> simp only [isNullArr, reduceCtorEq] at h <;>
    (unfold scalar; (repeat' split) <;> simp_all [notImpl, fail, bind, Except.bind, R.isOk])

theorem krej_unit : KRej .unit := by
  intro child off lv e h hn hp hu hk hc
  simp only [castKind] at hc
  split at hc
  · simp [must] at hc
  · rename_i hnn
    cases child with
    | null len =>
      obtain ⟨rfl, _⟩ := null_get h
      simp [isNullArr, LVal.isNull] at hnn
    | _ => exact scalar_unit_fails _ off rfl

theorem krej_newtype {t : Target} (hS : Rej t) : KRej (.newtype t) := by
  intro child off lv e h hn hp hu hk hc
  simp only [castKind] at hc
  simp only [noKnownKind] at hk
  simp only [readKind]
  exact hS child off lv e h hn hp hu hk hc

theorem krej_tuple {ts : Targets} (hS : ∀ t ∈ Targets.toList ts, Rej t) : KRej (.tuple ts) := by
  intro child off lv e h hn hp hu hk hc
  simp only [castKind] at hc
  simp only [noKnownKind] at hk
  simp only [readKind]
  exact tupleVisit_rej hS child off lv e h hn hp hu hk hc

theorem readVariantAs_rej : ∀ (vs : TVariants), (∀ p ∈ TVariants.toList vs, KRej p.2) →
    ∀ (sel : Option Nat) (name : String) (child : Arr) (off : Nat) (w : LVal) (e : Fail),
    decodeAt child off = .ok w → new Fixes.all child = .ok () → physical child = true → utf8Ok w = true →
    noKnownVariant vs sel name child w = true →
    castVariant vs sel name child w = .error e → (readVariantAs Fixes.all vs sel name (some (child, off))).isOk = false
  | .nil, _, sel, name, child, off, w, e, _, _, _, _, _, _ => by simp [readVariantAs, fail, R.isOk]
  | .cons n k rest, hV, sel, name, child, off, w, e, h, hn, hp, hu, hk, hc => by
    simp only [castVariant] at hc
    simp only [noKnownVariant] at hk
    simp only [readVariantAs]
    have key : ∀ (c : Bool),
        (if c = true then noKnownKind k child w else noKnownVariant rest (sel.map (· - 1)) name child w) = true →
        (if c = true then (castKind k child w).andThen fun p => must (.enum (.str .transient (strBytes n)) p)
          else castVariant rest (sel.map (· - 1)) name child w) = .error e →
        (if c = true then (do pure (DVal.enum (.str .transient (strBytes n)) (← readKind Fixes.all k (some (child, off)))))
          else readVariantAs Fixes.all rest (sel.map (· - 1)) name (some (child, off))).isOk = false := by
      intro c hk hc
      cases c
      · simp only [Bool.false_eq_true, if_false] at hc hk ⊢
        exact readVariantAs_rej rest (fun p hp' => hV p (by simp [TVariants.toList, hp'])) _ name child off w e h hn hp hu hk hc
      · simp only [if_true] at hc hk ⊢
        have hck := andThen_err (fun _ _ => must_ne_err) hc
        exact bind_fails_left (hV (n, k) (by simp [TVariants.toList]) child off w e h hn hp hu hk hck)
    cases sel with
    | none => exact key (n == name) hk hc
    | some j => exact key (j == 0) hk hc

theorem readVariantAsBytes_rej : ∀ (vs : TVariants) (b : Bytes) (e : Fail),
    castVariantStr vs b = .error e → (readVariantAsBytes Fixes.all vs b).isOk = false
  | .nil, b, e, _ => by simp [readVariantAsBytes, fail, R.isOk]
  | .cons n k rest, b, e, hc => by
    simp only [castVariantStr] at hc
    simp only [readVariantAsBytes]
    split at hc
    · rename_i hs
      simp only [hs, if_true]
      cases k <;> simp [must, readKind, fail, bind, Except.bind, R.isOk] at hc ⊢
    · rename_i hs
      simp only [hs, if_false]
      exact readVariantAsBytes_rej rest b e hc

theorem rej_enum {byIndex : Bool} {vs : TVariants} (hV : ∀ p ∈ TVariants.toList vs, KRej p.2) :
    Rej (.enum byIndex vs) := by
  intro a i lv e h hn hp hu hk hc
  cases a with
  | union types offs fs =>
    obtain ⟨pos, off, fm, child, w, rfl, hsel, hnth, hfind, hdec, hnc, hpc⟩ := union_facts h hn hp
    simp only [cast, hfind] at hc
    simp only [noKnown, hfind] at hk
    simp only [utf8Ok] at hu
    simp only [readAs, hsel, bind, Except.bind, hnth]
    cases byIndex
    · simp only [Bool.false_eq_true, if_false] at hc hk ⊢
      exact readVariantAs_rej vs hV none fm.name child off w e hdec hnc hpc hu hk hc
    · simp only [if_true, Int.toNat_natCast] at hc hk ⊢
      exact readVariantAs_rej vs hV (some pos) fm.name child off w e hdec hnc hpc hu hk hc
  | bytes ty v offs data =>
    rcases bytes_get h hu with ⟨rfl, hg⟩ | ⟨b, rfl, hg⟩
    · cases hty : isUtf8Ty ty <;>
        simp [readAs, stringElem, hty, hg, getRequired, bind, Except.bind, fail, notImpl, R.isOk]
    · cases hty : isUtf8Ty ty
      · simp [readAs, stringElem, hty, notImpl, fail, R.isOk]
      · simp only [cast, bytesVal, hty, if_true, isStringLike, Bool.true_and] at hc
        cases byIndex
        · simp only [Bool.not_false, if_true] at hc
          simp only [readAs, stringElem, hty, if_true, hg, getRequired, bind, Except.bind, pure, Except.pure,
            Bool.false_eq_true, if_false]
          exact readVariantAsBytes_rej vs b e hc
        · simp [readAs, stringElem, hty, hg, getRequired, bind, Except.bind, pure, Except.pure, fail, R.isOk]
  | bytesView ty v views buffers =>
    rcases view_get h hu with ⟨rfl, hg⟩ | ⟨b, rfl, hg⟩
    · cases hty : isUtf8View ty <;>
        simp [readAs, stringElem, hty, hg, getRequired, bind, Except.bind, fail, notImpl, R.isOk]
    · cases hty : isUtf8View ty
      · simp [readAs, stringElem, hty, notImpl, fail, R.isOk]
      · simp only [cast, bytesVal, hty, if_true, isStringLike, Bool.true_and] at hc
        cases byIndex
        · simp only [Bool.not_false, if_true] at hc
          simp only [readAs, stringElem, hty, if_true, hg, getRequired, bind, Except.bind, pure, Except.pure,
            Bool.false_eq_true, if_false]
          exact readVariantAsBytes_rej vs b e hc
        · simp [readAs, stringElem, hty, hg, getRequired, bind, Except.bind, pure, Except.pure, fail, R.isOk]
  | dictionary ks vs' =>
    rcases dict_get h hn hp hu with ⟨rfl, hs⟩ | ⟨b, rfl, _, hg⟩
    · have hf := dictGetStr_null hn hs
      simp only [readAs, stringElem]
      exact bind_fails_left hf
    · simp only [cast, isStringLike, Bool.true_and] at hc
      cases byIndex
      · simp only [Bool.not_false, if_true] at hc
        simp only [readAs, stringElem, hg, bind, Except.bind, Bool.false_eq_true, if_false]
        exact readVariantAsBytes_rej vs b e hc
      · simp [readAs, stringElem, hg, bind, Except.bind, fail, R.isOk]
  | _ => simp [readAs, stringElem, notImpl, fail, R.isOk]

end SaModel.Read
