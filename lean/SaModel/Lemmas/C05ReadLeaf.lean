import SaModel.Lemmas.C02TypedLeaf
/-
C05, reader direction, part 1: scalar targets.  Whenever the value-level specification `castScalar` says the read
must fail (null into a non-Option target; integer out of the target's range; not a char), `deserialize_<m>` + the
visitor fail — except for known finding #24 (integer column read as bool), excluded by `intAsBool`.
-/
namespace SaModel.Read
open SaModel SaModel.Spec

theorem isOk_false_iff {α} {x : R α} : x.isOk = false ↔ ∃ e, x = .error e := by
  cases x with
  | ok a => simp [R.isOk]
  | error e => simp [R.isOk]

theorem bind_fails_left {α β} {x : R α} {f : α → R β} (h : x.isOk = false) : (x >>= f).isOk = false := by
  cases x with
  | ok a => cases h
  | error e => rfl

theorem bind_fails {α β} {x : R α} {f : α → R β} (h : ∀ a, x = .ok a → (f a).isOk = false) : (x >>= f).isOk = false := by
  cases x with
  | ok a => exact h a rfl
  | error e => rfl

theorem not_ok_of_fails {α} {x : R α} {a : α} (h : x.isOk = false) : x ≠ .ok a := by
  intro hx; rw [hx] at h; cases h

theorem fails_of_not_ok {α} {x : R α} (h : ∀ a, x ≠ .ok a) : x.isOk = false := by
  cases x with
  | ok a => exact absurd rfl (h a)
  | error e => rfl

/-- **known finding #24** (C05-int-as-bool): an integer column read as `bool` yields `true` for every non-zero value -/
def intAsBool (t : Target) (a : Arr) (lv : LVal) : Bool :=
  match t, a, lv with
  | .bool, .prim ty _ _, .int x => isIntPrim ty && x != 0 && x != 1
  | _, _, _ => false

theorem ofLeaf_err {x : Option (R DVal)} {e : Fail} : ofLeaf x = .error e ↔ x = some (.error e) := by
  unfold ofLeaf must na
  split <;> simp_all

theorem ite_error {α} (c : Prop) [Decidable c] (a b : Fail) :
    (if c then (Except.error a : R α) else Except.error b) = Except.error (if c then a else b) := by split <;> rfl

/-- a codec read fails when the visitor rejects everything the codec can hand over -/
theorem codecRead_fails {fx : Fixes} {fmt : Int → R DVal} {v : Option Bits} {vals : List Int} {i : Nat} {t : Target}
    (h : ∀ x, primGet fx v vals i = .ok (some x) → ∀ d, fmt x = .ok d → (accept t d).isOk = false) :
    (codecRead fx fmt v vals i >>= accept t).isOk = false := by
  unfold codecRead getRequired
  cases hg : primGet fx v vals i with
  | error e => rfl
  | ok o =>
    cases o with
    | none => rfl
    | some x =>
      simp only [bind, Except.bind, pure, Except.pure]
      cases hf : fmt x with
      | error e => rfl
      | ok d => exact h x hg d hf

/-- finish a failing scalar case -/
macro "leaf_fail" : tactic => `(tactic| (
  unfold scalar;
  first
  | (simp only []; refine codecRead_fails ?_; intro x hx d hd;
     simp only [ownedStr, ownedBytes, bind, Except.bind] at hd;
     split at hd <;> (try cases hd) <;> simp_all [accept, R.isOk, rejected, fail, Except.map, pure, Except.pure]; done)
  | ((simp_all (config := { decide := true }) [getRequired, accept, intoInt, codecRead, notImpl, bind,
      Except.bind, pure, Except.pure, fail, rejected, R.isOk, ite_error, unsupported]) <;>
     try ((repeat' split) <;> first | rfl | (simp_all [R.isOk]; done)))))

theorem prim_scalar_rej {t : Target} {m : Method} (hm : methodOf t = some m) {ty : PrimTy} {v : Option Bits} {vals : List Int}
    {i : Nat} {lv : LVal} {e : Fail} (h : decodeAt (.prim ty v vals) i = .ok lv)
    (hk : intAsBool t (.prim ty v vals) lv = false)
    (hc : castScalar t (.prim ty v vals) lv = .error e) :
    (scalar Fixes.all m (.prim ty v vals) i >>= accept t).isOk = false := by
  rcases prim_get h with ⟨rfl, hg⟩ | ⟨rfl, hg⟩
  · clear h hc hk
    cases t <;> simp only [methodOf, Option.some.injEq, reduceCtorEq] at hm <;> subst hm
    case int ity => cases ity <;> cases ty <;> leaf_fail
    all_goals (cases ty <;> leaf_fail)
  · clear h
    cases t <;> simp only [methodOf, Option.some.injEq, reduceCtorEq] at hm <;> subst hm
    case int ity =>
      cases ity <;> cases ty <;> simp [castScalar, leafOf, castLeaf, ofLeaf_err, isIntPrim] at hc <;>
        (repeat' split at hc) <;> first | (simp [fail] at hc; done) | leaf_fail
    case bool =>
      cases ty <;> simp [castScalar, leafOf, castLeaf, ofLeaf_err, isIntPrim, intAsBool] at hc hk <;>
        (repeat' split at hc) <;> first | (simp [fail] at hc; done) | (simp_all; done) | leaf_fail
    all_goals (cases ty <;> simp [castScalar, leafOf, castLeaf, ofLeaf_err, isIntPrim] at hc <;>
        (repeat' split at hc) <;> first | (simp [fail] at hc; done) | leaf_fail)

theorem time_scalar_rej {t : Target} {m : Method} (hm : methodOf t = some m) {ty : TimeTy} {u : TimeUnit} {v : Option Bits}
    {vals : List Int} {i : Nat} {lv : LVal} {e : Fail} (h : decodeAt (.time ty u v vals) i = .ok lv)
    (hc : castScalar t (.time ty u v vals) lv = .error e) :
    (scalar Fixes.all m (.time ty u v vals) i >>= accept t).isOk = false := by
  rcases time_get h with ⟨rfl, hg⟩ | ⟨rfl, hg⟩
  · clear h hc
    cases t <;> simp only [methodOf, Option.some.injEq, reduceCtorEq] at hm <;> subst hm
    case int ity => cases ity <;> cases ty <;> leaf_fail
    all_goals (cases ty <;> leaf_fail)
  · clear h
    cases t <;> simp only [methodOf, Option.some.injEq, reduceCtorEq] at hm <;> subst hm
    case int ity =>
      cases ity <;> cases ty <;> simp (config := { decide := true }) [castScalar, castLeaf, ofLeaf_err] at hc <;>
        (repeat' split at hc) <;> first | (simp [fail] at hc; done) | leaf_fail
    all_goals (cases ty <;> simp (config := { decide := true }) [castScalar, castLeaf, ofLeaf_err] at hc <;>
        (repeat' split at hc) <;> first | (simp [fail] at hc; done) | leaf_fail)

theorem timestamp_scalar_rej {t : Target} {m : Method} (hm : methodOf t = some m) {u : TimeUnit} {tz : Option String}
    {v : Option Bits} {vals : List Int} {i : Nat} {lv : LVal} {e : Fail} (h : decodeAt (.timestamp u tz v vals) i = .ok lv)
    (hc : castScalar t (.timestamp u tz v vals) lv = .error e) :
    (scalar Fixes.all m (.timestamp u tz v vals) i >>= accept t).isOk = false := by
  rcases timestamp_get h with ⟨rfl, hg⟩ | ⟨rfl, hg⟩
  · clear h hc
    cases t <;> simp only [methodOf, Option.some.injEq, reduceCtorEq] at hm <;> subst hm
    case int ity => cases ity <;> leaf_fail
    all_goals leaf_fail
  · clear h
    cases t <;> simp only [methodOf, Option.some.injEq, reduceCtorEq] at hm <;> subst hm
    case int ity =>
      cases ity <;> simp (config := { decide := true }) [castScalar, castLeaf, ofLeaf_err] at hc <;>
        (repeat' split at hc) <;> first | (simp [fail] at hc; done) | leaf_fail
    all_goals (simp (config := { decide := true }) [castScalar, castLeaf, ofLeaf_err] at hc <;>
        (repeat' split at hc) <;> first | (simp [fail] at hc; done) | leaf_fail)

theorem decimal_scalar_rej {t : Target} {m : Method} (hm : methodOf t = some m) {p : Nat} {s : Int}
    {v : Option Bits} {vals : List Int} {i : Nat} {lv : LVal} {e : Fail} (h : decodeAt (.decimal128 p s v vals) i = .ok lv)
    (hc : castScalar t (.decimal128 p s v vals) lv = .error e) :
    (scalar Fixes.all m (.decimal128 p s v vals) i >>= accept t).isOk = false := by
  rcases decimal_get h with ⟨rfl, hg⟩ | ⟨rfl, hg⟩
  · clear h hc
    cases t <;> simp only [methodOf, Option.some.injEq, reduceCtorEq] at hm <;> subst hm <;> leaf_fail
  · clear h
    cases t <;> simp only [methodOf, Option.some.injEq, reduceCtorEq] at hm <;> subst hm <;>
      simp (config := { decide := true }) [castScalar, castLeaf, ofLeaf_err] at hc <;>
        (repeat' split at hc) <;> first | (simp [fail] at hc; done) | leaf_fail

theorem null_scalar_rej {t : Target} {m : Method} (hm : methodOf t = some m) {len : Nat}
    {i : Nat} {lv : LVal} {e : Fail} (h : decodeAt (.null len) i = .ok lv)
    (hc : castScalar t (.null len) lv = .error e) :
    (scalar Fixes.all m (.null len) i >>= accept t).isOk = false := by
  obtain ⟨rfl, hg⟩ := null_get h
  cases t <;> simp only [methodOf, Option.some.injEq, reduceCtorEq] at hm <;> subst hm <;>
    simp [castScalar, isNullArr, must, mustFail, fail] at hc <;> leaf_fail

theorem bool_scalar_rej {t : Target} {m : Method} (hm : methodOf t = some m) {len : Nat} {v : Option Bits} {vals : Bits}
    {i : Nat} {lv : LVal} {e : Fail} (h : decodeAt (.boolean len v vals) i = .ok lv)
    (hc : castScalar t (.boolean len v vals) lv = .error e) :
    (scalar Fixes.all m (.boolean len v vals) i >>= accept t).isOk = false := by
  rcases bool_get h with ⟨rfl, hg⟩ | ⟨b, rfl, hg⟩
  · clear h hc
    cases t <;> simp only [methodOf, Option.some.injEq, reduceCtorEq] at hm <;> subst hm <;> leaf_fail
  · clear h
    cases t <;> simp only [methodOf, Option.some.injEq, reduceCtorEq] at hm <;> subst hm <;>
      simp (config := { decide := true }) [castScalar, castLeaf, ofLeaf_err] at hc <;>
        (repeat' split at hc) <;> first | (simp [fail] at hc; done) | leaf_fail

theorem bytes_scalar_rej {t : Target} {m : Method} (hm : methodOf t = some m) {ty : BytesTy} {v : Option Bits}
    {offs : List Int} {data : Bytes} {i : Nat} {lv : LVal} {e : Fail} (h : decodeAt (.bytes ty v offs data) i = .ok lv)
    (hu : utf8Ok lv = true) (hc : castScalar t (.bytes ty v offs data) lv = .error e) :
    (scalar Fixes.all m (.bytes ty v offs data) i >>= accept t).isOk = false := by
  rcases bytes_get h hu with ⟨rfl, hg⟩ | ⟨b, rfl, hg⟩
  · clear h hc
    cases hty : isUtf8Ty ty <;>
    cases t <;> simp only [methodOf, Option.some.injEq, reduceCtorEq] at hm <;> subst hm <;> leaf_fail
  · cases hty : isUtf8Ty ty <;>
    cases t <;> simp only [methodOf, Option.some.injEq, reduceCtorEq] at hm <;> subst hm <;>
      simp (config := { decide := true }) [castScalar, castLeaf, ofLeaf_err, bytesVal, hty] at hc <;>
        (repeat' split at hc) <;> first | (simp [fail] at hc; done) | leaf_fail

theorem view_scalar_rej {t : Target} {m : Method} (hm : methodOf t = some m) {ty : ViewTy} {v : Option Bits}
    {views : List Nat} {buffers : List Bytes} {i : Nat} {lv : LVal} {e : Fail}
    (h : decodeAt (.bytesView ty v views buffers) i = .ok lv)
    (hu : utf8Ok lv = true) (hc : castScalar t (.bytesView ty v views buffers) lv = .error e) :
    (scalar Fixes.all m (.bytesView ty v views buffers) i >>= accept t).isOk = false := by
  rcases view_get h hu with ⟨rfl, hg⟩ | ⟨b, rfl, hg⟩
  · clear h hc
    cases hty : isUtf8View ty <;>
    cases t <;> simp only [methodOf, Option.some.injEq, reduceCtorEq] at hm <;> subst hm <;> leaf_fail
  · cases hty : isUtf8View ty <;>
    cases t <;> simp only [methodOf, Option.some.injEq, reduceCtorEq] at hm <;> subst hm <;>
      simp (config := { decide := true }) [castScalar, castLeaf, ofLeaf_err, bytesVal, hty] at hc <;>
        (repeat' split at hc) <;> first | (simp [fail] at hc; done) | leaf_fail

theorem fsb_scalar_rej {t : Target} {m : Method} (hm : methodOf t = some m) {n : Int} {v : Option Bits}
    {data : Bytes} {i : Nat} {lv : LVal} {e : Fail} (h : decodeAt (.fixedSizeBinary n v data) i = .ok lv)
    (hn : new Fixes.all (.fixedSizeBinary n v data) = .ok ()) (hc : castScalar t (.fixedSizeBinary n v data) lv = .error e) :
    (scalar Fixes.all m (.fixedSizeBinary n v data) i >>= accept t).isOk = false := by
  rcases fsb_get h hn with ⟨rfl, hg⟩ | ⟨b, rfl, hg⟩
  · clear h hc
    cases t <;> simp only [methodOf, Option.some.injEq, reduceCtorEq] at hm <;> subst hm <;> leaf_fail
  · clear h
    cases t <;> simp only [methodOf, Option.some.injEq, reduceCtorEq] at hm <;> subst hm <;>
      simp (config := { decide := true }) [castScalar, castLeaf, ofLeaf_err] at hc <;>
        (repeat' split at hc) <;> first | (simp [fail] at hc; done) | leaf_fail

/-- a null dictionary slot: the key getter returns `None`, `get_str` fails -/
theorem dictGetStr_null {ks vs : Arr} {i : Nat} (hn : new Fixes.all (.dictionary ks vs) = .ok ())
    (hs : isSome Fixes.all (.dictionary ks vs) i = .ok false) : (dictGetStr Fixes.all ks vs i).isOk = false := by
  unfold new at hn
  split at hn
  · rename_i kty kv kvals vty vv voffs vdata
    simp only [isSome] at hs
    unfold dictGetStr
    cases hp : primGet Fixes.all kv kvals i with
    | error e => simp [getRequired, hp, bind, Except.bind, R.isOk]
    | ok o =>
      rw [optIsSome_ok hp] at hs
      cases o with
      | some x => simp at hs
      | none => simp [getRequired, hp, bind, Except.bind, fail, pure, Except.pure, R.isOk]
  · cases hn

theorem dict_scalar_rej {t : Target} {m : Method} (hm : methodOf t = some m) {ks vs : Arr}
    {i : Nat} {lv : LVal} {e : Fail} (h : decodeAt (.dictionary ks vs) i = .ok lv)
    (hn : new Fixes.all (.dictionary ks vs) = .ok ()) (hp : physical (.dictionary ks vs) = true) (hu : utf8Ok lv = true)
    (hc : castScalar t (.dictionary ks vs) lv = .error e) :
    (scalar Fixes.all m (.dictionary ks vs) i >>= accept t).isOk = false := by
  rcases dict_get h hn hp hu with ⟨rfl, hs⟩ | ⟨b, rfl, _, hg⟩
  · have hf := dictGetStr_null hn hs
    obtain ⟨e', hf⟩ := isOk_false_iff.1 hf
    clear h hc
    cases t <;> simp only [methodOf, Option.some.injEq, reduceCtorEq] at hm <;> subst hm <;> leaf_fail
  · clear h
    cases t <;> simp only [methodOf, Option.some.injEq, reduceCtorEq] at hm <;> subst hm <;>
      simp (config := { decide := true }) [castScalar, castLeaf, ofLeaf_err] at hc <;>
        (repeat' split at hc) <;> first | (simp [fail] at hc; done) | leaf_fail

/-- container columns implement no scalar method at all -/
theorem container_scalar_fails {t : Target} (m : Method) (a : Arr) (i : Nat)
    (ha : (∃ len v fs, a = .struct len v fs) ∨ (∃ lg v offs fm el, a = .list lg v offs fm el) ∨
      (∃ len v n fm el, a = .fixedSizeList len v n fm el) ∨ (∃ v offs mm ks vs, a = .map v offs mm ks vs) ∨
      (∃ types offs fs, a = .union types offs fs)) :
    (scalar Fixes.all m a i >>= accept t).isOk = false := by
  rcases ha with ⟨_, _, _, rfl⟩ | ⟨_, _, _, _, _, rfl⟩ | ⟨_, _, _, _, _, rfl⟩ | ⟨_, _, _, _, _, rfl⟩ | ⟨_, _, _, rfl⟩ <;>
    (unfold scalar; simp [notImpl, fail, bind, Except.bind, R.isOk])

/-- scalar targets, every array kind: whenever `castScalar` says the read must fail, `deserialize_<m>` + the visitor
fail (known finding #24 excluded) -/
theorem scalar_rej {t : Target} {m : Method} (hm : methodOf t = some m) (a : Arr) (i : Nat) (lv : LVal) (e : Fail)
    (h : decodeAt a i = .ok lv) (hn : new Fixes.all a = .ok ()) (hp : physical a = true) (hu : utf8Ok lv = true)
    (hk : intAsBool t a lv = false)
    (hc : castScalar t a lv = .error e) : (scalar Fixes.all m a i >>= accept t).isOk = false := by
  cases a with
  | null len => exact null_scalar_rej hm h hc
  | boolean len v vals => exact bool_scalar_rej hm h hc
  | prim ty v vals => exact prim_scalar_rej hm h hk hc
  | time ty u v vals => exact time_scalar_rej hm h hc
  | timestamp u tz v vals => exact timestamp_scalar_rej hm h hc
  | decimal128 p s v vals => exact decimal_scalar_rej hm h hc
  | bytes ty v offs data => exact bytes_scalar_rej hm h hu hc
  | bytesView ty v views buffers => exact view_scalar_rej hm h hu hc
  | fixedSizeBinary n v data => exact fsb_scalar_rej hm h hn hc
  | dictionary ks vs => exact dict_scalar_rej hm h hn hp hu hc
  | struct len v fs => exact container_scalar_fails m _ i (.inl ⟨_, _, _, rfl⟩)
  | list lg v offs fm el => exact container_scalar_fails m _ i (.inr (.inl ⟨_, _, _, _, _, rfl⟩))
  | fixedSizeList len v n fm el => exact container_scalar_fails m _ i (.inr (.inr (.inl ⟨_, _, _, _, _, rfl⟩)))
  | map v offs mm ks vs => exact container_scalar_fails m _ i (.inr (.inr (.inr (.inl ⟨_, _, _, _, _, rfl⟩))))
  | union types offs fs => exact container_scalar_fails m _ i (.inr (.inr (.inr (.inr ⟨_, _, _, rfl⟩))))

end SaModel.Read
