import SaModel.Lemmas.C05ReadCont2
import SaModel.Lemmas.C02TypedStruct
/-
C05, reader direction, part 4: a struct target read by field name from a struct column.  `castFields` says the read
must fail when a target field's value is not representable or when a non-`Option` target field has no column field of
its name (`missing_field`); the key loop of the derived visitor (`structVisit`) then fails.
-/
namespace SaModel.Read
open SaModel SaModel.Spec

theorem foldlM_fails {α β} {f : β → α → R β} : ∀ (l : List α) (init : β),
    (∃ x ∈ l, ∀ s, (f s x).isOk = false) → (l.foldlM f init).isOk = false
  | [], _, h => by obtain ⟨x, hx, _⟩ := h; cases hx
  | y :: l, init, h => by
    rw [List.foldlM_cons]
    obtain ⟨x, hx, hf⟩ := h
    rcases List.mem_cons.1 hx with rfl | hx
    · exact bind_fails_left (hf init)
    · exact bind_fails fun s _ => foldlM_fails l s ⟨x, hx, hf⟩

theorem fieldNamed_facts : ∀ (fs : ArrFields) (i : Nat) (vals : List (String × LVal)) (n : String) (a : Arr) (v : LVal),
    decodeFieldsAt fs i = .ok vals → newFields Fixes.all fs = .ok () → physicalFields fs = true →
    utf8OkFields (LFields.ofList vals) = true → fieldNamed fs (LFields.ofList vals) n = some (a, v) →
    (∃ fm, (fm, a) ∈ fs.toList ∧ fm.name = n) ∧ decodeAt a i = .ok v ∧ new Fixes.all a = .ok () ∧ physical a = true ∧
      utf8Ok v = true
  | .nil, i, vals, n, a, v, h, _, _, _, hf => by
    unfold decodeFieldsAt at h; cases h
    simp [LFields.ofList, fieldNamed] at hf
  | .cons fm a' rest, i, vals, n, a, v, h, hn, hp, hu, hf => by
    obtain ⟨w, r, hw, hr, rfl⟩ := decodeFieldsAt_cons_inv h
    obtain ⟨hna, hnr⟩ := newFields_cons_inv hn
    unfold physicalFields at hp
    simp only [Bool.and_eq_true] at hp
    simp only [LFields.ofList, utf8OkFields, Bool.and_eq_true] at hu
    simp only [LFields.ofList, fieldNamed] at hf
    split at hf
    · rename_i hname
      simp only [beq_iff_eq] at hname
      cases hf
      exact ⟨⟨fm, by simp [ArrFields.toList], hname⟩, hw, hna, hp.1, hu.1⟩
    · obtain ⟨⟨fm', hm, hn'⟩, rest'⟩ := fieldNamed_facts rest i r n a v hr hnr hp.2 hu.2 hf
      exact ⟨⟨fm', by simp [ArrFields.toList, hm], hn'⟩, rest'⟩

theorem fieldNamed_of_mem : ∀ (fs : ArrFields) (i : Nat) (vals : List (String × LVal)) (n : String),
    decodeFieldsAt fs i = .ok vals → n ∈ ArrFields.names fs → fieldNamed fs (LFields.ofList vals) n ≠ none
  | .nil, i, vals, n, _, hm => by simp [ArrFields.names] at hm
  | .cons fm a' rest, i, vals, n, h, hm => by
    obtain ⟨w, r, hw, hr, rfl⟩ := decodeFieldsAt_cons_inv h
    simp only [LFields.ofList, fieldNamed]
    split
    · simp
    · rename_i hne
      simp only [ArrFields.names, List.mem_cons] at hm
      rcases hm with rfl | hm
      · simp at hne
      · exact fieldNamed_of_mem rest i r n hr hm

theorem castFields_err : ∀ (tfs' : TFields) (fs : ArrFields) (lfs : LFields) (e : Fail),
    castFields tfs' fs lfs = .error e → ∃ n t, (n, t) ∈ TFields.toList tfs' ∧
      ((∃ a v e', fieldNamed fs lfs n = some (a, v) ∧ cast t a v = .error e') ∨
       (fieldNamed fs lfs n = none ∧ t.isOption = false))
  | .nil, _, _, _, hc => by simp [castFields] at hc
  | .cons n' t' rest, fs, lfs, e, hc => by
    simp only [castFields] at hc
    rcases consClaim_err hc with ⟨e', h1⟩ | ⟨e', h2⟩
    · refine ⟨n', t', by simp [TFields.toList], ?_⟩
      cases hf : fieldNamed fs lfs n' with
      | none =>
        rw [hf] at h1
        cases ho : t'.isOption with
        | true => simp [ho, must] at h1
        | false => exact .inr ⟨rfl, rfl⟩
      | some av =>
        obtain ⟨a, v⟩ := av
        rw [hf] at h1
        simp only at h1
        cases hcv : cast t' a v with
        | ok o => rw [hcv] at h1; cases o <;> simp at h1
        | error err => exact .inl ⟨a, v, err, rfl, hcv⟩
    · obtain ⟨n, t, hm, r⟩ := castFields_err rest fs lfs e' h2
      exact ⟨n, t, by simp [TFields.toList, hm], r⟩

theorem noKnownFields_mem : ∀ (tfs' : TFields) (fs : ArrFields) (lfs : LFields),
    noKnownFields tfs' fs lfs = true → ∀ n t, (n, t) ∈ TFields.toList tfs' → ∀ a v, fieldNamed fs lfs n = some (a, v) →
    noKnown t a v = true
  | .nil, _, _, _, n, t, hm, _, _, _ => by simp [TFields.toList] at hm
  | .cons n' t' rest, fs, lfs, hk, n, t, hm, a, v, hf => by
    simp only [noKnownFields, Bool.and_eq_true] at hk
    simp only [TFields.toList, List.mem_cons, Prod.mk.injEq] at hm
    rcases hm with ⟨rfl, rfl⟩ | hm
    · have := hk.1
      rw [hf] at this
      exact this
    · exact noKnownFields_mem rest fs lfs hk.2 n t hm a v hf

theorem mem_names_of_mem : ∀ (tfs : TFields) (n : String) (t : Target), (n, t) ∈ TFields.toList tfs → n ∈ TFields.names tfs
  | .nil, _, _, h => by simp [TFields.toList] at h
  | .cons n' t' rest, n, t, h => by
    simp only [TFields.toList, List.mem_cons, Prod.mk.injEq] at h
    rcases h with ⟨rfl, _⟩ | h
    · simp [TFields.names]
    · simp [TFields.names, mem_names_of_mem rest n t h]

theorem lookupT_of_mem_nodup : ∀ (tfs : TFields), nodupNames (TFields.names tfs) = true → ∀ n t,
    (n, t) ∈ TFields.toList tfs → ∀ pos, ∃ p, lookupT tfs n pos = some (p, t)
  | .nil, _, n, t, h, _ => by simp [TFields.toList] at h
  | .cons n' t' rest, hnd, n, t, h, pos => by
    simp only [TFields.names] at hnd
    obtain ⟨hnotin, hnd'⟩ := nodupNames_cons hnd
    simp only [TFields.toList, List.mem_cons, Prod.mk.injEq] at h
    unfold lookupT
    rcases h with ⟨rfl, rfl⟩ | h
    · exact ⟨pos, by simp⟩
    · have hne : (n' == n) = false := by
        simp only [beq_eq_false_iff_ne, ne_eq]
        intro he; rw [he] at hnotin; exact hnotin (mem_names_of_mem rest n t h)
      simp only [hne, Bool.false_eq_true, if_false]
      exact lookupT_of_mem_nodup rest hnd' n t h (pos + 1)

theorem mem_names_of_mem_toList : ∀ (fs : ArrFields) (fm : FieldMeta) (a : Arr), (fm, a) ∈ fs.toList → fm.name ∈ ArrFields.names fs
  | .nil, _, _, h => by simp [ArrFields.toList] at h
  | .cons fm' a' rest, fm, a, h => by
    simp only [ArrFields.toList, List.mem_cons, Prod.mk.injEq] at h
    rcases h with ⟨rfl, _⟩ | h
    · simp [ArrFields.names]
    · simp [ArrFields.names, mem_names_of_mem_toList rest fm a h]

/-- the slots the key loop fills are at the target positions of column field names -/
theorem keyLoop_keys {tfs : TFields} {i : Nat} : ∀ (l : List (FieldMeta × Arr)) (s0 s : Slots),
    l.foldlM (keyStep tfs i) s0 = .ok s → ∀ q, (s.lookup q).isSome = true →
    (s0.lookup q).isSome = true ∨ ∃ x ∈ l, ∃ t, lookupT tfs x.1.name 0 = some (q, t)
  | [], s0, s, h, q, hq => by
    simp only [List.foldlM, pure, Except.pure, Except.ok.injEq] at h
    subst h; exact .inl hq
  | y :: l, s0, s, h, q, hq => by
    rw [List.foldlM_cons] at h
    obtain ⟨s1, h1, h2⟩ := bind_ok_inv h
    rcases keyLoop_keys l s1 s h2 q hq with hs1 | ⟨x, hx, t, hl⟩
    · simp only [keyStep, readFieldAs_eq] at h1
      cases hl : lookupT tfs y.1.name 0 with
      | none =>
        rw [hl] at h1
        simp only [bind, Except.bind] at h1
        cases hr : readAny Fixes.all y.2 i with
        | error e => rw [hr] at h1; cases h1
        | ok d =>
          rw [hr] at h1
          simp only [pure, Except.pure, Except.ok.injEq] at h1
          subst h1; exact .inl hs1
      | some pt =>
        obtain ⟨p, t⟩ := pt
        rw [hl] at h1
        simp only at h1
        split at h1
        · simp [fail, bind, Except.bind] at h1
        · cases hr : readAs Fixes.all t y.2 i with
          | error e => rw [hr] at h1; simp [bind, Except.bind] at h1
          | ok d =>
            rw [hr] at h1
            simp only [bind, Except.bind, pure, Except.pure, Except.ok.injEq] at h1
            subst h1
            rw [List.lookup_append] at hs1
            cases hs0 : s0.lookup q with
            | some _ => exact .inl rfl
            | none =>
              rw [hs0] at hs1
              simp only [Option.none_or, List.lookup] at hs1
              by_cases hqp : q = p
              · subst hqp; exact .inr ⟨y, by simp, t, hl⟩
              · have : (q == p) = false := by simpa using hqp
                simp [this] at hs1
    · exact .inr ⟨x, by simp [hx], t, hl⟩

theorem finishFields_needs : ∀ (tfs : TFields) (pos : Nat) (slots : Slots) (r : List (DVal × DVal)),
    finishFields tfs pos slots = .ok r → ∀ n p t, lookupT tfs n pos = some (p, t) → t.isOption = false →
    (slots.get? p).isSome = true
  | .nil, _, _, _, _, n, p, t, hl, _ => by simp [lookupT] at hl
  | .cons n' t' rest, pos, slots, r, h, n, p, t, hl, ho => by
    simp only [finishFields] at h
    obtain ⟨v, hv, h⟩ := bind_ok_inv h
    obtain ⟨r', hr', _⟩ := bind_ok_inv h
    unfold lookupT at hl
    split at hl
    · cases hl
      unfold slotOrMissing at hv
      split at hv
      · rename_i hs; rw [hs]; rfl
      · simp [ho, fail] at hv
    · exact finishFields_needs rest (pos + 1) slots r' hr' n p t hl ho

/-- `structClaim` + `structVisit` (struct target, struct variant) -/
theorem structVisit_rej {tfs : TFields} (hS : ∀ p ∈ TFields.toList tfs, Rej p.2) (a : Arr) (i : Nat) (lv : LVal) (e : Fail)
    (h : decodeAt a i = .ok lv) (hn : new Fixes.all a = .ok ()) (hp : physical a = true) (hu : utf8Ok lv = true)
    (hk : structPart (fun fs lfs => noKnownFields tfs fs lfs) a lv = true)
    (hc : structClaim (TFields.names tfs) (fun fs lfs => castFields tfs fs lfs) a lv = .error e) :
    (structVisit Fixes.all (fun slots name child => readFieldAs Fixes.all tfs 0 slots name child i) tfs a i).isOk = false := by
  cases a with
  | struct len v fs =>
    obtain ⟨hi, hlv⟩ := struct_inv h
    rcases hlv with rfl | ⟨vals, hvals, rfl⟩
    · simp [structPart] at hk
    · simp only [structClaim] at hc
      simp only [structPart] at hk
      split at hc
      · simp [na] at hc
      · rename_i hdup
        simp only [Bool.or_eq_true, Bool.not_eq_true', not_or, Bool.not_eq_false] at hdup
        have hcl := andThenE_err (fun _ _ => must_ne_err) hc
        unfold physical at hp
        simp only [utf8Ok] at hu
        have e' : structVisit Fixes.all (fun slots name child => readFieldAs Fixes.all tfs 0 slots name child i) tfs
            (.struct len v fs) i =
            (do structItem Fixes.all len i
                let slots ← fs.toList.foldlM (keyStep tfs i) []
                pure (.map (DEntries.ofList (← finishFields tfs 0 slots)))) := rfl
        rw [e', structItem_ok hi]
        simp only [bind, Except.bind]
        obtain ⟨n, t, hm, hcase⟩ := castFields_err tfs fs _ e hcl
        obtain ⟨p, hl⟩ := lookupT_of_mem_nodup tfs hdup.2 n t hm 0
        rcases hcase with ⟨a', v', err, hf, hcv⟩ | ⟨hf, ho⟩
        · -- a column field whose value the target field cannot take: its `next_value` fails
          obtain ⟨⟨fm, hmem, hname⟩, hdec, hna, hpa, hua⟩ := fieldNamed_facts fs i vals n a' v' hvals (new_struct_inv hn) hp hu hf
          have hka := noKnownFields_mem tfs fs _ hk n t hm a' v' hf
          have hread := hS (n, t) hm a' i v' err hdec hna hpa hua hka hcv
          apply bind_fails_left
          apply foldlM_fails
          refine ⟨(fm, a'), hmem, ?_⟩
          intro s
          simp only [keyStep, readFieldAs_eq, hname, hl]
          apply bind_fails_left
          split
          · rfl
          · exact bind_fails_left hread
        · -- a non-Option target field without a column field: `missing_field`
          apply fails_of_not_ok
          intro d hd
          obtain ⟨slots, hloop, hd⟩ := bind_ok_inv hd
          obtain ⟨r, hfin, _⟩ := bind_ok_inv hd
          have hsome := finishFields_needs tfs 0 slots r hfin n p t hl ho
          rcases keyLoop_keys fs.toList [] slots hloop p hsome with h0 | ⟨x, hx, t', hlx⟩
          · simp at h0
          · have hnn := lookupT_inj tfs x.1.name n 0 p t' t hlx hl
            have hmemn := mem_names_of_mem_toList fs x.1 x.2 hx
            rw [hnn] at hmemn
            exact fieldNamed_of_mem fs i vals n hvals hmemn hf
  | _ => simp [structVisit, notImpl, fail, R.isOk]

theorem rej_struct {tfs : TFields} (hS : ∀ p ∈ TFields.toList tfs, Rej p.2) : Rej (.struct tfs) := by
  intro a i lv e h hn hp hu hk hc
  simp only [cast] at hc
  simp only [noKnown] at hk
  simp only [readAs]
  exact structVisit_rej hS a i lv e h hn hp hu hk hc

theorem krej_struct {tfs : TFields} (hS : ∀ p ∈ TFields.toList tfs, Rej p.2) : KRej (.struct tfs) := by
  intro child off lv e h hn hp hu hk hc
  simp only [castKind] at hc
  simp only [noKnownKind] at hk
  simp only [readKind]
  exact structVisit_rej hS child off lv e h hn hp hu hk hc

end SaModel.Read
