import SaModel.Lemmas.C06Lists
import SaModel.Trace.Leaf
/-
C06 helpers, part 2: the compound serializers of `from_samples` restated over ordinary lists, so that the nested laws
can be proved with ordinary list induction, plus an induction principle for `SVal` that hands the statement for all
children of a compound sample to the caller.

* `absorbSeq` = `absorbAll` on the element list;
* `absorbFields`, `absorbEntriesAsStruct`, `absorbOpsAsStruct` = `absorbKVs` on the (key, value) list of the sample;
* `absorbEntriesAsMap`, `absorbOpsAsMap` = two independent `absorbAll` runs (keys, values);
* `absorbTuple` = `absorbTupleL`;
* the unit / tuple / struct variants are the newtype variant of `()` / the tuple / the struct.
-/
namespace SaModel.Lemmas.C06
open SaModel SaModel.Trace

/-! ### children of compound samples -/

def SFields.kvs : SFields → List (String × SVal)
  | .nil => []
  | .cons k _ v r => (k, v) :: SFields.kvs r

def SEntries.keys : SEntries → List SVal
  | .nil => []
  | .cons k _ r => k :: SEntries.keys r

def SEntries.vals : SEntries → List SVal
  | .nil => []
  | .cons _ v r => v :: SEntries.vals r

/-- the (key, value) list of a map sample traced as a struct: every key must be a string -/
def SEntries.kvs : SEntries → R (List (String × SVal))
  | .nil => .ok []
  | .cons k v r => do
    let key ← serializeToString k
    let rest ← SEntries.kvs r
    .ok ((key, v) :: rest)

def SMapOps.keys : SMapOps → List SVal
  | .nil => []
  | .key k r => k :: SMapOps.keys r
  | .value _ r => SMapOps.keys r

def SMapOps.vals : SMapOps → List SVal
  | .nil => []
  | .key _ r => SMapOps.vals r
  | .value v r => v :: SMapOps.vals r

/-- the (key, value) list a raw call stream amounts to under `MapSerializer::AsStruct`; `nk` is the pending key -/
def SMapOps.kvs : Option String → SMapOps → R (List (String × SVal))
  | _, .nil => .ok []
  | _, .key k r => do
    let key ← serializeToString k
    SMapOps.kvs (some key) r
  | nk, .value v r =>
    match nk with
    | none => fail "serialize_value called without prior call to serialize_key"
    | some key => do
      let rest ← SMapOps.kvs none r
      .ok ((key, v) :: rest)

/-! ### induction over samples, children as lists -/

section induct
variable (o : Options) (P : SVal → Prop)
  (hleaf : ∀ x ty, leafTypeOf o x = some ty → P x)
  (hnone : P .none)
  (hsome : ∀ v, P v → P (.some v))
  (hnewtype : ∀ n v, P v → P (.newtypeStruct n v))
  (hseq : ∀ items : SVals, (∀ v ∈ items.toList, P v) → P (.seq items))
  (htuple : ∀ items : SVals, (∀ v ∈ items.toList, P v) → P (.tuple items))
  (htupleStruct : ∀ n (items : SVals), (∀ v ∈ items.toList, P v) → P (.tupleStruct n items))
  (hrecord : ∀ n (fs : SFields), (∀ kv ∈ SFields.kvs fs, P kv.2) → P (.record n fs))
  (hmap : ∀ es : SEntries, (∀ v ∈ SEntries.keys es, P v) → (∀ v ∈ SEntries.vals es, P v) → P (.map es))
  (hmapRaw : ∀ ops : SMapOps, (∀ v ∈ SMapOps.keys ops, P v) → (∀ v ∈ SMapOps.vals ops, P v) → P (.mapRaw ops))
  (hunitVariant : ∀ n i vn, P (.unitVariant n i vn))
  (hnewtypeVariant : ∀ n i vn v, P v → P (.newtypeVariant n i vn v))
  (htupleVariant : ∀ n i vn (items : SVals), (∀ v ∈ items.toList, P v) → P (.tupleVariant n i vn items))
  (hstructVariant : ∀ n i vn (fs : SFields), (∀ kv ∈ SFields.kvs fs, P kv.2) → P (.structVariant n i vn fs))
include hleaf hnone hsome hnewtype hseq htuple htupleStruct hrecord hmap hmapRaw hunitVariant hnewtypeVariant
  htupleVariant hstructVariant

mutual
theorem sval_induct : ∀ x : SVal, P x
  | .none => hnone
  | .unit => hleaf _ _ rfl
  | .some v => hsome v (sval_induct v)
  | .bool _ => hleaf _ _ rfl
  | .int _ _ => hleaf _ _ rfl
  | .f32 _ => hleaf _ _ rfl
  | .f64 _ => hleaf _ _ rfl
  | .char _ => hleaf _ _ rfl
  | .str _ => hleaf _ _ rfl
  | .bytes _ => hleaf _ _ rfl
  | .seq items => hseq items (svals_induct items)
  | .tuple items => htuple items (svals_induct items)
  | .tupleStruct n items => htupleStruct n items (svals_induct items)
  | .newtypeStruct n v => hnewtype n v (sval_induct v)
  | .unitStruct _ => hleaf _ _ rfl
  | .record n fs => hrecord n fs (sfields_induct fs)
  | .map es => hmap es (sentries_induct es).1 (sentries_induct es).2
  | .mapRaw ops => hmapRaw ops (sops_induct ops).1 (sops_induct ops).2
  | .unitVariant n i vn => hunitVariant n i vn
  | .newtypeVariant n i vn v => hnewtypeVariant n i vn v (sval_induct v)
  | .tupleVariant n i vn items => htupleVariant n i vn items (svals_induct items)
  | .structVariant n i vn fs => hstructVariant n i vn fs (sfields_induct fs)
theorem svals_induct : ∀ xs : SVals, ∀ v ∈ xs.toList, P v
  | .nil => by intro v h; simp [SVals.toList] at h
  | .cons x r => by
    intro v h
    simp only [SVals.toList, List.mem_cons] at h
    rcases h with h | h
    · rw [h]; exact sval_induct x
    · exact svals_induct r v h
theorem sfields_induct : ∀ fs : SFields, ∀ kv ∈ SFields.kvs fs, P kv.2
  | .nil => by intro v h; simp [SFields.kvs] at h
  | .cons k _ x r => by
    intro kv h
    simp only [SFields.kvs, List.mem_cons] at h
    rcases h with h | h
    · rw [h]; exact sval_induct x
    · exact sfields_induct r kv h
theorem sentries_induct : ∀ es : SEntries, (∀ v ∈ SEntries.keys es, P v) ∧ (∀ v ∈ SEntries.vals es, P v)
  | .nil => by constructor <;> (intro v h; simp [SEntries.keys, SEntries.vals] at h)
  | .cons k x r => by
    have ih := sentries_induct r
    constructor
    · intro v h
      simp only [SEntries.keys, List.mem_cons] at h
      rcases h with h | h
      · rw [h]; exact sval_induct k
      · exact ih.1 v h
    · intro v h
      simp only [SEntries.vals, List.mem_cons] at h
      rcases h with h | h
      · rw [h]; exact sval_induct x
      · exact ih.2 v h
theorem sops_induct : ∀ ops : SMapOps, (∀ v ∈ SMapOps.keys ops, P v) ∧ (∀ v ∈ SMapOps.vals ops, P v)
  | .nil => by constructor <;> (intro v h; simp [SMapOps.keys, SMapOps.vals] at h)
  | .key k r => by
    have ih := sops_induct r
    constructor
    · intro v h
      simp only [SMapOps.keys, List.mem_cons] at h
      rcases h with h | h
      · rw [h]; exact sval_induct k
      · exact ih.1 v h
    · intro v h
      simp only [SMapOps.vals] at h
      exact ih.2 v h
  | .value x r => by
    have ih := sops_induct r
    constructor
    · intro v h
      simp only [SMapOps.keys] at h
      exact ih.1 v h
    · intro v h
      simp only [SMapOps.vals, List.mem_cons] at h
      rcases h with h | h
      · rw [h]; exact sval_induct x
      · exact ih.2 v h
end
end induct

/-! ### list versions of the compound serializers -/

/-- `StructSerializer::serialize_field` for every (key, value) -/
def absorbKVs (c : Code) (o : Options) (path : String) (seen : Nat) : TFields → List (String × SVal) → R TFields
  | fs, [] => .ok fs
  | fs, kv :: r =>
    match (ensure_field path seen fs kv.1).2.get? (ensure_field path seen fs kv.1).1 with
    | some ft =>
      match absorb c o ft kv.2 with
      | .ok ft' => absorbKVs c o path seen ((ensure_field path seen fs kv.1).2.set (ensure_field path seen fs kv.1).1 ft') r
      | .error e => .error e
    | none => panic "unreachable: get_field_tracer_mut"

def absorbTupleL (c : Code) (o : Options) (path : String) : Tracers → Nat → List SVal → R Tracers
  | ts, _, [] => .ok ts
  | ts, pos, v :: r =>
    match (field_tracer_grow path pos ts).get? pos with
    | some ft =>
      match absorb c o ft v with
      | .ok ft' => absorbTupleL c o path ((field_tracer_grow path pos ts).set pos ft') (pos + 1) r
      | .error e => .error e
    | none => panic "unreachable: field_tracer"

theorem absorbAll_cons (c : Code) (o : Options) (t : Tracer) (x : SVal) (xs : List SVal) :
    absorbAll c o t (x :: xs) = match absorb c o t x with
      | .ok t' => absorbAll c o t' xs
      | .error e => .error e := by
  simp only [absorbAll]
  cases absorb c o t x <;> rfl

theorem absorbAll_append (c : Code) (o : Options) : ∀ (xs ys : List SVal) (t : Tracer),
    absorbAll c o t (xs ++ ys) = match absorbAll c o t xs with
      | .ok t' => absorbAll c o t' ys
      | .error e => .error e
  | [], ys, t => by simp [absorbAll]
  | x :: xs, ys, t => by
    simp only [List.cons_append, absorbAll_cons]
    cases absorb c o t x with
    | ok t' => simp only; exact absorbAll_append c o xs ys t'
    | error e => rfl

theorem absorbSeq_eq (c : Code) (o : Options) : ∀ (items : SVals) (i : Tracer),
    absorbSeq c o i items = absorbAll c o i items.toList
  | .nil, i => by simp [absorbSeq, SVals.toList, absorbAll]
  | .cons v r, i => by
    simp only [absorbSeq, SVals.toList, absorbAll_cons]
    cases absorb c o i v with
    | ok i' => exact absorbSeq_eq c o r i'
    | error e => rfl

theorem absorbTuple_eq (c : Code) (o : Options) (path : String) : ∀ (items : SVals) (ts : Tracers) (pos : Nat),
    absorbTuple c o path ts pos items = absorbTupleL c o path ts pos items.toList
  | .nil, ts, pos => by simp [absorbTuple, SVals.toList, absorbTupleL]
  | .cons v r, ts, pos => by
    simp only [absorbTuple, SVals.toList, absorbTupleL]
    cases (field_tracer_grow path pos ts).get? pos with
    | none => rfl
    | some ft =>
      simp only
      cases absorb c o ft v with
      | ok ft' => exact absorbTuple_eq c o path r _ _
      | error e => rfl

theorem absorbFields_eq (c : Code) (o : Options) (path : String) (seen : Nat) : ∀ (fields : SFields) (fs : TFields),
    absorbFields c o path seen fs fields = absorbKVs c o path seen fs (SFields.kvs fields)
  | .nil, fs => by simp [absorbFields, SFields.kvs, absorbKVs]
  | .cons k _ v r, fs => by
    simp only [absorbFields, SFields.kvs, absorbKVs]
    cases (ensure_field path seen fs k).2.get? (ensure_field path seen fs k).1 with
    | none => rfl
    | some ft =>
      simp only
      cases absorb c o ft v with
      | ok ft' => exact absorbFields_eq c o path seen r _
      | error e => rfl

theorem absorbEntriesAsStruct_ok (c : Code) (o : Options) (path : String) (seen : Nat) :
    ∀ (es : SEntries) (fs fs' : TFields),
    absorbEntriesAsStruct c o path seen fs es = .ok fs' ↔
      ∃ kvs, SEntries.kvs es = .ok kvs ∧ absorbKVs c o path seen fs kvs = .ok fs'
  | .nil, fs, fs' => by simp [absorbEntriesAsStruct, SEntries.kvs, absorbKVs]
  | .cons k v r, fs, fs' => by
    simp only [absorbEntriesAsStruct, SEntries.kvs]
    cases hk : serializeToString k with
    | error e => simp [bind, Except.bind]
    | ok key =>
      simp only [bind, Except.bind]
      cases hg : (ensure_field path seen fs key).2.get? (ensure_field path seen fs key).1 with
      | none =>
        simp only [panic]
        constructor
        · intro h; cases h
        · rintro ⟨kvs, h1, h2⟩
          cases hr : SEntries.kvs r with
          | error e => rw [hr] at h1; cases h1
          | ok rest => rw [hr] at h1; cases h1; simp [absorbKVs, hg, panic] at h2
      | some ft =>
        simp only
        cases ha : absorb c o ft v with
        | error e =>
          constructor
          · intro h; cases h
          · rintro ⟨kvs, h1, h2⟩
            cases hr : SEntries.kvs r with
            | error e => rw [hr] at h1; cases h1
            | ok rest => rw [hr] at h1; cases h1; simp [absorbKVs, hg, ha] at h2
        | ok ft' =>
          simp only
          rw [absorbEntriesAsStruct_ok c o path seen r]
          constructor
          · rintro ⟨kvs, h1, h2⟩
            exact ⟨(key, v) :: kvs, by rw [h1], by simp [absorbKVs, hg, ha, h2]⟩
          · rintro ⟨kvs, h1, h2⟩
            cases hr : SEntries.kvs r with
            | error e => rw [hr] at h1; cases h1
            | ok rest =>
              rw [hr] at h1; cases h1
              refine ⟨rest, rfl, ?_⟩
              simpa [absorbKVs, hg, ha] using h2

theorem SEntries.kvs_vals : ∀ (es : SEntries) (kvs : List (String × SVal)), SEntries.kvs es = .ok kvs →
    ∀ kv ∈ kvs, kv.2 ∈ SEntries.vals es
  | .nil, kvs, h => by simp [SEntries.kvs] at h; subst h; simp
  | .cons k v r, kvs, h => by
    simp only [SEntries.kvs, bind, Except.bind] at h
    cases hk : serializeToString k with
    | error e => rw [hk] at h; cases h
    | ok key =>
      rw [hk] at h; simp only at h
      cases hr : SEntries.kvs r with
      | error e => rw [hr] at h; cases h
      | ok rest =>
        rw [hr] at h; cases h
        intro kv hkv
        simp only [List.mem_cons] at hkv
        rcases hkv with rfl | hkv
        · simp [SEntries.vals]
        · simp only [SEntries.vals, List.mem_cons]; exact .inr (SEntries.kvs_vals r rest hr kv hkv)

theorem absorbOpsAsStruct_ok (c : Code) (o : Options) (path : String) (seen : Nat) :
    ∀ (ops : SMapOps) (nk : Option String) (fs fs' : TFields),
    absorbOpsAsStruct c o path seen fs nk ops = .ok fs' ↔
      ∃ kvs, SMapOps.kvs nk ops = .ok kvs ∧ absorbKVs c o path seen fs kvs = .ok fs'
  | .nil, nk, fs, fs' => by simp [absorbOpsAsStruct, SMapOps.kvs, absorbKVs]
  | .key k r, nk, fs, fs' => by
    simp only [absorbOpsAsStruct, SMapOps.kvs]
    cases hk : serializeToString k with
    | error e => simp [bind, Except.bind]
    | ok key =>
      simp only [bind, Except.bind]
      exact absorbOpsAsStruct_ok c o path seen r (some key) fs fs'
  | .value v r, none, fs, fs' => by simp [absorbOpsAsStruct, SMapOps.kvs, fail]
  | .value v r, some key, fs, fs' => by
    simp only [absorbOpsAsStruct, SMapOps.kvs]
    simp only [bind, Except.bind]
    cases hg : (ensure_field path seen fs key).2.get? (ensure_field path seen fs key).1 with
    | none =>
      simp only [panic]
      constructor
      · intro h; cases h
      · rintro ⟨kvs, h1, h2⟩
        cases hr : SMapOps.kvs none r with
        | error e => rw [hr] at h1; cases h1
        | ok rest => rw [hr] at h1; cases h1; simp [absorbKVs, hg, panic] at h2
    | some ft =>
      simp only
      cases ha : absorb c o ft v with
      | error e =>
        constructor
        · intro h; cases h
        · rintro ⟨kvs, h1, h2⟩
          cases hr : SMapOps.kvs none r with
          | error e => rw [hr] at h1; cases h1
          | ok rest => rw [hr] at h1; cases h1; simp [absorbKVs, hg, ha] at h2
      | ok ft' =>
        simp only
        rw [absorbOpsAsStruct_ok c o path seen r]
        constructor
        · rintro ⟨kvs, h1, h2⟩
          exact ⟨(key, v) :: kvs, by rw [h1], by simp [absorbKVs, hg, ha, h2]⟩
        · rintro ⟨kvs, h1, h2⟩
          cases hr : SMapOps.kvs none r with
          | error e => rw [hr] at h1; cases h1
          | ok rest =>
            rw [hr] at h1; cases h1
            refine ⟨rest, rfl, ?_⟩
            simpa [absorbKVs, hg, ha] using h2

theorem SMapOps.kvs_vals : ∀ (ops : SMapOps) (nk : Option String) (kvs : List (String × SVal)),
    SMapOps.kvs nk ops = .ok kvs → ∀ kv ∈ kvs, kv.2 ∈ SMapOps.vals ops
  | .nil, nk, kvs, h => by simp [SMapOps.kvs] at h; subst h; simp
  | .key k r, nk, kvs, h => by
    simp only [SMapOps.kvs, bind, Except.bind] at h
    cases hk : serializeToString k with
    | error e => rw [hk] at h; cases h
    | ok key =>
      rw [hk] at h; simp only at h
      simp only [SMapOps.vals]
      exact SMapOps.kvs_vals r (some key) kvs h
  | .value v r, none, kvs, h => by simp [SMapOps.kvs, fail] at h
  | .value v r, some key, kvs, h => by
    simp only [SMapOps.kvs, bind, Except.bind] at h
    cases hr : SMapOps.kvs none r with
    | error e => rw [hr] at h; cases h
    | ok rest =>
      rw [hr] at h; cases h
      intro kv hkv
      simp only [List.mem_cons] at hkv
      rcases hkv with rfl | hkv
      · simp [SMapOps.vals]
      · simp only [SMapOps.vals, List.mem_cons]; exact .inr (SMapOps.kvs_vals r none rest hr kv hkv)

theorem absorbEntriesAsMap_ok (c : Code) (o : Options) : ∀ (es : SEntries) (kt vt kt' vt' : Tracer),
    absorbEntriesAsMap c o kt vt es = .ok (kt', vt') ↔
      absorbAll c o kt (SEntries.keys es) = .ok kt' ∧ absorbAll c o vt (SEntries.vals es) = .ok vt'
  | .nil, kt, vt, kt', vt' => by simp [absorbEntriesAsMap, SEntries.keys, SEntries.vals, absorbAll]
  | .cons k v r, kt, vt, kt', vt' => by
    simp only [absorbEntriesAsMap, SEntries.keys, SEntries.vals, absorbAll_cons, bind, Except.bind]
    cases absorb c o kt k with
    | error e => simp
    | ok kt1 =>
      simp only
      cases absorb c o vt v with
      | error e => simp
      | ok vt1 => simp only; exact absorbEntriesAsMap_ok c o r kt1 vt1 kt' vt'

theorem absorbOpsAsMap_ok (c : Code) (o : Options) : ∀ (ops : SMapOps) (kt vt kt' vt' : Tracer),
    absorbOpsAsMap c o kt vt ops = .ok (kt', vt') ↔
      absorbAll c o kt (SMapOps.keys ops) = .ok kt' ∧ absorbAll c o vt (SMapOps.vals ops) = .ok vt'
  | .nil, kt, vt, kt', vt' => by simp [absorbOpsAsMap, SMapOps.keys, SMapOps.vals, absorbAll]
  | .key k r, kt, vt, kt', vt' => by
    simp only [absorbOpsAsMap, SMapOps.keys, SMapOps.vals, absorbAll_cons, bind, Except.bind]
    cases absorb c o kt k with
    | error e => simp
    | ok kt1 => simp only; exact absorbOpsAsMap_ok c o r kt1 vt kt' vt'
  | .value v r, kt, vt, kt', vt' => by
    simp only [absorbOpsAsMap, SMapOps.keys, SMapOps.vals, absorbAll_cons, bind, Except.bind]
    cases absorb c o vt v with
    | error e => simp
    | ok vt1 => simp only; exact absorbOpsAsMap_ok c o r kt vt1 kt' vt'

/-! ### the variant kinds and tuple structs reduce to the newtype variant / tuple -/

theorem absorb_tupleStruct (c : Code) (o : Options) (t : Tracer) (n : String) (items : SVals) :
    absorb c o t (.tupleStruct n items) = absorb c o t (.tuple items) := by
  simp only [absorb]

theorem absorb_unitVariant (c : Code) (o : Options) (t : Tracer) (n : String) (i : Nat) (vn : String) :
    absorb c o t (.unitVariant n i vn) = absorb c o t (.newtypeVariant n i vn .unit) := by
  simp only [absorb]

theorem absorb_tupleVariant (c : Code) (o : Options) (t : Tracer) (n : String) (i : Nat) (vn : String) (items : SVals) :
    absorb c o t (.tupleVariant n i vn items) = absorb c o t (.newtypeVariant n i vn (.tuple items)) := by
  simp only [absorb, bind, Except.bind]
  cases ensure_union_variant t vn i with
  | error e => rfl
  | ok r =>
    obtain ⟨n', p, nl, vs, vt⟩ := r
    simp only
    cases vt.ensure_tuple c items.length with
    | error e => rfl
    | ok vt' =>
      simp only
      cases vt' <;> try rfl
      rename_i n2 p2 nl2 ts
      simp only
      cases absorbTuple c o p2 ts 0 items <;> rfl

theorem absorb_structVariant (c : Code) (o : Options) (t : Tracer) (n : String) (i : Nat) (vn : String) (fs : SFields) :
    absorb c o t (.structVariant n i vn fs) = absorb c o t (.newtypeVariant n i vn (.record n fs)) := by
  simp only [absorb, bind, Except.bind]
  cases ensure_union_variant t vn i with
  | error e => rfl
  | ok r =>
    obtain ⟨n', p, nl, vs, vt⟩ := r
    simp only
    cases vt.ensure_struct c [] .struct with
    | error e => rfl
    | ok vt' =>
      simp only
      cases vt' <;> try rfl
      rename_i n2 p2 nl2 fs2 m2 s2
      simp only
      cases absorbFields c o p2 s2 fs2 fs <;> rfl

end SaModel.Lemmas.C06
