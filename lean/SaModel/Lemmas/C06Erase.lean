import SaModel.Lemmas.C06Lists
/-
C06 helpers, part 3: `erase` forgets the sample counters of the struct tracers (`seen_samples`,
`last_seen_in_sample`).  Two tracers with the same erasure differ only in that bookkeeping; in particular they produce the
same field (`to_field_erase`).
-/
namespace SaModel.Lemmas.C06
open SaModel SaModel.Trace

mutual
def erase : Tracer → Tracer
  | .unknown n p nl => .unknown n p nl
  | .primitive n p nl ty st => .primitive n p nl ty st
  | .list n p nl i => .list n p nl (erase i)
  | .map n p nl k v => .map n p nl (erase k) (erase v)
  | .struct n p nl fs m _ => .struct n p nl (eraseF fs) m 0
  | .tuple n p nl ts => .tuple n p nl (eraseT ts)
  | .union n p nl vs => .union n p nl (eraseV vs)
def eraseT : Tracers → Tracers
  | .nil => .nil
  | .cons t r => .cons (erase t) (eraseT r)
def eraseF : TFields → TFields
  | .nil => .nil
  | .cons n _ t r => .cons n 0 (erase t) (eraseF r)
def eraseV : Variants → Variants
  | .nil => .nil
  | .absent r => .absent (eraseV r)
  | .present n t r => .present n (erase t) (eraseV r)
end

theorem erase_nullable (t : Tracer) : (erase t).nullable = t.nullable := by cases t <;> rfl

theorem erase_mark_nullable (t : Tracer) : erase t.mark_nullable = (erase t).mark_nullable := by cases t <;> rfl

theorem erase_is_unknown_or_null (t : Tracer) : (erase t).is_unknown_or_null = t.is_unknown_or_null := by
  cases t <;> rfl

theorem mark_nullable_of_nullable {t : Tracer} (h : t.nullable = true) : t.mark_nullable = t := by
  cases t <;> simp only [Tracer.nullable] at h <;> subst h <;> rfl

theorem mark_nullable_nullable (t : Tracer) : t.mark_nullable.nullable = true := by cases t <;> rfl

theorem eraseV_is_without_data : ∀ vs : Variants, (eraseV vs).is_without_data = vs.is_without_data
  | .nil => rfl
  | .absent _ => rfl
  | .present _ t r => by
    simp only [eraseV, Variants.is_without_data, is_null_variant, erase_is_unknown_or_null, eraseV_is_without_data r]

mutual
theorem to_field_erase (o : Options) : ∀ t : Tracer, (erase t).to_field o = t.to_field o
  | .unknown _ _ _ => rfl
  | .primitive _ _ _ _ _ => rfl
  | .list n p nl i => by simp only [erase, Tracer.to_field, to_field_erase o i]
  | .map n p nl k v => by simp only [erase, Tracer.to_field, to_field_erase o k, to_field_erase o v]
  | .struct n p nl fs m s => by simp only [erase, Tracer.to_field, to_fieldsF_erase o fs]
  | .tuple n p nl ts => by simp only [erase, Tracer.to_field, to_fieldsT_erase o ts]
  | .union n p nl vs => by simp only [erase, Tracer.to_field, to_fieldsV_erase o vs, eraseV_is_without_data]
theorem to_fieldsT_erase (o : Options) : ∀ ts : Tracers, (eraseT ts).to_fields o = ts.to_fields o
  | .nil => rfl
  | .cons t r => by simp only [eraseT, Tracers.to_fields, to_field_erase o t, to_fieldsT_erase o r]
theorem to_fieldsF_erase (o : Options) : ∀ fs : TFields, (eraseF fs).to_fields o = fs.to_fields o
  | .nil => rfl
  | .cons _ _ t r => by simp only [eraseF, TFields.to_fields, to_field_erase o t, to_fieldsF_erase o r]
theorem to_fieldsV_erase (o : Options) : ∀ (vs : Variants) (idx : Nat), (eraseV vs).to_fields o idx = vs.to_fields o idx
  | .nil, _ => rfl
  | .absent r, idx => by simp only [eraseV, Variants.to_fields, to_fieldsV_erase o r]
  | .present _ t r, idx => by simp only [eraseV, Variants.to_fields, to_field_erase o t, to_fieldsV_erase o r]
end

/-- tracers that agree up to the sample counters produce the same field -/
theorem to_field_of_erase_eq (o : Options) {t t' : Tracer} (h : erase t = erase t') : t.to_field o = t'.to_field o := by
  rw [← to_field_erase o t, h, to_field_erase]

/-! ### erasure and the list edits -/

theorem eraseT_set_same : ∀ (ts : Tracers) (i : Nat) (c c' : Tracer), ts.get? i = some c → erase c' = erase c →
    eraseT (ts.set i c') = eraseT ts
  | .nil, _, _, _, h, _ => by simp [Tracers.get?] at h
  | .cons _ _, 0, c, c', h, he => by
    simp only [Tracers.get?, Option.some.injEq] at h; subst h
    simp only [Tracers.set, eraseT, he]
  | .cons _ r, i + 1, c, c', h, he => by
    simp only [Tracers.set, eraseT]
    rw [eraseT_set_same r i c c' h he]

theorem eraseF_setLastSeen : ∀ (fs : TFields) (i s : Nat), eraseF (fs.setLastSeen i s) = eraseF fs
  | .nil, _, _ => rfl
  | .cons _ _ _ _, 0, _ => rfl
  | .cons _ _ _ r, i + 1, s => by simp only [TFields.setLastSeen, eraseF, eraseF_setLastSeen r i s]

theorem eraseF_set_same : ∀ (fs : TFields) (i : Nat) (c c' : Tracer), fs.get? i = some c → erase c' = erase c →
    eraseF (fs.set i c') = eraseF fs
  | .nil, _, _, _, h, _ => by simp [TFields.get?] at h
  | .cons _ _ _ _, 0, c, c', h, he => by
    simp only [TFields.get?, Option.some.injEq] at h; subst h
    simp only [TFields.set, eraseF, he]
  | .cons _ _ _ r, i + 1, c, c', h, he => by
    simp only [TFields.set, eraseF]
    rw [eraseF_set_same r i c c' h he]

/-- `end` changes nothing but counters when every field was seen in this sample or is nullable already -/
theorem eraseF_end : ∀ (s : Nat) (fs : TFields),
    (∀ i t l, fs.get? i = some t → lastSeen? fs i = some l → l = s ∨ t.nullable = true) →
    eraseF (fs.end_ s) = eraseF fs
  | _, .nil, _ => rfl
  | s, .cons n l t r, h => by
    simp only [TFields.end_, eraseF]
    have h0 := h 0 t l rfl rfl
    have hr : eraseF (r.end_ s) = eraseF r := eraseF_end s r (fun i t' l' hg hl => h (i + 1) t' l' hg hl)
    rw [hr]
    rcases h0 with h0 | h0
    · subst h0; simp
    · rw [mark_nullable_of_nullable h0]; simp

theorem eraseV_set_same : ∀ (vs : Variants) (i : Nat) (n : String) (c c' : Tracer), vs.get? i = some (some (n, c)) →
    erase c' = erase c → eraseV (vs.set i n c') = eraseV vs
  | .nil, _, _, _, _, h, _ => by simp [Variants.get?] at h
  | .absent _, 0, _, _, _, h, _ => by simp [Variants.get?] at h
  | .present _ _ _, 0, n, c, c', h, he => by
    simp only [Variants.get?, Option.some.injEq, Prod.mk.injEq] at h
    obtain ⟨h1, h2⟩ := h; subst h1; subst h2
    simp only [Variants.set, eraseV, he]
  | .absent r, i + 1, n, c, c', h, he => by
    simp only [Variants.set, eraseV]
    rw [eraseV_set_same r i n c c' h he]
  | .present _ _ r, i + 1, n, c, c', h, he => by
    simp only [Variants.set, eraseV]
    rw [eraseV_set_same r i n c c' h he]

end SaModel.Lemmas.C06
