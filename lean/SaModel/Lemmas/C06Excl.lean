import SaModel.Spec.Interp
import SaModel.Lemmas.C01LeafBridge
import SaModel.Trace.FromSamples
/-
C06, closure: the exclusions of the property as explicit decidable predicates on (data type of the traced field, sample).

Local predicates (one position: the data type the schema gives the position, the serde call the sample makes there):
  `nullAtEnum`         DOCUMENTED: a null (`None`, `()`, a unit struct, a missing field / tuple position) at an enum-typed (Union) position
  `dateLookalike`      DOCUMENTED: a string at a position traced as Date32 / Time64 / Timestamp under `guess_dates` (the
                       tracer only matches the pattern) that the builder's parser refuses
  `u64AboveI64`        DOCUMENTED: a `u64` above `i64::MAX` at a position coerced to Int64 under `coerce_numbers`
  `dataLessNewtype`    KNOWN FINDING C06-data-less-newtype-variant-as-string: a newtype variant at a position traced as a
                       dictionary of strings (`enums_without_data_as_strings`, payload only ever null)
(No exclusion for unit structs — finding `C06-unit-struct-into-value`, a unit struct at a position that is not of type
Null: the tracer treats `serialize_unit_struct` like `serialize_unit`, and with repo fix ae2fc46 every builder treats a unit
struct as it treats `()`, so a unit struct counts as a null, also in `nullAtEnum`.)
`hits p dt x` walks the sample along the documented mapping (`Spec.interpDT`: records by name, tuples by position, maps by
key, variants by index; a field / position the sample lacks counts as a null there) and says whether `p` holds at some
position.  `sampleOK` is the well-formedness of a sample as a serde value (integers within their width, chars are
Unicode scalar values, no raw key/value call streams, no duplicate keys in one record) — outside the quantifier of C06.
-/
namespace SaModel.Lemmas.C06
open SaModel SaModel.Spec SaModel.Build SaModel.Trace

def isUnionDT : DataType → Bool
  | .union _ _ => true
  | _ => false

/-- the data types `guess_dates` assigns to strings -/
def isGuessedDT : DataType → Bool
  | .date32 | .time64 _ | .timestamp _ _ => true
  | _ => false

def isDictDT : DataType → Bool
  | .dictionary _ _ => true
  | _ => false

def isNullDT : DataType → Bool
  | .null => true
  | _ => false

def isInt64DT : DataType → Bool
  | .int64 => true
  | _ => false

/-! ### the local predicates -/

/-- DOCUMENTED exclusion 1: null for an enum-typed position -/
def nullAtEnum (dt : DataType) : SVal → Bool
  | .none | .unit | .unitStruct _ => isUnionDT dt
  | _ => false

/-- DOCUMENTED exclusion 2: a string that only looks like a date / time (the tracer matched the pattern, the parser of
the builder refuses it) -/
def dateLookalike (ext : Ext) (dt : DataType) : SVal → Bool
  | .str s => isGuessedDT dt && !(interpScalar ext dt (.str s)).isOk
  | _ => false

/-- DOCUMENTED exclusion 3: `u64` above `i64::MAX` at a position coerced to Int64 -/
def u64AboveI64 (dt : DataType) : SVal → Bool
  | .int .u64 v => isInt64DT dt && decide (9223372036854775807 < v)
  | _ => false

/-- KNOWN FINDING: data-less newtype variant traced as a string -/
def dataLessNewtype (dt : DataType) : SVal → Bool
  | .newtypeVariant _ _ _ _ => isDictDT dt
  | _ => false

/-- any of the four -/
def exclAny (ext : Ext) (dt : DataType) (x : SVal) : Bool :=
  nullAtEnum dt x || dateLookalike ext dt x || u64AboveI64 dt x || dataLessNewtype dt x

/-! ### walking a sample along the mapping -/

def SFields.hasKey : SFields → String → Bool
  | .nil, _ => false
  | .cons k _ _ r, key => k == key || SFields.hasKey r key

def SEntries.hasKey : SEntries → String → Bool
  | .nil, _ => false
  | .cons k _ r, key => ((keyStr k).toOption == some key) || SEntries.hasKey r key

mutual
/-- `p` holds at some position the mapping of `x` at a field of type `dt` visits -/
def hits (p : DataType → SVal → Bool) (dt : DataType) : SVal → Bool
  | .some v => hits p dt v
  | .newtypeStruct _ v => hits p dt v
  | .seq xs =>
    match dt with
    | .list (.mk _ c _ _) | .largeList (.mk _ c _ _) => hitsAll p c xs
    | _ => false
  | .tuple xs | .tupleStruct _ xs =>
    match dt with
    | .struct fs => fs.toList.any fun f =>
        hitsNth p f.dataType ((indexOfName (fs.toList.map Field.name) f.name).getD 0) xs
    | _ => false
  | .record _ fields =>
    match dt with
    | .struct fs => fs.toList.any fun f =>
        hitsByName p f.name f.dataType fields || (!SFields.hasKey fields f.name && p f.dataType .none)
    | _ => false
  | .map es =>
    match dt with
    | .struct fs => fs.toList.any fun f =>
        hitsByKey p f.name f.dataType es || (!SEntries.hasKey es f.name && p f.dataType .none)
    | .map (.mk _ (.struct (.cons (.mk _ kdt _ _) (.cons (.mk _ vdt _ _) _))) _ _) _ => hitsEntries p kdt vdt es
    | _ => false
  | .mapRaw _ => false
  | .unitVariant n i vn =>
    match dt with
    | .union fs _ =>
      match fs.toList[i]? with
      | some (_, .mk _ cdt _ _) => p cdt .unit
      | none => false
    | _ => p dt (.unitVariant n i vn)
  | .newtypeVariant n i vn v =>
    match dt with
    | .union fs _ =>
      match fs.toList[i]? with
      | some (_, .mk _ cdt _ _) => hits p cdt v
      | none => false
    | _ => p dt (.newtypeVariant n i vn v)
  | .tupleVariant _ i _ xs =>
    match dt with
    | .union fs _ =>
      match fs.toList[i]? with
      | some (_, .mk _ (.struct cfs) _ _) => cfs.toList.any fun f =>
          hitsNth p f.dataType ((indexOfName (cfs.toList.map Field.name) f.name).getD 0) xs
      | _ => false
    | _ => false
  | .structVariant _ i _ fields =>
    match dt with
    | .union fs _ =>
      match fs.toList[i]? with
      | some (_, .mk _ (.struct cfs) _ _) => cfs.toList.any fun f =>
          hitsByName p f.name f.dataType fields || (!SFields.hasKey fields f.name && p f.dataType .none)
      | _ => false
    | _ => false
  | .none => p dt .none
  | .unit => p dt .unit
  | .bool b => p dt (.bool b)
  | .int t v => p dt (.int t v)
  | .f32 b => p dt (.f32 b)
  | .f64 b => p dt (.f64 b)
  | .char c => p dt (.char c)
  | .str s => p dt (.str s)
  | .bytes b => p dt (.bytes b)
  | .unitStruct n => p dt (.unitStruct n)
def hitsAll (p : DataType → SVal → Bool) (dt : DataType) : SVals → Bool
  | .nil => false
  | .cons x r => hits p dt x || hitsAll p dt r
/-- the `k`-th element of a positional record (a position the tuple lacks is a null there) -/
def hitsNth (p : DataType → SVal → Bool) (dt : DataType) : Nat → SVals → Bool
  | _, .nil => p dt .none
  | 0, .cons x _ => hits p dt x
  | k + 1, .cons _ r => hitsNth p dt k r
def hitsByName (p : DataType → SVal → Bool) (name : String) (dt : DataType) : SFields → Bool
  | .nil => false
  | .cons key _ x r => (key == name && hits p dt x) || hitsByName p name dt r
def hitsByKey (p : DataType → SVal → Bool) (name : String) (dt : DataType) : SEntries → Bool
  | .nil => false
  | .cons k x r => (((keyStr k).toOption == some name) && hits p dt x) || hitsByKey p name dt r
def hitsEntries (p : DataType → SVal → Bool) (kdt vdt : DataType) : SEntries → Bool
  | .nil => false
  | .cons k x r => hits p kdt k || hits p vdt x || hitsEntries p kdt vdt r
end

/-- some position of the sample is one of the exclusions -/
def Excluded (ext : Ext) (f : Field) (x : SVal) : Bool := hits (exclAny ext) f.dataType x

/-! ### well-formed samples -/

def SFields.dupKeys : SFields → Bool
  | .nil => false
  | .cons k _ _ r => SFields.hasKey r k || SFields.dupKeys r

/-- every key is a plain string and no string occurs twice -/
def SEntries.dupKeys : SEntries → Bool
  | .nil => false
  | .cons k _ r => (match (keyStr k).toOption with | some s => SEntries.hasKey r s | none => false) || SEntries.dupKeys r

mutual
/-- the sample is a serde value a Rust program can produce: integers within their width, chars are Unicode scalar values,
no raw key/value call streams, no duplicate field names in one record (and no duplicate keys in a map presented to a
struct: `asStruct` = `map_as_struct`) -/
def sampleOK (asStruct : Bool) : SVal → Bool
  | .int t v => t.inRange v
  | .char c => decide (c < 1114112)
  | .some v => sampleOK asStruct v
  | .newtypeStruct _ v => sampleOK asStruct v
  | .newtypeVariant _ _ _ v => sampleOK asStruct v
  | .seq xs => samplesOK asStruct xs
  | .tuple xs => samplesOK asStruct xs
  | .tupleStruct _ xs => samplesOK asStruct xs
  | .tupleVariant _ _ _ xs => samplesOK asStruct xs
  | .record _ fs => sfieldsOK asStruct fs && !SFields.dupKeys fs
  | .structVariant _ _ _ fs => sfieldsOK asStruct fs && !SFields.dupKeys fs
  | .map es => sentriesOK asStruct es && (!asStruct || !SEntries.dupKeys es)
  | .mapRaw _ => false
  | _ => true
def samplesOK (asStruct : Bool) : SVals → Bool
  | .nil => true
  | .cons x r => sampleOK asStruct x && samplesOK asStruct r
def sfieldsOK (asStruct : Bool) : SFields → Bool
  | .nil => true
  | .cons _ _ x r => sampleOK asStruct x && sfieldsOK asStruct r
def sentriesOK (asStruct : Bool) : SEntries → Bool
  | .nil => true
  | .cons k x r => sampleOK asStruct k && sampleOK asStruct x && sentriesOK asStruct r
end

end SaModel.Lemmas.C06
