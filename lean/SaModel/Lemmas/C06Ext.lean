import SaModel.Lemmas.C06Pass
/-
C06 helpers, part 9: the shape of everything reachable from a tracer node (`ExtShape`): a container stays the same kind
of container with the same name and path and its children move along `Steps`; a non-null primitive stays a primitive
whose state is reached by a run of leaf types; struct fields keep their index, fields added after the first sample are
nullable, map mode is sticky; tuple positions added by the repaired `ensure_tuple` are nullable; union variants keep
index and name.  `steps_extShape : WF o t → Steps c o t t2 → ExtShape c o t t2`.
-/
set_option linter.unusedVariables false
namespace SaModel.Lemmas.C06
open SaModel SaModel.Trace SaModel.Lemmas.C07 SaModel.Props.C07

/-! ### leaf level -/

def LeafReach (o : Options) (s s2 : LeafSt) : Prop := ∃ ys, (∀ a ∈ ys, a ∈ leafTypes o) ∧ run o s ys = .ok s2

theorem LeafReach.refl (o : Options) (s : LeafSt) : LeafReach o s s := ⟨[], by simp, rfl⟩

theorem LeafReach.trans {o : Options} {s1 s2 s3 : LeafSt} (h1 : LeafReach o s1 s2) (h2 : LeafReach o s2 s3) :
    LeafReach o s1 s3 := by
  obtain ⟨ys, hy, h1⟩ := h1
  obtain ⟨zs, hz, h2⟩ := h2
  refine ⟨ys ++ zs, ?_, by rw [run_append, h1]; exact h2⟩
  intro a ha
  rcases List.mem_append.mp ha with h | h
  · exact hy a h
  · exact hz a h

theorem LeafReach.step {o : Options} {s s' : LeafSt} {a : DataType} (ha : a ∈ leafTypes o) (h : act o s a = .ok s') :
    LeafReach o s s' := ⟨[a], by simpa using ha, by simp [run, h]⟩

/-- the type of a state becomes (or stays) `Null` only by absorbing `Null` into `Unknown` / `Null` -/
def nonNullRow (o : Options) (s : LeafSt) (a : DataType) : Bool :=
  match act o s a with
  | .ok (some ty2, _) => !isNull ty2 || (isNull a && (match s.1 with | none => true | some ty => isNull ty))
  | .ok (none, _) => false
  | .error _ => true

def nonNullTable (o : Options) : Bool := (leafStates o).all fun s => (leafTypes o).all fun a => nonNullRow o s a

set_option maxRecDepth 100000 in
theorem nonNullTable_all : coerceOptions.all nonNullTable = true := by decide +kernel

theorem isNull_iff (d : DataType) : isNull d = true ↔ d = .null := by cases d <;> simp [isNull]

theorem act_nonnull (o : Options) {s s' : LeafSt} {a : DataType} (hs : s ∈ leafStates o) (ha : a ∈ leafTypes o)
    (h : act o s a = .ok s') : ∃ ty2, s'.1 = some ty2 ∧ ((a ≠ .null ∨ ∃ ty, s.1 = some ty ∧ ty ≠ .null) → ty2 ≠ .null) := by
  have ht := table_at nonNullTable_all o
  unfold nonNullTable at ht
  rw [leafStates_coerceView] at hs; rw [leafTypes_coerceView] at ha
  have hr := List.all_eq_true.mp (List.all_eq_true.mp ht s hs) a ha
  unfold nonNullRow at hr
  rw [← act_coerceView, h] at hr
  obtain ⟨t2, nl2⟩ := s'
  cases t2 with
  | none => simp at hr
  | some ty2 =>
    refine ⟨ty2, rfl, ?_⟩
    intro hc e
    subst e
    simp only [isNull, Bool.not_true, Bool.false_or, Bool.and_eq_true] at hr
    rcases hc with hc | ⟨ty, h1, h2⟩
    · exact hc ((isNull_iff a).mp hr.1)
    · rw [h1] at hr
      exact h2 ((isNull_iff ty).mp hr.2)

theorem act_null_of_nonnull (o : Options) {ty : DataType} (nl : Bool) (h : ty ≠ .null) :
    act o (some ty, nl) .null = .ok (some ty, true) := by
  simp only [act, coerce_primitive_type]
  rw [if_neg (by intro h'; exact h h'.1), if_neg h]; simp

/-! ### the shape relation -/

def SExt (c : Code) (o : Options) (fs : TFields) (m : StructMode) (s : Nat) (fs2 : TFields) (m2 : StructMode)
    (s2 : Nat) : Prop :=
  FsExt c o fs fs2 ∧ s ≤ s2 ∧ (m = .map → m2 = .map) ∧ (s ≠ 0 → NewNullable fs fs2)

def TExt (c : Code) (o : Options) (ts ts2 : Tracers) : Prop :=
  TsExt c o ts ts2 ∧
  (c.tuple_arity_nullable = true → ∀ i t2, ts2.get? i = some t2 → ts.get? i = none → t2.nullable = true)

def VExt (c : Code) (o : Options) (vs vs2 : Variants) : Prop :=
  ∀ i n t, vs.get? i = some (some (n, t)) → ∃ t2, vs2.get? i = some (some (n, t2)) ∧ Steps c o t t2

def ExtShape (c : Code) (o : Options) : Tracer → Tracer → Prop
  | .unknown _ _ _, _ => True
  | .primitive n p nl ty st, t2 =>
    ty ≠ .null → ∃ nl2 ty2, t2 = .primitive n p nl2 ty2 st ∧ ty2 ≠ .null ∧ LeafReach o (some ty, nl) (some ty2, nl2)
  | .list n p _ i, t2 => ∃ nl2 i2, t2 = .list n p nl2 i2 ∧ Steps c o i i2
  | .map n p _ k v, t2 => ∃ nl2 k2 v2, t2 = .map n p nl2 k2 v2 ∧ Steps c o k k2 ∧ Steps c o v v2
  | .struct n p _ fs m s, t2 => ∃ nl2 fs2 m2 s2, t2 = .struct n p nl2 fs2 m2 s2 ∧ SExt c o fs m s fs2 m2 s2
  | .tuple n p _ ts, t2 => ∃ nl2 ts2, t2 = .tuple n p nl2 ts2 ∧ TExt c o ts ts2
  | .union n p _ vs, t2 => ∃ nl2 vs2, t2 = .union n p nl2 vs2 ∧ VExt c o vs vs2

theorem SExt.refl (c : Code) (o : Options) (fs : TFields) (m : StructMode) (s : Nat) : SExt c o fs m s fs m s :=
  ⟨FsExt.refl c o fs, Nat.le_refl s, id, fun _ => NewNullable.of_length rfl⟩

theorem SExt.trans {c : Code} {o : Options} {f1 f2 f3 : TFields} {m1 m2 m3 : StructMode} {s1 s2 s3 : Nat}
    (h1 : SExt c o f1 m1 s1 f2 m2 s2) (h2 : SExt c o f2 m2 s2 f3 m3 s3) : SExt c o f1 m1 s1 f3 m3 s3 :=
  ⟨h1.1.trans h2.1, Nat.le_trans h1.2.1 h2.2.1, fun h => h2.2.2.1 (h1.2.2.1 h),
    fun hs => (h1.2.2.2 hs).trans h2.1 (h2.2.2.2 (by have := h1.2.1; omega))⟩

theorem TExt.refl (c : Code) (o : Options) (ts : Tracers) : TExt c o ts ts :=
  ⟨TsExt.refl c o ts, fun _ i t2 h hn => by rw [h] at hn; cases hn⟩

theorem TExt.trans {c : Code} {o : Options} {f1 f2 f3 : Tracers} (h1 : TExt c o f1 f2) (h2 : TExt c o f2 f3) :
    TExt c o f1 f3 := by
  refine ⟨h1.1.trans h2.1, fun hc i t3 hg3 hn1 => ?_⟩
  cases hg2 : f2.get? i with
  | none => exact h2.2 hc i t3 hg3 hg2
  | some t2 =>
    obtain ⟨t3', hg3', hs⟩ := h2.1 i t2 hg2
    rw [hg3] at hg3'; cases hg3'
    exact hs.keeps.1 (h1.2 hc i t2 hg2 hn1)

theorem VExt.refl (c : Code) (o : Options) (vs : Variants) : VExt c o vs vs :=
  fun _ _ t h => ⟨t, h, Steps.refl c o t⟩

theorem VExt.trans {c : Code} {o : Options} {f1 f2 f3 : Variants} (h1 : VExt c o f1 f2) (h2 : VExt c o f2 f3) :
    VExt c o f1 f3 := by
  intro i n t h
  obtain ⟨t2, hg2, hs2⟩ := h1 i n t h
  obtain ⟨t3, hg3, hs3⟩ := h2 i n t2 hg2
  exact ⟨t3, hg3, hs2.trans hs3⟩

theorem ExtShape.refl (c : Code) (o : Options) : ∀ t, ExtShape c o t t
  | .unknown _ _ _ => trivial
  | .primitive n p nl ty st => fun h => ⟨nl, ty, rfl, h, LeafReach.refl o _⟩
  | .list n p nl i => ⟨nl, i, rfl, Steps.refl c o i⟩
  | .map n p nl k v => ⟨nl, k, v, rfl, Steps.refl c o k, Steps.refl c o v⟩
  | .struct n p nl fs m s => ⟨nl, fs, m, s, rfl, SExt.refl c o fs m s⟩
  | .tuple n p nl ts => ⟨nl, ts, rfl, TExt.refl c o ts⟩
  | .union n p nl vs => ⟨nl, vs, rfl, VExt.refl c o vs⟩

theorem ExtShape.trans {c : Code} {o : Options} : ∀ {t1 t2 t3 : Tracer}, ExtShape c o t1 t2 → ExtShape c o t2 t3 →
    ExtShape c o t1 t3
  | .unknown _ _ _, _, _, _, _ => trivial
  | .primitive n p nl ty st, t2, t3, h1, h2 => by
    intro hty
    obtain ⟨nl2, ty2, rfl, hty2, hr⟩ := h1 hty
    obtain ⟨nl3, ty3, rfl, hty3, hr'⟩ := h2 hty2
    exact ⟨nl3, ty3, rfl, hty3, hr.trans hr'⟩
  | .list n p nl i, t2, t3, h1, h2 => by
    obtain ⟨nl2, i2, rfl, hs⟩ := h1
    obtain ⟨nl3, i3, rfl, hs'⟩ := h2
    exact ⟨nl3, i3, rfl, hs.trans hs'⟩
  | .map n p nl k v, t2, t3, h1, h2 => by
    obtain ⟨nl2, k2, v2, rfl, hk, hv⟩ := h1
    obtain ⟨nl3, k3, v3, rfl, hk', hv'⟩ := h2
    exact ⟨nl3, k3, v3, rfl, hk.trans hk', hv.trans hv'⟩
  | .struct n p nl fs m s, t2, t3, h1, h2 => by
    obtain ⟨nl2, fs2, m2, s2, rfl, hs⟩ := h1
    obtain ⟨nl3, fs3, m3, s3, rfl, hs'⟩ := h2
    exact ⟨nl3, fs3, m3, s3, rfl, hs.trans hs'⟩
  | .tuple n p nl ts, t2, t3, h1, h2 => by
    obtain ⟨nl2, ts2, rfl, hs⟩ := h1
    obtain ⟨nl3, ts3, rfl, hs'⟩ := h2
    exact ⟨nl3, ts3, rfl, hs.trans hs'⟩
  | .union n p nl vs, t2, t3, h1, h2 => by
    obtain ⟨nl2, vs2, rfl, hs⟩ := h1
    obtain ⟨nl3, vs3, rfl, hs'⟩ := h2
    exact ⟨nl3, vs3, rfl, hs.trans hs'⟩

theorem ExtShape.mark (c : Code) (o : Options) : ∀ t, ExtShape c o t t.mark_nullable
  | .unknown _ _ _ => trivial
  | .primitive n p nl ty st => fun h =>
    ⟨true, ty, rfl, h, LeafReach.step (a := .null) (by simp [leafTypes]) (act_null_of_nonnull o nl h)⟩
  | .list n p nl i => ⟨true, i, rfl, Steps.refl c o i⟩
  | .map n p nl k v => ⟨true, k, v, rfl, Steps.refl c o k, Steps.refl c o v⟩
  | .struct n p nl fs m s => ⟨true, fs, m, s, rfl, SExt.refl c o fs m s⟩
  | .tuple n p nl ts => ⟨true, ts, rfl, TExt.refl c o ts⟩
  | .union n p nl vs => ⟨true, vs, rfl, VExt.refl c o vs⟩

theorem ExtShape.of_unknown_or_null (c : Code) (o : Options) {t : Tracer} (t2 : Tracer)
    (h : t.is_unknown_or_null = true) : ExtShape c o t t2 := by
  cases t with
  | unknown _ _ _ => trivial
  | primitive n p nl ty st =>
    intro hty
    cases ty <;> simp [Tracer.is_unknown_or_null] at h hty
  | _ => simp [Tracer.is_unknown_or_null] at h

end SaModel.Lemmas.C06
