import SaModel.Lemmas.C06Ext
/-
C06 helpers, part 10: one `absorb` step respects `ExtShape`, hence so does every `Steps` chain (`steps_extShape`).
-/
namespace SaModel.Lemmas.C06
open SaModel SaModel.Trace SaModel.Lemmas.C07 SaModel.Props.C07

theorem ensure_list_shape {t t1 : Tracer} (h : t.ensure_list = .ok t1) :
    t.is_unknown_or_null = true ∨ ∃ n p nl i, t = .list n p nl i := by
  by_cases hu : t.is_unknown_or_null = true
  · exact .inl hu
  · right
    unfold Tracer.ensure_list at h
    obtain ⟨_, h⟩ := enforce_ok_or h
    rw [if_neg hu] at h
    cases t with
    | list n p nl i => exact ⟨_, _, _, _, rfl⟩
    | _ => simp only [fail] at h; cases h

theorem ensure_map_shape {t t1 : Tracer} (h : t.ensure_map = .ok t1) :
    t.is_unknown_or_null = true ∨ ∃ n p nl k v, t = .map n p nl k v := by
  by_cases hu : t.is_unknown_or_null = true
  · exact .inl hu
  · right
    unfold Tracer.ensure_map at h
    obtain ⟨_, h⟩ := enforce_ok_or h
    rw [if_neg hu] at h
    cases t with
    | map n p nl k v => exact ⟨_, _, _, _, _, rfl⟩
    | _ => simp only [fail] at h; cases h

theorem ensure_struct_shape {c : Code} {t t1 : Tracer} {fields : List String} {mode : StructMode}
    (h : t.ensure_struct c fields mode = .ok t1) :
    t.is_unknown_or_null = true ∨ ∃ n p nl fs m s, t = .struct n p nl fs m s := by
  by_cases hu : t.is_unknown_or_null = true
  · exact .inl hu
  · right
    unfold Tracer.ensure_struct at h
    obtain ⟨_, h⟩ := enforce_ok_or h
    rw [if_neg hu] at h
    cases t with
    | struct n p nl fs m s => exact ⟨_, _, _, _, _, _, rfl⟩
    | _ => simp only [fail] at h; cases h

theorem ensure_tuple_shape {c : Code} {t t1 : Tracer} {k : Nat} (h : t.ensure_tuple c k = .ok t1) :
    t.is_unknown_or_null = true ∨ ∃ n p nl ts, t = .tuple n p nl ts := by
  by_cases hu : t.is_unknown_or_null = true
  · exact .inl hu
  · right
    unfold Tracer.ensure_tuple at h
    obtain ⟨_, h⟩ := enforce_ok_or h
    rw [if_neg hu] at h
    cases t with
    | tuple n p nl ts => exact ⟨_, _, _, _, rfl⟩
    | _ => simp only [fail] at h; cases h

theorem ensure_union_shape {t t1 : Tracer} {vs : List String} (h : t.ensure_union vs = .ok t1) :
    t.is_unknown_or_null = true ∨ ∃ n p nl vs, t = .union n p nl vs := by
  by_cases hu : t.is_unknown_or_null = true
  · exact .inl hu
  · right
    unfold Tracer.ensure_union at h
    obtain ⟨_, h⟩ := enforce_ok_or h
    rw [if_neg hu] at h
    cases t with
    | union n p nl vs => exact ⟨_, _, _, _, rfl⟩
    | _ => simp only [fail] at h; cases h

theorem ensure_primitive_container {o : Options} {t t2 : Tracer} {ty : DataType}
    (hc : isUnknown t = false ∧ (∀ n p nl pty st, t ≠ .primitive n p nl pty st))
    (h : t.ensure_primitive o ty = .ok t2) : t2 = t.mark_nullable ∧ ty = .null := by
  cases t with
  | unknown n p nl => simp [isUnknown] at hc
  | primitive n p nl pty st => exact absurd rfl (hc.2 n p nl pty st)
  | _ =>
    simp only [Tracer.ensure_primitive, Tracer.ensure_primitive_with_strategy] at h
    split at h
    · rename_i hn; cases h; exact ⟨rfl, (isNull_iff ty).mp hn⟩
    · cases h

/-- the repaired `ensure_tuple` on an existing tuple: old positions move along `Steps`, the vector is at least as long
as the new arity and every position beyond the old vector is nullable -/
theorem tupleGrow_ext (c : Code) (o : Options) (p : String) (k : Nat) (ts0 : Tracers) :
    TsExt c o ts0 (tupleGrowNullable p k (ts0.markFrom k)) ∧ k ≤ (tupleGrowNullable p k (ts0.markFrom k)).length ∧
    (∀ i t, (tupleGrowNullable p k (ts0.markFrom k)).get? i = some t → ts0.get? i = none → t.nullable = true) := by
  rw [tupleGrowNullable_eq]
  refine ⟨(markFrom_ext c o ts0 k).trans (growN_ext c o _ _ _), ?_, ?_⟩
  · rw [growN_length, Tracers.length_markFrom]; omega
  · intro i t hg hn
    rw [Tracers.get?_none_iff] at hn
    exact growN_get?_new _ (fun x => x.nullable = true) (fun acc => mark_nullable_nullable _) _ _ i t
      (by rw [Tracers.length_markFrom]; exact hn) hg

theorem absorb_extShape (c : Code) (o : Options) : ∀ y t t1, absorb c o t y = .ok t1 → WF o t → ExtShape c o t t1 := by
  apply absorb_rel c o (fun t t1 => WF o t → ExtShape c o t t1)
  · exact fun t _ => ExtShape.mark c o t
  · intro t t2 h hw; exact (ExtShape.mark c o t).trans (h (WF_mark_nullable o hw))
  · intro t ty t2 hty h hw
    cases t with
    | unknown n p nl => trivial
    | primitive n p nl pty st =>
      intro hpty
      simp only [WF] at hw
      obtain ⟨rfl, hs⟩ := hw
      have e := ensure_primitive_embed o n p (some pty, nl) ty
      simp only [LeafSt.embed] at e
      rw [e] at h
      cases ha : act o (some pty, nl) ty with
      | error e' => rw [ha] at h; cases h
      | ok s' =>
        rw [ha] at h; cases h
        obtain ⟨ty2, h1, h2⟩ := act_nonnull o hs hty ha
        obtain ⟨t2, nl2⟩ := s'
        simp only at h1; subst h1
        exact ⟨nl2, ty2, rfl, h2 (.inr ⟨pty, rfl, hpty⟩), LeafReach.step hty ha⟩
    | list n p nl i =>
      rw [(ensure_primitive_container ⟨rfl, fun _ _ _ _ _ h => by cases h⟩ h).1]; exact ExtShape.mark c o _
    | map n p nl k v =>
      rw [(ensure_primitive_container ⟨rfl, fun _ _ _ _ _ h => by cases h⟩ h).1]; exact ExtShape.mark c o _
    | struct n p nl fs m s =>
      rw [(ensure_primitive_container ⟨rfl, fun _ _ _ _ _ h => by cases h⟩ h).1]; exact ExtShape.mark c o _
    | tuple n p nl ts =>
      rw [(ensure_primitive_container ⟨rfl, fun _ _ _ _ _ h => by cases h⟩ h).1]; exact ExtShape.mark c o _
    | union n p nl vs =>
      rw [(ensure_primitive_container ⟨rfl, fun _ _ _ _ _ h => by cases h⟩ h).1]; exact ExtShape.mark c o _
  · intro t n p nl i i' h hs hw
    rcases ensure_list_shape h with hu | ⟨n0, p0, nl0, i0, rfl⟩
    · exact ExtShape.of_unknown_or_null c o _ hu
    · obtain ⟨_, i1, he, _, hi⟩ := ensure_list_ok o h
      cases he
      have := hi _ _ _ _ rfl; subst this
      exact ⟨nl0, i', rfl, hs⟩
  · intro t n p nl k v k' v' h hk hv hw
    rcases ensure_map_shape h with hu | ⟨n0, p0, nl0, k0, v0, rfl⟩
    · exact ExtShape.of_unknown_or_null c o _ hu
    · obtain ⟨_, k1, v1, he, _, hi⟩ := ensure_map_ok o h
      cases he
      obtain ⟨rfl, rfl⟩ := hi _ _ _ _ _ rfl
      exact ⟨nl0, k', v', rfl, hk, hv⟩
  · intro t n p nl ts ts' vs h hpass hw
    rcases ensure_tuple_shape h with hu | ⟨n0, p0, nl0, ts0, rfl⟩
    · exact ExtShape.of_unknown_or_null c o _ hu
    · obtain ⟨_, ts1, he, _, _, hi⟩ := ensure_tuple_ok o c h
      cases he
      have hts := hi _ _ _ _ rfl
      obtain ⟨hp1, hp2, _⟩ := absorbTupleL_ext c o _ vs _ 0 ts' hpass
      refine ⟨nl0, ts', rfl, ?_⟩
      by_cases hc : c.tuple_arity_nullable = true
      · rw [if_pos hc] at hts
        subst hts
        obtain ⟨g1, g2, g3⟩ := tupleGrow_ext c o p0 vs.length ts0
        refine ⟨g1.trans hp1, fun _ i t2 hg hn => ?_⟩
        have hlen := hp2 (by omega)
        have hlt := Tracers.get?_lt hg
        rw [hlen] at hlt
        obtain ⟨t1, ht1⟩ := Tracers.get?_of_lt hlt
        obtain ⟨t2', hg', hs⟩ := hp1 i t1 ht1
        rw [hg] at hg'; cases hg'
        exact hs.keeps.1 (g3 i t1 ht1 hn)
      · rw [if_neg hc] at hts
        subst hts
        exact ⟨hp1, fun h' => absurd h' hc⟩
  · intro t mode n p nl fs m s kvs fs' h hpass hw
    rcases ensure_struct_shape h with hu | ⟨n0, p0, nl0, fs0, m0, s0, rfl⟩
    · exact ExtShape.of_unknown_or_null c o _ hu
    · obtain ⟨_, fs1, m1, s1, he, _, hi⟩ := ensure_struct_ok o c h
      cases he
      obtain ⟨rfl, rfl, hm⟩ := hi _ _ _ _ _ _ rfl
      obtain ⟨hp1, hp2⟩ := absorbKVs_ext c o _ _ kvs _ fs' hpass
      obtain ⟨he1, he2⟩ := end_ext c o s fs'
      refine ⟨nl0, _, _, _, rfl, hp1.trans he1, Nat.le_succ _, ?_, fun hs => (hp2 hs).trans he1 he2⟩
      intro hm0
      rw [hm, hm0]; simp
  · intro t n p nl vs0 vs vn idx nm' vt vt' h hv hg hs hw
    rcases ensure_union_shape h with hu | ⟨n0, p0, nl0, vs00, rfl⟩
    · exact ExtShape.of_unknown_or_null c o _ hu
    · obtain ⟨_, vs1, he, _, hi⟩ := ensure_union_ok o h
      cases he
      have := hi _ _ _ _ rfl; subst this
      obtain ⟨_, ⟨vt0, hvt0⟩, hold, _, _⟩ := ensure_variant_ok hv
      rw [hg] at hvt0
      simp only [Option.some.injEq, Prod.mk.injEq] at hvt0
      obtain ⟨rfl, rfl⟩ := hvt0
      refine ⟨nl0, _, rfl, ?_⟩
      intro j n' t' hj
      have hj' := hold j _ hj
      by_cases e : idx = j
      · subst e
        rw [hg] at hj'
        simp only [Option.some.injEq, Prod.mk.injEq] at hj'
        obtain ⟨rfl, rfl⟩ := hj'
        exact ⟨vt', Variants.get?_set_eq _ _ _ _ (Variants.get?_lt hg), hs⟩
      · exact ⟨t', by rw [Variants.get?_set_ne _ _ _ _ _ e]; exact hj', Steps.refl c o t'⟩

/-- everything reachable from a well-formed node has the shape of an extension of it -/
theorem steps_extShape {c : Code} {o : Options} {t t2 : Tracer} (hw : WF o t) (h : Steps c o t t2) :
    ExtShape c o t t2 :=
  Steps.lift (ExtShape c o) (ExtShape.refl c o)
    (fun t y t1 _ hw ha h => (absorb_extShape c o y t t1 ha hw).trans h) hw h

end SaModel.Lemmas.C06
