import SaModel.Lemmas.C06Excl
import SaModel.Lemmas.C06Stable
/-
C06, closure: what `Tracer::to_field` returns, node kind by node kind, under options without overwrites (an overwrite
replaces the traced field by an arbitrary one: outside the quantifier of C06), and the facts the mapping needs from it:
the field is named after the tracer, is never an `UnknownVariant` placeholder, and a nullable tracer gives a field that
takes a null unless it is a Union.
-/
namespace SaModel.Lemmas.C06
open SaModel SaModel.Spec SaModel.Build SaModel.Trace

theorem wo_nil {o : Options} (h0 : o.overwrites = []) (n p : String) (k : Unit → R Field) :
    withOverwrite o n p k = k () := by
  simp [withOverwrite, Options.get_overwrite, h0]

theorem bind_ok' {α β} {x : R α} {f : α → R β} {b : β} : (x >>= f) = .ok b ↔ ∃ a, x = .ok a ∧ f a = .ok b := by
  cases x with
  | error e => simp [bind, Except.bind]
  | ok a => simp [bind, Except.bind]

theorem to_field_unknown_inv {o : Options} (h0 : o.overwrites = []) {n p : String} {nl : Bool} {f : Field}
    (h : (Tracer.unknown n p nl).to_field o = .ok f) : f = .mk n .null true [] := by
  rw [Tracer.to_field, wo_nil h0] at h
  split at h <;> cases h
  rfl

theorem to_field_list_inv {o : Options} (h0 : o.overwrites = []) {n p : String} {nl : Bool} {i : Tracer} {f : Field}
    (h : (Tracer.list n p nl i).to_field o = .ok f) :
    ∃ item, i.to_field o = .ok item ∧
      f = .mk n (if o.sequence_as_large_list then .largeList item else .list item) nl [] := by
  rw [Tracer.to_field, wo_nil h0] at h
  obtain ⟨item, h1, h2⟩ := bind_ok'.mp h
  cases h2
  exact ⟨item, h1, rfl⟩

theorem to_field_map_inv {o : Options} (h0 : o.overwrites = []) {n p : String} {nl : Bool} {k v : Tracer} {f : Field}
    (h : (Tracer.map n p nl k v).to_field o = .ok f) :
    ∃ kf vf, k.to_field o = .ok kf ∧ v.to_field o = .ok vf ∧
      f = .mk n (.map (Field.mk "entries" (.struct (Fields.ofList [kf, vf])) false []) false) nl [] := by
  rw [Tracer.to_field, wo_nil h0] at h
  obtain ⟨kf, h1, h2⟩ := bind_ok'.mp h
  obtain ⟨vf, h3, h4⟩ := bind_ok'.mp h2
  cases h4
  exact ⟨kf, vf, h1, h3, rfl⟩

theorem to_field_struct_inv {o : Options} (h0 : o.overwrites = []) {n p : String} {nl : Bool} {fs : TFields}
    {m : StructMode} {s : Nat} {f : Field} (h : (Tracer.struct n p nl fs m s).to_field o = .ok f) :
    ∃ fields, fs.to_fields o = .ok fields ∧
      ((m = .map ∧ f = .mk n (.struct (Fields.ofList (sortByName fields))) nl (strategyMeta .mapAsStruct)) ∨
       (m = .struct ∧ f = .mk n (.struct (Fields.ofList fields)) nl [])) := by
  rw [Tracer.to_field, wo_nil h0] at h
  obtain ⟨fields, h1, h2⟩ := bind_ok'.mp h
  cases m with
  | map => cases h2; exact ⟨fields, h1, .inl ⟨rfl, rfl⟩⟩
  | struct => cases h2; exact ⟨fields, h1, .inr ⟨rfl, rfl⟩⟩

theorem to_field_tuple_inv {o : Options} (h0 : o.overwrites = []) {n p : String} {nl : Bool} {ts : Tracers} {f : Field}
    (h : (Tracer.tuple n p nl ts).to_field o = .ok f) :
    ∃ fields, ts.to_fields o = .ok fields ∧
      f = .mk n (.struct (Fields.ofList fields)) nl (strategyMeta .tupleAsStruct) := by
  rw [Tracer.to_field, wo_nil h0] at h
  obtain ⟨fields, h1, h2⟩ := bind_ok'.mp h
  cases h2
  exact ⟨fields, h1, rfl⟩

theorem to_field_union_inv {o : Options} (h0 : o.overwrites = []) {n p : String} {nl : Bool} {vs : Variants} {f : Field}
    (h : (Tracer.union n p nl vs).to_field o = .ok f) :
    (vs.is_without_data = true ∧ o.enums_without_data_as_strings = true ∧
      f = default_dictionary_field n nl o.string_type) ∨
    (∃ fields, vs.to_fields o 0 = .ok fields ∧ f = .mk n (.union (UFields.ofList fields) .dense) nl [] ∧
      (vs.is_without_data && o.enums_without_data_as_strings) = false) := by
  rw [Tracer.to_field, wo_nil h0] at h
  by_cases h1 : (vs.is_without_data && o.enums_without_data_as_strings) = true
  · rw [if_pos h1] at h; cases h
    simp only [Bool.and_eq_true] at h1
    exact .inl ⟨h1.1, h1.2, rfl⟩
  · rw [if_neg h1] at h
    split at h
    · cases h
    · obtain ⟨fields, h2, h3⟩ := bind_ok'.mp h
      cases h3
      exact .inr ⟨fields, h2, rfl, by simpa using h1⟩

theorem isUV_of_ne_null {dt : DataType} {md : Metadata} (h : dt ≠ .null) : isUnknownVariant dt md = false := by
  cases dt <;> first | rfl | exact absurd rfl h

theorem isNull_false_ne {ty : DataType} (h : isNull ty = false) : ty ≠ .null := by
  intro e; subst e; simp [isNull] at h

def stMeta : Option Strategy → Metadata
  | some s => strategyMeta s
  | none => []

theorem to_field_primitive_inv {o : Options} (h0 : o.overwrites = []) {n p : String} {nl : Bool} {ty : DataType}
    {st : Option Strategy} {f : Field} (h : (Tracer.primitive n p nl ty st).to_field o = .ok f) :
    (ty = .null ∧ f = .mk n .null true []) ∨
    (ty ≠ .null ∧ (isLargeUtf8 ty || isUtf8 ty) = true ∧
      ((o.string_dictionary_encoding = false ∧ f = .mk n ty nl []) ∨
       (o.string_dictionary_encoding = true ∧ f = default_dictionary_field n nl o.string_type))) ∨
    (ty ≠ .null ∧ (isLargeUtf8 ty || isUtf8 ty) = false ∧
      f = .mk n ty nl (stMeta st)) := by
  simp only [Tracer.to_field, wo_nil h0] at h
  split at h
  · cases h
  · by_cases hn : isNull ty = true
    · rw [if_pos hn] at h; cases h
      exact .inl ⟨(isNull_iff ty).mp hn, rfl⟩
    · rw [if_neg hn] at h
      have hne : ty ≠ .null := isNull_false_ne (by simpa using hn)
      by_cases hs : (isLargeUtf8 ty || isUtf8 ty) = true
      · rw [if_pos hs] at h
        by_cases hd : o.string_dictionary_encoding = true
        · simp only [hd, Bool.not_true] at h
          cases h
          exact .inr (.inl ⟨hne, hs, .inr ⟨hd, rfl⟩⟩)
        · have hd' : o.string_dictionary_encoding = false := by simpa using hd
          simp only [hd', Bool.not_false, if_true] at h
          cases h
          exact .inr (.inl ⟨hne, hs, .inl ⟨hd', rfl⟩⟩)
      · rw [if_neg hs] at h; cases h
        exact .inr (.inr ⟨hne, by simpa using hs, by cases st <;> rfl⟩)

/-- name, never a placeholder, and nullability of the traced field -/
theorem to_field_facts {o : Options} (h0 : o.overwrites = []) {t : Tracer} {f : Field} (h : t.to_field o = .ok f) :
    f.name = t.name ∧ isUnknownVariant f.dataType f.metadata = false ∧
    (t.nullable = true → f.nullable = true ∨ f.dataType = .null) := by
  cases t with
  | unknown n p nl =>
    rw [to_field_unknown_inv h0 h]
    exact ⟨rfl, rfl, fun _ => .inr rfl⟩
  | primitive n p nl ty st =>
    rcases to_field_primitive_inv h0 h with ⟨_, rfl⟩ | ⟨hne, hs, ⟨_, rfl⟩ | ⟨_, rfl⟩⟩ | ⟨hne, _, rfl⟩
    · exact ⟨rfl, rfl, fun _ => .inl rfl⟩
    · exact ⟨rfl, isUV_of_ne_null hne, fun hn => .inl hn⟩
    · exact ⟨rfl, rfl, fun hn => .inl hn⟩
    · exact ⟨rfl, isUV_of_ne_null hne, fun hn => .inl hn⟩
  | list n p nl i =>
    obtain ⟨item, _, rfl⟩ := to_field_list_inv h0 h
    refine ⟨rfl, ?_, fun hn => .inl hn⟩
    simp only [Field.dataType]; split <;> rfl
  | map n p nl k v =>
    obtain ⟨kf, vf, _, _, rfl⟩ := to_field_map_inv h0 h
    exact ⟨rfl, rfl, fun hn => .inl hn⟩
  | struct n p nl fs m s =>
    obtain ⟨fields, _, ⟨_, rfl⟩ | ⟨_, rfl⟩⟩ := to_field_struct_inv h0 h
    · exact ⟨rfl, rfl, fun hn => .inl hn⟩
    · exact ⟨rfl, rfl, fun hn => .inl hn⟩
  | tuple n p nl ts =>
    obtain ⟨fields, _, rfl⟩ := to_field_tuple_inv h0 h
    exact ⟨rfl, rfl, fun hn => .inl hn⟩
  | union n p nl vs =>
    rcases to_field_union_inv h0 h with ⟨_, _, rfl⟩ | ⟨fields, _, rfl, _⟩
    · exact ⟨rfl, rfl, fun hn => .inl hn⟩
    · exact ⟨rfl, rfl, fun hn => .inl hn⟩

/-- a null at the field of a nullable tracer: defined unless the field is a Union -/
theorem interpNull_of_nullable {o : Options} (h0 : o.overwrites = []) {t : Tracer} {f : Field}
    (h : t.to_field o = .ok f) (hn : t.nullable = true) (hu : isUnionDT f.dataType = false) :
    interpNull f.dataType f.nullable f.metadata = .ok .null := by
  obtain ⟨_, huv, hnl⟩ := to_field_facts h0 h
  unfold interpNull
  rw [huv]
  simp only [Bool.false_eq_true, if_false]
  rcases hnl hn with h1 | h1
  · rw [h1]
    cases hd : f.dataType <;> simp_all [isUnionDT]
  · rw [h1]

end SaModel.Lemmas.C06
