import SaModel.Lemmas.C06InterpLeaf
import SaModel.Lemmas.C06InterpSeq
import SaModel.Lemmas.C06InterpStruct
import SaModel.Lemmas.C06InterpTuple
import SaModel.Lemmas.C06InterpUnion
/-
C06, closure, tracer ⇒ documented mapping: `PI_all : ∀ x, PI o ext x` — induction over nested samples putting the
families together (leaves `C06InterpLeaf`, `None`/`Some`/newtype structs `C06InterpBase`, sequences and maps traced as
maps `C06InterpSeq`, records and maps traced as structs `C06InterpStruct`, tuples and tuple structs `C06InterpTuple`, the
four variant kinds `C06InterpUnion`).  ALL sample constructors are covered (raw key/value call streams are not
`sampleOK`).
-/
namespace SaModel.Lemmas.C06
open SaModel SaModel.Spec SaModel.Build SaModel.Trace

/-- absorbing ANY sample into a reachable tracer gives a tracer from which — whatever else is absorbed — the traced
field maps the sample (unless the sample is ill-formed or excluded at some position) -/
theorem PI_all (o : Options) (ext : Ext) (h0 : o.overwrites = []) : ∀ x : SVal, PI o ext x := by
  apply sval_induct o (PI o ext)
  · exact fun x a hx => PI_leaf o ext h0 x a hx
  · exact PI_none o ext h0
  · exact PI_some o ext
  · exact PI_newtypeStruct o ext
  · exact PI_seq o ext h0
  · exact PI_tuple o ext h0
  · exact fun n items ih => PI_tupleStruct o ext h0 n items ih
  · exact fun n fs ih => PI_record o ext h0 n fs ih
  · intro es ihk ihv
    by_cases hm : o.map_as_struct = true
    · exact PI_mapAsStruct o ext h0 hm es ihv
    · exact PI_mapAsMap o ext h0 (by simpa using hm) es ihk ihv
  · intro ops _ _ t t' _ _ t2 _ f _ hok
    simp [sampleOK] at hok
  · exact fun n i vn => PI_unitVariant o ext h0 n i vn
  · exact fun n i vn v ih => PI_newtypeVariant o ext h0 n i vn v ih
  · exact fun n i vn items ih => PI_tupleVariant o ext h0 n i vn items (PI_tuple o ext h0 items ih)
  · exact fun n i vn fs ih => PI_structVariant o ext h0 n i vn fs n (PI_record o ext h0 n fs ih)

end SaModel.Lemmas.C06
