import SaModel.Lemmas.C06Field
import SaModel.Lemmas.C07TLift
import SaModel.Lemmas.C06TupleNames
/-
C06, closure, tracer ⇒ documented mapping: the statement proved by induction over nested samples.

`PI o ext x`: absorb `x` into a reachable tracer `t` (invariant `Inv` = `C07.WF`: leaf states of the alphabet, struct
fields with distinct names named after their keys, counters below `seen_samples`; and `TN`: tuple positions named after
their index), let the tracer absorb ANY further samples
(`Steps`), turn the result into a field (`to_field`, no overwrites): then the documented mapping `Spec.interpDT` of `x`
at that field is defined, unless `x` is ill-formed as a serde value (`sampleOK`) or one of the exclusions holds at some
position (`hits (exclAny ext)`).  Repaired code (`Code.fixed`) only: the pinned code is defective (finding #25).
This file: the definition, `None` / `Some` / newtype structs, and the lifting to sample lists.
-/
namespace SaModel.Lemmas.C06
open SaModel SaModel.Spec SaModel.Build SaModel.Trace

/-- the stronger reachable-state invariant of C07 (names) implies the one of C06 -/
theorem wf7_wf (o : Options) : ∀ t : Tracer, C07.WF o t → WF o t
  | .unknown _ _ _, _ => trivial
  | .primitive _ _ _ _ _, h => by simpa [C07.WF, WF] using h
  | .list _ _ _ i, h => by simp only [C07.WF] at h; simp only [WF]; exact wf7_wf o i h
  | .map _ _ _ k v, h => by
    simp only [C07.WF] at h; simp only [WF]; exact ⟨wf7_wf o k h.1, wf7_wf o v h.2⟩
  | .struct _ _ _ fs _ s, h => by simp only [C07.WF] at h; simp only [WF]; exact wf7_wff o s fs h
  | .tuple _ _ _ ts, h => by simp only [C07.WF] at h; simp only [WF]; exact wf7_wft o ts h
  | .union _ _ _ vs, h => by simp only [C07.WF] at h; simp only [WF]; exact wf7_wfv o vs h
where
  wf7_wft (o : Options) : ∀ ts : Tracers, C07.TsWF o ts → WFT o ts
    | .nil, _ => trivial
    | .cons t r, h => by simp only [C07.TsWF] at h; simp only [WFT]; exact ⟨wf7_wf o t h.1, wf7_wft o r h.2⟩
  wf7_wff (o : Options) (s : Nat) : ∀ fs : TFields, C07.FWF o s fs → WFF o s fs
    | .nil, _ => trivial
    | .cons n l t r, h => by
      simp only [C07.FWF] at h; simp only [WFF]
      exact ⟨h.1, wf7_wf o t h.2.2.2.1, wf7_wff o s r h.2.2.2.2⟩
  wf7_wfv (o : Options) : ∀ vs : Variants, C07.VWF o vs → WFV o vs
    | .nil, _ => trivial
    | .absent r, h => by simp only [C07.VWF] at h; simp only [WFV]; exact wf7_wfv o r h
    | .present _ t r, h => by
      simp only [C07.VWF] at h; simp only [WFV]; exact ⟨wf7_wf o t h.1, wf7_wfv o r h.2⟩

theorem absorb_wf7 (o : Options) {x : SVal} {t t' : Tracer} (hw : C07.WF o t) (h : absorb .fixed o t x = .ok t') :
    C07.WF o t' := (C07.cong_any o x).wf hw h

theorem steps_wf7 {o : Options} {t t2 : Tracer} (hw : C07.WF o t) (h : Steps .fixed o t t2) : C07.WF o t2 := by
  obtain ⟨ys, h⟩ := h
  exact C07.absorbAll_wf o hw h

theorem wf7_new (o : Options) (n p : String) : C07.WF o (Tracer.new n p) := by simp [Tracer.new, C07.WF]

/-- the reachable-state invariant used below: `C07.WF` (leaf alphabet, struct field names distinct and equal to the
child tracer's name, counters) and `TN` (the tracer at tuple position `i` is named `toString i`) -/
def Inv (o : Options) (t : Tracer) : Prop := C07.WF o t ∧ TN t

theorem Inv.wf {o : Options} {t : Tracer} (h : Inv o t) : WF o t := wf7_wf o t h.1

theorem Inv_new (o : Options) (n p : String) : Inv o (Tracer.new n p) := ⟨wf7_new o n p, TN_new n p⟩

theorem absorb_inv (o : Options) {x : SVal} {t t' : Tracer} (hw : Inv o t) (h : absorb .fixed o t x = .ok t') :
    Inv o t' := ⟨absorb_wf7 o hw.1 h, absorb_tn' o x t t' hw.2 h⟩

theorem steps_inv {o : Options} {t t2 : Tracer} (hw : Inv o t) (h : Steps .fixed o t t2) : Inv o t2 := by
  obtain ⟨ys, h'⟩ := h
  exact ⟨steps_wf7 hw.1 ⟨ys, h'⟩, absorbAll_tn' o ys hw.2 h'⟩

theorem Inv_mark {o : Options} {t : Tracer} (h : Inv o t) : Inv o t.mark_nullable :=
  ⟨C07.WF_mark h.1, TN_mark_nullable h.2⟩

/-- the documented mapping of `x` at the field is defined -/
def IOk (ext : Ext) (f : Field) (x : SVal) : Prop :=
  ∃ lv, interpDT ext f.dataType f.nullable f.metadata x = .ok lv

/-- every tracer reachable from `t` yields a field at which the mapping of `x` is defined (or `x` is excluded) -/
def Maps (o : Options) (ext : Ext) (t : Tracer) (x : SVal) : Prop :=
  ∀ t2, Steps .fixed o t t2 → ∀ f, t2.to_field o = .ok f →
    sampleOK o.map_as_struct x = true → hits (exclAny ext) f.dataType x = false → IOk ext f x

/-- absorbing `x` into a reachable tracer gives a tracer from which the mapping of `x` stays defined -/
def PI (o : Options) (ext : Ext) (x : SVal) : Prop :=
  ∀ t t', Inv o t → absorb .fixed o t x = .ok t' → Maps o ext t' x

theorem Maps.steps {o : Options} {ext : Ext} {t t' : Tracer} {x : SVal} (h : Maps o ext t x)
    (hs : Steps .fixed o t t') : Maps o ext t' x :=
  fun t2 hs2 => h t2 (hs.trans hs2)

/-! ### `None`, `Some`, newtype structs -/

theorem PI_none (o : Options) (ext : Ext) (h0 : o.overwrites = []) : PI o ext .none := by
  intro t t' _ h t2 hs f hf _ hex
  rw [absorb_none] at h; cases h
  have hn : t2.nullable = true := hs.keeps.1 (mark_nullable_nullable t)
  have hu : isUnionDT f.dataType = false := by
    simpa [hits, exclAny, nullAtEnum, dateLookalike, u64AboveI64, dataLessNewtype] using hex
  exact ⟨.null, by rw [interpDT]; exact interpNull_of_nullable h0 hf hn hu⟩

theorem PI_some (o : Options) (ext : Ext) (v : SVal) (ih : PI o ext v) : PI o ext (.some v) := by
  intro t t' hw h t2 hs f hf hok hex
  rw [absorb_some] at h
  have := ih _ _ (Inv_mark hw) h t2 hs f hf (by simpa [sampleOK] using hok) (by simpa [hits] using hex)
  obtain ⟨lv, hlv⟩ := this
  exact ⟨lv, by rw [interpDT]; exact hlv⟩

theorem PI_newtypeStruct (o : Options) (ext : Ext) (n : String) (v : SVal) (ih : PI o ext v) :
    PI o ext (.newtypeStruct n v) := by
  intro t t' hw h t2 hs f hf hok hex
  rw [absorb_newtypeStruct] at h
  obtain ⟨lv, hlv⟩ := ih _ _ hw h t2 hs f hf (by simpa [sampleOK] using hok) (by simpa [hits] using hex)
  exact ⟨lv, by rw [interpDT]; exact hlv⟩

/-! ### sample lists absorbed one after the other into one tracer -/

theorem absorbAll_PI (o : Options) (ext : Ext) : ∀ vs : List SVal, (∀ v ∈ vs, PI o ext v) → ∀ t t', Inv o t →
    absorbAll .fixed o t vs = .ok t' → ∀ v ∈ vs, Maps o ext t' v
  | [], _, _, _, _, _ => by simp
  | y :: ys, hp, t, t', hw, h => by
    rw [absorbAll_cons] at h
    cases ha : absorb .fixed o t y with
    | error e => rw [ha] at h; cases h
    | ok t1 =>
      rw [ha] at h
      intro v hv
      rcases List.mem_cons.mp hv with rfl | hv
      · exact (hp v (by simp) t t1 hw ha).steps ⟨ys, h⟩
      · exact absorbAll_PI o ext ys (fun x hx => hp x (by simp [hx])) t1 t' (absorb_inv o hw ha) h v hv

end SaModel.Lemmas.C06
