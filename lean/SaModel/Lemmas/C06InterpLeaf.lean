import SaModel.Lemmas.C06InterpBase
/-
C06, closure, leaf positions: the coerced leaf type accepts every absorbed leaf kind.

`okPair ty a`: the explicit list of (traced type, type of the serde call) pairs at which the mapping is defined for every
well-formed value of that call kind (up to the exclusions): same type; UInt64 for unsigned calls; Int64 for every integer
call; Float64 for integer and float calls; a string type for the to-string sources and timestamps.  `accPairTable`
(kernel-evaluated over the complete leaf alphabet and the 8 coercion settings): a non-null state that has absorbed a
non-null call type (`act o s a = ok s`) is one of these pairs.  `leaf_interp`: at such a pair `interpScalar` is defined
for every sample of that kind which is `sampleOK` and not excluded.  `PI_leaf` puts both together.
-/
namespace SaModel.Lemmas.C06
open SaModel SaModel.Spec SaModel.Build SaModel.Trace SaModel.Props.C07

def isUInt64DT : DataType → Bool
  | .uint64 => true
  | _ => false

def isFloat64DT : DataType → Bool
  | .float64 => true
  | _ => false

/-- (traced type, call type) pairs at which the mapping of every sample of that call kind is defined -/
def okPair (ty a : DataType) : Bool :=
  decide (ty = a) || (isUInt64DT ty && isUnsigned a) || (isInt64DT ty && isInt a) ||
  (isFloat64DT ty && (isInt a || isFloat3264 a)) ||
  ((isUtf8 ty || isLargeUtf8 ty) && (isToStringSource a || isTimestamp a))

def accPairRow (o : Options) (s : LeafSt) (a : DataType) : Bool :=
  match s.1 with
  | none => true
  | some ty => isNull ty || isNull a || !decide (act o s a = .ok s) || okPair ty a

def accPairTable (o : Options) : Bool := (leafStates o).all fun s => (leafTypes o).all fun a => accPairRow o s a

set_option maxRecDepth 100000 in
theorem accPairTable_all : coerceOptions.all accPairTable = true := by decide +kernel

theorem acc_okPair (o : Options) {ty a : DataType} {nl : Bool} (hs : (some ty, nl) ∈ leafStates o)
    (ha : a ∈ leafTypes o) (hty : ty ≠ .null) (hna : a ≠ .null) (h : act o (some ty, nl) a = .ok (some ty, nl)) :
    okPair ty a = true := by
  have ht := table_at accPairTable_all o
  unfold accPairTable at ht
  rw [leafStates_coerceView] at hs; rw [leafTypes_coerceView] at ha
  have hr := List.all_eq_true.mp (List.all_eq_true.mp ht _ hs) a ha
  unfold accPairRow at hr
  rw [← act_coerceView] at hr
  simp only [h, decide_true, Bool.not_true, Bool.or_false, Bool.or_eq_true] at hr
  rcases hr with (hr | hr) | hr
  · exact absurd ((isNull_iff ty).mp hr) hty
  · exact absurd ((isNull_iff a).mp hr) hna
  · exact hr

/-! ### `interpScalar` at the pairs -/

theorem inRange_iff (t : IntTy) (v : Int) : t.inRange v = true ↔ t.min ≤ v ∧ v ≤ t.max := by
  unfold IntTy.inRange; simp only [Bool.and_eq_true, decide_eq_true_iff]

theorem inRange_char (T : IntTy) (c : Nat) (hc : c < 1114112) (hT : 1114111 ≤ T.max) : T.inRange c = true := by
  rw [inRange_iff]
  cases T <;> simp only [IntTy.min, IntTy.max] at hT ⊢ <;> omega

theorem inRange_i64_of (t : IntTy) (v : Int) (h : t.inRange v = true) (hu : t = .u64 → v ≤ 9223372036854775807) :
    IntTy.i64.inRange v = true := by
  rw [inRange_iff] at h ⊢
  cases t <;> simp only [IntTy.min, IntTy.max] at h ⊢
  all_goals first | omega | (have := hu rfl; omega)

theorem inRange_u64_of (t : IntTy) (v : Int) (h : t.inRange v = true) (hu : isUnsigned (intDataType t) = true) :
    IntTy.u64.inRange v = true := by
  rw [inRange_iff] at h ⊢
  cases t <;> simp [intDataType, isUnsigned] at hu <;> simp only [IntTy.min, IntTy.max] at h ⊢ <;> omega

theorem scalar_int (ext : Ext) (T t : IntTy) (v : Int) (h : T.inRange v = true) :
    ∃ lv, interpScalar ext (intDataType T) (.int t v) = .ok lv := by
  cases T <;> simp [interpScalar_eq_old, normErr_ok_iff, interpScalarOld, intDataType, convLeaf, tryInto, h, bind, Except.bind, pure, Except.pure]

theorem scalar_char (ext : Ext) (T : IntTy) (c : Nat) (h : T.inRange c = true) :
    ∃ lv, interpScalar ext (intDataType T) (.char c) = .ok lv := by
  cases T <;> simp [interpScalar_eq_old, normErr_ok_iff, interpScalarOld, intDataType, convLeaf, tryInto, h, bind, Except.bind, pure, Except.pure]

theorem scalar_string (ext : Ext) (dt : DataType) (x : SVal) (s : String)
    (hdt : dt = .utf8 ∨ dt = .largeUtf8 ∨ ∃ k v, dt = .dictionary k v ∧ (v = .utf8 ∨ v = .largeUtf8))
    (hs : scalarToString ext x = some s) :
    ∃ lv, interpScalar ext dt x = .ok lv := by
  rcases hdt with rfl | rfl | ⟨k, v, rfl, rfl | rfl⟩ <;> simp [interpScalar_eq_old, normErr_ok_iff, interpScalarOld, interpDictStr, dictValue, liftO, hs]

theorem isUtf8_iff (d : DataType) : isUtf8 d = true ↔ d = .utf8 := by cases d <;> simp [isUtf8]
theorem isLargeUtf8_iff (d : DataType) : isLargeUtf8 d = true ↔ d = .largeUtf8 := by cases d <;> simp [isLargeUtf8]
theorem isUInt64DT_iff (d : DataType) : isUInt64DT d = true ↔ d = .uint64 := by cases d <;> simp [isUInt64DT]
theorem isInt64DT_iff (d : DataType) : isInt64DT d = true ↔ d = .int64 := by cases d <;> simp [isInt64DT]
theorem isFloat64DT_iff (d : DataType) : isFloat64DT d = true ↔ d = .float64 := by cases d <;> simp [isFloat64DT]

theorem strType_cases (o : Options) (s : String) :
    strType o s = o.string_type ∨ isGuessedDT (strType o s) = true := by
  unfold strType
  repeat (first | (split; first | exact .inl rfl | exact .inr rfl) | exact .inl rfl | exact .inr rfl)

theorem string_type_cases (o : Options) : o.string_type = .utf8 ∨ o.string_type = .largeUtf8 := by
  unfold Options.string_type; split
  · exact .inr rfl
  · exact .inl rfl

theorem strType_ne_null (o : Options) (s : String) : strType o s ≠ .null := by
  rcases strType_cases o s with h | h
  · rw [h]; rcases string_type_cases o with h' | h' <;> rw [h'] <;> simp
  · intro e; rw [e] at h; simp [isGuessedDT] at h

/-- the field data type of a primitive tracer of type `ty`: the type itself or (strings, dictionary encoding) a
dictionary -/
def FieldOf (ty dt : DataType) : Prop :=
  dt = ty ∨ ((isLargeUtf8 ty || isUtf8 ty) = true ∧ ∃ k v, dt = .dictionary k v ∧ (v = .utf8 ∨ v = .largeUtf8))

theorem leaf_interp (ext : Ext) (o : Options) (b : Bool) {ty a : DataType} (hp : okPair ty a = true) {x : SVal}
    (hx : leafTypeOf o x = some a) (hna : a ≠ .null) (hok : sampleOK b x = true) {dt : DataType} (hdt : FieldOf ty dt)
    (hex : exclAny ext dt x = false) : ∃ lv, interpScalar ext dt x = .ok lv := by
  simp only [exclAny, Bool.or_eq_false_iff] at hex
  obtain ⟨⟨⟨hex1, hdate⟩, hu64⟩, hex4⟩ := hex
  -- a string-typed field takes every to-string source
  have hstring : (isUtf8 ty || isLargeUtf8 ty) = true → ∀ s, scalarToString ext x = some s →
      ∃ lv, interpScalar ext dt x = .ok lv := by
    intro hty s hs
    refine scalar_string ext dt x s ?_ hs
    rcases hdt with rfl | ⟨_, k, v, rfl, hv⟩
    · simp only [Bool.or_eq_true, isUtf8_iff, isLargeUtf8_iff] at hty
      rcases hty with h | h
      · exact .inl h
      · exact .inr (.inl h)
    · exact .inr (.inr ⟨k, v, rfl, hv⟩)
  have hnostr : (isLargeUtf8 ty || isUtf8 ty) = false → dt = ty := by
    intro h
    rcases hdt with rfl | ⟨h', _⟩
    · rfl
    · rw [h] at h'; cases h'
  simp only [okPair, Bool.or_eq_true, Bool.and_eq_true, decide_eq_true_eq] at hp
  rcases hp with (((hp | hp) | hp) | hp) | hp
  · -- same type
    subst hp
    cases x <;> simp only [leafTypeOf, Option.some.injEq, reduceCtorEq] at hx
    case unit => exact absurd hx.symm hna
    case unitStruct => exact absurd hx.symm hna
    case bool bb =>
      subst hx; rw [hnostr rfl]; simp [interpScalar_eq_old, normErr_ok_iff, interpScalarOld, convLeaf, bind, Except.bind, pure, Except.pure]
    case int t v =>
      subst hx
      have : dt = intDataType t := hnostr (by cases t <;> rfl)
      rw [this]
      exact scalar_int ext t t v (by simpa [sampleOK] using hok)
    case f32 bits =>
      subst hx; rw [hnostr rfl]; simp [interpScalar_eq_old, normErr_ok_iff, interpScalarOld, convLeaf, bind, Except.bind, pure, Except.pure]
    case f64 bits =>
      subst hx; rw [hnostr rfl]; simp [interpScalar_eq_old, normErr_ok_iff, interpScalarOld, convLeaf, bind, Except.bind, pure, Except.pure]
    case char c =>
      subst hx; rw [hnostr rfl]
      have hc : c < 1114112 := by simpa [sampleOK] using hok
      exact scalar_char ext .u32 c (inRange_char _ c hc (by decide))
    case str s =>
      subst hx
      rcases strType_cases o s with h | h
      · refine hstring ?_ s rfl
        rw [h]; rcases string_type_cases o with h' | h' <;> rw [h'] <;> rfl
      · have hdt' : dt = strType o s := hnostr (by
          revert h; cases strType o s <;> simp [isGuessedDT, isLargeUtf8, isUtf8])
        rw [hdt'] at hdate ⊢
        simp only [dateLookalike, h, Bool.true_and, Bool.not_eq_false'] at hdate
        cases hi : interpScalar ext (strType o s) (.str s) with
        | ok lv => exact ⟨lv, rfl⟩
        | error e => rw [hi] at hdate; cases hdate
    case bytes bs =>
      subst hx; rw [hnostr rfl]; simp [interpScalar_eq_old, normErr_ok_iff, interpScalarOld]
  · -- UInt64 for unsigned calls
    obtain ⟨h1, h2⟩ := hp
    have hty := (isUInt64DT_iff ty).mp h1
    subst hty
    rw [hnostr rfl]
    cases x <;> simp only [leafTypeOf, Option.some.injEq, reduceCtorEq] at hx <;> subst hx <;>
      simp only [isUnsigned, reduceCtorEq] at h2
    case int t v =>
      exact scalar_int ext .u64 t v (inRange_u64_of t v (by simpa [sampleOK] using hok) h2)
    case char c =>
      have hc : c < 1114112 := by simpa [sampleOK] using hok
      exact scalar_char ext .u64 c (inRange_char _ c hc (by decide))
    case str s =>
      rcases strType_cases o s with h | h
      · rw [h] at h2; rcases string_type_cases o with h' | h' <;> rw [h'] at h2 <;> cases h2
      · revert h h2; cases strType o s <;> simp [isGuessedDT, isUnsigned]
  · -- Int64 for every integer call
    obtain ⟨h1, h2⟩ := hp
    have hty := (isInt64DT_iff ty).mp h1
    subst hty
    rw [hnostr rfl] at hu64 ⊢
    cases x <;> simp only [leafTypeOf, Option.some.injEq, reduceCtorEq] at hx <;> subst hx <;>
      simp only [isInt, isSigned, isUnsigned, Bool.or_self, reduceCtorEq] at h2
    case int t v =>
      refine scalar_int ext .i64 t v (inRange_i64_of t v (by simpa [sampleOK] using hok) ?_)
      intro ht; subst ht
      simp only [u64AboveI64, isInt64DT, Bool.true_and, decide_eq_false_iff_not] at hu64
      omega
    case char c =>
      have hc : c < 1114112 := by simpa [sampleOK] using hok
      exact scalar_char ext .i64 c (inRange_char _ c hc (by decide))
    case str s =>
      rcases strType_cases o s with h | h
      · rw [h] at h2; rcases string_type_cases o with h' | h' <;> rw [h'] at h2 <;> simp [isSigned, isUnsigned] at h2
      · revert h h2; cases strType o s <;> simp [isGuessedDT, isUnsigned, isSigned]
  · -- Float64 for integer and float calls
    obtain ⟨h1, h2⟩ := hp
    have hty := (isFloat64DT_iff ty).mp h1
    subst hty
    rw [hnostr rfl]
    cases x <;> simp only [leafTypeOf, Option.some.injEq, reduceCtorEq] at hx <;> subst hx <;>
      simp only [isInt, isSigned, isUnsigned, isFloat3264, Bool.or_self, Bool.false_eq_true, or_self, reduceCtorEq] at h2
    case int t v => simp [interpScalar_eq_old, normErr_ok_iff, interpScalarOld, convLeaf, bind, Except.bind, pure, Except.pure]
    case f32 bits => simp [interpScalar_eq_old, normErr_ok_iff, interpScalarOld, convLeaf, bind, Except.bind, pure, Except.pure]
    case f64 bits => simp [interpScalar_eq_old, normErr_ok_iff, interpScalarOld, convLeaf, bind, Except.bind, pure, Except.pure]
    case char c => simp [interpScalar_eq_old, normErr_ok_iff, interpScalarOld, convLeaf, bind, Except.bind, pure, Except.pure]
    case str s =>
      rcases strType_cases o s with h | h
      · rw [h] at h2; rcases string_type_cases o with h' | h' <;> rw [h'] at h2 <;>
          simp [isSigned, isUnsigned, isFloat3264] at h2
      · revert h h2; cases strType o s <;> simp [isGuessedDT, isUnsigned, isSigned, isFloat3264]
  · -- a string type for the to-string sources and timestamps
    obtain ⟨h1, h2⟩ := hp
    have h1 : (isUtf8 ty || isLargeUtf8 ty) = true := by simpa using h1
    cases x <;> simp only [leafTypeOf, Option.some.injEq, reduceCtorEq] at hx <;> subst hx
    case unit => exact absurd rfl hna
    case unitStruct => exact absurd rfl hna
    case bool bb => exact hstring h1 _ rfl
    case int t v => exact hstring h1 _ rfl
    case f32 bits => exact hstring h1 _ rfl
    case f64 bits => exact hstring h1 _ rfl
    case char c => exact hstring h1 _ rfl
    case str s => exact hstring h1 _ rfl
    case bytes bs => simp [isToStringSource, isBoolean, isInt, isSigned, isUnsigned, isFloat3264, isTimestamp] at h2

/-! ### the leaf family of `PI` -/

/-- absorbing a non-null leaf kind into a well-formed tracer: the result is a primitive node whose state has absorbed
the kind (the first half of `PS_leaf`) -/
theorem absorb_leaf_state (o : Options) {t t' : Tracer} {a : DataType} (hw : WF o t) (ha : a ∈ leafTypes o)
    (hnull : a ≠ .null) (h : t.ensure_primitive o a = .ok t') :
    ∃ n p ty' nl', t' = .primitive n p nl' ty' none ∧ ty' ≠ .null ∧ (some ty', nl') ∈ leafStates o ∧
      act o (some ty', nl') a = .ok (some ty', nl') := by
  have main : ∀ n p (s : LeafSt), s ∈ leafStates o → t = LeafSt.embed n p s →
      ∃ n p ty' nl', t' = .primitive n p nl' ty' none ∧ ty' ≠ .null ∧ (some ty', nl') ∈ leafStates o ∧
        act o (some ty', nl') a = .ok (some ty', nl') := by
    intro n p s hs' ht
    subst ht
    have e := ensure_primitive_embed o n p s a
    rw [e] at h
    cases hact : act o s a with
    | error e' => rw [hact] at h; cases h
    | ok s' =>
      rw [hact] at h; cases h
      obtain ⟨hm, _, hidem⟩ := step_facts o hs' ha hact
      obtain ⟨ty', h1, h2⟩ := act_nonnull o hs' ha hact
      obtain ⟨t2', nl'⟩ := s'
      simp only at h1; subst h1
      exact ⟨n, p, ty', nl', rfl, h2 (.inl hnull), hm, hidem⟩
  rcases leaf_node_cases t with ⟨n, p, s, ht, hs1⟩ | ⟨n, p, nl, ty, st, ht⟩ | hc
  · obtain ⟨s1, s2⟩ := s
    simp only at hs1; subst hs1
    exact main n p _ (unknown_mem o s2) ht
  · subst ht
    simp only [WF] at hw
    obtain ⟨rfl, hs'⟩ := hw
    exact main n p (some ty, nl) hs' rfl
  · exact absurd (ensure_primitive_container hc h).2 hnull

theorem PI_leaf (o : Options) (ext : Ext) (h0 : o.overwrites = []) (x : SVal) (a : DataType)
    (hx : leafTypeOf o x = some a) : PI o ext x := by
  intro t t' hinv h t2 hs f hf hok hex
  have hw : WF o t := hinv.wf
  have ha := leafTypeOf_mem o hx
  rw [absorb_prim .fixed o t hx] at h
  have hw' : WF o t' := ensure_primitive_wf o ha hw h
  obtain ⟨_, huv, _⟩ := to_field_facts h0 hf
  by_cases hnull : a = .null
  · subst hnull
    have h1 := ensure_primitive_null_nullable o hw h
    have hn : t2.nullable = true := hs.keeps.1 h1
    cases x <;> simp only [leafTypeOf, Option.some.injEq, reduceCtorEq] at hx
    case unit =>
      have hu : isUnionDT f.dataType = false := by
        simpa [hits, exclAny, nullAtEnum, dateLookalike, u64AboveI64, dataLessNewtype] using hex
      exact ⟨.null, by rw [interpDT]; exact interpNull_of_nullable h0 hf hn hu⟩
    case unitStruct nm =>
      have hu : isUnionDT f.dataType = false := by
        simpa [hits, exclAny, nullAtEnum, dateLookalike, u64AboveI64, dataLessNewtype] using hex
      exact ⟨.null, by rw [interpDT]; exact interpNull_of_nullable h0 hf hn hu⟩
    case int tt v => cases tt <;> simp [intDataType] at hx
    case str s => exact absurd hx (strType_ne_null o s)
  · obtain ⟨n, p, ty', nl', rfl, hty', hm, hidem⟩ := absorb_leaf_state o hw ha hnull h
    obtain ⟨nl2, ty2, rfl, hty2, ys, hys, hrun⟩ := steps_extShape hw' hs hty'
    have hstay := run_stays o ha ys _ _ hm hys hidem hrun
    have hw2 : WF o (.primitive n p nl2 ty2 none) := hs.wf hw'
    simp only [WF] at hw2
    have hp := acc_okPair o hw2.2 ha hty2 hnull hstay
    have hfield : FieldOf ty2 f.dataType := by
      rcases to_field_primitive_inv h0 hf with ⟨e, _⟩ | ⟨_, hs', ⟨_, rfl⟩ | ⟨_, rfl⟩⟩ | ⟨_, _, rfl⟩
      · exact absurd e hty2
      · exact .inl rfl
      · exact .inr ⟨hs', _, _, rfl, string_type_cases o⟩
      · exact .inl rfl
    have hex' : exclAny ext f.dataType x = false := by
      cases x <;> simp only [leafTypeOf, reduceCtorEq] at hx <;> simpa [hits] using hex
    obtain ⟨lv, hlv⟩ := leaf_interp ext o _ hp hx hnull hok hfield hex'
    refine ⟨lv, ?_⟩
    cases x <;> simp only [leafTypeOf, reduceCtorEq] at hx
    case bytes bs =>
      have ha' : a = .largeBinary := (Option.some.inj hx).symm
      subst ha'
      have hty : ty2 = .largeBinary := by
        simpa [okPair, isUnsigned, isInt, isSigned, isFloat3264, isToStringSource, isBoolean, isTimestamp] using hp
      subst hty
      have hdt : f.dataType = .largeBinary := by
        rcases hfield with h | ⟨h, _⟩
        · exact h
        · simp [isLargeUtf8, isUtf8] at h
      rw [hdt] at hlv huv
      simp only [interpDT, hdt, huv, Bool.false_eq_true, if_false]
      exact hlv
    all_goals first | exact absurd (Option.some.inj hx).symm hnull | (rw [interpDT, huv]; exact hlv)

end SaModel.Lemmas.C06
