import SaModel.Lemmas.C06InterpBase
import SaModel.Lemmas.C01R2
/-
C06, closure, tracer ⇒ documented mapping: sequences (traced as List / LargeList) and maps traced as Arrow maps
(`map_as_struct = false`).  Also: well-formed samples contain no raw key/value call stream.
-/
namespace SaModel.Lemmas.C06
open SaModel SaModel.Spec SaModel.Build SaModel.Trace

/-! ### well-formed samples contain no raw key/value call stream -/

mutual
/-- well-formed samples contain no raw key/value call stream -/
theorem sampleOK_noRaw (b : Bool) : ∀ x : SVal, sampleOK b x = true → SaModel.Build.noRaw x = true
  | .some v, h => by simp only [sampleOK] at h; simpa [noRaw] using sampleOK_noRaw b v h
  | .newtypeStruct _ v, h => by simp only [sampleOK] at h; simpa [noRaw] using sampleOK_noRaw b v h
  | .seq xs, h => by simp only [sampleOK] at h; simpa [noRaw] using samplesOK_noRaws b xs h
  | .tuple xs, h => by simp only [sampleOK] at h; simpa [noRaw] using samplesOK_noRaws b xs h
  | .tupleStruct _ xs, h => by simp only [sampleOK] at h; simpa [noRaw] using samplesOK_noRaws b xs h
  | .record _ fs, h => by
    simp only [sampleOK, Bool.and_eq_true] at h; simpa [noRaw] using sfieldsOK_noRawf b fs h.1
  | .map es, h => by
    simp only [sampleOK, Bool.and_eq_true] at h; simpa [noRaw] using sentriesOK_noRawe b es h.1
  | .mapRaw _, h => by simp [sampleOK] at h
  | .newtypeVariant _ _ _ v, h => by simp only [sampleOK] at h; simpa [noRaw] using sampleOK_noRaw b v h
  | .tupleVariant _ _ _ xs, h => by simp only [sampleOK] at h; simpa [noRaw] using samplesOK_noRaws b xs h
  | .structVariant _ _ _ fs, h => by
    simp only [sampleOK, Bool.and_eq_true] at h; simpa [noRaw] using sfieldsOK_noRawf b fs h.1
  | .none, _ => by simp [noRaw]
  | .unit, _ => by simp [noRaw]
  | .bool _, _ => by simp [noRaw]
  | .int _ _, _ => by simp [noRaw]
  | .f32 _, _ => by simp [noRaw]
  | .f64 _, _ => by simp [noRaw]
  | .char _, _ => by simp [noRaw]
  | .str _, _ => by simp [noRaw]
  | .bytes _, _ => by simp [noRaw]
  | .unitStruct _, _ => by simp [noRaw]
  | .unitVariant _ _ _, _ => by simp [noRaw]
theorem samplesOK_noRaws (b : Bool) : ∀ xs : SVals, samplesOK b xs = true → SaModel.Build.noRaws xs = true
  | .nil, _ => by simp [noRaws]
  | .cons v r, h => by
    simp only [samplesOK, Bool.and_eq_true] at h
    simp [noRaws, sampleOK_noRaw b v h.1, samplesOK_noRaws b r h.2]
theorem sfieldsOK_noRawf (b : Bool) : ∀ fs : SFields, sfieldsOK b fs = true → SaModel.Build.noRawf fs = true
  | .nil, _ => by simp [noRawf]
  | .cons _ _ v r, h => by
    simp only [sfieldsOK, Bool.and_eq_true] at h
    simp [noRawf, sampleOK_noRaw b v h.1, sfieldsOK_noRawf b r h.2]
theorem sentriesOK_noRawe (b : Bool) : ∀ es : SEntries, sentriesOK b es = true → SaModel.Build.noRawe es = true
  | .nil, _ => by simp [noRawe]
  | .cons k v r, h => by
    simp only [sentriesOK, Bool.and_eq_true] at h
    simp [noRawe, sampleOK_noRaw b k h.1.1, sampleOK_noRaw b v h.1.2, sentriesOK_noRawe b r h.2]
end

/-! ### element-wise facts -/

theorem interpAll_ok (ext : Ext) (dt : DataType) (n : Bool) (md : Metadata) : ∀ xs : SVals,
    (∀ v ∈ xs.toList, ∃ lv, interpDT ext dt n md v = .ok lv) → ∃ l, interpAll ext dt n md xs = .ok l
  | .nil, _ => ⟨[], by rw [interpAll]⟩
  | .cons x r, h => by
    obtain ⟨lv, hlv⟩ := h x (by simp [SVals.toList])
    obtain ⟨l, hl⟩ := interpAll_ok ext dt n md r (fun v hv => h v (by simp [SVals.toList, hv]))
    exact ⟨lv :: l, by rw [interpAll, hlv, hl]; rfl⟩

theorem interpEntries_ok (ext : Ext) (kdt : DataType) (kn : Bool) (kmd : Metadata) (vdt : DataType) (vn : Bool)
    (vmd : Metadata) : ∀ es : SEntries,
    (∀ v ∈ SEntries.keys es, ∃ lv, interpDT ext kdt kn kmd v = .ok lv) →
    (∀ v ∈ SEntries.vals es, ∃ lv, interpDT ext vdt vn vmd v = .ok lv) →
    ∃ l, interpEntries ext kdt kn kmd vdt vn vmd es = .ok l
  | .nil, _, _ => ⟨[], by rw [interpEntries]⟩
  | .cons k x r, hk, hv => by
    obtain ⟨lk, hlk⟩ := hk k (by simp [SEntries.keys])
    obtain ⟨lx, hlx⟩ := hv x (by simp [SEntries.vals])
    obtain ⟨l, hl⟩ := interpEntries_ok ext kdt kn kmd vdt vn vmd r
      (fun v h => hk v (by simp [SEntries.keys, h])) (fun v h => hv v (by simp [SEntries.vals, h]))
    exact ⟨(lk, lx) :: l, by rw [interpEntries, hlk, hlx, hl]; rfl⟩

theorem samplesOK_mem (b : Bool) : ∀ xs : SVals, samplesOK b xs = true → ∀ v ∈ xs.toList, sampleOK b v = true
  | .nil, _, v, hv => by simp [SVals.toList] at hv
  | .cons x r, h, v, hv => by
    simp only [samplesOK, Bool.and_eq_true] at h
    simp only [SVals.toList, List.mem_cons] at hv
    rcases hv with rfl | hv
    · exact h.1
    · exact samplesOK_mem b r h.2 v hv

theorem hitsAll_mem (p : DataType → SVal → Bool) (dt : DataType) : ∀ xs : SVals, hitsAll p dt xs = false →
    ∀ v ∈ xs.toList, hits p dt v = false
  | .nil, _, v, hv => by simp [SVals.toList] at hv
  | .cons x r, h, v, hv => by
    simp only [hitsAll, Bool.or_eq_false_iff] at h
    simp only [SVals.toList, List.mem_cons] at hv
    rcases hv with rfl | hv
    · exact h.1
    · exact hitsAll_mem p dt r h.2 v hv

theorem sentriesOK_mem (b : Bool) : ∀ es : SEntries, sentriesOK b es = true →
    (∀ v ∈ SEntries.keys es, sampleOK b v = true) ∧ (∀ v ∈ SEntries.vals es, sampleOK b v = true)
  | .nil, _ => by simp [SEntries.keys, SEntries.vals]
  | .cons k x r, h => by
    simp only [sentriesOK, Bool.and_eq_true] at h
    obtain ⟨ih1, ih2⟩ := sentriesOK_mem b r h.2
    constructor
    · intro v hv
      simp only [SEntries.keys, List.mem_cons] at hv
      rcases hv with rfl | hv
      · exact h.1.1
      · exact ih1 v hv
    · intro v hv
      simp only [SEntries.vals, List.mem_cons] at hv
      rcases hv with rfl | hv
      · exact h.1.2
      · exact ih2 v hv

theorem hitsEntries_mem (p : DataType → SVal → Bool) (kdt vdt : DataType) : ∀ es : SEntries,
    hitsEntries p kdt vdt es = false →
    (∀ v ∈ SEntries.keys es, hits p kdt v = false) ∧ (∀ v ∈ SEntries.vals es, hits p vdt v = false)
  | .nil, _ => by simp [SEntries.keys, SEntries.vals]
  | .cons k x r, h => by
    simp only [hitsEntries, Bool.or_eq_false_iff] at h
    obtain ⟨ih1, ih2⟩ := hitsEntries_mem p kdt vdt r h.2
    constructor
    · intro v hv
      simp only [SEntries.keys, List.mem_cons] at hv
      rcases hv with rfl | hv
      · exact h.1.1
      · exact ih1 v hv
    · intro v hv
      simp only [SEntries.vals, List.mem_cons] at hv
      rcases hv with rfl | hv
      · exact h.1.2
      · exact ih2 v hv

/-! ### the invariant of the children after `ensure_list` / `ensure_map` -/

theorem ensure_list_Inv {o : Options} {t : Tracer} {n p : String} {nl : Bool} {i : Tracer} (hw : Inv o t)
    (h : t.ensure_list = .ok (.list n p nl i)) : Inv o i := by
  have htn : TN i := by simpa [TN] using ensure_list_tn hw.2 h
  refine ⟨?_, htn⟩
  obtain ⟨_, hc⟩ := C07.ensure_list_inv h
  rcases hc with ⟨_, e⟩ | ⟨n', p', nl', i', rfl, e⟩
  · cases e; exact wf7_new o _ _
  · cases e
    have := hw.1
    simpa [C07.WF] using this

theorem ensure_map_Inv {o : Options} {t : Tracer} {n p : String} {nl : Bool} {k v : Tracer} (hw : Inv o t)
    (h : t.ensure_map = .ok (.map n p nl k v)) : Inv o k ∧ Inv o v := by
  have htn : TN k ∧ TN v := by simpa [TN] using ensure_map_tn hw.2 h
  obtain ⟨_, hc⟩ := C07.ensure_map_inv h
  rcases hc with ⟨_, e⟩ | ⟨n', p', nl', k', v', rfl, e⟩
  · cases e; exact ⟨⟨wf7_new o _ _, htn.1⟩, ⟨wf7_new o _ _, htn.2⟩⟩
  · cases e
    have := hw.1
    simp only [C07.WF] at this
    exact ⟨⟨this.1, htn.1⟩, ⟨this.2, htn.2⟩⟩

/-! ### the mapping at a List / LargeList / Map field -/

theorem interp_list_ok (ext : Ext) (large : Bool) (item : Field) (nl : Bool) (xs : SVals)
    (h : ∀ v ∈ xs.toList, IOk ext item v) :
    ∃ lv, interpDT ext (if large then .largeList item else .list item) nl [] (.seq xs) = .ok lv := by
  obtain ⟨a, cdt, cn, cmd⟩ := item
  obtain ⟨l, hl⟩ := interpAll_ok ext cdt cn cmd xs h
  cases large
  · refine ⟨.list (LVals.ofList l), ?_⟩
    simp only [Bool.false_eq_true, if_false]
    rw [interpDT]
    simp only [isUnknownVariant, Bool.false_eq_true, if_false, hl]
    rfl
  · refine ⟨.list (LVals.ofList l), ?_⟩
    simp only [if_true]
    rw [interpDT]
    simp only [isUnknownVariant, Bool.false_eq_true, if_false, hl]
    rfl

theorem hits_list (p : DataType → SVal → Bool) (large : Bool) (item : Field) (xs : SVals) :
    hits p (if large then .largeList item else .list item) (.seq xs) = hitsAll p item.dataType xs := by
  obtain ⟨a, cdt, cn, cmd⟩ := item
  cases large <;> simp [hits, Field.dataType]

theorem interp_map_ok (ext : Ext) (kf vf : Field) (nl : Bool) (es : SEntries)
    (hk : ∀ v ∈ SEntries.keys es, IOk ext kf v) (hv : ∀ v ∈ SEntries.vals es, IOk ext vf v) :
    ∃ lv, interpDT ext (.map (Field.mk "entries" (.struct (Fields.ofList [kf, vf])) false []) false) nl []
      (.map es) = .ok lv := by
  obtain ⟨a, kdt, kn, kmd⟩ := kf
  obtain ⟨b, vdt, vn, vmd⟩ := vf
  obtain ⟨l, hl⟩ := interpEntries_ok ext kdt kn kmd vdt vn vmd es hk hv
  refine ⟨.map (LEntries.ofList l), ?_⟩
  simp only [Fields.ofList]
  rw [interpDT]
  simp only [isUnknownVariant, Bool.false_eq_true, if_false, hl]
  rfl

theorem hits_map (p : DataType → SVal → Bool) (kf vf : Field) (es : SEntries) :
    hits p (.map (Field.mk "entries" (.struct (Fields.ofList [kf, vf])) false []) false) (.map es) =
      hitsEntries p kf.dataType vf.dataType es := by
  obtain ⟨a, kdt, kn, kmd⟩ := kf
  obtain ⟨b, vdt, vn, vmd⟩ := vf
  simp [hits, Fields.ofList, Field.dataType]

/-! ### the families -/

theorem PI_seq (o : Options) (ext : Ext) (h0 : o.overwrites = []) (items : SVals)
    (ih : ∀ v ∈ items.toList, PI o ext v) : PI o ext (.seq items) := by
  intro t t' hw h t2 hs f hf hok hex
  have hw' := absorb_inv o hw h
  obtain ⟨n, p, nl, i0, i1, h1, h2, rfl⟩ := (absorb_seq_ok .fixed o t t' items).mp h
  have hwi : Inv o i0 := ensure_list_Inv hw h1
  obtain ⟨nl2, i2, rfl, hsi⟩ := steps_extShape hw'.wf hs
  obtain ⟨item, hitem, rfl⟩ := to_field_list_inv h0 hf
  simp only [sampleOK] at hok
  simp only [Field.dataType] at hex
  rw [hits_list] at hex
  have hM := absorbAll_PI o ext items.toList ih i0 i1 hwi h2
  exact interp_list_ok ext _ item nl2 items (fun v hv =>
    hM v hv i2 hsi item hitem (samplesOK_mem _ items hok v hv) (hitsAll_mem _ _ items hex v hv))

theorem PI_mapAsMap (o : Options) (ext : Ext) (h0 : o.overwrites = []) (hm : o.map_as_struct = false) (es : SEntries)
    (ihk : ∀ v ∈ SEntries.keys es, PI o ext v) (ihv : ∀ v ∈ SEntries.vals es, PI o ext v) : PI o ext (.map es) := by
  intro t t' hw h t2 hs f hf hok hex
  have hw' := absorb_inv o hw h
  have hx : asMap o (.map es) = some (SEntries.keys es, SEntries.vals es) := by simp [asMap, hm]
  obtain ⟨n, p, nl, k0, v0, k1, v1, h1, h2, h3, rfl⟩ := (absorb_asMap_ok .fixed o t t' _ _ _ hx).mp h
  obtain ⟨hwk, hwv⟩ := ensure_map_Inv hw h1
  obtain ⟨nl2, k2, v2, rfl, hsk, hsv⟩ := steps_extShape hw'.wf hs
  obtain ⟨kf, vf, hkf, hvf, rfl⟩ := to_field_map_inv h0 hf
  simp only [sampleOK, Bool.and_eq_true] at hok
  obtain ⟨hokk, hokv⟩ := sentriesOK_mem _ es hok.1
  simp only [Field.dataType] at hex
  rw [hits_map] at hex
  obtain ⟨hexk, hexv⟩ := hitsEntries_mem _ _ _ es hex
  have hMk := absorbAll_PI o ext _ ihk k0 k1 hwk h2
  have hMv := absorbAll_PI o ext _ ihv v0 v1 hwv h3
  exact interp_map_ok ext kf vf nl2 es
    (fun v hv => hMk v hv k2 hsk kf hkf (hokk v hv) (hexk v hv))
    (fun v hv => hMv v hv v2 hsv vf hvf (hokv v hv) (hexv v hv))

end SaModel.Lemmas.C06
