import SaModel.Lemmas.C06InterpBase
import SaModel.Lemmas.C06InterpStructA
/-
C06, closure, tracer ⇒ documented mapping, STRUCT family: records, and maps traced as structs (`map_as_struct`).

`asStruct_fields` is the tracer-side core over the (key, value) list of the sample: for every field `g` of the struct type
the tracer ends up with, every value the sample files under `g.name` maps at `g` (induction hypothesis along the `Steps`
from the child tracer the value went into to the child tracer `g` was made from), and when the sample has no such value
`g` is nullable (not seen in this sample: marked by `end_`; or added by a later sample) and takes a null.
`PI_record` / `PI_mapAsStruct` add the spec side: `interpByName` / `interpByKey` find exactly one candidate (no duplicate
keys) or none, `structOf` assembles them in any field order (`sortByName` in map mode).
-/
namespace SaModel.Lemmas.C06
open SaModel SaModel.Spec SaModel.Build SaModel.Trace

/-! ### the tracer-side core -/

theorem asStruct_fields (o : Options) (ext : Ext) (h0 : o.overwrites = []) (x : SVal) (mode : StructMode)
    (rk : R (List (String × SVal))) (hx : asStruct o x = some (mode, rk))
    (ih : ∀ kvs, rk = .ok kvs → ∀ kv ∈ kvs, PI o ext kv.2)
    {t t' : Tracer} (hw : Inv o t) (h : absorb .fixed o t x = .ok t') {t2 : Tracer} (hs : Steps .fixed o t' t2)
    {f : Field} (hf : t2.to_field o = .ok f) :
    ∃ kvs flds, rk = .ok kvs ∧ isUnknownVariant f.dataType f.metadata = false ∧
      (f.dataType = .struct (Fields.ofList flds) ∨ f.dataType = .struct (Fields.ofList (sortByName flds))) ∧
      ∀ g ∈ flds,
        (∀ kv ∈ kvs, kv.1 = g.name → sampleOK o.map_as_struct kv.2 = true →
          hits (exclAny ext) g.dataType kv.2 = false → IOk ext g kv.2) ∧
        ((∀ kv ∈ kvs, kv.1 ≠ g.name) → g.nullable = true ∧
          (isUnionDT g.dataType = false → interpNull g.dataType g.nullable g.metadata = .ok .null)) := by
  have hw1 : Inv o t' := absorb_inv o hw h
  have hw' := hw1.wf
  obtain ⟨kvs, n, p, nl, fsA, m, s, fsB, hk, h1, h2, rfl⟩ := (absorb_asStruct_ok .fixed o t t' x mode rk hx).mp h
  obtain ⟨hd, fsA', m', s', he, hwA, _⟩ := ensure_struct_ok o .fixed h1
  cases he
  obtain ⟨nl2, fs2, m2, s2, rfl, hfs, hss, hmm, hnew⟩ := steps_extShape hw' hs
  have hFA : C07.FWF o s fsA := (C07.ensure_struct_facts hw.1 h1).1
  have hAllA : AllInv o fsA :=
    (Inv_struct (n := t.name) (p := t.path) (nl := t.nullable) (m := m)
      ⟨by rw [C07.WF]; exact hFA, ensure_struct_tn .fixed hw.2 h1⟩).2
  have hw2 := steps_inv hw1 hs
  obtain ⟨hF2, _⟩ := Inv_struct hw2
  obtain ⟨flds, hflds, hcase⟩ := to_field_struct_inv h0 hf
  obtain ⟨hendE, _⟩ := end_ext .fixed o s fsB
  have hBC : FsExt .fixed o fsB fs2 := hendE.trans hfs
  have htrack := absorbKVs_track o t.path s kvs fsA fsB hAllA h2
  refine ⟨kvs, flds, hk, ?_, ?_, ?_⟩
  · rcases hcase with ⟨_, rfl⟩ | ⟨_, rfl⟩ <;> rfl
  · rcases hcase with ⟨_, rfl⟩ | ⟨_, rfl⟩
    · exact .inr rfl
    · exact .inl rfl
  intro g hg
  obtain ⟨j, c, hj, hc⟩ := to_fields_mem o fs2 flds hflds g hg
  obtain ⟨hname, _, _⟩ := to_field_facts h0 hc
  have hjidx : fs2.indexOf c.name = some j := FWF_indexOf_name hF2 j c hj
  constructor
  · intro kv hkv hkey hok hex
    obtain ⟨i, a, b, b', hIa, hab, hidx, hgb', hsb⟩ := htrack kv hkv
    have hidx2 : fs2.indexOf kv.1 = some i := hBC.2 _ _ hidx
    rw [hkey, hname, hjidx] at hidx2
    cases hidx2
    obtain ⟨c', hc', hsc⟩ := hBC.1 _ b' hgb'
    rw [hj] at hc'; cases hc'
    exact ih kvs hk kv hkv a b hIa hab c (hsb.trans hsc) g hc hok hex
  · intro hno
    have hn : c.nullable = true := by
      cases hgE : (fsB.end_ s).get? j with
      | none => exact hnew (by omega) j c hj hgE
      | some e =>
        have hlt : j < fsB.length := by
          have := TFields.get?_lt hgE; rw [TFields.length_end] at this; exact this
        obtain ⟨b, hb⟩ := TFields.get?_of_lt hlt
        obtain ⟨lb, hlb⟩ := lastSeen?_of_lt hlt
        have hgE' := TFields.get?_end s fsB j b lb hb hlb
        rw [hgE] at hgE'
        simp only [Option.some.injEq] at hgE'
        obtain ⟨c', hc', hsE⟩ := hfs.1 j e hgE
        rw [hj] at hc'; cases hc'
        by_cases hlbs : lb = s
        · subst hlbs
          rcases absorbKVs_seen .fixed o t.path lb kvs fsA fsB h2 j hlb with hA | ⟨kv, hkv, hidx⟩
          · have := ((WFF_iff o _ _).mp (hwA hw.wf)).2 j lb hA
            omega
          · exfalso
            have hidx2 : fs2.indexOf kv.1 = some j := hBC.2 _ _ hidx
            have := FWF_name_of_indexOf hF2 kv.1 j c hidx2 hj
            exact hno kv hkv (by rw [hname, this])
        · apply hsE.keeps.1
          have : (lb != s) = true := by simpa using hlbs
          rw [if_pos this] at hgE'
          rw [hgE']; exact mark_nullable_nullable b
    exact ⟨to_field_nullable' h0 hc hn, fun hu => interpNull_of_nullable h0 hc hn hu⟩

/-- the value of a field the sample does not mention -/
theorem pickOne_nil {g : Field} (hn : g.nullable = true)
    (hi : interpNull g.dataType g.nullable g.metadata = .ok .null) :
    ((.ok [] : R (List LVal)) >>= pickOne g.name g.nullable g.dataType g.metadata) = .ok .null := by
  simp only [bind, Except.bind, pickOne, hn, Bool.not_true, Bool.false_eq_true, if_false]
  rw [← hn]; exact hi

theorem exclAny_none {ext : Ext} {dt : DataType} (h : exclAny ext dt .none = false) : isUnionDT dt = false := by
  simpa [exclAny, nullAtEnum, dateLookalike, u64AboveI64, dataLessNewtype] using h

/-! ### records -/

theorem SFields.hasKey_false : ∀ (fs : SFields) (name : String), SFields.hasKey fs name = false →
    ∀ kv ∈ SFields.kvs fs, kv.1 ≠ name
  | .nil, _, _, kv, hkv => by simp [SFields.kvs] at hkv
  | .cons k a v r, name, h, kv, hkv => by
    simp only [SFields.hasKey, Bool.or_eq_false_iff, beq_eq_false_iff_ne] at h
    simp only [SFields.kvs, List.mem_cons] at hkv
    rcases hkv with rfl | hkv
    · exact h.1
    · exact SFields.hasKey_false r name h.2 kv hkv

theorem hitsByName_false (p : DataType → SVal → Bool) (name : String) (dt : DataType) : ∀ fs : SFields,
    hitsByName p name dt fs = false → ∀ kv ∈ SFields.kvs fs, kv.1 = name → hits p dt kv.2 = false
  | .nil, _, kv, hkv, _ => by simp [SFields.kvs] at hkv
  | .cons k a v r, h, kv, hkv, hkey => by
    rw [hitsByName] at h
    simp only [Bool.or_eq_false_iff, Bool.and_eq_false_imp, beq_iff_eq] at h
    simp only [SFields.kvs, List.mem_cons] at hkv
    rcases hkv with rfl | hkv
    · exact h.1 hkey
    · exact hitsByName_false p name dt r h.2 kv hkv hkey

theorem sfieldsOK_memS (b : Bool) : ∀ fs : SFields, sfieldsOK b fs = true → ∀ kv ∈ SFields.kvs fs, sampleOK b kv.2 = true
  | .nil, _, kv, hkv => by simp [SFields.kvs] at hkv
  | .cons k a v r, h, kv, hkv => by
    rw [sfieldsOK] at h
    simp only [Bool.and_eq_true] at h
    simp only [SFields.kvs, List.mem_cons] at hkv
    rcases hkv with rfl | hkv
    · exact h.1
    · exact sfieldsOK_memS b r h.2 kv hkv

/-- without duplicate keys a field name finds exactly one value or none -/
theorem interpByName_cases (ext : Ext) (name : String) (dt : DataType) (nl : Bool) (md : Metadata) : ∀ fs : SFields,
    SFields.dupKeys fs = false →
    (∀ kv ∈ SFields.kvs fs, kv.1 = name → ∃ lv, interpDT ext dt nl md kv.2 = .ok lv) →
    (SFields.hasKey fs name = true ∧ ∃ lv, interpByName ext name dt nl md fs = .ok [lv]) ∨
    (SFields.hasKey fs name = false ∧ interpByName ext name dt nl md fs = .ok [])
  | .nil, _, _ => .inr ⟨rfl, by rw [interpByName]⟩
  | .cons k a v r, hd, hv => by
    simp only [SFields.dupKeys, Bool.or_eq_false_iff] at hd
    have ih := interpByName_cases ext name dt nl md r hd.2
      (fun kv hkv => hv kv (by simp only [SFields.kvs, List.mem_cons]; exact .inr hkv))
    rw [interpByName]
    by_cases e : k = name
    · subst e
      obtain ⟨lv, hlv⟩ := hv (k, v) (by simp [SFields.kvs]) rfl
      rcases ih with ⟨hh, _⟩ | ⟨_, hr⟩
      · rw [hd.1] at hh; cases hh
      · left
        refine ⟨by simp [SFields.hasKey], lv, ?_⟩
        simp only at hlv
        simp [hr, hlv, bind, Except.bind, pure, Except.pure]
    · have e' : (k == name) = false := by simpa using e
      rcases ih with ⟨hh, lv, hr⟩ | ⟨hh, hr⟩
      · left
        refine ⟨by simp [SFields.hasKey, hh], lv, ?_⟩
        simp [hr, e', bind, Except.bind, pure, Except.pure]
      · right
        refine ⟨by simp [SFields.hasKey, hh, e'], ?_⟩
        simp [hr, e', bind, Except.bind, pure, Except.pure]

theorem PI_record (o : Options) (ext : Ext) (h0 : o.overwrites = []) (n : String) (fs : SFields)
    (ih : ∀ kv ∈ SFields.kvs fs, PI o ext kv.2) : PI o ext (.record n fs) := by
  intro t t' hw h t2 hs f hf hok hex
  obtain ⟨kvs, flds, hk, huv, hdt, hflds⟩ := asStruct_fields o ext h0 (.record n fs) .struct (.ok (SFields.kvs fs)) rfl
    (fun kvs hk => by cases hk; exact ih) hw h hs hf
  cases hk
  simp only [sampleOK, Bool.and_eq_true, Bool.not_eq_true'] at hok
  have key : ∀ flds' : List Field, (∀ g, g ∈ flds' → g ∈ flds) → f.dataType = .struct (Fields.ofList flds') →
      IOk ext f (.record n fs) := by
    intro flds' hsub hdt'
    unfold IOk
    rw [hdt'] at hex huv ⊢
    rw [interpDT, huv]
    simp only [Bool.false_eq_true, if_false, Fields.toList_ofList]
    simp only [hits, Fields.toList_ofList] at hex
    apply structOf_ok'
    intro g hg
    have hex' := List.any_eq_false.mp hex g hg
    simp only [Bool.or_eq_true, Bool.and_eq_true, Bool.not_eq_true', not_or, not_and, Bool.not_eq_true] at hex'
    obtain ⟨hA, hB⟩ := hflds g (hsub g hg)
    rcases interpByName_cases ext g.name g.dataType g.nullable g.metadata fs hok.2
      (fun kv hkv hkey => hA kv hkv hkey (sfieldsOK_memS _ fs hok.1 kv hkv)
        (hitsByName_false _ _ _ fs hex'.1 kv hkv hkey)) with ⟨_, lv, hr⟩ | ⟨hh, hr⟩
    · exact ⟨lv, by rw [hr]; rfl⟩
    · obtain ⟨hn, hi⟩ := hB (SFields.hasKey_false fs g.name hh)
      exact ⟨.null, by rw [hr]; exact pickOne_nil hn (hi (exclAny_none (hex'.2 hh)))⟩
  rcases hdt with hdt | hdt
  · exact key flds (fun g hg => hg) hdt
  · exact key (sortByName flds) (fun g hg => (mem_sortByName' g flds).mp hg) hdt

/-! ### maps traced as structs -/

theorem SEntries.kvs_cons_inv {k v : SVal} {r : SEntries} {kvs : List (String × SVal)}
    (h : SEntries.kvs (.cons k v r) = .ok kvs) :
    ∃ key rest, k = .str key ∧ SEntries.kvs r = .ok rest ∧ kvs = (key, v) :: rest := by
  rw [SEntries.kvs] at h
  obtain ⟨key, h1, h2⟩ := bind_ok'.mp h
  obtain ⟨rest, h3, h4⟩ := bind_ok'.mp h2
  cases h4
  cases k <;> simp only [serializeToString, fail, reduceCtorEq] at h1
  cases h1
  exact ⟨key, rest, rfl, h3, rfl⟩

theorem keyStr_str (key : String) : (keyStr (.str key)).toOption = some key := by
  simp [keyStr, Except.toOption]

theorem keysAreStrings_of_kvs : ∀ (es : SEntries) (kvs : List (String × SVal)), SEntries.kvs es = .ok kvs →
    keysAreStrings es = .ok ()
  | .nil, _, _ => by rw [keysAreStrings]
  | .cons k v r, kvs, h => by
    obtain ⟨key, rest, rfl, hr, rfl⟩ := SEntries.kvs_cons_inv h
    rw [keysAreStrings]
    simp only [specKey_eq, normErr_ok, keyStr, bind, Except.bind]
    exact keysAreStrings_of_kvs r rest hr

theorem SEntries.hasKey_false : ∀ (es : SEntries) (kvs : List (String × SVal)) (name : String),
    SEntries.kvs es = .ok kvs → SEntries.hasKey es name = false → ∀ kv ∈ kvs, kv.1 ≠ name
  | .nil, kvs, _, hk, _, kv, hkv => by
    simp only [SEntries.kvs, Except.ok.injEq] at hk
    subst hk; simp at hkv
  | .cons k v r, kvs, name, hk, h, kv, hkv => by
    obtain ⟨key, rest, rfl, hr, rfl⟩ := SEntries.kvs_cons_inv hk
    simp only [SEntries.hasKey, keyStr_str, Bool.or_eq_false_iff, beq_eq_false_iff_ne, ne_eq, Option.some.injEq] at h
    rcases List.mem_cons.mp hkv with rfl | hkv
    · exact h.1
    · exact SEntries.hasKey_false r rest name hr h.2 kv hkv

theorem hitsByKey_false (p : DataType → SVal → Bool) (name : String) (dt : DataType) : ∀ (es : SEntries)
    (kvs : List (String × SVal)), SEntries.kvs es = .ok kvs →
    hitsByKey p name dt es = false → ∀ kv ∈ kvs, kv.1 = name → hits p dt kv.2 = false
  | .nil, kvs, hk, _, kv, hkv, _ => by
    simp only [SEntries.kvs, Except.ok.injEq] at hk
    subst hk; simp at hkv
  | .cons k v r, kvs, hk, h, kv, hkv, hkey => by
    obtain ⟨key, rest, rfl, hr, rfl⟩ := SEntries.kvs_cons_inv hk
    rw [hitsByKey] at h
    simp only [keyStr_str, Bool.or_eq_false_iff, Bool.and_eq_false_imp, beq_iff_eq, Option.some.injEq] at h
    rcases List.mem_cons.mp hkv with rfl | hkv
    · exact h.1 hkey
    · exact hitsByKey_false p name dt r rest hr h.2 kv hkv hkey

theorem sentriesOK_memS (b : Bool) : ∀ (es : SEntries) (kvs : List (String × SVal)), SEntries.kvs es = .ok kvs →
    sentriesOK b es = true → ∀ kv ∈ kvs, sampleOK b kv.2 = true
  | .nil, kvs, hk, _, kv, hkv => by
    simp only [SEntries.kvs, Except.ok.injEq] at hk
    subst hk; simp at hkv
  | .cons k v r, kvs, hk, h, kv, hkv => by
    obtain ⟨key, rest, rfl, hr, rfl⟩ := SEntries.kvs_cons_inv hk
    rw [sentriesOK] at h
    simp only [Bool.and_eq_true] at h
    rcases List.mem_cons.mp hkv with rfl | hkv
    · exact h.1.2
    · exact sentriesOK_memS b r rest hr h.2 kv hkv

/-- without duplicate keys a field name finds exactly one entry or none -/
theorem interpByKey_cases (ext : Ext) (name : String) (dt : DataType) (nl : Bool) (md : Metadata) : ∀ (es : SEntries)
    (kvs : List (String × SVal)), SEntries.kvs es = .ok kvs → SEntries.dupKeys es = false →
    (∀ kv ∈ kvs, kv.1 = name → ∃ lv, interpDT ext dt nl md kv.2 = .ok lv) →
    (SEntries.hasKey es name = true ∧ ∃ lv, interpByKey ext name dt nl md es = .ok [lv]) ∨
    (SEntries.hasKey es name = false ∧ interpByKey ext name dt nl md es = .ok [])
  | .nil, _, _, _, _ => .inr ⟨rfl, by rw [interpByKey]⟩
  | .cons k v r, kvs, hk, hd, hv => by
    obtain ⟨key, rest, rfl, hr0, rfl⟩ := SEntries.kvs_cons_inv hk
    simp only [SEntries.dupKeys, keyStr_str, Bool.or_eq_false_iff] at hd
    have ih := interpByKey_cases ext name dt nl md r rest hr0 hd.2
      (fun kv hkv => hv kv (List.mem_cons.mpr (.inr hkv)))
    rw [interpByKey, keyOf_eq]
    simp only [keyOf_eq, keyStr_str]
    by_cases e : key = name
    · subst e
      obtain ⟨lv, hlv⟩ := hv (key, v) (by simp) rfl
      rcases ih with ⟨hh, _⟩ | ⟨_, hr⟩
      · rw [hd.1] at hh; cases hh
      · left
        refine ⟨by simp [SEntries.hasKey, keyStr_str], lv, ?_⟩
        simp only at hlv
        simp [hr, hlv, bind, Except.bind, pure, Except.pure]
    · have e' : (some key == some name) = false := by simpa using e
      rcases ih with ⟨hh, lv, hr⟩ | ⟨hh, hr⟩
      · left
        refine ⟨by simp [SEntries.hasKey, hh], lv, ?_⟩
        simp [hr, e', bind, Except.bind, pure, Except.pure]
      · right
        refine ⟨by simp [SEntries.hasKey, hh, keyStr_str, e], ?_⟩
        simp [hr, e', bind, Except.bind, pure, Except.pure]

theorem PI_mapAsStruct (o : Options) (ext : Ext) (h0 : o.overwrites = []) (hm : o.map_as_struct = true) (es : SEntries)
    (ihv : ∀ v ∈ SEntries.vals es, PI o ext v) : PI o ext (.map es) := by
  intro t t' hw h t2 hs f hf hok hex
  obtain ⟨kvs, flds, hk, huv, hdt, hflds⟩ := asStruct_fields o ext h0 (.map es) .map (SEntries.kvs es)
    (by simp [asStruct, hm]) (fun kvs hk kv hkv => ihv _ (SEntries.kvs_vals es kvs hk kv hkv)) hw h hs hf
  simp only [sampleOK, hm, Bool.and_eq_true, Bool.not_true, Bool.false_or, Bool.not_eq_true'] at hok
  have hks := keysAreStrings_of_kvs es kvs hk
  have key : ∀ flds' : List Field, (∀ g, g ∈ flds' → g ∈ flds) → f.dataType = .struct (Fields.ofList flds') →
      IOk ext f (.map es) := by
    intro flds' hsub hdt'
    unfold IOk
    rw [hdt'] at hex huv ⊢
    rw [interpDT, huv]
    simp only [Bool.false_eq_true, if_false, Fields.toList_ofList, hks, bind, Except.bind]
    simp only [hits, Fields.toList_ofList] at hex
    apply structOf_ok'
    intro g hg
    have hex' := List.any_eq_false.mp hex g hg
    simp only [Bool.or_eq_true, Bool.and_eq_true, Bool.not_eq_true', not_or, not_and, Bool.not_eq_true] at hex'
    obtain ⟨hA, hB⟩ := hflds g (hsub g hg)
    rcases interpByKey_cases ext g.name g.dataType g.nullable g.metadata es kvs hk hok.2
      (fun kv hkv hkey => hA kv hkv hkey (by rw [hm]; exact sentriesOK_memS _ es kvs hk hok.1 kv hkv)
        (hitsByKey_false _ _ _ es kvs hk hex'.1 kv hkv hkey)) with ⟨_, lv, hr⟩ | ⟨hh, hr⟩
    · exact ⟨lv, by rw [hr]; rfl⟩
    · obtain ⟨hn, hi⟩ := hB (SEntries.hasKey_false es kvs g.name hk hh)
      exact ⟨.null, by rw [hr]; exact pickOne_nil hn (hi (exclAny_none (hex'.2 hh)))⟩
  rcases hdt with hdt | hdt
  · exact key flds (fun g hg => hg) hdt
  · exact key (sortByName flds) (fun g hg => (mem_sortByName' g flds).mp hg) hdt

end SaModel.Lemmas.C06
