import SaModel.Lemmas.C06InterpBase
import SaModel.Lemmas.C07TStruct2
import SaModel.Lemmas.C19MapM
/-
C06, closure, tracer ⇒ documented mapping, STRUCT family, part A: list-level lemmas.

* field lists under the invariant (`AllInv`: every field tracer satisfies `Inv`; `FWF`: index ↔ name),
* one pass `absorbKVs`: every (key, value) of the sample was absorbed into some invariant tracer whose successor sits
  at `indexOf key` of the resulting field list (`absorbKVs_track`),
* `TFields.to_fields` is a map over the field list, `sortByName` is a permutation (membership),
* `structOf` succeeds as soon as every field has exactly one candidate or takes a null,
* the tracer-side core `asStruct_fields`: for every field `g` of the traced struct type, every value of the sample filed
  under `g.name` maps at `g`, and if the sample has no such value then `g` takes a null.
-/
namespace SaModel.Lemmas.C06
open SaModel SaModel.Spec SaModel.Build SaModel.Trace

/-! ### field lists under the invariant -/

/-- every field tracer satisfies the invariant -/
def AllInv (o : Options) (fs : TFields) : Prop := ∀ i t, fs.get? i = some t → Inv o t

theorem FWF_get : ∀ {o : Options} {s : Nat} {fs : TFields}, C07.FWF o s fs → ∀ i t, fs.get? i = some t → C07.WF o t
  | _, _, .nil, _, i, t, h => by simp [TFields.get?] at h
  | o, s, .cons n l t0 r, hw, 0, t, h => by
    rw [C07.FWF] at hw
    simp only [TFields.get?, Option.some.injEq] at h
    subst h; exact hw.2.2.2.1
  | o, s, .cons n l t0 r, hw, i + 1, t, h => by
    rw [C07.FWF] at hw
    exact FWF_get hw.2.2.2.2 i t h

/-- with `FWF` the tracer at index `j` is found under its own name at index `j` -/
theorem FWF_indexOf_name : ∀ {o : Options} {s : Nat} {fs : TFields}, C07.FWF o s fs → ∀ j c, fs.get? j = some c →
    fs.indexOf c.name = some j
  | _, _, .nil, _, j, c, h => by simp [TFields.get?] at h
  | o, s, .cons n l t0 r, hw, 0, c, h => by
    rw [C07.FWF] at hw
    simp only [TFields.get?, Option.some.injEq] at h
    subst h
    simp [TFields.indexOf, hw.2.2.1]
  | o, s, .cons n l t0 r, hw, j + 1, c, h => by
    rw [C07.FWF] at hw
    have ih := FWF_indexOf_name hw.2.2.2.2 j c h
    simp only [TFields.indexOf]
    by_cases e : n = c.name
    · have := C07.indexOf_none hw.2.1
      rw [e, ih] at this; cases this
    · rw [if_neg e, ih]; rfl

/-- with `FWF` the tracer found under `k` is named `k` -/
theorem FWF_name_of_indexOf : ∀ {o : Options} {s : Nat} {fs : TFields}, C07.FWF o s fs → ∀ k i c,
    fs.indexOf k = some i → fs.get? i = some c → c.name = k
  | _, _, .nil, _, k, i, c, h, _ => by simp [TFields.indexOf] at h
  | o, s, .cons n l t0 r, hw, k, i, c, h, hg => by
    rw [C07.FWF] at hw
    simp only [TFields.indexOf] at h
    by_cases e : n = k
    · rw [if_pos e] at h; cases h
      simp only [TFields.get?, Option.some.injEq] at hg
      subst hg; rw [hw.2.2.1]; exact e
    · rw [if_neg e] at h
      cases hr : r.indexOf k with
      | none => rw [hr] at h; cases h
      | some i' =>
        rw [hr] at h; cases h
        exact FWF_name_of_indexOf hw.2.2.2.2 k i' c hr hg

theorem Inv_struct {o : Options} {n p : String} {nl : Bool} {fs : TFields} {m : StructMode} {s : Nat}
    (h : Inv o (.struct n p nl fs m s)) : C07.FWF o s fs ∧ AllInv o fs := by
  obtain ⟨h1, h2⟩ := h
  rw [C07.WF] at h1
  rw [TN] at h2
  exact ⟨h1, fun i t hg => ⟨FWF_get h1 i t hg, (TNF_iff fs).mp h2 i t hg⟩⟩

theorem ensure_field_allinv (o : Options) (path : String) (s : Nat) {fs : TFields} (k : String) (h : AllInv o fs) :
    AllInv o (ensure_field path s fs k).2 := by
  cases hi : fs.indexOf k with
  | some i =>
    rw [ensure_field_found hi]
    intro j t hg
    rw [TFields.get?_setLastSeen] at hg
    exact h j t hg
  | none =>
    rw [ensure_field_new hi]
    intro j t hg
    simp only at hg
    have hlt := TFields.get?_lt hg
    rw [TFields.length_push] at hlt
    by_cases e : j < fs.length
    · rw [TFields.get?_push_lt _ _ _ _ _ e] at hg; exact h j t hg
    · have : j = fs.length := by omega
      subst this
      rw [TFields.get?_push_len] at hg; cases hg
      split
      · exact Inv_mark (Inv_new o _ _)
      · exact Inv_new o _ _

theorem set_allinv (o : Options) {fs : TFields} (i : Nat) {x : Tracer} (h : AllInv o fs) (hx : Inv o x) :
    AllInv o (fs.set i x) := by
  intro j t hg
  by_cases e : i = j
  · subst e
    have hlt := TFields.get?_lt hg
    rw [TFields.length_set] at hlt
    rw [TFields.get?_set_eq fs i x hlt] at hg; cases hg; exact hx
  · rw [TFields.get?_set_ne _ _ _ _ e] at hg; exact h j t hg

/-- one pass: every (key, value) of the sample went into an invariant tracer `a`, giving `b`, and the field found under
the key at the end of the pass is reachable from `b` -/
theorem absorbKVs_track (o : Options) (path : String) (s : Nat) : ∀ (kvs : List (String × SVal)) (fsA fsB : TFields),
    AllInv o fsA → absorbKVs .fixed o path s fsA kvs = .ok fsB →
    ∀ kv ∈ kvs, ∃ i a b b', Inv o a ∧ absorb .fixed o a kv.2 = .ok b ∧ fsB.indexOf kv.1 = some i ∧
      fsB.get? i = some b' ∧ Steps .fixed o b b'
  | [], _, _, _, _, kv, hkv => by simp at hkv
  | kv0 :: kvs, fsA, fsB, hA, h, kv, hkv => by
    simp only [absorbKVs] at h
    have hA' := ensure_field_allinv o path s kv0.1 hA
    cases hg : (ensure_field path s fsA kv0.1).2.get? (ensure_field path s fsA kv0.1).1 with
    | none => rw [hg] at h; cases h
    | some ft =>
      rw [hg] at h; simp only at h
      cases ha : absorb .fixed o ft kv0.2 with
      | error e => rw [ha] at h; cases h
      | ok ft' =>
        rw [ha] at h; simp only at h
        have hft : Inv o ft := hA' _ _ hg
        have hft' : Inv o ft' := absorb_inv o hft ha
        rcases List.mem_cons.mp hkv with rfl | hkv
        · have hmidB := (absorbKVs_ext .fixed o path s kvs _ fsB h).1
          have hidx : ((ensure_field path s fsA kv.1).2.set (ensure_field path s fsA kv.1).1 ft').indexOf kv.1 =
              some (ensure_field path s fsA kv.1).1 := by
            rw [TFields.indexOf_set]; exact ensure_field_indexOf path s fsA kv.1
          have hmid : ((ensure_field path s fsA kv.1).2.set (ensure_field path s fsA kv.1).1 ft').get?
              (ensure_field path s fsA kv.1).1 = some ft' :=
            TFields.get?_set_eq _ _ ft' (TFields.get?_lt hg)
          obtain ⟨b', hb', hsb⟩ := hmidB.1 _ ft' hmid
          exact ⟨_, ft, ft', b', hft, ha, hmidB.2 _ _ hidx, hb', hsb⟩
        · exact absorbKVs_track o path s kvs _ fsB (set_allinv o _ hA' hft') h kv hkv

/-! ### `to_fields`, `sortByName`, `structOf` -/

theorem to_fields_mem (o : Options) : ∀ (fs : TFields) (flds : List Field), fs.to_fields o = .ok flds →
    ∀ g ∈ flds, ∃ j c, fs.get? j = some c ∧ c.to_field o = .ok g
  | .nil, flds, h, g, hg => by
    simp only [TFields.to_fields, Except.ok.injEq] at h
    subst h; simp at hg
  | .cons n l t r, flds, h, g, hg => by
    rw [TFields.to_fields] at h
    obtain ⟨f0, h1, h2⟩ := bind_ok'.mp h
    obtain ⟨rest, h3, h4⟩ := bind_ok'.mp h2
    cases h4
    rcases List.mem_cons.mp hg with rfl | hg
    · exact ⟨0, t, rfl, h1⟩
    · obtain ⟨j, c, hj, hc⟩ := to_fields_mem o r rest h3 g hg
      exact ⟨j + 1, c, hj, hc⟩

theorem mem_insertByName' (f g : Field) : ∀ l : List Field, g ∈ insertByName f l ↔ g = f ∨ g ∈ l
  | [] => by simp [insertByName]
  | x :: r => by
    simp only [insertByName]
    split
    · simp
    · simp only [List.mem_cons, mem_insertByName' f g r]
      constructor
      · rintro (h | h | h)
        · exact .inr (.inl h)
        · exact .inl h
        · exact .inr (.inr h)
      · rintro (h | h | h)
        · exact .inr (.inl h)
        · exact .inl h
        · exact .inr (.inr h)

theorem mem_foldl_insertByName' (g : Field) : ∀ (l acc : List Field),
    g ∈ l.foldl (fun acc f => insertByName f acc) acc ↔ g ∈ acc ∨ g ∈ l
  | [], acc => by simp
  | x :: r, acc => by
    simp only [List.foldl_cons, mem_foldl_insertByName' g r, mem_insertByName', List.mem_cons]
    constructor
    · rintro ((h | h) | h)
      · exact .inr (.inl h)
      · exact .inl h
      · exact .inr (.inr h)
    · rintro (h | h | h)
      · exact .inl (.inr h)
      · exact .inl (.inl h)
      · exact .inr h

theorem mem_sortByName' (g : Field) (l : List Field) : g ∈ sortByName l ↔ g ∈ l := by
  unfold sortByName
  rw [mem_foldl_insertByName']
  simp

/-- `structOf` is defined as soon as every field gets its value -/
theorem structOf_ok' (l : List Field) (collect : Field → R (List LVal))
    (h : ∀ g ∈ l, ∃ v, (collect g >>= pickOne g.name g.nullable g.dataType g.metadata) = .ok v) :
    ∃ lv, structOf l collect = .ok lv := by
  unfold structOf
  obtain ⟨vals, hv⟩ := C19.mapM_total (fun f => do
      let found ← collect f
      let v ← pickOne f.name f.nullable f.dataType f.metadata found
      pure (f.name, v)) l (by
    intro g hg
    obtain ⟨v, hv⟩ := h g hg
    obtain ⟨found, h1, h2⟩ := bind_ok'.mp hv
    exact ⟨(g.name, v), by simp only [h1, h2, bind, Except.bind, pure, Except.pure]⟩)
  exact ⟨_, by rw [hv]; rfl⟩

/-- a nullable tracer gives a nullable field -/
theorem to_field_nullable' {o : Options} (h0 : o.overwrites = []) {t : Tracer} {f : Field} (h : t.to_field o = .ok f)
    (hn : t.nullable = true) : f.nullable = true := by
  cases t with
  | unknown n p nl => rw [to_field_unknown_inv h0 h]; rfl
  | primitive n p nl ty st =>
    rcases to_field_primitive_inv h0 h with ⟨_, rfl⟩ | ⟨_, _, ⟨_, rfl⟩ | ⟨_, rfl⟩⟩ | ⟨_, _, rfl⟩
    · rfl
    · exact hn
    · exact hn
    · exact hn
  | list n p nl i => obtain ⟨item, _, rfl⟩ := to_field_list_inv h0 h; exact hn
  | map n p nl k v => obtain ⟨kf, vf, _, _, rfl⟩ := to_field_map_inv h0 h; exact hn
  | struct n p nl fs m s =>
    obtain ⟨fields, _, ⟨_, rfl⟩ | ⟨_, rfl⟩⟩ := to_field_struct_inv h0 h
    · exact hn
    · exact hn
  | tuple n p nl ts => obtain ⟨fields, _, rfl⟩ := to_field_tuple_inv h0 h; exact hn
  | union n p nl vs =>
    rcases to_field_union_inv h0 h with ⟨_, _, rfl⟩ | ⟨fields, _, rfl, _⟩
    · exact hn
    · exact hn

end SaModel.Lemmas.C06

