import SaModel.Lemmas.C06InterpBase
import SaModel.Lemmas.C06InterpTupleA
/-
C06, closure, tracer ⇒ documented mapping: tuples and tuple structs.

`tupleBody_ok`: the positional record mapping (`structOf … interpNth …`) at the fields `Tracers.to_fields` builds from a
tuple node whose positions are named after their index is defined as soon as the mapping of every item is defined at
its position and every position beyond the sample is nullable and not a Union.  `PI_tuple`, `PI_tupleStruct`.
-/
namespace SaModel.Lemmas.C06
open SaModel SaModel.Spec SaModel.Build SaModel.Trace

/-- the fields of a tuple node: same length, `flds[i]` is `to_field` of position `i` and is called `toString i` -/
theorem tuple_fields_names {o : Options} (h0 : o.overwrites = []) {ts : Tracers} {flds : List Field}
    (hf : ts.to_fields o = .ok flds) (hn : TNT 0 ts) :
    ∀ i (h : i < (flds.map Field.name).length), (flds.map Field.name)[i] = toString i := by
  intro i h
  obtain ⟨hl, hg⟩ := to_fields_get ts flds hf
  rw [List.length_map] at h
  obtain ⟨c, hc⟩ := Tracers.get?_of_lt (show i < ts.length by omega)
  obtain ⟨g, hg1, hg2⟩ := hg i c hc
  have hgi : flds[i] = g := by
    have := List.getElem?_eq_getElem h
    rw [hg1] at this; exact (Option.some.inj this).symm
  rw [List.getElem_map, hgi, (to_field_facts h0 hg2).1]
  exact ((TNT_iff ts).mp hn i c hc).1

/-- the body of a positional record at the fields of a tuple node -/
theorem tupleBody_ok {o : Options} {ext : Ext} (h0 : o.overwrites = []) {ts : Tracers} {flds : List Field}
    (items : SVals) (hf : ts.to_fields o = .ok flds) (hn : TNT 0 ts)
    (hlt : ∀ i c v, ts.get? i = some c → items.toList[i]? = some v → ∀ g, c.to_field o = .ok g →
      hits (exclAny ext) g.dataType v = false → IOk ext g v)
    (hge : ∀ i c, ts.get? i = some c → items.length ≤ i → c.nullable = true)
    (hex : (flds.any fun f =>
      hitsNth (exclAny ext) f.dataType ((indexOfName (flds.map Field.name) f.name).getD 0) items) = false) :
    ∃ lv, structOf flds (fun g => interpNth ext g.dataType g.nullable g.metadata
      ((indexOfName (flds.map Field.name) g.name).getD 0) items) = .ok lv := by
  apply structOf_ok
  intro g hgm
  obtain ⟨hl, hget⟩ := to_fields_get ts flds hf
  have hnames := tuple_fields_names h0 hf hn
  obtain ⟨i, hi, hgi⟩ := List.getElem_of_mem hgm
  obtain ⟨c, hc⟩ := Tracers.get?_of_lt (show i < ts.length by omega)
  obtain ⟨g', hg1, hg2⟩ := hget i c hc
  have hgg : g' = g := by
    have := List.getElem?_eq_getElem hi
    rw [hg1, hgi] at this; exact Option.some.inj this
  subst hgg
  have hname : g'.name = toString i := by
    have := hnames i (by rw [List.length_map]; exact hi)
    rw [List.getElem_map, hgi] at this; exact this
  have hidx : (indexOfName (flds.map Field.name) g'.name).getD 0 = i := by
    rw [hname, indexOfName_toString _ hnames i (by rw [List.length_map]; exact hi)]; rfl
  have hexg := List.any_eq_false.mp hex g' hgm
  simp only [Bool.not_eq_true] at hexg
  rw [hidx] at hexg ⊢
  cases hv : items.toList[i]? with
  | some v =>
    rw [hitsNth_some _ _ items i v hv] at hexg
    obtain ⟨lv, hlv⟩ := hlt i c v hc hv g' hg2 hexg
    refine ⟨[lv], lv, ?_, rfl⟩
    rw [interpNth_some ext _ _ _ items i v hv, hlv]; rfl
  | none =>
    have hle : items.length ≤ i := by
      have := List.getElem?_eq_none_iff.mp hv
      rw [SVals.length_toList] at this; exact this
    rw [hitsNth_none _ _ items i hle] at hexg
    have hcn := hge i c hc hle
    have hgn := to_field_nullable h0 hg2 hcn
    have hu : isUnionDT g'.dataType = false := by
      simpa [exclAny, nullAtEnum, dateLookalike, u64AboveI64, dataLessNewtype] using hexg
    refine ⟨[], .null, interpNth_none ext _ _ _ items i hle, ?_⟩
    simp only [pickOne, hgn, Bool.not_true, Bool.false_eq_true, if_false]
    have := interpNull_of_nullable h0 hg2 hcn hu
    rw [hgn] at this; exact this

theorem PI_tuple (o : Options) (ext : Ext) (h0 : o.overwrites = []) (items : SVals)
    (ih : ∀ v ∈ items.toList, PI o ext v) : PI o ext (.tuple items) := by
  intro t t' hw h t2 hs f hf hok hex
  have hinv' := absorb_inv o hw h
  have hw' := hinv'.wf
  have hinv2 := steps_inv hinv' hs
  obtain ⟨n, p, nl, tsA, tsB, h1, h2, rfl⟩ := (absorb_tuple_ok .fixed o t t' items).mp h
  obtain ⟨hd, tsA', he, _, hnulA, _⟩ := ensure_tuple_ok o .fixed h1
  cases he
  obtain ⟨nl2, tsC, rfl, hext, hnew⟩ := steps_extShape hw' hs
  have hc : Code.fixed.tuple_arity_nullable = true := rfl
  have hlenA := ensure_tuple_len o hc h1
  obtain ⟨hAB, hlenAB, _⟩ := absorbTupleL_ext .fixed o _ items.toList tsA 0 tsB h2
  rw [SVals.length_toList] at hlenAB
  have hlenB : tsB.length = tsA.length := hlenAB (by omega)
  have hmaps := absorbTupleL_maps o ext t.path items.toList ih tsA 0 tsB
    (fun j a hj => ensure_tuple_inv_get hw h1 hj) (by rw [SVals.length_toList]; omega) h2
  have htn : TNT 0 tsC := by have := hinv2.2; simpa only [TN] using this
  obtain ⟨flds, hflds, rfl⟩ := to_field_tuple_inv h0 hf
  simp only [sampleOK] at hok
  simp only [Field.dataType, hits, Fields.toList_ofList] at hex
  have := tupleBody_ok (ext := ext) h0 items hflds htn ?_ ?_ hex
  · obtain ⟨lv, hlv⟩ := this
    refine ⟨lv, ?_⟩
    simp only [Field.dataType, Field.nullable, Field.metadata]
    rw [interpDT]
    simp only [isUnknownVariant, Bool.false_eq_true, if_false, Fields.toList_ofList]
    exact hlv
  · intro i c v hci hv g hg hexv
    have hi : i < items.length := by
      have := (List.getElem?_eq_some_iff.mp hv).1
      rw [SVals.length_toList] at this; exact this
    obtain ⟨b, hb⟩ := Tracers.get?_of_lt (show i < tsB.length by omega)
    obtain ⟨c', hc', hsc⟩ := hext i b hb
    rw [hci] at hc'; cases hc'
    have hm : Maps o ext b v := hmaps i v hv b (by rw [Nat.zero_add]; exact hb)
    exact hm c hsc g hg (samplesOK_memT _ items v hok (List.mem_of_getElem? hv)) hexv
  · intro i x hg hki
    cases hb : tsB.get? i with
    | none => exact hnew hc i x hg hb
    | some b =>
      obtain ⟨x', hg', hs'⟩ := hext i b hb
      rw [hg] at hg'; cases hg'
      apply hs'.keeps.1
      obtain ⟨a, ha⟩ := Tracers.get?_of_lt (show i < tsA.length by have := Tracers.get?_lt hb; omega)
      obtain ⟨b', hb', hsb⟩ := hAB i a ha
      rw [hb] at hb'; cases hb'
      exact hsb.keeps.1 (hnulA hc i a ha hki)

theorem PI_tupleStruct (o : Options) (ext : Ext) (h0 : o.overwrites = []) (n : String) (items : SVals)
    (ih : ∀ v ∈ items.toList, PI o ext v) : PI o ext (.tupleStruct n items) := by
  intro t t' hw h t2 hs f hf hok hex
  rw [absorb_tupleStruct] at h
  obtain ⟨lv, hlv⟩ := PI_tuple o ext h0 items ih t t' hw h t2 hs f hf
    (by simpa only [sampleOK] using hok) (by simpa only [hits] using hex)
  exact ⟨lv, by simp only [interpDT] at hlv ⊢; exact hlv⟩

end SaModel.Lemmas.C06
