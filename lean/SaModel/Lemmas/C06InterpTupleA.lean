import SaModel.Lemmas.C06InterpBase
/-
C06, closure, tracer ⇒ documented mapping, tuples — helpers: `ensure_tuple` keeps the invariant `Inv` position by
position, the pass `absorbTupleL` position by position (`absorbTupleL_maps`), `Tracers.to_fields` as a map over the
list, `structOf` succeeds as soon as every field succeeds, `interpNth` / `hitsNth` by position.
-/
namespace SaModel.Lemmas.C06
open SaModel SaModel.Spec SaModel.Build SaModel.Trace

/-! ### the positions `ensure_tuple` hands to the element loop satisfy the invariant -/

theorem ensure_tuple_wf7 {o : Options} {t : Tracer} {k : Nat} {n p : String} {nl : Bool} {ts : Tracers}
    (hw : C07.WF o t) (h : t.ensure_tuple .fixed k = .ok (.tuple n p nl ts)) : C07.TsWF o ts := by
  obtain ⟨s, ts0, h0, rfl, hwts, _, _⟩ := C07.ensure_tuple_facts hw h
  apply C07.TsWF_of_get
  intro j
  rw [(C07.tupleEns_get h0).2 j]
  split
  · intro t' ht; cases ht; exact C07.curT_wf (C07.TsWF_get hwts j)
  · intro t' ht
    cases hg : ts0.get? j with
    | none => rw [hg] at ht; cases ht
    | some a => rw [hg] at ht; cases ht; exact C07.WF_mark (C07.TsWF_get hwts j a hg)

theorem Inv_tuple_get {o : Options} {n p : String} {nl : Bool} {ts : Tracers} (h : Inv o (.tuple n p nl ts))
    {i : Nat} {a : Tracer} (hg : ts.get? i = some a) : Inv o a := by
  obtain ⟨h1, h2⟩ := h
  simp only [C07.WF] at h1
  simp only [TN] at h2
  exact ⟨C07.TsWF_get h1 i a hg, ((TNT_iff ts).mp h2 i a hg).2⟩

theorem ensure_tuple_inv_get {o : Options} {t : Tracer} {k : Nat} {n p : String} {nl : Bool} {ts : Tracers}
    (hw : Inv o t) (h : t.ensure_tuple .fixed k = .ok (.tuple n p nl ts)) {i : Nat} {a : Tracer}
    (hg : ts.get? i = some a) : Inv o a :=
  Inv_tuple_get (o := o) (n := n) (p := p) (nl := nl)
    ⟨by simp only [C07.WF]; exact ensure_tuple_wf7 hw.1 h, ensure_tuple_tn hw.2 h⟩ hg

/-! ### the pass over the positions of a tuple sample -/

/-- the `i`-th item of the sample went into position `pos + i`; from what the pass leaves there the mapping of the item
stays defined -/
theorem absorbTupleL_maps (o : Options) (ext : Ext) (path : String) : ∀ vs : List SVal, (∀ v ∈ vs, PI o ext v) →
    ∀ tsA pos tsB, (∀ j a, tsA.get? j = some a → Inv o a) → pos + vs.length ≤ tsA.length →
    absorbTupleL .fixed o path tsA pos vs = .ok tsB →
    ∀ i v, vs[i]? = some v → ∀ b, tsB.get? (pos + i) = some b → Maps o ext b v
  | [], _, _, _, _, _, _, _, i, v, hv, _, _ => by simp at hv
  | x :: vs, hp, tsA, pos, tsB, hinv, hle, h, i, v, hv, b, hb => by
    simp only [List.length_cons] at hle
    simp only [absorbTupleL] at h
    rw [field_tracer_grow_of_lt path pos tsA (by omega)] at h
    cases hg : tsA.get? pos with
    | none => rw [hg] at h; cases h
    | some ft =>
      rw [hg] at h; simp only at h
      cases ha : absorb .fixed o ft x with
      | error e => rw [ha] at h; cases h
      | ok ft' =>
        rw [ha] at h; simp only at h
        have hft : Inv o ft := hinv pos ft hg
        cases i with
        | zero =>
          simp only [List.getElem?_cons_zero, Option.some.injEq] at hv
          subst hv
          obtain ⟨hmidB, _, _⟩ := absorbTupleL_ext .fixed o path vs _ (pos + 1) tsB h
          obtain ⟨b', hb', hsb⟩ := hmidB pos ft' (Tracers.get?_set_eq _ pos ft' (Tracers.get?_lt hg))
          rw [Nat.add_zero, hb'] at hb; cases hb
          exact (hp x (by simp) ft ft' hft ha).steps hsb
        | succ i =>
          simp only [List.getElem?_cons_succ] at hv
          refine absorbTupleL_maps o ext path vs (fun y hy => hp y (by simp [hy])) (tsA.set pos ft') (pos + 1) tsB
            ?_ (by rw [Tracers.length_set]; omega) h i v hv b (by rw [show pos + 1 + i = pos + (i + 1) by omega]; exact hb)
          intro j a hj
          by_cases e : pos = j
          · subst e
            rw [Tracers.get?_set_eq _ _ _ (Tracers.get?_lt hg)] at hj; cases hj
            exact absorb_inv o hft ha
          · rw [Tracers.get?_set_ne _ _ _ _ e] at hj; exact hinv j a hj

/-! ### `Tracers.to_fields` is a map over the list -/

theorem to_fields_get {o : Options} : ∀ (ts : Tracers) (flds : List Field), ts.to_fields o = .ok flds →
    flds.length = ts.length ∧ ∀ i t, ts.get? i = some t → ∃ g, flds[i]? = some g ∧ t.to_field o = .ok g
  | .nil, flds, h => by
    rw [Tracers.to_fields] at h; cases h
    exact ⟨rfl, fun i t hi => by simp [Tracers.get?] at hi⟩
  | .cons t r, flds, h => by
    rw [Tracers.to_fields] at h
    obtain ⟨f, h1, h2⟩ := bind_ok'.mp h
    obtain ⟨fs, h3, h4⟩ := bind_ok'.mp h2
    cases h4
    obtain ⟨hl, hg⟩ := to_fields_get r fs h3
    refine ⟨by simp [Tracers.length, hl], ?_⟩
    intro i t' hi
    cases i with
    | zero => simp only [Tracers.get?, Option.some.injEq] at hi; subst hi; exact ⟨f, rfl, h1⟩
    | succ i => simp only [Tracers.get?] at hi; simpa using hg i t' hi

/-- a nullable tracer gives a nullable field (no overwrites) -/
theorem to_field_nullable {o : Options} (h0 : o.overwrites = []) {t : Tracer} {g : Field} (h : t.to_field o = .ok g)
    (hn : t.nullable = true) : g.nullable = true := by
  cases t with
  | unknown n p nl => rw [to_field_unknown_inv h0 h]; rfl
  | primitive n p nl ty st =>
    rcases to_field_primitive_inv h0 h with ⟨_, rfl⟩ | ⟨_, _, ⟨_, rfl⟩ | ⟨_, rfl⟩⟩ | ⟨_, _, rfl⟩
    · rfl
    · exact hn
    · exact hn
    · exact hn
  | list n p nl i => obtain ⟨item, _, rfl⟩ := to_field_list_inv h0 h; exact hn
  | map n p nl k v => obtain ⟨kf, vf, _, _, rfl⟩ := to_field_map_inv h0 h; exact hn
  | struct n p nl fs m s =>
    obtain ⟨fields, _, ⟨_, rfl⟩ | ⟨_, rfl⟩⟩ := to_field_struct_inv h0 h
    · exact hn
    · exact hn
  | tuple n p nl ts => obtain ⟨fields, _, rfl⟩ := to_field_tuple_inv h0 h; exact hn
  | union n p nl vs =>
    rcases to_field_union_inv h0 h with ⟨_, _, rfl⟩ | ⟨fields, _, rfl, _⟩
    · exact hn
    · exact hn

/-! ### `structOf` -/

theorem mapM_ok {α β} (f : α → R β) : ∀ l : List α, (∀ a ∈ l, ∃ b, f a = .ok b) → ∃ bs, l.mapM f = .ok bs
  | [], _ => ⟨[], rfl⟩
  | a :: l, h => by
    obtain ⟨b, hb⟩ := h a (by simp)
    obtain ⟨bs, hbs⟩ := mapM_ok f l (fun x hx => h x (by simp [hx]))
    exact ⟨b :: bs, by rw [List.mapM_cons, hb, hbs]; rfl⟩

/-- a struct value is defined as soon as every field finds exactly one value (or none, and takes a null) -/
theorem structOf_ok (l : List Field) (collect : Field → R (List LVal))
    (h : ∀ g ∈ l, ∃ found v, collect g = .ok found ∧
      pickOne g.name g.nullable g.dataType g.metadata found = .ok v) : ∃ lv, structOf l collect = .ok lv := by
  unfold structOf
  obtain ⟨vals, hv⟩ := mapM_ok (fun f => do
      let found ← collect f
      let v ← pickOne f.name f.nullable f.dataType f.metadata found
      pure (f.name, v)) l (fun g hg => by
    obtain ⟨found, v, h1, h2⟩ := h g hg
    exact ⟨(g.name, v), bind_ok'.mpr ⟨found, h1, bind_ok'.mpr ⟨v, h2, rfl⟩⟩⟩)
  exact ⟨_, bind_ok'.mpr ⟨vals, hv, rfl⟩⟩

/-! ### positions of a sample list -/

theorem interpNth_some (ext : Ext) (dt : DataType) (nl : Bool) (md : Metadata) : ∀ (xs : SVals) (i : Nat) (v : SVal),
    xs.toList[i]? = some v → interpNth ext dt nl md i xs = (do pure [← interpDT ext dt nl md v])
  | .nil, i, v, h => by simp [SVals.toList] at h
  | .cons x r, 0, v, h => by
    simp only [SVals.toList, List.getElem?_cons_zero, Option.some.injEq] at h; subst h
    rw [interpNth]
  | .cons x r, i + 1, v, h => by
    simp only [SVals.toList, List.getElem?_cons_succ] at h
    rw [interpNth]; exact interpNth_some ext dt nl md r i v h

theorem interpNth_none (ext : Ext) (dt : DataType) (nl : Bool) (md : Metadata) : ∀ (xs : SVals) (i : Nat),
    xs.length ≤ i → interpNth ext dt nl md i xs = .ok []
  | .nil, i, _ => by rw [interpNth]
  | .cons x r, 0, h => by simp [SVals.length] at h
  | .cons x r, i + 1, h => by
    simp only [SVals.length] at h
    rw [interpNth]; exact interpNth_none ext dt nl md r i (by omega)

theorem hitsNth_some (p : DataType → SVal → Bool) (dt : DataType) : ∀ (xs : SVals) (i : Nat) (v : SVal),
    xs.toList[i]? = some v → hitsNth p dt i xs = hits p dt v
  | .nil, i, v, h => by simp [SVals.toList] at h
  | .cons x r, 0, v, h => by
    simp only [SVals.toList, List.getElem?_cons_zero, Option.some.injEq] at h; subst h
    rw [hitsNth]
  | .cons x r, i + 1, v, h => by
    simp only [SVals.toList, List.getElem?_cons_succ] at h
    rw [hitsNth]; exact hitsNth_some p dt r i v h

theorem hitsNth_none (p : DataType → SVal → Bool) (dt : DataType) : ∀ (xs : SVals) (i : Nat),
    xs.length ≤ i → hitsNth p dt i xs = p dt .none
  | .nil, i, _ => by rw [hitsNth]
  | .cons x r, 0, h => by simp [SVals.length] at h
  | .cons x r, i + 1, h => by
    simp only [SVals.length] at h
    rw [hitsNth]; exact hitsNth_none p dt r i (by omega)

theorem samplesOK_memT (a : Bool) : ∀ (xs : SVals) (v : SVal), samplesOK a xs = true → v ∈ xs.toList →
    sampleOK a v = true
  | .nil, v, _, h => by simp [SVals.toList] at h
  | .cons x r, v, hok, h => by
    simp only [samplesOK, Bool.and_eq_true] at hok
    simp only [SVals.toList, List.mem_cons] at h
    rcases h with rfl | h
    · exact hok.1
    · exact samplesOK_memT a r v hok.2 h

end SaModel.Lemmas.C06
