import SaModel.Lemmas.C06InterpBase
/-
C06, closure, tracer ⇒ documented mapping: the four enum variant kinds.
-/
namespace SaModel.Lemmas.C06
open SaModel SaModel.Spec SaModel.Build SaModel.Trace

/-! ### tracer side -/

theorem Inv_variant {o : Options} {n p : String} {nl : Bool} {vs : Variants} (h : Inv o (.union n p nl vs))
    {i : Nat} {nm : String} {t : Tracer} (hg : vs.get? i = some (some (nm, t))) : Inv o t := by
  obtain ⟨h1, h2⟩ := h
  simp only [C07.WF] at h1
  simp only [TN] at h2
  exact ⟨C07.VWF_get h1 i nm t hg, (TNV_iff vs).mp h2 i nm t hg⟩

theorem ensure_union_Inv {o : Options} {t t1 : Tracer} (hw : Inv o t) (h : t.ensure_union [] = .ok t1) : Inv o t1 := by
  obtain ⟨_, ⟨_, rfl⟩ | ⟨n, p, nl, vs, rfl, rfl⟩⟩ := C07.ensure_union_inv h
  · exact ⟨by simp [C07.WF, C07.VWF], by simp [TN, TNV]⟩
  · exact hw

/-- the common decomposition: the variant tracer the payload went into, and the later variant tracer -/
theorem variant_decomp {o : Options} {t t' t2 : Tracer} {nm : String} {idx : Nat} {vn : String} {v : SVal}
    (hw : Inv o t) (h : absorb .fixed o t (.newtypeVariant nm idx vn v) = .ok t') (hs : Steps .fixed o t' t2) :
    ∃ vt vt' n p nl2 vs2 c2, Inv o vt ∧ absorb .fixed o vt v = .ok vt' ∧ t2 = .union n p nl2 vs2 ∧
      vs2.get? idx = some (some (vn, c2)) ∧ Steps .fixed o vt' c2 := by
  have hw' := (absorb_inv o hw h).wf
  obtain ⟨n, p, nl, vs0, vs, nm', vt, vt', h1, h2, h3, h4, rfl⟩ :=
    (absorb_newtypeVariant_ok .fixed o t t' nm idx vn v).mp h
  have hi1 := ensure_union_Inv hw h1
  obtain ⟨hlim, ⟨vt0, hvt0⟩, _, hnewv, _⟩ := ensure_variant_ok h2
  rw [h3] at hvt0
  simp only [Option.some.injEq, Prod.mk.injEq] at hvt0
  obtain ⟨rfl, rfl⟩ := hvt0
  have hwvt : Inv o vt := by
    rcases hnewv idx nm' vt h3 with hh | hh
    · exact Inv_variant hi1 hh
    · rw [hh]; exact Inv_new o _ _
  obtain ⟨nl2, vs2, rfl, hext⟩ := steps_extShape hw' hs
  obtain ⟨c2, hc2, hsc2⟩ := hext idx nm' vt' (Variants.get?_set_eq _ _ _ _ (Variants.get?_lt h3))
  exact ⟨vt, vt', _, _, nl2, vs2, c2, hwvt, h4, rfl, hc2, hsc2⟩

/-! ### field side -/

theorem variants_to_fields_get {o : Options} : ∀ (vs : Variants) (k : Nat) (fields : List (Int × Field)) (i : Nat)
    (nm : String) (c : Tracer), vs.to_fields o k = .ok fields → vs.get? i = some (some (nm, c)) →
    ∃ g, fields[i]? = some (Int.ofNat (k + i), g) ∧ c.to_field o = .ok g
  | .nil, _, _, _, _, _, _, hg => by simp [Variants.get?] at hg
  | .absent r, k, fields, i, nm, c, h, hg => by
    rw [Variants.to_fields] at h
    by_cases hk : k > 127
    · rw [if_pos hk] at h; simp [fail, bind, Except.bind] at h
    rw [if_neg hk] at h
    simp only at h
    obtain ⟨fs, h1, h2⟩ := bind_ok'.mp h
    cases h2
    cases i with
    | zero => simp [Variants.get?] at hg
    | succ i =>
      simp only [Variants.get?] at hg
      obtain ⟨g, hg1, hg2⟩ := variants_to_fields_get r (k + 1) fs i nm c h1 hg
      refine ⟨g, ?_, hg2⟩
      simp only [List.getElem?_cons_succ, hg1]
      congr 3; omega
  | .present n t r, k, fields, i, nm, c, h, hg => by
    rw [Variants.to_fields] at h
    by_cases hk : k > 127
    · rw [if_pos hk] at h; simp [fail, bind, Except.bind] at h
    rw [if_neg hk] at h
    simp only at h
    obtain ⟨f, hf, h⟩ := bind_ok'.mp h
    obtain ⟨fs, h1, h2⟩ := bind_ok'.mp h
    cases h2
    cases i with
    | zero =>
      simp only [Variants.get?, Option.some.injEq, Prod.mk.injEq] at hg
      obtain ⟨_, rfl⟩ := hg
      exact ⟨f, by simp, hf⟩
    | succ i =>
      simp only [Variants.get?] at hg
      obtain ⟨g, hg1, hg2⟩ := variants_to_fields_get r (k + 1) fs i nm c h1 hg
      refine ⟨g, ?_, hg2⟩
      simp only [List.getElem?_cons_succ, hg1]
      congr 3; omega

/-! ### the mapping and the exclusion walk at a Union field -/

theorem interpDT_union_newtype (ext : Ext) {fields : List (Int × Field)} {m : UnionMode} {nl : Bool} {md : Metadata}
    {nm : String} {idx : Nat} {vn : String} {v : SVal} {tid : Int} {gn : String} {cdt : DataType} {cn : Bool}
    {cmd : Metadata} (hg : fields[idx]? = some (tid, .mk gn cdt cn cmd)) :
    interpDT ext (.union (UFields.ofList fields) m) nl md (.newtypeVariant nm idx vn v) =
      (do pure (.union tid (← interpDT ext cdt cn cmd v))) := by
  rw [interpDT]
  simp only [UFields.toList_ofList, hg]

theorem hits_union_newtype (p : DataType → SVal → Bool) {fields : List (Int × Field)} {m : UnionMode}
    {nm : String} {idx : Nat} {vn : String} {v : SVal} {tid : Int} {gn : String} {cdt : DataType} {cn : Bool}
    {cmd : Metadata} (hg : fields[idx]? = some (tid, .mk gn cdt cn cmd)) :
    hits p (.union (UFields.ofList fields) m) (.newtypeVariant nm idx vn v) = hits p cdt v := by
  rw [hits]
  simp only [UFields.toList_ofList, hg]

theorem interpDT_union_unit (ext : Ext) {fields : List (Int × Field)} {m : UnionMode} {nl : Bool} {md : Metadata}
    {nm : String} {idx : Nat} {vn : String} {tid : Int} {gn : String} {cdt : DataType} {cn : Bool}
    {cmd : Metadata} (hg : fields[idx]? = some (tid, .mk gn cdt cn cmd)) :
    interpDT ext (.union (UFields.ofList fields) m) nl md (.unitVariant nm idx vn) =
      (do pure (.union tid (← interpNull cdt cn cmd))) := by
  rw [interpDT]
  simp only [UFields.toList_ofList, hg]

theorem hits_union_unit (p : DataType → SVal → Bool) {fields : List (Int × Field)} {m : UnionMode}
    {nm : String} {idx : Nat} {vn : String} {tid : Int} {gn : String} {cdt : DataType} {cn : Bool}
    {cmd : Metadata} (hg : fields[idx]? = some (tid, .mk gn cdt cn cmd)) :
    hits p (.union (UFields.ofList fields) m) (.unitVariant nm idx vn) = p cdt .unit := by
  rw [hits]
  simp only [UFields.toList_ofList, hg]

/-! ### newtype variants -/

theorem PI_newtypeVariant (o : Options) (ext : Ext) (h0 : o.overwrites = []) (nm : String) (idx : Nat) (vn : String)
    (v : SVal) (ih : PI o ext v) : PI o ext (.newtypeVariant nm idx vn v) := by
  intro t t' hw h t2 hs f hf hok hex
  obtain ⟨vt, vt', n, p, nl2, vs2, c2, hwvt, h4, rfl, hc2, hsc2⟩ := variant_decomp hw h hs
  rcases to_field_union_inv h0 hf with ⟨_, _, rfl⟩ | ⟨fields, hfs, rfl, _⟩
  · simp [hits, default_dictionary_field, Field.dataType, exclAny, dataLessNewtype, isDictDT] at hex
  · obtain ⟨g, hg1, hg2⟩ := variants_to_fields_get vs2 0 fields idx vn c2 hfs hc2
    obtain ⟨gn, cdt, cn, cmd⟩ := g
    simp only [Field.dataType] at hex
    rw [hits_union_newtype _ hg1] at hex
    obtain ⟨lv, hlv⟩ := ih vt vt' hwvt h4 c2 hsc2 _ hg2 (by simpa [sampleOK] using hok) hex
    simp only [Field.dataType, Field.nullable, Field.metadata] at hlv
    refine ⟨.union (Int.ofNat (0 + idx)) lv, ?_⟩
    simp only [Field.dataType, Field.nullable, Field.metadata]
    rw [interpDT_union_newtype ext hg1, hlv]
    rfl

/-! ### unit variants -/

theorem PI_unitVariant (o : Options) (ext : Ext) (h0 : o.overwrites = []) (nm : String) (idx : Nat) (vn : String) :
    PI o ext (.unitVariant nm idx vn) := by
  intro t t' hw h t2 hs f hf hok hex
  rw [absorb_unitVariant] at h
  obtain ⟨vt, vt', n, p, nl2, vs2, c2, hwvt, h4, rfl, hc2, hsc2⟩ := variant_decomp hw h hs
  rcases to_field_union_inv h0 hf with ⟨_, _, rfl⟩ | ⟨fields, hfs, rfl, _⟩
  · refine ⟨.str (strBytes vn), ?_⟩
    simp only [default_dictionary_field, Field.dataType, Field.nullable, Field.metadata]
    rw [interpDT]
    · have hst : o.string_type = .utf8 ∨ o.string_type = .largeUtf8 := by
        unfold Options.string_type; split
        · exact .inr rfl
        · exact .inl rfl
      rcases hst with hst | hst <;> simp [interpScalar_eq_old, normErr_ok_iff, interpScalarOld, interpDictStr, dictValue, liftO, hst, scalarToString]
    · intro fs mode e; cases e
  · obtain ⟨g, hg1, hg2⟩ := variants_to_fields_get vs2 0 fields idx vn c2 hfs hc2
    obtain ⟨gn, cdt, cn, cmd⟩ := g
    simp only [Field.dataType] at hex
    rw [hits_union_unit _ hg1] at hex
    have hu : isUnionDT cdt = false := by
      simpa [exclAny, nullAtEnum, dateLookalike, u64AboveI64, dataLessNewtype] using hex
    rw [absorb] at h4
    have hn : c2.nullable = true := hsc2.keeps.1 (ensure_primitive_null_nullable o hwvt.wf h4)
    have hnull := interpNull_of_nullable h0 hg2 hn hu
    simp only [Field.dataType, Field.nullable, Field.metadata] at hnull
    refine ⟨.union (Int.ofNat (0 + idx)) .null, ?_⟩
    simp only [Field.dataType, Field.nullable, Field.metadata]
    rw [interpDT_union_unit ext hg1, hnull]
    rfl

/-! ### tuple and struct variants -/

theorem is_without_data_false : ∀ (vs : Variants) (i : Nat) (n : String) (c : Tracer),
    vs.get? i = some (some (n, c)) → c.is_unknown_or_null = false → vs.is_without_data = false
  | .nil, _, _, _, hg, _ => by simp [Variants.get?] at hg
  | .absent _, _, _, _, _, _ => rfl
  | .present m t r, i, n, c, hg, hc => by
    cases i with
    | zero =>
      simp only [Variants.get?, Option.some.injEq, Prod.mk.injEq] at hg
      obtain ⟨_, rfl⟩ := hg
      simp [Variants.is_without_data, is_null_variant, hc]
    | succ i =>
      simp only [Variants.get?] at hg
      simp [Variants.is_without_data, is_without_data_false r i n c hg hc]

theorem PI_tupleVariant (o : Options) (ext : Ext) (h0 : o.overwrites = []) (nm : String) (idx : Nat) (vn : String)
    (items : SVals) (ih : PI o ext (.tuple items)) : PI o ext (.tupleVariant nm idx vn items) := by
  intro t t' hw h t2 hs f hf hok hex
  rw [absorb_tupleVariant] at h
  obtain ⟨vt, vt', n, p, nl2, vs2, c2, hwvt, h4, rfl, hc2, hsc2⟩ := variant_decomp hw h hs
  have hwvt' := (absorb_inv o hwvt h4).wf
  obtain ⟨n1, p1, nl1, tsA, tsB, _, _, rfl⟩ := (absorb_tuple_ok .fixed o vt vt' items).mp h4
  obtain ⟨nl3, tsC, rfl, _⟩ := steps_extShape hwvt' hsc2
  rcases to_field_union_inv h0 hf with ⟨hwd, _, _⟩ | ⟨fields, hfs, rfl, _⟩
  · rw [is_without_data_false vs2 idx vn _ hc2 rfl] at hwd; cases hwd
  · obtain ⟨g, hg1, hg2⟩ := variants_to_fields_get vs2 0 fields idx vn _ hfs hc2
    obtain ⟨gfields, _, rfl⟩ := to_field_tuple_inv h0 hg2
    have hex' : hits (exclAny ext) (.struct (Fields.ofList gfields)) (.tuple items) = false := by
      simp only [Field.dataType] at hex
      rw [hits] at hex
      simp only [UFields.toList_ofList, hg1] at hex
      rw [hits]
      exact hex
    obtain ⟨lv, hlv⟩ := ih vt _ hwvt h4 _ hsc2 _ hg2 (by simpa [sampleOK] using hok) hex'
    simp only [Field.dataType, Field.nullable, Field.metadata] at hlv
    rw [interpDT] at hlv
    simp only [isUnknownVariant, Bool.false_eq_true, if_false] at hlv
    refine ⟨.union (Int.ofNat (0 + idx)) lv, ?_⟩
    simp only [Field.dataType, Field.nullable, Field.metadata]
    rw [interpDT]
    simp only [UFields.toList_ofList, hg1, isUnknownVariant, Bool.false_eq_true, if_false]
    rw [hlv]
    rfl

theorem absorb_record_name (c : Code) (o : Options) (t : Tracer) (a b : String) (fs : SFields) :
    absorb c o t (.record a fs) = absorb c o t (.record b fs) := by
  simp only [absorb]

theorem PI_structVariant (o : Options) (ext : Ext) (h0 : o.overwrites = []) (nm : String) (idx : Nat) (vn : String)
    (fs : SFields) (rn : String) (ih : PI o ext (.record rn fs)) : PI o ext (.structVariant nm idx vn fs) := by
  intro t t' hw h t2 hs f hf hok hex
  rw [absorb_structVariant] at h
  obtain ⟨vt, vt', n, p, nl2, vs2, c2, hwvt, h4, rfl, hc2, hsc2⟩ := variant_decomp hw h hs
  rw [absorb_record_name _ _ _ nm rn] at h4
  have hwvt' := (absorb_inv o hwvt h4).wf
  obtain ⟨kvs, n1, p1, nl1, fsA, m, s, fsB, _, _, _, rfl⟩ :=
    (absorb_asStruct_ok .fixed o vt vt' (.record rn fs) .struct (.ok (SFields.kvs fs)) rfl).mp h4
  obtain ⟨nl3, fsC, m3, s3, rfl, _⟩ := steps_extShape hwvt' hsc2
  rcases to_field_union_inv h0 hf with ⟨hwd, _, _⟩ | ⟨fields, hfs, rfl, _⟩
  · rw [is_without_data_false vs2 idx vn _ hc2 rfl] at hwd; cases hwd
  · obtain ⟨g, hg1, hg2⟩ := variants_to_fields_get vs2 0 fields idx vn _ hfs hc2
    have key : ∃ cfs md, g = .mk n1 (.struct cfs) nl3 md := by
      obtain ⟨gfields, _, ⟨_, rfl⟩ | ⟨_, rfl⟩⟩ := to_field_struct_inv h0 hg2
      · exact ⟨_, _, rfl⟩
      · exact ⟨_, _, rfl⟩
    obtain ⟨cfs, md, rfl⟩ := key
    have hex' : hits (exclAny ext) (.struct cfs) (.record rn fs) = false := by
      simp only [Field.dataType] at hex
      rw [hits] at hex
      simp only [UFields.toList_ofList, hg1] at hex
      rw [hits]
      exact hex
    obtain ⟨lv, hlv⟩ := ih vt _ hwvt h4 _ hsc2 _ hg2 (by simpa [sampleOK] using hok) hex'
    simp only [Field.dataType, Field.nullable, Field.metadata] at hlv
    rw [interpDT] at hlv
    simp only [isUnknownVariant, Bool.false_eq_true, if_false] at hlv
    refine ⟨.union (Int.ofNat (0 + idx)) lv, ?_⟩
    simp only [Field.dataType, Field.nullable, Field.metadata]
    rw [interpDT]
    simp only [UFields.toList_ofList, hg1, isUnknownVariant, Bool.false_eq_true, if_false]
    rw [hlv]
    rfl

end SaModel.Lemmas.C06
