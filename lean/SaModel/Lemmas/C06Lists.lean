import SaModel.Trace.FromSamples
/-
C06 helpers, part 1: index-based facts about the child lists of the tracer (`Tracers`, `TFields`, `Variants`) and the
functions of `tracer.rs` that edit them (`set`, `push`, `setLastSeen`, `ensure_field`, `end_`, `markFrom`, the two tuple
growth loops, `padNone`, `ensure_variant`).  The tracer types are mutual inductives with their own list types, so all
statements are phrased through `get?`.
-/
namespace SaModel.Lemmas.C06
open SaModel SaModel.Trace

/-! ### Tracers -/

theorem Tracers.get?_none_iff : ∀ (ts : Tracers) (i : Nat), ts.get? i = none ↔ ts.length ≤ i
  | .nil, i => by simp [Tracers.get?, Tracers.length]
  | .cons t r, 0 => by simp [Tracers.get?, Tracers.length]
  | .cons t r, i + 1 => by simp [Tracers.get?, Tracers.length, Tracers.get?_none_iff r i]

theorem Tracers.get?_lt {ts : Tracers} {i : Nat} {t : Tracer} (h : ts.get? i = some t) : i < ts.length := by
  apply Nat.lt_of_not_le
  intro hle
  rw [(Tracers.get?_none_iff ts i).mpr hle] at h
  cases h

theorem Tracers.get?_of_lt {ts : Tracers} {i : Nat} (h : i < ts.length) : ∃ t, ts.get? i = some t := by
  cases hg : ts.get? i with
  | some t => exact ⟨t, rfl⟩
  | none => exact absurd ((Tracers.get?_none_iff ts i).mp hg) (Nat.not_le_of_lt h)

theorem Tracers.length_set : ∀ (ts : Tracers) (i : Nat) (x : Tracer), (ts.set i x).length = ts.length
  | .nil, _, _ => rfl
  | .cons _ _, 0, _ => rfl
  | .cons _ r, i + 1, x => by simp [Tracers.set, Tracers.length, Tracers.length_set r i x]

theorem Tracers.get?_set_eq : ∀ (ts : Tracers) (i : Nat) (x : Tracer), i < ts.length → (ts.set i x).get? i = some x
  | .nil, _, _, h => by simp [Tracers.length] at h
  | .cons _ _, 0, _, _ => rfl
  | .cons _ r, i + 1, x, h => by
    simp only [Tracers.set, Tracers.get?]
    exact Tracers.get?_set_eq r i x (by simpa [Tracers.length] using h)

theorem Tracers.get?_set_ne : ∀ (ts : Tracers) (i j : Nat) (x : Tracer), i ≠ j → (ts.set i x).get? j = ts.get? j
  | .nil, _, _, _, _ => rfl
  | .cons _ _, 0, 0, _, h => absurd rfl h
  | .cons _ _, 0, j + 1, _, _ => rfl
  | .cons _ _, i + 1, 0, _, _ => rfl
  | .cons _ r, i + 1, j + 1, x, h => by
    simp only [Tracers.set, Tracers.get?]
    exact Tracers.get?_set_ne r i j x (by omega)

theorem Tracers.length_push : ∀ (ts : Tracers) (x : Tracer), (ts.push x).length = ts.length + 1
  | .nil, _ => rfl
  | .cons _ r, x => by simp [Tracers.push, Tracers.length, Tracers.length_push r x]

theorem Tracers.get?_push_lt : ∀ (ts : Tracers) (x : Tracer) (i : Nat), i < ts.length → (ts.push x).get? i = ts.get? i
  | .nil, _, _, h => by simp [Tracers.length] at h
  | .cons _ _, _, 0, _ => rfl
  | .cons _ r, x, i + 1, h => by
    simp only [Tracers.push, Tracers.get?]
    exact Tracers.get?_push_lt r x i (by simpa [Tracers.length] using h)

theorem Tracers.get?_push_len : ∀ (ts : Tracers) (x : Tracer), (ts.push x).get? ts.length = some x
  | .nil, _ => rfl
  | .cons _ r, x => by simp only [Tracers.push, Tracers.length, Tracers.get?]; exact Tracers.get?_push_len r x

theorem Tracers.get?_markFrom : ∀ (ts : Tracers) (k i : Nat),
    (ts.markFrom k).get? i = (ts.get? i).map (fun t => if k ≤ i then t.mark_nullable else t)
  | .nil, _, _ => rfl
  | .cons _ _, 0, 0 => rfl
  | .cons _ r, 0, i + 1 => by
    simp only [Tracers.markFrom, Tracers.get?]
    rw [Tracers.get?_markFrom r 0 i]; simp
  | .cons _ _, k + 1, 0 => by simp [Tracers.markFrom, Tracers.get?]
  | .cons _ r, k + 1, i + 1 => by
    simp only [Tracers.markFrom, Tracers.get?]
    rw [Tracers.get?_markFrom r k i]; simp

theorem Tracers.length_markFrom : ∀ (ts : Tracers) (k : Nat), (ts.markFrom k).length = ts.length
  | .nil, _ => rfl
  | .cons _ r, 0 => by simp [Tracers.markFrom, Tracers.length, Tracers.length_markFrom r 0]
  | .cons _ r, k + 1 => by simp [Tracers.markFrom, Tracers.length, Tracers.length_markFrom r k]

/-- `k` pushes, each new element computed from the vector so far -/
def growN (g : Tracers → Tracer) : Nat → Tracers → Tracers
  | 0, ts => ts
  | k + 1, ts => growN g k (ts.push (g ts))

theorem foldl_growN (g : Tracers → Tracer) : ∀ (l : List Nat) (ts : Tracers),
    l.foldl (fun acc _ => acc.push (g acc)) ts = growN g l.length ts
  | [], _ => rfl
  | _ :: l, ts => by simp only [List.foldl, List.length, growN]; exact foldl_growN g l _

theorem growN_length (g : Tracers → Tracer) : ∀ (k : Nat) (ts : Tracers), (growN g k ts).length = ts.length + k
  | 0, _ => rfl
  | k + 1, ts => by simp only [growN]; rw [growN_length g k, Tracers.length_push]; omega

theorem growN_get?_lt (g : Tracers → Tracer) : ∀ (k : Nat) (ts : Tracers) (i : Nat), i < ts.length →
    (growN g k ts).get? i = ts.get? i
  | 0, _, _, _ => rfl
  | k + 1, ts, i, h => by
    simp only [growN]
    rw [growN_get?_lt g k _ i (by rw [Tracers.length_push]; omega), Tracers.get?_push_lt _ _ _ h]

theorem growN_get?_new (g : Tracers → Tracer) (Q : Tracer → Prop) (hQ : ∀ acc, Q (g acc)) : ∀ (k : Nat) (ts : Tracers)
    (i : Nat) (t : Tracer), ts.length ≤ i → (growN g k ts).get? i = some t → Q t
  | 0, ts, i, t, h, hg => by
    simp only [growN] at hg
    rw [(Tracers.get?_none_iff ts i).mpr h] at hg; cases hg
  | k + 1, ts, i, t, h, hg => by
    simp only [growN] at hg
    by_cases hi : i = ts.length
    · subst hi
      rw [growN_get?_lt g k _ _ (by rw [Tracers.length_push]; omega), Tracers.get?_push_len] at hg
      cases hg; exact hQ ts
    · exact growN_get?_new g Q hQ k _ i t (by rw [Tracers.length_push]; omega) hg

theorem growN_zero (g : Tracers → Tracer) (ts : Tracers) : growN g 0 ts = ts := rfl

theorem tupleGrowNullable_eq (path : String) (n : Nat) (ts : Tracers) :
    tupleGrowNullable path n ts =
      growN (fun acc => (Tracer.new (toString acc.length) (path ++ "." ++ toString acc.length)).mark_nullable)
        (n - ts.length) ts := by
  unfold tupleGrowNullable
  rw [foldl_growN]; simp

theorem field_tracer_grow_eq (path : String) (idx : Nat) (ts : Tracers) :
    field_tracer_grow path idx ts =
      growN (fun _ => Tracer.new (toString idx) (path ++ "." ++ toString idx)) (idx + 1 - ts.length) ts := by
  unfold field_tracer_grow
  rw [foldl_growN]; simp

theorem field_tracer_grow_of_lt (path : String) (idx : Nat) (ts : Tracers) (h : idx < ts.length) :
    field_tracer_grow path idx ts = ts := by
  rw [field_tracer_grow_eq]
  have : idx + 1 - ts.length = 0 := by omega
  rw [this]; rfl

theorem tupleGrowNullable_of_le (path : String) (n : Nat) (ts : Tracers) (h : n ≤ ts.length) :
    tupleGrowNullable path n ts = ts := by
  rw [tupleGrowNullable_eq]
  have : n - ts.length = 0 := by omega
  rw [this]; rfl

theorem mkTupleFields_length (path : String) (n : Nat) : ∀ k, (mkTupleFields path n k).length = k
  | 0 => rfl
  | k + 1 => by simp [mkTupleFields, Tracers.length, mkTupleFields_length path n k]

/-! ### TFields -/

def lastSeen? : TFields → Nat → Option Nat
  | .nil, _ => none
  | .cons _ l _ _, 0 => some l
  | .cons _ _ _ r, i + 1 => lastSeen? r i

theorem TFields.get?_none_iff : ∀ (fs : TFields) (i : Nat), fs.get? i = none ↔ fs.length ≤ i
  | .nil, i => by simp [TFields.get?, TFields.length]
  | .cons _ _ _ _, 0 => by simp [TFields.get?, TFields.length]
  | .cons _ _ _ r, i + 1 => by simp [TFields.get?, TFields.length, TFields.get?_none_iff r i]

theorem lastSeen?_none_iff : ∀ (fs : TFields) (i : Nat), lastSeen? fs i = none ↔ fs.length ≤ i
  | .nil, i => by simp [lastSeen?, TFields.length]
  | .cons _ _ _ _, 0 => by simp [lastSeen?, TFields.length]
  | .cons _ _ _ r, i + 1 => by simp [lastSeen?, TFields.length, lastSeen?_none_iff r i]

theorem TFields.get?_lt {fs : TFields} {i : Nat} {t : Tracer} (h : fs.get? i = some t) : i < fs.length := by
  apply Nat.lt_of_not_le
  intro hle
  rw [(TFields.get?_none_iff fs i).mpr hle] at h
  cases h

theorem TFields.get?_of_lt {fs : TFields} {i : Nat} (h : i < fs.length) : ∃ t, fs.get? i = some t := by
  cases hg : fs.get? i with
  | some t => exact ⟨t, rfl⟩
  | none => exact absurd ((TFields.get?_none_iff fs i).mp hg) (Nat.not_le_of_lt h)

theorem lastSeen?_lt {fs : TFields} {i l : Nat} (h : lastSeen? fs i = some l) : i < fs.length := by
  apply Nat.lt_of_not_le
  intro hle
  rw [(lastSeen?_none_iff fs i).mpr hle] at h
  cases h

theorem lastSeen?_of_lt {fs : TFields} {i : Nat} (h : i < fs.length) : ∃ l, lastSeen? fs i = some l := by
  cases hg : lastSeen? fs i with
  | some t => exact ⟨t, rfl⟩
  | none => exact absurd ((lastSeen?_none_iff fs i).mp hg) (Nat.not_le_of_lt h)

theorem TFields.indexOf_lt : ∀ {fs : TFields} {k : String} {i : Nat}, fs.indexOf k = some i → i < fs.length
  | .nil, _, _, h => by simp [TFields.indexOf] at h
  | .cons n _ _ r, k, i, h => by
    simp only [TFields.indexOf] at h
    split at h
    · cases h; simp [TFields.length]
    · cases hr : r.indexOf k with
      | none => rw [hr] at h; cases h
      | some j =>
        rw [hr] at h; cases h
        have := TFields.indexOf_lt hr
        simp [TFields.length]; omega

theorem TFields.length_set : ∀ (fs : TFields) (i : Nat) (x : Tracer), (fs.set i x).length = fs.length
  | .nil, _, _ => rfl
  | .cons _ _ _ _, 0, _ => rfl
  | .cons _ _ _ r, i + 1, x => by simp [TFields.set, TFields.length, TFields.length_set r i x]

theorem TFields.get?_set_eq : ∀ (fs : TFields) (i : Nat) (x : Tracer), i < fs.length → (fs.set i x).get? i = some x
  | .nil, _, _, h => by simp [TFields.length] at h
  | .cons _ _ _ _, 0, _, _ => rfl
  | .cons _ _ _ r, i + 1, x, h => by
    simp only [TFields.set, TFields.get?]
    exact TFields.get?_set_eq r i x (by simpa [TFields.length] using h)

theorem TFields.get?_set_ne : ∀ (fs : TFields) (i j : Nat) (x : Tracer), i ≠ j → (fs.set i x).get? j = fs.get? j
  | .nil, _, _, _, _ => rfl
  | .cons _ _ _ _, 0, 0, _, h => absurd rfl h
  | .cons _ _ _ _, 0, j + 1, _, _ => rfl
  | .cons _ _ _ _, i + 1, 0, _, _ => rfl
  | .cons _ _ _ r, i + 1, j + 1, x, h => by
    simp only [TFields.set, TFields.get?]
    exact TFields.get?_set_ne r i j x (by omega)

theorem TFields.indexOf_set : ∀ (fs : TFields) (i : Nat) (x : Tracer) (k : String),
    (fs.set i x).indexOf k = fs.indexOf k
  | .nil, _, _, _ => rfl
  | .cons _ _ _ _, 0, _, _ => rfl
  | .cons _ _ _ r, i + 1, x, k => by simp only [TFields.set, TFields.indexOf]; rw [TFields.indexOf_set r i x k]

theorem lastSeen?_set : ∀ (fs : TFields) (i : Nat) (x : Tracer) (j : Nat), lastSeen? (fs.set i x) j = lastSeen? fs j
  | .nil, _, _, _ => rfl
  | .cons _ _ _ _, 0, _, 0 => rfl
  | .cons _ _ _ _, 0, _, j + 1 => rfl
  | .cons _ _ _ _, i + 1, _, 0 => rfl
  | .cons _ _ _ r, i + 1, x, j + 1 => by simp only [TFields.set, lastSeen?]; exact lastSeen?_set r i x j

theorem TFields.length_setLastSeen : ∀ (fs : TFields) (i s : Nat), (fs.setLastSeen i s).length = fs.length
  | .nil, _, _ => rfl
  | .cons _ _ _ _, 0, _ => rfl
  | .cons _ _ _ r, i + 1, s => by simp [TFields.setLastSeen, TFields.length, TFields.length_setLastSeen r i s]

theorem TFields.get?_setLastSeen : ∀ (fs : TFields) (i s j : Nat), (fs.setLastSeen i s).get? j = fs.get? j
  | .nil, _, _, _ => rfl
  | .cons _ _ _ _, 0, _, 0 => rfl
  | .cons _ _ _ _, 0, _, j + 1 => rfl
  | .cons _ _ _ _, i + 1, _, 0 => rfl
  | .cons _ _ _ r, i + 1, s, j + 1 => by
    simp only [TFields.setLastSeen, TFields.get?]; exact TFields.get?_setLastSeen r i s j

theorem TFields.indexOf_setLastSeen : ∀ (fs : TFields) (i s : Nat) (k : String),
    (fs.setLastSeen i s).indexOf k = fs.indexOf k
  | .nil, _, _, _ => rfl
  | .cons _ _ _ _, 0, _, _ => rfl
  | .cons _ _ _ r, i + 1, s, k => by
    simp only [TFields.setLastSeen, TFields.indexOf]; rw [TFields.indexOf_setLastSeen r i s k]

theorem lastSeen?_setLastSeen_eq : ∀ (fs : TFields) (i s : Nat), i < fs.length →
    lastSeen? (fs.setLastSeen i s) i = some s
  | .nil, _, _, h => by simp [TFields.length] at h
  | .cons _ _ _ _, 0, _, _ => rfl
  | .cons _ _ _ r, i + 1, s, h => by
    simp only [TFields.setLastSeen, lastSeen?]
    exact lastSeen?_setLastSeen_eq r i s (by simpa [TFields.length] using h)

theorem lastSeen?_setLastSeen_ne : ∀ (fs : TFields) (i s j : Nat), i ≠ j →
    lastSeen? (fs.setLastSeen i s) j = lastSeen? fs j
  | .nil, _, _, _, _ => rfl
  | .cons _ _ _ _, 0, _, 0, h => absurd rfl h
  | .cons _ _ _ _, 0, _, j + 1, _ => rfl
  | .cons _ _ _ _, i + 1, _, 0, _ => rfl
  | .cons _ _ _ r, i + 1, s, j + 1, h => by
    simp only [TFields.setLastSeen, lastSeen?]; exact lastSeen?_setLastSeen_ne r i s j (by omega)

theorem TFields.length_push : ∀ (fs : TFields) (n : String) (l : Nat) (x : Tracer), (fs.push n l x).length = fs.length + 1
  | .nil, _, _, _ => rfl
  | .cons _ _ _ r, n, l, x => by simp [TFields.push, TFields.length, TFields.length_push r n l x]

theorem TFields.get?_push_lt : ∀ (fs : TFields) (n : String) (l : Nat) (x : Tracer) (i : Nat), i < fs.length →
    (fs.push n l x).get? i = fs.get? i
  | .nil, _, _, _, _, h => by simp [TFields.length] at h
  | .cons _ _ _ _, _, _, _, 0, _ => rfl
  | .cons _ _ _ r, n, l, x, i + 1, h => by
    simp only [TFields.push, TFields.get?]
    exact TFields.get?_push_lt r n l x i (by simpa [TFields.length] using h)

theorem TFields.get?_push_len : ∀ (fs : TFields) (n : String) (l : Nat) (x : Tracer),
    (fs.push n l x).get? fs.length = some x
  | .nil, _, _, _ => rfl
  | .cons _ _ _ r, n, l, x => by
    simp only [TFields.push, TFields.length, TFields.get?]; exact TFields.get?_push_len r n l x

theorem lastSeen?_push_lt : ∀ (fs : TFields) (n : String) (l : Nat) (x : Tracer) (i : Nat), i < fs.length →
    lastSeen? (fs.push n l x) i = lastSeen? fs i
  | .nil, _, _, _, _, h => by simp [TFields.length] at h
  | .cons _ _ _ _, _, _, _, 0, _ => rfl
  | .cons _ _ _ r, n, l, x, i + 1, h => by
    simp only [TFields.push, lastSeen?]
    exact lastSeen?_push_lt r n l x i (by simpa [TFields.length] using h)

theorem lastSeen?_push_len : ∀ (fs : TFields) (n : String) (l : Nat) (x : Tracer),
    lastSeen? (fs.push n l x) fs.length = some l
  | .nil, _, _, _ => rfl
  | .cons _ _ _ r, n, l, x => by
    simp only [TFields.push, TFields.length, lastSeen?]; exact lastSeen?_push_len r n l x

theorem TFields.indexOf_push_some : ∀ (fs : TFields) (n : String) (l : Nat) (x : Tracer) (k : String) (i : Nat),
    fs.indexOf k = some i → (fs.push n l x).indexOf k = some i
  | .nil, _, _, _, _, _, h => by simp [TFields.indexOf] at h
  | .cons n' _ _ r, n, l, x, k, i, h => by
    simp only [TFields.push, TFields.indexOf] at h ⊢
    split
    · rename_i hn; rw [if_pos hn] at h; exact h
    · rename_i hn
      rw [if_neg hn] at h
      cases hr : r.indexOf k with
      | none => rw [hr] at h; cases h
      | some j => rw [hr] at h; rw [TFields.indexOf_push_some r n l x k j hr]; exact h

theorem TFields.indexOf_push_none : ∀ (fs : TFields) (l : Nat) (x : Tracer) (k : String),
    fs.indexOf k = none → (fs.push k l x).indexOf k = some fs.length
  | .nil, _, _, _, _ => by simp [TFields.push, TFields.indexOf, TFields.length]
  | .cons n' _ _ r, l, x, k, h => by
    simp only [TFields.push, TFields.indexOf] at h ⊢
    split
    · rename_i hn; rw [if_pos hn] at h; cases h
    · rename_i hn
      rw [if_neg hn] at h
      cases hr : r.indexOf k with
      | none => rw [TFields.indexOf_push_none r l x k hr]; simp [TFields.length]
      | some j => rw [hr] at h; cases h

/-! `end_` -/

theorem TFields.length_end : ∀ (s : Nat) (fs : TFields), (fs.end_ s).length = fs.length
  | _, .nil => rfl
  | s, .cons _ _ _ r => by simp [TFields.end_, TFields.length, TFields.length_end s r]

theorem TFields.indexOf_end : ∀ (s : Nat) (fs : TFields) (k : String), (fs.end_ s).indexOf k = fs.indexOf k
  | _, .nil, _ => rfl
  | s, .cons _ _ _ r, k => by simp only [TFields.end_, TFields.indexOf]; rw [TFields.indexOf_end s r k]

theorem lastSeen?_end : ∀ (s : Nat) (fs : TFields) (i : Nat), lastSeen? (fs.end_ s) i = lastSeen? fs i
  | _, .nil, _ => rfl
  | _, .cons _ _ _ _, 0 => rfl
  | s, .cons _ _ _ r, i + 1 => by simp only [TFields.end_, lastSeen?]; exact lastSeen?_end s r i

theorem TFields.get?_end : ∀ (s : Nat) (fs : TFields) (i : Nat) (t : Tracer) (l : Nat), fs.get? i = some t →
    lastSeen? fs i = some l → (fs.end_ s).get? i = some (if l != s then t.mark_nullable else t)
  | _, .nil, _, _, _, h, _ => by simp [TFields.get?] at h
  | _, .cons _ _ _ _, 0, _, _, h, hl => by
    simp only [TFields.get?, lastSeen?, Option.some.injEq] at h hl
    subst h; subst hl; rfl
  | s, .cons _ _ _ r, i + 1, t, l, h, hl => by
    simp only [TFields.end_, TFields.get?, lastSeen?] at h hl ⊢
    exact TFields.get?_end s r i t l h hl

/-! `ensure_field` -/

theorem ensure_field_found {path : String} {s : Nat} {fs : TFields} {k : String} {i : Nat} (h : fs.indexOf k = some i) :
    ensure_field path s fs k = (i, fs.setLastSeen i s) := by
  unfold ensure_field; rw [h]

theorem ensure_field_new {path : String} {s : Nat} {fs : TFields} {k : String} (h : fs.indexOf k = none) :
    ensure_field path s fs k =
      (fs.length, fs.push k s (if s != 0 then (Tracer.new k (path ++ "." ++ k)).mark_nullable
        else Tracer.new k (path ++ "." ++ k))) := by
  unfold ensure_field; rw [h]

/-- the index returned by `ensure_field` is the index of the key in the new field list -/
theorem ensure_field_indexOf (path : String) (s : Nat) (fs : TFields) (k : String) :
    (ensure_field path s fs k).2.indexOf k = some (ensure_field path s fs k).1 := by
  cases h : fs.indexOf k with
  | some i => rw [ensure_field_found h]; simp only; rw [TFields.indexOf_setLastSeen]; exact h
  | none => rw [ensure_field_new h]; simp only; exact TFields.indexOf_push_none fs _ _ k h

theorem ensure_field_lt (path : String) (s : Nat) (fs : TFields) (k : String) :
    (ensure_field path s fs k).1 < (ensure_field path s fs k).2.length :=
  TFields.indexOf_lt (ensure_field_indexOf path s fs k)

theorem ensure_field_lastSeen (path : String) (s : Nat) (fs : TFields) (k : String) :
    lastSeen? (ensure_field path s fs k).2 (ensure_field path s fs k).1 = some s := by
  cases h : fs.indexOf k with
  | some i =>
    rw [ensure_field_found h]; simp only
    exact lastSeen?_setLastSeen_eq fs i s (TFields.indexOf_lt h)
  | none => rw [ensure_field_new h]; simp only; exact lastSeen?_push_len fs _ _ _

/-! ### Variants -/

theorem Variants.get?_none_iff : ∀ (vs : Variants) (i : Nat), vs.get? i = none ↔ vs.length ≤ i
  | .nil, i => by simp [Variants.get?, Variants.length]
  | .absent _, 0 => by simp [Variants.get?, Variants.length]
  | .present _ _ _, 0 => by simp [Variants.get?, Variants.length]
  | .absent r, i + 1 => by simp [Variants.get?, Variants.length, Variants.get?_none_iff r i]
  | .present _ _ r, i + 1 => by simp [Variants.get?, Variants.length, Variants.get?_none_iff r i]

theorem Variants.get?_lt {vs : Variants} {i : Nat} {x} (h : vs.get? i = some x) : i < vs.length := by
  apply Nat.lt_of_not_le
  intro hle
  rw [(Variants.get?_none_iff vs i).mpr hle] at h
  cases h

theorem Variants.get?_set_eq : ∀ (vs : Variants) (i : Nat) (n : String) (x : Tracer), i < vs.length →
    (vs.set i n x).get? i = some (some (n, x))
  | .nil, _, _, _, h => by simp [Variants.length] at h
  | .absent _, 0, _, _, _ => rfl
  | .present _ _ _, 0, _, _, _ => rfl
  | .absent r, i + 1, n, x, h => by
    simp only [Variants.set, Variants.get?]
    exact Variants.get?_set_eq r i n x (by simpa [Variants.length] using h)
  | .present _ _ r, i + 1, n, x, h => by
    simp only [Variants.set, Variants.get?]
    exact Variants.get?_set_eq r i n x (by simpa [Variants.length] using h)

theorem Variants.get?_set_ne : ∀ (vs : Variants) (i j : Nat) (n : String) (x : Tracer), i ≠ j →
    (vs.set i n x).get? j = vs.get? j
  | .nil, _, _, _, _, _ => rfl
  | .absent _, 0, 0, _, _, h => absurd rfl h
  | .present _ _ _, 0, 0, _, _, h => absurd rfl h
  | .absent _, 0, j + 1, _, _, _ => rfl
  | .present _ _ _, 0, j + 1, _, _, _ => rfl
  | .absent _, i + 1, 0, _, _, _ => rfl
  | .present _ _ _, i + 1, 0, _, _, _ => rfl
  | .absent r, i + 1, j + 1, n, x, h => by
    simp only [Variants.set, Variants.get?]; exact Variants.get?_set_ne r i j n x (by omega)
  | .present _ _ r, i + 1, j + 1, n, x, h => by
    simp only [Variants.set, Variants.get?]; exact Variants.get?_set_ne r i j n x (by omega)

theorem Variants.length_set : ∀ (vs : Variants) (i : Nat) (n : String) (x : Tracer), (vs.set i n x).length = vs.length
  | .nil, _, _, _ => rfl
  | .absent _, 0, _, _ => rfl
  | .present _ _ _, 0, _, _ => rfl
  | .absent r, i + 1, n, x => by simp [Variants.set, Variants.length, Variants.length_set r i n x]
  | .present _ _ r, i + 1, n, x => by simp [Variants.set, Variants.length, Variants.length_set r i n x]

theorem Variants.padNone_zero : ∀ (vs : Variants), vs.padNone 0 = vs
  | .nil => rfl
  | .absent r => by simp [Variants.padNone, Variants.padNone_zero r]
  | .present _ _ r => by simp [Variants.padNone, Variants.padNone_zero r]

theorem Variants.nones_get? : ∀ (k i : Nat) (x), (Variants.nones k).get? i = some x → x = none
  | 0, _, _, h => by simp [Variants.nones, Variants.get?] at h
  | k + 1, 0, _, h => by simp only [Variants.nones, Variants.get?, Option.some.injEq] at h; exact h.symm
  | k + 1, i + 1, x, h => by simp only [Variants.nones, Variants.get?] at h; exact Variants.nones_get? k i x h

theorem Variants.nones_length : ∀ (k : Nat), (Variants.nones k).length = k
  | 0 => rfl
  | k + 1 => by simp [Variants.nones, Variants.length, Variants.nones_length k]

theorem Variants.padNone_length : ∀ (vs : Variants) (k : Nat), (vs.padNone k).length = vs.length + k
  | .nil, k => by simp [Variants.padNone, Variants.nones_length, Variants.length]
  | .absent r, k => by simp [Variants.padNone, Variants.length, Variants.padNone_length r k]; omega
  | .present _ _ r, k => by simp [Variants.padNone, Variants.length, Variants.padNone_length r k]; omega

/-- padding keeps the old slots; new slots are empty -/
theorem Variants.padNone_get? : ∀ (vs : Variants) (k i : Nat),
    (i < vs.length → (vs.padNone k).get? i = vs.get? i) ∧
    (vs.length ≤ i → ∀ x, (vs.padNone k).get? i = some x → x = none)
  | .nil, k, i => by
    constructor
    · intro h; simp [Variants.length] at h
    · intro _ x h; exact Variants.nones_get? k i x h
  | .absent r, k, 0 => by
    constructor
    · intro _; rfl
    · intro h; simp [Variants.length] at h
  | .present _ _ r, k, 0 => by
    constructor
    · intro _; rfl
    · intro h; simp [Variants.length] at h
  | .absent r, k, i + 1 => by
    have ih := Variants.padNone_get? r k i
    simp only [Variants.padNone, Variants.get?, Variants.length]
    exact ⟨fun h => ih.1 (by omega), fun h => ih.2 (by omega)⟩
  | .present _ _ r, k, i + 1 => by
    have ih := Variants.padNone_get? r k i
    simp only [Variants.padNone, Variants.get?, Variants.length]
    exact ⟨fun h => ih.1 (by omega), fun h => ih.2 (by omega)⟩

end SaModel.Lemmas.C06
