import SaModel.Lemmas.C06InterpBase
import SaModel.Lemmas.C06Side
/-
C06, closure: `build_builder` accepts every traced schema (no overwrites).  For every tracer `from_samples` can reach
(`Inv o t`) and every field `f` it produces, `newB path f` succeeds at every path; at the root, `newRoot` succeeds on
the fields `to_schema` returns.
-/
namespace SaModel.Lemmas.C06
open SaModel SaModel.Spec SaModel.Build SaModel.Trace

/-- `build_builder` succeeds on the field, whatever the path -/
def NB (f : Field) : Prop := ∀ path, ∃ b, newB path f = .ok b

theorem NB_mk {n : String} {dt : DataType} {nl : Bool} {md : Metadata}
    (h : ∀ path, ∃ b, newDT path dt nl md = .ok b) : NB (.mk n dt nl md) := by
  intro path; rw [newB]; exact h path

/-! ### duplicate names -/

theorem hasDup_of_nodup : ∀ l : List String, l.Nodup → hasDup l = false
  | [], _ => rfl
  | n :: ns, h => by
    rw [List.nodup_cons] at h
    simp only [hasDup, Bool.or_eq_false_iff]
    exact ⟨by simpa using h.1, hasDup_of_nodup ns h.2⟩

theorem perm_insertByName (f : Field) : ∀ l : List Field, List.Perm (insertByName f l) (f :: l)
  | [] => by simp [insertByName]
  | g :: r => by
    simp only [insertByName]
    split
    · exact List.Perm.refl _
    · exact ((perm_insertByName f r).cons g).trans (List.Perm.swap f g r)

theorem perm_foldl_insertByName : ∀ (l acc : List Field),
    List.Perm (l.foldl (fun acc f => insertByName f acc) acc) (l ++ acc)
  | [], acc => by simp
  | x :: r, acc => by
    simp only [List.foldl_cons]
    refine (perm_foldl_insertByName r (insertByName x acc)).trans ?_
    refine ((perm_insertByName x acc).append_left r).trans ?_
    simp

theorem perm_sortByName (l : List Field) : List.Perm (sortByName l) l := by
  simpa [sortByName] using perm_foldl_insertByName l []

theorem nodup_sortByName {l : List Field} (h : (l.map Field.name).Nodup) :
    ((sortByName l).map Field.name).Nodup :=
  (((perm_sortByName l).map Field.name).nodup_iff).mpr h

/-! ### struct builders -/

theorem newFields_ok : ∀ (l : List Field), (∀ f ∈ l, NB f) → ∀ path,
    ∃ bl, newFields path (Fields.ofList l) = .ok bl ∧ bl.names = l.map Field.name
  | [], _, path => ⟨.nil, by simp [Fields.ofList, newFields], rfl⟩
  | f :: r, h, path => by
    obtain ⟨b, hb⟩ := h f (by simp) (path ++ "." ++ f.name)
    obtain ⟨bl, hbl, hn⟩ := newFields_ok r (fun g hg => h g (by simp [hg])) path
    refine ⟨.cons b (metaOfField f) bl, ?_, ?_⟩
    · simp only [Fields.ofList, newFields, hb, hbl, bind, Except.bind, pure, Except.pure]
    · rcases f with ⟨n, dt, nl, md⟩
      simp [BL.names, metaOfField, hn, Field.name]

theorem mkStruct_ok (path : String) (bl : BL) (nl : Bool) (h : bl.names.Nodup) : ∃ b, mkStruct path bl nl = .ok b := by
  simp [mkStruct, hasDup_of_nodup _ h]

theorem newDT_struct_ok {l : List Field} (h : ∀ f ∈ l, NB f) (hd : (l.map Field.name).Nodup) (nl : Bool)
    (md : Metadata) : ∀ path, ∃ b, newDT path (.struct (Fields.ofList l)) nl md = .ok b := by
  intro path
  obtain ⟨bl, hbl, hn⟩ := newFields_ok l h path
  obtain ⟨b, hb⟩ := mkStruct_ok path bl nl (hn ▸ hd)
  exact ⟨b, by simp only [newDT, hbl, bind, Except.bind, hb]⟩

theorem newRoot_ok {l : List Field} (h : ∀ f ∈ l, NB f) (hd : (l.map Field.name).Nodup) :
    ∃ b, newRoot l = .ok b := by
  obtain ⟨bl, hbl, hn⟩ := newFields_ok l h "$"
  obtain ⟨b, hb⟩ := mkStruct_ok "$" bl false (hn ▸ hd)
  exact ⟨b, by simp only [newRoot, hbl, bind, Except.bind, hb]⟩

/-! ### leaves -/

theorem toUpper_UTC : "UTC".toUpper = "UTC" := by
  rw [String.toUpper, String.map_eq_internal]
  decide

theorem isUtcTz_UTC : isUtcTz (some "UTC") = .ok true := by
  simp only [isUtcTz, toUpper_UTC]
  rfl

theorem newDT_string_type_ok (o : Options) (nl : Bool) (md : Metadata) (path : String) :
    ∃ b, newDT path o.string_type nl md = .ok b := by
  simp only [Options.string_type]
  split <;> exact ⟨_, by rw [newDT]⟩

theorem newDT_leaf_ok (o : Options) {ty : DataType} (h : ty ∈ leafTypes o) (nl : Bool) (md : Metadata) :
    ∀ path, ∃ b, newDT path ty nl md = .ok b := by
  intro path
  simp only [leafTypes, List.mem_cons, List.not_mem_nil, or_false] at h
  rcases h with h | h | h | h | h | h | h | h | h | h | h | h | h | h | h | h | h | h
  all_goals subst h
  case inr.inr.inr.inr.inr.inr.inr.inr.inr.inr.inr.inr.inl => exact newDT_string_type_ok o nl md path
  case inr.inr.inr.inr.inr.inr.inr.inr.inr.inr.inr.inr.inr.inr.inl =>
    exact ⟨_, by simp only [newDT, isUtcTz, bind, Except.bind, pure, Except.pure]; rfl⟩
  case inr.inr.inr.inr.inr.inr.inr.inr.inr.inr.inr.inr.inr.inr.inr.inl =>
    exact ⟨_, by simp only [newDT, isUtcTz_UTC, bind, Except.bind, pure, Except.pure]; rfl⟩
  case inr.inr.inr.inr.inr.inr.inr.inr.inr.inr.inr.inr.inr.inr.inr.inr.inl =>
    exact ⟨_, by simp only [newDT]; rfl⟩
  all_goals first
    | exact ⟨_, by rw [newDT]⟩
    | (simp only [newDT]; split <;> exact ⟨_, rfl⟩)

theorem newDT_dictionary_ok (o : Options) (nl : Bool) (md : Metadata) (path : String) :
    ∃ b, newDT path (.dictionary .uint32 o.string_type) nl md = .ok b := by
  obtain ⟨vb, hv⟩ := newDT_string_type_ok o false [] (path ++ ".value")
  exact ⟨_, by simp only [newDT, hv, bind, Except.bind, pure, Except.pure]; rfl⟩

theorem NB_default_dictionary_field (o : Options) (n : String) (nl : Bool) :
    NB (default_dictionary_field n nl o.string_type) :=
  NB_mk (newDT_dictionary_ok o nl [])

theorem NB_unknown_variant_field : NB unknown_variant_field := by
  intro path
  simp only [unknown_variant_field, newB, newDT]
  split <;> exact ⟨_, rfl⟩

/-! ### containers -/

theorem newDT_list_ok (o : Options) {item : Field} (h : NB item) (nl : Bool) (md : Metadata) (path : String) :
    ∃ b, newDT path (if o.sequence_as_large_list then .largeList item else .list item) nl md = .ok b := by
  split
  · obtain ⟨el, hel⟩ := h (path ++ "." ++ childName item.name)
    exact ⟨_, by simp only [newDT, hel, bind, Except.bind, pure, Except.pure]; rfl⟩
  · obtain ⟨el, hel⟩ := h (path ++ "." ++ childName item.name)
    exact ⟨_, by simp only [newDT, hel, bind, Except.bind, pure, Except.pure]; rfl⟩

theorem newDT_map_ok {kf vf : Field} (hk : NB kf) (hv : NB vf) (nl : Bool) (md : Metadata) (path : String) :
    ∃ b, newDT path (.map (Field.mk "entries" (.struct (Fields.ofList [kf, vf])) false []) false) nl md = .ok b := by
  obtain ⟨kb, hkb⟩ := hk (path ++ "." ++ childName "entries" ++ "." ++ childName kf.name)
  obtain ⟨vb, hvb⟩ := hv (path ++ "." ++ childName "entries" ++ "." ++ childName vf.name)
  exact ⟨_, by simp only [Fields.ofList, newDT, hkb, hvb, bind, Except.bind, pure, Except.pure]; rfl⟩

theorem newDT_union_ok {l : List (Int × Field)} (h : ∀ path, ∃ bl, newUnionFields path (UFields.ofList l) 0 = .ok bl)
    (nl : Bool) (md : Metadata) (path : String) :
    ∃ b, newDT path (.union (UFields.ofList l) .dense) nl md = .ok b := by
  obtain ⟨bl, hbl⟩ := h path
  exact ⟨_, by simp only [newDT, hbl, bind, Except.bind, pure, Except.pure]; rfl⟩

theorem newUnionFields_cons {idx : Nat} {f : Field} {l : List (Int × Field)} (hf : NB f)
    (h : ∀ path, ∃ bl, newUnionFields path (UFields.ofList l) (idx + 1) = .ok bl) :
    ∀ path, ∃ bl, newUnionFields path (UFields.ofList ((Int.ofNat idx, f) :: l)) idx = .ok bl := by
  intro path
  obtain ⟨b, hb⟩ := hf (path ++ "." ++ childName f.name)
  obtain ⟨bl, hbl⟩ := h path
  refine ⟨.cons b (metaOfField f) bl, ?_⟩
  simp only [UFields.ofList, newUnionFields]
  rw [if_neg (by simp)]
  simp only [hb, hbl, bind, Except.bind, pure, Except.pure]

/-! ### names of the produced fields -/

theorem to_fieldsF_names {o : Options} (h0 : o.overwrites = []) (s : Nat) : ∀ (fs : TFields) (l : List Field),
    C07.FWF o s fs → fs.to_fields o = .ok l → l.map Field.name = fs.names
  | .nil, l, _, h => by
    simp only [TFields.to_fields] at h; cases h; rfl
  | .cons n ls t r, l, hw, h => by
    rw [C07.FWF] at hw
    simp only [TFields.to_fields] at h
    obtain ⟨f, hf, h⟩ := bind_ok'.mp h
    obtain ⟨fs', hfs, h⟩ := bind_ok'.mp h
    cases h
    simp only [List.map_cons, TFields.names, to_fieldsF_names h0 s r fs' hw.2.2.2.2 hfs, (to_field_facts h0 hf).1,
      hw.2.2.1]

theorem to_fieldsT_names {o : Options} (h0 : o.overwrites = []) : ∀ (ts : Tracers) (k : Nat) (l : List Field),
    TNT k ts → ts.to_fields o = .ok l →
      (l.map Field.name).Nodup ∧ ∀ n ∈ l.map Field.name, ∃ i, k ≤ i ∧ n = toString i
  | .nil, k, l, _, h => by
    simp only [Tracers.to_fields] at h; cases h; simp
  | .cons t r, k, l, hw, h => by
    rw [TNT] at hw
    simp only [Tracers.to_fields] at h
    obtain ⟨f, hf, h⟩ := bind_ok'.mp h
    obtain ⟨fs', hfs, h⟩ := bind_ok'.mp h
    cases h
    obtain ⟨ih1, ih2⟩ := to_fieldsT_names h0 r (k + 1) fs' hw.2.2 hfs
    have hn : f.name = toString k := by rw [(to_field_facts h0 hf).1, hw.1]
    simp only [List.map_cons, List.nodup_cons, List.mem_cons]
    refine ⟨⟨?_, ih1⟩, ?_⟩
    · intro hm
      obtain ⟨i, hi, he⟩ := ih2 _ hm
      rw [hn] at he
      have := toString_nat_inj _ _ he
      omega
    · rintro n (rfl | hm)
      · exact ⟨k, Nat.le_refl k, hn⟩
      · obtain ⟨i, hi, he⟩ := ih2 _ hm
        exact ⟨i, by omega, he⟩

/-! ### the traversal -/

mutual
theorem to_field_NB (o : Options) (h0 : o.overwrites = []) :
    ∀ (t : Tracer) (f : Field), C07.WF o t → TN t → t.to_field o = .ok f → NB f
  | .unknown n p nl, f, _, _, h => by
    rw [to_field_unknown_inv h0 h]
    refine NB_mk fun path => ?_
    simp only [newDT]; split <;> exact ⟨_, rfl⟩
  | .primitive n p nl ty st, f, hw, _, h => by
    rw [C07.WF] at hw
    have hty := (C07.mem_leafStates.mp hw.2).1
    rcases to_field_primitive_inv h0 h with ⟨_, rfl⟩ | ⟨_, _, ⟨_, rfl⟩ | ⟨_, rfl⟩⟩ | ⟨_, _, rfl⟩
    · refine NB_mk fun path => ?_
      simp only [newDT]; split <;> exact ⟨_, rfl⟩
    · exact NB_mk (newDT_leaf_ok o hty nl [])
    · exact NB_default_dictionary_field o n nl
    · exact NB_mk (newDT_leaf_ok o hty nl _)
  | .list n p nl i, f, hw, ht, h => by
    rw [C07.WF] at hw; rw [TN] at ht
    obtain ⟨item, hi, rfl⟩ := to_field_list_inv h0 h
    exact NB_mk (newDT_list_ok o (to_field_NB o h0 i item hw ht hi) nl [])
  | .map n p nl k v, f, hw, ht, h => by
    rw [C07.WF] at hw; rw [TN] at ht
    obtain ⟨kf, vf, hk, hv, rfl⟩ := to_field_map_inv h0 h
    exact NB_mk (newDT_map_ok (to_field_NB o h0 k kf hw.1 ht.1 hk) (to_field_NB o h0 v vf hw.2 ht.2 hv) nl [])
  | .struct n p nl fs m s, f, hw, ht, h => by
    rw [C07.WF] at hw; rw [TN] at ht
    obtain ⟨fields, hfs, hc⟩ := to_field_struct_inv h0 h
    have ih := to_fieldsF_NB o h0 s fs fields hw ht hfs
    have hd : (fields.map Field.name).Nodup := by
      rw [to_fieldsF_names h0 s fs fields hw hfs]; exact C07.FWF_nodup hw
    rcases hc with ⟨_, rfl⟩ | ⟨_, rfl⟩
    · exact NB_mk (newDT_struct_ok (fun g hg => ih g ((mem_sortByName fields g).1 hg)) (nodup_sortByName hd) nl _)
    · exact NB_mk (newDT_struct_ok ih hd nl _)
  | .tuple n p nl ts, f, hw, ht, h => by
    rw [C07.WF] at hw; rw [TN] at ht
    obtain ⟨fields, hfs, rfl⟩ := to_field_tuple_inv h0 h
    exact NB_mk (newDT_struct_ok (to_fieldsT_NB o h0 ts 0 fields hw ht hfs) (to_fieldsT_names h0 ts 0 fields ht hfs).1
      nl _)
  | .union n p nl vs, f, hw, ht, h => by
    rw [C07.WF] at hw; rw [TN] at ht
    rcases to_field_union_inv h0 h with ⟨_, _, rfl⟩ | ⟨fields, hfs, rfl, _⟩
    · exact NB_default_dictionary_field o n nl
    · exact NB_mk (newDT_union_ok (to_fieldsV_NB o h0 vs 0 fields hw ht hfs) nl [])
theorem to_fieldsT_NB (o : Options) (h0 : o.overwrites = []) :
    ∀ (ts : Tracers) (k : Nat) (l : List Field), C07.TsWF o ts → TNT k ts → ts.to_fields o = .ok l → ∀ f ∈ l, NB f
  | .nil, k, l, _, _, h => by
    simp only [Tracers.to_fields] at h; cases h; simp
  | .cons t r, k, l, hw, ht, h => by
    rw [C07.TsWF] at hw; rw [TNT] at ht
    simp only [Tracers.to_fields] at h
    obtain ⟨f, hf, h⟩ := bind_ok'.mp h
    obtain ⟨fs, hfs, h⟩ := bind_ok'.mp h
    cases h
    intro g hg
    rcases List.mem_cons.1 hg with rfl | hg
    · exact to_field_NB o h0 t _ hw.1 ht.2.1 hf
    · exact to_fieldsT_NB o h0 r (k + 1) fs hw.2 ht.2.2 hfs g hg
theorem to_fieldsF_NB (o : Options) (h0 : o.overwrites = []) (s : Nat) :
    ∀ (fs : TFields) (l : List Field), C07.FWF o s fs → TNF fs → fs.to_fields o = .ok l → ∀ f ∈ l, NB f
  | .nil, l, _, _, h => by
    simp only [TFields.to_fields] at h; cases h; simp
  | .cons _ _ t r, l, hw, ht, h => by
    rw [C07.FWF] at hw; rw [TNF] at ht
    simp only [TFields.to_fields] at h
    obtain ⟨f, hf, h⟩ := bind_ok'.mp h
    obtain ⟨fs', hfs, h⟩ := bind_ok'.mp h
    cases h
    intro g hg
    rcases List.mem_cons.1 hg with rfl | hg
    · exact to_field_NB o h0 t _ hw.2.2.2.1 ht.1 hf
    · exact to_fieldsF_NB o h0 s r fs' hw.2.2.2.2 ht.2 hfs g hg
theorem to_fieldsV_NB (o : Options) (h0 : o.overwrites = []) :
    ∀ (vs : Variants) (idx : Nat) (l : List (Int × Field)), C07.VWF o vs → TNV vs → vs.to_fields o idx = .ok l →
      ∀ path, ∃ bl, newUnionFields path (UFields.ofList l) idx = .ok bl
  | .nil, idx, l, _, _, h => by
    simp only [Variants.to_fields] at h; cases h
    intro path; exact ⟨.nil, by simp only [UFields.ofList, newUnionFields]⟩
  | .absent r, idx, l, hw, ht, h => by
    rw [C07.VWF] at hw; rw [TNV] at ht
    simp only [Variants.to_fields] at h
    split at h
    · obtain ⟨_, hx, _⟩ := bind_ok'.mp h; simp [fail] at hx
    obtain ⟨fs, hfs, h⟩ := bind_ok'.mp h
    cases h
    exact newUnionFields_cons NB_unknown_variant_field (to_fieldsV_NB o h0 r (idx + 1) fs hw ht hfs)
  | .present _ t r, idx, l, hw, ht, h => by
    rw [C07.VWF] at hw; rw [TNV] at ht
    simp only [Variants.to_fields] at h
    split at h
    · obtain ⟨_, hx, _⟩ := bind_ok'.mp h; simp [fail] at hx
    obtain ⟨f, hf, h⟩ := bind_ok'.mp h
    obtain ⟨fs, hfs, h⟩ := bind_ok'.mp h
    cases h
    exact newUnionFields_cons (to_field_NB o h0 t f hw.1 ht.1 hf) (to_fieldsV_NB o h0 r (idx + 1) fs hw.2 ht.2 hfs)
end

/-- `build_builder` accepts every field a reachable tracer produces, at every path -/
theorem to_field_newB (o : Options) (h0 : o.overwrites = []) (t : Tracer) (hinv : Inv o t) (f : Field)
    (h : t.to_field o = .ok f) : ∀ path, ∃ b, newB path f = .ok b :=
  to_field_NB o h0 t f hinv.1 hinv.2 h

/-- **`build_builder` accepts every traced schema** -/
theorem newRoot_traced (o : Options) (h0 : o.overwrites = []) (t : Tracer) (hinv : Inv o t) (fields : List Field)
    (h : t.to_schema o = .ok fields) : ∃ root0, newRoot fields = .ok root0 := by
  obtain ⟨n, children, md, hr, rfl⟩ := to_schema_ok o t fields h
  obtain ⟨b, hb⟩ := to_field_newB o h0 t hinv _ hr "$"
  refine ⟨b, ?_⟩
  rw [newB, newDT] at hb
  rw [newRoot, Roundtrip.ofList_toList']
  exact hb

end SaModel.Lemmas.C06
