import SaModel.Lemmas.C06Steps
/-
C06 helpers, part 8: what one pass of a compound serializer does to the child list it works on
(`absorbKVs`: struct fields; `absorbTupleL`: tuple positions): existing children only move along `Steps`, names keep
their index, fields created after the first sample are nullable.
-/
namespace SaModel.Lemmas.C06
open SaModel SaModel.Trace SaModel.Lemmas.C07 SaModel.Props.C07

/-- `fs2` extends `fs`: every field is still there at the same index (same key lookup), its tracer moved along `Steps` -/
def FsExt (c : Code) (o : Options) (fs fs2 : TFields) : Prop :=
  (∀ i t, fs.get? i = some t → ∃ t2, fs2.get? i = some t2 ∧ Steps c o t t2) ∧
  (∀ k i, fs.indexOf k = some i → fs2.indexOf k = some i)

/-- every field of `fs2` beyond `fs` is nullable -/
def NewNullable (fs fs2 : TFields) : Prop := ∀ i t2, fs2.get? i = some t2 → fs.get? i = none → t2.nullable = true

theorem FsExt.refl (c : Code) (o : Options) (fs : TFields) : FsExt c o fs fs :=
  ⟨fun _ t h => ⟨t, h, Steps.refl c o t⟩, fun _ _ h => h⟩

theorem FsExt.trans {c : Code} {o : Options} {f1 f2 f3 : TFields} (h1 : FsExt c o f1 f2) (h2 : FsExt c o f2 f3) :
    FsExt c o f1 f3 := by
  refine ⟨fun i t h => ?_, fun k i h => h2.2 k i (h1.2 k i h)⟩
  obtain ⟨t2, hg2, hs2⟩ := h1.1 i t h
  obtain ⟨t3, hg3, hs3⟩ := h2.1 i t2 hg2
  exact ⟨t3, hg3, hs2.trans hs3⟩

theorem NewNullable.trans {c : Code} {o : Options} {f1 f2 f3 : TFields} (n1 : NewNullable f1 f2)
    (h2 : FsExt c o f2 f3) (n2 : NewNullable f2 f3) : NewNullable f1 f3 := by
  intro i t3 hg3 hn1
  cases hg2 : f2.get? i with
  | none => exact n2 i t3 hg3 hg2
  | some t2 =>
    obtain ⟨t3', hg3', hs⟩ := h2.1 i t2 hg2
    rw [hg3] at hg3'; cases hg3'
    exact hs.keeps.1 (n1 i t2 hg2 hn1)

theorem NewNullable.of_length {fs fs2 : TFields} (h : fs2.length = fs.length) : NewNullable fs fs2 := by
  intro i t2 hg hn
  have := TFields.get?_lt hg
  rw [TFields.get?_none_iff] at hn
  omega

theorem ensure_field_ext (c : Code) (o : Options) (path : String) (s : Nat) (fs : TFields) (k : String) :
    FsExt c o fs (ensure_field path s fs k).2 ∧ (s ≠ 0 → NewNullable fs (ensure_field path s fs k).2) := by
  cases hi : fs.indexOf k with
  | some i =>
    rw [ensure_field_found hi]; simp only
    refine ⟨⟨fun j t h => ⟨t, by rw [TFields.get?_setLastSeen]; exact h, Steps.refl c o t⟩,
      fun k' j h => by rw [TFields.indexOf_setLastSeen]; exact h⟩, fun _ => ?_⟩
    exact NewNullable.of_length (TFields.length_setLastSeen fs i s)
  | none =>
    rw [ensure_field_new hi]; simp only
    refine ⟨⟨fun j t h => ⟨t, by rw [TFields.get?_push_lt _ _ _ _ _ (TFields.get?_lt h)]; exact h, Steps.refl c o t⟩,
      fun k' j h => TFields.indexOf_push_some fs _ _ _ k' j h⟩, fun hs => ?_⟩
    intro j t2 hg hn
    rw [TFields.get?_none_iff] at hn
    have hlt := TFields.get?_lt hg
    rw [TFields.length_push] at hlt
    have : j = fs.length := by omega
    subst this
    rw [TFields.get?_push_len] at hg; cases hg
    have : (s != 0) = true := by simpa using hs
    rw [if_pos this]; exact mark_nullable_nullable _

theorem set_ext (c : Code) (o : Options) (fs : TFields) (i : Nat) (ft ft' : Tracer) (hg : fs.get? i = some ft)
    (hs : Steps c o ft ft') : FsExt c o fs (fs.set i ft') ∧ NewNullable fs (fs.set i ft') := by
  refine ⟨⟨fun j t h => ?_, fun k j h => by rw [TFields.indexOf_set]; exact h⟩,
    NewNullable.of_length (TFields.length_set fs i ft')⟩
  by_cases e : i = j
  · subst e
    rw [hg] at h; cases h
    exact ⟨ft', TFields.get?_set_eq fs i ft' (TFields.get?_lt hg), hs⟩
  · exact ⟨t, by rw [TFields.get?_set_ne _ _ _ _ e]; exact h, Steps.refl c o t⟩

theorem end_ext (c : Code) (o : Options) (s : Nat) (fs : TFields) :
    FsExt c o fs (fs.end_ s) ∧ NewNullable fs (fs.end_ s) := by
  refine ⟨⟨fun j t h => ?_, fun k j h => by rw [TFields.indexOf_end]; exact h⟩,
    NewNullable.of_length (TFields.length_end s fs)⟩
  obtain ⟨l, hl⟩ := lastSeen?_of_lt (TFields.get?_lt h)
  refine ⟨_, TFields.get?_end s fs j t l h hl, ?_⟩
  split
  · exact Steps.mark c o t
  · exact Steps.refl c o t

/-- one pass over the fields of a sample -/
theorem absorbKVs_ext (c : Code) (o : Options) (path : String) (s : Nat) : ∀ (kvs : List (String × SVal))
    (fs fs' : TFields), absorbKVs c o path s fs kvs = .ok fs' → FsExt c o fs fs' ∧ (s ≠ 0 → NewNullable fs fs')
  | [], fs, fs', h => by
    simp [absorbKVs] at h; subst h
    exact ⟨FsExt.refl c o fs, fun _ => NewNullable.of_length rfl⟩
  | kv :: kvs, fs, fs', h => by
    simp only [absorbKVs] at h
    have h1 := ensure_field_ext c o path s fs kv.1
    cases hg : (ensure_field path s fs kv.1).2.get? (ensure_field path s fs kv.1).1 with
    | none => rw [hg] at h; cases h
    | some ft =>
      rw [hg] at h; simp only at h
      cases ha : absorb c o ft kv.2 with
      | error e => rw [ha] at h; cases h
      | ok ft' =>
        rw [ha] at h; simp only at h
        have h2 := set_ext c o _ _ ft ft' hg (Steps.single ha)
        have h3 := absorbKVs_ext c o path s kvs _ fs' h
        refine ⟨(h1.1.trans h2.1).trans h3.1, fun hs => ?_⟩
        exact ((h1.2 hs).trans h2.1 h2.2).trans h3.1 (h3.2 hs)

/-! ### tuples -/

def TsExt (c : Code) (o : Options) (ts ts2 : Tracers) : Prop :=
  ∀ i t, ts.get? i = some t → ∃ t2, ts2.get? i = some t2 ∧ Steps c o t t2

theorem TsExt.refl (c : Code) (o : Options) (ts : Tracers) : TsExt c o ts ts :=
  fun _ t h => ⟨t, h, Steps.refl c o t⟩

theorem TsExt.trans {c : Code} {o : Options} {f1 f2 f3 : Tracers} (h1 : TsExt c o f1 f2) (h2 : TsExt c o f2 f3) :
    TsExt c o f1 f3 := by
  intro i t h
  obtain ⟨t2, hg2, hs2⟩ := h1 i t h
  obtain ⟨t3, hg3, hs3⟩ := h2 i t2 hg2
  exact ⟨t3, hg3, hs2.trans hs3⟩

theorem TsExt.length_le {c : Code} {o : Options} {f1 f2 : Tracers} (h : TsExt c o f1 f2) : f1.length ≤ f2.length := by
  apply Nat.le_of_not_lt
  intro hlt
  have hpos : f1.length - 1 < f1.length := by omega
  obtain ⟨t, ht⟩ := Tracers.get?_of_lt hpos
  obtain ⟨t2, hg2, _⟩ := h _ t ht
  have := Tracers.get?_lt hg2
  omega

theorem growN_ext (c : Code) (o : Options) (g : Tracers → Tracer) (k : Nat) (ts : Tracers) :
    TsExt c o ts (growN g k ts) :=
  fun i t h => ⟨t, by rw [growN_get?_lt g k ts i (Tracers.get?_lt h)]; exact h, Steps.refl c o t⟩

theorem setT_ext (c : Code) (o : Options) (ts : Tracers) (i : Nat) (ft ft' : Tracer) (hg : ts.get? i = some ft)
    (hs : Steps c o ft ft') : TsExt c o ts (ts.set i ft') := by
  intro j t h
  by_cases e : i = j
  · subst e
    rw [hg] at h; cases h
    exact ⟨ft', Tracers.get?_set_eq ts i ft' (Tracers.get?_lt hg), hs⟩
  · exact ⟨t, by rw [Tracers.get?_set_ne _ _ _ _ e]; exact h, Steps.refl c o t⟩

theorem markFrom_ext (c : Code) (o : Options) (ts : Tracers) (k : Nat) : TsExt c o ts (ts.markFrom k) := by
  intro i t h
  refine ⟨_, by rw [Tracers.get?_markFrom, h]; rfl, ?_⟩
  split
  · exact Steps.mark c o t
  · exact Steps.refl c o t

/-- one pass over the positions of a tuple sample -/
theorem absorbTupleL_ext (c : Code) (o : Options) (path : String) : ∀ (vs : List SVal) (ts : Tracers) (pos : Nat)
    (ts' : Tracers), absorbTupleL c o path ts pos vs = .ok ts' →
    TsExt c o ts ts' ∧ (pos + vs.length ≤ ts.length → ts'.length = ts.length) ∧
    (∀ j, pos ≤ j → j < pos + vs.length → j < ts'.length)
  | [], ts, pos, ts', h => by
    simp [absorbTupleL] at h; subst h
    exact ⟨TsExt.refl c o ts, fun _ => rfl, fun j h1 h2 => by simp at h2; omega⟩
  | v :: vs, ts, pos, ts', h => by
    simp only [absorbTupleL] at h
    cases hg : (field_tracer_grow path pos ts).get? pos with
    | none => rw [hg] at h; cases h
    | some ft =>
      rw [hg] at h; simp only at h
      cases ha : absorb c o ft v with
      | error e => rw [ha] at h; cases h
      | ok ft' =>
        rw [ha] at h; simp only at h
        have h1 : TsExt c o ts (field_tracer_grow path pos ts) := by
          rw [field_tracer_grow_eq]; exact growN_ext c o _ _ ts
        have h2 := setT_ext c o _ pos ft ft' hg (Steps.single ha)
        obtain ⟨h3, h4, h5⟩ := absorbTupleL_ext c o path vs _ (pos + 1) ts' h
        refine ⟨(h1.trans h2).trans h3, fun hle => ?_, ?_⟩
        · simp only [List.length_cons] at hle
          rw [field_tracer_grow_of_lt path pos ts (by omega)] at h4
          rw [Tracers.length_set] at h4
          exact h4 (by omega)
        · intro j hj1 hj2
          simp only [List.length_cons] at hj2
          by_cases e : j = pos
          · subst e
            obtain ⟨t3, hg3, _⟩ := h3 j ft' (Tracers.get?_set_eq _ j ft' (Tracers.get?_lt hg))
            exact Tracers.get?_lt hg3
          · exact h5 j (by omega) (by omega)

end SaModel.Lemmas.C06
