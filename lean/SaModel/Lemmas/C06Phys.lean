import SaModel.Lemmas.C06Room
import SaModel.Lemmas.C06Readable
import SaModel.Lemmas.C02Container
import SaModel.Lemmas.C03Finish
import SaModel.Lemmas.C01NewShape
import SaModel.Lemmas.C03ObsFinish
/-
C06 (closure): the shape of TRACED schemas that the size precondition `Read.physical` of the reader depends on.

`Read.physical` asks that the value count of every Dictionary array fits `i64` (and bounds FixedSizeList children; traced
schemas have none).  What the closure uses of this file (`Props.C06.C06_closure_physical`, through
`Lemmas/C06PhysSize.lean: traced_sizeOK`):

  physKeysDT          the schema shape: Dictionary(UInt32, Utf8 | LargeUtf8) only, no FixedSizeList
  closed_physKeys,
  to_schema_physKeys  every traced schema has it

`Read.physical` of the built arrays itself comes from `Props.C03.toMarrow_physical` (the builders' counting invariant: a
dictionary holds at most as many values as keys were pushed) with `xs.length ≤ 2^63 - 1`, NOT from this file.

Also in this file, used by NO theorem of `Props/C06*.lean`: a capacity argument for the same conclusion under the stricter
bound `Σ vsize < 2^31 - 1` — `room b` is at most the number of FREE KEYS of every dictionary in the builder tree (`keyRoom idx
index.length = 2^32 - index.length` for UInt32 keys), so a final builder with `1 ≤ room root` holds fewer than `2^32` values
in every dictionary (`PhysB`: every dictionary has `index.length < 2^32` and a string value builder; `physB_of_room`), and
`into_array` turns such a state into `physical` arrays (`finish_physical`, `buildArrays_physical`).
STATUS of that part (`PhysB` … `buildArrays_physical`): NOTHING uses it — no theorem of `Props/C06*.lean`, no other module
(`Lemmas/C06PhysSize.lean` and `Props/C06Closure.lean` import this file for `physKeysDT` / `to_schema_physKeys` only).  It is
not wired into `C06_closure` on purpose: its conclusion (`Read.physical` of the built arrays) is `C06_closure_physical`
under the WEAKER premise `xs.length ≤ 2^63 - 1`, which `C06_closure` derives from its capacity bound
(`length_le_vsize_sum`); a corollary through `physB_of_room` would restate a proved statement under a stronger hypothesis.
Kept as an independent second proof of the same fact (it is built and kernel-checked with the file, audited with nothing).
-/
namespace SaModel.Lemmas.C06
open SaModel SaModel.Build SaModel.Spec SaModel.Lemmas.C03 SaModel.Trace

def isU32 : DataType → Bool
  | .uint32 => true
  | _ => false

mutual
/-- Dictionary(UInt32, Utf8 | LargeUtf8) only, no FixedSizeList -/
def physKeysDT : DataType → Bool
  | .dictionary k v => isU32 k && isStrDT v
  | .fixedSizeList _ _ => false
  | .list f | .largeList f | .map f _ => physKeysF f
  | .struct fs => physKeysFs fs
  | .union ufs _ => physKeysU ufs
  | _ => true
def physKeysF : Field → Bool
  | .mk _ dt _ _ => physKeysDT dt
def physKeysFs : Fields → Bool
  | .nil => true
  | .cons f r => physKeysF f && physKeysFs r
def physKeysU : UFields → Bool
  | .nil => true
  | .cons _ f r => physKeysF f && physKeysU r
end

theorem physKeysF_dt (f : Field) : physKeysF f = physKeysDT f.dataType := by cases f; simp [physKeysF, Field.dataType]

mutual
/-- every dictionary in the builder tree holds fewer than `2^32` values in a string builder; no fixed-size list -/
def PhysB : B → Prop
  | .list _ _ _ _ _ el => PhysB el
  | .fixedSizeList _ _ _ _ _ _ _ => False
  | .map _ _ _ _ ks vs => PhysB ks ∧ PhysB vs
  | .struct _ _ _ fs _ _ _ => PhysBL fs
  | .dictionary _ _ vals index => index.length < 4294967296 ∧ ∃ p ty v offs data, vals = .bytes p ty v offs data
  | .union _ fs _ _ _ => PhysBL fs
  | _ => True
def PhysBL : BL → Prop
  | .nil => True
  | .cons b _ r => PhysB b ∧ PhysBL r
end

/-! ### from the head room -/

theorem builtFor_u32 (idx : B) (nl : Bool) (hb : BuiltFor .uint32 nl idx) :
    ∃ p v vals, idx = .leaf p (.int .u32) v vals := by
  cases idx with
  | leaf p kind v vals =>
    simp only [BuiltFor] at hb
    cases kind with
    | int t => cases t <;> simp [C03.leafDT, C03.intDT] at hb; exact ⟨p, v, vals, rfl⟩
    | _ => simp [C03.leafDT] at hb
  | null _ _ => simp [BuiltFor] at hb
  | unknownVariant _ => simp [BuiltFor] at hb
  | bytes _ ty _ _ _ => simp only [BuiltFor] at hb; cases ty <;> simp [C03.bytesDT] at hb
  | bytesView _ ty _ _ _ => simp only [BuiltFor] at hb; cases ty <;> simp [C03.viewDT] at hb
  | fixedSizeBinary _ _ _ _ _ _ => simp [BuiltFor] at hb
  | list _ large _ _ _ _ => simp only [BuiltFor] at hb; obtain ⟨f, h, _⟩ := hb; cases large <;> simp at h
  | fixedSizeList _ _ _ _ _ _ _ => simp only [BuiltFor] at hb; obtain ⟨f, h, _⟩ := hb; simp at h
  | map _ _ _ _ _ _ => simp only [BuiltFor] at hb; obtain ⟨_, _, _, _, _, _, h, _⟩ := hb; simp at h
  | struct _ _ _ _ _ _ _ => simp only [BuiltFor] at hb; obtain ⟨_, h, _⟩ := hb; simp at h
  | dictionary _ _ _ _ => simp only [BuiltFor] at hb; obtain ⟨_, _, h, _⟩ := hb; simp at h
  | union _ _ _ _ _ => simp only [BuiltFor] at hb; obtain ⟨_, _, h, _⟩ := hb; simp at h

theorem builtFor_str (vals : B) (vdt : DataType) (nl : Bool) (hb : BuiltFor vdt nl vals) (hs : isStrDT vdt = true) :
    ∃ p ty v offs data, vals = .bytes p ty v offs data := by
  cases vals with
  | bytes p ty v offs data => exact ⟨p, ty, v, offs, data, rfl⟩
  | leaf p kind v vals =>
    simp only [BuiltFor] at hb; obtain ⟨rfl, _⟩ := hb
    cases kind with
    | int t => cases t <;> simp [C03.leafDT, C03.intDT, isStrDT] at hs
    | _ => simp [C03.leafDT, isStrDT] at hs
  | null _ _ => simp only [BuiltFor] at hb; subst hb; simp [isStrDT] at hs
  | unknownVariant _ => simp only [BuiltFor] at hb; subst hb; simp [isStrDT] at hs
  | bytesView _ ty _ _ _ => simp only [BuiltFor] at hb; obtain ⟨rfl, _⟩ := hb; cases ty <;> simp [C03.viewDT, isStrDT] at hs
  | fixedSizeBinary _ _ _ _ _ _ => simp only [BuiltFor] at hb; obtain ⟨rfl, _⟩ := hb; simp [isStrDT] at hs
  | list _ large _ _ _ _ =>
    simp only [BuiltFor] at hb; obtain ⟨f, rfl, _⟩ := hb; cases large <;> simp [isStrDT] at hs
  | fixedSizeList _ _ _ _ _ _ _ => simp only [BuiltFor] at hb; obtain ⟨f, rfl, _⟩ := hb; simp [isStrDT] at hs
  | map _ _ _ _ _ _ => simp only [BuiltFor] at hb; obtain ⟨_, _, _, _, _, _, rfl, _⟩ := hb; simp [isStrDT] at hs
  | struct _ _ _ _ _ _ _ => simp only [BuiltFor] at hb; obtain ⟨_, rfl, _⟩ := hb; simp [isStrDT] at hs
  | dictionary _ _ _ _ => simp only [BuiltFor] at hb; obtain ⟨_, _, rfl, _⟩ := hb; simp [isStrDT] at hs
  | union _ _ _ _ _ => simp only [BuiltFor] at hb; obtain ⟨_, _, rfl, _⟩ := hb; simp [isStrDT] at hs

mutual
/-- a builder with head room left holds fewer than `2^32` values in each of its (UInt32-keyed) dictionaries -/
theorem physB_of_room : ∀ (b : B) (dt : DataType) (nl : Bool), BuiltFor dt nl b → physKeysDT dt = true → 1 ≤ room b →
    PhysB b
  | .null _ _, _, _, _, _, _ | .unknownVariant _, _, _, _, _, _ | .leaf _ _ _ _, _, _, _, _, _
  | .bytes _ _ _ _ _, _, _, _, _, _ | .bytesView _ _ _ _ _, _, _, _, _, _
  | .fixedSizeBinary _ _ _ _ _ _, _, _, _, _, _ => by simp [PhysB]
  | .list _ large fm v _ el, dt, nl, hb, hk, hr => by
    simp only [BuiltFor] at hb
    obtain ⟨f, rfl, _, _, hel⟩ := hb
    have hkf : physKeysDT f.dataType = true := by rw [← physKeysF_dt]; cases large <;> simpa [physKeysDT] using hk
    simp only [room] at hr
    simp only [PhysB]
    exact physB_of_room el _ _ hel hkf (by omega)
  | .fixedSizeList _ fm n _ v _ el, dt, nl, hb, hk, _ => by
    simp only [BuiltFor] at hb
    obtain ⟨f, rfl, _⟩ := hb
    simp [physKeysDT] at hk
  | .map _ mm v _ ks vs, dt, nl, hb, hk, hr => by
    simp only [BuiltFor] at hb
    obtain ⟨ename, kf, vf, sorted, enl, emd, rfl, _, _, hkb, hvb⟩ := hb
    simp only [physKeysDT, physKeysF, physKeysFs, Bool.and_eq_true, Bool.and_true] at hk
    simp only [room] at hr
    simp only [PhysB]
    exact ⟨physB_of_room ks _ _ hkb (by rw [← physKeysF_dt]; exact hk.1) (by omega),
      physB_of_room vs _ _ hvb (by rw [← physKeysF_dt]; exact hk.2) (by omega)⟩
  | .struct _ _ v fs _ _ _, dt, nl, hb, hk, hr => by
    simp only [BuiltFor] at hb
    obtain ⟨fields, rfl, _, hl⟩ := hb
    simp only [room] at hr
    simp only [PhysB]
    exact physBL_of_room fs fields hl (by simpa [physKeysDT] using hk) hr
  | .dictionary _ idx vals index, dt, nl, hb, hk, hr => by
    simp only [BuiltFor] at hb
    obtain ⟨k, vdt, rfl, _, hidx, hvals⟩ := hb
    simp only [physKeysDT, Bool.and_eq_true] at hk
    have hk1 : k = .uint32 := by cases k <;> simp [isU32] at hk <;> rfl
    subst hk1
    obtain ⟨p, v, ivals, rfl⟩ := builtFor_u32 idx nl hidx
    simp only [room, keyRoom, IntTy.max] at hr
    simp only [PhysB]
    exact ⟨by omega, builtFor_str vals vdt false hvals hk.2⟩
  | .union _ fs _ _ _, dt, nl, hb, hk, hr => by
    simp only [BuiltFor] at hb
    obtain ⟨ufs, mode, rfl, hu⟩ := hb
    simp only [room] at hr
    simp only [PhysB]
    exact physBU_of_room fs ufs 0 hu (by simpa [physKeysDT] using hk) (by omega)
theorem physBL_of_room : ∀ (bl : BL) (fs : Fields), BuiltForL fs bl → physKeysFs fs = true → 1 ≤ roomL bl → PhysBL bl
  | .nil, _, _, _, _ => by simp [PhysBL]
  | .cons b m r, .nil, hb, _, _ => by simp [BuiltForL] at hb
  | .cons b m r, .cons f fr, hb, hk, hr => by
    simp only [BuiltForL] at hb
    simp only [physKeysFs, Bool.and_eq_true] at hk
    simp only [roomL] at hr
    simp only [PhysBL]
    exact ⟨physB_of_room b _ _ hb.2.1 (by rw [← physKeysF_dt]; exact hk.1) (by omega),
      physBL_of_room r fr hb.2.2 hk.2 (by omega)⟩
theorem physBU_of_room : ∀ (bl : BL) (ufs : UFields) (k : Nat), BuiltForU ufs bl k → physKeysU ufs = true →
    1 ≤ roomL bl → PhysBL bl
  | .nil, _, _, _, _, _ => by simp [PhysBL]
  | .cons b m r, .nil, _, hb, _, _ => by simp [BuiltForU] at hb
  | .cons b m r, .cons tid f fr, k, hb, hk, hr => by
    simp only [BuiltForU] at hb
    simp only [physKeysU, Bool.and_eq_true] at hk
    simp only [roomL] at hr
    simp only [PhysBL]
    exact ⟨physB_of_room b _ _ hb.2.2.1 (by rw [← physKeysF_dt]; exact hk.1) (by omega),
      physBU_of_room r fr (k + 1) hb.2.2.2 hk.2 (by omega)⟩
end

/-! ### through `into_array` (on the WEAK state invariant `WFH` of the hidden-rows refinement: no `Safe`; the placeholder
branch of `DictionaryUtf8Builder::into_array` appends ONE dummy value, still far below `i64::MAX`) -/

theorem physical_finishLeaf (k : LeafKind) (v : Validity) (vals : List Int) :
    Read.physical (finishLeaf k v vals) = true := by
  cases k <;> simp [finishLeaf, Read.physical]

theorem dec_bytes_length {p ty v offs data} (h : WFH (.bytes p ty v offs data)) :
    (dec (.bytes p ty v offs data)).length = offs.length - 1 := by
  simp only [WFH] at h
  simp only [dec]
  rw [Build.maskNull_length (by simpa [Build.pairs_length] using h.2)]
  simp [Build.pairs_length]

mutual
/-- **`into_array` of a `PhysB` state is `physical`** -/
theorem finish_physical (ext : Ext) : ∀ (b : B) (a : Arr), finish ext b = .ok a → WFH b → PhysB b →
    Read.physical a = true
  | .null _ _, a, h, _, _ => by simp only [finish] at h; cases h; simp [Read.physical]
  | .unknownVariant _, a, h, _, _ => by simp only [finish] at h; cases h; simp [Read.physical]
  | .leaf _ k v vals, a, h, _, _ => by simp only [finish] at h; cases h; exact physical_finishLeaf k v vals
  | .bytes _ _ _ _ _, a, h, _, _ => by simp only [finish] at h; cases h; simp [Read.physical]
  | .bytesView _ _ _ _ _, a, h, _, _ => by simp only [finish] at h; cases h; simp [Read.physical]
  | .fixedSizeBinary _ _ _ _ _ _, a, h, _, _ => by
    simp only [finish] at h
    split at h
    · simp [fail] at h
    · cases h; simp [Read.physical]
  | .list _ _ _ _ _ el, a, h, hw, hp => by
    simp only [finish] at h
    obtain ⟨ea, he, h⟩ := Read.bind_ok_inv h
    cases h
    simp only [Read.physical]
    exact finish_physical ext el ea he (WFH_list hw).2.2 (by simpa [PhysB] using hp)
  | .fixedSizeList _ _ _ _ _ _ _, _, _, _, hp => by simp [PhysB] at hp
  | .map _ _ _ _ ks vs, a, h, hw, hp => by
    simp only [finish] at h
    obtain ⟨ka, hk, h⟩ := Read.bind_ok_inv h
    obtain ⟨va, hv, h⟩ := Read.bind_ok_inv h
    cases h
    simp only [PhysB] at hp
    simp only [Read.physical, Bool.and_eq_true]
    have hwm := WFH_map hw
    exact ⟨finish_physical ext ks ka hk hwm.2.2.2.1 hp.1, finish_physical ext vs va hv hwm.2.2.2.2 hp.2⟩
  | .struct _ len _ fs _ _ _, a, h, hw, hp => by
    simp only [finish] at h
    obtain ⟨afs, hf, h⟩ := Read.bind_ok_inv h
    cases h
    simp only [Read.physical]
    exact finishFields_physical ext fs afs hf (WFHL_WFHs fs len (WFH_struct hw).2) (by simpa [PhysB] using hp)
  | .dictionary _ idx vals index, a, h, hw, hp => by
    simp only [PhysB] at hp
    obtain ⟨hlen, p, ty, v, offs, data, rfl⟩ := hp
    have hwd := WFH_dictionary hw
    have hl := dec_bytes_length hwd.2.1
    rw [hwd.2.2] at hl
    have hmax : Read.i64Max.toNat = 9223372036854775807 := by decide
    simp only [finish] at h
    obtain ⟨ka, _, h⟩ := Read.bind_ok_inv h
    simp only [bind, Except.bind] at h
    split at h
    · split at h
      · cases h
      · cases h
        simp only [appendEmptyStr, Read.physical, lenOf, decide_eq_true_eq, List.length_append, List.length_singleton,
          hmax]
        omega
    · cases h
      simp only [Read.physical, lenOf, decide_eq_true_eq, hmax]
      omega
  | .union _ fs _ _ cur, a, h, hw, hp => by
    simp only [finish] at h
    obtain ⟨afs, hf, h⟩ := Read.bind_ok_inv h
    cases h
    simp only [Read.physical]
    exact finishUFields_physical ext fs 0 afs hf (WFHU_WFHs fs cur (WFH_union hw).2.1) (by simpa [PhysB] using hp)
theorem finishFields_physical (ext : Ext) : ∀ (fs : BL) (afs : ArrFields), finishFields ext fs = .ok afs → WFHs fs →
    PhysBL fs → Read.physicalFields afs = true
  | .nil, afs, h, _, _ => by simp only [finishFields] at h; cases h; simp [Read.physicalFields]
  | .cons b m rest, afs, h, hw, hp => by
    simp only [finishFields] at h
    obtain ⟨a, ha, h⟩ := Read.bind_ok_inv h
    obtain ⟨r, hr, h⟩ := Read.bind_ok_inv h
    cases h
    simp only [WFHs] at hw
    simp only [PhysBL] at hp
    simp only [Read.physicalFields, Bool.and_eq_true]
    exact ⟨finish_physical ext b a ha hw.1 hp.1, finishFields_physical ext rest r hr hw.2 hp.2⟩
theorem finishUFields_physical (ext : Ext) : ∀ (fs : BL) (idx : Nat) (afs : ArrUFields),
    finishUFields ext fs idx = .ok afs → WFHs fs → PhysBL fs → Read.physicalUFields afs = true
  | .nil, _, afs, h, _, _ => by simp only [finishUFields] at h; cases h; simp [Read.physicalUFields]
  | .cons b m rest, idx, afs, h, hw, hp => by
    simp only [finishUFields] at h
    split at h
    · simp [fail] at h
    obtain ⟨a, ha, h⟩ := Read.bind_ok_inv h
    obtain ⟨r, hr, h⟩ := Read.bind_ok_inv h
    cases h
    simp only [WFHs] at hw
    simp only [PhysBL] at hp
    simp only [Read.physicalUFields, Bool.and_eq_true]
    exact ⟨finish_physical ext b a ha hw.1 hp.1, finishUFields_physical ext rest (idx + 1) r hr hw.2 hp.2⟩
end

theorem physicalFields_mem : ∀ (afs : ArrFields), Read.physicalFields afs = true → ∀ c ∈ afs.toList, Read.physical c.2 = true
  | .nil, _, c, hc => by simp [ArrFields.toList] at hc
  | .cons m a r, h, c, hc => by
    simp only [Read.physicalFields, Bool.and_eq_true] at h
    simp only [ArrFields.toList, List.mem_cons] at hc
    rcases hc with rfl | hc
    · exact h.1
    · exact physicalFields_mem r h.2 c hc

/-- **`build_arrays` of a `PhysB` root gives `physical` arrays** -/
theorem buildArrays_physical (ext : Ext) (root rest : B) (arrs : List Arr)
    (h : buildArrays ext root = .ok (arrs, rest)) (hw : WFH root) (hp : PhysB root) : ∀ a ∈ arrs, Read.physical a = true := by
  cases root with
  | struct p len v fs cached next seen =>
    simp only [buildArrays] at h
    obtain ⟨cols, hc, h⟩ := Read.bind_ok_inv h
    simp only [pure, Except.pure, Except.ok.injEq, Prod.mk.injEq] at h
    obtain ⟨rfl, _⟩ := h
    have := finishFields_physical ext fs cols hc (WFHL_WFHs fs len (WFH_struct hw).2) (by simpa [PhysB] using hp)
    intro a ha
    obtain ⟨c, hc, rfl⟩ := List.mem_map.mp ha
    exact physicalFields_mem cols this c hc
  | _ => simp [buildArrays, panic] at h

/-! ### every traced schema has the shape -/

theorem physKeysFs_ofList : ∀ (l : List Field), (∀ f ∈ l, physKeysF f = true) → physKeysFs (Fields.ofList l) = true
  | [], _ => by simp [Fields.ofList, physKeysFs]
  | f :: r, h => by
    simp [Fields.ofList, physKeysFs, h f (by simp), physKeysFs_ofList r (fun g hg => h g (by simp [hg]))]

theorem physKeysU_ofList : ∀ (l : List (Int × Field)), (∀ p ∈ l, physKeysF p.2 = true) →
    physKeysU (UFields.ofList l) = true
  | [], _ => by simp [UFields.ofList, physKeysU]
  | (i, f) :: r, h => by
    have h1 := h (i, f) (by simp)
    simp only at h1
    simp [UFields.ofList, physKeysU, h1, physKeysU_ofList r (fun g hg => h g (by simp [hg]))]

theorem physKeys_leafStates (o : Options) : ∀ s ∈ leafStates o,
    (match s.1 with | some ty => physKeysDT ty | none => true) = true := by
  simp only [leafStates, leafTypes, Options.string_type]
  cases o.string_as_large_utf8 <;> decide

theorem closed_physKeys (o : Options) : Closed o (fun f => physKeysF f = true) where
  null := fun n nl => by simp [physKeysF, physKeysDT]
  leaf := fun n nl ty h => by
    have := physKeys_leafStates o _ h
    simp only at this
    simp [physKeysF, this]
  dict := fun n nl _ => by
    simp only [default_dictionary_field, Options.string_type]
    split <;> simp [physKeysF, physKeysDT, isU32, isStrDT]
  unknownVariant := by decide
  list := fun n nl item h => by simp [physKeysF, physKeysDT, h]
  map := fun n nl kf vf hk hv => by simp [physKeysF, physKeysDT, physKeysFs, Fields.ofList, hk, hv]
  struct := fun n nl l md _ h => by simp [physKeysF, physKeysDT, physKeysFs_ofList l h]
  union := fun n nl l h => by simp [physKeysF, physKeysDT, physKeysU_ofList l h]

/-- **every traced schema has Dictionary(UInt32, string) columns only and no FixedSizeList** -/
theorem to_schema_physKeys (o : Options) (h0 : o.overwrites = []) (t : Tracer) (hw : WF o t) (fields : List Field)
    (h : t.to_schema o = .ok fields) : physKeysFs (Fields.ofList fields) = true := by
  obtain ⟨n, children, md, hr, rfl⟩ := to_schema_ok o t fields h
  have hs := to_field_closed o h0 (closed_physKeys o) t _ hw hr
  rw [Roundtrip.ofList_toList']
  simpa [physKeysF, physKeysDT] using hs

end SaModel.Lemmas.C06
