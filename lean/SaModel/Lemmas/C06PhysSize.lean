import SaModel.Lemmas.C06Phys
import SaModel.Lemmas.C03PhysSize
/-
C06 (closure): the size condition `sizeOKDT` of `Props.C03.toMarrow_physical` for TRACED schemas.  A traced schema has no
FixedSizeList (`physKeysDT`, `to_schema_physKeys`), so the condition is `number of samples ≤ i64::MAX`
(`Lemmas.C03.sizeOKDT_of_fslFree`).
-/
namespace SaModel.Lemmas.C06
open SaModel SaModel.Lemmas.C03

mutual
theorem fslFree_of_physKeys : ∀ (dt : DataType), physKeysDT dt = true → fslFreeDT dt = true
  | .fixedSizeList _ _, h => by simp [physKeysDT] at h
  | .list f, h | .largeList f, h => by simp only [physKeysDT] at h; simp only [fslFreeDT]; exact fslFreeF_of_physKeys f h
  | .map ef _, h => by
    rcases ef with ⟨en, edt, enl, emd⟩
    simp only [physKeysDT, physKeysF] at h
    cases edt with
    | struct efs =>
      cases efs with
      | nil => simp [fslFreeDT]
      | cons kf r1 =>
        cases r1 with
        | nil => simp [fslFreeDT]
        | cons vf r2 =>
          cases r2 with
          | nil =>
            simp only [physKeysDT, physKeysFs, Bool.and_eq_true, Bool.and_true] at h
            simp only [fslFreeDT, Bool.and_eq_true]
            exact ⟨fslFreeF_of_physKeys kf h.1, fslFreeF_of_physKeys vf h.2⟩
          | cons _ _ => simp [fslFreeDT]
    | _ => simp [fslFreeDT]
  | .struct fs, h => by simp only [physKeysDT] at h; simp only [fslFreeDT]; exact fslFreeFs_of_physKeys fs h
  | .union ufs _, h => by simp only [physKeysDT] at h; simp only [fslFreeDT]; exact fslFreeUs_of_physKeys ufs h
  | .dictionary _ _, _ => by simp [fslFreeDT]
  | .null, _ | .boolean, _ | .int8, _ | .int16, _ | .int32, _ | .int64, _
  | .uint8, _ | .uint16, _ | .uint32, _ | .uint64, _
  | .float16, _ | .float32, _ | .float64, _
  | .utf8, _ | .largeUtf8, _ | .utf8View, _ | .binary, _ | .largeBinary, _
  | .binaryView, _ | .fixedSizeBinary _, _ | .date32, _ | .date64, _
  | .timestamp _ _, _ | .time32 _, _ | .time64 _, _ | .duration _, _
  | .interval _, _ | .decimal128 _ _, _ | .runEndEncoded _ _, _ => by simp [fslFreeDT]
theorem fslFreeF_of_physKeys : ∀ (f : Field), physKeysF f = true → fslFreeF f = true
  | .mk _ dt _ _, h => by simp only [physKeysF] at h; simp only [fslFreeF]; exact fslFree_of_physKeys dt h
theorem fslFreeFs_of_physKeys : ∀ (fs : Fields), physKeysFs fs = true → fslFreeFs fs = true
  | .nil, _ => rfl
  | .cons f r, h => by
    simp only [physKeysFs, Bool.and_eq_true] at h
    simp [fslFreeFs, fslFreeF_of_physKeys f h.1, fslFreeFs_of_physKeys r h.2]
theorem fslFreeUs_of_physKeys : ∀ (ufs : UFields), physKeysU ufs = true → fslFreeUFs ufs = true
  | .nil, _ => rfl
  | .cons _ f r, h => by
    simp only [physKeysU, Bool.and_eq_true] at h
    simp [fslFreeUFs, fslFreeF_of_physKeys f h.1, fslFreeUs_of_physKeys r h.2]
end

theorem fslFreeFs_mem : ∀ (l : List Field), fslFreeFs (Fields.ofList l) = true → ∀ f ∈ l, fslFreeDT f.dataType = true
  | [], _, f, hf => by cases hf
  | g :: r, h, f, hf => by
    simp only [Fields.ofList, fslFreeFs, Bool.and_eq_true] at h
    rcases List.mem_cons.mp hf with rfl | hf
    · cases f; simpa [fslFreeF, Field.dataType] using h.1
    · exact fslFreeFs_mem r h.2 f hf

/-- **the size condition of `toMarrow_physical` for a traced schema**: at most `i64::MAX` samples -/
theorem traced_sizeOK (fields : List Field) (L : Nat) (hk : physKeysFs (Fields.ofList fields) = true)
    (hL : L ≤ 9223372036854775807) : ∀ f ∈ fields, sizeOKDT f.dataType L = true :=
  fun f hf => sizeOKDT_of_fslFree _ L (fslFreeFs_mem fields (fslFreeFs_of_physKeys _ hk) f hf) hL

end SaModel.Lemmas.C06
