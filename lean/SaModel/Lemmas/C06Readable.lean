import SaModel.Lemmas.C06Side
import SaModel.Lemmas.C03Read
import SaModel.Lemmas.C03ReadPhys
/-
C06: the READER-side schema conditions of the bridge `Props/C03Read.lean` hold for every schema `from_samples` traces
(options without overwrites): `readableF` (types / strategies `ArrayDeserializer::new` supports) always, `physFreeDT`
(no FixedSizeList / Dictionary) when no option asks for dictionary-encoded strings.

One induction over `Tracer.to_field` for an abstract field predicate `P` closed under the shapes `to_field` produces
(`Closed`), instantiated twice.
-/
namespace SaModel.Lemmas.C06
open SaModel SaModel.Trace

/-- `P` holds of every field shape `Tracer::to_field` can produce, given it holds of the children -/
structure Closed (o : Options) (P : Field → Prop) : Prop where
  null : ∀ n nl, P (.mk n .null nl [])
  leaf : ∀ n nl ty, (some ty, nl) ∈ leafStates o → P (.mk n ty nl [])
  dict : ∀ n nl, (o.string_dictionary_encoding = true ∨ o.enums_without_data_as_strings = true) →
    P (default_dictionary_field n nl o.string_type)
  unknownVariant : P unknown_variant_field
  list : ∀ n nl item, P item → P (.mk n (.list item) nl []) ∧ P (.mk n (.largeList item) nl [])
  map : ∀ n nl kf vf, P kf → P vf →
    P (.mk n (.map (Field.mk "entries" (.struct (Fields.ofList [kf, vf])) false []) false) nl [])
  struct : ∀ n nl (l : List Field) md, (md = [] ∨ md = strategyMeta .mapAsStruct ∨ md = strategyMeta .tupleAsStruct) →
    (∀ f ∈ l, P f) → P (.mk n (.struct (Fields.ofList l)) nl md)
  union : ∀ n nl (l : List (Int × Field)), (∀ p ∈ l, P p.2) → P (.mk n (.union (UFields.ofList l) .dense) nl [])

mutual
theorem to_field_closed (o : Options) (h0 : o.overwrites = []) {P : Field → Prop} (hP : Closed o P) :
    ∀ (t : Tracer) (f : Field), WF o t → t.to_field o = .ok f → P f
  | .unknown n p nl, f, _, h => by
    simp only [Tracer.to_field, withOverwrite_nil o h0] at h
    split at h
    · simp [fail] at h
    · cases h; exact hP.null n true
  | .primitive n p nl ty st, f, hw, h => by
    simp only [WF] at hw
    obtain ⟨rfl, hl⟩ := hw
    simp only [Tracer.to_field, withOverwrite_nil o h0] at h
    split at h
    · simp [fail] at h
    · split at h
      · cases h; exact hP.null n true
      · split at h
        · split at h
          · cases h; exact hP.leaf n nl ty hl
          · rename_i hc; cases h; exact hP.dict n nl (.inl (by simpa using hc))
        · cases h; exact hP.leaf n nl ty hl
  | .list n p nl i, f, hw, h => by
    simp only [WF] at hw
    simp only [Tracer.to_field, withOverwrite_nil o h0] at h
    obtain ⟨item, hi, h⟩ := side_bind_ok h
    have ih := to_field_closed o h0 hP i item hw hi
    cases h
    split
    · exact (hP.list n nl item ih).2
    · exact (hP.list n nl item ih).1
  | .map n p nl k v, f, hw, h => by
    simp only [WF] at hw
    simp only [Tracer.to_field, withOverwrite_nil o h0] at h
    obtain ⟨kf, hk, h⟩ := side_bind_ok h
    obtain ⟨vf, hv, h⟩ := side_bind_ok h
    cases h
    exact hP.map n nl kf vf (to_field_closed o h0 hP k kf hw.1 hk) (to_field_closed o h0 hP v vf hw.2 hv)
  | .struct n p nl fs mode s, f, hw, h => by
    simp only [WF] at hw
    simp only [Tracer.to_field, withOverwrite_nil o h0] at h
    obtain ⟨fields, hfs, h⟩ := side_bind_ok h
    have ih := to_fieldsF_closed o h0 hP s fs fields hw hfs
    cases mode with
    | struct => cases h; exact hP.struct n nl fields [] (.inl rfl) ih
    | map =>
      cases h
      exact hP.struct n nl _ _ (.inr (.inl rfl)) (fun g hg => ih g ((mem_sortByName fields g).1 hg))
  | .tuple n p nl ts, f, hw, h => by
    simp only [WF] at hw
    simp only [Tracer.to_field, withOverwrite_nil o h0] at h
    obtain ⟨fields, hfs, h⟩ := side_bind_ok h
    cases h
    exact hP.struct n nl fields _ (.inr (.inr rfl)) (to_fieldsT_closed o h0 hP ts fields hw hfs)
  | .union n p nl vs, f, hw, h => by
    simp only [WF] at hw
    simp only [Tracer.to_field, withOverwrite_nil o h0] at h
    split at h
    · rename_i hc
      cases h
      exact hP.dict n nl (.inr (by simp only [Bool.and_eq_true] at hc; exact hc.2))
    · split at h
      · simp [fail] at h
      · obtain ⟨fields, hfs, h⟩ := side_bind_ok h
        cases h
        exact hP.union n nl fields (to_fieldsV_closed o h0 hP vs 0 fields hw hfs)
theorem to_fieldsT_closed (o : Options) (h0 : o.overwrites = []) {P : Field → Prop} (hP : Closed o P) :
    ∀ (ts : Tracers) (l : List Field), WFT o ts → ts.to_fields o = .ok l → ∀ f ∈ l, P f
  | .nil, l, _, h => by
    simp only [Tracers.to_fields] at h; cases h; simp
  | .cons t r, l, hw, h => by
    simp only [WFT] at hw
    simp only [Tracers.to_fields] at h
    obtain ⟨f, hf, h⟩ := side_bind_ok h
    obtain ⟨fs, hfs, h⟩ := side_bind_ok h
    cases h
    intro g hg
    rcases List.mem_cons.1 hg with rfl | hg
    · exact to_field_closed o h0 hP t _ hw.1 hf
    · exact to_fieldsT_closed o h0 hP r fs hw.2 hfs g hg
theorem to_fieldsF_closed (o : Options) (h0 : o.overwrites = []) {P : Field → Prop} (hP : Closed o P) (b : Nat) :
    ∀ (fs : TFields) (l : List Field), WFF o b fs → fs.to_fields o = .ok l → ∀ f ∈ l, P f
  | .nil, l, _, h => by
    simp only [TFields.to_fields] at h; cases h; simp
  | .cons _ _ t r, l, hw, h => by
    simp only [WFF] at hw
    simp only [TFields.to_fields] at h
    obtain ⟨f, hf, h⟩ := side_bind_ok h
    obtain ⟨fs', hfs, h⟩ := side_bind_ok h
    cases h
    intro g hg
    rcases List.mem_cons.1 hg with rfl | hg
    · exact to_field_closed o h0 hP t _ hw.2.1 hf
    · exact to_fieldsF_closed o h0 hP b r fs' hw.2.2 hfs g hg
theorem to_fieldsV_closed (o : Options) (h0 : o.overwrites = []) {P : Field → Prop} (hP : Closed o P) :
    ∀ (vs : Variants) (idx : Nat) (l : List (Int × Field)), WFV o vs → vs.to_fields o idx = .ok l → ∀ p ∈ l, P p.2
  | .nil, idx, l, _, h => by
    simp only [Variants.to_fields] at h; cases h; simp
  | .absent r, idx, l, hw, h => by
    simp only [WFV] at hw
    simp only [Variants.to_fields] at h
    split at h
    · obtain ⟨_, hx, _⟩ := side_bind_ok h; simp [fail] at hx
    obtain ⟨fs, hfs, h⟩ := side_bind_ok h
    cases h
    intro g hg
    rcases List.mem_cons.1 hg with rfl | hg
    · exact hP.unknownVariant
    · exact to_fieldsV_closed o h0 hP r (idx + 1) fs hw hfs g hg
  | .present _ t r, idx, l, hw, h => by
    simp only [WFV] at hw
    simp only [Variants.to_fields] at h
    split at h
    · obtain ⟨_, hx, _⟩ := side_bind_ok h; simp [fail] at hx
    obtain ⟨f, hf, h⟩ := side_bind_ok h
    obtain ⟨fs, hfs, h⟩ := side_bind_ok h
    cases h
    intro g hg
    rcases List.mem_cons.1 hg with rfl | hg
    · exact to_field_closed o h0 hP t _ hw.1 hf
    · exact to_fieldsV_closed o h0 hP r (idx + 1) fs hw.2 hfs g hg
end

/-! ### instance 1: `readableF` -/

open SaModel.Lemmas.C03 in
theorem readableFs_ofList : ∀ (l : List Field), (∀ f ∈ l, readableF f = true) → readableFs (Fields.ofList l) = true
  | [], _ => by simp [Fields.ofList, readableFs]
  | f :: r, h => by
    simp [Fields.ofList, readableFs, h f (by simp), readableFs_ofList r (fun g hg => h g (by simp [hg]))]

open SaModel.Lemmas.C03 in
theorem readableUFs_ofList : ∀ (l : List (Int × Field)), (∀ p ∈ l, readableF p.2 = true) →
    readableUFs (UFields.ofList l) = true
  | [], _ => by simp [UFields.ofList, readableUFs]
  | (i, f) :: r, h => by
    have h1 := h (i, f) (by simp)
    simp only at h1
    simp [UFields.ofList, readableUFs, h1, readableUFs_ofList r (fun g hg => h g (by simp [hg]))]

theorem toLower_UTC : "UTC".toLower = "utc" := by
  rw [String.toLower, String.map_eq_internal]
  decide

open SaModel.Lemmas.C03 in
theorem tzReadable_UTC : tzReadable (some "UTC") = true := by
  simp only [tzReadable, toLower_UTC]; decide

open SaModel.Lemmas.C03 in
theorem readable_leafStates (o : Options) : ∀ s ∈ leafStates o,
    (match s.1 with | some ty => readableDT ty | none => true) = true := by
  simp only [leafStates, leafTypes, Options.string_type]
  cases o.string_as_large_utf8 <;> simp [readableDT, tzReadable, toLower_UTC]

open SaModel.Lemmas.C03 in
theorem closed_readable (o : Options) : Closed o (fun f => readableF f = true) where
  null := fun n nl => by simp [readableF, readableDT, strategyKnown, Read.strategyOk, List.lookup]
  leaf := fun n nl ty h => by
    have := readable_leafStates o _ h
    simp only at this
    simp [readableF, this, strategyKnown, Read.strategyOk, List.lookup]
  dict := fun n nl _ => by
    simp only [default_dictionary_field, Options.string_type]
    split <;> simp [readableF, readableDT, Build.isIntDT, isUtf8DT, strategyKnown, Read.strategyOk, List.lookup]
  unknownVariant := by decide
  list := fun n nl item h => by
    simp [readableF, readableDT, h, strategyKnown, Read.strategyOk, List.lookup]
  map := fun n nl kf vf hk hv => by
    simp [readableF, readableDT, Fields.ofList, hk, hv, strategyKnown, Read.strategyOk, List.lookup]
  struct := fun n nl l md hmd h => by
    have hk : strategyKnown md = true := by rcases hmd with rfl | rfl | rfl <;> decide
    simp [readableF, readableDT, hk, readableFs_ofList l h]
  union := fun n nl l h => by
    simp [readableF, readableDT, readableUFs_ofList l h, strategyKnown, Read.strategyOk, List.lookup]

/-! ### instance 2: no FixedSizeList / Dictionary when strings are never dictionary encoded -/

open SaModel.Lemmas.C03 in
theorem physFreeFs_ofList : ∀ (l : List Field), (∀ f ∈ l, physFreeF f = true) → physFreeFs (Fields.ofList l) = true
  | [], _ => by simp [Fields.ofList, physFreeFs]
  | f :: r, h => by
    simp [Fields.ofList, physFreeFs, h f (by simp), physFreeFs_ofList r (fun g hg => h g (by simp [hg]))]

open SaModel.Lemmas.C03 in
theorem physFreeUFs_ofList : ∀ (l : List (Int × Field)), (∀ p ∈ l, physFreeF p.2 = true) →
    physFreeUFs (UFields.ofList l) = true
  | [], _ => by simp [UFields.ofList, physFreeUFs]
  | (i, f) :: r, h => by
    have h1 := h (i, f) (by simp)
    simp only at h1
    simp [UFields.ofList, physFreeUFs, h1, physFreeUFs_ofList r (fun g hg => h g (by simp [hg]))]

open SaModel.Lemmas.C03 in
theorem physFree_leafStates (o : Options) : ∀ s ∈ leafStates o,
    (match s.1 with | some ty => physFreeDT ty | none => true) = true := by
  simp only [leafStates, leafTypes, Options.string_type]
  cases o.string_as_large_utf8 <;> decide

open SaModel.Lemmas.C03 in
theorem closed_physFree (o : Options) (hd : o.string_dictionary_encoding = false)
    (he : o.enums_without_data_as_strings = false) : Closed o (fun f => physFreeF f = true) where
  null := fun n nl => by simp [physFreeF, physFreeDT]
  leaf := fun n nl ty h => by
    have := physFree_leafStates o _ h
    simp only at this
    simp [physFreeF, this]
  dict := fun n nl h => by rcases h with h | h <;> simp_all
  unknownVariant := by decide
  list := fun n nl item h => by simp [physFreeF, physFreeDT, h]
  map := fun n nl kf vf hk hv => by simp [physFreeF, physFreeDT, Fields.ofList, hk, hv]
  struct := fun n nl l md _ h => by simp [physFreeF, physFreeDT, physFreeFs_ofList l h]
  union := fun n nl l h => by simp [physFreeF, physFreeDT, physFreeUFs_ofList l h]

/-! ### the root: `to_schema` -/

open SaModel.Lemmas.C03 in
theorem readableFs_toList : ∀ (fs : Fields), readableFs fs = true → ∀ f ∈ fs.toList, readableF f = true
  | .nil, _, f, hf => by simp [Fields.toList] at hf
  | .cons g r, h, f, hf => by
    simp only [readableFs, Bool.and_eq_true] at h
    simp only [Fields.toList, List.mem_cons] at hf
    rcases hf with rfl | hf
    · exact h.1
    · exact readableFs_toList r h.2 f hf

open SaModel.Lemmas.C03 in
theorem physFreeFs_toList : ∀ (fs : Fields), physFreeFs fs = true → ∀ f ∈ fs.toList, physFreeF f = true
  | .nil, _, f, hf => by simp [Fields.toList] at hf
  | .cons g r, h, f, hf => by
    simp only [physFreeFs, Bool.and_eq_true] at h
    simp only [Fields.toList, List.mem_cons] at hf
    rcases hf with rfl | hf
    · exact h.1
    · exact physFreeFs_toList r h.2 f hf

open SaModel.Lemmas.C03 in
/-- **every field of a schema traced by `from_samples` (no overwrites) is supported by the reader** -/
theorem to_schema_readable (o : Options) (h0 : o.overwrites = []) (t : Tracer) (hw : WF o t) (fields : List Field)
    (h : t.to_schema o = .ok fields) : ∀ f ∈ fields, readableF f = true := by
  obtain ⟨n, children, md, hr, rfl⟩ := to_schema_ok o t fields h
  have hs := to_field_closed o h0 (closed_readable o) t _ hw hr
  simp only [readableF, readableDT, Bool.and_eq_true] at hs
  exact readableFs_toList children hs.2

open SaModel.Lemmas.C03 in
/-- … and has no FixedSizeList / Dictionary column when no option asks for dictionary-encoded strings -/
theorem to_schema_physFree (o : Options) (h0 : o.overwrites = []) (hd : o.string_dictionary_encoding = false)
    (he : o.enums_without_data_as_strings = false) (t : Tracer) (hw : WF o t) (fields : List Field)
    (h : t.to_schema o = .ok fields) : ∀ f ∈ fields, physFreeDT f.dataType = true := by
  obtain ⟨n, children, md, hr, rfl⟩ := to_schema_ok o t fields h
  have hs := to_field_closed o h0 (closed_physFree o hd he) t _ hw hr
  simp only [physFreeF, physFreeDT] at hs
  intro f hf
  rw [← physFreeF_dt]
  exact physFreeFs_toList children hs f hf

end SaModel.Lemmas.C06
