import SaModel.Lemmas.C01CompSmall
import SaModel.Lemmas.C03WF
/-
C06 (closure), the capacity bound in closed form: the head room of a FRESH builder.

`room b = min (2^31 - 1 - used b) (keysRoom b)` (`Build.room_eq`).  A builder that holds nothing (`takeRest b = b`, part
of `Fresh`) has `used b = 0`; its dictionaries hold no values, so `keysRoom b` is the least capacity `max + 1` of a
dictionary key type in the schema.  When every dictionary key type is at least as wide as `Int32` (`wideDT`: Int32,
UInt32, Int64, UInt64 — the tracer only emits UInt32 keys) that is ≥ 2^31, and

    room b = 2^31 - 1      (`fresh_room`).
-/
namespace SaModel.Lemmas.C06
open SaModel SaModel.Build SaModel.Lemmas.C03

/-- key types with at least `2^31 - 1` keys -/
def wideKey : DataType → Bool
  | .int32 | .uint32 | .int64 | .uint64 => true
  | _ => false

mutual
/-- every dictionary in the type has a key type at least as wide as `Int32` -/
def wideDT : DataType → Bool
  | .dictionary k v => wideKey k && wideDT v
  | .list f | .largeList f | .fixedSizeList f _ | .map f _ => wideF f
  | .struct fs => wideFs fs
  | .union ufs _ => wideU ufs
  | _ => true
def wideF : Field → Bool
  | .mk _ dt _ _ => wideDT dt
def wideFs : Fields → Bool
  | .nil => true
  | .cons f r => wideF f && wideFs r
def wideU : UFields → Bool
  | .nil => true
  | .cons _ f r => wideF f && wideU r
end

theorem wideF_dt (f : Field) : wideF f = wideDT f.dataType := by cases f; simp [wideF, Field.dataType]

/-! ### nothing is used after `take` -/

theorem lastNat_zero : lastNat [0] = 0 := by decide

mutual
theorem used_takeRest : ∀ b : B, used (takeRest b) = 0
  | .null _ _ | .unknownVariant _ | .leaf _ _ _ _ | .fixedSizeBinary _ _ _ _ _ _ => by simp [takeRest, used]
  | .bytes _ _ _ _ _ => by simp [takeRest, used, lastNat_zero]
  | .bytesView _ _ _ _ _ => by simp [takeRest, used]
  | .list _ _ _ _ _ el => by simp [takeRest, used, lastNat_zero, used_takeRest el]
  | .fixedSizeList _ _ _ _ _ _ el => by simp [takeRest, used, used_takeRest el]
  | .map _ _ _ _ ks vs => by simp [takeRest, used, lastNat_zero, used_takeRest ks, used_takeRest vs]
  | .struct _ _ _ fs _ _ _ => by simp [takeRest, used, usedL_takeRestAll fs]
  | .dictionary _ _ vals _ => by simp [takeRest, used, used_takeRest vals]
  | .union _ fs _ _ cur => by simp [takeRest, used, usedL_takeRestAll fs, curUsed_zeros]
theorem usedL_takeRestAll : ∀ bl : BL, usedL (takeRestAll bl) = 0
  | .nil => by simp [takeRestAll, usedL]
  | .cons b _ r => by simp [takeRestAll, usedL, used_takeRest b, usedL_takeRestAll r]
end

/-! ### free keys after `take` -/

/-- the key builder of a dictionary with a wide key type has at least `2^31 - 1` free keys when no value is held -/
theorem keyRoom_wide (idx : B) (k : DataType) (nl : Bool) (hb : BuiltFor k nl idx) (hw : wideKey k = true) :
    LIM ≤ keyRoom (takeRest idx) 0 := by
  cases idx with
  | leaf p kind v vals =>
    simp only [BuiltFor] at hb
    obtain ⟨rfl, _⟩ := hb
    cases kind with
    | int t => cases t <;> simp [C03.leafDT, C03.intDT, wideKey] at hw <;> simp [takeRest, keyRoom, IntTy.max, LIM]
    | _ => simp [C03.leafDT, wideKey] at hw
  | null _ _ => simp only [BuiltFor] at hb; subst hb; simp [wideKey] at hw
  | unknownVariant _ => simp only [BuiltFor] at hb; subst hb; simp [wideKey] at hw
  | bytes _ ty _ _ _ => simp only [BuiltFor] at hb; obtain ⟨rfl, _⟩ := hb; cases ty <;> simp [C03.bytesDT, wideKey] at hw
  | bytesView _ ty _ _ _ => simp only [BuiltFor] at hb; obtain ⟨rfl, _⟩ := hb; cases ty <;> simp [C03.viewDT, wideKey] at hw
  | fixedSizeBinary _ _ _ _ _ _ => simp only [BuiltFor] at hb; obtain ⟨rfl, _⟩ := hb; simp [wideKey] at hw
  | list _ large _ _ _ _ =>
    simp only [BuiltFor] at hb; obtain ⟨f, rfl, _⟩ := hb; cases large <;> simp [wideKey] at hw
  | fixedSizeList _ _ _ _ _ _ _ => simp only [BuiltFor] at hb; obtain ⟨f, rfl, _⟩ := hb; simp [wideKey] at hw
  | map _ _ _ _ _ _ =>
    simp only [BuiltFor] at hb; obtain ⟨_, _, _, _, _, _, rfl, _⟩ := hb; simp [wideKey] at hw
  | struct _ _ _ _ _ _ _ => simp only [BuiltFor] at hb; obtain ⟨_, rfl, _⟩ := hb; simp [wideKey] at hw
  | dictionary _ _ _ _ => simp only [BuiltFor] at hb; obtain ⟨_, _, rfl, _⟩ := hb; simp [wideKey] at hw
  | union _ _ _ _ _ => simp only [BuiltFor] at hb; obtain ⟨_, _, rfl, _⟩ := hb; simp [wideKey] at hw

mutual
theorem keysRoom_takeRest : ∀ (b : B) (dt : DataType) (nl : Bool), BuiltFor dt nl b → wideDT dt = true →
    LIM ≤ keysRoom (takeRest b)
  | .null _ _, _, _, _, _ | .unknownVariant _, _, _, _, _ | .leaf _ _ _ _, _, _, _, _ | .bytes _ _ _ _ _, _, _, _, _
  | .bytesView _ _ _ _ _, _, _, _, _ | .fixedSizeBinary _ _ _ _ _ _, _, _, _, _ => by simp [takeRest, keysRoom]
  | .list _ large fm v _ el, dt, nl, hb, hw => by
    simp only [BuiltFor] at hb
    obtain ⟨f, rfl, _, _, hel⟩ := hb
    have hwf : wideDT f.dataType = true := by rw [← wideF_dt]; cases large <;> simpa [wideDT] using hw
    simpa [takeRest, keysRoom] using keysRoom_takeRest el _ _ hel hwf
  | .fixedSizeList _ fm n _ v _ el, dt, nl, hb, hw => by
    simp only [BuiltFor] at hb
    obtain ⟨f, rfl, _, _, hel⟩ := hb
    have hwf : wideDT f.dataType = true := by rw [← wideF_dt]; simpa [wideDT] using hw
    simpa [takeRest, keysRoom] using keysRoom_takeRest el _ _ hel hwf
  | .map _ mm v _ ks vs, dt, nl, hb, hw => by
    simp only [BuiltFor] at hb
    obtain ⟨ename, kf, vf, sorted, enl, emd, rfl, _, _, hk, hv⟩ := hb
    simp only [wideDT, wideF, wideFs, Bool.and_eq_true, Bool.and_true] at hw
    have ihk := keysRoom_takeRest ks _ _ hk (by rw [← wideF_dt]; exact hw.1)
    have ihv := keysRoom_takeRest vs _ _ hv (by rw [← wideF_dt]; exact hw.2)
    simp only [takeRest, keysRoom]; omega
  | .struct _ _ v fs _ _ _, dt, nl, hb, hw => by
    simp only [BuiltFor] at hb
    obtain ⟨fields, rfl, _, hl⟩ := hb
    simpa [takeRest, keysRoom] using keysRoomL_takeRestAll fs fields hl (by simpa [wideDT] using hw)
  | .dictionary _ idx vals _, dt, nl, hb, hw => by
    simp only [BuiltFor] at hb
    obtain ⟨k, vdt, rfl, _, hidx, hvals⟩ := hb
    simp only [wideDT, Bool.and_eq_true] at hw
    have h1 := keyRoom_wide idx k nl hidx hw.1
    have h2 := keysRoom_takeRest vals _ _ hvals hw.2
    simp only [takeRest, keysRoom, List.length_nil]; omega
  | .union _ fs _ _ _, dt, nl, hb, hw => by
    simp only [BuiltFor] at hb
    obtain ⟨ufs, mode, rfl, hu⟩ := hb
    simpa [takeRest, keysRoom] using keysRoomU_takeRestAll fs ufs 0 hu (by simpa [wideDT] using hw)
theorem keysRoomL_takeRestAll : ∀ (bl : BL) (fs : Fields), BuiltForL fs bl → wideFs fs = true →
    LIM ≤ keysRoomL (takeRestAll bl)
  | .nil, _, _, _ => by simp [takeRestAll, keysRoomL]
  | .cons b m r, .nil, hb, _ => by simp [BuiltForL] at hb
  | .cons b m r, .cons f fr, hb, hw => by
    simp only [BuiltForL] at hb
    simp only [wideFs, Bool.and_eq_true] at hw
    have ih1 := keysRoom_takeRest b _ _ hb.2.1 (by rw [← wideF_dt]; exact hw.1)
    have ih2 := keysRoomL_takeRestAll r fr hb.2.2 hw.2
    simp only [takeRestAll, keysRoomL]; omega
theorem keysRoomU_takeRestAll : ∀ (bl : BL) (ufs : UFields) (k : Nat), BuiltForU ufs bl k → wideU ufs = true →
    LIM ≤ keysRoomL (takeRestAll bl)
  | .nil, _, _, _, _ => by simp [takeRestAll, keysRoomL]
  | .cons b m r, .nil, _, hb, _ => by simp [BuiltForU] at hb
  | .cons b m r, .cons tid f fr, k, hb, hw => by
    simp only [BuiltForU] at hb
    simp only [wideU, Bool.and_eq_true] at hw
    have ih1 := keysRoom_takeRest b _ _ hb.2.2.1 (by rw [← wideF_dt]; exact hw.1)
    have ih2 := keysRoomU_takeRestAll r fr (k + 1) hb.2.2.2 hw.2
    simp only [takeRestAll, keysRoomL]; omega
end

/-- **the head room of a fresh builder is `i32::MAX`** when every dictionary key type is at least as wide as `Int32` -/
theorem fresh_room (b : B) (dt : DataType) (nl : Bool) (hf : takeRest b = b) (hb : BuiltFor dt nl b)
    (hw : wideDT dt = true) : room b = 2147483647 := by
  have h1 := used_takeRest b
  have h2 := keysRoom_takeRest b dt nl hb hw
  rw [hf] at h1 h2
  rw [room_eq, h1]
  simp only [LIM] at h2 ⊢
  omega

/-- the key type matters: a fresh `Dictionary(Int8, Utf8)` builder has room for 128 values only -/
example : room (.dictionary "$.d" (.leaf "$.d.key" (.int .i8) none []) (.bytes "$.d.value" .utf8 none [0] []) []) = 128 := by
  decide

end SaModel.Lemmas.C06
