import SaModel.Lemmas.C01Shape
import SaModel.Lemmas.C01CompDefs
/-
C06 (closure): C01's `Safe` as a DECIDABLE predicate on the schema.

`Safe b` (Build/Inv.lean) is a property of the builder tree; for the builder of a field (`Shape b dt n md`, what
`build_builder` establishes) it only depends on the field:

  safeDT dt n md    no dictionary with NON-nullable keys can receive `serialize_default` — the calls a nullable struct /
                    fixed-size list issues on a null go down through struct children, fixed-size-list children and the
                    first variant of a union that is not an `UnknownVariant` placeholder (`defSafeDT`) and must not end
                    at a non-nullable Dictionary
  safe_iff_safeDT   Shape b dt n md → (Safe b ↔ safeDT dt n md = true)       (exact: the exclusion is minimal)
-/
namespace SaModel.Lemmas.C06
open SaModel SaModel.Spec SaModel.Build

mutual
/-- `serialize_default` on the builder of this field never reaches a dictionary with non-nullable keys -/
def defSafeDT : DataType → Bool → Metadata → Bool
  | .dictionary _ _, n, _ => n
  | .struct fs, _, _ => defSafeFs fs
  | .fixedSizeList f _, _, _ => defSafeF f
  | .union ufs _, _, _ => defSafeFirst ufs
  | _, _, _ => true
def defSafeF : Field → Bool
  | .mk _ dt n md => defSafeDT dt n md
def defSafeFs : Fields → Bool
  | .nil => true
  | .cons f r => defSafeF f && defSafeFs r
/-- the variant `UnionBuilder::serialize_default` delegates to: the first that is not a placeholder -/
def defSafeFirst : UFields → Bool
  | .nil => true
  | .cons _ f r => if isPlaceholderF f then defSafeFirst r else defSafeF f
end

mutual
/-- C01's `Safe`, on the schema -/
def safeDT : DataType → Bool → Metadata → Bool
  | .list f, _, _ => safeF f
  | .largeList f, _, _ => safeF f
  | .fixedSizeList f _, n, _ => safeF f && (!n || defSafeF f)
  | .map (.mk _ (.struct (.cons kf (.cons vf _))) _ _) _, _, _ => safeF kf && safeF vf
  | .struct fs, n, _ => safeFs fs && (!n || defSafeFs fs)
  | .union ufs _, _, _ => safeU ufs
  | .dictionary _ v, _, _ => safeDT v false []     -- the value builder is the builder of the non-nullable value field
  | _, _, _ => true
def safeF : Field → Bool
  | .mk _ dt n md => safeDT dt n md
def safeFs : Fields → Bool
  | .nil => true
  | .cons f r => safeF f && safeFs r
def safeU : UFields → Bool
  | .nil => true
  | .cons _ f r => safeF f && safeU r
end

/-! ### `DefSafe` -/

theorem isIntLeaf_cases {idx : B} (h : idx.isIntLeaf = true) : ∃ p t v vals, idx = .leaf p (.int t) v vals := by
  cases idx with
  | leaf p k v vals =>
    cases k with
    | int t => exact ⟨p, t, v, vals, rfl⟩
    | _ => simp [B.isIntLeaf] at h
  | _ => simp [B.isIntLeaf] at h

mutual
theorem defSafe_iff : ∀ (b : B) (dt : DataType) (n : Bool) (md : Metadata), Shape b dt n md →
    (DefSafe b ↔ defSafeDT dt n md = true)
  | .null _ _, _, _, _, h => by simp only [Shape] at h; obtain ⟨rfl, _⟩ := h; simp [DefSafe, defSafeDT]
  | .unknownVariant _, _, _, _, h => by simp only [Shape] at h; obtain ⟨rfl, _⟩ := h; simp [DefSafe, defSafeDT]
  | .leaf _ k _ _, dt, _, _, h => by
    simp only [Shape] at h
    cases dt <;> simp [kindOf] at h <;> simp [DefSafe, defSafeDT]
  | .bytes _ ty _ _ _, _, _, _, h => by
    simp only [Shape] at h; obtain ⟨rfl, _⟩ := h; cases ty <;> simp [DefSafe, defSafeDT, bytesDT]
  | .bytesView _ ty _ _ _, _, _, _, h => by
    simp only [Shape] at h; obtain ⟨rfl, _⟩ := h; cases ty <;> simp [DefSafe, defSafeDT, viewDT]
  | .fixedSizeBinary _ _ _ _ _ _, _, _, _, h => by
    simp only [Shape] at h; obtain ⟨rfl, _⟩ := h; simp [DefSafe, defSafeDT]
  | .list _ large _ _ _ _, _, _, _, h => by
    simp only [Shape] at h; obtain ⟨_, _, _, _, _, rfl, _⟩ := h; cases large <;> simp [DefSafe, defSafeDT]
  | .fixedSizeList _ _ _ _ _ _ el, _, _, _, h => by
    simp only [Shape] at h; obtain ⟨_, cn, cdt, cnl, cmd, rfl, hel⟩ := h
    simp only [DefSafe, defSafeDT, defSafeF]
    exact defSafe_iff el cdt cnl cmd hel
  | .map _ _ _ _ _ _, _, _, _, h => by
    simp only [Shape] at h
    obtain ⟨_, _, _, _, _, _, _, _, _, _, _, _, _, _, rfl, _⟩ := h
    simp [DefSafe, defSafeDT]
  | .struct _ _ _ fs _ _ _, _, _, _, h => by
    simp only [Shape] at h; obtain ⟨_, sfs, rfl, hl⟩ := h
    simp only [DefSafe, defSafeDT]
    exact defSafeL_iff fs sfs hl
  | .dictionary _ idx _ _, _, n, _, h => by
    simp only [Shape] at h; obtain ⟨⟨_, _, rfl, _⟩, hi, hn, _⟩ := h
    obtain ⟨p, t, v, vals, rfl⟩ := isIntLeaf_cases hi
    simp only [DefSafe, defSafeDT, hn, and_true]
  | .union _ fs _ _ _, _, _, _, h => by
    simp only [Shape] at h; obtain ⟨ufs, _, rfl, hu⟩ := h
    simp only [DefSafe, defSafeDT]
    exact defSafeFirst_iff fs ufs 0 hu
theorem defSafeL_iff : ∀ (bl : BL) (fs : Fields), ShapeL bl fs → (DefSafeL bl ↔ defSafeFs fs = true)
  | .nil, .nil, _ => by simp [DefSafeL, defSafeFs]
  | .nil, .cons _ _, h => by simp [ShapeL] at h
  | .cons _ _ _, .nil, h => by simp [ShapeL] at h
  | .cons b _ r, .cons (.mk _ fdt fn fmd) rest, h => by
    simp only [ShapeL] at h
    simp only [DefSafeL, defSafeFs, defSafeF, Bool.and_eq_true, defSafe_iff b fdt fn fmd h.2.2.1,
      defSafeL_iff r rest h.2.2.2]
theorem defSafeFirst_iff : ∀ (bl : BL) (ufs : UFields) (k : Nat), ShapeU bl ufs k →
    (DefSafeFirst bl ↔ defSafeFirst ufs = true)
  | .nil, .nil, _, _ => by simp [DefSafeFirst, defSafeFirst]
  | .nil, .cons _ _ _, _, h => by simp [ShapeU] at h
  | .cons _ _ _, .nil, _, h => by simp [ShapeU] at h
  | .cons b _ r, .cons _ (.mk _ fdt fn fmd) rest, k, h => by
    simp only [ShapeU] at h
    have ih1 := defSafe_iff b fdt fn fmd h.2.1
    have ih2 := defSafeFirst_iff r rest (k + 1) h.2.2
    simp only [DefSafeFirst, defSafeFirst, isPlaceholderF, defSafeF]
    cases b with
    | unknownVariant p =>
      simp only [Shape] at h
      obtain ⟨_, rfl, hp⟩ := h.1, h.2.1.1, h.2.1.2
      simp [B.isPlaceholder, hp, ih2]
    | null p c =>
      have hs := h.2.1
      simp only [Shape] at hs
      obtain ⟨rfl, hp⟩ := hs
      simp [B.isPlaceholder, hp, DefSafe, defSafeDT]
    | leaf _ _ _ _ =>
      have hs := h.2.1; simp only [Shape] at hs
      have : isUnknownVariant fdt fmd = false := by cases fdt <;> simp [kindOf] at hs <;> rfl
      simp only [B.isPlaceholder, this]; simpa using ih1
    | bytes _ ty _ _ _ =>
      have hs := h.2.1; simp only [Shape] at hs
      have : isUnknownVariant fdt fmd = false := by obtain ⟨rfl, _⟩ := hs; cases ty <;> rfl
      simp only [B.isPlaceholder, this]; simpa using ih1
    | bytesView _ ty _ _ _ =>
      have hs := h.2.1; simp only [Shape] at hs
      have : isUnknownVariant fdt fmd = false := by obtain ⟨rfl, _⟩ := hs; cases ty <;> rfl
      simp only [B.isPlaceholder, this]; simpa using ih1
    | fixedSizeBinary _ _ _ _ _ _ =>
      have hs := h.2.1; simp only [Shape] at hs
      have : isUnknownVariant fdt fmd = false := by obtain ⟨rfl, _⟩ := hs; rfl
      simp only [B.isPlaceholder, this]; simpa using ih1
    | list _ large _ _ _ _ =>
      have hs := h.2.1; simp only [Shape] at hs
      have : isUnknownVariant fdt fmd = false := by obtain ⟨_, _, _, _, _, rfl, _⟩ := hs; cases large <;> rfl
      simp only [B.isPlaceholder, this]; simpa using ih1
    | fixedSizeList _ _ _ _ _ _ _ =>
      have hs := h.2.1; simp only [Shape] at hs
      have : isUnknownVariant fdt fmd = false := by obtain ⟨_, _, _, _, _, rfl, _⟩ := hs; rfl
      simp only [B.isPlaceholder, this]; simpa using ih1
    | map _ _ _ _ _ _ =>
      have hs := h.2.1; simp only [Shape] at hs
      have : isUnknownVariant fdt fmd = false := by
        obtain ⟨_, _, _, _, _, _, _, _, _, _, _, _, _, _, rfl, _⟩ := hs; rfl
      simp only [B.isPlaceholder, this]; simpa using ih1
    | struct _ _ _ _ _ _ _ =>
      have hs := h.2.1; simp only [Shape] at hs
      have : isUnknownVariant fdt fmd = false := by obtain ⟨_, _, rfl, _⟩ := hs; rfl
      simp only [B.isPlaceholder, this]; simpa using ih1
    | dictionary _ _ _ _ =>
      have hs := h.2.1; simp only [Shape] at hs
      have : isUnknownVariant fdt fmd = false := by obtain ⟨⟨_, _, rfl, _⟩, _⟩ := hs; rfl
      simp only [B.isPlaceholder, this]; simpa using ih1
    | union _ _ _ _ _ =>
      have hs := h.2.1; simp only [Shape] at hs
      have : isUnknownVariant fdt fmd = false := by obtain ⟨_, _, rfl, _⟩ := hs; rfl
      simp only [B.isPlaceholder, this]; simpa using ih1
end

/-! ### `Safe` -/

mutual
/-- **`Safe` is a property of the field**: for the builder of a field, `Safe` holds exactly when `safeDT` does -/
theorem safe_iff_safeDT : ∀ (b : B) (dt : DataType) (n : Bool) (md : Metadata), Shape b dt n md →
    (Safe b ↔ safeDT dt n md = true)
  | .null _ _, _, _, _, h => by simp only [Shape] at h; obtain ⟨rfl, _⟩ := h; simp [Safe, safeDT]
  | .unknownVariant _, _, _, _, h => by simp only [Shape] at h; obtain ⟨rfl, _⟩ := h; simp [Safe, safeDT]
  | .leaf _ k _ _, dt, _, _, h => by
    simp only [Shape] at h
    cases dt <;> simp [kindOf] at h <;> simp [Safe, safeDT]
  | .bytes _ ty _ _ _, _, _, _, h => by
    simp only [Shape] at h; obtain ⟨rfl, _⟩ := h; cases ty <;> simp [Safe, safeDT, bytesDT]
  | .bytesView _ ty _ _ _, _, _, _, h => by
    simp only [Shape] at h; obtain ⟨rfl, _⟩ := h; cases ty <;> simp [Safe, safeDT, viewDT]
  | .fixedSizeBinary _ _ _ _ _ _, _, _, _, h => by
    simp only [Shape] at h; obtain ⟨rfl, _⟩ := h; simp [Safe, safeDT]
  | .list _ large _ _ _ el, _, _, _, h => by
    simp only [Shape] at h; obtain ⟨_, cn, cdt, cnl, cmd, rfl, hel⟩ := h
    cases large <;> simp only [Safe, safeDT, safeF, Bool.false_eq_true, if_false, if_true] <;>
      exact safe_iff_safeDT el cdt cnl cmd hel
  | .fixedSizeList _ _ _ _ v _ el, _, n, _, h => by
    simp only [Shape] at h; obtain ⟨hv, cn, cdt, cnl, cmd, rfl, hel⟩ := h
    simp only [Safe, safeDT, safeF, defSafeF, Bool.and_eq_true, Bool.or_eq_true, Bool.not_eq_true',
      safe_iff_safeDT el cdt cnl cmd hel, defSafe_iff el cdt cnl cmd hel, hv]
    cases n <;> simp
  | .map _ _ _ _ ks vs, _, _, _, h => by
    simp only [Shape] at h
    obtain ⟨_, _, _, kdt, knl, kmd, _, vdt, vnl, vmd, _, _, _, _, rfl, hk, hv⟩ := h
    simp only [Safe, safeDT, safeF, Bool.and_eq_true, safe_iff_safeDT ks kdt knl kmd hk,
      safe_iff_safeDT vs vdt vnl vmd hv]
  | .struct _ _ v fs _ _ _, _, n, _, h => by
    simp only [Shape] at h; obtain ⟨hv, sfs, rfl, hl⟩ := h
    simp only [Safe, safeDT, Bool.and_eq_true, Bool.or_eq_true, Bool.not_eq_true', safeL_iff fs sfs hl,
      defSafeL_iff fs sfs hl, hv]
    cases n <;> simp
  | .dictionary _ idx vals _, _, n, _, h => by
    simp only [Shape] at h; obtain ⟨⟨_, vdt, rfl, hsv⟩, hi, hn, hu⟩ := h
    obtain ⟨p, t, v, vs, rfl⟩ := isIntLeaf_cases hi
    have := safe_iff_safeDT vals vdt false [] hsv
    simp [Safe, safeDT, B.isDict, this]
  | .union _ fs _ _ _, _, _, _, h => by
    simp only [Shape] at h; obtain ⟨ufs, _, rfl, hu⟩ := h
    simp only [Safe, safeDT]
    exact safeU_iff fs ufs 0 hu
theorem safeL_iff : ∀ (bl : BL) (fs : Fields), ShapeL bl fs → (SafeL bl ↔ safeFs fs = true)
  | .nil, .nil, _ => by simp [SafeL, safeFs]
  | .nil, .cons _ _, h => by simp [ShapeL] at h
  | .cons _ _ _, .nil, h => by simp [ShapeL] at h
  | .cons b _ r, .cons (.mk _ fdt fn fmd) rest, h => by
    simp only [ShapeL] at h
    simp only [SafeL, safeFs, safeF, Bool.and_eq_true, safe_iff_safeDT b fdt fn fmd h.2.2.1, safeL_iff r rest h.2.2.2]
theorem safeU_iff : ∀ (bl : BL) (ufs : UFields) (k : Nat), ShapeU bl ufs k → (SafeL bl ↔ safeU ufs = true)
  | .nil, .nil, _, _ => by simp [SafeL, safeU]
  | .nil, .cons _ _ _, _, h => by simp [ShapeU] at h
  | .cons _ _ _, .nil, _, h => by simp [ShapeU] at h
  | .cons b _ r, .cons _ (.mk _ fdt fn fmd) rest, k, h => by
    simp only [ShapeU] at h
    simp only [SafeL, safeU, safeF, Bool.and_eq_true, safe_iff_safeDT b fdt fn fmd h.2.1, safeU_iff r rest (k + 1) h.2.2]
end

end SaModel.Lemmas.C06
