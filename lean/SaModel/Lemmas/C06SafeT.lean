import SaModel.Lemmas.C06SafeS
import SaModel.Lemmas.C06Readable
import SaModel.Lemmas.C01NewShape
/-
C06 (closure): C01's `Safe` for traced schemas.

* `newRoot_safe_iff`: for the root builder of ANY schema `build_builder` accepts (dictionary values Utf8 / LargeUtf8:
  `coveredF`), `Safe root0 ↔ safeFs fields` — the hypothesis of the builder theorems as a decidable predicate on the schema.
* `to_schema_safeFs`: when no option asks for dictionary-encoded strings (`string_dictionary_encoding = false`,
  `enums_without_data_as_strings = false`) every traced schema is `safeFs` — unions INCLUDED (generalises
  `to_schema_safe`, which excluded union nodes).
* With dictionary-encoded strings `safeFs` CAN fail for a traced schema: the tracer gives the Dictionary field the
  nullability of the string position, `build_builder` gives the key builder that nullability, and a NON-nullable string
  inside a struct that is `None` in some sample is exactly C01's excluded shape (`Props/C06Closure.lean`
  `safeSchema_can_fail`).  It stays an explicit hypothesis there.
-/
namespace SaModel.Lemmas.C06
open SaModel SaModel.Spec SaModel.Build SaModel.Trace

/-- **`Safe` of the root builder is `safeFs` of the schema** -/
theorem newRoot_safe_iff {fields : List Field} {root0 : B} (hc : fields.all coveredF = true)
    (h : newRoot fields = .ok root0) : Safe root0 ↔ safeFs (Fields.ofList fields) = true := by
  rw [safe_iff_safeDT root0 _ false [] (newRoot_shape hc h)]
  simp [safeDT]

/-! ### traced schemas without dictionary options -/

def SafeBoth (f : Field) : Prop := safeF f = true ∧ defSafeF f = true

theorem safeFs_ofList : ∀ l : List Field, (∀ f ∈ l, SafeBoth f) →
    safeFs (Fields.ofList l) = true ∧ defSafeFs (Fields.ofList l) = true
  | [], _ => by simp [Fields.ofList, safeFs, defSafeFs]
  | f :: r, h => by
    have h1 := h f (by simp)
    have h2 := safeFs_ofList r (fun g hg => h g (by simp [hg]))
    simp [Fields.ofList, safeFs, defSafeFs, h1.1, h1.2, h2.1, h2.2]

theorem safeU_ofList : ∀ l : List (Int × Field), (∀ p ∈ l, SafeBoth p.2) →
    safeU (UFields.ofList l) = true ∧ defSafeFirst (UFields.ofList l) = true
  | [], _ => by simp [UFields.ofList, safeU, defSafeFirst]
  | (i, f) :: r, h => by
    have h1 := h (i, f) (by simp)
    have h2 := safeU_ofList r (fun g hg => h g (by simp [hg]))
    simp only [UFields.ofList, safeU, defSafeFirst, h1.1, h2.1, Bool.and_self, true_and]
    split
    · exact h2.2
    · exact h1.2

/-- data types without children -/
def plainOrNull : DataType → Bool
  | .struct _ | .list _ | .largeList _ | .fixedSizeList _ _ | .map _ _ | .dictionary _ _ | .runEndEncoded _ _
  | .union _ _ => false
  | _ => true

theorem safe_leafStates (o : Options) : ∀ s ∈ leafStates o,
    (match s.1 with | some ty => plainOrNull ty | none => true) = true := by
  simp only [leafStates, leafTypes, Options.string_type]
  cases o.string_as_large_utf8 <;> decide

theorem closed_safe (o : Options) (hd : o.string_dictionary_encoding = false)
    (he : o.enums_without_data_as_strings = false) : Closed o SafeBoth where
  null := fun n nl => by simp [SafeBoth, safeF, safeDT, defSafeF, defSafeDT]
  leaf := fun n nl ty h => by
    have := safe_leafStates o _ h
    simp only at this
    cases ty <;> simp [plainOrNull] at this <;> simp [SafeBoth, safeF, safeDT, defSafeF, defSafeDT]
  dict := fun n nl h => by rcases h with h | h <;> simp_all
  unknownVariant := by simp [SafeBoth, unknown_variant_field, safeF, safeDT, defSafeF, defSafeDT]
  list := fun n nl item h => by simp [SafeBoth, safeF, safeDT, defSafeF, defSafeDT, h.1]
  map := fun n nl kf vf hk hv => by
    simp [SafeBoth, safeF, safeDT, defSafeF, defSafeDT, Fields.ofList, hk.1, hv.1]
  struct := fun n nl l md _ h => by
    have := safeFs_ofList l h
    simp [SafeBoth, safeF, safeDT, defSafeF, defSafeDT, this.1, this.2]
  union := fun n nl l h => by
    have := safeU_ofList l h
    simp [SafeBoth, safeF, safeDT, defSafeF, defSafeDT, this.1, this.2]

/-- **every schema traced without dictionary-encoded strings is `safeFs`** (unions included) -/
theorem to_schema_safeFs (o : Options) (h0 : o.overwrites = []) (hd : o.string_dictionary_encoding = false)
    (he : o.enums_without_data_as_strings = false) (t : Tracer) (hw : WF o t) (fields : List Field)
    (h : t.to_schema o = .ok fields) : safeFs (Fields.ofList fields) = true := by
  obtain ⟨n, children, md, hr, rfl⟩ := to_schema_ok o t fields h
  have hs := (to_field_closed o h0 (closed_safe o hd he) t _ hw hr).1
  rw [Roundtrip.ofList_toList']
  simp only [safeF, safeDT, Bool.and_eq_true] at hs
  exact hs.1

end SaModel.Lemmas.C06
