import SaModel.Lemmas.C06TupleNames
/-
C06 helpers: the invariant `US t` of the tracer — EVERY UNION NODE HAS AT LEAST ONE SEEN VARIANT (`Variants.hasPresent`).

`TracerSerializer::serialize_*_variant` calls `ensure_union(&[])` (which may create a union node without any variant)
and, in the same call, `ensure_variant(name, idx)`, which fills slot `idx`; so between two samples a union node
always holds a seen variant.  `Tracer::new` satisfies `US` (`US_new`), every successful `absorb .fixed` preserves it
(`absorb_us`), hence every tracer `from_samples` can reach has it (`absorbAll_us`, `steps_us`).

Used by `Lemmas/C06Typed.lean`: a Union field traced from samples has a variant that is not an `UnknownVariant`
placeholder, so `UnionBuilder::serialize_default` (after repo fix 837fa53) finds a child to delegate to.
-/
namespace SaModel.Lemmas.C06
open SaModel SaModel.Trace SaModel.Lemmas.C07 SaModel.Props.C07

/-- some slot of the variant vector is filled -/
def _root_.SaModel.Trace.Variants.hasPresent : Variants → Bool
  | .nil => false
  | .absent r => r.hasPresent
  | .present _ _ _ => true

theorem hasPresent_of_get? : ∀ (vs : Variants) (i : Nat) (x : String × Tracer), vs.get? i = some (some x) →
    vs.hasPresent = true
  | .nil, _, _, h => by simp [Variants.get?] at h
  | .present _ _ _, _, _, _ => rfl
  | .absent r, 0, _, h => by simp [Variants.get?] at h
  | .absent r, i + 1, x, h => by
    simp only [Variants.get?] at h
    simp only [Variants.hasPresent]; exact hasPresent_of_get? r i x h

mutual
def US : Tracer → Prop
  | .unknown _ _ _ => True
  | .primitive _ _ _ _ _ => True
  | .list _ _ _ i => US i
  | .map _ _ _ k v => US k ∧ US v
  | .struct _ _ _ fs _ _ => USF fs
  | .tuple _ _ _ ts => UST ts
  | .union _ _ _ vs => vs.hasPresent = true ∧ USV vs
def UST : Tracers → Prop
  | .nil => True
  | .cons t r => US t ∧ UST r
def USF : TFields → Prop
  | .nil => True
  | .cons _ _ t r => US t ∧ USF r
def USV : Variants → Prop
  | .nil => True
  | .absent r => USV r
  | .present _ t r => US t ∧ USV r
end

/-! ### `get?` characterisations -/

theorem UST_iff : ∀ (ts : Tracers), UST ts ↔ ∀ i t, ts.get? i = some t → US t
  | .nil => by simp [UST, Tracers.get?]
  | .cons t r => by
    simp only [UST, UST_iff r]
    constructor
    · rintro ⟨h1, h2⟩ i t' hg
      cases i with
      | zero => simp only [Tracers.get?, Option.some.injEq] at hg; subst hg; exact h1
      | succ i => exact h2 i t' hg
    · intro h
      exact ⟨h 0 t rfl, fun i t' hg => h (i + 1) t' hg⟩

theorem USF_iff : ∀ fs : TFields, USF fs ↔ ∀ i t, fs.get? i = some t → US t
  | .nil => by simp [USF, TFields.get?]
  | .cons n l t r => by
    simp only [USF, USF_iff r]
    constructor
    · rintro ⟨h1, h2⟩ i t' hg
      cases i with
      | zero => simp only [TFields.get?, Option.some.injEq] at hg; subst hg; exact h1
      | succ i => exact h2 i t' hg
    · intro h
      exact ⟨h 0 t rfl, fun i t' hg => h (i + 1) t' hg⟩

theorem USV_iff : ∀ vs : Variants, USV vs ↔ ∀ i n t, vs.get? i = some (some (n, t)) → US t
  | .nil => by simp [USV, Variants.get?]
  | .absent r => by
    simp only [USV, USV_iff r]
    constructor
    · intro h i n t hg
      cases i with
      | zero => simp [Variants.get?] at hg
      | succ i => exact h i n t hg
    · intro h i n t hg
      exact h (i + 1) n t hg
  | .present n' t' r => by
    simp only [USV, USV_iff r]
    constructor
    · rintro ⟨h1, h2⟩ i n t hg
      cases i with
      | zero =>
        simp only [Variants.get?, Option.some.injEq, Prod.mk.injEq] at hg
        obtain ⟨_, rfl⟩ := hg; exact h1
      | succ i => exact h2 i n t hg
    · intro h
      exact ⟨h 0 n' t' rfl, fun i n t hg => h (i + 1) n t hg⟩

/-! ### leaf level -/

theorem US_new (n p : String) : US (Tracer.new n p) := by simp [Tracer.new, US]

theorem US_set_nullable {t : Tracer} (b : Bool) (h : US t) : US (t.set_nullable b) := by
  cases t <;> simp only [Tracer.set_nullable, US] at h ⊢ <;> exact h

theorem US_mark_nullable {t : Tracer} (h : US t) : US t.mark_nullable := US_set_nullable true h

theorem ensure_primitive_us (o : Options) {t t' : Tracer} {ty : DataType} (ht : US t)
    (h : t.ensure_primitive o ty = .ok t') : US t' := by
  cases t with
  | unknown n p nl =>
    simp only [Tracer.ensure_primitive, Tracer.ensure_primitive_with_strategy] at h; cases h
    simp [US]
  | primitive n p nl pty st =>
    simp only [Tracer.ensure_primitive, Tracer.ensure_primitive_with_strategy, bind_ok] at h
    obtain ⟨⟨a, b, c'⟩, _, h2⟩ := h
    cases h2
    simp [US]
  | list n p nl i =>
    simp only [Tracer.ensure_primitive, Tracer.ensure_primitive_with_strategy] at h
    split at h <;> cases h
    exact US_set_nullable true ht
  | map n p nl k v =>
    simp only [Tracer.ensure_primitive, Tracer.ensure_primitive_with_strategy] at h
    split at h <;> cases h
    exact US_set_nullable true ht
  | struct n p nl fs m s =>
    simp only [Tracer.ensure_primitive, Tracer.ensure_primitive_with_strategy] at h
    split at h <;> cases h
    exact US_set_nullable true ht
  | tuple n p nl ts =>
    simp only [Tracer.ensure_primitive, Tracer.ensure_primitive_with_strategy] at h
    split at h <;> cases h
    exact US_set_nullable true ht
  | union n p nl vs =>
    simp only [Tracer.ensure_primitive, Tracer.ensure_primitive_with_strategy] at h
    split at h <;> cases h
    exact US_set_nullable true ht

/-! ### the container `ensure_*` methods -/

theorem ensure_list_us {t t1 : Tracer} (ht : US t) (h : t.ensure_list = .ok t1) : US t1 := by
  unfold Tracer.ensure_list at h
  obtain ⟨_, h⟩ := enforce_ok_or h
  by_cases hu : t.is_unknown_or_null = true
  · rw [if_pos hu] at h; cases h
    simp only [US]; exact US_new _ _
  · rw [if_neg hu] at h
    cases t with
    | list n p nl i => simp only at h; cases h; exact ht
    | _ => simp only [fail] at h; cases h

theorem ensure_map_us {t t1 : Tracer} (ht : US t) (h : t.ensure_map = .ok t1) : US t1 := by
  unfold Tracer.ensure_map at h
  obtain ⟨_, h⟩ := enforce_ok_or h
  by_cases hu : t.is_unknown_or_null = true
  · rw [if_pos hu] at h; cases h
    simp only [US]; exact ⟨US_new _ _, US_new _ _⟩
  · rw [if_neg hu] at h
    cases t with
    | map n p nl k v => simp only at h; cases h; exact ht
    | _ => simp only [fail] at h; cases h

theorem ensure_struct_us (c : Code) {t t1 : Tracer} {mode : StructMode} (ht : US t)
    (h : t.ensure_struct c [] mode = .ok t1) : US t1 := by
  unfold Tracer.ensure_struct at h
  obtain ⟨_, h⟩ := enforce_ok_or h
  by_cases hu : t.is_unknown_or_null = true
  · rw [if_pos hu] at h; cases h
    simp [US, mkStructFields, USF]
  · rw [if_neg hu] at h
    cases t with
    | struct n p nl fs m s =>
      simp only at h
      split at h <;> cases h
      · simpa only [US] using ht
      · exact ht
    | _ => simp only [fail] at h; cases h

/-- `ensure_union` may create a union node WITHOUT variants: only the children invariant survives -/
theorem ensure_union_us {t : Tracer} {n p : String} {nl : Bool} {vs : Variants} (ht : US t)
    (h : t.ensure_union [] = .ok (.union n p nl vs)) : USV vs := by
  unfold Tracer.ensure_union at h
  obtain ⟨_, h⟩ := enforce_ok_or h
  by_cases hu : t.is_unknown_or_null = true
  · rw [if_pos hu] at h; cases h
    simp [mkVariants, USV]
  · rw [if_neg hu] at h
    cases t with
    | union n' p' nl' vs' => simp only at h; cases h; simp only [US] at ht; exact ht.2
    | _ => simp only [fail] at h; cases h

/-! ### tuples -/

theorem UST_mkTupleFields (path : String) (n : Nat) : ∀ k, UST (mkTupleFields path n k)
  | 0 => by simp [mkTupleFields, UST]
  | k + 1 => by
    simp only [mkTupleFields, UST]
    exact ⟨US_new _ _, UST_mkTupleFields path n k⟩

theorem UST_markFrom (k : Nat) {ts : Tracers} (h : UST ts) : UST (ts.markFrom k) := by
  rw [UST_iff] at h ⊢
  intro i t hi
  rw [Tracers.get?_markFrom] at hi
  cases hg : ts.get? i with
  | none => rw [hg] at hi; cases hi
  | some t0 =>
    rw [hg] at hi
    simp only [Option.map_some, Option.some.injEq] at hi
    subst hi
    split
    · exact US_mark_nullable (h i t0 hg)
    · exact h i t0 hg

theorem UST_tupleGrowNullable (path : String) (n : Nat) {ts : Tracers} (h : UST ts) :
    UST (tupleGrowNullable path n ts) := by
  rw [tupleGrowNullable_eq]
  rw [UST_iff] at h ⊢
  intro i t hi
  by_cases hlt : i < ts.length
  · rw [growN_get?_lt _ _ ts i hlt] at hi; exact h i t hi
  · exact growN_get?_new _ US (fun acc => US_mark_nullable (US_new _ _)) _ ts i t (by omega) hi

theorem ensure_tuple_us {t t1 : Tracer} {k : Nat} (ht : US t) (h : t.ensure_tuple .fixed k = .ok t1) : US t1 := by
  unfold Tracer.ensure_tuple at h
  obtain ⟨_, h⟩ := enforce_ok_or h
  by_cases hu : t.is_unknown_or_null = true
  · rw [if_pos hu] at h; cases h
    simp only [US]
    exact UST_mkTupleFields t.path k k
  · rw [if_neg hu] at h
    cases t with
    | tuple n p nl ts =>
      simp only at h
      rw [if_pos (show Code.fixed.tuple_arity_nullable = true from rfl)] at h
      cases h
      simp only [US] at ht ⊢
      exact UST_tupleGrowNullable p k (UST_markFrom k ht)
    | _ => simp only [fail] at h; cases h

theorem UST_set {ts : Tracers} (i : Nat) {x : Tracer} (h : UST ts) (hx : US x) : UST (ts.set i x) := by
  rw [UST_iff] at h ⊢
  intro j t hj
  by_cases e : i = j
  · subst e
    have hlt := Tracers.get?_lt hj
    rw [Tracers.length_set] at hlt
    rw [Tracers.get?_set_eq _ _ _ hlt] at hj; cases hj; exact hx
  · rw [Tracers.get?_set_ne _ _ _ _ e] at hj; exact h j t hj

/-! ### list level -/

/-- `absorb` of the sample `v` (repaired code) preserves `US` -/
def PUS (o : Options) (v : SVal) : Prop := ∀ t t', US t → absorb .fixed o t v = .ok t' → US t'

theorem absorbAll_us_of (o : Options) : ∀ vs : List SVal, (∀ v ∈ vs, PUS o v) → ∀ t t', US t →
    absorbAll .fixed o t vs = .ok t' → US t'
  | [], _, t, t', hw, h => by simp [absorbAll] at h; subst h; exact hw
  | v :: vs, hp, t, t', hw, h => by
    rw [absorbAll_cons] at h
    cases ha : absorb .fixed o t v with
    | error e => rw [ha] at h; cases h
    | ok t1 =>
      rw [ha] at h
      exact absorbAll_us_of o vs (fun x hx => hp x (by simp [hx])) t1 t' (hp v (by simp) t t1 hw ha) h

theorem absorbTupleL_us (o : Options) (path : String) : ∀ vs : List SVal, (∀ v ∈ vs, PUS o v) →
    ∀ ts pos ts', pos + vs.length ≤ ts.length → UST ts → absorbTupleL .fixed o path ts pos vs = .ok ts' → UST ts'
  | [], _, ts, pos, ts', _, hw, h => by simp [absorbTupleL] at h; subst h; exact hw
  | v :: vs, hp, ts, pos, ts', hle, hw, h => by
    simp only [List.length_cons] at hle
    simp only [absorbTupleL] at h
    rw [field_tracer_grow_of_lt path pos ts (by omega)] at h
    cases hg : ts.get? pos with
    | none => rw [hg] at h; cases h
    | some ft =>
      rw [hg] at h; simp only at h
      cases ha : absorb .fixed o ft v with
      | error e => rw [ha] at h; cases h
      | ok ft' =>
        rw [ha] at h; simp only at h
        have hft := (UST_iff ts).mp hw pos ft hg
        exact absorbTupleL_us o path vs (fun x hx => hp x (by simp [hx])) _ (pos + 1) ts'
          (by rw [Tracers.length_set]; omega) (UST_set pos hw (hp v (by simp) ft ft' hft ha)) h

theorem ensure_field_usf (path : String) (s : Nat) {fs : TFields} (k : String) (h : USF fs) :
    USF (ensure_field path s fs k).2 := by
  rw [USF_iff] at h ⊢
  cases hi : fs.indexOf k with
  | some i =>
    rw [ensure_field_found hi]; simp only
    exact fun j t hj => h j t (by rw [TFields.get?_setLastSeen] at hj; exact hj)
  | none =>
    rw [ensure_field_new hi]; simp only
    intro j t hj
    have hlt := TFields.get?_lt hj
    rw [TFields.length_push] at hlt
    by_cases e : j = fs.length
    · subst e
      rw [TFields.get?_push_len] at hj; cases hj
      split
      · exact US_mark_nullable (US_new _ _)
      · exact US_new _ _
    · rw [TFields.get?_push_lt _ _ _ _ _ (by omega)] at hj; exact h j t hj

theorem USF_set {fs : TFields} (i : Nat) {x : Tracer} (h : USF fs) (hx : US x) : USF (fs.set i x) := by
  rw [USF_iff] at h ⊢
  intro j t hj
  by_cases e : i = j
  · subst e
    have hlt := TFields.get?_lt hj
    rw [TFields.length_set] at hlt
    rw [TFields.get?_set_eq _ _ _ hlt] at hj; cases hj; exact hx
  · rw [TFields.get?_set_ne _ _ _ _ e] at hj; exact h j t hj

theorem USF_end (s : Nat) : ∀ {fs : TFields}, USF fs → USF (fs.end_ s)
  | .nil, _ => by simp [TFields.end_, USF]
  | .cons n l t r, h => by
    simp only [USF, TFields.end_] at h ⊢
    refine ⟨?_, USF_end s h.2⟩
    split
    · exact US_mark_nullable h.1
    · exact h.1

theorem absorbKVs_us (o : Options) (path : String) (s : Nat) : ∀ kvs : List (String × SVal),
    (∀ kv ∈ kvs, PUS o kv.2) → ∀ fs fs', USF fs → absorbKVs .fixed o path s fs kvs = .ok fs' → USF fs'
  | [], _, fs, fs', hw, h => by simp [absorbKVs] at h; subst h; exact hw
  | kv :: kvs, hp, fs, fs', hw, h => by
    simp only [absorbKVs] at h
    have hw1 := ensure_field_usf path s kv.1 hw
    cases hg : (ensure_field path s fs kv.1).2.get? (ensure_field path s fs kv.1).1 with
    | none => rw [hg] at h; cases h
    | some ft =>
      rw [hg] at h; simp only at h
      cases ha : absorb .fixed o ft kv.2 with
      | error e => rw [ha] at h; cases h
      | ok ft' =>
        rw [ha] at h; simp only at h
        have hft : US ft := (USF_iff _).mp hw1 _ _ hg
        exact absorbKVs_us o path s kvs (fun x hx => hp x (by simp [hx])) _ fs'
          (USF_set _ hw1 (hp kv (by simp) ft ft' hft ha)) h

theorem USV_set {vs : Variants} (i : Nat) (n : String) {x : Tracer} (h : USV vs) (hx : US x) :
    USV (vs.set i n x) := by
  rw [USV_iff] at h ⊢
  intro j n' t hj
  by_cases e : i = j
  · subst e
    have hlt := Variants.get?_lt hj
    rw [Variants.length_set] at hlt
    rw [Variants.get?_set_eq _ _ _ _ hlt] at hj
    simp only [Option.some.injEq, Prod.mk.injEq] at hj
    rw [← hj.2]; exact hx
  · rw [Variants.get?_set_ne _ _ _ _ _ e] at hj; exact h j n' t hj

/-! ### the samples, family by family -/

theorem PUS_leaf (o : Options) (x : SVal) (ty : DataType) (h : leafTypeOf o x = some ty) : PUS o x := by
  intro t t' hw ha
  rw [absorb_prim .fixed o t h] at ha
  exact ensure_primitive_us o hw ha

theorem PUS_asStruct (o : Options) (x : SVal) (mode : StructMode) (rk : R (List (String × SVal)))
    (hx : asStruct o x = some (mode, rk)) (hp : ∀ kvs, rk = .ok kvs → ∀ kv ∈ kvs, PUS o kv.2) : PUS o x := by
  intro t t' hw ha
  obtain ⟨kvs, n, p, nl, fs, m, s, fs', hk, h1, h2, rfl⟩ := (absorb_asStruct_ok .fixed o t t' x mode rk hx).mp ha
  have h3 := ensure_struct_us .fixed hw h1
  simp only [US] at h3 ⊢
  exact USF_end _ (absorbKVs_us o _ s kvs (hp kvs hk) fs fs' h3 h2)

theorem PUS_asMap (o : Options) (x : SVal) (ks vs : List SVal) (hx : asMap o x = some (ks, vs))
    (hk : ∀ v ∈ ks, PUS o v) (hv : ∀ v ∈ vs, PUS o v) : PUS o x := by
  intro t t' hw ha
  obtain ⟨n, p, nl, k, v, k', v', h1, h2, h3, rfl⟩ := (absorb_asMap_ok .fixed o t t' x ks vs hx).mp ha
  have h4 := ensure_map_us hw h1
  simp only [US] at h4 ⊢
  exact ⟨absorbAll_us_of o ks hk _ _ h4.1 h2, absorbAll_us_of o vs hv _ _ h4.2 h3⟩

theorem PUS_tuple (o : Options) (items : SVals) (hp : ∀ v ∈ items.toList, PUS o v) : PUS o (.tuple items) := by
  intro t t' hw ha
  obtain ⟨n, p, nl, ts, ts', h1, h2, rfl⟩ := (absorb_tuple_ok .fixed o t t' items).mp ha
  have h3 := ensure_tuple_us hw h1
  have hlen := ensure_tuple_len o (c := .fixed) rfl h1
  simp only [US] at h3 ⊢
  exact absorbTupleL_us o p _ hp ts 0 ts' (by rw [SVals.length_toList]; omega) h3 h2

/-- the variant calls: `ensure_variant` fills slot `idx`, so the node has a seen variant afterwards -/
theorem PUS_newtypeVariant (o : Options) (nm : String) (idx : Nat) (vn : String) (v : SVal) (hp : PUS o v) :
    PUS o (.newtypeVariant nm idx vn v) := by
  intro t t' hw ha
  obtain ⟨n, p, nl, vs0, vs, nm', vt, vt', h1, h2, h3, h4, rfl⟩ :=
    (absorb_newtypeVariant_ok .fixed o t t' nm idx vn v).mp ha
  have h5 := ensure_union_us hw h1
  simp only [US]
  obtain ⟨_, _, _, hnew, _⟩ := ensure_variant_ok h2
  have hwv0 := (USV_iff _).mp h5
  have hwv : USV vs := by
    rw [USV_iff]
    intro j n' t1 hj
    rcases hnew j n' t1 hj with h | h
    · exact hwv0 j n' t1 h
    · rw [h]; exact US_new _ _
  refine ⟨?_, USV_set idx vn hwv (hp vt vt' ((USV_iff _).mp hwv idx nm' vt h3) h4)⟩
  have hlt := Variants.get?_lt h3
  exact hasPresent_of_get? _ idx (vn, vt') (Variants.get?_set_eq _ _ _ _ hlt)

/-- every successful `absorb` of the repaired code preserves `US` -/
theorem absorb_us (o : Options) : ∀ x : SVal, PUS o x := by
  apply sval_induct o (PUS o)
  · exact PUS_leaf o
  · intro t t' hw ha; rw [absorb_none] at ha; cases ha; exact US_mark_nullable hw
  · intro v ih t t' hw ha; rw [absorb_some] at ha; exact ih _ _ (US_mark_nullable hw) ha
  · intro n v ih t t' hw ha; rw [absorb_newtypeStruct] at ha; exact ih _ _ hw ha
  · intro items ih t t' hw ha
    obtain ⟨n, p, nl, i, i', h1, h2, rfl⟩ := (absorb_seq_ok .fixed o t t' items).mp ha
    have h3 := ensure_list_us hw h1
    simp only [US] at h3 ⊢
    exact absorbAll_us_of o _ ih _ _ h3 h2
  · exact PUS_tuple o
  · intro n items ih t t' hw ha; rw [absorb_tupleStruct] at ha; exact PUS_tuple o items ih t t' hw ha
  · intro n fs ih
    exact PUS_asStruct o _ .struct (.ok (SFields.kvs fs)) rfl (fun kvs hk => by cases hk; exact ih)
  · intro es ihk ihv
    by_cases hm : o.map_as_struct = true
    · exact PUS_asStruct o _ .map (SEntries.kvs es) (by simp [asStruct, hm])
        (fun kvs hk kv hkv => ihv _ (SEntries.kvs_vals es kvs hk kv hkv))
    · exact PUS_asMap o _ _ _ (by simp [asMap, hm]) ihk ihv
  · intro ops ihk ihv
    by_cases hm : o.map_as_struct = true
    · exact PUS_asStruct o _ .map (SMapOps.kvs none ops) (by simp [asStruct, hm])
        (fun kvs hk kv hkv => ihv _ (SMapOps.kvs_vals ops none kvs hk kv hkv))
    · exact PUS_asMap o _ _ _ (by simp [asMap, hm]) ihk ihv
  · intro n i vn t t' hw ha
    rw [absorb_unitVariant] at ha
    exact PUS_newtypeVariant o n i vn .unit (PUS_leaf o .unit .null rfl) t t' hw ha
  · exact fun n i vn v ih => PUS_newtypeVariant o n i vn v ih
  · intro n i vn items ih t t' hw ha
    rw [absorb_tupleVariant] at ha
    exact PUS_newtypeVariant o n i vn _ (PUS_tuple o items ih) t t' hw ha
  · intro n i vn fs ih t t' hw ha
    rw [absorb_structVariant] at ha
    exact PUS_newtypeVariant o n i vn _
      (PUS_asStruct o _ .struct (.ok (SFields.kvs fs)) rfl (fun kvs hk => by cases hk; exact ih)) t t' hw ha

theorem absorbAll_us (o : Options) (xs : List SVal) {t t' : Tracer} (ht : US t)
    (h : absorbAll .fixed o t xs = .ok t') : US t' :=
  absorbAll_us_of o xs (fun v _ => absorb_us o v) t t' ht h

theorem steps_us (o : Options) {t t2 : Tracer} (ht : US t) (h : Steps .fixed o t t2) : US t2 := by
  obtain ⟨ys, h⟩ := h
  exact absorbAll_us o ys ht h

/-- every tracer `from_samples` builds from the root has a seen variant in each of its union nodes -/
theorem fromSamplesTracer_us (o : Options) (xs : List SVal) {t : Tracer}
    (h : absorbAll .fixed o (Tracer.new "$" "$") xs = .ok t) : US t :=
  absorbAll_us o xs (US_new _ _) h

end SaModel.Lemmas.C06
