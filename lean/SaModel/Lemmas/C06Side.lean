import SaModel.Lemmas.C04Safe
import SaModel.Lemmas.C06WF
import SaModel.Trace.Tracer
/-
C06: the schema side conditions of the builder theorems (C01 / C03) hold for every field `Tracer::to_field` produces
under options without overwrites.

`Tracer.primitive` carries an arbitrary `item_type`, so the statement needs the (reachable-state) fact that primitive
nodes only carry flat data types: `PrimsFlat t`.  It follows from the tracer invariant `WF o t` (`primsFlat_of_WF`).

  to_field_side   : o.overwrites = [] → PrimsFlat t → t.to_field o = .ok f → SchemaOKF f ∧ coveredF f
  to_field_noDict : … → string_dictionary_encoding = false → NoUnion t → t.to_field o = .ok f → noDictDT f.dataType
  to_schema_side, to_schema_safe : the packaging for `Tracer.to_schema`.
-/
namespace SaModel.Lemmas.C06
open SaModel SaModel.Trace

/-! ### small helpers -/

theorem side_bind_ok {α β : Type} {x : R α} {k : α → R β} {b : β} (h : (x >>= k) = .ok b) :
    ∃ a, x = .ok a ∧ k a = .ok b := by
  cases x with
  | error e => simp [bind, Except.bind] at h
  | ok a => exact ⟨a, rfl, h⟩

/-- without overwrites the overwrite lookup at the head of `to_field` is the identity -/
theorem withOverwrite_nil (o : Options) (h0 : o.overwrites = []) (n p : String) (k : Unit → R Field) :
    withOverwrite o n p k = k () := by
  simp [withOverwrite, Options.get_overwrite, h0]

theorem mem_insertByName (f g : Field) : ∀ l : List Field, g ∈ insertByName f l ↔ g = f ∨ g ∈ l
  | [] => by simp [insertByName]
  | x :: r => by
    simp only [insertByName]
    split
    · simp
    · simp only [List.mem_cons, mem_insertByName f g r]
      constructor
      · rintro (h | h | h)
        · exact .inr (.inl h)
        · exact .inl h
        · exact .inr (.inr h)
      · rintro (h | h | h)
        · exact .inr (.inl h)
        · exact .inl h
        · exact .inr (.inr h)

theorem mem_foldl_insertByName (g : Field) : ∀ (l acc : List Field),
    g ∈ l.foldl (fun acc f => insertByName f acc) acc ↔ g ∈ acc ∨ g ∈ l
  | [], acc => by simp
  | x :: r, acc => by
    simp only [List.foldl_cons, mem_foldl_insertByName g r, mem_insertByName, List.mem_cons]
    constructor
    · rintro ((h | h) | h)
      · exact .inr (.inl h)
      · exact .inl h
      · exact .inr (.inr h)
    · rintro (h | h | h)
      · exact .inl (.inr h)
      · exact .inl (.inl h)
      · exact .inr h

/-- `sortByName` is a permutation as far as membership goes -/
theorem mem_sortByName (l : List Field) (g : Field) : g ∈ sortByName l ↔ g ∈ l := by
  simp [sortByName, mem_foldl_insertByName]

/-! ### the side conditions, bundled -/

def SideDT (dt : DataType) : Prop := C03.SchemaOK dt ∧ Build.covered dt = true
def SideF (f : Field) : Prop := C03.SchemaOKF f ∧ Build.coveredF f = true

theorem sideF_mk (n : String) (dt : DataType) (nl : Bool) (md : Metadata) : SideF (.mk n dt nl md) ↔ SideDT dt := by
  simp [SideF, SideDT, C03.SchemaOKF, Build.coveredF]

theorem sideFs_ofList : ∀ l : List Field, (∀ f ∈ l, SideF f) →
    C03.SchemaOKFs (Fields.ofList l) ∧ Build.coveredFs (Fields.ofList l) = true
  | [], _ => by simp [Fields.ofList, C03.SchemaOKFs, Build.coveredFs]
  | f :: r, h => by
    have h1 := h f (by simp)
    have h2 := sideFs_ofList r (fun g hg => h g (by simp [hg]))
    unfold SideF at h1
    simp [Fields.ofList, C03.SchemaOKFs, Build.coveredFs, h1, h2]

theorem sideU_ofList : ∀ l : List (Int × Field), (∀ p ∈ l, SideF p.2) →
    C03.SchemaOKU (UFields.ofList l) ∧ Build.coveredU (UFields.ofList l) = true
  | [], _ => by simp [UFields.ofList, C03.SchemaOKU, Build.coveredU]
  | (i, f) :: r, h => by
    have h1 := h (i, f) (by simp)
    have h2 := sideU_ofList r (fun g hg => h g (by simp [hg]))
    unfold SideF at h1
    simp [UFields.ofList, C03.SchemaOKU, Build.coveredU, h1, h2]

/-! ### flat primitive types -/

/-- the data types without children (and not `FixedSizeBinary(0)`) -/
def flatDT : DataType → Bool
  | .struct _ | .list _ | .largeList _ | .fixedSizeList _ _ | .map _ _ | .dictionary _ _ | .runEndEncoded _ _
  | .union _ _ => false
  | .fixedSizeBinary n => decide (n ≠ 0)
  | _ => true

theorem side_flat (dt : DataType) (h : flatDT dt = true) : SideDT dt := by
  cases dt <;> simp [flatDT] at h <;> simp [SideDT, C03.SchemaOK, Build.covered, h]

theorem noDict_flat (dt : DataType) (h : flatDT dt = true) : Roundtrip.noDictDT dt = true := by
  cases dt <;> simp [flatDT] at h <;> simp [Roundtrip.noDictDT]

mutual
/-- every primitive node carries a flat data type -/
def PrimsFlat : Tracer → Prop
  | .unknown _ _ _ => True
  | .primitive _ _ _ ty _ => flatDT ty = true
  | .list _ _ _ i => PrimsFlat i
  | .map _ _ _ k v => PrimsFlat k ∧ PrimsFlat v
  | .struct _ _ _ fs _ _ => PrimsFlatF fs
  | .tuple _ _ _ ts => PrimsFlatT ts
  | .union _ _ _ vs => PrimsFlatV vs
def PrimsFlatT : Tracers → Prop
  | .nil => True
  | .cons t r => PrimsFlat t ∧ PrimsFlatT r
def PrimsFlatF : TFields → Prop
  | .nil => True
  | .cons _ _ t r => PrimsFlat t ∧ PrimsFlatF r
def PrimsFlatV : Variants → Prop
  | .nil => True
  | .absent r => PrimsFlatV r
  | .present _ t r => PrimsFlat t ∧ PrimsFlatV r
end

theorem flat_string_type (o : Options) : flatDT o.string_type = true := by
  simp only [Options.string_type]; split <;> rfl

theorem side_dictionary (o : Options) : SideDT (.dictionary .uint32 o.string_type) := by
  simp only [Options.string_type]
  split <;> simp [SideDT, C03.SchemaOK, Build.covered, Build.isIntDT, Build.isStrDT]

theorem side_default_dictionary_field (o : Options) (n : String) (nl : Bool) :
    SideF (default_dictionary_field n nl o.string_type) := by
  simp only [default_dictionary_field, sideF_mk]; exact side_dictionary o

theorem side_unknown_variant_field : SideF unknown_variant_field := by
  simp [unknown_variant_field, sideF_mk, SideDT, C03.SchemaOK, Build.covered]

theorem side_list (o : Options) (item : Field) (h : SideF item) :
    SideDT (if o.sequence_as_large_list then .largeList item else .list item) := by
  unfold SideF at h
  split <;> simp [SideDT, C03.SchemaOK, Build.covered, h]

theorem side_map (kf vf : Field) (hk : SideF kf) (hv : SideF vf) :
    SideDT (.map (Field.mk "entries" (.struct (Fields.ofList [kf, vf])) false []) false) := by
  unfold SideF at hk hv
  simp [SideDT, Fields.ofList, C03.SchemaOK, C03.SchemaOKF, C03.SchemaOKFs, Build.covered, Build.coveredF,
    Build.coveredFs, hk, hv]

theorem side_struct (l : List Field) (h : ∀ f ∈ l, SideF f) : SideDT (.struct (Fields.ofList l)) := by
  have := sideFs_ofList l h
  simp [SideDT, C03.SchemaOK, Build.covered, this]

theorem side_union (l : List (Int × Field)) (m : UnionMode) (h : ∀ p ∈ l, SideF p.2) :
    SideDT (.union (UFields.ofList l) m) := by
  have := sideU_ofList l h
  simp [SideDT, C03.SchemaOK, Build.covered, this]

/-! ### `to_field` satisfies the side conditions -/

mutual
theorem to_field_sideF (o : Options) (h0 : o.overwrites = []) :
    ∀ (t : Tracer) (f : Field), PrimsFlat t → t.to_field o = .ok f → SideF f
  | .unknown n p nl, f, _, h => by
    simp only [Tracer.to_field, withOverwrite_nil o h0] at h
    split at h
    · simp [fail] at h
    · cases h; simp [sideF_mk, SideDT, C03.SchemaOK, Build.covered]
  | .primitive n p nl ty st, f, hp, h => by
    simp only [PrimsFlat] at hp
    simp only [Tracer.to_field, withOverwrite_nil o h0] at h
    split at h
    · simp [fail] at h
    · split at h
      · cases h; simp [sideF_mk, SideDT, C03.SchemaOK, Build.covered]
      · split at h
        · split at h
          · cases h; rw [sideF_mk]; exact side_flat ty hp
          · cases h; exact side_default_dictionary_field o n nl
        · cases h; rw [sideF_mk]; exact side_flat ty hp
  | .list n p nl i, f, hp, h => by
    simp only [PrimsFlat] at hp
    simp only [Tracer.to_field, withOverwrite_nil o h0] at h
    obtain ⟨item, hi, h⟩ := side_bind_ok h
    cases h; rw [sideF_mk]
    exact side_list o item (to_field_sideF o h0 i item hp hi)
  | .map n p nl k v, f, hp, h => by
    simp only [PrimsFlat] at hp
    simp only [Tracer.to_field, withOverwrite_nil o h0] at h
    obtain ⟨kf, hk, h⟩ := side_bind_ok h
    obtain ⟨vf, hv, h⟩ := side_bind_ok h
    cases h; rw [sideF_mk]
    exact side_map kf vf (to_field_sideF o h0 k kf hp.1 hk) (to_field_sideF o h0 v vf hp.2 hv)
  | .struct n p nl fs mode s, f, hp, h => by
    simp only [PrimsFlat] at hp
    simp only [Tracer.to_field, withOverwrite_nil o h0] at h
    obtain ⟨fields, hfs, h⟩ := side_bind_ok h
    have ih := to_fieldsF_sideF o h0 fs fields hp hfs
    cases mode with
    | struct => cases h; rw [sideF_mk]; exact side_struct fields ih
    | map =>
      cases h; rw [sideF_mk]
      exact side_struct _ (fun g hg => ih g ((mem_sortByName fields g).1 hg))
  | .tuple n p nl ts, f, hp, h => by
    simp only [PrimsFlat] at hp
    simp only [Tracer.to_field, withOverwrite_nil o h0] at h
    obtain ⟨fields, hfs, h⟩ := side_bind_ok h
    cases h; rw [sideF_mk]
    exact side_struct fields (to_fieldsT_sideF o h0 ts fields hp hfs)
  | .union n p nl vs, f, hp, h => by
    simp only [PrimsFlat] at hp
    simp only [Tracer.to_field, withOverwrite_nil o h0] at h
    split at h
    · cases h; exact side_default_dictionary_field o n nl
    · split at h
      · simp [fail] at h
      · obtain ⟨fields, hfs, h⟩ := side_bind_ok h
        cases h; rw [sideF_mk]
        exact side_union fields .dense (to_fieldsV_sideF o h0 vs 0 fields hp hfs)
theorem to_fieldsT_sideF (o : Options) (h0 : o.overwrites = []) :
    ∀ (ts : Tracers) (l : List Field), PrimsFlatT ts → ts.to_fields o = .ok l → ∀ f ∈ l, SideF f
  | .nil, l, _, h => by
    simp only [Tracers.to_fields] at h; cases h; simp
  | .cons t r, l, hp, h => by
    simp only [PrimsFlatT] at hp
    simp only [Tracers.to_fields] at h
    obtain ⟨f, hf, h⟩ := side_bind_ok h
    obtain ⟨fs, hfs, h⟩ := side_bind_ok h
    cases h
    intro g hg
    rcases List.mem_cons.1 hg with rfl | hg
    · exact to_field_sideF o h0 t _ hp.1 hf
    · exact to_fieldsT_sideF o h0 r fs hp.2 hfs g hg
theorem to_fieldsF_sideF (o : Options) (h0 : o.overwrites = []) :
    ∀ (fs : TFields) (l : List Field), PrimsFlatF fs → fs.to_fields o = .ok l → ∀ f ∈ l, SideF f
  | .nil, l, _, h => by
    simp only [TFields.to_fields] at h; cases h; simp
  | .cons _ _ t r, l, hp, h => by
    simp only [PrimsFlatF] at hp
    simp only [TFields.to_fields] at h
    obtain ⟨f, hf, h⟩ := side_bind_ok h
    obtain ⟨fs', hfs, h⟩ := side_bind_ok h
    cases h
    intro g hg
    rcases List.mem_cons.1 hg with rfl | hg
    · exact to_field_sideF o h0 t _ hp.1 hf
    · exact to_fieldsF_sideF o h0 r fs' hp.2 hfs g hg
theorem to_fieldsV_sideF (o : Options) (h0 : o.overwrites = []) :
    ∀ (vs : Variants) (idx : Nat) (l : List (Int × Field)), PrimsFlatV vs → vs.to_fields o idx = .ok l →
      ∀ p ∈ l, SideF p.2
  | .nil, idx, l, _, h => by
    simp only [Variants.to_fields] at h; cases h; simp
  | .absent r, idx, l, hp, h => by
    simp only [PrimsFlatV] at hp
    simp only [Variants.to_fields] at h
    split at h
    · obtain ⟨_, hx, _⟩ := side_bind_ok h; simp [fail] at hx
    obtain ⟨fs, hfs, h⟩ := side_bind_ok h
    cases h
    intro g hg
    rcases List.mem_cons.1 hg with rfl | hg
    · exact side_unknown_variant_field
    · exact to_fieldsV_sideF o h0 r (idx + 1) fs hp hfs g hg
  | .present _ t r, idx, l, hp, h => by
    simp only [PrimsFlatV] at hp
    simp only [Variants.to_fields] at h
    split at h
    · obtain ⟨_, hx, _⟩ := side_bind_ok h; simp [fail] at hx
    obtain ⟨f, hf, h⟩ := side_bind_ok h
    obtain ⟨fs, hfs, h⟩ := side_bind_ok h
    cases h
    intro g hg
    rcases List.mem_cons.1 hg with rfl | hg
    · exact to_field_sideF o h0 t _ hp.1 hf
    · exact to_fieldsV_sideF o h0 r (idx + 1) fs hp.2 hfs g hg
end

/-- **the schema side conditions of C01 / C03 hold for every traced field** (no overwrites) -/
theorem to_field_side (o : Options) (h0 : o.overwrites = []) (t : Tracer) (f : Field) (hp : PrimsFlat t)
    (h : t.to_field o = .ok f) : C03.SchemaOKF f ∧ Build.coveredF f = true :=
  to_field_sideF o h0 t f hp h

theorem to_fieldsT_side (o : Options) (h0 : o.overwrites = []) (ts : Tracers) (l : List Field) (hp : PrimsFlatT ts)
    (h : ts.to_fields o = .ok l) : ∀ f ∈ l, C03.SchemaOKF f ∧ Build.coveredF f = true :=
  to_fieldsT_sideF o h0 ts l hp h

theorem to_fieldsF_side (o : Options) (h0 : o.overwrites = []) (fs : TFields) (l : List Field) (hp : PrimsFlatF fs)
    (h : fs.to_fields o = .ok l) : ∀ f ∈ l, C03.SchemaOKF f ∧ Build.coveredF f = true :=
  to_fieldsF_sideF o h0 fs l hp h

theorem to_fieldsV_side (o : Options) (h0 : o.overwrites = []) (vs : Variants) (idx : Nat) (l : List (Int × Field))
    (hp : PrimsFlatV vs) (h : vs.to_fields o idx = .ok l) :
    ∀ p ∈ l, C03.SchemaOKF p.2 ∧ Build.coveredF p.2 = true :=
  to_fieldsV_sideF o h0 vs idx l hp h

/-! ### `PrimsFlat` from the reachable-state invariant `WF` -/

theorem flat_of_leafStates (o : Options) : ∀ s ∈ leafStates o, (match s.1 with | some ty => flatDT ty | none => true) = true := by
  simp only [leafStates, leafTypes, Options.string_type]
  cases o.string_as_large_utf8 <;> decide

theorem flat_of_mem_leafStates (o : Options) (ty : DataType) (nl : Bool) (h : (some ty, nl) ∈ leafStates o) :
    flatDT ty = true := flat_of_leafStates o _ h

mutual
theorem primsFlat_of_WF (o : Options) : ∀ t : Tracer, WF o t → PrimsFlat t
  | .unknown _ _ _, _ => by simp [PrimsFlat]
  | .primitive _ _ nl ty _, h => by
    simp only [WF] at h; simp only [PrimsFlat]; exact flat_of_mem_leafStates o ty nl h.2
  | .list _ _ _ i, h => by
    simp only [WF] at h; simp only [PrimsFlat]; exact primsFlat_of_WF o i h
  | .map _ _ _ k v, h => by
    simp only [WF] at h; simp only [PrimsFlat]; exact ⟨primsFlat_of_WF o k h.1, primsFlat_of_WF o v h.2⟩
  | .struct _ _ _ fs _ s, h => by
    simp only [WF] at h; simp only [PrimsFlat]; exact primsFlatF_of_WFF o s fs h
  | .tuple _ _ _ ts, h => by
    simp only [WF] at h; simp only [PrimsFlat]; exact primsFlatT_of_WFT o ts h
  | .union _ _ _ vs, h => by
    simp only [WF] at h; simp only [PrimsFlat]; exact primsFlatV_of_WFV o vs h
theorem primsFlatT_of_WFT (o : Options) : ∀ ts : Tracers, WFT o ts → PrimsFlatT ts
  | .nil, _ => by simp [PrimsFlatT]
  | .cons t r, h => by
    simp only [WFT] at h; simp only [PrimsFlatT]; exact ⟨primsFlat_of_WF o t h.1, primsFlatT_of_WFT o r h.2⟩
theorem primsFlatF_of_WFF (o : Options) (b : Nat) : ∀ fs : TFields, WFF o b fs → PrimsFlatF fs
  | .nil, _ => by simp [PrimsFlatF]
  | .cons _ _ t r, h => by
    simp only [WFF] at h; simp only [PrimsFlatF]; exact ⟨primsFlat_of_WF o t h.2.1, primsFlatF_of_WFF o b r h.2.2⟩
theorem primsFlatV_of_WFV (o : Options) : ∀ vs : Variants, WFV o vs → PrimsFlatV vs
  | .nil, _ => by simp [PrimsFlatV]
  | .absent r, h => by
    simp only [WFV] at h; simp only [PrimsFlatV]; exact primsFlatV_of_WFV o r h
  | .present _ t r, h => by
    simp only [WFV] at h; simp only [PrimsFlatV]; exact ⟨primsFlat_of_WF o t h.1, primsFlatV_of_WFV o r h.2⟩
end

/-! ### no dictionary / union types -/

mutual
/-- the tracer has no union node -/
def NoUnion : Tracer → Prop
  | .unknown _ _ _ => True
  | .primitive _ _ _ _ _ => True
  | .list _ _ _ i => NoUnion i
  | .map _ _ _ k v => NoUnion k ∧ NoUnion v
  | .struct _ _ _ fs _ _ => NoUnionF fs
  | .tuple _ _ _ ts => NoUnionT ts
  | .union _ _ _ _ => False
def NoUnionT : Tracers → Prop
  | .nil => True
  | .cons t r => NoUnion t ∧ NoUnionT r
def NoUnionF : TFields → Prop
  | .nil => True
  | .cons _ _ t r => NoUnion t ∧ NoUnionF r
end

theorem noDictF_mk (n : String) (dt : DataType) (nl : Bool) (md : Metadata) :
    Roundtrip.noDictF (.mk n dt nl md) = Roundtrip.noDictDT dt := by simp [Roundtrip.noDictF]

theorem noDictFs_ofList : ∀ l : List Field, (∀ f ∈ l, Roundtrip.noDictF f = true) →
    Roundtrip.noDictFs (Fields.ofList l) = true
  | [], _ => by simp [Fields.ofList, Roundtrip.noDictFs]
  | f :: r, h => by
    simp [Fields.ofList, Roundtrip.noDictFs, h f (by simp), noDictFs_ofList r (fun g hg => h g (by simp [hg]))]

theorem noDict_struct (l : List Field) (h : ∀ f ∈ l, Roundtrip.noDictF f = true) :
    Roundtrip.noDictDT (.struct (Fields.ofList l)) = true := by
  simp [Roundtrip.noDictDT, noDictFs_ofList l h]

mutual
theorem to_field_noDictF (o : Options) (h0 : o.overwrites = []) (hd : o.string_dictionary_encoding = false) :
    ∀ (t : Tracer) (f : Field), PrimsFlat t → NoUnion t → t.to_field o = .ok f → Roundtrip.noDictF f = true
  | .unknown n p nl, f, _, _, h => by
    simp only [Tracer.to_field, withOverwrite_nil o h0] at h
    split at h
    · simp [fail] at h
    · cases h; simp [Roundtrip.noDictF, Roundtrip.noDictDT]
  | .primitive n p nl ty st, f, hp, _, h => by
    simp only [PrimsFlat] at hp
    simp only [Tracer.to_field, withOverwrite_nil o h0, hd] at h
    split at h
    · simp [fail] at h
    · split at h
      · cases h; simp [Roundtrip.noDictF, Roundtrip.noDictDT]
      · split at h
        · split at h
          · cases h; rw [noDictF_mk]; exact noDict_flat ty hp
          · rename_i hc; simp at hc
        · cases h; rw [noDictF_mk]; exact noDict_flat ty hp
  | .list n p nl i, f, hp, hu, h => by
    simp only [PrimsFlat] at hp
    simp only [NoUnion] at hu
    simp only [Tracer.to_field, withOverwrite_nil o h0] at h
    obtain ⟨item, hi, h⟩ := side_bind_ok h
    have ih := to_field_noDictF o h0 hd i item hp hu hi
    cases h; rw [noDictF_mk]
    split <;> simpa [Roundtrip.noDictDT] using ih
  | .map n p nl k v, f, hp, hu, h => by
    simp only [PrimsFlat] at hp
    simp only [NoUnion] at hu
    simp only [Tracer.to_field, withOverwrite_nil o h0] at h
    obtain ⟨kf, hk, h⟩ := side_bind_ok h
    obtain ⟨vf, hv, h⟩ := side_bind_ok h
    have ihk := to_field_noDictF o h0 hd k kf hp.1 hu.1 hk
    have ihv := to_field_noDictF o h0 hd v vf hp.2 hu.2 hv
    cases h
    simp [Roundtrip.noDictF, Roundtrip.noDictDT, Roundtrip.noDictFs, Fields.ofList, ihk, ihv]
  | .struct n p nl fs mode s, f, hp, hu, h => by
    simp only [PrimsFlat] at hp
    simp only [NoUnion] at hu
    simp only [Tracer.to_field, withOverwrite_nil o h0] at h
    obtain ⟨fields, hfs, h⟩ := side_bind_ok h
    have ih := to_fieldsF_noDictF o h0 hd fs fields hp hu hfs
    cases mode with
    | struct => cases h; rw [noDictF_mk]; exact noDict_struct fields ih
    | map =>
      cases h; rw [noDictF_mk]
      exact noDict_struct _ (fun g hg => ih g ((mem_sortByName fields g).1 hg))
  | .tuple n p nl ts, f, hp, hu, h => by
    simp only [PrimsFlat] at hp
    simp only [NoUnion] at hu
    simp only [Tracer.to_field, withOverwrite_nil o h0] at h
    obtain ⟨fields, hfs, h⟩ := side_bind_ok h
    cases h; rw [noDictF_mk]
    exact noDict_struct fields (to_fieldsT_noDictF o h0 hd ts fields hp hu hfs)
  | .union _ _ _ _, _, _, hu, _ => by simp [NoUnion] at hu
theorem to_fieldsT_noDictF (o : Options) (h0 : o.overwrites = []) (hd : o.string_dictionary_encoding = false) :
    ∀ (ts : Tracers) (l : List Field), PrimsFlatT ts → NoUnionT ts → ts.to_fields o = .ok l →
      ∀ f ∈ l, Roundtrip.noDictF f = true
  | .nil, l, _, _, h => by
    simp only [Tracers.to_fields] at h; cases h; simp
  | .cons t r, l, hp, hu, h => by
    simp only [PrimsFlatT] at hp
    simp only [NoUnionT] at hu
    simp only [Tracers.to_fields] at h
    obtain ⟨f, hf, h⟩ := side_bind_ok h
    obtain ⟨fs, hfs, h⟩ := side_bind_ok h
    cases h
    intro g hg
    rcases List.mem_cons.1 hg with rfl | hg
    · exact to_field_noDictF o h0 hd t _ hp.1 hu.1 hf
    · exact to_fieldsT_noDictF o h0 hd r fs hp.2 hu.2 hfs g hg
theorem to_fieldsF_noDictF (o : Options) (h0 : o.overwrites = []) (hd : o.string_dictionary_encoding = false) :
    ∀ (fs : TFields) (l : List Field), PrimsFlatF fs → NoUnionF fs → fs.to_fields o = .ok l →
      ∀ f ∈ l, Roundtrip.noDictF f = true
  | .nil, l, _, _, h => by
    simp only [TFields.to_fields] at h; cases h; simp
  | .cons _ _ t r, l, hp, hu, h => by
    simp only [PrimsFlatF] at hp
    simp only [NoUnionF] at hu
    simp only [TFields.to_fields] at h
    obtain ⟨f, hf, h⟩ := side_bind_ok h
    obtain ⟨fs', hfs, h⟩ := side_bind_ok h
    cases h
    intro g hg
    rcases List.mem_cons.1 hg with rfl | hg
    · exact to_field_noDictF o h0 hd t _ hp.1 hu.1 hf
    · exact to_fieldsF_noDictF o h0 hd r fs' hp.2 hu.2 hfs g hg
end

/-- **no Dictionary / Union type in a traced field** when strings are not dictionary encoded and the tracer has no
union node -/
theorem to_field_noDict (o : Options) (h0 : o.overwrites = []) (hd : o.string_dictionary_encoding = false)
    (t : Tracer) (f : Field) (hp : PrimsFlat t) (hu : NoUnion t) (h : t.to_field o = .ok f) :
    Roundtrip.noDictDT f.dataType = true := by
  rw [← Roundtrip.noDictF_dt]; exact to_field_noDictF o h0 hd t f hp hu h

/-! ### the root: `to_schema` -/

/-- `to_schema` succeeds exactly on a non-nullable struct root and returns its children -/
theorem to_schema_ok (o : Options) (t : Tracer) (fields : List Field) (h : t.to_schema o = .ok fields) :
    ∃ n children md, t.to_field o = .ok (.mk n (.struct children) false md) ∧ fields = children.toList := by
  simp only [Tracer.to_schema] at h
  obtain ⟨root, hr, h⟩ := side_bind_ok h
  rcases root with ⟨n, dt, nl, md⟩
  simp only [Field.nullable, Field.dataType] at h
  cases nl with
  | true => simp [fail] at h
  | false =>
    cases dt <;> simp [fail] at h
    subst h
    exact ⟨n, _, md, hr, rfl⟩

/-- **the fields of a traced schema satisfy the schema side conditions of C01 / C03** -/
theorem to_schema_side (o : Options) (h0 : o.overwrites = []) (t : Tracer) (hp : PrimsFlat t) (fields : List Field)
    (h : t.to_schema o = .ok fields) :
    (∀ f ∈ fields, C03.SchemaOKF f) ∧ fields.all Build.coveredF = true := by
  obtain ⟨n, children, md, hr, rfl⟩ := to_schema_ok o t fields h
  have hs := to_field_side o h0 t _ hp hr
  simp only [C03.SchemaOKF, C03.SchemaOK, Build.coveredF, Build.covered] at hs
  have hall := Roundtrip.sideFs_toList children hs
  refine ⟨fun f hf => (hall f hf).1, ?_⟩
  rw [List.all_eq_true]
  exact fun f hf => (hall f hf).2

theorem to_schema_side_of_WF (o : Options) (h0 : o.overwrites = []) (t : Tracer) (hw : WF o t) (fields : List Field)
    (h : t.to_schema o = .ok fields) :
    (∀ f ∈ fields, C03.SchemaOKF f) ∧ fields.all Build.coveredF = true :=
  to_schema_side o h0 t (primsFlat_of_WF o t hw) fields h

/-- **`Safe` for the root builder of a traced schema** without dictionary-encoded strings and union nodes -/
theorem to_schema_safe (o : Options) (h0 : o.overwrites = []) (hd : o.string_dictionary_encoding = false)
    (t : Tracer) (hp : PrimsFlat t) (hu : NoUnion t) (fields : List Field) (h : t.to_schema o = .ok fields) :
    ∀ root0, Build.newRoot fields = .ok root0 → Build.Safe root0 := by
  intro root0 hroot
  obtain ⟨n, children, md, hr, rfl⟩ := to_schema_ok o t fields h
  have hb := Props.C03.newRoot_builtFor _ root0 hroot
  have hn := to_field_noDict o h0 hd t _ hp hu hr
  simp only [Field.dataType] at hn
  rw [Roundtrip.ofList_toList'] at hb
  exact (Roundtrip.safe_of_noDict root0 _ _ hb hn).1

theorem to_schema_safe_of_WF (o : Options) (h0 : o.overwrites = []) (hd : o.string_dictionary_encoding = false)
    (t : Tracer) (hw : WF o t) (hu : NoUnion t) (fields : List Field) (h : t.to_schema o = .ok fields) :
    ∀ root0, Build.newRoot fields = .ok root0 → Build.Safe root0 :=
  to_schema_safe o h0 hd t (primsFlat_of_WF o t hw) hu fields h

end SaModel.Lemmas.C06
