import SaModel.Lemmas.C06StableList
/-
C06 helpers, part 13: `absorb_stable : ∀ x, PS c o x` — absorbing ANY sample into a well-formed tracer yields a tracer
that stably accepts that sample (every tracer reachable from it absorbs the sample again, changing nothing but sample
counters).  Induction over nested samples, family by family.
-/
namespace SaModel.Lemmas.C06
open SaModel SaModel.Trace SaModel.Lemmas.C07 SaModel.Props.C07

/-! ### `ensure_*` on a node that already has the right kind -/

theorem ensure_list_id {n p : String} {nl : Bool} {i : Tracer}
    (hd : (Tracer.list n p nl i).enforce_depth_limit = .ok ()) :
    (Tracer.list n p nl i).ensure_list = .ok (.list n p nl i) := by
  unfold Tracer.ensure_list; rw [hd]; rfl

theorem ensure_map_id {n p : String} {nl : Bool} {k v : Tracer}
    (hd : (Tracer.map n p nl k v).enforce_depth_limit = .ok ()) :
    (Tracer.map n p nl k v).ensure_map = .ok (.map n p nl k v) := by
  unfold Tracer.ensure_map; rw [hd]; rfl

theorem ensure_union_id {n p : String} {nl : Bool} {vs : Variants}
    (hd : (Tracer.union n p nl vs).enforce_depth_limit = .ok ()) :
    (Tracer.union n p nl vs).ensure_union [] = .ok (.union n p nl vs) := by
  unfold Tracer.ensure_union; rw [hd]; rfl

theorem ensure_struct_id (c : Code) {n p : String} {nl : Bool} {fs : TFields} {m : StructMode} {s : Nat}
    (mode : StructMode) (hd : (Tracer.struct n p nl fs m s).enforce_depth_limit = .ok ()) :
    (Tracer.struct n p nl fs m s).ensure_struct c [] mode =
      .ok (.struct n p nl fs (if (c.struct_mode_join && mode == .map) = true then .map else m) s) := by
  unfold Tracer.ensure_struct; rw [hd]
  simp only [Tracer.is_unknown_or_null]
  by_cases hc : (c.struct_mode_join && mode == .map) = true
  · simp [hc]; rfl
  · simp [hc]; rfl

theorem ensure_tuple_id (c : Code) {n p : String} {nl : Bool} {ts : Tracers} (k : Nat)
    (hd : (Tracer.tuple n p nl ts).enforce_depth_limit = .ok ()) :
    (Tracer.tuple n p nl ts).ensure_tuple c k =
      .ok (.tuple n p nl (if c.tuple_arity_nullable = true then tupleGrowNullable p k (ts.markFrom k) else ts)) := by
  unfold Tracer.ensure_tuple; rw [hd]
  simp only [Tracer.is_unknown_or_null]
  by_cases hc : c.tuple_arity_nullable = true
  · simp [hc]; rfl
  · simp [hc]; rfl

theorem ensure_struct_mode (o : Options) {c : Code} {t : Tracer} {mode : StructMode} {n p : String} {nl : Bool}
    {fs : TFields} {m : StructMode} {s : Nat} (h : t.ensure_struct c [] mode = .ok (.struct n p nl fs m s))
    (hc : (c.struct_mode_join && mode == .map) = true) : m = .map := by
  rcases ensure_struct_shape h with hu | ⟨n0, p0, nl0, fs0, m0, s0, rfl⟩
  · unfold Tracer.ensure_struct at h
    obtain ⟨_, h⟩ := enforce_ok_or h
    rw [if_pos hu] at h
    cases h
    simp only [Bool.and_eq_true] at hc
    cases mode with
    | map => rfl
    | struct => exact absurd hc.2 (by decide)
  · obtain ⟨_, fs1, m1, s1, he, _, hi⟩ := ensure_struct_ok o c h
    cases he
    have := (hi _ _ _ _ _ _ rfl).2.2
    rw [this, if_pos hc]

theorem ensure_tuple_len (o : Options) {c : Code} {t : Tracer} {k : Nat} {n p : String} {nl : Bool} {ts : Tracers}
    (hc : c.tuple_arity_nullable = true) (h : t.ensure_tuple c k = .ok (.tuple n p nl ts)) : k ≤ ts.length := by
  rcases ensure_tuple_shape h with hu | ⟨n0, p0, nl0, ts0, rfl⟩
  · unfold Tracer.ensure_tuple at h
    obtain ⟨_, h⟩ := enforce_ok_or h
    rw [if_pos hu] at h
    cases h
    rw [mkTupleFields_length]; exact Nat.le_refl _
  · obtain ⟨_, ts1, he, _, _, hi⟩ := ensure_tuple_ok o c h
    cases he
    have := hi _ _ _ _ rfl
    rw [if_pos hc] at this
    rw [this]
    exact (tupleGrow_ext c o p0 k ts0).2.1

theorem ensure_variant_present {p : String} {vs : Variants} {vn : String} {idx : Nat} {vt : Tracer}
    (hl : idx < VARIANT_ALLOC_LIMIT) (hg : vs.get? idx = some (some (vn, vt))) :
    ensure_variant p vs vn idx = .ok vs := by
  unfold ensure_variant
  rw [if_neg (by omega)]
  have : idx + 1 - vs.length = 0 := by have := Variants.get?_lt hg; omega
  simp only [this, Variants.padNone_zero, hg]
  simp

/-! ### the families -/

theorem PS_seq (c : Code) (o : Options) (items : SVals) (ih : ∀ v ∈ items.toList, PS c o v) :
    PS c o (.seq items) := by
  intro t t' hw h t2 hw2 hs
  have hw' := absorb_wf c o _ t t' hw h
  obtain ⟨n, p, nl, i0, i1, h1, h2, rfl⟩ := (absorb_seq_ok c o t t' items).mp h
  obtain ⟨hd, i0', he, hwi, _⟩ := ensure_list_ok o h1
  cases he
  obtain ⟨nl2, i2, rfl, hsi⟩ := steps_extShape hw' hs
  have hd2 : (Tracer.list t.name t.path nl2 i2).enforce_depth_limit = .ok () :=
    Eq.trans (enforce_depth_limit_path rfl) hd
  obtain ⟨i3, h3, he3⟩ := absorbAll_stable c o _ ih i0 i1 (hwi hw) h2 i2 (by simpa [WF] using hw2) hsi
  exact ⟨.list t.name t.path nl2 i3,
    (absorb_seq_ok c o _ _ items).mpr ⟨_, _, _, i2, i3, ensure_list_id hd2, h3, rfl⟩, by simp only [erase, he3]⟩

theorem PS_asMap (c : Code) (o : Options) (x : SVal) (ks vs : List SVal) (hx : asMap o x = some (ks, vs))
    (ihk : ∀ v ∈ ks, PS c o v) (ihv : ∀ v ∈ vs, PS c o v) : PS c o x := by
  intro t t' hw h t2 hw2 hs
  have hw' := absorb_wf c o _ t t' hw h
  obtain ⟨n, p, nl, k0, v0, k1, v1, h1, h2, h3, rfl⟩ := (absorb_asMap_ok c o t t' x ks vs hx).mp h
  obtain ⟨hd, k0', v0', he, hwi, _⟩ := ensure_map_ok o h1
  cases he
  obtain ⟨nl2, k2, v2, rfl, hsk, hsv⟩ := steps_extShape hw' hs
  have hd2 : (Tracer.map t.name t.path nl2 k2 v2).enforce_depth_limit = .ok () :=
    Eq.trans (enforce_depth_limit_path rfl) hd
  simp only [WF] at hw2
  obtain ⟨k3, hk3, hek⟩ := absorbAll_stable c o _ ihk k0 k1 (hwi hw).1 h2 k2 hw2.1 hsk
  obtain ⟨v3, hv3, hev⟩ := absorbAll_stable c o _ ihv v0 v1 (hwi hw).2 h3 v2 hw2.2 hsv
  exact ⟨.map t.name t.path nl2 k3 v3,
    (absorb_asMap_ok c o _ _ x ks vs hx).mpr ⟨_, _, _, k2, v2, k3, v3, ensure_map_id hd2, hk3, hv3, rfl⟩,
    by simp only [erase, hek, hev]⟩

theorem PS_tuple (c : Code) (o : Options) (items : SVals) (ih : ∀ v ∈ items.toList, PS c o v) :
    PS c o (.tuple items) := by
  intro t t' hw h t2 hw2 hs
  have hw' := absorb_wf c o _ t t' hw h
  obtain ⟨n, p, nl, tsA, tsB, h1, h2, rfl⟩ := (absorb_tuple_ok c o t t' items).mp h
  obtain ⟨hd, tsA', he, hwA, hnulA, _⟩ := ensure_tuple_ok o c h1
  cases he
  obtain ⟨nl2, tsC, rfl, hext, hnew⟩ := steps_extShape hw' hs
  have hd2 : (Tracer.tuple t.name t.path nl2 tsC).enforce_depth_limit = .ok () :=
    Eq.trans (enforce_depth_limit_path rfl) hd
  obtain ⟨hAB, hlenAB, hk⟩ := absorbTupleL_ext c o _ items.toList tsA 0 tsB h2
  rw [SVals.length_toList] at hlenAB hk
  have hkB : items.length ≤ tsB.length := by
    by_cases h0 : items.length = 0
    · omega
    · have := hk (items.length - 1) (Nat.zero_le _) (by omega); omega
  have hkC : items.length ≤ tsC.length := Nat.le_trans hkB hext.length_le
  have hens : (Tracer.tuple t.name t.path nl2 tsC).ensure_tuple c items.length =
      .ok (.tuple t.name t.path nl2 tsC) := by
    rw [ensure_tuple_id c items.length hd2]
    by_cases hc : c.tuple_arity_nullable = true
    · rw [if_pos hc]
      have hnull : ∀ i x, tsC.get? i = some x → items.length ≤ i → x.nullable = true := by
        intro i x hg hki
        cases hb : tsB.get? i with
        | none => exact hnew hc i x hg hb
        | some b =>
          obtain ⟨x', hg', hs'⟩ := hext i b hb
          rw [hg] at hg'; cases hg'
          apply hs'.keeps.1
          cases ha : tsA.get? i with
          | none =>
            have hlenA := ensure_tuple_len o hc h1
            have := hlenAB (by omega)
            have h1' := Tracers.get?_lt hb
            rw [Tracers.get?_none_iff] at ha
            omega
          | some a =>
            obtain ⟨b', hb', hsb⟩ := hAB i a ha
            rw [hb] at hb'; cases hb'
            exact hsb.keeps.1 (hnulA hc i a ha hki)
      rw [markFrom_id tsC _ hnull, tupleGrowNullable_of_le _ _ _ hkC]
    · rw [if_neg hc]
  simp only [WF] at hw2
  obtain ⟨tsD, hD, heD⟩ := absorbTupleL_stable c o t.path t.path _ ih tsA 0 tsB (hwA hw) h2 tsC hw2 hext
  exact ⟨.tuple t.name t.path nl2 tsD,
    (absorb_tuple_ok c o _ _ items).mpr ⟨_, _, _, tsC, tsD, hens, hD, rfl⟩, by simp only [erase, heD]⟩

theorem PS_asStruct (c : Code) (o : Options) (x : SVal) (mode : StructMode) (rk : R (List (String × SVal)))
    (hx : asStruct o x = some (mode, rk)) (ih : ∀ kvs, rk = .ok kvs → ∀ kv ∈ kvs, PS c o kv.2) : PS c o x := by
  intro t t' hw h t2 hw2 hs
  have hw' := absorb_wf c o _ t t' hw h
  obtain ⟨kvs, n, p, nl, fsA, m, s, fsB, hk, h1, h2, rfl⟩ := (absorb_asStruct_ok c o t t' x mode rk hx).mp h
  obtain ⟨hd, fsA', m', s', he, hwA, _⟩ := ensure_struct_ok o c h1
  cases he
  obtain ⟨nl2, fs2, m2, s2, rfl, hfs, hss, hmm, hnew⟩ := steps_extShape hw' hs
  have hd2 : (Tracer.struct t.name t.path nl2 fs2 m2 s2).enforce_depth_limit = .ok () :=
    Eq.trans (enforce_depth_limit_path rfl) hd
  have hens : (Tracer.struct t.name t.path nl2 fs2 m2 s2).ensure_struct c [] mode =
      .ok (.struct t.name t.path nl2 fs2 m2 s2) := by
    rw [ensure_struct_id c mode hd2]
    by_cases hc : (c.struct_mode_join && mode == .map) = true
    · rw [if_pos hc, hmm (ensure_struct_mode o h1 hc)]
    · rw [if_neg hc]
  simp only [WF] at hw2
  have hwA1 : WFF o (s + 1) fsA := WFF_mono o (Nat.le_succ _) (hwA hw)
  obtain ⟨hendE, _⟩ := end_ext c o s fsB
  have hBC : FsExt c o fsB fs2 := hendE.trans hfs
  obtain ⟨fsD, hD, heD, hseen, _⟩ := absorbKVs_stable c o t.path t.path s s2 kvs (ih kvs hk) fsA fsB hwA1 h2 fs2
    (WFF_mono o (Nat.le_succ _) hw2) hBC
  obtain ⟨hCD, hnewD⟩ := absorbKVs_ext c o t.path s2 kvs fs2 fsD hD
  have hs2 : s2 ≠ 0 := by omega
  refine ⟨.struct t.name t.path nl2 (fsD.end_ s2) m2 (s2 + 1),
    (absorb_asStruct_ok c o _ _ x mode rk hx).mpr ⟨kvs, _, _, _, fs2, m2, s2, fsD, hk, hens, hD, rfl⟩, ?_⟩
  simp only [erase]
  rw [eraseF_end s2 fsD, heD]
  intro i tD l hgD hlD
  cases hg2 : fs2.get? i with
  | none => exact .inr (hnewD hs2 i tD hgD hg2)
  | some t2i =>
    obtain ⟨tD', hgD', hsD⟩ := hCD.1 i t2i hg2
    rw [hgD] at hgD'; cases hgD'
    cases hgE : (fsB.end_ s).get? i with
    | none => exact .inr (hsD.keeps.1 (hnew (by omega) i t2i hg2 hgE))
    | some e =>
      have hlt : i < fsB.length := by have := TFields.get?_lt hgE; rw [TFields.length_end] at this; exact this
      obtain ⟨b, hb⟩ := TFields.get?_of_lt hlt
      obtain ⟨lb, hlb⟩ := lastSeen?_of_lt hlt
      have hgE' := TFields.get?_end s fsB i b lb hb hlb
      rw [hgE] at hgE'
      simp only [Option.some.injEq] at hgE'
      obtain ⟨t2i', hg2', hsE⟩ := hfs.1 i e hgE
      rw [hg2] at hg2'; cases hg2'
      by_cases hlbs : lb = s
      · subst hlbs
        rcases absorbKVs_seen c o t.path lb kvs fsA fsB h2 i hlb with hA | ⟨kv, hkv, hidx⟩
        · have := ((WFF_iff o _ _).mp (hwA hw)).2 i lb hA
          omega
        · left
          have hidx2 : fs2.indexOf kv.1 = some i := hBC.2 _ _ hidx
          have := hseen kv hkv i hidx2
          rw [hlD] at this
          simpa using this
      · right
        apply hsD.keeps.1
        apply hsE.keeps.1
        have : (lb != s) = true := by simpa using hlbs
        rw [if_pos this] at hgE'
        rw [hgE']; exact mark_nullable_nullable b

theorem PS_newtypeVariant (c : Code) (o : Options) (nm : String) (idx : Nat) (vn : String) (v : SVal)
    (ih : PS c o v) : PS c o (.newtypeVariant nm idx vn v) := by
  intro t t' hw h t2 hw2 hs
  have hw' := absorb_wf c o _ t t' hw h
  obtain ⟨n, p, nl, vs0, vs, nm', vt, vt', h1, h2, h3, h4, rfl⟩ := (absorb_newtypeVariant_ok c o t t' nm idx vn v).mp h
  obtain ⟨hd, vs0', he, hwv0, _⟩ := ensure_union_ok o h1
  cases he
  obtain ⟨hlim, ⟨vt0, hvt0⟩, _, hnewv, _⟩ := ensure_variant_ok h2
  rw [h3] at hvt0
  simp only [Option.some.injEq, Prod.mk.injEq] at hvt0
  obtain ⟨rfl, rfl⟩ := hvt0
  have hwvt : WF o vt := by
    rcases hnewv idx nm' vt h3 with hh | hh
    · exact (WFV_iff o _).mp (hwv0 hw) idx nm' vt hh
    · rw [hh]; exact WF_new o _ _
  obtain ⟨nl2, vs2, rfl, hext⟩ := steps_extShape hw' hs
  have hd2 : (Tracer.union t.name t.path nl2 vs2).enforce_depth_limit = .ok () :=
    Eq.trans (enforce_depth_limit_path rfl) hd
  obtain ⟨c2, hc2, hsc2⟩ := hext idx nm' vt' (Variants.get?_set_eq _ _ _ _ (Variants.get?_lt h3))
  simp only [WF] at hw2
  have hwc2 : WF o c2 := (WFV_iff o _).mp hw2 idx nm' c2 hc2
  obtain ⟨c2', hac, hec⟩ := ih vt vt' hwvt h4 c2 hwc2 hsc2
  exact ⟨.union t.name t.path nl2 (vs2.set idx nm' c2'),
    (absorb_newtypeVariant_ok c o _ _ nm idx nm' v).mpr
      ⟨_, _, _, vs2, vs2, nm', c2, c2', ensure_union_id hd2, ensure_variant_present hlim hc2, hc2, hac, rfl⟩,
    by simp only [erase]; rw [eraseV_set_same vs2 idx nm' c2 c2' hc2 hec]⟩

/-- absorbing any sample into a well-formed tracer yields a tracer that stably accepts that sample -/
theorem absorb_stable (c : Code) (o : Options) : ∀ x : SVal, PS c o x := by
  apply sval_induct o (PS c o)
  · exact PS_leaf c o
  · exact PS_none c o
  · exact PS_some c o
  · exact PS_newtypeStruct c o
  · exact PS_seq c o
  · exact PS_tuple c o
  · intro n items ih t t' hw h t2 hw2 hs
    rw [absorb_tupleStruct] at h ⊢
    exact PS_tuple c o items ih t t' hw h t2 hw2 hs
  · intro n fs ih
    exact PS_asStruct c o _ .struct (.ok (SFields.kvs fs)) rfl (fun kvs hk => by cases hk; exact ih)
  · intro es ihk ihv
    by_cases hm : o.map_as_struct = true
    · exact PS_asStruct c o _ .map (SEntries.kvs es) (by simp [asStruct, hm])
        (fun kvs hk kv hkv => ihv _ (SEntries.kvs_vals es kvs hk kv hkv))
    · exact PS_asMap c o _ (SEntries.keys es) (SEntries.vals es) (by simp [asMap, hm]) ihk ihv
  · intro ops ihk ihv
    by_cases hm : o.map_as_struct = true
    · exact PS_asStruct c o _ .map (SMapOps.kvs none ops) (by simp [asStruct, hm])
        (fun kvs hk kv hkv => ihv _ (SMapOps.kvs_vals ops none kvs hk kv hkv))
    · exact PS_asMap c o _ (SMapOps.keys ops) (SMapOps.vals ops) (by simp [asMap, hm]) ihk ihv
  · intro n i vn t t' hw h t2 hw2 hs
    rw [absorb_unitVariant] at h ⊢
    exact PS_newtypeVariant c o n i vn .unit (PS_leaf c o .unit .null rfl) t t' hw h t2 hw2 hs
  · exact fun n i vn v ih => PS_newtypeVariant c o n i vn v ih
  · intro n i vn items ih t t' hw h t2 hw2 hs
    rw [absorb_tupleVariant] at h ⊢
    exact PS_newtypeVariant c o n i vn _ (PS_tuple c o items ih) t t' hw h t2 hw2 hs
  · intro n i vn fs ih t t' hw h t2 hw2 hs
    rw [absorb_structVariant] at h ⊢
    exact PS_newtypeVariant c o n i vn _
      (PS_asStruct c o _ .struct (.ok (SFields.kvs fs)) rfl (fun kvs hk => by cases hk; exact ih)) t t' hw h t2 hw2 hs

end SaModel.Lemmas.C06
