import SaModel.Lemmas.C06ExtStep
/-
C06 helpers, part 11: stable acceptance.  `Stable c o t x`: every well-formed tracer reachable from `t` absorbs `x`
again without any change except sample counters.  `PS c o x`: absorbing `x` into a well-formed tracer yields a tracer
that stably accepts `x`.  This file: leaves, `None`, `Some`, newtype structs.
-/
namespace SaModel.Lemmas.C06
open SaModel SaModel.Trace SaModel.Lemmas.C07 SaModel.Props.C07

/-- every well-formed tracer reachable from `t` absorbs `x` again, changing nothing but sample counters -/
def Stable (c : Code) (o : Options) (t : Tracer) (x : SVal) : Prop :=
  ∀ t2, WF o t2 → Steps c o t t2 → ∃ t3, absorb c o t2 x = .ok t3 ∧ erase t3 = erase t2

/-- absorbing `x` into a well-formed tracer gives a tracer that stably accepts `x` -/
def PS (c : Code) (o : Options) (x : SVal) : Prop := ∀ t t', WF o t → absorb c o t x = .ok t' → Stable c o t' x

theorem enforce_depth_limit_path {t t' : Tracer} (h : t'.path = t.path) :
    t'.enforce_depth_limit = t.enforce_depth_limit := by
  unfold Tracer.enforce_depth_limit Tracer.get_depth; rw [h]

theorem ensure_primitive_null_nullable (o : Options) {t t' : Tracer} (hw : WF o t)
    (h : t.ensure_primitive o .null = .ok t') : t'.nullable = true := by
  cases t with
  | unknown n p nl =>
    simp only [Tracer.ensure_primitive, Tracer.ensure_primitive_with_strategy] at h; cases h
    simp [Tracer.nullable, isNull]
  | primitive n p nl pty st =>
    simp only [WF] at hw
    obtain ⟨rfl, hs⟩ := hw
    have e := ensure_primitive_embed o n p (some pty, nl) .null
    simp only [LeafSt.embed] at e
    rw [e] at h
    have ht := table_at nullTable_all o
    unfold nullTable at ht
    rw [leafStates_coerceView] at hs
    have hr := List.all_eq_true.mp ht _ hs
    rw [← act_coerceView] at hr
    cases ha : act o (some pty, nl) .null with
    | error e' => rw [ha] at h; cases h
    | ok s' =>
      rw [ha] at h hr; cases h
      obtain ⟨t2, nl2⟩ := s'
      simp only at hr; subst hr
      cases t2 <;> rfl
  | _ =>
    simp only [Tracer.ensure_primitive, Tracer.ensure_primitive_with_strategy, isNull, if_true] at h
    cases h; rfl

theorem ensure_primitive_null_id (o : Options) {t : Tracer} (hw : WF o t) (hn : t.nullable = true)
    (hu : isUnknown t = false) : t.ensure_primitive o .null = .ok t := by
  cases t with
  | unknown n p nl => simp [isUnknown] at hu
  | primitive n p nl ty st =>
    simp only [WF] at hw
    obtain ⟨rfl, _⟩ := hw
    simp only [Tracer.nullable] at hn; subst hn
    simp only [Tracer.ensure_primitive, Tracer.ensure_primitive_with_strategy, coerce_primitive_type]
    by_cases hty : ty = .null
    · subst hty; simp; rfl
    · rw [if_neg (by intro h'; exact hty h'.1), if_neg hty]; simp; rfl
  | _ =>
    simp only [Tracer.ensure_primitive, Tracer.ensure_primitive_with_strategy, isNull, if_true]
    simp only [Tracer.nullable] at hn; subst hn; rfl

/-- a leaf node as an embedded leaf state -/
theorem leaf_node_cases (t : Tracer) :
    (∃ n p s, t = LeafSt.embed n p s ∧ s.1 = none) ∨ (∃ n p nl ty st, t = .primitive n p nl ty st) ∨
    (isUnknown t = false ∧ ∀ n p nl pty st, t ≠ .primitive n p nl pty st) := by
  cases t with
  | unknown n p nl => exact .inl ⟨n, p, (none, nl), rfl, rfl⟩
  | primitive n p nl ty st => exact .inr (.inl ⟨n, p, nl, ty, st, rfl⟩)
  | _ => exact .inr (.inr ⟨rfl, fun _ _ _ _ _ h => by cases h⟩)

theorem PS_leaf (c : Code) (o : Options) (x : SVal) (a : DataType) (hx : leafTypeOf o x = some a) : PS c o x := by
  intro t t' hw h t2 hw2 hs
  have ha := leafTypeOf_mem o hx
  rw [absorb_prim c o t hx] at h
  rw [absorb_prim c o t2 hx]
  by_cases hnull : a = .null
  · subst hnull
    have h1 := ensure_primitive_null_nullable o hw h
    have h2 := (ensure_primitive_mono o h).2.1
    exact ⟨t2, ensure_primitive_null_id o hw2 (hs.keeps.1 h1) (hs.keeps.2.1 h2), rfl⟩
  · -- `t` is a leaf node with state `s`; `t' = embed s'` with a non-null type that has absorbed `a`
    have key : ∃ n p ty' nl', t' = .primitive n p nl' ty' none ∧ ty' ≠ .null ∧ (some ty', nl') ∈ leafStates o ∧
        act o (some ty', nl') a = .ok (some ty', nl') := by
      have main : ∀ n p (s : LeafSt), s ∈ leafStates o → t = LeafSt.embed n p s →
          ∃ n p ty' nl', t' = .primitive n p nl' ty' none ∧ ty' ≠ .null ∧ (some ty', nl') ∈ leafStates o ∧
            act o (some ty', nl') a = .ok (some ty', nl') := by
        intro n p s hs' ht
        subst ht
        have e := ensure_primitive_embed o n p s a
        rw [e] at h
        cases hact : act o s a with
        | error e' => rw [hact] at h; cases h
        | ok s' =>
          rw [hact] at h; cases h
          obtain ⟨hm, _, hidem⟩ := step_facts o hs' ha hact
          obtain ⟨ty', h1, h2⟩ := act_nonnull o hs' ha hact
          obtain ⟨t2', nl'⟩ := s'
          simp only at h1; subst h1
          exact ⟨n, p, ty', nl', rfl, h2 (.inl hnull), hm, hidem⟩
      rcases leaf_node_cases t with ⟨n, p, s, ht, hs1⟩ | ⟨n, p, nl, ty, st, ht⟩ | hc
      · obtain ⟨s1, s2⟩ := s
        simp only at hs1; subst hs1
        exact main n p _ (unknown_mem o s2) ht
      · subst ht
        simp only [WF] at hw
        obtain ⟨rfl, hs'⟩ := hw
        exact main n p (some ty, nl) hs' rfl
      · exact absurd (ensure_primitive_container hc h).2 hnull
    obtain ⟨n, p, ty', nl', rfl, hty', hm, hidem⟩ := key
    have hw' : WF o (.primitive n p nl' ty' none) := by simp only [WF]; exact ⟨trivial, hm⟩
    obtain ⟨nl2, ty2, rfl, _, ys, hys, hrun⟩ := steps_extShape hw' hs hty'
    have hstay := run_stays o ha ys _ _ hm hys hidem hrun
    have e := ensure_primitive_embed o n p (some ty2, nl2) a
    simp only [LeafSt.embed] at e
    rw [e, hstay]
    exact ⟨_, rfl, rfl⟩

theorem PS_none (c : Code) (o : Options) : PS c o .none := by
  intro t t' _ h t2 _ hs
  rw [absorb_none] at h; cases h
  rw [absorb_none]
  exact ⟨_, rfl, by rw [mark_nullable_of_nullable (hs.keeps.1 (mark_nullable_nullable t))]⟩

theorem PS_some (c : Code) (o : Options) (v : SVal) (ih : PS c o v) : PS c o (.some v) := by
  intro t t' hw h t2 hw2 hs
  rw [absorb_some] at h
  have hn : t'.nullable = true := (absorb_keeps c o v _ _ h).1 (mark_nullable_nullable t)
  rw [absorb_some, mark_nullable_of_nullable (hs.keeps.1 hn)]
  exact ih _ _ (WF_mark_nullable o hw) h t2 hw2 hs

theorem PS_newtypeStruct (c : Code) (o : Options) (n : String) (v : SVal) (ih : PS c o v) :
    PS c o (.newtypeStruct n v) := by
  intro t t' hw h t2 hw2 hs
  rw [absorb_newtypeStruct] at h
  rw [absorb_newtypeStruct]
  exact ih _ _ hw h t2 hw2 hs

end SaModel.Lemmas.C06
