import SaModel.Lemmas.C06StableLeaf
/-
C06 helpers, part 12: stable acceptance for the passes of the compound serializers (elements of a sequence, positions of
a tuple, fields of a struct), by list induction over the children of the sample.
-/
namespace SaModel.Lemmas.C06
open SaModel SaModel.Trace SaModel.Lemmas.C07 SaModel.Props.C07

/-! ### sequences (also map keys / map values) -/

theorem absorbAll_stable (c : Code) (o : Options) : ∀ vs : List SVal, (∀ v ∈ vs, PS c o v) →
    ∀ i0 i1, WF o i0 → absorbAll c o i0 vs = .ok i1 →
    ∀ i2, WF o i2 → Steps c o i1 i2 → ∃ i3, absorbAll c o i2 vs = .ok i3 ∧ erase i3 = erase i2
  | [], _, i0, i1, _, h, i2, _, _ => ⟨i2, rfl, rfl⟩
  | v :: vs, hp, i0, i1, hw0, h, i2, hw2, hs => by
    rw [absorbAll_cons] at h
    cases ha : absorb c o i0 v with
    | error e => rw [ha] at h; cases h
    | ok j =>
      rw [ha] at h
      have hwj := absorb_wf c o v i0 j hw0 ha
      have hsj : Steps c o j i1 := ⟨vs, h⟩
      obtain ⟨j', ha', he'⟩ := hp v (by simp) i0 j hw0 ha i2 hw2 (hsj.trans hs)
      have hwj' := absorb_wf c o v i2 j' hw2 ha'
      obtain ⟨i3, h3, he3⟩ := absorbAll_stable c o vs (fun x hx => hp x (by simp [hx])) j i1 hwj h j' hwj'
        (hs.trans (Steps.single ha'))
      exact ⟨i3, by rw [absorbAll_cons, ha']; exact h3, by rw [he3, he']⟩

/-! ### tuples -/

theorem markFrom_id : ∀ (ts : Tracers) (k : Nat), (∀ i t, ts.get? i = some t → k ≤ i → t.nullable = true) →
    ts.markFrom k = ts
  | .nil, _, _ => rfl
  | .cons t r, 0, h => by
    simp only [Tracers.markFrom]
    rw [mark_nullable_of_nullable (h 0 t rfl (Nat.le_refl 0)),
      markFrom_id r 0 (fun i t' hg _ => h (i + 1) t' hg (Nat.zero_le _))]
  | .cons t r, k + 1, h => by
    simp only [Tracers.markFrom]
    rw [markFrom_id r k (fun i t' hg hk => h (i + 1) t' hg (by omega))]

theorem absorbTupleL_stable (c : Code) (o : Options) (path path2 : String) : ∀ vs : List SVal,
    (∀ v ∈ vs, PS c o v) → ∀ tsA pos tsB, WFT o tsA → absorbTupleL c o path tsA pos vs = .ok tsB →
    ∀ tsC, WFT o tsC → TsExt c o tsB tsC →
    ∃ tsD, absorbTupleL c o path2 tsC pos vs = .ok tsD ∧ eraseT tsD = eraseT tsC
  | [], _, tsA, pos, tsB, _, h, tsC, _, _ => ⟨tsC, rfl, rfl⟩
  | v :: vs, hp, tsA, pos, tsB, hwA, h, tsC, hwC, hext => by
    simp only [absorbTupleL] at h
    have hwA' := WFT_field_tracer_grow o path pos hwA
    cases hg : (field_tracer_grow path pos tsA).get? pos with
    | none => rw [hg] at h; cases h
    | some ft =>
      rw [hg] at h; simp only at h
      cases ha : absorb c o ft v with
      | error e => rw [ha] at h; cases h
      | ok ft' =>
        rw [ha] at h; simp only at h
        have hft : WF o ft := (WFT_iff o _).mp hwA' _ _ hg
        have hft' := absorb_wf c o v ft ft' hft ha
        obtain ⟨hmidB, _, _⟩ := absorbTupleL_ext c o path vs _ (pos + 1) tsB h
        have hmid : ((field_tracer_grow path pos tsA).set pos ft').get? pos = some ft' :=
          Tracers.get?_set_eq _ pos ft' (Tracers.get?_lt hg)
        obtain ⟨b, hb, hsb⟩ := hmidB pos ft' hmid
        obtain ⟨cC, hcC, hsC⟩ := hext pos b hb
        have hwcC : WF o cC := (WFT_iff o _).mp hwC _ _ hcC
        obtain ⟨cC', hac, hec⟩ := hp v (by simp) ft ft' hft ha cC hwcC (hsb.trans hsC)
        have hwcC' := absorb_wf c o v cC cC' hwcC hac
        obtain ⟨tsD, hD, heD⟩ := absorbTupleL_stable c o path path2 vs (fun x hx => hp x (by simp [hx])) _ (pos + 1) tsB
          (WFT_set o pos hwA' hft') h (tsC.set pos cC') (WFT_set o pos hwC hwcC')
          (hext.trans (setT_ext c o tsC pos cC cC' hcC (Steps.single hac)))
        refine ⟨tsD, ?_, by rw [heD, eraseT_set_same tsC pos cC cC' hcC hec]⟩
        simp only [absorbTupleL]
        rw [field_tracer_grow_of_lt path2 pos tsC (Tracers.get?_lt hcC), hcC]
        simp only
        rw [hac]
        exact hD

/-! ### struct fields -/

theorem WFF_setLastSeen (o : Options) (s : Nat) {fs : TFields} (i : Nat) (h : WFF o (s + 1) fs) :
    WFF o (s + 1) (fs.setLastSeen i s) := by
  rw [WFF_iff] at h ⊢
  refine ⟨fun j t hj => h.1 j t (by rw [TFields.get?_setLastSeen] at hj; exact hj), ?_⟩
  intro j l hl
  by_cases e : i = j
  · subst e
    have hlt := lastSeen?_lt hl
    rw [TFields.length_setLastSeen] at hlt
    rw [lastSeen?_setLastSeen_eq _ _ _ hlt] at hl; cases hl; omega
  · rw [lastSeen?_setLastSeen_ne _ _ _ _ e] at hl; exact h.2 j l hl

theorem ensure_field_lastSeen_ne (path : String) (s : Nat) (fs : TFields) (k : String) (i l : Nat)
    (hne : i ≠ (ensure_field path s fs k).1) (h : lastSeen? (ensure_field path s fs k).2 i = some l) :
    lastSeen? fs i = some l := by
  cases hi : fs.indexOf k with
  | some j =>
    rw [ensure_field_found hi] at hne h
    simp only at hne h
    rw [lastSeen?_setLastSeen_ne _ _ _ _ (Ne.symm hne)] at h; exact h
  | none =>
    rw [ensure_field_new hi] at hne h
    simp only at hne h
    have hlt := lastSeen?_lt h
    rw [TFields.length_push] at hlt
    rw [lastSeen?_push_lt _ _ _ _ _ (by omega)] at h; exact h

/-- a field whose counter equals the current sample number was either so before the pass or is named by the sample -/
theorem absorbKVs_seen (c : Code) (o : Options) (path : String) (s : Nat) : ∀ (kvs : List (String × SVal))
    (fsA fsB : TFields), absorbKVs c o path s fsA kvs = .ok fsB →
    ∀ i, lastSeen? fsB i = some s → lastSeen? fsA i = some s ∨ ∃ kv ∈ kvs, fsB.indexOf kv.1 = some i
  | [], fsA, fsB, h, i, hl => by simp [absorbKVs] at h; subst h; exact .inl hl
  | kv :: kvs, fsA, fsB, h, i, hl => by
    simp only [absorbKVs] at h
    cases hg : (ensure_field path s fsA kv.1).2.get? (ensure_field path s fsA kv.1).1 with
    | none => rw [hg] at h; cases h
    | some ft =>
      rw [hg] at h; simp only at h
      cases ha : absorb c o ft kv.2 with
      | error e => rw [ha] at h; cases h
      | ok ft' =>
        rw [ha] at h; simp only at h
        rcases absorbKVs_seen c o path s kvs _ fsB h i hl with h1 | ⟨kv', hkv', h2⟩
        · rw [lastSeen?_set] at h1
          by_cases e : i = (ensure_field path s fsA kv.1).1
          · right
            refine ⟨kv, by simp, ?_⟩
            have hidx := ensure_field_indexOf path s fsA kv.1
            rw [← TFields.indexOf_set _ (ensure_field path s fsA kv.1).1 ft'] at hidx
            rw [e]
            exact (absorbKVs_ext c o path s kvs _ fsB h).1.2 _ _ hidx
          · exact .inl (ensure_field_lastSeen_ne path s fsA kv.1 i s e h1)
        · exact .inr ⟨kv', by simp [hkv'], h2⟩

theorem absorbKVs_stable (c : Code) (o : Options) (path path2 : String) (s s2 : Nat) :
    ∀ kvs : List (String × SVal), (∀ kv ∈ kvs, PS c o kv.2) →
    ∀ fsA fsB, WFF o (s + 1) fsA → absorbKVs c o path s fsA kvs = .ok fsB →
    ∀ fsC, WFF o (s2 + 1) fsC → FsExt c o fsB fsC →
    ∃ fsD, absorbKVs c o path2 s2 fsC kvs = .ok fsD ∧ eraseF fsD = eraseF fsC ∧
      (∀ kv ∈ kvs, ∀ i, fsC.indexOf kv.1 = some i → lastSeen? fsD i = some s2) ∧
      (∀ i, lastSeen? fsC i = some s2 → lastSeen? fsD i = some s2)
  | [], _, fsA, fsB, _, h, fsC, _, _ => ⟨fsC, rfl, rfl, fun kv hkv => by simp at hkv, fun _ h => h⟩
  | kv :: kvs, hp, fsA, fsB, hwA, h, fsC, hwC, hext => by
    simp only [absorbKVs] at h
    have hwA' := ensure_field_wff o path s kv.1 hwA
    cases hg : (ensure_field path s fsA kv.1).2.get? (ensure_field path s fsA kv.1).1 with
    | none => rw [hg] at h; cases h
    | some ft =>
      rw [hg] at h; simp only at h
      cases ha : absorb c o ft kv.2 with
      | error e => rw [ha] at h; cases h
      | ok ft' =>
        rw [ha] at h; simp only at h
        have hft : WF o ft := ((WFF_iff o _ _).mp hwA').1 _ _ hg
        have hft' := absorb_wf c o kv.2 ft ft' hft ha
        have hmidB := (absorbKVs_ext c o path s kvs _ fsB h).1
        have hidx : ((ensure_field path s fsA kv.1).2.set (ensure_field path s fsA kv.1).1 ft').indexOf kv.1 =
            some (ensure_field path s fsA kv.1).1 := by
          rw [TFields.indexOf_set]; exact ensure_field_indexOf path s fsA kv.1
        have hmid : ((ensure_field path s fsA kv.1).2.set (ensure_field path s fsA kv.1).1 ft').get?
            (ensure_field path s fsA kv.1).1 = some ft' :=
          TFields.get?_set_eq _ _ ft' (TFields.get?_lt hg)
        generalize (ensure_field path s fsA kv.1).1 = idx at *
        obtain ⟨b, hb, hsb⟩ := hmidB.1 idx ft' hmid
        obtain ⟨cC, hcC, hsC⟩ := hext.1 idx b hb
        have hidxC : fsC.indexOf kv.1 = some idx := hext.2 _ _ (hmidB.2 _ _ hidx)
        have hwcC : WF o cC := ((WFF_iff o _ _).mp hwC).1 _ _ hcC
        obtain ⟨cC', hac, hec⟩ := hp kv (by simp) ft ft' hft ha cC hwcC (hsb.trans hsC)
        have hwcC' := absorb_wf c o kv.2 cC cC' hwcC hac
        have hcC2 : (fsC.setLastSeen idx s2).get? idx = some cC := by rw [TFields.get?_setLastSeen]; exact hcC
        have hext' : FsExt c o fsC ((fsC.setLastSeen idx s2).set idx cC') := by
          have e1 : FsExt c o fsC (fsC.setLastSeen idx s2) :=
            ⟨fun j t hj => ⟨t, by rw [TFields.get?_setLastSeen]; exact hj, Steps.refl c o t⟩,
              fun k j hj => by rw [TFields.indexOf_setLastSeen]; exact hj⟩
          exact e1.trans (set_ext c o _ idx cC cC' hcC2 (Steps.single hac)).1
        obtain ⟨fsD, hD, heD, hseen, hkept⟩ := absorbKVs_stable c o path path2 s s2 kvs
          (fun x hx => hp x (by simp [hx])) _ fsB (WFF_set o _ idx hwA' hft') h
          ((fsC.setLastSeen idx s2).set idx cC') (WFF_set o _ idx (WFF_setLastSeen o s2 idx hwC) hwcC')
          (hext.trans hext')
        have hls : lastSeen? ((fsC.setLastSeen idx s2).set idx cC') idx = some s2 := by
          rw [lastSeen?_set]; exact lastSeen?_setLastSeen_eq fsC idx s2 (TFields.get?_lt hcC)
        refine ⟨fsD, ?_, ?_, ?_, ?_⟩
        · simp only [absorbKVs]
          rw [ensure_field_found hidxC]
          simp only
          rw [hcC2]
          simp only
          rw [hac]
          exact hD
        · rw [heD, eraseF_set_same _ idx cC cC' hcC2 hec, eraseF_setLastSeen]
        · intro kv' hkv' i hi
          simp only [List.mem_cons] at hkv'
          rcases hkv' with rfl | hkv'
          · rw [hidxC] at hi; cases hi
            exact hkept idx hls
          · exact hseen kv' hkv' i (by rw [TFields.indexOf_set, TFields.indexOf_setLastSeen]; exact hi)
        · intro i hi
          apply hkept
          rw [lastSeen?_set]
          by_cases e : idx = i
          · subst e; rw [lastSeen?_set] at hls; exact hls
          · rw [lastSeen?_setLastSeen_ne _ _ _ _ e]; exact hi

end SaModel.Lemmas.C06
